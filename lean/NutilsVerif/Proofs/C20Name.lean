import NutilsVerif.Proofs.C20Dim
/-!
# C20 — the class name determines the exponent vector (helper lemmas)

`dimOfName (name d) = d` for canonical `d` over valid base symbols: the text produced by `from_powers` is taken
apart again by `_split_factors` into exactly the factors it was built from (in whatever order they were
written), every factor decodes to its base and the absolute value of its exponent, and the sign is recovered from
the separator.
-/
namespace NutilsVerif.C20

/-! ## splitting -/

theorem splitOn_ne_nil (c : Char) (s : List Char) : splitOn c s ≠ [] := by
  induction s with
  | nil => simp [splitOn]
  | cons x t ih =>
    simp only [splitOn]
    split
    · simp
    · split <;> simp

theorem splitOn_cons_sep (c : Char) (s : List Char) : splitOn c (c :: s) = [] :: splitOn c s := by
  simp [splitOn]

/-- characters that are not the separator are prepended to the first part -/
theorem splitOn_append_left (c : Char) (pre s : List Char) (h : c ∉ pre) :
    splitOn c (pre ++ s) = match splitOn c s with
      | [] => [pre]
      | p :: r => (pre ++ p) :: r := by
  induction pre with
  | nil =>
    simp only [List.nil_append]
    split
    · rename_i h0; exact absurd h0 (splitOn_ne_nil c s)
    · rename_i h0; exact h0
  | cons x t ih =>
    have hx : x ≠ c := fun e => h (e ▸ List.mem_cons_self ..)
    have ht : c ∉ t := fun e => h (List.mem_cons_of_mem _ e)
    rw [List.cons_append]
    simp only [splitOn, if_neg hx]
    rw [ih ht]
    cases hs : splitOn c s with
    | nil => exact absurd hs (splitOn_ne_nil c s)
    | cons p r => simp

/-- the factors of one `*`-part: pieces between `/`, the first one is a numerator -/
def partFactors (part : List Char) : List (List Char × Bool) :=
  ((splitOn '/' part).zipIdx.filter (fun fi => fi.1 ≠ [])).map fun fi => (fi.1, fi.2 == 0)

theorem rawFactors_eq (s : List Char) : rawFactors s = (splitOn '*' s).flatMap partFactors := rfl

def negs (ps : List (List Char)) : List (List Char × Bool) := (ps.filter (· ≠ [])).map fun f => (f, false)

theorem zipIdx_filter_map_pos (ps : List (List Char)) (n : Nat) :
    ((ps.zipIdx (n + 1)).filter (fun fi => fi.1 ≠ [])).map (fun fi => (fi.1, fi.2 == 0)) = negs ps := by
  induction ps generalizing n with
  | nil => rfl
  | cons p t ih =>
    simp only [List.zipIdx_cons, negs]
    by_cases hp : p = []
    · subst hp
      simp only [List.filter_cons]
      simp only [ne_eq, not_true_eq_false, decide_false, Bool.false_eq_true, ↓reduceIte]
      exact ih (n + 1)
    · simp only [List.filter_cons, ne_eq, hp, not_false_eq_true, decide_true, ↓reduceIte, List.map_cons]
      have := ih (n + 1)
      simp only [negs] at this
      rw [this]
      simp

theorem partFactors_of_split {part first : List Char} {rest : List (List Char)} (h : splitOn '/' part = first :: rest) :
    partFactors part = (if first ≠ [] then [(first, true)] else []) ++ negs rest := by
  unfold partFactors
  rw [h, List.zipIdx_cons]
  by_cases hf : first = []
  · subst hf
    simp only [List.filter_cons, ne_eq, not_true_eq_false, decide_false, Bool.false_eq_true, ↓reduceIte, List.nil_append]
    exact zipIdx_filter_map_pos rest 0
  · simp only [List.filter_cons, ne_eq, hf, not_false_eq_true, decide_true, ↓reduceIte, List.map_cons, List.singleton_append]
    rw [zipIdx_filter_map_pos rest 0]
    simp

/-- a `*`-part that starts with a separator (or is empty) has no numerator -/
def EmptyFirst (h : List Char) : Prop := ∃ ps, splitOn '/' h = [] :: ps

theorem emptyFirst_nil : EmptyFirst [] := ⟨[], by simp [splitOn]⟩
theorem emptyFirst_slash (s : List Char) : EmptyFirst ('/' :: s) := ⟨_, splitOn_cons_sep '/' s⟩

theorem partFactors_body_append {body h : List Char} (hb : body ≠ []) (hs : '/' ∉ body) (he : EmptyFirst h) :
    partFactors (body ++ h) = (body, true) :: partFactors h := by
  obtain ⟨ps, hps⟩ := he
  have h1 : splitOn '/' (body ++ h) = body :: ps := by
    rw [splitOn_append_left '/' body h hs, hps]; simp
  rw [partFactors_of_split h1, partFactors_of_split hps]
  simp [hb]

theorem partFactors_slash_body_append {body h : List Char} (hb : body ≠ []) (hs : '/' ∉ body) (he : EmptyFirst h) :
    partFactors ('/' :: (body ++ h)) = (body, false) :: partFactors h := by
  obtain ⟨ps, hps⟩ := he
  have h1 : splitOn '/' ('/' :: (body ++ h)) = [] :: body :: ps := by
    rw [splitOn_cons_sep, splitOn_append_left '/' body h hs, hps]; simp
  rw [partFactors_of_split h1, partFactors_of_split hps]
  simp [negs, hb]

/-- the text of a list of signed factor bodies -/
def factorsText (L : List (Bool × List Char)) : List Char :=
  L.flatMap fun x => (if x.1 then '*' else '/') :: x.2

theorem rawFactors_factorsText_aux (L : List (Bool × List Char))
    (hL : ∀ x ∈ L, x.2 ≠ [] ∧ '*' ∉ x.2 ∧ '/' ∉ x.2) :
    ∃ h r, splitOn '*' (factorsText L) = h :: r ∧ EmptyFirst h ∧
      partFactors h ++ r.flatMap partFactors = L.map fun x => (x.2, x.1) := by
  induction L with
  | nil => exact ⟨[], [], by simp [factorsText, splitOn], emptyFirst_nil, by simp [partFactors, splitOn]⟩
  | cons x L ih =>
    obtain ⟨pos, body⟩ := x
    obtain ⟨hb, hst, hsl⟩ := hL (pos, body) (List.mem_cons_self ..)
    obtain ⟨h', r', hsp, hef, hres⟩ := ih (fun y hy => hL y (List.mem_cons_of_mem _ hy))
    have htext : factorsText ((pos, body) :: L) = (if pos then '*' else '/') :: (body ++ factorsText L) := by
      simp [factorsText]
    cases pos with
    | true =>
      refine ⟨[], (body ++ h') :: r', ?_, emptyFirst_nil, ?_⟩
      · rw [htext]; simp only [if_true]
        rw [splitOn_cons_sep, splitOn_append_left '*' body _ hst, hsp]
      · have : partFactors [] = [] := by simp [partFactors, splitOn]
        rw [this, List.nil_append, List.flatMap_cons, partFactors_body_append hb hsl hef, List.cons_append, hres]
        simp
    | false =>
      refine ⟨'/' :: (body ++ h'), r', ?_, emptyFirst_slash _, ?_⟩
      · rw [htext]
        simp only [Bool.false_eq_true, if_false]
        have hns : '*' ∉ '/' :: body := by
          intro hm; rcases List.mem_cons.mp hm with e | e
          · exact absurd e (by decide)
          · exact hst e
        have := splitOn_append_left '*' ('/' :: body) (factorsText L) hns
        rw [hsp] at this
        simpa using this
      · rw [partFactors_slash_body_append hb hsl hef, List.cons_append, hres]
        simp

theorem rawFactors_factorsText (L : List (Bool × List Char))
    (hL : ∀ x ∈ L, x.2 ≠ [] ∧ '*' ∉ x.2 ∧ '/' ∉ x.2) :
    rawFactors (factorsText L) = L.map fun x => (x.2, x.1) := by
  obtain ⟨h, r, hsp, _, hres⟩ := rawFactors_factorsText_aux L hL
  rw [rawFactors_eq, hsp, List.flatMap_cons, hres]

theorem rawFactors_star (s : List Char) : rawFactors ('*' :: s) = rawFactors s := by
  rw [rawFactors_eq, rawFactors_eq, splitOn_cons_sep, List.flatMap_cons]
  simp [partFactors, splitOn]

theorem rawFactors_lstripStar (s : List Char) : rawFactors (lstripStar s) = rawFactors s := by
  induction s with
  | nil => rfl
  | cons x t ih =>
    by_cases hx : x = '*'
    · subst hx
      rw [rawFactors_star]
      simpa [lstripStar] using ih
    · unfold lstripStar
      split
      · rename_i heq; exact absurd (List.cons.inj heq).1 hx
      · rfl

/-! ## decoding one factor -/

theorem dropWhile_append_all {α} (p : α → Bool) (l1 l2 : List α) (h : ∀ x ∈ l1, p x = true) :
    (l1 ++ l2).dropWhile p = l2.dropWhile p := by
  induction l1 with
  | nil => rfl
  | cons x t ih =>
    rw [List.cons_append, List.dropWhile_cons, if_pos (h x (List.mem_cons_self ..))]
    exact ih (fun y hy => h y (List.mem_cons_of_mem _ hy))

theorem takeWhile_append_all {α} (p : α → Bool) (l1 l2 : List α) (h : ∀ x ∈ l1, p x = true) :
    (l1 ++ l2).takeWhile p = l1 ++ l2.takeWhile p := by
  induction l1 with
  | nil => rfl
  | cons x t ih =>
    rw [List.cons_append, List.takeWhile_cons, if_pos (h x (List.mem_cons_self ..)), List.cons_append]
    rw [ih (fun y hy => h y (List.mem_cons_of_mem _ hy))]

/-- `rstrip` of the power characters stops at the last character of a valid base -/
theorem rstrip_base_suffix (base suf : List Char) (hs : ∀ c ∈ suf, isPowChar c = true)
    (hl : ∀ c, base.getLast? = some c → isPowChar c = false) (hne : base ≠ []) :
    rstripPow (base ++ suf) = base ∧ powSuffix (base ++ suf) = suf := by
  unfold rstripPow powSuffix
  rw [List.reverse_append]
  have hrs : ∀ c ∈ suf.reverse, isPowChar c = true := fun c hc => hs c (List.mem_reverse.mp hc)
  obtain ⟨c, hc⟩ : ∃ c, base.getLast? = some c := by
    cases hb : base.getLast? with
    | none => exact absurd (List.getLast?_eq_none_iff.mp hb) hne
    | some c => exact ⟨c, rfl⟩
  have hhead : ∃ t, base.reverse = c :: t := by
    have : base.reverse.head? = some c := by rw [List.head?_reverse]; exact hc
    cases hr : base.reverse with
    | nil => rw [hr] at this; cases this
    | cons y t => rw [hr] at this; simp at this; exact ⟨t, by rw [this]⟩
  obtain ⟨t, ht⟩ := hhead
  have hpc : isPowChar c = false := hl c hc
  constructor
  · rw [dropWhile_append_all _ _ _ hrs, ht, List.dropWhile_cons, hpc]
    simp only [Bool.false_eq_true, ↓reduceIte]
    rw [← ht, List.reverse_reverse]
  · rw [takeWhile_append_all _ _ _ hrs, ht, List.takeWhile_cons, hpc]
    simp

theorem isDigit_of_mem_digits {n : Nat} {c : Char} (h : c ∈ digits n) : c.isDigit = true :=
  Nat.isDigit_of_mem_toDigits (by decide) (by decide) h

theorem isDigit_ne_underscore {c : Char} (h : c.isDigit = true) : c ≠ '_' := by
  intro e; subst e; simp [Char.isDigit] at h

theorem intTail_of_digits (l : List Char) (h : ∀ c ∈ l, c.isDigit = true) : intTail l = true := by
  induction l with
  | nil => rfl
  | cons c t ih =>
    have hc := h c (List.mem_cons_self ..)
    unfold intTail
    rw [if_neg (isDigit_ne_underscore hc), hc, ih (fun y hy => h y (List.mem_cons_of_mem _ hy))]
    rfl

theorem pyInt_digits (n : Nat) : pyInt (digits n) = some n := by
  have hne : digits n ≠ [] := Nat.toDigits_ne_nil
  cases hd : digits n with
  | nil => exact absurd hd hne
  | cons c t =>
    have hall : ∀ x ∈ c :: t, x.isDigit = true := by intro x hx; rw [← hd] at hx; exact isDigit_of_mem_digits hx
    unfold pyInt
    simp only
    rw [hall c (List.mem_cons_self ..), intTail_of_digits t (fun y hy => hall y (List.mem_cons_of_mem _ hy))]
    simp only [Bool.and_self, ↓reduceIte]
    have hf : (c :: t).filter (· ≠ '_') = c :: t := by
      rw [List.filter_eq_self]; intro x hx; simpa using isDigit_ne_underscore (hall x hx)
    rw [hf, ← hd]
    simp [digits]

/-- the text of a factor without its separator -/
def factorBody (b : Base) (p : Rat) : List Char :=
  b.toList ++ ((if p.num.natAbs ≠ 1 then digits p.num.natAbs else []) ++ (if p.den ≠ 1 then '_' :: digits p.den else []))

theorem factorName_eq (b : Base) (p : Rat) : factorName b p = (if 0 < p then '*' else '/') :: factorBody b p := by
  unfold factorName factorBody
  split <;> simp

theorem isPowChar_digit {c : Char} (h : c.isDigit = true) : isPowChar c = true := by simp [isPowChar, h]

theorem decodeFactor_factorBody (b : Base) (p : Rat) (hv : ValidBase b) :
    decodeFactor (factorBody b p) = .ok (b.toList, ((p.num.natAbs : Nat) : Rat) / ((p.den : Nat) : Rat)) := by
  obtain ⟨hne, _, _, hlast⟩ := hv
  let numS := if p.num.natAbs ≠ 1 then digits p.num.natAbs else []
  let denS := if p.den ≠ 1 then '_' :: digits p.den else []
  have hnum : ∀ c ∈ numS, c.isDigit = true := by
    intro c hc; simp only [numS] at hc; split at hc
    · exact isDigit_of_mem_digits hc
    · cases hc
  have hsuf : ∀ c ∈ numS ++ denS, isPowChar c = true := by
    intro c hc
    rcases List.mem_append.mp hc with h | h
    · exact isPowChar_digit (hnum c h)
    · simp only [denS] at h; split at h
      · rcases List.mem_cons.mp h with e | e
        · subst e; rfl
        · exact isPowChar_digit (isDigit_of_mem_digits e)
      · cases h
  obtain ⟨hbase, hpow⟩ := rstrip_base_suffix b.toList (numS ++ denS) hsuf hlast hne
  have hnumer : (numS ++ denS).takeWhile (· ≠ '_') = numS := by
    rw [takeWhile_append_all _ _ _ (fun c hc => by simpa using isDigit_ne_underscore (hnum c hc))]
    simp only [denS]; split
    · simp
    · simp
  have hdenom : ((numS ++ denS).dropWhile (· ≠ '_')).drop 1 = (if p.den ≠ 1 then digits p.den else []) := by
    rw [dropWhile_append_all _ _ _ (fun c hc => by simpa using isDigit_ne_underscore (hnum c hc))]
    simp only [denS]; split
    · simp
    · simp
  have hN : (if numS = [] then some 1 else pyInt numS) = some p.num.natAbs := by
    simp only [numS]
    by_cases h1 : p.num.natAbs = 1
    · simp [h1]
    · simp only [ne_eq, h1, not_false_eq_true, ↓reduceIte]
      rw [if_neg (show digits p.num.natAbs ≠ [] from Nat.toDigits_ne_nil), pyInt_digits]
  have hD : (if (if p.den ≠ 1 then digits p.den else []) = [] then some 1 else pyInt (if p.den ≠ 1 then digits p.den else [])) = some p.den := by
    by_cases h1 : p.den = 1
    · simp [h1]
    · simp only [ne_eq, h1, not_false_eq_true, ↓reduceIte]
      rw [if_neg (show digits p.den ≠ [] from Nat.toDigits_ne_nil), pyInt_digits]
  show decodeFactor (b.toList ++ (numS ++ denS)) = _
  unfold decodeFactor
  simp only [hbase, hpow, hnumer, hdenom, hN, hD]
  rw [if_neg p.den_nz]

/-! ## from the factors back to the dictionary -/

theorem mapM_ok {α β ε} (f : α → Except ε β) (g : α → β) (l : List α) (h : ∀ x ∈ l, f x = .ok (g x)) :
    l.mapM f = .ok (l.map g) := by
  induction l with
  | nil => rfl
  | cons x t ih =>
    rw [List.mapM_cons, h x (List.mem_cons_self ..), ih (fun y hy => h y (List.mem_cons_of_mem _ hy))]
    rfl

theorem pyDict_foldl (acc l : Pows) (h : (keys (acc ++ l)).Nodup) :
    l.foldl (fun acc e => acc.filter (fun x => x.1 ≠ e.1) ++ [e]) acc = acc ++ l := by
  induction l generalizing acc with
  | nil => simp
  | cons e t ih =>
    rw [List.foldl_cons]
    have hfil : acc.filter (fun x => x.1 ≠ e.1) = acc := by
      rw [List.filter_eq_self]
      intro x hx
      simp only [keys, List.map_append, List.map_cons] at h
      rw [List.nodup_append] at h
      have := h.2.2 x.1 (List.mem_map_of_mem hx) e.1 (List.mem_cons_self ..)
      simpa using this
    rw [hfil, ih]
    · simp
    · simpa using h

theorem pyDict_of_nodup (l : Pows) (h : (keys l).Nodup) : pyDict l = l := by
  unfold pyDict
  rw [pyDict_foldl [] l (by simpa using h)]
  rfl

theorem getSum_perm {l1 l2 : Pows} (h : l1.Perm l2) (k : Base) : getSum l1 k = getSum l2 k := by
  unfold getSum
  induction h with
  | nil => rfl
  | cons x _ ih => simp only [List.map_cons, List.sum_cons, ih]
  | swap x y l => simp only [List.map_cons, List.sum_cons]; grind
  | trans _ _ ih1 ih2 => rw [ih1, ih2]

theorem fromPowers_perm {l d : Pows} (h : l.Perm d) (hd : Canon d) : fromPowers l = d := by
  apply ext (canon_fromPowers l) hd
  intro k
  rw [get_fromPowers, getSum_perm h k, ← get_fromPowers, fromPowers_canon hd]

theorem rat_num_div_den (p : Rat) : (p.num : Rat) / ((p.den : Nat) : Rat) = p := by
  rw [← Rat.mkRat_eq_div, Rat.mkRat_self]

theorem rat_pos_iff_num (p : Rat) : 0 < p ↔ 0 < p.num := by
  rw [Rat.lt_iff]; simp

theorem rat_sign_abs (p : Rat) (hp : p ≠ 0) :
    let a : Rat := ((p.num.natAbs : Nat) : Rat) / ((p.den : Nat) : Rat)
    a ≠ 0 ∧ (if 0 < p then a else -a) = p := by
  intro a
  have hpd := rat_num_div_den p
  have hcast : ((p.num.natAbs : Nat) : Rat) = ((p.num.natAbs : Int) : Rat) := (Rat.intCast_natCast _).symm
  by_cases hpos : 0 < p
  · have hn : 0 < p.num := (rat_pos_iff_num p).mp hpos
    have hab : (p.num.natAbs : Int) = p.num := Int.natAbs_of_nonneg (Int.le_of_lt hn)
    have ha : a = p := by show ((p.num.natAbs : Nat) : Rat) / _ = p; rw [hcast, hab]; exact hpd
    rw [if_pos hpos, ha]; exact ⟨hp, rfl⟩
  · have hn0 : p.num ≠ 0 := fun h => hp (Rat.num_eq_zero.mp h)
    have hn : p.num < 0 := by
      have : ¬ 0 < p.num := fun h => hpos ((rat_pos_iff_num p).mpr h)
      omega
    have hab : (p.num.natAbs : Int) = -p.num := by omega
    have ha : a = -p := by
      show ((p.num.natAbs : Nat) : Rat) / _ = -p
      rw [hcast, hab, Rat.intCast_neg, Rat.div_def, Rat.neg_mul, ← Rat.div_def, hpd]
    rw [if_neg hpos, ha]
    constructor
    · intro h; apply hp; grind
    · grind

theorem factorBody_props (b : Base) (p : Rat) (hv : ValidBase b) :
    factorBody b p ≠ [] ∧ '*' ∉ factorBody b p ∧ '/' ∉ factorBody b p := by
  obtain ⟨hne, hstar, hslash, _⟩ := hv
  have hsuf : ∀ c ∈ (if p.num.natAbs ≠ 1 then digits p.num.natAbs else []) ++ (if p.den ≠ 1 then '_' :: digits p.den else []), c ≠ '*' ∧ c ≠ '/' := by
    intro c hc
    have hd : ∀ n, c ∈ digits n → c ≠ '*' ∧ c ≠ '/' := by
      intro n h
      have := isDigit_of_mem_digits h
      constructor <;> (intro e; subst e; simp [Char.isDigit] at this)
    rcases List.mem_append.mp hc with h | h
    · split at h
      · exact hd _ h
      · cases h
    · split at h
      · rcases List.mem_cons.mp h with e | e
        · subst e; exact ⟨by decide, by decide⟩
        · exact hd _ e
      · cases h
  unfold factorBody
  refine ⟨?_, ?_, ?_⟩
  · intro h; exact hne (List.append_eq_nil_iff.mp h).1
  · intro h; rcases List.mem_append.mp h with h | h
    · exact hstar h
    · exact (hsuf _ h).1 rfl
  · intro h; rcases List.mem_append.mp h with h | h
    · exact hslash h
    · exact (hsuf _ h).2 rfl

/-- what `_split_factors` returns for the text written by `from_powers` for the factor list `L` -/
theorem splitFactors_text (L : Pows) (hv : ∀ e ∈ L, ValidBase e.1) :
    splitFactors (lstripStar (L.flatMap fun e => factorName e.1 e.2)) =
      .ok (L.map fun e => (e.1.toList, ((e.2.num.natAbs : Nat) : Rat) / ((e.2.den : Nat) : Rat), decide (0 < e.2))) := by
  have htext : (L.flatMap fun e => factorName e.1 e.2) = factorsText (L.map fun e => (decide (0 < e.2), factorBody e.1 e.2)) := by
    unfold factorsText
    rw [List.flatMap_map]
    congr 1; funext e
    rw [factorName_eq]
    by_cases h : 0 < e.2 <;> simp [h]
  have hraw : rawFactors (lstripStar (L.flatMap fun e => factorName e.1 e.2)) = L.map fun e => (factorBody e.1 e.2, decide (0 < e.2)) := by
    rw [rawFactors_lstripStar, htext, rawFactors_factorsText]
    · rw [List.map_map]; rfl
    · intro x hx
      obtain ⟨e, he, rfl⟩ := List.mem_map.mp hx
      exact factorBody_props e.1 e.2 (hv e he)
  unfold splitFactors
  rw [hraw, List.mapM_map]
  rw [mapM_ok _ (fun e : Base × Rat => (e.1.toList, ((e.2.num.natAbs : Nat) : Rat) / ((e.2.den : Nat) : Rat), decide (0 < e.2)))]
  intro e he
  simp only [Function.comp]
  rw [decodeFactor_factorBody e.1 e.2 (hv e he)]
  rfl

theorem dimOfName_name {d : Pows} (hd : Canon d) (hv : ∀ e ∈ d, ValidBase e.1) : dimOfName (name d) = .ok d := by
  have hperm : (d.mergeSort nameLe).Perm d := List.mergeSort_perm d nameLe
  have hvL : ∀ e ∈ d.mergeSort nameLe, ValidBase e.1 := fun e he => hv e (hperm.mem_iff.mp he)
  have hnz : ∀ e ∈ d.mergeSort nameLe, e.2 ≠ 0 := fun e he => hd.2 e (hperm.mem_iff.mp he)
  unfold dimOfName name
  rw [splitFactors_text _ hvL]
  simp only [bind, Except.bind, pure, Except.pure]
  congr 1
  have hsigned : ((List.map (fun e : Base × Rat => (e.1.toList, ((e.2.num.natAbs : Nat) : Rat) / ((e.2.den : Nat) : Rat), decide (0 < e.2))) (d.mergeSort nameLe)).filter
        fun f => f.2.1 ≠ 0).map (fun f => (String.ofList f.1, if f.2.2 then f.2.1 else -f.2.1)) = d.mergeSort nameLe := by
    generalize d.mergeSort nameLe = L at hnz
    induction L with
    | nil => rfl
    | cons e t ih =>
      obtain ⟨ha, hs⟩ := rat_sign_abs e.2 (hnz e (List.mem_cons_self ..))
      simp only [List.map_cons, List.filter_cons]
      simp only [ne_eq, ha, not_false_eq_true, decide_true, ↓reduceIte, List.map_cons]
      rw [ih (fun y hy => hnz y (List.mem_cons_of_mem _ hy))]
      congr 1
      ext
      · simp
      · simp only [decide_eq_true_eq]; exact hs
  rw [hsigned]
  have hnd : (keys (d.mergeSort nameLe)).Nodup := by
    have : (keys (d.mergeSort nameLe)).Perm (keys d) := hperm.map _
    exact this.nodup_iff.mpr (keys_nodup hd.1)
  rw [pyDict_of_nodup _ hnd]
  exact fromPowers_perm hperm hd

/-! ## `Dimension.create` admits valid base symbols only -/

theorem splitOn_piece (c : Char) (l : List Char) : ∀ p ∈ splitOn c l, c ∉ p ∧ p.length ≤ l.length ∧ ∀ x ∈ p, x ∈ l := by
  induction l with
  | nil => intro p hp; simp [splitOn] at hp; subst hp; simp
  | cons x t ih =>
    intro p hp
    simp only [splitOn] at hp
    split at hp
    · rename_i hx
      rcases List.mem_cons.mp hp with rfl | hp
      · simp
      · obtain ⟨h1, h2, h3⟩ := ih p hp
        exact ⟨h1, by simp; omega, fun y hy => List.mem_cons_of_mem _ (h3 y hy)⟩
    · rename_i hx
      split at hp
      · rename_i h0; exact absurd h0 (splitOn_ne_nil c t)
      · rename_i h r hs
        rcases List.mem_cons.mp hp with rfl | hp
        · obtain ⟨h1, h2, h3⟩ := ih h (by rw [hs]; exact List.mem_cons_self ..)
          refine ⟨?_, by simp; omega, ?_⟩
          · intro hm; rcases List.mem_cons.mp hm with e | e
            · exact hx e.symm
            · exact h1 e
          · intro y hy; rcases List.mem_cons.mp hy with e | e
            · rw [e]; exact List.mem_cons_self ..
            · exact List.mem_cons_of_mem _ (h3 y e)
        · obtain ⟨h1, h2, h3⟩ := ih p (by rw [hs]; exact List.mem_cons_of_mem _ hp)
          exact ⟨h1, by simp; omega, fun y hy => List.mem_cons_of_mem _ (h3 y hy)⟩

theorem rawFactors_mem (s : List Char) : ∀ fb ∈ rawFactors s, fb.1 ≠ [] ∧ '*' ∉ fb.1 ∧ '/' ∉ fb.1 ∧ fb.1.length ≤ s.length := by
  intro fb hfb
  rw [rawFactors_eq, List.mem_flatMap] at hfb
  obtain ⟨part, hpart, hf⟩ := hfb
  unfold partFactors at hf
  obtain ⟨fi, hfi, rfl⟩ := List.mem_map.mp hf
  rw [List.mem_filter] at hfi
  obtain ⟨hz, hne⟩ := hfi
  have hpiece : fi.1 ∈ splitOn '/' part := by
    have := List.mem_zipIdx hz  -- fi = (l[i], i)
    obtain ⟨_, _, h⟩ := this
    simp at h
    rw [h]; exact List.getElem_mem _
  obtain ⟨p1, p2, p3⟩ := splitOn_piece '/' part fi.1 hpiece
  obtain ⟨q1, q2, q3⟩ := splitOn_piece '*' s part hpart
  refine ⟨by simpa using hne, ?_, p1, by show fi.1.length ≤ s.length; omega⟩
  intro hm; exact q1 (p3 _ hm)

theorem rstripPow_props (f : List Char) :
    (rstripPow f).length ≤ f.length ∧ ((rstripPow f).length = f.length → rstripPow f = f ∧ ∀ c, f.getLast? = some c → isPowChar c = false) := by
  unfold rstripPow
  have hsuf : (f.reverse.dropWhile isPowChar) <:+ f.reverse := List.dropWhile_suffix _
  obtain ⟨t, ht⟩ := hsuf
  have hlen : t.length + (f.reverse.dropWhile isPowChar).length = f.length := by
    have := congrArg List.length ht; simpa using this
  refine ⟨by simp; omega, ?_⟩
  intro heq
  have ht0 : t = [] := by
    have : t.length = 0 := by simp at heq; omega
    exact List.length_eq_zero_iff.mp this
  subst ht0
  simp only [List.nil_append] at ht
  refine ⟨by rw [ht, List.reverse_reverse], ?_⟩
  intro c hc
  have hhead : f.reverse.head? = some c := by rw [List.head?_reverse]; exact hc
  cases hr : f.reverse with
  | nil => rw [hr] at hhead; cases hhead
  | cons y r =>
    rw [hr] at hhead ht; simp at hhead; subst hhead
    rw [List.dropWhile_cons] at ht
    split at ht
    · have : (r.dropWhile isPowChar).length ≤ r.length := (List.dropWhile_suffix _).length_le
      have h2 := congrArg List.length ht
      simp at h2; omega
    · rename_i hp; simpa using hp

theorem decodeFactor_base {f : List Char} {bp : List Char × Rat} (h : decodeFactor f = .ok bp) : bp.1 = rstripPow f := by
  unfold decodeFactor at h
  simp only at h
  split at h
  · split at h
    · cases h
    · simp only [Except.ok.injEq] at h; rw [← h]
  · cases h

theorem create_valid_aux (s : List Char) (h : createCheck s = .ok) : ValidBase (String.ofList s) := by
  unfold createCheck at h
  split at h
  · cases h
  · rename_i fb rest hraw
    split at h
    · cases h
    · rename_i bp hdec
      split at h
      · rename_i hbs
        have hmem := rawFactors_mem s fb (by rw [hraw]; exact List.mem_cons_self ..)
        obtain ⟨hne, hst, hsl, hlen⟩ := hmem
        have hb := decodeFactor_base hdec
        obtain ⟨r1, r2⟩ := rstripPow_props fb.1
        have hle : (rstripPow fb.1).length = fb.1.length := by
          have : (rstripPow fb.1).length = s.length := by rw [← hb, hbs]
          omega
        obtain ⟨e1, e2⟩ := r2 hle
        have hfs : fb.1 = s := by rw [← e1, ← hb, hbs]
        rw [hfs] at hne hst hsl e2
        refine ⟨by simpa using hne, by simpa using hst, by simpa using hsl, by simpa using e2⟩
      · cases h
end NutilsVerif.C20
