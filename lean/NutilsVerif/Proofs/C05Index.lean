import NutilsVerif.Model.C05
import NutilsVerif.Proofs.Tensor
/-!
# C05 helper lemmas: index tuples, flat indices, the divmod round trip  (no Mathlib)
-/
namespace NutilsVerif.C05
open NutilsVerif

/-! ### strict lexicographic order -/

theorem lexLt_irrefl : ∀ a : List Nat, lexLt a a = false
  | [] => rfl
  | x :: s => by simp [lexLt, lexLt_irrefl s]

theorem lexLt_trans : ∀ {a b c : List Nat}, lexLt a b = true → lexLt b c = true → lexLt a c = true
  | [], _, _, h, _ => by simp [lexLt] at h
  | _ :: _, [], _, h, _ => by simp [lexLt] at h
  | _ :: _, _ :: _, [], _, h => by simp [lexLt] at h
  | x :: s, y :: t, z :: u, h₁, h₂ => by
    simp only [lexLt, Bool.or_eq_true, decide_eq_true_eq, Bool.and_eq_true, beq_iff_eq] at h₁ h₂ ⊢
    rcases h₁ with h₁ | ⟨h₁, h₁'⟩ <;> rcases h₂ with h₂ | ⟨h₂, h₂'⟩
    · left; omega
    · left; omega
    · left; omega
    · right; exact ⟨by omega, lexLt_trans h₁' h₂'⟩

theorem lexLt_ne {a b : List Nat} (h : lexLt a b = true) : a ≠ b := by
  intro hab; subst hab; rw [lexLt_irrefl] at h; exact Bool.false_ne_true h

/-- neighbour-wise strict increase is pairwise strict increase (transitivity) -/
theorem strictLexSorted_pairwise : ∀ {l : List (List Nat)}, strictLexSorted l = true →
    l.Pairwise (fun a b => lexLt a b = true)
  | [], _ => List.Pairwise.nil
  | [_], _ => List.pairwise_singleton _ _
  | a :: b :: t, h => by
    simp only [strictLexSorted, Bool.and_eq_true] at h
    have ih := strictLexSorted_pairwise h.2
    refine List.Pairwise.cons ?_ ih
    intro c hc
    rcases List.mem_cons.1 hc with rfl | hc
    · exact h.1
    · exact lexLt_trans h.1 ((List.pairwise_cons.1 ih).1 c hc)

theorem pairwise_strictLexSorted : ∀ {l : List (List Nat)}, l.Pairwise (fun a b => lexLt a b = true) →
    strictLexSorted l = true
  | [], _ => rfl
  | [_], _ => rfl
  | a :: b :: t, h => by
    have h' := List.pairwise_cons.1 h
    simp only [strictLexSorted, Bool.and_eq_true]
    exact ⟨h'.1 b (List.mem_cons_self ..), pairwise_strictLexSorted h'.2⟩

/-- strictly lexicographically increasing tuples are pairwise distinct -/
theorem strictLex_nodup' {l : List (List Nat)} (h : strictLexSorted l = true) : l.Nodup :=
  (strictLexSorted_pairwise h).imp fun hab => lexLt_ne hab

theorem strictInc_pairwise : ∀ {l : List Nat}, strictInc l = true → l.Pairwise (· < ·)
  | [], _ => List.Pairwise.nil
  | [_], _ => List.pairwise_singleton _ _
  | a :: b :: t, h => by
    simp only [strictInc, Bool.and_eq_true, decide_eq_true_eq] at h
    have ih := strictInc_pairwise h.2
    refine List.Pairwise.cons ?_ ih
    intro c hc
    rcases List.mem_cons.1 hc with rfl | hc
    · exact h.1
    · exact Nat.lt_trans h.1 ((List.pairwise_cons.1 ih).1 c hc)

theorem pairwise_strictInc : ∀ {l : List Nat}, l.Pairwise (· < ·) → strictInc l = true
  | [], _ => rfl
  | [_], _ => rfl
  | a :: b :: t, h => by
    have h' := List.pairwise_cons.1 h
    simp only [strictInc, Bool.and_eq_true, decide_eq_true_eq]
    exact ⟨h'.1 b (List.mem_cons_self ..), pairwise_strictInc h'.2⟩

theorem strictInc_nodup {l : List Nat} (h : strictInc l = true) : l.Nodup :=
  (strictInc_pairwise h).imp fun hab => Nat.ne_of_lt hab

theorem monotone_pairwise : ∀ {l : List Nat}, monotone l = true → l.Pairwise (· ≤ ·)
  | [], _ => List.Pairwise.nil
  | [_], _ => List.pairwise_singleton _ _
  | a :: b :: t, h => by
    simp only [monotone, Bool.and_eq_true, decide_eq_true_eq] at h
    have ih := monotone_pairwise h.2
    refine List.Pairwise.cons ?_ ih
    intro c hc
    rcases List.mem_cons.1 hc with rfl | hc
    · exact h.1
    · exact Nat.le_trans h.1 ((List.pairwise_cons.1 ih).1 c hc)

theorem pairwise_monotone : ∀ {l : List Nat}, l.Pairwise (· ≤ ·) → monotone l = true
  | [], _ => rfl
  | [_], _ => rfl
  | a :: b :: t, h => by
    have h' := List.pairwise_cons.1 h
    simp only [monotone, Bool.and_eq_true, decide_eq_true_eq]
    exact ⟨h'.1 b (List.mem_cons_self ..), pairwise_monotone h'.2⟩

/-! ### flat ↔ multi-index: the converse round trip -/

theorem shapeSize_nil : shapeSize [] = 1 := rfl

/-- the multi-index of a flat position inside the array lies inside the box -/
theorem inBox_unflat : ∀ (s : List Nat) (k : Nat), k < shapeSize s → inBox s (unflatIdx s k) = true
  | [], _, _ => rfl
  | n :: s, k, h => by
    rw [shapeSize_cons] at h
    have hpos : 0 < shapeSize s := by
      rcases Nat.eq_zero_or_pos (shapeSize s) with h0 | h0
      · rw [h0] at h; omega
      · exact h0
    simp only [unflatIdx, inBox, Bool.and_eq_true, decide_eq_true_eq]
    refine ⟨?_, inBox_unflat s _ (Nat.mod_lt _ hpos)⟩
    exact (Nat.div_lt_iff_lt_mul hpos).2 h

/-- `flatIdx ∘ unflatIdx = id` below the size (converse of `unflat_flat`) -/
theorem flat_unflat : ∀ (s : List Nat) (k : Nat), k < shapeSize s → flatIdx s (unflatIdx s k) = k
  | [], k, h => by simp [shapeSize] at h; simp [flatIdx, h]
  | n :: s, k, h => by
    rw [shapeSize_cons] at h
    have hpos : 0 < shapeSize s := by
      rcases Nat.eq_zero_or_pos (shapeSize s) with h0 | h0
      · rw [h0] at h; omega
      · exact h0
    simp only [unflatIdx, flatIdx]
    rw [flat_unflat s _ (Nat.mod_lt _ hpos), Nat.mul_comm]
    exact Nat.div_add_mod k (shapeSize s)

/-- every multi-index of the box is enumerated by `Tensor.indices` -/
theorem mem_indices_of_inBox {s idx : List Nat} (h : inBox s idx = true) : idx ∈ Tensor.indices s := by
  unfold Tensor.indices
  exact List.mem_map.2 ⟨flatIdx s idx, List.mem_range.2 (flatIdx_lt s idx h), unflat_flat s idx h⟩

theorem inBox_of_mem_indices {s idx : List Nat} (h : idx ∈ Tensor.indices s) : inBox s idx = true := by
  unfold Tensor.indices at h
  obtain ⟨k, hk, rfl⟩ := List.mem_map.1 h
  exact inBox_unflat s k (List.mem_range.1 hk)

/-- the flat index is injective on the box -/
theorem flatIdx_inj {s a b : List Nat} (ha : inBox s a = true) (hb : inBox s b = true)
    (h : flatIdx s a = flatIdx s b) : a = b := by
  rw [← unflat_flat s a ha, ← unflat_flat s b hb, h]

/-- the divmod round trip used to unravel a flat index (`Ravel._assparse` / `Unravel._assparse` /
`Array.assparse`): for `i < a*b`, `(i / b) * b + i % b = i`, `i / b < a` and `i % b < b` -/
theorem ravel_unravel_index' {a b i : Nat} (h : i < a * b) : (i / b) * b + i % b = i ∧ i / b < a ∧ i % b < b := by
  have hb : 0 < b := by
    rcases Nat.eq_zero_or_pos b with h0 | h0
    · subst h0; simp at h
    · exact h0
  refine ⟨?_, (Nat.div_lt_iff_lt_mul hb).2 h, Nat.mod_lt _ hb⟩
  rw [Nat.mul_comm]; exact Nat.div_add_mod i b

/-- and the other way round: `(i*b + j) / b = i`, `(i*b + j) % b = j` for `j < b` -/
theorem unravel_ravel_index' {b i j : Nat} (h : j < b) : (i * b + j) / b = i ∧ (i * b + j) % b = j := by
  have hb : 0 < b := by omega
  constructor
  · rw [Nat.mul_comm, Nat.mul_add_div hb, Nat.div_eq_of_lt h]; simp
  · rw [Nat.mul_comm, Nat.mul_add_mod, Nat.mod_eq_of_lt h]

/-! ### strictly increasing flat indices are strictly lexicographically increasing tuples -/

theorem lexLt_unflat : ∀ (s : List Nat) {a b : Nat}, s ≠ [] → a < b → b < shapeSize s →
    lexLt (unflatIdx s a) (unflatIdx s b) = true
  | [], _, _, h, _, _ => absurd rfl h
  | [n], a, b, _, hab, _ => by
    simp [unflatIdx, lexLt, shapeSize, hab]
  | n :: m :: s, a, b, _, hab, hb => by
    rw [shapeSize_cons] at hb
    have hpos : 0 < shapeSize (m :: s) := by
      rcases Nat.eq_zero_or_pos (shapeSize (m :: s)) with h0 | h0
      · rw [h0] at hb; omega
      · exact h0
    generalize hS : shapeSize (m :: s) = S at hb hpos
    have hle : a / S ≤ b / S := Nat.div_le_div_right (Nat.le_of_lt hab)
    show lexLt ((a / shapeSize (m :: s)) :: unflatIdx (m :: s) (a % shapeSize (m :: s)))
      ((b / shapeSize (m :: s)) :: unflatIdx (m :: s) (b % shapeSize (m :: s))) = true
    rw [hS]
    simp only [lexLt, Bool.or_eq_true, decide_eq_true_eq, Bool.and_eq_true, beq_iff_eq]
    rcases Nat.lt_or_eq_of_le hle with hlt | heq
    · left; exact hlt
    · right
      refine ⟨heq, ?_⟩
      have ha' := Nat.div_add_mod a S
      have hb' := Nat.div_add_mod b S
      have hmod : a % S < b % S := by
        rw [heq] at ha'; omega
      exact lexLt_unflat (m :: s) (by simp) hmod (by rw [hS]; exact Nat.mod_lt _ hpos)

/-! ### `Array.assparse`'s own flat index (Horner form) and its unravel loop -/

theorem horner_foldl : ∀ (s rest : List Nat) (acc : Nat), rest.length = s.length →
    (List.zip s rest).foldl (fun acc p => acc * p.1 + p.2) acc = acc * shapeSize s + flatIdx s rest
  | [], [], acc, _ => by simp [shapeSize, flatIdx]
  | [], _ :: _, _, h => by simp at h
  | _ :: _, [], _, h => by simp at h
  | n :: s, j :: rest, acc, h => by
    simp only [List.zip_cons_cons, List.foldl_cons]
    rw [horner_foldl s rest _ (by simpa using h), shapeSize_cons, flatIdx, Nat.add_mul, Nat.mul_assoc, Nat.add_assoc]

/-- the flat index `Array.assparse` computes is the row-major position -/
theorem hornerFlat_eq_flatIdx {s idx : List Nat} (h : idx.length = s.length) (hs : s ≠ []) :
    hornerFlat s idx = flatIdx s idx := by
  match s, idx, h, hs with
  | n :: s, i :: rest, h, _ =>
    simp only [hornerFlat, flatIdx]
    exact horner_foldl s rest i (by simpa using h)

theorem shapeSize_snoc (s : List Nat) (n : Nat) : shapeSize (s ++ [n]) = shapeSize s * n := by
  induction s with
  | nil => simp [shapeSize]
  | cons x r ih => simp only [List.cons_append, shapeSize_cons, ih, Nat.mul_assoc]

theorem unflat_snoc : ∀ (s : List Nat) (n m : Nat), m < shapeSize s * n →
    unflatIdx (s ++ [n]) m = unflatIdx s (m / n) ++ [m % n]
  | [], n, m, h => by
    simp only [shapeSize_nil, Nat.one_mul] at h
    simp [unflatIdx, shapeSize, Nat.mod_eq_of_lt h]
  | a :: r, n, m, h => by
    rw [shapeSize_cons, Nat.mul_assoc] at h
    have hpos : 0 < shapeSize r * n := by
      rcases Nat.eq_zero_or_pos (shapeSize r * n) with h0 | h0
      · rw [h0] at h; omega
      · exact h0
    simp only [List.cons_append, unflatIdx, shapeSize_snoc]
    rw [unflat_snoc r n _ (Nat.mod_lt _ hpos)]
    rw [Nat.mul_comm (shapeSize r) n, Nat.mod_mul_right_div_self, Nat.mod_mul_right_mod, ← Nat.div_div_eq_div_mul]

theorem unravel_foldl : ∀ (r : List Nat) (k : Nat) (t : List Nat), 0 < shapeSize r.reverse →
    r.foldl unravelStep (k :: t) = (k / shapeSize r.reverse) :: (unflatIdx r.reverse (k % shapeSize r.reverse) ++ t)
  | [], k, t, _ => by simp [shapeSize, unflatIdx]
  | n :: r, k, t, hpos => by
    rw [List.reverse_cons, shapeSize_snoc] at hpos
    have hs : 0 < shapeSize r.reverse := Nat.pos_of_mul_pos_right hpos
    rw [List.foldl_cons]
    show List.foldl _ ((k / n) :: (k % n) :: t) r = _
    rw [unravel_foldl r (k / n) ((k % n) :: t) hs, List.reverse_cons, shapeSize_snoc,
      unflat_snoc _ _ _ (Nat.mod_lt _ hpos)]
    rw [Nat.div_div_eq_div_mul, Nat.mul_comm n (shapeSize r.reverse), Nat.mul_comm (shapeSize r.reverse) n,
      Nat.mod_mul_right_div_self, Nat.mod_mul_right_mod]
    simp

/-- the divmod loop of `Array.assparse` computes the row-major multi-index of every flat position of the array -/
theorem unravelLoop_eq_unflat {s : List Nat} (hs : s ≠ []) {k : Nat} (hk : k < shapeSize s) :
    unravelLoop s k = unflatIdx s k := by
  match s, hs with
  | n :: s, _ =>
    rw [shapeSize_cons] at hk
    have hpos : 0 < shapeSize s := by
      rcases Nat.eq_zero_or_pos (shapeSize s) with h0 | h0
      · rw [h0] at hk; omega
      · exact h0
    simp only [unravelLoop, List.drop_succ_cons, List.drop_zero, unflatIdx]
    rw [unravel_foldl s.reverse k [] (by simpa using hpos)]
    simp

end NutilsVerif.C05
