import NutilsVerif.Model.C11Alg
/-!
# C11 — the compressed containers denote the lists they were built from
-/
namespace NutilsVerif.C11.Alg

variable {β : Type}

/-- classes that do not override `take` (only these become the parent of a `_Take`) -/
def Seq.isBase : Seq β → Prop
  | .uniform _ _ => False
  | .take _ _ => False
  | _ => True

/-- index lists of `_Take` are in range (what `_check_take` enforces) and its parent is a class without own `take` -/
def Seq.wf (o : Ops β) : Seq β → Prop
  | .take p idx => (p.wf o ∧ ∀ i ∈ idx, i < (p.toList o).length) ∧ p.isBase
  | .rep p _ => p.wf o
  | .prod a b => a.wf o ∧ b.wf o
  | .chain a b => a.wf o ∧ b.wf o
  | .derived _ p => p.wf o
  | _ => True

theorem filterMap_getElem?_length (l : List β) (idx : List Nat) (h : ∀ i ∈ idx, i < l.length) :
    (idx.filterMap fun i => l[i]?).length = idx.length := by
  induction idx with
  | nil => rfl
  | cons i t ih =>
    have hi : i < l.length := h i (List.mem_cons_self)
    simp only [List.filterMap_cons, List.getElem?_eq_getElem hi, List.length_cons]
    rw [ih (fun j hj => h j (List.mem_cons_of_mem _ hj))]

theorem filterMap_getElem?_eq_map (l : List β) (idx : List Nat) (h : ∀ i ∈ idx, i < l.length) :
    (idx.filterMap fun i => l[i]?) = idx.attach.map fun i => l[i.1]'(h i.1 i.2) := by
  induction idx with
  | nil => rfl
  | cons i t ih =>
    have hi : i < l.length := h i (List.mem_cons_self)
    simp only [List.filterMap_cons, List.getElem?_eq_getElem hi, List.attach_cons, List.map_cons, List.map_map]
    rw [ih (fun j hj => h j (List.mem_cons_of_mem _ hj))]
    simp [Function.comp_def]

theorem length_flatten_replicate (c : Nat) (l : List β) : (List.replicate c l).flatten.length = l.length * c := by
  induction c with
  | zero => simp
  | succ c ih => simp [List.replicate_succ, ih, Nat.mul_succ, Nat.add_comm]

theorem length_flatMap_map (l1 l2 : List β) (f : β → β → β) :
    (l1.flatMap fun x => l2.map fun y => f x y).length = l1.length * l2.length := by
  induction l1 with
  | nil => simp
  | cons a t ih => simp [List.flatMap_cons, ih, Nat.succ_mul, Nat.add_comm]

/-- `len` is the length of the denoted list -/
theorem Seq.len_eq (o : Ops β) (s : Seq β) (h : s.wf o) : s.len o = (s.toList o).length := by
  induction s with
  | empty => rfl
  | plain items => rfl
  | uniform x n => simp [Seq.len, Seq.toList]
  | take p idx ih => simp only [Seq.len, Seq.toList]; rw [filterMap_getElem?_length _ _ h.1.2]
  | rep p c ih => simp only [Seq.len, Seq.toList]; rw [length_flatten_replicate, ih h]
  | prod a b iha ihb => simp only [Seq.len, Seq.toList]; rw [length_flatMap_map, iha h.1, ihb h.2]
  | chain a b iha ihb => simp only [Seq.len, Seq.toList, List.length_append]; rw [iha h.1, ihb h.2]
  | derived tag p ih => simp only [Seq.len, Seq.toList, List.length_flatMap]

theorem locate_eq (ls : List (List β)) (i : Nat) : locate ls i = ls.flatten[i]? := by
  induction ls generalizing i with
  | nil => simp [locate]
  | cons l rest ih =>
    simp only [locate, List.flatten_cons]
    split
    · rename_i h; rw [List.getElem?_append_left h]
    · rename_i h; rw [ih, List.getElem?_append_right (by omega)]

theorem getElem?_flatten_replicate (l : List β) (c i : Nat) (h : i < l.length * c) :
    (List.replicate c l).flatten[i]? = l[i % l.length]? := by
  induction c generalizing i with
  | zero => simp at h
  | succ c ih =>
    simp only [List.replicate_succ, List.flatten_cons]
    by_cases hi : i < l.length
    · rw [List.getElem?_append_left hi, Nat.mod_eq_of_lt hi]
    · rw [List.getElem?_append_right (by omega), ih _ (by rw [Nat.mul_succ] at h; omega)]
      rw [← Nat.mod_eq_sub_mod (by omega)]

theorem getElem?_flatMap_map (l1 l2 : List β) (f : β → β → β) (i : Nat) (h : i < l1.length * l2.length) :
    (l1.flatMap fun x => l2.map fun y => f x y)[i]? =
      (match l1[i / l2.length]?, l2[i % l2.length]? with
       | some x, some y => some (f x y)
       | _, _ => none) := by
  induction l1 generalizing i with
  | nil => simp at h
  | cons a t ih =>
    have hpos : 0 < l2.length := by
      rcases Nat.eq_zero_or_pos l2.length with h0 | h0
      · rw [h0] at h; simp at h
      · exact h0
    simp only [List.flatMap_cons]
    by_cases hi : i < l2.length
    · rw [List.getElem?_append_left (by simpa using hi)]
      simp [Nat.div_eq_of_lt hi, Nat.mod_eq_of_lt hi, List.getElem?_eq_getElem hi]
    · have hge : l2.length ≤ i := by omega
      rw [List.getElem?_append_right (by simpa using hge)]
      simp only [List.length_map]
      rw [ih _ (by simp only [List.length_cons, Nat.succ_mul] at h; omega)]
      have h1 : i / l2.length = (i - l2.length) / l2.length + 1 := Nat.div_eq_sub_div hpos hge
      have h2 : i % l2.length = (i - l2.length) % l2.length := Nat.mod_eq_sub_mod hge
      rw [h1, h2]; simp

/-- `get` reads the denoted list -/
theorem Seq.get_eq (o : Ops β) (s : Seq β) (h : s.wf o) (i : Nat) : s.get o i = (s.toList o)[i]? := by
  induction s generalizing i with
  | empty => simp [Seq.get, Seq.toList]
  | plain items => rfl
  | uniform x n =>
    simp only [Seq.get, Seq.toList]
    split
    · rename_i hi; simp [hi]
    · rename_i hi; simp [hi]
  | take p idx ih =>
    simp only [Seq.get, Seq.toList]
    rw [filterMap_getElem?_eq_map _ _ h.1.2]
    by_cases hi : i < idx.length
    · simp [hi, ih h.1.1]
    · simp [hi, List.getElem?_eq_none (Nat.le_of_not_lt hi)]
  | rep p c ih =>
    simp only [Seq.get, Seq.toList]
    rw [Seq.len_eq o p h]
    split
    · rename_i hi; rw [ih h, getElem?_flatten_replicate _ _ _ hi]
    · rename_i hi
      rw [List.getElem?_eq_none]; rw [length_flatten_replicate]; omega
  | prod a b iha ihb =>
    simp only [Seq.get, Seq.toList]
    rw [Seq.len_eq o a h.1, Seq.len_eq o b h.2]
    split
    · rename_i hi
      rw [getElem?_flatMap_map _ _ _ _ hi, iha h.1, ihb h.2]
      cases (toList o a)[i / (toList o b).length]? <;> cases (toList o b)[i % (toList o b).length]? <;> rfl
    · rename_i hi
      rw [List.getElem?_eq_none]; rw [length_flatMap_map]; omega
  | chain a b iha ihb =>
    simp only [Seq.get, Seq.toList]
    rw [Seq.len_eq o a h.1]
    split
    · rename_i hi; rw [iha h.1, List.getElem?_append_left hi]
    · rename_i hi; rw [ihb h.2, List.getElem?_append_right (by omega)]
  | derived tag p ih =>
    simp only [Seq.get, Seq.toList, locate_eq, List.flatMap_def]

/-! ## the constructors denote the list operations -/

variable [DecidableEq β]

theorem toList_fromIter (o : Ops β) (l : List β) : (fromIter l).toList o = l ∧ (fromIter l).wf o := by
  cases l with
  | nil => exact ⟨rfl, trivial⟩
  | cons x t =>
    simp only [fromIter]
    split
    · rename_i h
      refine ⟨?_, trivial⟩
      simp only [Seq.toList]
      symm
      rw [List.eq_replicate_iff]
      refine ⟨rfl, ?_⟩
      intro b hb
      rcases List.mem_cons.1 hb with rfl | hb
      · rfl
      · have := (List.all_eq_true.1 h) b hb
        simpa using this
    · exact ⟨rfl, trivial⟩

theorem toList_uniformS (o : Ops β) (x : β) (n : Nat) : (uniformS x n).toList o = List.replicate n x ∧ (uniformS x n).wf o := by
  unfold uniformS
  split
  · rename_i h; subst h; exact ⟨rfl, trivial⟩
  · exact ⟨rfl, trivial⟩

theorem flatten_replicate_add (c d : Nat) (l : List β) :
    (List.replicate (c + d) l).flatten = (List.replicate c l).flatten ++ (List.replicate d l).flatten := by
  induction c with
  | zero => simp
  | succ c ih =>
    have : c + 1 + d = (c + d) + 1 := by omega
    rw [this, List.replicate_succ, List.replicate_succ, List.flatten_cons, List.flatten_cons, ih, List.append_assoc]

theorem flatten_replicate_mul (c0 c : Nat) (l : List β) :
    (List.replicate (c0 * c) l).flatten = (List.replicate c (List.replicate c0 l).flatten).flatten := by
  induction c with
  | zero => simp
  | succ c ih =>
    rw [Nat.mul_succ, flatten_replicate_add, ih, List.replicate_succ', List.flatten_append]
    simp

theorem repeat_generic (o : Ops β) (s : Seq β) (c : Nat) (h : s.wf o) :
    (if c = 0 then Seq.empty else if c = 1 then s else Seq.rep s c).toList o = (List.replicate c (s.toList o)).flatten ∧
    (if c = 0 then Seq.empty else if c = 1 then s else Seq.rep s c).wf o := by
  by_cases h0 : c = 0
  · subst h0; exact ⟨rfl, trivial⟩
  · by_cases h1 : c = 1
    · subst h1; simp [h]
    · simp only [h0, h1, if_false]; exact ⟨rfl, h⟩

theorem toList_repeatS (o : Ops β) (s : Seq β) (c : Nat) (h : s.wf o) :
    (repeatS s c).toList o = (List.replicate c (s.toList o)).flatten ∧ (repeatS s c).wf o := by
  cases s with
  | uniform x n =>
    simp only [repeatS]
    split
    · rename_i hc; subst hc; exact ⟨rfl, trivial⟩
    · refine ⟨?_, (toList_uniformS o x (n * c)).2⟩
      rw [(toList_uniformS o x (n * c)).1]
      simp only [Seq.toList, List.flatten_replicate_replicate, Nat.mul_comm]
  | rep p c0 =>
    simp only [repeatS]
    split
    · rename_i hc; subst hc; exact ⟨rfl, trivial⟩
    · exact ⟨by simp only [Seq.toList]; exact flatten_replicate_mul c0 c _, h⟩
  | empty => simp only [repeatS]; exact repeat_generic o _ c h
  | plain items => simp only [repeatS]; exact repeat_generic o _ c h
  | take p idx => simp only [repeatS]; exact repeat_generic o _ c h
  | prod a b => simp only [repeatS]; exact repeat_generic o _ c h
  | chain a b => simp only [repeatS]; exact repeat_generic o _ c h
  | derived t p => simp only [repeatS]; exact repeat_generic o _ c h

theorem toList_mergeChain (o : Ops β) (a b m : Seq β) (ha : a.wf o) (hb : b.wf o) (h : mergeChain a b = some m) :
    m.toList o = a.toList o ++ b.toList o ∧ m.wf o := by
  unfold mergeChain at h
  split at h
  · rename_i hab; subst hab
    simp only [Option.some.injEq] at h; subst h
    have := toList_repeatS o a 2 ha
    refine ⟨?_, this.2⟩
    rw [this.1]; simp [List.replicate_succ]
  · split at h
    · rename_i x n y k _
      split at h
      · rename_i hxy; subst hxy
        simp only [Option.some.injEq] at h; subst h
        exact ⟨by simp [Seq.toList, List.replicate_append_replicate], trivial⟩
      · simp at h
    · rename_i p c p' c' _
      split at h
      · rename_i hpp; subst hpp
        simp only [Option.some.injEq] at h; subst h
        have := toList_repeatS o p (c + c') ha
        refine ⟨?_, this.2⟩
        rw [this.1]; simp only [Seq.toList]; exact flatten_replicate_add c c' _
      · simp at h
    · rename_i p c _ _
      split at h
      · rename_i hpb; subst hpb
        simp only [Option.some.injEq] at h; subst h
        have := toList_repeatS o p (c + 1) ha
        refine ⟨?_, this.2⟩
        rw [this.1, flatten_replicate_add]; simp [Seq.toList]
      · simp at h
    · rename_i p' c' _ _
      split at h
      · rename_i hpa; subst hpa
        simp only [Option.some.injEq] at h; subst h
        have := toList_repeatS o p' (c' + 1) hb
        refine ⟨?_, this.2⟩
        rw [this.1]; simp [Seq.toList, List.replicate_succ]
      · simp at h
    · simp at h

theorem toList_foldl_chain (o : Ops β) (s : Seq β) (rest : List (Seq β)) :
    (rest.foldl .chain s).toList o = s.toList o ++ rest.flatMap (·.toList o) := by
  induction rest generalizing s with
  | nil => simp
  | cons r rest ih => simp [List.foldl_cons, ih, Seq.toList, List.flatMap_cons]

theorem wf_foldl_chain (o : Ops β) (s : Seq β) (rest : List (Seq β)) (hs : s.wf o) (hr : ∀ r ∈ rest, r.wf o) :
    (rest.foldl .chain s).wf o := by
  induction rest generalizing s with
  | nil => simpa using hs
  | cons r rest ih =>
    simp only [List.foldl_cons]
    exact ih _ ⟨hs, hr r (List.mem_cons_self)⟩ (fun x hx => hr x (List.mem_cons_of_mem _ hx))

theorem toList_balanced (o : Ops β) (fuel : Nat) (items : List (Seq β)) (hw : ∀ s ∈ items, s.wf o) :
    (balanced o fuel items).toList o = items.flatMap (·.toList o) ∧ (balanced o fuel items).wf o := by
  induction fuel generalizing items with
  | zero =>
    match items with
    | [] => exact ⟨rfl, trivial⟩
    | [s] => simp [balanced, hw]
    | s :: t :: rest =>
      simp only [balanced]
      exact ⟨by rw [toList_foldl_chain]; simp [List.flatMap_cons],
        wf_foldl_chain o s _ (hw s (List.mem_cons_self)) (fun x hx => hw x (List.mem_cons_of_mem _ hx))⟩
  | succ fuel ih =>
    match items with
    | [] => exact ⟨rfl, trivial⟩
    | [s] => simp [balanced, hw]
    | s :: t :: rest =>
      simp only [balanced]
      generalize hi : min (max (splitPoint ((s :: t :: rest).map (·.len o))) 1) ((s :: t :: rest).length - 1) = i
      have h1 := ih ((s :: t :: rest).take i) (fun x hx => hw x (List.mem_of_mem_take hx))
      have h2 := ih ((s :: t :: rest).drop i) (fun x hx => hw x (List.mem_of_mem_drop hx))
      have hsplit : ((s :: t :: rest).take i).flatMap (·.toList o) ++ ((s :: t :: rest).drop i).flatMap (·.toList o)
          = (s :: t :: rest).flatMap (·.toList o) := by
        rw [← List.flatMap_append, List.take_append_drop]
      split
      · rename_i m hm
        have := toList_mergeChain o _ _ m h1.2 h2.2 hm
        exact ⟨by rw [this.1, h1.1, h2.1, hsplit], this.2⟩
      · exact ⟨by simp only [Seq.toList]; rw [h1.1, h2.1, hsplit], ⟨h1.2, h2.2⟩⟩

theorem toList_unchain (o : Ops β) (s : Seq β) (h : s.wf o) :
    (unchain o s).flatMap (·.toList o) = s.toList o ∧ ∀ x ∈ unchain o s, x.wf o := by
  have generic : ∀ s : Seq β, s.wf o →
      (if s.len o = 0 then [] else [s]).flatMap (·.toList o) = s.toList o ∧ ∀ x ∈ (if s.len o = 0 then [] else [s]), x.wf o := by
    intro s hs
    split
    · rename_i h0
      rw [Seq.len_eq o s hs] at h0
      exact ⟨by simp [List.eq_nil_of_length_eq_zero h0], by simp⟩
    · exact ⟨by simp, by simpa using hs⟩
  induction s with
  | chain a b iha ihb =>
    simp only [unchain, List.flatMap_append, Seq.toList]
    have ha := iha h.1; have hb := ihb h.2
    refine ⟨by rw [ha.1, hb.1], ?_⟩
    intro x hx
    rcases List.mem_append.1 hx with hx | hx
    · exact ha.2 x hx
    · exact hb.2 x hx
  | empty => simpa [unchain] using generic _ h
  | plain items => simpa [unchain] using generic _ h
  | uniform x n => simpa [unchain] using generic _ h
  | take p idx => simpa [unchain] using generic _ h
  | rep p c => simpa [unchain] using generic _ h
  | prod a b => simpa [unchain] using generic _ h
  | derived t p => simpa [unchain] using generic _ h

/-- `a.chain(b)` denotes the concatenation, whatever merging and rebalancing happens -/
theorem toList_chainS (o : Ops β) (a b : Seq β) (ha : a.wf o) (hb : b.wf o) :
    (chainS o a b).toList o = a.toList o ++ b.toList o ∧ (chainS o a b).wf o := by
  unfold chainS
  split
  · rename_i h0
    rw [Seq.len_eq o b hb] at h0
    exact ⟨by simp [List.eq_nil_of_length_eq_zero h0], ha⟩
  · split
    · rename_i _ h0
      rw [Seq.len_eq o a ha] at h0
      exact ⟨by simp [List.eq_nil_of_length_eq_zero h0], hb⟩
    · have ua := toList_unchain o a ha
      have ub := toList_unchain o b hb
      have hall : ∀ x ∈ unchain o a ++ unchain o b, x.wf o := by
        intro x hx
        rcases List.mem_append.1 hx with hx | hx
        · exact ua.2 x hx
        · exact ub.2 x hx
      have hcat : (unchain o a ++ unchain o b).flatMap (·.toList o) = a.toList o ++ b.toList o := by
        rw [List.flatMap_append, ua.1, ub.1]
      simp only []
      split
      · rename_i x y hx hy
        obtain ⟨ys, hys⟩ := List.getLast?_eq_some_iff.1 hx
        obtain ⟨zs, hzs⟩ := List.head?_eq_some_iff.1 hy
        split
        · rename_i m hm
          have hxw : x.wf o := ua.2 x (by rw [hys]; simp)
          have hyw : y.wf o := ub.2 y (by rw [hzs]; simp)
          have mm := toList_mergeChain o x y m hxw hyw hm
          have hw' : ∀ s ∈ (unchain o a).dropLast ++ [m] ++ (unchain o b).tail, s.wf o := by
            intro s hs
            simp only [List.mem_append, List.mem_singleton] at hs
            rcases hs with (hs | hs) | hs
            · exact ua.2 s (List.dropLast_subset _ hs)
            · subst hs; exact mm.2
            · exact ub.2 s (List.mem_of_mem_tail hs)
          have := toList_balanced o ((unchain o a).length + (unchain o b).length) _ hw'
          refine ⟨?_, this.2⟩
          rw [this.1, ← hcat, hys, hzs]
          simp [List.flatMap_append, mm.1]
        · have := toList_balanced o ((unchain o a).length + (unchain o b).length) _ hall
          exact ⟨by rw [this.1, hcat], this.2⟩
      · have := toList_balanced o ((unchain o a).length + (unchain o b).length) _ hall
        exact ⟨by rw [this.1, hcat], this.2⟩

/-! ### take / compress -/

theorem filterMap_congr' {α γ : Type} (l : List α) (f g : α → Option γ) (h : ∀ x ∈ l, f x = g x) :
    l.filterMap f = l.filterMap g := by
  induction l with
  | nil => rfl
  | cons a t ih =>
    simp only [List.filterMap_cons, h a (List.mem_cons_self)]
    rw [ih (fun x hx => h x (List.mem_cons_of_mem _ hx))]

theorem filterMap_replicate (x : β) (n : Nat) (idx : List Nat) (hi : ∀ i ∈ idx, i < n) :
    idx.filterMap (fun i => (List.replicate n x)[i]?) = List.replicate idx.length x := by
  induction idx with
  | nil => rfl
  | cons i t ih =>
    have h := hi i (List.mem_cons_self)
    simp only [List.filterMap_cons, List.getElem?_replicate, h, if_true, List.length_cons, List.replicate_succ]
    have := ih (fun j hj => hi j (List.mem_cons_of_mem _ hj))
    simp only [List.getElem?_replicate] at this
    rw [this]

theorem take_generic (o : Ops β) (s : Seq β) (idx : List Nat) (hw : s.wf o) (hb : s.isBase)
    (hi : ∀ i ∈ idx, i < (s.toList o).length) :
    (takeGeneric o s idx).toList o = idx.filterMap (fun i => (s.toList o)[i]?) ∧ (takeGeneric o s idx).wf o := by
  unfold takeGeneric
  match idx with
  | [] => exact ⟨rfl, trivial⟩
  | [i] =>
    have h := hi i (List.mem_cons_self)
    simp only [Seq.get_eq o s hw, List.getElem?_eq_getElem h]
    exact ⟨by simp [Seq.toList, List.getElem?_eq_getElem h], trivial⟩
  | i :: j :: t => exact ⟨rfl, ⟨hw, hi⟩, hb⟩

theorem all_ge_of_not_crossesBack (n i : Nat) (rest : List Nat) (hi : ¬ i < n) (h : crossesBack n (i :: rest) = false) :
    ∀ j ∈ rest, ¬ j < n := by
  induction rest generalizing i with
  | nil => intro j hj; simp at hj
  | cons k rest ih =>
    simp only [crossesBack, Bool.or_eq_false_iff, Bool.and_eq_false_iff, Bool.not_eq_false', decide_eq_true_eq, decide_eq_false_iff_not] at h
    have hk : ¬ k < n := by
      rcases h.1 with h1 | h1
      · exact absurd h1 hi
      · exact h1
    intro j hj
    rcases List.mem_cons.1 hj with rfl | hj
    · exact hk
    · exact ih k hk h.2 j hj

/-- if no index into the first part follows one into the second, the indices are the first-part hits followed by the
second-part hits -/
theorem split_of_not_crossesBack (n : Nat) (idx : List Nat) (h : crossesBack n idx = false) :
    idx.filter (· < n) ++ idx.filter (fun i => !(i < n)) = idx := by
  induction idx with
  | nil => rfl
  | cons i rest ih =>
    have hrest : crossesBack n rest = false := by
      cases rest with
      | nil => rfl
      | cons k t =>
        simp only [crossesBack, Bool.or_eq_false_iff] at h
        exact h.2
    by_cases hi : i < n
    · simp only [List.filter_cons, hi, decide_true, if_true, Bool.not_true, List.cons_append]
      simp only [Bool.false_eq_true, if_false]
      rw [ih hrest]
    · have hall := all_ge_of_not_crossesBack n i rest hi h
      have h1 : (i :: rest).filter (· < n) = [] := by
        rw [List.filter_eq_nil_iff]
        intro j hj
        rcases List.mem_cons.1 hj with rfl | hj
        · simpa using hi
        · simpa using hall j hj
      have h2 : (i :: rest).filter (fun i => !(i < n)) = i :: rest := by
        rw [List.filter_eq_self]
        intro j hj
        rcases List.mem_cons.1 hj with rfl | hj
        · simpa using hi
        · simpa using hall j hj
      rw [h1, h2]; rfl

/-- `seq.take(indices)` denotes `[seq[i] for i in indices]`, for all in-range indices in any order -/
theorem toList_takeS (o : Ops β) (s : Seq β) : ∀ (idx : List Nat), s.wf o → (∀ i ∈ idx, i < (s.toList o).length) →
    (takeS o s idx).toList o = idx.filterMap (fun i => (s.toList o)[i]?) ∧ (takeS o s idx).wf o := by
  induction s with
  | uniform x n =>
    intro idx _ hi
    simp only [takeS]
    refine ⟨?_, (toList_uniformS o x _).2⟩
    rw [(toList_uniformS o x _).1]
    simp only [Seq.toList] at hi ⊢
    rw [filterMap_replicate x n idx (fun i h => by simpa using hi i h)]
  | take p i0 ih =>
    intro idx hw hi
    simp only [takeS]
    have hvalid : ∀ k ∈ idx.filterMap (fun k => i0[k]?), k < (p.toList o).length := by
      intro k hk
      obtain ⟨j, _, hj⟩ := List.mem_filterMap.1 hk
      exact hw.1.2 k (List.mem_of_getElem? hj)
    have := ih _ hw.1.1 hvalid
    refine ⟨?_, this.2⟩
    rw [this.1, List.filterMap_filterMap]
    apply filterMap_congr'
    intro i _
    have h1 := Seq.get_eq o (.take p i0) hw i
    have hg : Seq.get o p = fun i => (p.toList o)[i]? := funext (Seq.get_eq o p hw.1.1)
    simp only [Seq.get] at h1
    rw [← h1, hg]
  | chain a b iha ihb =>
    intro idx hw hi
    simp only [takeS]
    split
    · exact take_generic o _ idx hw trivial hi
    · rename_i hcb
      have hsplit := split_of_not_crossesBack (a.len o) idx (by simpa using hcb)
      have hla := Seq.len_eq o a hw.1
      simp only [Seq.toList, List.length_append] at hi
      have hia : ∀ i ∈ idx.filter (· < a.len o), i < (a.toList o).length := by
        intro i hi'; have := (List.mem_filter.1 hi').2; simp at this; omega
      have hib : ∀ i ∈ (idx.filter (fun i => !(i < a.len o))).map (· - a.len o), i < (b.toList o).length := by
        intro i hi'
        obtain ⟨j, hj, rfl⟩ := List.mem_map.1 hi'
        have h1 := (List.mem_filter.1 hj)
        have h2 := hi j h1.1
        have h3 := h1.2; simp at h3; omega
      have ra := iha _ hw.1 hia
      have rb := ihb _ hw.2 hib
      have rc := toList_chainS o _ _ ra.2 rb.2
      refine ⟨?_, rc.2⟩
      rw [rc.1, ra.1, rb.1]
      conv => rhs; rw [← hsplit]
      rw [List.filterMap_append, List.filterMap_map]
      congr 1
      · apply filterMap_congr'
        intro i hi'
        have := (List.mem_filter.1 hi').2; simp at this
        simp only [Seq.toList]
        rw [List.getElem?_append_left (by omega)]
      · apply filterMap_congr'
        intro i hi'
        have := (List.mem_filter.1 hi').2; simp at this
        simp only [Seq.toList, Function.comp]
        rw [List.getElem?_append_right (by omega), hla]
  | empty => intro idx hw hi; simp only [takeS]; exact take_generic o _ idx hw trivial hi
  | plain items => intro idx hw hi; simp only [takeS]; exact take_generic o _ idx hw trivial hi
  | rep p c => intro idx hw hi; simp only [takeS]; exact take_generic o _ idx hw trivial hi
  | prod a b => intro idx hw hi; simp only [takeS]; exact take_generic o _ idx hw trivial hi
  | derived t p => intro idx hw hi; simp only [takeS]; exact take_generic o _ idx hw trivial hi

/-- `[x for x, m in zip(l, mask) if m]` -/
def compressL {α : Type} (l : List α) (mask : List Bool) : List α := ((l.zip mask).filter (·.2)).map (·.1)

theorem compressL_cons {α : Type} (x : α) (l : List α) (m : Bool) (mask : List Bool) :
    compressL (x :: l) (m :: mask) = if m then x :: compressL l mask else compressL l mask := by
  cases m <;> simp [compressL]

theorem compressL_replicate (x : β) (n : Nat) (mask : List Bool) (h : mask.length = n) :
    compressL (List.replicate n x) mask = List.replicate (mask.count true) x := by
  induction mask generalizing n with
  | nil => simp [compressL]
  | cons m t ih =>
    cases n with
    | zero => simp at h
    | succ n =>
      rw [List.replicate_succ, compressL_cons, ih n (by simpa using h)]
      cases m <;> simp [List.replicate_succ]

theorem compressL_append {α : Type} (l1 l2 : List α) (mask : List Bool) :
    compressL (l1 ++ l2) mask = compressL l1 (mask.take l1.length) ++ compressL l2 (mask.drop l1.length) := by
  induction l1 generalizing mask with
  | nil => simp [compressL]
  | cons x l1 ih =>
    cases mask with
    | nil => simp [compressL]
    | cons m mask =>
      simp only [List.cons_append, List.length_cons, List.take_succ_cons, List.drop_succ_cons, compressL_cons, ih]
      cases m <;> simp

theorem compressL_filterMap (i0 : List Nat) (mask : List Bool) (f : Nat → Option β) (hf : ∀ i ∈ i0, (f i).isSome) :
    compressL (i0.filterMap f) mask = (compressL i0 mask).filterMap f := by
  induction i0 generalizing mask with
  | nil => simp [compressL]
  | cons i t ih =>
    obtain ⟨v, hv⟩ := Option.isSome_iff_exists.1 (hf i (List.mem_cons_self))
    have iht := fun mask => ih mask (fun j hj => hf j (List.mem_cons_of_mem _ hj))
    cases mask with
    | nil => simp [compressL]
    | cons m mask =>
      simp only [List.filterMap_cons, hv, compressL_cons, iht]
      cases m <;> simp [hv]

theorem compressL_subset {α : Type} (l : List α) (mask : List Bool) : ∀ x ∈ compressL l mask, x ∈ l := by
  intro x hx
  simp only [compressL, List.mem_map, List.mem_filter] at hx
  obtain ⟨⟨a, b⟩, ⟨hm, _⟩, rfl⟩ := hx
  exact (List.of_mem_zip hm).1

def nonzeroFrom (k : Nat) (mask : List Bool) : List Nat := ((mask.zipIdx k).filter (·.1)).map (·.2)

theorem nonzeroFrom_spec (l : List β) (mask : List Bool) (k : Nat) (h : mask.length + k = l.length) :
    (nonzeroFrom k mask).filterMap (fun i => l[i]?) = compressL (l.drop k) mask ∧ ∀ i ∈ nonzeroFrom k mask, i < l.length := by
  induction mask generalizing k with
  | nil => simp [nonzeroFrom, compressL]
  | cons m t ih =>
    have hk : k < l.length := by simp at h; omega
    have iht := ih (k+1) (by simp at h ⊢; omega)
    rw [List.drop_eq_getElem_cons hk, compressL_cons]
    simp only [nonzeroFrom, List.zipIdx_cons] at iht ⊢
    cases m
    · simpa using iht
    · simp only [List.filter_cons_of_pos, List.map_cons, List.filterMap_cons, List.getElem?_eq_getElem hk, if_true]
      refine ⟨by rw [iht.1], ?_⟩
      intro i hi
      rcases List.mem_cons.1 hi with rfl | hi
      · exact hk
      · exact iht.2 i hi

theorem compress_generic (o : Ops β) (s : Seq β) (mask : List Bool) (hw : s.wf o)
    (hm : mask.length = (s.toList o).length) :
    (takeS o s (nonzero mask)).toList o = compressL (s.toList o) mask ∧ (takeS o s (nonzero mask)).wf o := by
  have hn : nonzero mask = nonzeroFrom 0 mask := rfl
  have sp := nonzeroFrom_spec (s.toList o) mask 0 (by simpa using hm)
  have := toList_takeS o s (nonzero mask) hw (by rw [hn]; exact sp.2)
  refine ⟨?_, this.2⟩
  rw [this.1, hn, sp.1]; simp

/-- `seq.compress(mask)` denotes `[x for x, m in zip(seq, mask) if m]` -/
theorem toList_compressS (o : Ops β) (s : Seq β) : ∀ (mask : List Bool), s.wf o → mask.length = (s.toList o).length →
    (compressS o s mask).toList o = compressL (s.toList o) mask ∧ (compressS o s mask).wf o := by
  induction s with
  | uniform x n =>
    intro mask _ hm
    simp only [compressS, Seq.toList] at hm ⊢
    refine ⟨?_, (toList_uniformS o x _).2⟩
    rw [(toList_uniformS o x _).1, compressL_replicate x n mask (by simpa using hm)]
  | take p i0 ih =>
    intro mask hw hm
    simp only [compressS]
    have hJ : ((i0.zip mask).filter (·.2)).map (·.1) = compressL i0 mask := rfl
    rw [hJ]
    have hvalid : ∀ k ∈ compressL i0 mask, k < (p.toList o).length := fun k hk => hw.1.2 k (compressL_subset _ _ k hk)
    have := toList_takeS o p _ hw.1.1 hvalid
    refine ⟨?_, this.2⟩
    rw [this.1]
    simp only [Seq.toList]
    rw [compressL_filterMap]
    intro i hi
    simp [List.getElem?_eq_getElem (hw.1.2 i hi)]
  | chain a b iha ihb =>
    intro mask hw hm
    simp only [compressS]
    simp only [Seq.toList, List.length_append] at hm
    have hla := Seq.len_eq o a hw.1
    have ra := iha (mask.take (a.len o)) hw.1 (by simp; omega)
    have rb := ihb (mask.drop (a.len o)) hw.2 (by simp; omega)
    have rc := toList_chainS o _ _ ra.2 rb.2
    refine ⟨?_, rc.2⟩
    rw [rc.1, ra.1, rb.1]
    simp only [Seq.toList]
    rw [compressL_append, hla]
  | empty => intro mask hw hm; simp only [compressS]; exact compress_generic o _ mask hw hm
  | plain items => intro mask hw hm; simp only [compressS]; exact compress_generic o _ mask hw hm
  | rep p c => intro mask hw hm; simp only [compressS]; exact compress_generic o _ mask hw hm
  | prod a b => intro mask hw hm; simp only [compressS]; exact compress_generic o _ mask hw hm
  | derived t p => intro mask hw hm; simp only [compressS]; exact compress_generic o _ mask hw hm

/-! ### product / children / edges -/

/-- `[mul x y for x in l1 for y in l2]` -/
def prodL (mul : β → β → β) (l1 l2 : List β) : List β := l1.flatMap fun x => l2.map fun y => mul x y

theorem prodL_replicate (mul : β → β → β) (x y : β) (n m : Nat) :
    prodL mul (List.replicate n x) (List.replicate m y) = List.replicate (n * m) (mul x y) := by
  induction n with
  | zero => simp [prodL]
  | succ n ih =>
    simp only [prodL, List.replicate_succ, List.flatMap_cons] at ih ⊢
    rw [ih, Nat.succ_mul]
    simp [List.replicate_append_replicate, Nat.add_comm]

theorem prodL_append_left (mul : β → β → β) (l1 l1' l2 : List β) :
    prodL mul (l1 ++ l1') l2 = prodL mul l1 l2 ++ prodL mul l1' l2 := by
  simp [prodL, List.flatMap_append]

theorem prodL_assoc (mul : β → β → β) (hassoc : ∀ x y z, mul (mul x y) z = mul x (mul y z)) (l1 l2 l3 : List β) :
    prodL mul (prodL mul l1 l2) l3 = prodL mul l1 (prodL mul l2 l3) := by
  induction l1 with
  | nil => simp [prodL]
  | cons x t ih =>
    have hx : ∀ l2 : List β, prodL mul ((l2.map fun y => mul x y)) l3 = (prodL mul l2 l3).map fun w => mul x w := by
      intro l2
      induction l2 with
      | nil => simp [prodL]
      | cons y t2 ih2 =>
        simp only [prodL, List.map_cons, List.flatMap_cons, List.map_append, List.map_map] at ih2 ⊢
        rw [ih2]
        congr 1
        apply List.map_congr_left
        intro z _
        exact hassoc x y z
    calc prodL mul (prodL mul (x :: t) l2) l3
        = prodL mul ((l2.map fun y => mul x y) ++ prodL mul t l2) l3 := by simp [prodL, List.flatMap_cons]
      _ = prodL mul (l2.map fun y => mul x y) l3 ++ prodL mul (prodL mul t l2) l3 := prodL_append_left _ _ _ _
      _ = ((prodL mul l2 l3).map fun w => mul x w) ++ prodL mul t (prodL mul l2 l3) := by rw [hx, ih]
      _ = prodL mul (x :: t) (prodL mul l2 l3) := by simp [prodL, List.flatMap_cons]

/-- `a.product(b)` denotes all products `x.product(y)`, first index slowest (the re-association of nested products needs
`product` of items to be associative, which `Reference.product` is by construction) -/
theorem toList_productS (o : Ops β) (hassoc : ∀ x y z, o.mul (o.mul x y) z = o.mul x (o.mul y z)) (a : Seq β) :
    ∀ b : Seq β, a.wf o → b.wf o →
      (productS o a b).toList o = prodL o.mul (a.toList o) (b.toList o) ∧ (productS o a b).wf o := by
  induction a with
  | uniform x n =>
    intro b ha hb
    cases b with
    | uniform y m =>
      simp only [productS]
      refine ⟨?_, (toList_uniformS o _ _).2⟩
      rw [(toList_uniformS o _ _).1]; simp only [Seq.toList]; rw [prodL_replicate]
    | empty => exact ⟨rfl, ha, hb⟩
    | plain _ => exact ⟨rfl, ha, hb⟩
    | take _ _ => exact ⟨rfl, ha, hb⟩
    | rep _ _ => exact ⟨rfl, ha, hb⟩
    | prod _ _ => exact ⟨rfl, ha, hb⟩
    | chain _ _ => exact ⟨rfl, ha, hb⟩
    | derived _ _ => exact ⟨rfl, ha, hb⟩
  | prod a1 a2 ih1 ih2 =>
    intro b ha hb
    simp only [productS]
    have r2 := ih2 b ha.2 hb
    have r1 := ih1 _ ha.1 r2.2
    refine ⟨?_, r1.2⟩
    rw [r1.1, r2.1]
    simp only [Seq.toList]
    exact (prodL_assoc o.mul hassoc _ _ _).symm
  | empty => intro b ha hb; exact ⟨rfl, ha, hb⟩
  | plain _ => intro b ha hb; exact ⟨rfl, ha, hb⟩
  | take _ _ => intro b ha hb; exact ⟨rfl, ha, hb⟩
  | rep _ _ => intro b ha hb; exact ⟨rfl, ha, hb⟩
  | chain _ _ => intro b ha hb; exact ⟨rfl, ha, hb⟩
  | derived _ _ => intro b ha hb; exact ⟨rfl, ha, hb⟩

theorem flatMap_flatten_replicate {γ : Type} (c : Nat) (l : List β) (f : β → List γ) :
    ((List.replicate c l).flatten).flatMap f = (List.replicate c (l.flatMap f)).flatten := by
  induction c with
  | zero => simp
  | succ c ih => simp [List.replicate_succ, List.flatMap_append, ih]

/-- `seq.children` / `seq.edges` denote the concatenation of the derived references of every item -/
theorem toList_derivedS (o : Ops β) (tag : Bool) (s : Seq β) : s.wf o →
    (derivedS o tag s).toList o = (s.toList o).flatMap (o.der tag) ∧ (derivedS o tag s).wf o := by
  induction s with
  | empty => intro _; exact ⟨rfl, trivial⟩
  | uniform x n =>
    intro _
    simp only [derivedS]
    have f := toList_fromIter o (o.der tag x)
    have r := toList_repeatS o _ n f.2
    refine ⟨?_, r.2⟩
    rw [r.1, f.1]
    simp only [Seq.toList]
    have := flatMap_flatten_replicate n [x] (o.der tag)
    simpa using this.symm
  | rep p c ih =>
    intro hw
    simp only [derivedS]
    have rp := ih hw
    have r := toList_repeatS o _ c rp.2
    refine ⟨?_, r.2⟩
    rw [r.1, rp.1]
    simp only [Seq.toList]
    exact (flatMap_flatten_replicate c _ _).symm
  | chain a b iha ihb =>
    intro hw
    simp only [derivedS]
    have ra := iha hw.1; have rb := ihb hw.2
    have rc := toList_chainS o _ _ ra.2 rb.2
    refine ⟨?_, rc.2⟩
    rw [rc.1, ra.1, rb.1]
    simp [Seq.toList, List.flatMap_append]
  | plain _ => intro hw; exact ⟨rfl, hw⟩
  | take _ _ => intro hw; exact ⟨rfl, hw⟩
  | prod _ _ => intro hw; exact ⟨rfl, hw⟩
  | derived _ _ => intro hw; exact ⟨rfl, hw⟩

end NutilsVerif.C11.Alg
