import NutilsVerif.Proofs.C01Driver
/-!
# C01 (driver) — the refinement invariant

Every reachable state of the stack machine is the image of a continuation `Ctx` of the recursive specification:
the three stacks are determined by the chain of frames "simplifying child `cur` of `node l args`, children after
it already done" / "simplifying the rewrite of the node rebuilt from `args'`".  Together with `MemoValid` (every
memo entry is a result of the specification) this is preserved by every branch of `step`.
-/
namespace NutilsVerif.C01Driver

/-- continuation of the recursive specification -/
inductive Ctx where
  /-- waiting for the result of the root -/
  | top
  /-- inside `node l (todo.reverse ++ cur :: post)`: waiting for the result of `cur`; `done` are the results of
  `post`, `todo` (next one first) are the children still to be visited -/
  | arg (K : Ctx) (l : Nat) (todo : List Term) (cur : Term) (post done : List Term)
  /-- inside `node l args` whose children simplified to `args'`: waiting for the result of `f (node l args')` -/
  | rew (K : Ctx) (l : Nat) (args args' : List Term)

variable (f : Term → Term) (root : Term)

def Ctx.goal : Ctx → Term
  | .top => root
  | .arg _ _ _ cur _ _ => cur
  | .rew _ l _ args' => f (.node l args')

def Ctx.fs : Ctx → List Item
  | .top => []
  | .arg K l todo cur post _ => todo.map .term ++ .recreate l (todo.reverse ++ cur :: post).length :: .store :: K.fs
  | .rew K _ _ _ => .store :: K.fs

def Ctx.rs : Ctx → List Term
  | .top => []
  | .arg K _ _ _ _ done => done ++ K.rs
  | .rew K _ _ _ => K.rs

def Ctx.os : Ctx → List Term
  | .top => []
  | .arg K l todo cur post _ => .node l (todo.reverse ++ cur :: post) :: K.os
  | .rew K l args _ => .node l args :: K.os

def Ctx.WF : Ctx → Prop
  | .top => True
  | .arg K l todo cur post done =>
    K.WF ∧ K.goal f root = .node l (todo.reverse ++ cur :: post) ∧ Forall₂ (Res f) post done
  | .rew K l args args' =>
    K.WF ∧ K.goal f root = .node l args ∧ Forall₂ (Res f) args args' ∧ f (.node l args') ≠ .node l args'

/-- the four kinds of reachable states -/
inductive Shape (s : State) : Prop where
  /-- about to visit the goal of `K` -/
  | eval (K : Ctx) (wf : K.WF f root) (hf : s.fstack = .term (K.goal f root) :: K.fs) (hr : s.rstack = K.rs)
      (ho : s.ostack = K.os)
  /-- all children of the goal of `K` are simplified and on `rstack` -/
  | rebuild (K : Ctx) (l : Nat) (args args' : List Term) (wf : K.WF f root) (hg : K.goal f root = .node l args)
      (hres : Forall₂ (Res f) args args') (hf : s.fstack = .recreate l args.length :: .store :: K.fs)
      (hr : s.rstack = args' ++ K.rs) (ho : s.ostack = .node l args :: K.os)
  /-- the result `r` of the goal of `K` is on top of `rstack`, about to be memoised -/
  | store (K : Ctx) (r : Term) (wf : K.WF f root) (hres : Res f (K.goal f root) r) (hf : s.fstack = .store :: K.fs)
      (hr : s.rstack = r :: K.rs) (ho : s.ostack = K.goal f root :: K.os)
  /-- finished -/
  | final (r : Term) (hres : Res f root r) (hf : s.fstack = []) (hr : s.rstack = [r]) (ho : s.ostack = [])

def MemoValid (memo : Memo) : Prop := ∀ t v, (t, v) ∈ memo → Res f t (v.getD t)

def Inv (s : State) : Prop := MemoValid f s.memo ∧ Shape f root s

theorem lookup_mem {t : Term} : ∀ {memo : Memo} {v}, lookup t memo = some v → (t, v) ∈ memo
  | [], _, h => by simp [lookup] at h
  | (k, w) :: m, v, h => by
    simp only [lookup] at h
    split at h
    · rename_i hk; cases h; subst hk; exact List.mem_cons_self
    · exact List.mem_cons_of_mem _ (lookup_mem h)

/-- returning a result `r` for the goal of `K` lands in a reachable shape -/
theorem shape_ret {K : Ctx} (wf : K.WF f root) {r : Term} (hres : Res f (K.goal f root) r)
    {s : State} (hf : s.fstack = K.fs) (hr : s.rstack = r :: K.rs) (ho : s.ostack = K.os) : Shape f root s := by
  cases K with
  | top => exact .final r hres hf hr ho
  | arg K l todo cur post done =>
    obtain ⟨wfK, hg, hdone⟩ := wf
    cases todo with
    | nil =>
      refine .rebuild K l (cur :: post) (r :: done) wfK (by simpa using hg) (.cons hres hdone) ?_ ?_ ?_
      · simpa [Ctx.fs] using hf
      · simpa [Ctx.rs] using hr
      · simpa [Ctx.os] using ho
    | cons c todo =>
      have e : (c :: todo).reverse ++ cur :: post = todo.reverse ++ c :: (cur :: post) := by simp
      refine .eval (.arg K l todo c (cur :: post) (r :: done)) ⟨wfK, by rw [hg, e], .cons hres hdone⟩ ?_ ?_ ?_
      · rw [hf]; simp only [Ctx.fs, Ctx.goal, e, List.map_cons, List.cons_append]
      · rw [hr]; simp [Ctx.rs]
      · rw [ho]; simp only [Ctx.os, e]
  | rew K l args args' =>
    obtain ⟨wfK, hg, hargs, hne⟩ := wf
    have hres' : Res f (K.goal f root) r := by rw [hg]; exact res_rew hargs hne hres
    refine .store K r wfK hres' (by simpa [Ctx.fs] using hf) (by simpa [Ctx.rs] using hr) ?_
    rw [ho, hg]; rfl

/-! ### dependency chains along the ostack -/

theorem ctx_os_path {K : Ctx} (wf : K.WF f root) : ∀ o, o ∈ K.os → Path f o (K.goal f root) := by
  induction K with
  | top => intro o ho; cases ho
  | arg K l todo cur post done ih =>
    obtain ⟨wfK, hg, _⟩ := wf
    have d : Dep f (K.goal f root) cur := by rw [hg]; exact .child (by simp)
    intro o ho
    simp only [Ctx.os, List.mem_cons] at ho
    rcases ho with rfl | ho
    · rw [← hg]; exact .single d
    · exact (ih wfK o ho).snoc d
  | rew K l args args' ih =>
    obtain ⟨wfK, hg, hargs, hne⟩ := wf
    have d : Dep f (K.goal f root) (f (.node l args')) := by rw [hg]; exact .rew hargs hne
    intro o ho
    simp only [Ctx.os, List.mem_cons] at ho
    rcases ho with rfl | ho
    · rw [← hg]; exact .single d
    · exact (ih wfK o ho).snoc d

theorem ctx_root_reach {K : Ctx} (wf : K.WF f root) : root = K.goal f root ∨ Path f root (K.goal f root) := by
  induction K with
  | top => exact .inl rfl
  | arg K l todo cur post done ih =>
    obtain ⟨wfK, hg, _⟩ := wf
    have d : Dep f (K.goal f root) cur := by rw [hg]; exact .child (by simp)
    rcases ih wfK with h | h
    · right; rw [h]; exact .single d
    · right; exact h.snoc d
  | rew K l args args' ih =>
    obtain ⟨wfK, hg, hargs, hne⟩ := wf
    have d : Dep f (K.goal f root) (f (.node l args')) := by rw [hg]; exact .rew hargs hne
    rcases ih wfK with h | h
    · right; rw [h]; exact .single d
    · right; exact h.snoc d

/-! ### one step preserves the invariant -/

/-- what a halting step guarantees -/
def HaltOk (s : State) : Outcome → Prop
  | .done r => Res f root r ∧ s.fstack = [] ∧ s.rstack = [r] ∧ s.ostack = []
  | .loop x => x ∈ s.ostack ∧ (∀ o, o ∈ s.ostack → Path f o x) ∧ (root = x ∨ Path f root x) ∧
      lookup x s.memo = none ∧ ∃ fs, s.fstack = .term x :: fs
  | .outOfFuel => False
  | .stuck => False

theorem step_inv {s : State} (h : Inv f root s) :
    match step f s with
    | .next s' => Inv f root s'
    | .halt o => HaltOk f root s o := by
  obtain ⟨hm, hs⟩ := h
  obtain ⟨fstack, rstack, ostack, memo, calls⟩ := s
  cases hs with
  | eval K wf hf hr ho =>
    simp only at hf hr ho hm
    subst hf hr ho
    simp only [step]
    cases hl : lookup (K.goal f root) memo with
    | some v =>
      exact ⟨hm, shape_ret f root wf (hm _ _ (lookup_mem hl)) rfl rfl rfl⟩
    | none =>
      simp only
      by_cases hin : K.goal f root ∈ K.os
      · rw [if_pos hin]
        exact ⟨hin, ctx_os_path f root wf, ctx_root_reach f root wf, hl, _, rfl⟩
      · rw [if_neg hin]
        refine ⟨hm, ?_⟩
        cases hg : K.goal f root with
        | node l args =>
          simp only [Term.args, Term.label]
          rcases hrev : args.reverse with _ | ⟨c, todo⟩
          · have hargs : args = [] := by simpa using hrev
            subst hargs
            exact .rebuild K l [] [] wf hg .nil rfl rfl rfl
          · have hargs : args = todo.reverse ++ [c] := by
              have := congrArg List.reverse hrev
              simpa using this
            subst hargs
            refine .eval (.arg K l todo c [] []) ⟨wf, hg, .nil⟩ ?_ rfl rfl
            simp [Ctx.fs, Ctx.goal]
  | rebuild K l args args' wf hg hres hf hr ho =>
    simp only at hf hr ho hm
    subst hf hr ho
    have hlen := forall₂_length hres
    have hnl : ¬ (args' ++ K.rs).length < args.length := by simp [hlen]
    have htake : (args' ++ K.rs).take args.length = args' := by simp [hlen]
    have hdrop : (args' ++ K.rs).drop args.length = K.rs := by simp [hlen]
    simp only [step, if_neg hnl, htake, hdrop]
    by_cases hfu : f (.node l args') = .node l args'
    · rw [if_pos hfu]
      refine ⟨hm, .store K (.node l args') wf ?_ rfl rfl ?_⟩
      · rw [hg]; exact res_keep hres hfu
      · simp [hg]
    · rw [if_neg hfu]
      exact ⟨hm, .eval (.rew K l args args') ⟨wf, hg, hres, hfu⟩ rfl rfl rfl⟩
  | store K r wf hres hf hr ho =>
    simp only at hf hr ho hm
    subst hf hr ho
    simp only [step]
    refine ⟨?_, shape_ret f root wf hres rfl rfl rfl⟩
    intro t v hv
    rcases List.mem_cons.1 hv with hv | hv
    · cases hv
      by_cases hro : r = K.goal f root
      · simp only [if_pos hro, Option.getD_none]; rw [hro] at hres; exact hres
      · simp only [if_neg hro, Option.getD_some]; exact hres
    · exact hm t v hv
  | final r hres hf hr ho =>
    simp only at hf hr ho hm
    subst hf hr ho
    simp only [step]
    exact ⟨hres, rfl, rfl, rfl⟩

theorem init_inv {memo : Memo} (hm : MemoValid f memo) : Inv f root (init memo root) :=
  ⟨hm, .eval .top trivial rfl rfl rfl⟩

theorem memoValid_nil : MemoValid f [] := by intro t v h; cases h

/-- invariant along `iter` -/
theorem iter_inv : ∀ (k : Nat) {s s' : State}, Inv f root s → iter f k s = some s' → Inv f root s'
  | 0, s, s', h, e => by simp only [iter] at e; cases e; exact h
  | k+1, s, s', h, e => by
    simp only [iter] at e
    have := step_inv f root h
    split at e
    · rename_i s1 hs1
      rw [hs1] at this
      exact iter_inv k this e
    · cases e

/-- invariant and halting guarantee along `runFrom` -/
theorem runFrom_inv : ∀ (n : Nat) {s : State}, Inv f root s →
    Inv f root (runFrom f n s).2 ∧ ((runFrom f n s).1 = .outOfFuel ∨ HaltOk f root (runFrom f n s).2 (runFrom f n s).1)
  | 0, s, h => ⟨h, .inl rfl⟩
  | n+1, s, h => by
    have := step_inv f root h
    simp only [runFrom]
    split
    · rename_i s1 hs1
      rw [hs1] at this
      exact runFrom_inv n this
    · rename_i o ho
      rw [ho] at this
      exact ⟨h, .inr this⟩

end NutilsVerif.C01Driver
