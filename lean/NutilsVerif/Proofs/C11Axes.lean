import NutilsVerif.Model.C11Axes
import NutilsVerif.Proofs.C11Struct
/-!
# C11 — derived axes of `StructuredTopology`: every side of every interface / boundary facet is an element of the axis
-/
namespace NutilsVerif.C11

/-- a dimension axis as the source makes it (`mesh.rectilinear`, `topology.line`, then any sequence of `refined` / `getitem`):
non-empty; not periodic without modulus; with a modulus the axis is not longer than the period, and a periodic axis spans exactly
one period.  (`getitem_ok`, `refined_ok` show that the derivations preserve this.) -/
def DimAx.ok (d : DimAx) : Prop :=
  d.i < d.j ∧ ((d.mod = 0 ∧ d.isperiodic = false) ∨ (0 < d.mod ∧ d.j - d.i ≤ d.mod ∧ (d.isperiodic = true → d.j - d.i = d.mod)))

theorem DimAx.ok_toAxis (d : DimAx) (h : d.ok) : d.toAxis.ok := by
  obtain ⟨hij, hm⟩ := h
  refine ⟨by simp [DimAx.toAxis]; omega, ?_⟩
  rcases hm with ⟨h0, _⟩ | ⟨hpos, hle, _⟩
  · exact Or.inl (by simp [DimAx.toAxis, h0])
  · refine Or.inr ⟨by simpa [DimAx.toAxis] using hpos, ?_⟩
    simp only [DimAx.toAxis, Axis.len]
    omega

theorem fmod_fmod_sub (k i m : Int) (hm : 0 < m) : Int.fmod (Int.fmod k m - i) m = Int.fmod (k - i) m := by
  rw [Int.fmod_eq_emod_of_nonneg _ (by omega), Int.fmod_eq_emod_of_nonneg _ (by omega), Int.fmod_eq_emod_of_nonneg _ (by omega)]
  have : k % m - i = (k - i) + m * (-(k / m)) := by
    have := Int.emod_def k m
    rw [this]; ring_nf
  rw [this, Int.add_mul_emod_self_left]

/-- `a.unmap` does not see whether `Axis.map` of an axis with the same modulus has already reduced the index -/
theorem Axis.unmap_reduced (a : Axis) (hm : a.mod = 0 ∨ 0 < a.mod) (k : Int) :
    a.unmap (if a.mod ≠ 0 then Int.fmod k a.mod else k) = a.unmap k := by
  rcases hm with h0 | hpos
  · simp [h0]
  · have hne : a.mod ≠ 0 := by omega
    simp only [hne, ne_eq, not_false_eq_true, if_true, Axis.unmap]
    rw [fmod_fmod_sub k a.i a.mod hpos]

/-- looking up, in the element axis `a`, element `r` of a derived axis `e` with the same modulus -/
theorem Axis.unmap_map_of (a e : Axis) (hmod : e.mod = a.mod) (hm : a.mod = 0 ∨ 0 < a.mod) (r : Nat) :
    a.unmap (e.map r) = a.unmap (e.i + (r : Int)) := by
  have h1 : e.map r = (if a.mod ≠ 0 then Int.fmod (e.i + (r : Int)) a.mod else e.i + (r : Int)) := by
    unfold Axis.map
    rw [hmod]
  rw [h1]
  exact Axis.unmap_reduced a hm _

theorem Axis.unmap_inrange (a : Axis) (h : a.ok) (k : Int) (h1 : a.i ≤ k) (h2 : k < a.j) : a.unmap k = some (k - a.i).toNat := by
  obtain ⟨hij, hmod⟩ := h
  have hlen : ((a.len : Nat) : Int) = a.j - a.i := by simp only [Axis.len]; omega
  unfold Axis.unmap
  rcases hmod with h0 | ⟨hpos, hle⟩
  · simp only [h0, ne_eq, not_true_eq_false, if_false]
    rw [if_pos (by omega)]
  · have hne : a.mod ≠ 0 := by omega
    simp only [hne, ne_eq, not_false_eq_true, if_true]
    have e : Int.fmod (k - a.i) a.mod = k - a.i := by
      rw [Int.fmod_eq_emod_of_nonneg _ (by omega)]
      exact Int.emod_eq_of_lt (by omega) (by omega)
    rw [e, if_pos (by omega)]

/-- one before the start of an axis that spans exactly one period is its last element -/
theorem Axis.unmap_wrap (a : Axis) (hij : a.i < a.j) (hpos : 0 < a.mod) (hfull : a.j - a.i = a.mod) :
    a.unmap (a.i - 1) = some (a.len - 1) := by
  have hlen : ((a.len : Nat) : Int) = a.j - a.i := by simp only [Axis.len]; omega
  unfold Axis.unmap
  have hne : a.mod ≠ 0 := by omega
  simp only [hne, ne_eq, not_false_eq_true, if_true]
  have e : Int.fmod (a.i - 1 - a.i) a.mod = a.mod - 1 := by
    rw [Int.fmod_eq_emod_of_nonneg _ (by omega)]
    have : a.i - 1 - a.i = (a.mod - 1) + a.mod * (-1) := by ring_nf
    rw [this, Int.add_mul_emod_self_left]
    exact Int.emod_eq_of_lt (by omega) (by omega)
  rw [e, if_pos (by omega)]
  congr 1
  omega

theorem DimAx.intaxis_len (d : DimAx) (h : d.ok) (b : Nat) (side : Bool) :
    (d.intaxis b side).len = if d.isperiodic then d.len else d.len - 1 := by
  obtain ⟨hij, _⟩ := h
  cases hp : d.isperiodic <;> cases side <;> simp [DimAx.intaxis, DimAx.len, DimAx.toAxis, Axis.len, b2i, hp] <;> omega

/-- **both sides of every interface along an axis are elements of the axis, and they are neighbours**: interface `r` of
`intaxis(side=True)` (the `transforms` of the interface topology) is a facet of element `r` (of element `r-1`, or the last
element for `r = 0`, when the axis is periodic), and the same interface of `intaxis(side=False)` (the `opposites`) is a facet of
the next element (the first one across the seam). -/
theorem DimAx.intaxis_sides (d : DimAx) (h : d.ok) (b : Nat) (r : Nat) (hr : r < (d.intaxis b true).len) :
    d.toAxis.unmap ((d.intaxis b true).map r) = some (if d.isperiodic then (if r = 0 then d.len - 1 else r - 1) else r) ∧
    d.toAxis.unmap ((d.intaxis b false).map r) = some (if d.isperiodic then r else r + 1) := by
  have hax := d.ok_toAxis h
  rw [d.intaxis_len h] at hr
  obtain ⟨hij, hm⟩ := h
  have hm' : d.toAxis.mod = 0 ∨ 0 < d.toAxis.mod := by
    rcases hm with ⟨h0, _⟩ | ⟨hpos, _⟩
    · exact Or.inl h0
    · exact Or.inr hpos
  have hlen : ((d.len : Nat) : Int) = d.j - d.i := by simp only [DimAx.len, DimAx.toAxis, Axis.len]; omega
  have key : ∀ side, d.toAxis.unmap ((d.intaxis b side).map r) = d.toAxis.unmap ((d.intaxis b side).i + (r : Int)) := by
    intro side
    exact Axis.unmap_map_of d.toAxis (d.intaxis b side) rfl hm' r
  rw [key true, key false]
  cases hp : d.isperiodic
  · -- not periodic
    simp only [hp, Bool.false_eq_true, if_false] at hr ⊢
    constructor
    · rw [Axis.unmap_inrange _ hax _ (by simp [DimAx.intaxis, DimAx.toAxis, b2i, hp]) (by simp [DimAx.intaxis, DimAx.toAxis, b2i, hp]; omega)]
      congr 1
      simp [DimAx.intaxis, DimAx.toAxis, b2i, hp]
    · rw [Axis.unmap_inrange _ hax _ (by simp [DimAx.intaxis, DimAx.toAxis, b2i, hp]; omega) (by simp [DimAx.intaxis, DimAx.toAxis, b2i, hp]; omega)]
      congr 1
      simp [DimAx.intaxis, DimAx.toAxis, b2i, hp]
      omega
  · -- periodic: the axis spans one period
    simp only [hp, if_true] at hr ⊢
    have hfull : d.j - d.i = d.mod ∧ 0 < d.mod := by
      rcases hm with ⟨_, hf⟩ | ⟨hpos, _, hf⟩
      · simp [hp] at hf
      · exact ⟨hf hp, hpos⟩
    constructor
    · by_cases hr0 : r = 0
      · subst hr0
        have := Axis.unmap_wrap d.toAxis (by simpa [DimAx.toAxis] using hij) (by simpa [DimAx.toAxis] using hfull.2) (by simpa [DimAx.toAxis] using hfull.1)
        simpa [DimAx.intaxis, DimAx.toAxis, b2i, hp, DimAx.len] using this
      · rw [Axis.unmap_inrange _ hax _ (by simp [DimAx.intaxis, DimAx.toAxis, b2i, hp]; omega) (by simp [DimAx.intaxis, DimAx.toAxis, b2i, hp]; omega)]
        simp only [hr0, if_false]
        congr 1
        simp [DimAx.intaxis, DimAx.toAxis, b2i, hp]
        omega
    · rw [Axis.unmap_inrange _ hax _ (by simp [DimAx.intaxis, DimAx.toAxis, b2i, hp]) (by simp [DimAx.intaxis, DimAx.toAxis, b2i, hp]; omega)]
      congr 1
      simp [DimAx.intaxis, DimAx.toAxis, b2i, hp]

/-- slicing keeps the axis well formed, makes it non-periodic, and element `r` of the slice is element `start + r` of the axis -/
theorem DimAx.getitem_ok (d : DimAx) (h : d.ok) (start stop : Nat) (h1 : start < stop) (h2 : stop ≤ d.len) :
    (d.getitem start stop).ok ∧ (d.getitem start stop).isperiodic = false ∧ (d.getitem start stop).len = stop - start ∧
    ∀ r, (d.getitem start stop).toAxis.map r = d.toAxis.map (start + r) := by
  obtain ⟨hij, hm⟩ := h
  have hlen : ((d.len : Nat) : Int) = d.j - d.i := by simp only [DimAx.len, DimAx.toAxis, Axis.len]; omega
  refine ⟨⟨by simp [DimAx.getitem]; omega, ?_⟩, rfl, by simp [DimAx.getitem, DimAx.len, DimAx.toAxis, Axis.len], ?_⟩
  · rcases hm with ⟨h0, _⟩ | ⟨hpos, hle, _⟩
    · exact Or.inl ⟨h0, rfl⟩
    · refine Or.inr ⟨hpos, ?_, by simp [DimAx.getitem]⟩
      simp only [DimAx.getitem]
      omega
  · intro r
    simp only [Axis.map, DimAx.getitem, DimAx.toAxis, Nat.cast_add, Int.add_assoc]

/-- refinement keeps the axis well formed and periodic / non-periodic, and doubles its length -/
theorem DimAx.refined_ok (d : DimAx) (h : d.ok) :
    d.refined.ok ∧ d.refined.isperiodic = d.isperiodic ∧ d.refined.len = 2 * d.len := by
  obtain ⟨hij, hm⟩ := h
  refine ⟨⟨by simp [DimAx.refined]; omega, ?_⟩, rfl, by simp [DimAx.refined, DimAx.len, DimAx.toAxis, Axis.len]; omega⟩
  rcases hm with ⟨h0, hp⟩ | ⟨hpos, hle, hf⟩
  · exact Or.inl ⟨by simp [DimAx.refined, h0], hp⟩
  · refine Or.inr ⟨by simp [DimAx.refined]; omega, by simp [DimAx.refined]; omega, ?_⟩
    intro hp
    have := hf hp
    simp [DimAx.refined]
    omega

/-- the boundary facets of a non-periodic axis belong to its first and its last element; a periodic axis has none -/
theorem DimAx.boundaries_sides (d : DimAx) (h : d.ok) (b : Nat) :
    if d.isperiodic then d.boundaries b = []
    else ∃ a0 a1, d.boundaries b = [a0, a1] ∧ a0.len = 1 ∧ a1.len = 1 ∧
      d.toAxis.unmap (a0.map 0) = some 0 ∧ d.toAxis.unmap (a1.map 0) = some (d.len - 1) := by
  have hax := d.ok_toAxis h
  obtain ⟨hij, hm⟩ := h
  have hm' : d.toAxis.mod = 0 ∨ 0 < d.toAxis.mod := by
    rcases hm with ⟨h0, _⟩ | ⟨hpos, _⟩
    · exact Or.inl h0
    · exact Or.inr hpos
  cases hp : d.isperiodic
  · simp only [Bool.false_eq_true, if_false, DimAx.boundaries, hp]
    refine ⟨_, _, rfl, by simp [Axis.len], by simp [Axis.len], ?_, ?_⟩
    · rw [Axis.unmap_map_of d.toAxis { i := d.i, j := d.i + 1, mod := d.mod, isdim := false, ibound := b, side := false } rfl hm' 0]
      have := Axis.unmap_inrange d.toAxis hax (d.i + ((0 : Nat) : Int)) (by simp [DimAx.toAxis]) (by simp [DimAx.toAxis]; omega)
      simpa [DimAx.toAxis] using this
    · rw [Axis.unmap_map_of d.toAxis { i := d.j - 1, j := d.j, mod := d.mod, isdim := false, ibound := b, side := true } rfl hm' 0]
      have := Axis.unmap_inrange d.toAxis hax (d.j - 1 + ((0 : Nat) : Int)) (by simp [DimAx.toAxis]; omega) (by simp [DimAx.toAxis])
      rw [this]
      congr 1
      simp only [DimAx.len, DimAx.toAxis, Axis.len]
      omega
  · simp [DimAx.boundaries, hp]

end NutilsVerif.C11
