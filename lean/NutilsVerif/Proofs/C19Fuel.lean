import NutilsVerif.Model.C19
/-!
# C19 — the Lean port of the parser terminates: fuel `length + 1` always suffices

Every `…Body` calls its `rec` argument only on substrings that are strictly shorter than its own input
(`…_congr`), hence `parseExpr` with any fuel above the input length gives the same answer and never
answers `outOfFuel`.
-/
namespace NutilsVerif.C19

theorem Sub.len_trimStart_le (s : Sub) : s.trimStart.len ≤ s.len := by
  simp only [Sub.trimStart, Sub.len, List.length_drop]; omega
theorem Sub.len_trimEnd_le (s : Sub) : s.trimEnd.len ≤ s.len := by
  simp [Sub.trimEnd, Sub.len]
theorem Sub.len_trim_le (s : Sub) : s.trim.len ≤ s.len :=
  Nat.le_trans (Sub.len_trimStart_le _) (Sub.len_trimEnd_le _)
theorem Sub.len_dropN_le (s : Sub) (a : Nat) : (s.dropN a).len ≤ s.len := by
  simp [Sub.dropN, Sub.len]

theorem splitL_len (ms : List Matcher) (start : Nat) (l : List Char) :
    ∀ p ∈ splitL ms start l, p.len ≤ l.length := by
  induction start, l using splitL.induct ms with
  | case1 start l h =>
    intro p hp; rw [splitL] at hp; simp only [h, dite_true, List.mem_singleton] at hp
    subst hp; simp [Sub.len]; omega
  | case2 start l h ih =>
    intro p hp; rw [splitL] at hp; simp only [h, dite_false, List.mem_cons] at hp
    rcases hp with hp | hp
    · subst hp; simp [Sub.len]; omega
    · have := ih p hp; simp only [List.length_drop] at this; omega

theorem isplitL_len (ms : List Matcher) (first : Option Nat) (start : Nat) (l : List Char) :
    ∀ p ∈ isplitL ms first start l, p.2.len ≤ l.length := by
  induction first, start, l using isplitL.induct ms with
  | case1 first start l h =>
    intro p hp; rw [isplitL] at hp; simp only [h, dite_true, List.mem_singleton] at hp
    subst hp; simp [Sub.len]; omega
  | case2 first start l h ih =>
    intro p hp; rw [isplitL] at hp; simp only [h, dite_false, List.mem_cons] at hp
    rcases hp with hp | hp
    · subst hp; simp [Sub.len]; omega
    · have := ih p hp; simp only [List.length_drop] at this; omega

theorem mapMIdx_congr {α β : Type} (f g : Nat → α → P β) (l : List α) :
    ∀ k, (∀ i a, a ∈ l → f i a = g i a) → mapMIdx f l k = mapMIdx g l k := by
  induction l with
  | nil => intro k _; rfl
  | cons a t ih =>
    intro k h
    simp only [mapMIdx]
    rw [h k a (List.mem_cons_self), ih (k + 1) (fun i b hb => h i b (List.mem_cons_of_mem _ hb))]

theorem Sub.scope_len_lt (s : Sub) (h : s.chars ≠ []) : s.partitionScope.scope.len < s.len := by
  have : 0 < s.chars.length := List.length_pos_iff.mpr h
  simp only [Sub.partitionScope, Sub.slice, Sub.len, List.length_take, List.length_drop]
  omega

theorem Sub.sOpen_nil_of_nil (s : Sub) (h : s.chars = []) : s.partitionScope.sOpen.chars = [] := by
  simp [Sub.partitionScope, Sub.slice, h]

theorem itemBody_congr (Γ : Ctx) (r1 r2 : Rec) (s : Sub) (a : Bool)
    (h : ∀ t : Sub, t.len < s.len → r1 t = r2 t) : itemBody Γ r1 s a = itemBody Γ r2 s a := by
  unfold itemBody
  simp only []
  split
  · rfl
  · rename_i c0 cs hc
    have hne : s.trim.chars ≠ [] := by rw [hc]; simp
    have hlt := Nat.lt_of_lt_of_le (Sub.scope_len_lt s.trim hne) (Sub.len_trim_le s)
    simp only [h _ hlt]

theorem powerBody_congr (Γ : Ctx) (r1 r2 : Rec) (s : Sub) (a : Bool)
    (h : ∀ t : Sub, t.len < s.len → r1 t = r2 t) : powerBody Γ r1 s a = powerBody Γ r2 s a := by
  unfold powerBody
  have hparts : ∀ p ∈ s.trim.split [.lit ['^']], p.len ≤ s.len := fun p hp =>
    Nat.le_trans (splitL_len _ _ _ p hp) (Sub.len_trim_le s)
  generalize s.trim.split [.lit ['^']] = parts at hparts
  match parts, hparts with
  | [], _ => rfl
  | [b], hp =>
    have hb := hp b (by simp)
    exact itemBody_congr Γ r1 r2 b a (fun t ht => h t (by omega))
  | [b, e], hp =>
    have hb := hp b (by simp)
    have he := hp e (by simp)
    simp only []
    rw [itemBody_congr Γ r1 r2 b a (fun t ht => h t (by omega))]
    cases hc : e.chars with
    | nil =>
      have := Sub.sOpen_nil_of_nil e hc
      simp [this]
    | cons c cs =>
      have hne : e.chars ≠ [] := by rw [hc]; simp
      have hlt := Nat.lt_of_lt_of_le (Sub.scope_len_lt e hne) he
      simp only [h _ hlt]
  | _ :: _ :: _ :: _, _ => rfl

theorem termBody_congr (Γ : Ctx) (r1 r2 : Rec) (s : Sub)
    (h : ∀ t : Sub, t.len < s.len → r1 t = r2 t) : termBody Γ r1 s = termBody Γ r2 s := by
  unfold termBody
  simp only []
  split
  · exact powerBody_congr Γ r1 r2 s true h
  · have : mapMIdx (fun i p => powerBody Γ r1 p (i == 0)) (s.trim.split [.spaces]) 0
        = mapMIdx (fun i p => powerBody Γ r2 p (i == 0)) (s.trim.split [.spaces]) 0 := by
      apply mapMIdx_congr
      intro i p hp
      have hl := Nat.le_trans (splitL_len _ _ _ p hp) (Sub.len_trim_le s)
      exact powerBody_congr Γ r1 r2 p _ (fun t ht => h t (by omega))
    rw [this]

theorem fractionBody_congr (Γ : Ctx) (r1 r2 : Rec) (s : Sub)
    (h : ∀ t : Sub, t.len < s.len → r1 t = r2 t) : fractionBody Γ r1 s = fractionBody Γ r2 s := by
  unfold fractionBody
  have hparts : ∀ p ∈ s.split slash, p.len ≤ s.len := fun p hp => splitL_len _ _ _ p hp
  generalize s.split slash = parts at hparts
  match parts, hparts with
  | [], _ => rfl
  | [n], hp =>
    have hn := hp n (by simp)
    exact termBody_congr Γ r1 r2 n (fun t ht => h t (by omega))
  | [n, d], hp =>
    have hn := hp n (by simp)
    have hd := hp d (by simp)
    simp only []
    rw [termBody_congr Γ r1 r2 n (fun t ht => h t (by omega)), termBody_congr Γ r1 r2 d (fun t ht => h t (by omega))]
  | _ :: _ :: _ :: _, _ => rfl

theorem exprBody_congr (Γ : Ctx) (r1 r2 : Rec) (s : Sub)
    (h : ∀ t : Sub, t.len < s.len → r1 t = r2 t) : exprBody Γ r1 s = exprBody Γ r2 s := by
  have hle : ((stripMinus s).getD s).len ≤ s.len := by
    unfold stripMinus
    split
    · exact Nat.le_trans (Sub.len_dropN_le _ _) (Sub.len_trimStart_le s)
    · exact Nat.le_refl _
  have key : ∀ k, mapMIdx (fun _ (p : Option Nat × Sub) => (fractionBody Γ r1 p.2).bind fun r => .ok (p.1 == some 1, p.2, r))
        (((stripMinus s).getD s).isplit plusMinus k) 0
      = mapMIdx (fun _ (p : Option Nat × Sub) => (fractionBody Γ r2 p.2).bind fun r => .ok (p.1 == some 1, p.2, r))
        (((stripMinus s).getD s).isplit plusMinus k) 0 := by
    intro k
    apply mapMIdx_congr
    intro i p hp
    have hl : p.2.len ≤ s.len := Nat.le_trans (isplitL_len _ _ _ _ p hp) hle
    rw [fractionBody_congr Γ r1 r2 p.2 (fun t ht => h t (by omega))]
  unfold exprBody
  simp only [key]

/-- with fuel above the input length neither the amount of fuel nor the base case matters -/
theorem parseExprB_total (Γ : Ctx) (b1 b2 : Rec) : ∀ (n m : Nat) (s : Sub), s.len < n → s.len < m →
    parseExprB Γ b1 n s = parseExprB Γ b2 m s := by
  intro n
  induction n with
  | zero => intro m s h; omega
  | succ n ih =>
    intro m s hn hm
    match m, hm with
    | m + 1, hm =>
      show exprBody Γ (parseExprB Γ b1 n) s = exprBody Γ (parseExprB Γ b2 m) s
      exact exprBody_congr Γ _ _ s (fun t ht => ih m t (by omega) (by omega))

end NutilsVerif.C19
