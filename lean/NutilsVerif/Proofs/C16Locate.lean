import NutilsVerif.Proofs.C16Range
/-!
# C16 — invariant of the fast-forward logic of `Topology._locate` (helper lemmas)
-/
namespace NutilsVerif.C16

structure LocInv (miss : Nat → Bool) (s : LState) : Prop where
  drain_after : ∀ w, s.drain w = true → ∃ j, j < s.idx ∧ miss j = true
  cur_lt : ∀ w i, s.cur w = some i → i < s.idx
  done_or_running : ∀ i, i < s.idx → (∀ j, j < i → miss j = false) → s.mark i = some (!miss i) ∨ ∃ w, s.cur w = some i

theorem LocInv.step {n : Nat} {miss : Nat → Bool} {s : LState} (h : LocInv miss s) (e : LEv) : LocInv miss (lstep n miss s e) := by
  obtain ⟨h1, h2, h3⟩ := h
  cases e with
  | claim w =>
    simp only [lstep]
    split
    · split
      · rename_i hc hd
        obtain ⟨j, hj, hm⟩ := h1 w hd
        refine ⟨fun w' hw' => ?_, fun w' i hi => ?_, fun i hi hall => ?_⟩
        · obtain ⟨j', hj', hm'⟩ := h1 w' hw'; exact ⟨j', by simp only; omega, hm'⟩
        · have := h2 w' i hi; simp only; omega
        · by_cases hlt : i < s.idx
          · exact h3 i hlt hall
          · have : i = s.idx := by simp only at hi; omega
            subst this
            rw [hall j hj] at hm; cases hm
      · rename_i hc hd
        refine ⟨fun w' hw' => ?_, fun w' i hi => ?_, fun i hi hall => ?_⟩
        · obtain ⟨j', hj', hm'⟩ := h1 w' hw'; exact ⟨j', by simp only; omega, hm'⟩
        · by_cases hww : w' = w
          · subst hww; simp only [upd_same] at hi; cases hi; simp only; omega
          · simp only [upd_other _ _ _ _ hww] at hi; have := h2 w' i hi; simp only; omega
        · by_cases hlt : i < s.idx
          · rcases h3 i hlt hall with hm | ⟨w', hw'⟩
            · exact .inl hm
            · refine .inr ⟨w', ?_⟩
              by_cases hww : w' = w
              · subst hww; rw [hc.1] at hw'; cases hw'
              · simp only [upd_other _ _ _ _ hww]; exact hw'
          · have : i = s.idx := by simp only at hi; omega
            subst this
            exact .inr ⟨w, by simp only [upd_same]⟩
    · exact ⟨h1, h2, h3⟩
  | finish w =>
    simp only [lstep]
    split
    · exact ⟨h1, h2, h3⟩
    · rename_i i hc
      have hi := h2 w i hc
      split
      · rename_i hm
        refine ⟨fun w' hw' => ?_, fun w' i' hi' => ?_, fun i' hi' hall => ?_⟩
        · by_cases hww : w' = w
          · exact ⟨i, hi, hm⟩
          · simp only [upd_other _ _ _ _ hww] at hw'; exact h1 w' hw'
        · by_cases hww : w' = w
          · subst hww; simp only [upd_same] at hi'; cases hi'
          · simp only [upd_other _ _ _ _ hww] at hi'; exact h2 w' i' hi'
        · by_cases hii : i' = i
          · subst hii; left; simp only [upd_same, hm]; rfl
          · rcases h3 i' hi' hall with hmk | ⟨w', hw'⟩
            · left; simp only [upd_other _ _ _ _ hii]; exact hmk
            · right; refine ⟨w', ?_⟩
              by_cases hww : w' = w
              · subst hww; rw [hc] at hw'; cases hw'; exact absurd rfl hii
              · simp only [upd_other _ _ _ _ hww]; exact hw'
      · rename_i hm
        have hm' : miss i = false := by simpa using hm
        refine ⟨h1, fun w' i' hi' => ?_, fun i' hi' hall => ?_⟩
        · by_cases hww : w' = w
          · subst hww; simp only [upd_same] at hi'; cases hi'
          · simp only [upd_other _ _ _ _ hww] at hi'; exact h2 w' i' hi'
        · by_cases hii : i' = i
          · subst hii; left; simp only [upd_same, hm']; rfl
          · rcases h3 i' hi' hall with hmk | ⟨w', hw'⟩
            · left; simp only [upd_other _ _ _ _ hii]; exact hmk
            · right; refine ⟨w', ?_⟩
              by_cases hww : w' = w
              · subst hww; rw [hc] at hw'; cases hw'; exact absurd rfl hii
              · simp only [upd_other _ _ _ _ hww]; exact hw'

theorem LocInv.run {n : Nat} {miss : Nat → Bool} (σ : List LEv) {s : LState} (h : LocInv miss s) : LocInv miss (lrun n miss σ s) := by
  induction σ generalizing s with
  | nil => exact h
  | cons e σ ih => exact ih (h.step e)

end NutilsVerif.C16
