import NutilsVerif.Model.C07
/-!
# C07 — `_Transpose.lower` acts relative to the leading point axes  (no Mathlib)
-/
namespace NutilsVerif.C07

theorem getD_append_left' (p q : List Nat) (a d : Nat) (h : a < p.length) : (p ++ q).getD a d = p.getD a d := by
  rw [List.getD_eq_getElem?_getD, List.getD_eq_getElem?_getD, List.getElem?_append_left h]

theorem getD_append_right' (p q : List Nat) (a d : Nat) : (p ++ q).getD (a + p.length) d = q.getD a d := by
  rw [List.getD_eq_getElem?_getD, List.getD_eq_getElem?_getD, List.getElem?_append_right (by omega)]
  congr 2; omega

theorem map_getD_range (p : List Nat) (d : Nat) : (List.range p.length).map (fun a => p.getD a d) = p := by
  apply List.ext_getElem (by simp)
  intro i h1 h2
  simp only [List.length_map, List.length_range] at h1
  simp [List.getD_eq_getElem?_getD, h1]

theorem idxOf_range (k a : Nat) (h : a < k) : (List.range k).idxOf a = a := by
  induction k with
  | zero => omega
  | succ k ih =>
    rw [List.range_succ, List.idxOf_append]
    by_cases ha : a < k
    · rw [if_pos (List.mem_range.mpr ha)]; exact ih ha
    · have : a = k := by omega
      subst this
      rw [if_neg (by simp)]; simp [List.idxOf_cons]

theorem idxOf_map_add (axes : List Nat) (k b : Nat) : (axes.map (· + k)).idxOf (b + k) = axes.idxOf b := by
  induction axes with
  | nil => rfl
  | cons x t ih =>
    simp only [List.map_cons, List.idxOf_cons]
    by_cases h : x = b
    · subst h; simp
    · have h1 : (x + k == b + k) = false := by simp; omega
      have h2 : (x == b) = false := by simp [h]
      rw [h1, h2]; simp only [cond_false]; rw [ih]

theorem idxOf_lift_lt (k : Nat) (axes : List Nat) (a : Nat) (h : a < k) : (liftAxes k axes).idxOf a = a := by
  unfold liftAxes
  rw [List.idxOf_append, if_pos (List.mem_range.mpr h)]; exact idxOf_range k a h

theorem idxOf_lift_ge (k : Nat) (axes : List Nat) (b : Nat) : (liftAxes k axes).idxOf (b + k) = axes.idxOf b + k := by
  unfold liftAxes
  rw [List.idxOf_append, if_neg (by simp), idxOf_map_add]; simp

/-- shape of the lowered transposition: the `k` point axes stay in front, the rest is permuted as without points -/
theorem lift_shape (k : Nat) (axes ps sh : List Nat) (hps : ps.length = k) :
    transposeShape (liftAxes k axes) (ps ++ sh) = ps ++ transposeShape axes sh := by
  unfold transposeShape liftAxes
  rw [List.map_append, List.map_map]
  congr 1
  · subst hps
    have : (List.range ps.length).map (fun a => (ps ++ sh).getD a 0) = (List.range ps.length).map (fun a => ps.getD a 0) := by
      apply List.map_congr_left; intro a ha; exact getD_append_left' ps sh a 0 (List.mem_range.mp ha)
    rw [this, map_getD_range]
  · apply List.map_congr_left; intro a _
    subst hps
    exact getD_append_right' ps sh a 0

/-- element map of the lowered transposition: identity on the point indices, the unlowered map on the rest -/
theorem lift_src (k : Nat) (axes p idx : List Nat) (hp : p.length = k) :
    transposeSrc (liftAxes k axes) (p ++ idx) = p ++ transposeSrc axes idx := by
  unfold transposeSrc
  have hl : (liftAxes k axes).length = k + axes.length := by simp [liftAxes]
  rw [hl, List.range_add, List.map_append, List.map_map]
  congr 1
  · subst hp
    have : (List.range p.length).map (fun a => (p ++ idx).getD ((liftAxes p.length axes).idxOf a) 0) = (List.range p.length).map (fun a => p.getD a 0) := by
      apply List.map_congr_left; intro a ha
      have ha' := List.mem_range.mp ha
      rw [idxOf_lift_lt _ _ _ ha']; exact getD_append_left' p idx a 0 ha'
    rw [this, map_getD_range]
  · apply List.map_congr_left; intro b _
    subst hp
    simp only [Function.comp]
    rw [Nat.add_comm, idxOf_lift_ge]
    exact getD_append_right' p idx _ 0

end NutilsVerif.C07
