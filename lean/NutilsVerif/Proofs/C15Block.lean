import NutilsVerif.Proofs.C15Rows
/-!
# C15 — block matrices: the merged triple of a well-formed block structure means the block matrix
-/
namespace NutilsVerif.C15

/-! ### block matrices (specification-level merge) -/

theorem zipWith_congr_mem {α β γ : Type} (F G : α → β → γ) : ∀ (l₁ : List α) (l₂ : List β),
    (∀ a ∈ l₁, ∀ b ∈ l₂, F a b = G a b) → List.zipWith F l₁ l₂ = List.zipWith G l₁ l₂
  | [], _, _ => by simp
  | _ :: _, [], _ => by simp
  | a :: t₁, b :: t₂, h => by
    simp only [List.zipWith_cons_cons]
    rw [h a (by simp) b (by simp), zipWith_congr_mem F G t₁ t₂ (fun x hx y hy => h x (by simp [hx]) y (by simp [hy]))]

/-- shifting the columns of a row by the width of the blocks to its left -/
def shiftRow (w : Nat) (r : Row) : Row := r.map fun p => (p.1 + (w : Int), p.2)

/-- the dense meaning of two rows placed side by side is the concatenation of their dense meanings -/
theorem rowDense_append_shift (r r' : Row) (w w' : Nat) (h : ∀ p ∈ r, 0 ≤ p.1 ∧ p.1 < (w:Int))
    (h' : ∀ p ∈ r', 0 ≤ p.1 ∧ p.1 < (w':Int)) :
    rowDense (r ++ shiftRow w r') (w + w') = rowDense r w ++ rowDense r' w' := by
  unfold rowDense
  rw [List.range_add, List.map_append, List.map_map]
  congr 1
  · apply List.map_congr_left
    intro j hj
    have hj : j < w := by simpa using hj
    have : (shiftRow w r').filter (fun p => p.1 == (j:Int)) = [] := by
      rw [List.filter_eq_nil_iff]
      intro p hp
      obtain ⟨q, hq, rfl⟩ := List.mem_map.1 hp
      have := h' q hq
      simp; omega
    rw [List.filter_append, this, List.append_nil]
  · apply List.map_congr_left
    intro j _
    have h1 : r.filter (fun p => p.1 == ((w + j : Nat) : Int)) = [] := by
      rw [List.filter_eq_nil_iff]
      intro p hp
      have := h p hp
      simp; omega
    simp only [Function.comp, List.filter_append, h1, List.nil_append, shiftRow, List.filter_map, List.map_map]
    congr 1
    congr 1
    apply List.filter_congr
    intro p _
    simp only [Function.comp]
    rw [Bool.eq_iff_iff]
    simp only [beq_iff_eq]
    omega

theorem rowOK_append_shift (r r' : Row) (w w' : Nat) (h : rowOK w r) (h' : rowOK w' r') :
    rowOK (w + w') (r ++ shiftRow w r') := by
  constructor
  · rw [strictInc_iff_pairwise, List.map_append, List.pairwise_append]
    refine ⟨(strictInc_iff_pairwise _).1 h.1, ?_, ?_⟩
    · have := (strictInc_iff_pairwise _).1 h'.1
      simp only [shiftRow, List.map_map]
      rw [List.pairwise_map] at this ⊢
      exact this.imp (by intro a b hab; simp only [Function.comp]; omega)
    · intro a ha b hb
      obtain ⟨p, hp, rfl⟩ := List.mem_map.1 ha
      obtain ⟨q', hq', rfl⟩ := List.mem_map.1 hb
      obtain ⟨q, hq, rfl⟩ := List.mem_map.1 hq'
      have := h.2 p hp; have := h'.2 q hq
      simp only; omega
  · intro p hp
    rcases List.mem_append.1 hp with hp | hp
    · have := h.2 p hp; omega
    · obtain ⟨q, hq, rfl⟩ := List.mem_map.1 hp
      have := h'.2 q hq; omega

/-- one block row: rows, validity and dense meaning of the merge -/
theorem mergeBlockRow_spec (nr : Nat) : ∀ (Ws : List (List Row × Nat)),
    (∀ W ∈ Ws, W.1.length = nr ∧ ∀ r ∈ W.1, rowOK W.2 r) →
    (mergeBlockRow Ws nr).length = nr ∧
    (∀ r ∈ mergeBlockRow Ws nr, rowOK (Ws.map (·.2)).sum r) ∧
    (mergeBlockRow Ws nr).map (rowDense · (Ws.map (·.2)).sum) = hcat (Ws.map fun W => W.1.map (rowDense · W.2)) nr
  | [], _ => by
    refine ⟨by simp [mergeBlockRow], ?_, ?_⟩
    · intro r hr
      simp only [mergeBlockRow, List.mem_replicate] at hr
      rw [hr.2]; exact ⟨by simp [strictInc], by simp⟩
    · simp [mergeBlockRow, hcat, rowDense]
  | (L, w) :: T, h => by
    obtain ⟨ihl, ihok, ihd⟩ := mergeBlockRow_spec nr T (fun W hW => h W (List.mem_cons_of_mem _ hW))
    obtain ⟨hL, hLok⟩ := h (L, w) (by simp)
    simp only at hL hLok
    have hmem : ∀ r ∈ L, ∀ r' ∈ mergeBlockRow T nr,
        rowOK (w + (T.map (·.2)).sum) (r ++ shiftRow w r') ∧
        rowDense (r ++ shiftRow w r') (w + (T.map (·.2)).sum) = rowDense r w ++ rowDense r' (T.map (·.2)).sum := by
      intro r hr r' hr'
      exact ⟨rowOK_append_shift r r' w _ (hLok r hr) (ihok r' hr'),
        rowDense_append_shift r r' w _ (hLok r hr).2 (ihok r' hr').2⟩
    simp only [mergeBlockRow, List.map_cons, List.sum_cons, hcat]
    refine ⟨by simp [hL, ihl], ?_, ?_⟩
    · intro r hr
      obtain ⟨i, hi, rfl⟩ := List.mem_iff_getElem.1 hr
      simp only [List.getElem_zipWith]
      exact (hmem _ (List.getElem_mem _) _ (List.getElem_mem _)).1
    · rw [List.map_zipWith, ← ihd, List.zipWith_map_left, List.zipWith_map_right]
      apply zipWith_congr_mem
      intro r hr r' hr'
      exact (hmem r hr r' hr').2

theorem length_toRows (m : CSR) : (toRows m).length = nrows m := by
  simp [toRows, nrows, slicesBy_length]

theorem denseSum_valid (m : CSR) (h : validB m = true) : denseSum m = (toRows m).map (rowDense · m.ncols) := by
  have e := ofRows_toRows m h
  have : denseSum m = denseSum (ofRows (toRows m) m.ncols) := by rw [e]
  rw [this, denseSum_ofRows]

theorem rowsOK_valid (m : CSR) (h : validB m = true) : ∀ r ∈ toRows m, rowOK m.ncols r := by
  rw [← validB_ofRows, ofRows_toRows m h]; exact h

/-- the rows of one block row as merged by `blockMerge` -/
def blockRowRows (brow : List Block) : List Row :=
  mergeBlockRow (brow.map fun b => (toRows b.csr, b.ncols)) ((brow.head?.map fun b => nrows b.csr).getD 0)

theorem blockRow_spec (brow : List Block) (nc : Nat)
    (hw : (brow.map (·.ncols)).sum = nc)
    (hb : ∀ b ∈ brow, validB b.csr = true ∧ nrows b.csr = (brow.head?.map fun b => nrows b.csr).getD 0) :
    (∀ r ∈ blockRowRows brow, rowOK nc r) ∧
    (blockRowRows brow).map (rowDense · nc) =
      hcat (brow.map fun b => denseSum b.csr) ((brow.head?.map fun b => nrows b.csr).getD 0) := by
  have hWs : ∀ W ∈ brow.map (fun b => (toRows b.csr, b.ncols)),
      W.1.length = (brow.head?.map fun b => nrows b.csr).getD 0 ∧ ∀ r ∈ W.1, rowOK W.2 r := by
    intro W hW
    obtain ⟨b, hbm, rfl⟩ := List.mem_map.1 hW
    exact ⟨by simp only; rw [length_toRows]; exact (hb b hbm).2, rowsOK_valid b.csr (hb b hbm).1⟩
  obtain ⟨_, h2, h3⟩ := mergeBlockRow_spec _ _ hWs
  have hsum : ((brow.map fun b => (toRows b.csr, b.ncols)).map (·.2)).sum = nc := by
    rw [List.map_map]; exact hw
  rw [hsum] at h2 h3
  refine ⟨h2, ?_⟩
  unfold blockRowRows
  rw [h3, List.map_map]
  congr 1
  apply List.map_congr_left
  intro b hbm
  simp only [Function.comp]
  exact (denseSum_valid b.csr (hb b hbm).1).symm

theorem blocksOK_iff (blocks : List (List Block)) : blocksOK blocks = true ↔
    blocks ≠ [] ∧ ∀ brow ∈ blocks, brow ≠ [] ∧
      (brow.map (·.ncols)).sum = ((blocks.head?.getD []).map (·.ncols)).sum ∧
      ∀ b ∈ brow, validB b.csr = true ∧ nrows b.csr = (brow.head?.map fun b => nrows b.csr).getD 0 := by
  unfold blocksOK
  simp only [Bool.and_eq_true, Bool.not_eq_true', List.isEmpty_eq_false_iff, List.all_eq_true, beq_iff_eq, ne_eq, and_assoc]

/-- **Theorem 6.** The merged triple of a well-formed block structure is valid and its dense meaning is the
block matrix of the blocks' dense meanings (any number of block rows and columns, empty blocks included). -/
theorem block_dense' (blocks : List (List Block)) (h : blocksOK blocks = true) :
    validB (blockMerge blocks) = true ∧ denseSum (blockMerge blocks) = blockDense blocks := by
  obtain ⟨_, hrows⟩ := (blocksOK_iff blocks).1 h
  have hspec := fun brow hbrow => blockRow_spec brow _ (hrows brow hbrow).2.1 (hrows brow hbrow).2.2
  have e : blockMerge blocks = ofRows (blocks.map blockRowRows).flatten ((blocks.head?.getD []).map (·.ncols)).sum := rfl
  rw [e]
  constructor
  · rw [validB_ofRows]
    intro r hr
    obtain ⟨Lr, hLr, hrL⟩ := List.mem_flatten.1 hr
    obtain ⟨brow, hbrow, rfl⟩ := List.mem_map.1 hLr
    exact (hspec brow hbrow).1 r hrL
  · rw [denseSum_ofRows, List.map_flatten, List.map_map]
    unfold blockDense
    congr 1
    apply List.map_congr_left
    intro brow hbrow
    exact (hspec brow hbrow).2

end NutilsVerif.C15
