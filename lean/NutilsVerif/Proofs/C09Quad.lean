import NutilsVerif.Model.C09
import Mathlib.Algebra.BigOperators.Group.List.Basic
import Mathlib.Tactic.Ring
/-!
# C09 — algebra of quadrature rules: tensor products, affine images, concatenation  (helper lemmas)
-/
namespace NutilsVerif.C09

variable {α : Type} [CommSemiring α] {P Q P' : Type}

theorem sum_map_mul_left' {β : Type} (l : List β) (c : α) (f : β → α) :
    (l.map fun x => c * f x).sum = c * (l.map f).sum := by
  induction l with
  | nil => simp
  | cons a t ih => simp only [List.map_cons, List.sum_cons, ih]; ring

theorem quad_nil (g : P → α) : quad ([] : Rule P α) g = 0 := by simp [quad]

theorem quad_cons (pw : P × α) (r : Rule P α) (g : P → α) : quad (pw :: r) g = pw.2 * g pw.1 + quad r g := by
  simp [quad]

theorem quad_append (r1 r2 : Rule P α) (g : P → α) : quad (r1 ++ r2) g = quad r1 g + quad r2 g := by
  simp [quad, List.sum_append]

/-- quadrature is linear in the integrand -/
theorem quad_add (r : Rule P α) (g h : P → α) : quad r (fun x => g x + h x) = quad r g + quad r h := by
  induction r with
  | nil => simp [quad_nil]
  | cons pw r ih => simp only [quad_cons, ih]; ring

theorem quad_smul (r : Rule P α) (c : α) (g : P → α) : quad r (fun x => c * g x) = c * quad r g := by
  induction r with
  | nil => simp [quad_nil]
  | cons pw r ih => simp only [quad_cons, ih]; ring

theorem quad_zero (r : Rule P α) : quad r (fun _ => (0 : α)) = 0 := by
  induction r with
  | nil => simp [quad_nil]
  | cons pw r ih => simp only [quad_cons, ih]; ring

theorem quad_one (r : Rule P α) : quad r (fun _ => (1 : α)) = totalWeight r := by
  simp [quad, totalWeight]

theorem quad_tensor_prod (r1 : Rule P α) (r2 : Rule Q α) (g : P → α) (h : Q → α) :
    quad (tensor r1 r2) (fun pq => g pq.1 * h pq.2) = quad r1 g * quad r2 h := by
  induction r1 with
  | nil => simp [tensor, quad_nil]
  | cons a r1 ih =>
    have : tensor (a :: r1) r2 = (r2.map fun b => ((a.1, b.1), a.2 * b.2)) ++ tensor r1 r2 := by
      simp [tensor, List.flatMap_cons]
    rw [this, quad_append, ih, quad_cons]
    have h1 : quad (r2.map fun b => ((a.1, b.1), a.2 * b.2)) (fun pq => g pq.1 * h pq.2) = a.2 * g a.1 * quad r2 h := by
      unfold quad
      rw [List.map_map, ← sum_map_mul_left']
      congr 1
      apply List.map_congr_left
      intro b _
      simp only [Function.comp]
      ring
    rw [h1]; ring

theorem quad_transform (r : Rule P α) (T : P → P') (d : α) (g : P' → α) :
    quad (transform r T d) g = d * quad r (fun x => g (T x)) := by
  unfold quad transform
  rw [List.map_map, ← sum_map_mul_left']
  congr 1
  apply List.map_congr_left
  intro pw _
  simp only [Function.comp]
  ring

theorem quad_concat (rs : List (Rule P α)) (g : P → α) : quad (concat rs) g = (rs.map fun r => quad r g).sum := by
  induction rs with
  | nil => simp [concat, quad_nil]
  | cons r rs ih =>
    have : concat (r :: rs) = r ++ concat rs := by simp [concat]
    rw [this, quad_append, ih]; simp

end NutilsVerif.C09
