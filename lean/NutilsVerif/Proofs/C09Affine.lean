import NutilsVerif.Proofs.C09Quad
import Mathlib.Data.Nat.Choose.Sum
import Mathlib.Tactic.FieldSimp
import Mathlib.Tactic.LinearCombination
import Mathlib.Algebra.Order.Field.Basic
/-!
# C09 — the affine image of an exact 1-D rule is exact on the image interval
-/
namespace NutilsVerif.C09

open Finset in
theorem quad_finset_sum {α : Type} [CommSemiring α] {P : Type} (r : Rule P α) (n : ℕ) (c : ℕ → α) (m : ℕ → P → α) :
    quad r (fun x => ∑ j ∈ range n, c j * m j x) = ∑ j ∈ range n, c j * quad r (m j) := by
  induction n with
  | zero => simp [quad_zero]
  | succ n ih =>
    simp only [Finset.sum_range_succ]
    rw [quad_add, ih, quad_smul]

open Finset in
/-- if `Σ w x^j = 1/(j+1)` for all `j ≤ d` (the rule is exact on `[0,1]` to degree `d`) then the rule with points `a + h x` and
weights `h w` (`TransformPoints`, `|det| = h`) integrates `x^k`, `k ≤ d`, to `((a+h)^(k+1) - a^(k+1))/(k+1) = ∫_a^(a+h) x^k` -/
theorem affine_line_exact {K : Type} [Field K] [CharZero K] (r : Rule K K) (d : ℕ)
    (hr : ∀ j ≤ d, quad r (fun x => x ^ j) = 1 / ((j : K) + 1)) (a h : K) (k : ℕ) (hk : k ≤ d) :
    quad (transform r (fun x => a + h * x) h) (fun x => x ^ k) = ((a + h) ^ (k + 1) - a ^ (k + 1)) / ((k : K) + 1) := by
  rw [quad_transform]
  have hexp : (fun x : K => (a + h * x) ^ k) = fun x => ∑ j ∈ range (k + 1), (a ^ (k - j) * h ^ j * (k.choose j : K)) * x ^ j := by
    funext x
    rw [add_comm, add_pow]
    apply Finset.sum_congr rfl
    intro j _
    rw [mul_pow]; ring
  rw [hexp, quad_finset_sum r (k + 1) (fun j => a ^ (k - j) * h ^ j * (k.choose j : K)) (fun j x => x ^ j)]
  have hq : ∀ j ∈ range (k + 1), (a ^ (k - j) * h ^ j * (k.choose j : K)) * quad r (fun x => x ^ j)
      = (a ^ (k - j) * h ^ j * (k.choose j : K)) * (1 / ((j : K) + 1)) := by
    intro j hj
    rw [hr j (by have := Finset.mem_range.1 hj; omega)]
  rw [Finset.sum_congr rfl hq]
  have hk1 : ((k : K) + 1) ≠ 0 := Nat.cast_add_one_ne_zero k
  rw [eq_div_iff hk1]
  have hR : (a + h) ^ (k + 1) - a ^ (k + 1) = ∑ j ∈ range (k + 1), a ^ (k - j) * h ^ (j + 1) * ((k + 1).choose (j + 1) : K) := by
    rw [add_comm a h, add_pow, Finset.sum_range_succ']
    simp only [pow_zero, Nat.choose_zero_right, Nat.cast_one, mul_one, one_mul, Nat.sub_zero]
    rw [add_sub_cancel_right]
    apply Finset.sum_congr rfl
    intro j hj
    have : k + 1 - (j + 1) = k - j := by omega
    rw [this]; ring
  rw [hR, Finset.mul_sum, Finset.sum_mul]
  apply Finset.sum_congr rfl
  intro j hj
  have hj1 : ((j : K) + 1) ≠ 0 := Nat.cast_add_one_ne_zero j
  have hch : ((k + 1 : ℕ) : K) * (k.choose j : K) = ((k + 1).choose (j + 1) : K) * ((j + 1 : ℕ) : K) := by
    exact_mod_cast congrArg (Nat.cast (R := K)) (Nat.add_one_mul_choose_eq k j)
  push_cast at hch
  field_simp
  rw [pow_succ]
  linear_combination (a ^ (k - j) * h ^ j * h) * hch

/-- the rule of a uniformly refined line element (`WithChildrenReference` of a line: children `x/2` and `1/2 + x/2`, each
with `|det| = 1/2`) built from a rule that is exact to degree `d` is again exact to degree `d` on `[0,1]` -/
theorem refined_line_exact {K : Type} [Field K] [CharZero K] (r : Rule K K) (d : ℕ)
    (hr : ∀ j ≤ d, quad r (fun x => x ^ j) = 1 / ((j : K) + 1)) (k : ℕ) (hk : k ≤ d) :
    quad (concat [transform r (fun x => 0 + (1/2) * x) (1/2), transform r (fun x => 1/2 + (1/2) * x) (1/2)]) (fun x => x ^ k)
      = 1 / ((k : K) + 1) := by
  rw [quad_concat]
  simp only [List.map_cons, List.map_nil, List.sum_cons, List.sum_nil, add_zero]
  rw [affine_line_exact r d hr 0 (1/2) k hk, affine_line_exact r d hr (1/2) (1/2) k hk]
  have hk1 : ((k : K) + 1) ≠ 0 := Nat.cast_add_one_ne_zero k
  have h1 : ((1 : K)/2 + 1/2) = 1 := by norm_num
  rw [h1, zero_add, one_pow, zero_pow (Nat.succ_ne_zero k)]
  field_simp
  ring

end NutilsVerif.C09
