import NutilsVerif.Proofs.C06
/-!
# C06 — FloorDivide and Mod (Python floor semantics = `Int.fdiv` / `Int.fmod`)
-/
namespace NutilsVerif.C06
open PyNum

theorem ediv_lower_a {lo x d y : Int} (h1 : lo ≤ x) (hd : 0 < d) (hdy : d ≤ y) (hlo : lo ≤ 0) : lo / d ≤ x / y := by
  have hy : 0 < y := by omega
  rw [Int.le_ediv_iff_mul_le hy]
  have hq : lo / d * d ≤ lo := Int.ediv_mul_le lo (by omega)
  have hq0 : lo / d ≤ 0 := by
    by_contra hc
    have : 1 ≤ lo / d := by omega
    nlinarith
  nlinarith [mul_nonneg (neg_nonneg.2 hq0) (sub_nonneg.2 hdy)]

theorem ediv_lower_b {lo x e y : Int} (h1 : lo ≤ x) (hy : 0 < y) (hye : y ≤ e) (hlo : 0 < lo) : lo / e ≤ x / y := by
  rw [Int.le_ediv_iff_mul_le hy]
  have he : 0 < e := by omega
  have hq : lo / e * e ≤ lo := Int.ediv_mul_le lo (by omega)
  have hq0 : 0 ≤ lo / e := Int.ediv_nonneg (by omega) (by omega)
  nlinarith [mul_nonneg hq0 (sub_nonneg.2 hye)]

theorem ediv_lower_c {lo x y : Int} (h1 : lo ≤ x) (hy : 0 < y) (hlo : 0 < lo) : lo / (lo + 1) ≤ x / y := by
  have h0 : lo / (lo + 1) = 0 := Int.ediv_eq_zero_of_lt (by omega) (by omega)
  rw [h0]; exact Int.ediv_nonneg (by omega) (by omega)

theorem ediv_upper_a {hi x d y : Int} (h1 : x ≤ hi) (hd : 0 < d) (hdy : d ≤ y) (hhi : 0 ≤ hi) : x / y ≤ hi / d := by
  have hy : 0 < y := by omega
  rw [Int.ediv_le_iff_le_mul hy]
  have hq : hi < (hi / d + 1) * d := Int.lt_ediv_add_one_mul_self hi hd
  have hq0 : 0 ≤ hi / d := Int.ediv_nonneg hhi (by omega)
  nlinarith [mul_nonneg (by omega : 0 ≤ hi / d + 1) (sub_nonneg.2 hdy)]

theorem ediv_upper_b {hi x e y : Int} (h1 : x ≤ hi) (hy : 0 < y) (hye : y ≤ e) (hhi : hi < 0) : x / y ≤ hi / e := by
  rw [Int.ediv_le_iff_le_mul hy]
  have he : 0 < e := by omega
  have hq : hi < (hi / e + 1) * e := Int.lt_ediv_add_one_mul_self hi he
  have hq2 : hi / e * e ≤ hi := Int.ediv_mul_le hi (by omega)
  have hq0 : hi / e + 1 ≤ 0 := by
    by_contra hc
    have : 0 ≤ hi / e := by omega
    nlinarith
  nlinarith [mul_nonneg (neg_nonneg.2 hq0) (sub_nonneg.2 hye)]

theorem ediv_upper_c {hi x y : Int} (h1 : x ≤ hi) (hy : 0 < y) (hhi : hi < 0) : x / y ≤ hi / (1 - hi) := by
  have hD : 0 < 1 - hi := by omega
  have hq : hi < (hi / (1 - hi) + 1) * (1 - hi) := Int.lt_ediv_add_one_mul_self hi hD
  have hQ : -1 ≤ hi / (1 - hi) := by
    by_contra hc
    have : hi / (1 - hi) + 1 ≤ -1 := by omega
    nlinarith
  have hx : x / y ≤ -1 := by
    rw [Int.ediv_le_iff_le_mul hy]; omega
  omega


/-! ### FloorDivide on range endpoints -/

theorem sub_int_int (a b : Int) : PyNum.sub (int a) (int b) = int (a - b) := by
  simp [PyNum.sub, PyNum.neg, PyNum.add]; omega


theorem fd_lower {lower du : PyNum} {x y d : Int} (hl : PyNum.le lower (int x) = true) (hd : 0 < d) (hdy : d ≤ y)
    (hdu : PyNum.le (int y) du = true) :
    ∃ l', fdLower lower (int d) du = some l' ∧ PyNum.le l' (int (x / y)) = true := by
  have hy : 0 < y := by omega
  unfold fdLower
  cases lower with
  | int lo =>
    have hlx : lo ≤ x := by simpa using hl
    by_cases h0 : lo ≤ 0
    · refine ⟨int (lo / d), ?_, ?_⟩
      · simp [PyNum.isInt, h0, floordivIf, (by omega : d ≠ 0), Int.fdiv_eq_ediv_of_nonneg _ (by omega : 0 ≤ d)] <;> omega
      · simpa using ediv_lower_a hlx hd hdy h0
    · cases du with
      | int e =>
        have hye : y ≤ e := by simpa using hdu
        by_cases he : e < lo + 1
        · refine ⟨int (lo / e), ?_, ?_⟩
          · simp [PyNum.isInt, h0, floordivIf, PyNum.add, PyNum.min2, he, (by omega : e ≠ 0), Int.fdiv_eq_ediv_of_nonneg _ (by omega : 0 ≤ e)] <;> omega
          · simpa using ediv_lower_b hlx hy hye (by omega)
        · refine ⟨int (lo / (lo + 1)), ?_, ?_⟩
          · simp [PyNum.isInt, h0, floordivIf, PyNum.add, PyNum.min2, he, (by omega : lo + 1 ≠ 0), Int.fdiv_eq_ediv_of_nonneg _ (by omega : 0 ≤ lo + 1)] <;> omega
          · simpa using ediv_lower_c hlx hy (by omega)
      | pinf =>
        refine ⟨int (lo / (lo + 1)), ?_, ?_⟩
        · simp [PyNum.isInt, h0, floordivIf, PyNum.add, PyNum.min2, PyNum.lt, (by omega : lo + 1 ≠ 0), Int.fdiv_eq_ediv_of_nonneg _ (by omega : 0 ≤ lo + 1)] <;> omega
        · simpa using ediv_lower_c hlx hy (by omega)
      | ninf => simp at hdu
      | nan => simp at hdu
  | ninf => exact ⟨ninf, by simp [PyNum.isInt], by simp⟩
  | pinf => simp at hl
  | nan => simp at hl

theorem fd_upper {upper du : PyNum} {x y d : Int} (hu : PyNum.le (int x) upper = true) (hd : 0 < d) (hdy : d ≤ y)
    (hdu : PyNum.le (int y) du = true) :
    ∃ u', fdUpper upper (int d) du = some u' ∧ PyNum.le (int (x / y)) u' = true := by
  have hy : 0 < y := by omega
  unfold fdUpper
  cases upper with
  | int hi =>
    have hxh : x ≤ hi := by simpa using hu
    by_cases h0 : 0 ≤ hi
    · refine ⟨int (hi / d), ?_, ?_⟩
      · simp [PyNum.isInt, h0, floordivIf, (by omega : d ≠ 0), Int.fdiv_eq_ediv_of_nonneg _ (by omega : 0 ≤ d)] <;> omega
      · simpa using ediv_upper_a hxh hd hdy h0
    · cases du with
      | int e =>
        have hye : y ≤ e := by simpa using hdu
        by_cases he : e < 1 - hi
        · refine ⟨int (hi / e), ?_, ?_⟩
          · simp [PyNum.isInt, h0, floordivIf, sub_int_int, PyNum.min2, he, (by omega : e ≠ 0), Int.fdiv_eq_ediv_of_nonneg _ (by omega : 0 ≤ e)]
            omega
          · simpa using ediv_upper_b hxh hy hye (by omega)
        · refine ⟨int (hi / (1 - hi)), ?_, ?_⟩
          · simp [PyNum.isInt, h0, floordivIf, sub_int_int, PyNum.min2, he, (by omega : 1 - hi ≠ 0), Int.fdiv_eq_ediv_of_nonneg _ (by omega : 0 ≤ 1 - hi)]
            omega
          · simpa using ediv_upper_c hxh hy (by omega)
      | pinf =>
        refine ⟨int (hi / (1 - hi)), ?_, ?_⟩
        · simp [PyNum.isInt, h0, floordivIf, sub_int_int, PyNum.min2, PyNum.lt, (by omega : 1 - hi ≠ 0), Int.fdiv_eq_ediv_of_nonneg _ (by omega : 0 ≤ 1 - hi)]
          omega
        · simpa using ediv_upper_c hxh hy (by omega)
      | ninf => simp at hdu
      | nan => simp at hdu
  | pinf => exact ⟨pinf, by simp [PyNum.isInt], by simp⟩
  | ninf => simp at hu
  | nan => simp at hu

theorem fdivGo_sound {lower upper du : PyNum} {x y d : Int} (hl : PyNum.le lower (int x) = true) (hu : PyNum.le (int x) upper = true)
    (hd : 0 < d) (hdy : d ≤ y) (hdu : PyNum.le (int y) du = true) :
    ∃ r, fdivGo lower upper (int d) du = some r ∧ Mem (x / y) r := by
  obtain ⟨l', e1, m1⟩ := fd_lower hl hd hdy hdu
  obtain ⟨u', e2, m2⟩ := fd_upper hu hd hdy hdu
  refine ⟨(l', u'), ?_, m1, m2⟩
  unfold fdivGo
  rw [e1, e2]

theorem neg_le_neg' {a b : PyNum} (h : PyNum.le a b = true) : PyNum.le (neg b) (neg a) = true := by
  cases a <;> cases b <;> simp_all [PyNum.neg, PyNum.le, PyNum.lt, PyNum.eq] <;> omega

theorem tfFloorDiv_sound {r1 r2 : Rng} (h1 : Valid r1) (h2 : Valid r2) {x y : Int} (hx : Mem x r1) (hy : Mem y r2) (hy0 : y ≠ 0) :
    ∃ r', tfFloorDiv r1 r2 = some r' ∧ Mem (Int.fdiv x y) r' := by
  unfold tfFloorDiv
  split
  · -- the divisor is negative: divide the negated dividend by the negated divisor
    rename_i hneg
    obtain ⟨d, hd⟩ : ∃ d, r2.2 = int d := by
      rcases valid_cases h2 with ⟨a, b, rfl, _⟩ | ⟨b, rfl⟩ | ⟨a, rfl⟩ | rfl <;> simp_all [PyNum.lt]
    have hd0 : d < 0 := by rw [hd] at hneg; simpa using hneg
    have hyd : y ≤ d := by have := hy.2; rw [hd] at this; simpa using this
    have hyneg : y < 0 := by omega
    have key := fdivGo_sound (lower := neg r1.2) (upper := neg r1.1) (du := neg r2.1) (x := -x) (y := -y) (d := -d)
      (by simpa [PyNum.neg] using neg_le_neg' hx.2) (by simpa [PyNum.neg] using neg_le_neg' hx.1) (by omega) (by omega)
      (by simpa [PyNum.neg] using neg_le_neg' hy.1)
    rw [hd]
    simp only [PyNum.neg] at key ⊢
    have e : Int.fdiv x y = -x / -y := by
      rw [← Int.neg_fdiv_neg, Int.fdiv_eq_ediv_of_nonneg _ (by omega : 0 ≤ -y)]
    rw [e]; exact key
  · split
    · exact ⟨_, rfl, by simp [unbounded]⟩
    · rename_i hn1 hn2
      obtain ⟨d, hd⟩ : ∃ d, r2.1 = int d := by
        rcases valid_cases h2 with ⟨a, b, rfl, _⟩ | ⟨b, rfl⟩ | ⟨a, rfl⟩ | rfl <;> simp_all [PyNum.le, PyNum.lt, PyNum.eq]
      have hd0 : 0 < d := by rw [hd] at hn2; simp at hn2; omega
      have hdy : d ≤ y := by have := hy.1; rw [hd] at this; simpa using this
      rw [hd, Int.fdiv_eq_ediv_of_nonneg _ (by omega : 0 ≤ y)]
      exact fdivGo_sound hx.1 hx.2 hd0 hdy hy.2

/-- `FloorDivide._intbounds_impl` never produces a float endpoint or a crash on validated operand ranges -/
theorem tfFloorDiv_total {r1 r2 : Rng} (h1 : Valid r1) (h2 : Valid r2) : ∃ r', tfFloorDiv r1 r2 = some r' ∧ Valid r' := by
  obtain ⟨x, hx⟩ := valid_inhabited h1
  by_cases hz : r2 = (int 0, int 0)
  · subst hz; exact ⟨unbounded, by simp [tfFloorDiv, PyNum.lt, PyNum.le, PyNum.eq], by simp [unbounded]⟩
  · obtain ⟨y, hy, hy0⟩ : ∃ y, Mem y r2 ∧ y ≠ 0 := by
      rcases valid_cases h2 with ⟨a, b, rfl, hab⟩ | ⟨b, rfl⟩ | ⟨a, rfl⟩ | rfl
      · by_cases ha : a = 0
        · refine ⟨b, by simp [hab], ?_⟩
          intro hb; apply hz; rw [ha, hb]
        · exact ⟨a, by simp [hab], ha⟩
      · exact ⟨min b (-1), by simp <;> omega, by omega⟩
      · exact ⟨max a 1, by simp <;> omega, by omega⟩
      · exact ⟨1, by simp, by omega⟩
    obtain ⟨r', e, m⟩ := tfFloorDiv_sound h1 h2 hx hy hy0
    exact ⟨r', e, valid_of_mem m⟩

/-! ### Mod -/

theorem tfMod_sound {r1 r2 : Rng} (h1 : Valid r1) (h2 : Valid r2) {x y : Int} (hx : Mem x r1) (hy : Mem y r2) (hy0 : y ≠ 0)
    (cs : Option Int) (hcs : ∀ c, cs = some c → Int.fmod x y = c) :
    ∃ r', tfMod r1 r2 cs = some r' ∧ Mem (Int.fmod x y) r' := by
  unfold tfMod
  split
  · rename_i hpos
    obtain ⟨d, hd⟩ : ∃ d, r2.1 = int d := by
      rcases valid_cases h2 with ⟨a, b, rfl, _⟩ | ⟨b, rfl⟩ | ⟨a, rfl⟩ | rfl <;> simp_all [PyNum.lt]
    have hd0 : 0 < d := by rw [hd] at hpos; simpa using hpos
    have hdy : d ≤ y := by have := hy.1; rw [hd] at this; simpa using this
    have hm : Int.fmod x y = x % y := Int.fmod_eq_emod_of_nonneg x (by omega)
    have hm0 : 0 ≤ x % y := Int.emod_nonneg x hy0
    have hm1 : x % y < y := Int.emod_lt_of_pos x (by omega)
    split
    · rename_i hid
      refine ⟨_, rfl, ?_⟩
      simp only [Bool.and_eq_true] at hid
      obtain ⟨hid1, hid2⟩ := hid
      have hx0 : 0 ≤ x := by have := le_trans' hid1 hx.1; simpa using this
      have hxd : x < d := by
        rw [hd] at hid2
        rcases valid_cases h1 with ⟨a, b, rfl, _⟩ | ⟨b, rfl⟩ | ⟨a, rfl⟩ | rfl <;> simp_all [PyNum.lt] <;> omega
      rw [hm, Int.emod_eq_of_lt hx0 (by omega)]; exact hx
    · refine ⟨_, rfl, ?_, ?_⟩
      · rw [hm]; simpa using hm0
      · rw [hm]
        have hyu := hy.2
        cases hu : r2.2 with
        | int b => rw [hu] at hyu; simp only [le_int_int] at hyu; simp [sub_int_int]; omega
        | pinf => simp [PyNum.sub, PyNum.neg, PyNum.add]
        | ninf => rw [hu] at hyu; simp at hyu
        | nan => rw [hu] at hyu; simp at hyu
  · cases cs with
    | none => exact ⟨_, rfl, by simp [unbounded]⟩
    | some c => exact ⟨_, rfl, by rw [hcs c rfl]; simp⟩

end NutilsVerif.C06
