import NutilsVerif.Model.C11
import Mathlib.Tactic.Ring
/-!
# C11 — rational linear algebra on lists: composition of `affApply`
-/
namespace NutilsVerif.C11

theorem dot_nil_left (b : Vec) : dot [] b = 0 := by simp [dot]
theorem dot_nil_right (a : Vec) : dot a [] = 0 := by cases a <;> simp [dot]
theorem dot_cons (a : Rat) (as : Vec) (b : Rat) (bs : Vec) : dot (a :: as) (b :: bs) = a * b + dot as bs := by
  simp [dot]

theorem dot_add_right (r u v : Vec) (h : u.length = v.length) :
    dot r (List.zipWith (· + ·) u v) = dot r u + dot r v := by
  induction r generalizing u v with
  | nil => simp [dot_nil_left]
  | cons a r ih =>
    cases u with
    | nil => cases v with
      | nil => simp [dot_nil_right]
      | cons _ _ => simp at h
    | cons x u => cases v with
      | nil => simp at h
      | cons y v =>
        simp only [List.zipWith_cons_cons, dot_cons]
        rw [ih u v (by simpa using h)]; ring

theorem dot_add_left (p q x : Vec) (h : p.length = q.length) :
    dot (List.zipWith (· + ·) p q) x = dot p x + dot q x := by
  induction x generalizing p q with
  | nil => simp [dot_nil_right]
  | cons a x ih =>
    cases p with
    | nil => cases q with
      | nil => simp [dot_nil_left]
      | cons _ _ => simp at h
    | cons y p => cases q with
      | nil => simp at h
      | cons z q =>
        simp only [List.zipWith_cons_cons, dot_cons]
        rw [ih p q (by simpa using h)]; ring

theorem dot_smul_left (c : Rat) (p x : Vec) : dot (p.map (c * ·)) x = c * dot p x := by
  induction p generalizing x with
  | nil => simp [dot_nil_left]
  | cons a p ih =>
    cases x with
    | nil => simp [dot_nil_right]
    | cons b x => simp only [List.map_cons, dot_cons]; rw [ih]; ring

theorem dot_zeros_left (k : Nat) (x : Vec) : dot (zeros k) x = 0 := by
  induction k generalizing x with
  | zero => simp [zeros, dot_nil_left]
  | succ k ih =>
    cases x with
    | nil => simp [dot_nil_right]
    | cons b x =>
      have : zeros (k+1) = 0 :: zeros k := by simp [zeros, List.replicate_succ]
      rw [this, dot_cons, ih]; ring

/-- the row vector `r · B` (a linear combination of the rows of `B`, all of length `k`) -/
def vecMat : Vec → Mat → Nat → Vec
  | ri :: r, bi :: B, k => List.zipWith (· + ·) (bi.map (ri * ·)) (vecMat r B k)
  | _, _, k => zeros k

theorem vecMat_length (r : Vec) (B : Mat) (k : Nat) (hB : ∀ b ∈ B, b.length = k) : (vecMat r B k).length = k := by
  induction r generalizing B with
  | nil => simp [vecMat, zeros]
  | cons a r ih =>
    cases B with
    | nil => simp [vecMat, zeros]
    | cons b B =>
      simp only [vecMat, List.length_zipWith, List.length_map]
      rw [ih B (fun b' hb' => hB b' (List.mem_cons_of_mem _ hb')), hB b (List.mem_cons_self)]
      simp

theorem dot_vecMat (r : Vec) (B : Mat) (x : Vec) (k : Nat) (hB : ∀ b ∈ B, b.length = k) :
    dot r (B.map (dot · x)) = dot (vecMat r B k) x := by
  induction r generalizing B with
  | nil => simp [vecMat, dot_nil_left, dot_zeros_left]
  | cons a r ih =>
    cases B with
    | nil => simp [vecMat, dot_nil_right, dot_zeros_left]
    | cons b B =>
      have hB' : ∀ b' ∈ B, b'.length = k := fun b' hb' => hB b' (List.mem_cons_of_mem _ hb')
      simp only [List.map_cons, dot_cons, vecMat]
      rw [dot_add_left _ _ _ (by rw [List.length_map, vecMat_length r B k hB', hB b (List.mem_cons_self)]),
        dot_smul_left, ih B hB']

/-- matrix and offset of the composition `x ↦ A (B x + b) + a` -/
def compAff (A : Mat) (a : Vec) (B : Mat) (b : Vec) (k : Nat) : Mat × Vec :=
  (A.map (vecMat · B k), affApply A a b)

/-- `affApply` composes like affine maps: `A (B x + b) + a = (A B) x + (A b + a)`;
`k` is the common length of the rows of `B` -/
theorem affApply_comp (A : Mat) (a : Vec) (B : Mat) (b : Vec) (k : Nat) (x : Vec)
    (hB : ∀ r ∈ B, r.length = k) (hb : B.length = b.length) :
    affApply A a (affApply B b x) = affApply (compAff A a B b k).1 (compAff A a B b k).2 x := by
  simp only [compAff, affApply]
  induction A generalizing a with
  | nil => simp
  | cons r A ih =>
    cases a with
    | nil => simp
    | cons a0 a =>
      simp only [List.map_cons, List.zipWith_cons_cons]
      rw [ih a]
      congr 1
      rw [dot_add_right _ _ _ (by simp [hb]), dot_vecMat r B x k hB]
      ring

end NutilsVerif.C11
