import NutilsVerif.Proofs.C06Expr
/-!
# C06 — the evaluated value depends only on the ANNOUNCED arguments (`Evaluable.arguments`)

`deps` mirrors what the code announces: `Argument.arguments = {self}` and `_LoopIndex.arguments = {self}` do not include the
arguments of the argument's shape / the index's length.  Those can only decide whether evaluation succeeds (shape check), never
the value: whenever evaluation succeeds in two environments that agree on the announced arguments, the values agree.
-/
namespace NutilsVerif.C06
open PyNum

theorem mapOpt_agree {α β : Type} {f g : α → Option β} : ∀ {l : List α} {v v' : List β}, mapOpt f l = some v → mapOpt g l = some v' →
    (∀ x ∈ l, ∀ y y', f x = some y → g x = some y' → y = y') → v = v'
  | [], v, v', h, h', _ => by
    simp only [mapOpt, Option.some.injEq] at h h'; rw [← h, ← h']
  | a :: t, v, v', h, h', hfg => by
    simp only [mapOpt] at h h'
    cases hfa : f a with
    | none => simp [hfa] at h
    | some b =>
      cases hga : g a with
      | none => simp [hga] at h'
      | some b' =>
        cases hft : mapOpt f t with
        | none => simp [hfa, hft] at h
        | some bs =>
          cases hgt : mapOpt g t with
          | none => simp [hga, hgt] at h'
          | some bs' =>
            simp only [hfa, hft, hga, hgt, Option.some.injEq] at h h'
            rw [← h, ← h', hfg a (by simp) b b' hfa hga,
              mapOpt_agree hft hgt (fun x hx => hfg x (by simp [hx]))]

theorem iterate_agree {n : Int} {body body' : Int → Option (List Int)} {parts parts' : List (List Int)}
    (h : iterate n body = some parts) (h' : iterate n body' = some parts')
    (hb : ∀ i y y', body i = some y → body' i = some y' → y = y') : parts = parts' := by
  unfold iterate at h h'
  split at h
  · simp at h
  · rename_i hn
    simp only [hn, if_false] at h'
    exact mapOpt_agree h h' (fun x _ y y' => hb x y y')

theorem map_some' {α β : Type} {o : Option α} {g : α → β} {v : β} (h : o.map g = some v) : ∃ a, o = some a ∧ v = g a := by
  cases o with
  | none => simp at h
  | some a => exact ⟨a, rfl, by simpa using h.symm⟩

theorem scalarOf_inj {o o' : Option (List Int)} {n n' : Int} (h : scalarOf o = some n) (h' : scalarOf o' = some n')
    (hoo : ∀ v v', o = some v → o' = some v' → v = v') : n = n' := by
  have := hoo _ _ (scalarOf_some h) (scalarOf_some h')
  simpa using this

/-- the induction hypothesis -/
abbrev AG (a : Expr) : Prop :=
  ∀ (ρ ρ' : Env) (v v' : List Int), (∀ d ∈ deps a, Agree ρ ρ' d) → eval a ρ = some v → eval a ρ' = some v' → v = v'

theorem agree_binary {a b : Expr} {f : Int → Int → Option Int} (iha : AG a) (ihb : AG b) {ρ ρ' : Env} {v v' : List Int}
    (hd : ∀ d ∈ deps a ++ deps b, Agree ρ ρ' d) (h : zipOp f (eval a ρ) (eval b ρ) = some v)
    (h' : zipOp f (eval a ρ') (eval b ρ') = some v') : v = v' := by
  obtain ⟨va, vb, ea, eb, _⟩ := zipOp_mem h
  obtain ⟨va', vb', ea', eb', _⟩ := zipOp_mem h'
  have e1 := iha ρ ρ' va va' (fun d hd' => hd d (by simp [hd'])) ea ea'
  have e2 := ihb ρ ρ' vb vb' (fun d hd' => hd d (by simp [hd'])) eb eb'
  rw [ea, eb] at h; rw [ea', eb', ← e1, ← e2] at h'
  exact Option.some.inj (h.symm.trans h')

theorem agree_unary {a : Expr} {g : List Int → List Int} (iha : AG a) {ρ ρ' : Env} {v v' : List Int}
    (hd : ∀ d ∈ deps a, Agree ρ ρ' d) (h : (eval a ρ).map g = some v) (h' : (eval a ρ').map g = some v') : v = v' := by
  obtain ⟨va, ea, rfl⟩ := map_some' h
  obtain ⟨va', ea', rfl⟩ := map_some' h'
  rw [iha ρ ρ' va va' hd ea ea']

theorem eval_agree (e : Expr) : AG e := by
  induction e with
  | const s vals =>
    intro ρ ρ' v v' _ h h'
    simp only [eval] at h h'
    exact Option.some.inj (h.symm.trans h')
  | argS name lo hi =>
    intro ρ ρ' v v' hd h h'
    have := hd (.arg name) (by simp [deps]); simp only [Agree] at this
    simp only [eval] at h h'
    split at h
    · split at h'
      · simp only [Option.some.injEq] at h h'; rw [← h, ← h', this]
      · simp at h'
    · simp at h
  | argV name lo hi len _ =>
    intro ρ ρ' v v' hd h h'
    have := hd (.arg name) (by simp [deps]); simp only [Agree] at this
    simp only [eval] at h h'
    split at h
    · split at h
      · split at h'
        · split at h'
          · simp only [Option.some.injEq] at h h'; rw [← h, ← h', this]
          · simp at h'
        · simp at h'
      · simp at h
    · simp at h
  | loopIndex id len _ =>
    intro ρ ρ' v v' hd h h'
    have := hd (.loop id) (by simp [deps]); simp only [Agree] at this
    simp only [eval] at h h'
    split at h
    · split at h
      · split at h'
        · split at h'
          · simp only [Option.some.injEq] at h h'; rw [← h, ← h', this]
          · simp at h'
        · simp at h'
      · simp at h
    · simp at h
  | neg a ih | abs a ih | sign a ih =>
    intro ρ ρ' v v' hd h h'
    simp only [eval] at h h'
    exact agree_unary ih (by simpa [deps] using hd) h h'
  | add a b iha ihb | mul a b iha ihb | floordiv a b iha ihb | mod a b iha ihb | min a b iha ihb | max a b iha ihb
  | normDim a b iha ihb =>
    intro ρ ρ' v v' hd h h'
    simp only [eval] at h h'
    exact agree_binary iha ihb (by simpa [deps] using hd) h h'
  | inRange idx len ihi _ =>
    intro ρ ρ' v v' hd h h'
    simp only [eval] at h h'
    split at h
    · rename_i iv n hiv hn
      split at h'
      · rename_i iv' n' hiv' hn'
        have e1 := ihi ρ ρ' iv iv' (fun d hd' => hd d (by simp [deps, hd'])) hiv hiv'
        split at h
        · split at h'
          · simp only [Option.some.injEq] at h h'; rw [← h, ← h', e1]
          · simp at h'
        · simp at h
      · simp at h'
    · simp at h
  | ravelIndex ia ib nb iha ihb ihn =>
    intro ρ ρ' v v' hd h h'
    simp only [eval] at h h'
    split at h
    · rename_i va vb n hva hvb hn
      split at h'
      · rename_i va' vb' n' hva' hvb' hn'
        have e1 := iha ρ ρ' va va' (fun d hd' => hd d (by simp [deps, hd'])) hva hva'
        have e2 := ihb ρ ρ' vb vb' (fun d hd' => hd d (by simp [deps, hd'])) hvb hvb'
        have e3 := scalarOf_inj hn hn' (ihn ρ ρ' · · (fun d hd' => hd d (by simp [deps, hd'])))
        split at h
        · split at h'
          · simp only [Option.some.injEq] at h h'; rw [← h, ← h', e1, e2, e3]
          · simp at h'
        · simp at h
      · simp at h'
    · simp at h
  | range n ih =>
    intro ρ ρ' v v' hd h h'
    simp only [eval] at h h'
    split at h
    · rename_i k hk
      split at h'
      · rename_i k' hk'
        have e1 := scalarOf_inj hk hk' (ih ρ ρ' · · (by simpa [deps] using hd))
        split at h
        · simp at h
        · split at h'
          · simp at h'
          · simp only [Option.some.injEq] at h h'; rw [← h, ← h', e1]
      · simp at h'
    · simp at h
  | insertAxis a n iha ihn =>
    intro ρ ρ' v v' hd h h'
    simp only [eval] at h h'
    split at h
    · rename_i va k hva hk
      split at h'
      · rename_i va' k' hva' hk'
        have e1 := iha ρ ρ' va va' (fun d hd' => hd d (by simp [deps, hd'])) hva hva'
        have e2 := scalarOf_inj hk hk' (ihn ρ ρ' · · (fun d hd' => hd d (by simp [deps, hd'])))
        split at h
        · simp at h
        · split at h'
          · simp at h'
          · simp only [Option.some.injEq] at h h'; rw [← h, ← h', e1, e2]
      · simp at h'
    · simp at h
  | take f idx ihf ihi =>
    intro ρ ρ' v v' hd h h'
    simp only [eval] at h h'
    split at h
    · rename_i fv iv hfv hiv
      split at h'
      · rename_i fv' iv' hfv' hiv'
        have e1 := ihf ρ ρ' fv fv' (fun d hd' => hd d (by simp [deps, hd'])) hfv hfv'
        have e2 := ihi ρ ρ' iv iv' (fun d hd' => hd d (by simp [deps, hd'])) hiv hiv'
        rw [← e1, ← e2] at h'
        exact Option.some.inj (h.symm.trans h')
      · simp at h'
    · simp at h
  | sum f n ihf _ =>
    intro ρ ρ' v v' hd h h'
    simp only [eval] at h h'
    split at h
    · rename_i fv k hfv hk
      split at h'
      · rename_i fv' k' hfv' hk'
        have e1 := ihf ρ ρ' fv fv' (fun d hd' => hd d (by simp [deps, hd'])) hfv hfv'
        split at h
        · split at h'
          · simp only [Option.some.injEq] at h h'; rw [← h, ← h', e1]
          · simp at h'
        · simp at h
      · simp at h'
    · simp at h
  | sizesToOffsets s n ihs _ =>
    intro ρ ρ' v v' hd h h'
    simp only [eval] at h h'
    split at h
    · rename_i sv k hsv hk
      split at h'
      · rename_i sv' k' hsv' hk'
        have e1 := ihs ρ ρ' sv sv' (fun d hd' => hd d (by simp [deps, hd'])) hsv hsv'
        split at h
        · split at h'
          · simp only [Option.some.injEq] at h h'; rw [← h, ← h', e1]
          · simp at h'
        · simp at h
      · simp at h'
    · simp at h
  | loopSum id len body ihl ihb =>
    intro ρ ρ' v v' hd h h'
    simp only [eval] at h h'
    split at h
    · rename_i n hn
      split at h'
      · rename_i n' hn'
        have e1 := scalarOf_inj hn hn' (ihl ρ ρ' · · (fun d hd' => hd d (by simp [deps, hd'])))
        subst e1
        split at h
        · rename_i parts hp
          split at h'
          · rename_i parts' hp'
            have : parts = parts' := by
              refine iterate_agree hp hp' ?_
              intro i y y' hy hy'
              obtain ⟨c, hc, rfl⟩ := map_some' hy
              obtain ⟨c', hc', rfl⟩ := map_some' hy'
              have := ihb _ _ _ _ (agree_setLoop (fun d hd' => hd d (by simp only [deps, List.mem_append]; exact Or.inr hd')) i)
                (scalarOf_some hc) (scalarOf_some hc')
              rw [this]
            simp only [Option.some.injEq] at h h'; rw [← h, ← h', this]
          · simp at h'
        · simp at h
      · simp at h'
    · simp at h
  | loopConcat id len body blen ihl ihb _ =>
    intro ρ ρ' v v' hd h h'
    simp only [eval] at h h'
    split at h
    · rename_i n hn
      split at h'
      · rename_i n' hn'
        have e1 := scalarOf_inj hn hn' (ihl ρ ρ' · · (fun d hd' => hd d (by simp [deps, hd'])))
        subst e1
        split at h
        · rename_i parts hp
          split at h'
          · rename_i parts' hp'
            have : parts = parts' := by
              refine iterate_agree hp hp' ?_
              intro i y y' hy hy'
              exact ihb _ _ _ _ (fun d hd' => agree_setLoop (l := deps body ++ deps blen)
                (fun d hd'' => hd d (by simp only [deps, List.mem_append]; exact Or.inr hd'')) i d (by simp [hd']))
                (checkedPart_some hy) (checkedPart_some hy')
            simp only [Option.some.injEq] at h h'; rw [← h, ← h', this]
          · simp at h'
        · simp at h
      · simp at h'
    · simp at h

end NutilsVerif.C06
