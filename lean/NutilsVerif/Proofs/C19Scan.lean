import NutilsVerif.Model.C19
/-!
# C19 — how `_Substring._find` scans: level-0 positions, skipping balanced text
-/
namespace NutilsVerif.C19

/-- level after scanning one character (before / after the level-0 test) -/
def lvlClose (c : Char) (lvl : Int) : Int := if isClose c then lvl - 1 else lvl
def lvlOpen (c : Char) (lvl : Int) : Int := if isOpen c then lvl + 1 else lvl

theorem findGo_cons (ms : List Matcher) (c : Char) (cs : List Char) (lvl : Int) (off : Nat) :
    findGo ms (c :: cs) lvl off =
      match (if lvlClose c lvl = 0 then firstMatch ms (c :: cs) 0 else none) with
      | some (im, n) => some (im, off, n)
      | none => findGo ms cs (lvlOpen c (lvlClose c lvl)) (off + 1) := by
  rw [findGo]; rfl

/-- net change of the bracket level -/
def delta : List Char → Int
  | [] => 0
  | c :: cs => lvlOpen c (lvlClose c 0) + delta cs

theorem lvl_step (c : Char) (lvl : Int) : lvlOpen c (lvlClose c lvl) = lvl + lvlOpen c (lvlClose c 0) := by
  simp only [lvlOpen, lvlClose]; split <;> split <;> omega

theorem delta_append (a b : List Char) : delta (a ++ b) = delta a + delta b := by
  induction a with
  | nil => simp [delta]
  | cons c cs ih => simp only [List.cons_append, delta, ih]; omega

/-- `P` holds for the remaining text at every level-0 scan position of `T`, when `T` is followed by `X` -/
def topAll (P : List Char → Bool) (X : List Char) : List Char → Int → Bool
  | [], _ => true
  | c :: cs, lvl => (lvlClose c lvl != 0 || P (c :: cs ++ X)) && topAll P X cs (lvlOpen c (lvlClose c lvl))

def noMatch (ms : List Matcher) (tl : List Char) : Bool := (firstMatch ms tl 0).isNone

/-- text without level-0 matches is skipped by the scan -/
theorem findGo_skip (ms : List Matcher) (X : List Char) : ∀ (T : List Char) (lvl : Int) (off : Nat),
    topAll (noMatch ms) X T lvl = true →
    findGo ms (T ++ X) lvl off = findGo ms X (lvl + delta T) (off + T.length) := by
  intro T
  induction T with
  | nil => intro lvl off _; simp [delta]
  | cons c cs ih =>
    intro lvl off h
    simp only [topAll, Bool.and_eq_true, Bool.or_eq_true] at h
    obtain ⟨h1, h2⟩ := h
    rw [List.cons_append, findGo_cons]
    have hnone : (if lvlClose c lvl = 0 then firstMatch ms (c :: (cs ++ X)) 0 else none) = none := by
      split
      · rename_i h0
        rcases h1 with h1 | h1
        · simp [h0] at h1
        · simp only [noMatch, List.cons_append, Option.isNone_iff_eq_none] at h1; exact h1
      · rfl
    rw [hnone]
    simp only []
    rw [ih _ _ h2, lvl_step c lvl]
    simp only [delta, List.length_cons]
    congr 1 <;> omega

theorem topAll_append (P : List Char → Bool) (X A B : List Char) : ∀ (lvl : Int),
    topAll P X (A ++ B) lvl = (topAll P (B ++ X) A lvl && topAll P X B (lvl + delta A)) := by
  induction A with
  | nil => intro lvl; simp [topAll, delta]
  | cons c cs ih =>
    intro lvl
    simp only [List.cons_append, topAll, ih, List.append_assoc, delta, Bool.and_assoc]
    rw [lvl_step c lvl]
    congr 3; omega

/-- `E` never closes a bracket it did not open (depth `d` brackets are open) -/
def closedOK : List Char → Nat → Bool
  | [], _ => true
  | c :: cs, d =>
    if isClose c then decide (1 ≤ d) && closedOK cs (d - 1)
    else if isOpen c then closedOK cs (d + 1)
    else closedOK cs d

/-- inside brackets nothing is at level 0 -/
theorem topAll_inner (P : List Char → Bool) (X : List Char) : ∀ (E : List Char) (d : Nat) (lvl : Int),
    closedOK E d = true → (d : Int) + 1 ≤ lvl → topAll P X E lvl = true := by
  intro E
  induction E with
  | nil => intro d lvl _ _; rfl
  | cons c cs ih =>
    intro d lvl h hl
    simp only [closedOK] at h
    simp only [topAll, Bool.and_eq_true, Bool.or_eq_true]
    by_cases hc : isClose c = true
    · simp only [hc, if_true, Bool.and_eq_true, decide_eq_true_eq] at h
      have ho : isOpen c = false := by
        simp only [isClose, isOpen, Bool.or_eq_true, beq_iff_eq] at hc ⊢
        rcases hc with ((hc | hc) | hc) | hc <;> subst hc <;> decide
      refine ⟨Or.inl ?_, ?_⟩
      · simp only [lvlClose, hc, if_true]; simp; omega
      · apply ih (d - 1) _ h.2
        simp only [lvlOpen, lvlClose, hc, ho, if_true]; simp; omega
    · simp only [hc, Bool.false_eq_true, if_false] at h
      refine ⟨Or.inl ?_, ?_⟩
      · simp only [lvlClose, hc]; simp; omega
      · by_cases ho : isOpen c = true
        · simp only [ho, if_true] at h
          apply ih (d + 1) _ h
          simp only [lvlOpen, lvlClose, hc, ho, if_true]; simp; omega
        · simp only [ho, Bool.false_eq_true, if_false] at h
          apply ih d _ h
          simp only [lvlOpen, lvlClose, hc, ho]; simp; omega

theorem open_close_excl (c : Char) (h : isClose c = true) : isOpen c = false := by
  simp only [isClose, isOpen, Bool.or_eq_true, beq_iff_eq] at h ⊢
  rcases h with ((h | h) | h) | h <;> subst h <;> decide

/-- open depth after scanning (meaningful when `closedOK`) -/
def depthAfter : List Char → Nat → Nat
  | [], d => d
  | c :: cs, d => if isClose c then depthAfter cs (d - 1) else if isOpen c then depthAfter cs (d + 1) else depthAfter cs d

theorem depthAfter_delta : ∀ (A : List Char) (d : Nat), closedOK A d = true → (depthAfter A d : Int) = d + delta A := by
  intro A
  induction A with
  | nil => intro d _; simp [depthAfter, delta]
  | cons c cs ih =>
    intro d h
    simp only [closedOK] at h
    simp only [depthAfter, delta, lvlOpen, lvlClose]
    by_cases hc : isClose c = true
    · have ho := open_close_excl c hc
      simp only [hc, if_true, Bool.and_eq_true, decide_eq_true_eq] at h
      simp only [hc, ho, if_true, Bool.false_eq_true, if_false]
      rw [ih _ h.2]; omega
    · simp only [hc, Bool.false_eq_true, if_false] at h ⊢
      by_cases ho : isOpen c = true
      · simp only [ho, if_true] at h ⊢; rw [ih _ h]; omega
      · simp only [ho, Bool.false_eq_true, if_false] at h ⊢; rw [ih _ h]; omega

theorem closedOK_append : ∀ (A B : List Char) (d : Nat), closedOK A d = true → closedOK B (depthAfter A d) = true →
    closedOK (A ++ B) d = true := by
  intro A
  induction A with
  | nil => intro B d _ h; simpa [depthAfter] using h
  | cons c cs ih =>
    intro B d hA hB
    simp only [closedOK, List.cons_append] at hA ⊢
    simp only [depthAfter] at hB
    by_cases hc : isClose c = true
    · simp only [hc, if_true, Bool.and_eq_true, decide_eq_true_eq] at hA hB ⊢
      exact ⟨hA.1, ih _ _ hA.2 hB⟩
    · simp only [hc, Bool.false_eq_true, if_false] at hA hB ⊢
      by_cases ho : isOpen c = true
      · simp only [ho, if_true] at hA hB ⊢; exact ih _ _ hA hB
      · simp only [ho, Bool.false_eq_true, if_false] at hA hB ⊢; exact ih _ _ hA hB

theorem closedOK_mono : ∀ (A : List Char) (d e : Nat), d ≤ e → closedOK A d = true → closedOK A e = true := by
  intro A
  induction A with
  | nil => intro d e _ _; rfl
  | cons c cs ih =>
    intro d e hde h
    simp only [closedOK] at h ⊢
    by_cases hc : isClose c = true
    · simp only [hc, if_true, Bool.and_eq_true, decide_eq_true_eq] at h ⊢
      exact ⟨by omega, ih _ _ (by omega) h.2⟩
    · simp only [hc, Bool.false_eq_true, if_false] at h ⊢
      by_cases ho : isOpen c = true
      · simp only [ho, if_true] at h ⊢; exact ih _ _ (by omega) h
      · simp only [ho, Bool.false_eq_true, if_false] at h ⊢; exact ih _ _ hde h

/-- balanced text: brackets properly nested (of any kinds) -/
def Bal (E : List Char) : Prop := closedOK E 0 = true ∧ delta E = 0

theorem Bal.nil : Bal [] := ⟨rfl, rfl⟩

theorem Bal.depth {E : List Char} (h : Bal E) (d : Nat) : closedOK E d = true ∧ depthAfter E d = d := by
  have h1 := closedOK_mono E 0 d (Nat.zero_le d) h.1
  have := depthAfter_delta E d h1
  rw [h.2] at this
  exact ⟨h1, by omega⟩

theorem Bal.append {A B : List Char} (hA : Bal A) (hB : Bal B) : Bal (A ++ B) := by
  refine ⟨closedOK_append A B 0 hA.1 ?_, by rw [delta_append, hA.2, hB.2]; rfl⟩
  rw [(hA.depth 0).2]; exact hB.1

/-- a character that is no bracket -/
def plain (c : Char) : Bool := !(isOpen c || isClose c)

theorem Bal.plain_cons {c : Char} {E : List Char} (hc : plain c = true) (hE : Bal E) : Bal (c :: E) := by
  simp only [plain, Bool.not_eq_true', Bool.or_eq_false_iff] at hc
  refine ⟨by simp [closedOK, hc.1, hc.2, hE.1], by simp [delta, lvlOpen, lvlClose, hc.1, hc.2, hE.2]⟩

theorem Bal.of_plain : ∀ (l : List Char), l.all plain = true → Bal l := by
  intro l
  induction l with
  | nil => intro _; exact Bal.nil
  | cons c cs ih =>
    intro h
    simp only [List.all_cons, Bool.and_eq_true] at h
    exact Bal.plain_cons h.1 (ih h.2)

theorem Bal.bracket {o c : Char} {E : List Char} (ho : isOpen o = true) (hc : isClose c = true) (hE : Bal E) :
    Bal (o :: E ++ [c]) := by
  have hoc : isClose o = false := by
    cases h : isClose o with
    | false => rfl
    | true => rw [open_close_excl o h] at ho; simp at ho
  have hco := open_close_excl c hc
  unfold Bal
  constructor
  · show closedOK (o :: (E ++ [c])) 0 = true
    simp only [closedOK, hoc, ho, Bool.false_eq_true, if_false, if_true]
    apply closedOK_append
    · exact (hE.depth 1).1
    · rw [(hE.depth 1).2]; simp [closedOK, hc]
  · show delta (o :: (E ++ [c])) = 0
    simp only [delta, delta_append, lvlOpen, lvlClose, hoc, ho, hc, hco, hE.2]
    decide

end NutilsVerif.C19
