import NutilsVerif.Proofs.C03Basic
/-! C03 — a basic statement as an explicit effect (≤ 1 variable binding, ≤ 1 buffer update) -/
namespace NutilsVerif.C03
variable {D : Type}

structure Eff (D : Type) where
  err : Option Err := none
  envUpd : Option (Var × Ref) := none
  heapUpd : Option (Loc × D) := none
  clr : Bool := false

def applyEff (st : St D) (e : Eff D) : St D :=
  match e.err with
  | some er => fail st er
  | none =>
    { env := fun x => match e.envUpd with
        | some (v, r) => if x = v then some r else st.env x
        | none => st.env x
      heap := fun l => match e.heapUpd with
        | some (l', d) => if l = l' then d else st.heap l
        | none => st.heap l
      first := if e.clr then false else st.first
      err := st.err }

def freshEff (dst : Var) (d : D) : Eff D := { envUpd := some (dst, ⟨.var dst, [], true⟩), heapUpd := some (.var dst, d) }

def effB (I : Interp D) (args : Args D) (b : Basic) (st : St D) : Eff D :=
  match b with
  | .fresh dst op srcs =>
    match vals I st srcs with
    | some ds => freshEff dst (I.comp op ds)
    | none => { err := some .unbound }
  | .getarg dst a cop =>
    match args a with
    | none => { err := some .noarg }
    | some g =>
      if g.copy then freshEff dst (I.conv cop (I.rd g.path (st.heap (.arg a))))
      else { envUpd := some (dst, ⟨.arg a, g.path, g.w⟩) }
  | .view dst vop may src =>
    match st.env src with
    | none => { err := some .unbound }
    | some r =>
      if may && I.copies vop r.path then freshEff dst (I.rd (vop :: r.path) (st.heap r.loc))
      else { envUpd := some (dst, ⟨r.loc, vop :: r.path, r.w⟩) }
  | .write dst op srcs =>
    match st.env dst, vals I st srcs with
    | some r, some ds =>
      if r.w then { heapUpd := some (r.loc, I.wr op r.path (st.heap r.loc) ds) } else { err := some .readonly }
    | _, _ => { err := some .unbound }
  | .setro v =>
    match st.env v with
    | some r => { envUpd := some (v, { r with w := false }) }
    | none => { err := some .unbound }
  | .guard op srcs =>
    match vals I st srcs with
    | some ds => if I.ok op ds then {} else { err := some .check }
    | none => { err := some .unbound }
  | .clear => { clr := true }

theorem St.ext' {a b : St D} (h1 : a.env = b.env) (h2 : a.heap = b.heap) (h3 : a.first = b.first) (h4 : a.err = b.err) : a = b := by
  cases a; cases b; simp_all

theorem applyEff_fresh (st : St D) (dst : Var) (d : D) (h : st.err = none) : applyEff st (freshEff dst d) = alloc st dst d := by
  apply St.ext' <;> simp [applyEff, freshEff, alloc, setEnv, setHeap, h]

theorem applyEff_failE (st : St D) (er : Err) : applyEff st { err := some er } = fail st er := rfl

theorem execB_eq (I : Interp D) (args : Args D) (b : Basic) (st : St D) (h : st.err = none) :
    execB I args b st = applyEff st (effB I args b st) := by
  unfold execB effB
  rw [h]
  cases b with
  | fresh dst op srcs =>
    cases hv : vals I st srcs with
    | none => simp only [hv]; rfl
    | some ds => simp only [hv, applyEff_fresh _ _ _ h]
  | getarg dst a cop =>
    cases ha : args a with
    | none => simp only [ha]; rfl
    | some g =>
      simp only [ha]
      by_cases hc : g.copy = true
      · simp only [hc, if_true, applyEff_fresh _ _ _ h]
      · simp only [hc]
        apply St.ext' <;> simp [applyEff, setEnv, h]
  | view dst vop may src =>
    cases he : st.env src with
    | none => simp only [he]; rfl
    | some r =>
      simp only [he]
      by_cases hc : (may && I.copies vop r.path) = true
      · simp only [hc, if_true, applyEff_fresh _ _ _ h]
      · simp only [hc]
        apply St.ext' <;> simp [applyEff, setEnv, h]
  | write dst op srcs =>
    cases he : st.env dst with
    | none => simp only [he]; rfl
    | some r =>
      cases hv : vals I st srcs with
      | none => simp only [he, hv]; rfl
      | some ds =>
        simp only [he, hv]
        by_cases hw : r.w = true
        · simp only [hw, if_true]
          apply St.ext' <;> simp [applyEff, setHeap, h]
        · simp only [hw]; rfl
  | setro v =>
    cases he : st.env v with
    | none => simp only [he]; rfl
    | some r => simp only [he]; apply St.ext' <;> simp [applyEff, setEnv, h]
  | guard op srcs =>
    cases hv : vals I st srcs with
    | none => simp only [hv]; rfl
    | some ds =>
      simp only [hv]
      by_cases hk : I.ok op ds = true
      · simp only [hk, if_true]
        apply St.ext' <;> simp [applyEff, h]
      · simp only [hk]; rfl
  | clear => apply St.ext' <;> simp [applyEff, h]

theorem bindIdx_eq (I : Interp D) (i : Var) (j : Nat) (st : St D) (h : st.err = none) :
    bindIdx I i j st = applyEff st (freshEff i (I.idx j)) := by
  rw [bindIdx_ok I i j st h, applyEff_fresh _ _ _ h]

/-! projections of `applyEff` -/
theorem applyEff_err (st : St D) (e : Eff D) : (applyEff st e).err = match e.err with | some er => some er | none => st.err := by
  unfold applyEff; split <;> simp_all

theorem applyEff_env (st : St D) (e : Eff D) (x : Var) :
    (applyEff st e).env x = match e.err, e.envUpd with
      | none, some (v, r) => if x = v then some r else st.env x
      | _, _ => st.env x := by
  unfold applyEff
  cases he : e.err <;> cases hu : e.envUpd <;> simp

theorem applyEff_heap (st : St D) (e : Eff D) (l : Loc) :
    (applyEff st e).heap l = match e.err, e.heapUpd with
      | none, some (l', d) => if l = l' then d else st.heap l
      | _, _ => st.heap l := by
  unfold applyEff
  cases he : e.err <;> cases hu : e.heapUpd <;> simp

end NutilsVerif.C03

namespace NutilsVerif.C03
variable {D : Type}

/-! ## two states that see the same through the variables a statement reads produce the same effect -/

/-- both unbound, or bound to the same buffer and view path with equal buffer content -/
def SeeSame (s1 s2 : St D) (u : Var) : Prop :=
  match s1.env u, s2.env u with
  | none, none => True
  | some a, some b => a.loc = b.loc ∧ a.path = b.path ∧ s1.heap a.loc = s2.heap a.loc
  | _, _ => False

theorem SeeSame.val (I : Interp D) {s1 s2 : St D} {u : Var} (h : SeeSame s1 s2 u) : C03.val I s1 u = C03.val I s2 u := by
  unfold SeeSame at h; unfold C03.val
  cases h1 : s1.env u <;> cases h2 : s2.env u <;> simp_all
  obtain ⟨hl, hp, hh⟩ := h
  rw [← hl, ← hp, hh]

theorem vals_same (I : Interp D) {s1 s2 : St D} : ∀ (us : List Var), (∀ u ∈ us, SeeSame s1 s2 u) → vals I s1 us = vals I s2 us
  | [], _ => rfl
  | u :: us, h => by
    simp only [vals]
    rw [(h u (by simp)).val I, vals_same I us (fun x hx => h x (by simp [hx]))]

/-- similarity of the new bindings: same variable, buffer and path; flags equal, or inherited from a read variable
bound to that same buffer -/
def UpdSim (b : Basic) (s1 s2 : St D) (u1 u2 : Option (Var × Ref)) : Prop :=
  match u1, u2 with
  | none, none => True
  | some (v1, r1), some (v2, r2) =>
    v1 = v2 ∧ v1 ∈ b.defs ++ (match b with | .setro v => [v] | _ => []) ∧ r1.loc = r2.loc ∧ r1.path = r2.path ∧
      (r1.w = r2.w ∨ ∃ u ∈ b.reads, ∃ a c, s1.env u = some a ∧ s2.env u = some c ∧ a.loc = r1.loc ∧ r1.w = a.w ∧ r2.w = c.w)
  | _, _ => False

structure EffSim (b : Basic) (s1 s2 : St D) (e1 e2 : Eff D) : Prop where
  err : e1.err = e2.err
  heap : e1.heapUpd = e2.heapUpd
  clr : e1.clr = e2.clr
  env : UpdSim b s1 s2 e1.envUpd e2.envUpd

theorem effB_sim (I : Interp D) (args : Args D) (b : Basic) (s1 s2 : St D)
    (hr : ∀ u ∈ b.reads, SeeSame s1 s2 u)
    (hw : ∀ dst op srcs, b = .write dst op srcs → ∀ a c, s1.env dst = some a → s2.env dst = some c → a.w = c.w)
    (ha : ∀ dst a cop, b = .getarg dst a cop → s1.heap (.arg a) = s2.heap (.arg a)) :
    EffSim b s1 s2 (effB I args b s1) (effB I args b s2) := by
  cases b with
  | fresh dst op srcs =>
    simp only [effB]
    rw [vals_same I srcs hr]
    cases vals I s2 srcs with
    | none => exact ⟨rfl, rfl, rfl, trivial⟩
    | some ds => exact ⟨rfl, rfl, rfl, by simp [UpdSim, freshEff, Basic.defs]⟩
  | getarg dst a cop =>
    simp only [effB]
    cases args a with
    | none => exact ⟨rfl, rfl, rfl, trivial⟩
    | some g =>
      simp only
      rw [ha dst a cop rfl]
      split
      · exact ⟨rfl, rfl, rfl, by simp [UpdSim, freshEff, Basic.defs]⟩
      · exact ⟨rfl, rfl, rfl, by simp [UpdSim, Basic.defs]⟩
  | view dst vop may src =>
    have hs := hr src (by simp [Basic.reads])
    unfold SeeSame at hs
    simp only [effB]
    cases h1 : s1.env src with
    | none =>
      cases h2 : s2.env src with
      | none => exact ⟨rfl, rfl, rfl, trivial⟩
      | some r2 => simp [h1, h2] at hs
    | some r1 =>
      cases h2 : s2.env src with
      | none => simp [h1, h2] at hs
      | some r2 =>
        simp only [h1, h2] at hs
        obtain ⟨hl, hp, hh⟩ := hs
        simp only
        rw [← hp, ← hl, ← hh]
        split
        · exact ⟨rfl, rfl, rfl, by simp [UpdSim, freshEff, Basic.defs]⟩
        · refine ⟨rfl, rfl, rfl, ?_⟩
          simp only [UpdSim, Basic.defs, Basic.reads, List.mem_cons, List.mem_append, List.not_mem_nil, or_false, true_and,
            exists_eq_left]
          exact Or.inr ⟨r1, r2, h1, h2, rfl, rfl, rfl⟩
  | write dst op srcs =>
    have hd := hr dst (by simp [Basic.reads])
    have hv := vals_same I srcs (fun u hu => hr u (by simp [Basic.reads, hu]))
    unfold SeeSame at hd
    simp only [effB]
    rw [hv]
    cases h1 : s1.env dst with
    | none =>
      cases h2 : s2.env dst with
      | none => exact ⟨rfl, rfl, rfl, trivial⟩
      | some r2 => simp [h1, h2] at hd
    | some r1 =>
      cases h2 : s2.env dst with
      | none => simp [h1, h2] at hd
      | some r2 =>
        simp only [h1, h2] at hd
        obtain ⟨hl, hp, hh⟩ := hd
        cases vals I s2 srcs with
        | none => exact ⟨rfl, rfl, rfl, trivial⟩
        | some ds =>
          simp only
          rw [hw dst op srcs rfl r1 r2 h1 h2, ← hp, ← hl, ← hh]
          split
          · exact ⟨rfl, rfl, rfl, trivial⟩
          · exact ⟨rfl, rfl, rfl, trivial⟩
  | setro v =>
    have hs := hr v (by simp [Basic.reads])
    unfold SeeSame at hs
    simp only [effB]
    cases h1 : s1.env v with
    | none =>
      cases h2 : s2.env v with
      | none => exact ⟨rfl, rfl, rfl, trivial⟩
      | some r2 => simp [h1, h2] at hs
    | some r1 =>
      cases h2 : s2.env v with
      | none => simp [h1, h2] at hs
      | some r2 =>
        simp only [h1, h2] at hs
        exact ⟨rfl, rfl, rfl, by simp [UpdSim, Basic.defs, hs.1, hs.2.1]⟩
  | guard op srcs =>
    simp only [effB]
    rw [vals_same I srcs hr]
    cases vals I s2 srcs with
    | none => exact ⟨rfl, rfl, rfl, trivial⟩
    | some ds =>
      simp only
      split
      · exact ⟨rfl, rfl, rfl, trivial⟩
      · exact ⟨rfl, rfl, rfl, trivial⟩
  | clear => exact ⟨rfl, rfl, rfl, trivial⟩

end NutilsVerif.C03

namespace NutilsVerif.C03
variable {D : Type}

/-- which binding / buffer a basic statement can touch -/
theorem effB_envUpd (I : Interp D) (args : Args D) (b : Basic) (st : St D) (x : Var) (r : Ref)
    (h : (effB I args b st).envUpd = some (x, r)) : x ∈ b.defs ∨ b = .setro x := by
  cases b with
  | fresh dst op srcs =>
    simp only [effB] at h
    cases hv : vals I st srcs <;> simp [hv, freshEff] at h
    exact Or.inl (by simp [Basic.defs, h.1])
  | getarg dst a cop =>
    simp only [effB] at h
    cases ha : args a with
    | none => simp [ha] at h
    | some g =>
      simp only [ha] at h
      split at h <;> simp [freshEff] at h <;> exact Or.inl (by simp [Basic.defs, h.1])
  | view dst vop may src =>
    simp only [effB] at h
    cases he : st.env src with
    | none => simp [he] at h
    | some r0 =>
      simp only [he] at h
      split at h <;> simp [freshEff] at h <;> exact Or.inl (by simp [Basic.defs, h.1])
  | write dst op srcs =>
    simp only [effB] at h
    split at h
    · split at h <;> simp at h
    · simp at h
  | setro v =>
    simp only [effB] at h
    cases he : st.env v with
    | none => simp [he] at h
    | some r0 => simp [he] at h; exact Or.inr (by rw [h.1])
  | guard op srcs =>
    simp only [effB] at h
    cases hv : vals I st srcs with
    | none => simp [hv] at h
    | some ds => simp only [hv] at h; split at h <;> simp at h
  | clear => simp [effB] at h

theorem effB_heapUpd (I : Interp D) (args : Args D) (b : Basic) (st : St D) (l : Loc) (d : D)
    (h : (effB I args b st).heapUpd = some (l, d)) :
    (∃ x ∈ b.defs, l = .var x) ∨ (∃ dst op srcs r, b = .write dst op srcs ∧ st.env dst = some r ∧ l = r.loc) := by
  cases b with
  | fresh dst op srcs =>
    simp only [effB] at h
    cases hv : vals I st srcs <;> simp [hv, freshEff] at h
    exact Or.inl ⟨dst, by simp [Basic.defs], h.1.symm⟩
  | getarg dst a cop =>
    simp only [effB] at h
    cases ha : args a with
    | none => simp [ha] at h
    | some g =>
      simp only [ha] at h
      split at h <;> simp [freshEff] at h
      exact Or.inl ⟨dst, by simp [Basic.defs], h.1.symm⟩
  | view dst vop may src =>
    simp only [effB] at h
    cases he : st.env src with
    | none => simp [he] at h
    | some r0 =>
      simp only [he] at h
      split at h <;> simp [freshEff] at h
      exact Or.inl ⟨dst, by simp [Basic.defs], h.1.symm⟩
  | write dst op srcs =>
    simp only [effB] at h
    split at h
    · next r ds hr _ =>
      split at h <;> simp at h
      exact Or.inr ⟨dst, op, srcs, r, rfl, hr, h.1.symm⟩
    · simp at h
  | setro v =>
    simp only [effB] at h
    cases he : st.env v <;> simp [he] at h
  | guard op srcs =>
    simp only [effB] at h
    cases hv : vals I st srcs with
    | none => simp [hv] at h
    | some ds => simp only [hv] at h; split at h <;> simp at h
  | clear => simp [effB] at h

end NutilsVerif.C03

namespace NutilsVerif.C03
variable {D : Type}

/-- where a new binding points: its own fresh buffer, an argument buffer, or the buffer of a variable that was read -/
theorem effB_envUpd_loc (I : Interp D) (args : Args D) (b : Basic) (st : St D) (x : Var) (r : Ref)
    (h : (effB I args b st).envUpd = some (x, r)) :
    r.loc = .var x ∨ (∃ a, r.loc = .arg a) ∨ ∃ u ∈ b.reads, ∃ a, st.env u = some a ∧ a.loc = r.loc := by
  cases b with
  | fresh dst op srcs =>
    simp only [effB] at h
    cases hv : vals I st srcs <;> simp [hv, freshEff] at h
    left; rw [← h.2, ← h.1]
  | getarg dst a cop =>
    simp only [effB] at h
    cases ha : args a with
    | none => simp [ha] at h
    | some g =>
      simp only [ha] at h
      split at h <;> simp [freshEff] at h
      · left; rw [← h.2, ← h.1]
      · right; left; exact ⟨a, by rw [← h.2]⟩
  | view dst vop may src =>
    simp only [effB] at h
    cases he : st.env src with
    | none => simp [he] at h
    | some r0 =>
      simp only [he] at h
      split at h <;> simp [freshEff] at h
      · left; rw [← h.2, ← h.1]
      · right; right; exact ⟨src, by simp [Basic.reads], r0, he, by rw [← h.2]⟩
  | write dst op srcs =>
    simp only [effB] at h
    split at h
    · split at h <;> simp at h
    · simp at h
  | setro v =>
    simp only [effB] at h
    cases he : st.env v with
    | none => simp [he] at h
    | some r0 =>
      simp [he] at h
      right; right; exact ⟨v, by simp [Basic.reads], r0, he, by rw [← h.2]⟩
  | guard op srcs =>
    simp only [effB] at h
    cases hv : vals I st srcs with
    | none => simp [hv] at h
    | some ds => simp only [hv] at h; split at h <;> simp at h
  | clear => simp [effB] at h

theorem applyEff_env_frame (st : St D) (e : Eff D) (v : Var) (h : ∀ x r, e.envUpd = some (x, r) → v ≠ x) :
    (applyEff st e).env v = st.env v := by
  rw [applyEff_env]
  cases e.err <;> cases hu : e.envUpd <;> simp only
  rename_i p; obtain ⟨x, r⟩ := p
  simp [h x r hu]

theorem applyEff_heap_frame (st : St D) (e : Eff D) (l : Loc) (h : ∀ l' d, e.heapUpd = some (l', d) → l ≠ l') :
    (applyEff st e).heap l = st.heap l := by
  rw [applyEff_heap]
  cases e.err <;> cases hu : e.heapUpd <;> simp only
  rename_i p; obtain ⟨l', d⟩ := p
  simp [h l' d hu]

end NutilsVerif.C03
