import NutilsVerif.Proofs.C06Expr
/-!
# C06 — the consumers of ranges are value preserving, given that ranges are sound
-/
namespace NutilsVerif.C06
open PyNum

theorem mapOpt_zip_left {f : Int → Int → Option Int} : ∀ (va vb v : List Int), va.length = vb.length →
    mapOpt (fun p => f p.1 p.2) (va.zip vb) = some v → (∀ p ∈ va.zip vb, f p.1 p.2 = some p.1) → v = va
  | [], [], v, _, h, _ => by
    simp only [List.zip_nil_left, mapOpt, Option.some.injEq] at h; exact h.symm
  | a :: va, b :: vb, v, hl, h, hf => by
    simp only [List.zip_cons_cons, mapOpt] at h
    have h1 := hf (a, b) (by simp)
    simp only at h1
    rw [h1] at h
    cases ht : mapOpt (fun p => f p.1 p.2) (va.zip vb) with
    | none => simp [ht] at h
    | some t =>
      simp only [ht, Option.some.injEq] at h; subst h
      congr 1
      exact mapOpt_zip_left va vb t (by simpa using hl) ht (fun p hp => hf p (by simp [hp]))
  | [], _ :: _, _, hl, _, _ => by simp at hl
  | _ :: _, [], _, hl, _, _ => by simp at hl

theorem mapOpt_zip_right {f : Int → Int → Option Int} : ∀ (va vb v : List Int), va.length = vb.length →
    mapOpt (fun p => f p.1 p.2) (va.zip vb) = some v → (∀ p ∈ va.zip vb, f p.1 p.2 = some p.2) → v = vb
  | [], [], v, _, h, _ => by
    simp only [List.zip_nil_left, mapOpt, Option.some.injEq] at h; exact h.symm
  | a :: va, b :: vb, v, hl, h, hf => by
    simp only [List.zip_cons_cons, mapOpt] at h
    have h1 := hf (a, b) (by simp)
    simp only at h1
    rw [h1] at h
    cases ht : mapOpt (fun p => f p.1 p.2) (va.zip vb) with
    | none => simp [ht] at h
    | some t =>
      simp only [ht, Option.some.injEq] at h; subst h
      congr 1
      exact mapOpt_zip_right va vb t (by simpa using hl) ht (fun p hp => hf p (by simp [hp]))
  | [], _ :: _, _, hl, _, _ => by simp at hl
  | _ :: _, [], _, hl, _, _ => by simp at hl

/-- a pointwise operation that returns its left operand on all value pairs can be replaced by the left operand -/
theorem zipOp_left {f : Int → Int → Option Int} {a b : Option (List Int)} {v : List Int} (h : zipOp f a b = some v)
    (hf : ∀ va vb, a = some va → b = some vb → ∀ x ∈ va, ∀ y ∈ vb, f x y = some x) : a = some v := by
  cases a with
  | none => simp [zipOp] at h
  | some va =>
    cases b with
    | none => simp [zipOp] at h
    | some vb =>
      simp only [zipOp] at h
      split at h
      · rename_i hl
        have := mapOpt_zip_left va vb v hl h (fun p hp => hf va vb rfl rfl p.1 (List.of_mem_zip hp).1 p.2 (List.of_mem_zip hp).2)
        rw [this]
      · simp at h

theorem zipOp_right {f : Int → Int → Option Int} {a b : Option (List Int)} {v : List Int} (h : zipOp f a b = some v)
    (hf : ∀ va vb, a = some va → b = some vb → ∀ x ∈ va, ∀ y ∈ vb, f x y = some y) : b = some v := by
  cases a with
  | none => simp [zipOp] at h
  | some va =>
    cases b with
    | none => simp [zipOp] at h
    | some vb =>
      simp only [zipOp] at h
      split at h
      · rename_i hl
        have := mapOpt_zip_right va vb v hl h (fun p hp => hf va vb rfl rfl p.1 (List.of_mem_zip hp).1 p.2 (List.of_mem_zip hp).2)
        rw [this]
      · simp at h

theorem lt_of_le_lt_le {A B : PyNum} {x y : Int} (h1 : PyNum.le (int x) A = true) (h2 : PyNum.lt A B = true) (h3 : PyNum.le B (int y) = true) : x < y := by
  cases A <;> cases B <;> simp_all [PyNum.lt] <;> omega

theorem le_of_le_le_le {A B : PyNum} {x y : Int} (h1 : PyNum.le (int x) A = true) (h2 : PyNum.le A B = true) (h3 : PyNum.le B (int y) = true) : x ≤ y := by
  have := le_trans' (le_trans' h1 h2) h3; simpa using this

/-- `_isindex`, `Power.__post_init__`, `InsertAxis._inverse`: a lower bound read off the range holds for every evaluated value -/
theorem consumer_safe_lower_bound {e : Expr} {r : Rng} {c : Int} (hb : bounds e = some r) (hc : PyNum.le (int c) r.1 = true)
    {ρ : Env} {v : List Int} (hv : eval e ρ = some v) : ∀ x ∈ v, c ≤ x := by
  intro x hx
  have := le_trans' hc (intbounds_sound_expr e ρ v r hv hb x hx).1
  simpa using this

theorem consumer_safe_isIndex {e : Expr} (h : isIndex e = true) {ρ : Env} {v : List Int} (hv : eval e ρ = some v) : ∀ x ∈ v, 0 ≤ x := by
  unfold isIndex at h
  simp only [Bool.and_eq_true] at h
  cases hb : bounds e with
  | none => simp [hb] at h
  | some r => rw [hb] at h; exact consumer_safe_lower_bound hb h.2 hv

/-- `InRange._simplified`: the node is replaced by its index operand; the dropped run-time check can never fail -/
theorem consumer_safe_InRange {idx len e' : Expr} (h : simpInRange idx len = some e') :
    e' = idx ∧ ∀ (ρ : Env) (iv : List Int) (n : Int), eval idx ρ = some iv → scalarOf (eval len ρ) = some n →
      eval (.inRange idx len) ρ = some iv := by
  unfold simpInRange at h
  split at h
  · rename_i rl ri hrl hri
    split at h
    · rename_i hc
      simp only [Bool.and_eq_true] at hc
      simp only [Option.some.injEq] at h
      refine ⟨h.symm, ?_⟩
      intro ρ iv n hiv hn
      have hall : (iv.all fun x => decide (0 ≤ x ∧ x < n)) = true := by
        rw [List.all_eq_true]
        intro x hx
        have hm := intbounds_sound_expr idx ρ iv ri hiv hri x hx
        have hnm := ih_scalar (intbounds_sound_expr len) hn hrl
        have h0 : 0 ≤ x := by have := le_trans' hc.1.1 hm.1; simpa using this
        have h1 : x < n := lt_of_le_lt_le hm.2 hc.2 hnm.1
        simp [h0, h1]
      simp only [eval, hiv, hn, hall, if_true]
    · simp at h
  · simp at h

/-- `Mod._simplified`: `dividend % divisor` is the dividend when `0 ≤ dividend < divisor` follows from the ranges -/
theorem consumer_safe_Mod {a b e' : Expr} (h : simpMod a b = some e') {ρ : Env} {v : List Int} (hv : eval (.mod a b) ρ = some v) :
    eval e' ρ = some v := by
  unfold simpMod at h
  split at h
  · rename_i rb hrb
    split at h
    · rename_i hpos
      split at h
      · rename_i ra hra
        split at h
        · rename_i hc
          simp only [Bool.and_eq_true] at hc
          simp only [Option.some.injEq] at h; subst h
          simp only [eval] at hv
          refine zipOp_left hv ?_
          intro va vb ha hb x hx y hy
          have hmx := intbounds_sound_expr a ρ va ra ha hra x hx
          have hmy := intbounds_sound_expr b ρ vb rb hb hrb y hy
          have h0 : 0 ≤ x := by have := le_trans' hc.1 hmx.1; simpa using this
          have h1 : x < y := lt_of_le_lt_le hmx.2 hc.2 hmy.1
          have hy0 : y ≠ 0 := by omega
          simp only [pyMod, hy0, if_false, Option.some.injEq]
          rw [Int.fmod_eq_emod_of_nonneg x (by omega), Int.emod_eq_of_lt h0 h1]
        · simp at h
      · simp at h
    · simp at h
  · simp at h

/-- `Minimum._simplified` -/
theorem consumer_safe_Minimum {x y e' : Expr} (h : simpMin x y = some e') {ρ : Env} {v : List Int} (hv : eval (.min x y) ρ = some v) :
    eval e' ρ = some v := by
  unfold simpMin at h
  split at h
  · rename_i r1 r2 hr1 hr2
    simp only [eval] at hv
    split at h
    · rename_i hc
      simp only [Option.some.injEq] at h; subst h
      refine zipOp_left hv ?_
      intro va vb ha hb p hp q hq
      have := le_of_le_le_le (intbounds_sound_expr x ρ va r1 ha hr1 p hp).2 hc (intbounds_sound_expr y ρ vb r2 hb hr2 q hq).1
      simp [Int.min_eq_left this]
    · split at h
      · rename_i hc
        simp only [Option.some.injEq] at h; subst h
        refine zipOp_right hv ?_
        intro va vb ha hb p hp q hq
        have := le_of_le_le_le (intbounds_sound_expr y ρ vb r2 hb hr2 q hq).2 hc (intbounds_sound_expr x ρ va r1 ha hr1 p hp).1
        simp [Int.min_eq_right this]
      · simp at h
  · simp at h

/-- `Maximum._simplified` -/
theorem consumer_safe_Maximum {x y e' : Expr} (h : simpMax x y = some e') {ρ : Env} {v : List Int} (hv : eval (.max x y) ρ = some v) :
    eval e' ρ = some v := by
  unfold simpMax at h
  split at h
  · rename_i r1 r2 hr1 hr2
    simp only [eval] at hv
    split at h
    · rename_i hc
      simp only [Option.some.injEq] at h; subst h
      refine zipOp_left hv ?_
      intro va vb ha hb p hp q hq
      have := le_of_le_le_le (intbounds_sound_expr y ρ vb r2 hb hr2 q hq).2 hc (intbounds_sound_expr x ρ va r1 ha hr1 p hp).1
      simp [Int.max_eq_left this]
    · split at h
      · rename_i hc
        simp only [Option.some.injEq] at h; subst h
        refine zipOp_right hv ?_
        intro va vb ha hb p hp q hq
        have := le_of_le_le_le (intbounds_sound_expr x ρ va r1 ha hr1 p hp).2 hc (intbounds_sound_expr y ρ vb r2 hb hr2 q hq).1
        simp [Int.max_eq_right this]
      · simp at h
  · simp at h

/-- `NormDim._simplified` (first rule): a non-negative index below the length is its own normalisation -/
theorem consumer_safe_NormDim {len idx e' : Expr} (h : simpNormDim len idx = some e') {ρ : Env} {v : List Int}
    (hv : eval (.normDim len idx) ρ = some v) : eval e' ρ = some v := by
  unfold simpNormDim at h
  split at h
  · rename_i rl ri hrl hri
    split at h
    · rename_i hc
      simp only [Bool.and_eq_true] at hc
      simp only [Option.some.injEq] at h; subst h
      simp only [eval] at hv
      refine zipOp_right hv ?_
      intro va vb ha hb n hn i hi
      have hmn := intbounds_sound_expr len ρ va rl ha hrl n hn
      have hmi := intbounds_sound_expr idx ρ vb ri hb hri i hi
      have h0 : 0 ≤ i := by have := le_trans' hc.1 hmi.1; simpa using this
      have h1 : i < n := lt_of_le_lt_le hmi.2 hc.2 hmn.1
      have h2 : ¬ n < 0 := by omega
      have h3 : ¬ i < 0 := by omega
      have h4 : ¬ i ≥ n := by omega
      simp [normdimVal, h2, h3, h4]
    · simp at h
  · simp at h

end NutilsVerif.C06
