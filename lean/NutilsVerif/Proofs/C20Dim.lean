import NutilsVerif.Model.C20
/-!
# C20 — the exponent vectors form an abelian group (helper lemmas)

Everything is reduced to the pointwise view `get d k` of a canonical list: `ext` says that a canonical list is
determined by it, `get_fromPowers` / `get_binop` / `get_pow` compute it for the operations.
-/
namespace NutilsVerif.C20

attribute [local simp] Rat.add_zero Rat.zero_add Rat.mul_zero Rat.zero_mul Rat.mul_one Rat.one_mul Rat.sub_self

theorem str_tri {a b : String} (h1 : ¬ a < b) (h2 : a ≠ b) : b < a := by grind
theorem str_lt_ne {a b : String} (h : a < b) : a ≠ b := by
  intro e; subst e; exact String.lt_irrefl _ h

@[simp] theorem get_nil (k : Base) : get [] k = 0 := rfl
theorem get_cons (b : Base) (p : Rat) (t : Pows) (k : Base) : get ((b, p) :: t) k = if b = k then p else get t k := rfl

theorem sorted_nil : Sorted [] := List.Pairwise.nil
theorem sorted_tail {x : Base × Rat} {t : Pows} (h : Sorted (x :: t)) : Sorted t := (List.pairwise_cons.mp h).2
theorem sorted_head {x : Base × Rat} {t : Pows} (h : Sorted (x :: t)) : ∀ y ∈ t, x.1 < y.1 := (List.pairwise_cons.mp h).1

theorem canon_nil : Canon [] := ⟨sorted_nil, by simp⟩
theorem canon_tail {x : Base × Rat} {t : Pows} (h : Canon (x :: t)) : Canon t :=
  ⟨sorted_tail h.1, fun e he => h.2 e (List.mem_cons_of_mem _ he)⟩

/-- a base below every base of a sorted list does not occur -/
theorem get_of_lt_all {t : Pows} {k : Base} (h : ∀ y ∈ t, k < y.1) : get t k = 0 := by
  induction t with
  | nil => rfl
  | cons x t ih =>
    obtain ⟨b, p⟩ := x
    rw [get_cons]
    have hb : k < b := h (b, p) (List.mem_cons_self ..)
    rw [if_neg (fun e => str_lt_ne hb e.symm)]
    exact ih (fun y hy => h y (List.mem_cons_of_mem _ hy))

theorem get_of_not_mem {t : Pows} {k : Base} (h : k ∉ keys t) : get t k = 0 := by
  induction t with
  | nil => rfl
  | cons x t ih =>
    obtain ⟨b, p⟩ := x
    simp only [keys, List.map_cons, List.mem_cons, not_or] at h
    rw [get_cons, if_neg (fun e => h.1 e.symm)]
    exact ih h.2

theorem mem_keys_of_get_ne {t : Pows} {k : Base} (h : get t k ≠ 0) : k ∈ keys t := by
  apply Classical.byContradiction; intro hn; exact h (get_of_not_mem hn)

/-- in a canonical list every listed base has its listed (non-zero) exponent -/
theorem get_of_mem {t : Pows} (hs : Sorted t) {e : Base × Rat} (he : e ∈ t) : get t e.1 = e.2 := by
  induction t with
  | nil => cases he
  | cons x t ih =>
    obtain ⟨b, p⟩ := x
    rw [get_cons]
    rcases List.mem_cons.mp he with rfl | h
    · simp
    · have : b < e.1 := sorted_head hs e h
      rw [if_neg (str_lt_ne this)]
      exact ih (sorted_tail hs) h

theorem sorted_cons {x : Base × Rat} {t : Pows} (h1 : ∀ y ∈ t, x.1 < y.1) (h2 : Sorted t) : Sorted (x :: t) :=
  List.pairwise_cons.mpr ⟨h1, h2⟩

theorem mem_add1 {k : Base} {v : Rat} {d : Pows} {y : Base × Rat} (h : y ∈ add1 k v d) : y.1 = k ∨ y ∈ d := by
  induction d with
  | nil =>
    simp only [add1] at h
    split at h
    · cases h
    · simp at h; left; rw [h]
  | cons x t ih =>
    obtain ⟨b, p⟩ := x
    simp only [add1] at h
    split at h
    · split at h
      · right; exact h
      · rcases List.mem_cons.mp h with rfl | h
        · left; rfl
        · right; exact h
    · split at h
      · split at h
        · right; exact List.mem_cons_of_mem _ h
        · rcases List.mem_cons.mp h with rfl | h
          · left; rename_i hk _; exact hk.symm
          · right; exact List.mem_cons_of_mem _ h
      · rcases List.mem_cons.mp h with rfl | h
        · right; exact List.mem_cons_self ..
        · rcases ih h with h | h
          · left; exact h
          · right; exact List.mem_cons_of_mem _ h

theorem canon_add1 (k : Base) (v : Rat) {d : Pows} (h : Canon d) : Canon (add1 k v d) := by
  induction d with
  | nil =>
    simp only [add1]
    split
    · exact canon_nil
    · rename_i hv
      exact ⟨List.pairwise_singleton _ _, by simpa using hv⟩
  | cons x t ih =>
    obtain ⟨b, p⟩ := x
    have ht := canon_tail h
    simp only [add1]
    split
    · rename_i hkb
      split
      · exact h
      · rename_i hv
        refine ⟨sorted_cons ?_ h.1, ?_⟩
        · intro y hy
          rcases List.mem_cons.mp hy with rfl | hy
          · exact hkb
          · exact String.lt_trans hkb (sorted_head h.1 y hy)
        · intro e he
          rcases List.mem_cons.mp he with rfl | he
          · exact hv
          · exact h.2 e he
    · rename_i hkb
      split
      · rename_i hk
        split
        · exact ht
        · rename_i hv
          refine ⟨sorted_cons (x := (b, p + v)) (fun y hy => sorted_head h.1 y hy) ht.1, ?_⟩
          intro e he
          rcases List.mem_cons.mp he with rfl | he
          · exact hv
          · exact ht.2 e he
      · rename_i hk
        have hbk : b < k := str_tri hkb hk
        have ih' := ih ht
        refine ⟨sorted_cons ?_ ih'.1, ?_⟩
        · intro y hy
          rcases mem_add1 hy with h1 | h1
          · show b < y.1; rw [h1]; exact hbk
          · exact sorted_head h.1 y h1
        · intro e he
          rcases List.mem_cons.mp he with rfl | he
          · exact h.2 _ (List.mem_cons_self ..)
          · exact ih'.2 e he

theorem get_add1 (k : Base) (v : Rat) {d : Pows} (h : Sorted d) (j : Base) :
    get (add1 k v d) j = get d j + (if j = k then v else 0) := by
  induction d with
  | nil =>
    simp only [add1]
    split
    · rename_i hv; subst hv; simp
    · rw [get_cons]
      by_cases hjk : k = j
      · subst hjk; simp
      · rw [if_neg hjk, if_neg (fun e => hjk e.symm)]; simp
  | cons x t ih =>
    obtain ⟨b, p⟩ := x
    have ht := sorted_tail h
    simp only [add1]
    split
    · rename_i hkb
      have hk0 : get ((b, p) :: t) k = 0 := by
        apply get_of_lt_all
        intro y hy
        rcases List.mem_cons.mp hy with rfl | hy
        · exact hkb
        · exact String.lt_trans hkb (sorted_head h y hy)
      split
      · rename_i hv; subst hv; simp
      · rw [get_cons (b := k)]
        by_cases hjk : k = j
        · subst hjk; rw [if_pos rfl, hk0]; simp
        · rw [if_neg hjk, if_neg (fun e => hjk e.symm)]; simp
    · rename_i hkb
      split
      · rename_i hk
        subst hk
        have hk0 : get t k = 0 := get_of_lt_all (sorted_head h)
        split
        · rename_i hv
          rw [get_cons]
          by_cases hjk : k = j
          · subst hjk; rw [if_pos rfl, if_pos rfl, hk0]; exact hv.symm
          · rw [if_neg hjk, if_neg (fun e => hjk e.symm)]; simp
        · rw [get_cons, get_cons]
          by_cases hjk : k = j
          · subst hjk; simp
          · rw [if_neg hjk, if_neg hjk, if_neg (fun e => hjk e.symm)]; simp
      · rename_i hk
        rw [get_cons, get_cons, ih ht]
        by_cases hbj : b = j
        · subst hbj
          rw [if_pos rfl, if_pos rfl, if_neg (fun e => hk e.symm)]; simp
        · rw [if_neg hbj, if_neg hbj]

/-- sum of the exponents listed for `k` -/
def getSum (l : Pows) (k : Base) : Rat := (l.map fun e => if e.1 = k then e.2 else 0).sum

theorem canon_foldl_add1 (l : Pows) {acc : Pows} (h : Canon acc) : Canon (l.foldl (fun acc e => add1 e.1 e.2 acc) acc) := by
  induction l generalizing acc with
  | nil => exact h
  | cons e l ih => exact ih (canon_add1 _ _ h)

theorem get_foldl_add1 (l : Pows) {acc : Pows} (h : Canon acc) (k : Base) :
    get (l.foldl (fun acc e => add1 e.1 e.2 acc) acc) k = get acc k + getSum l k := by
  induction l generalizing acc with
  | nil => simp [getSum]
  | cons e l ih =>
    rw [List.foldl_cons, ih (canon_add1 _ _ h), get_add1 _ _ h.1]
    simp only [getSum, List.map_cons, List.sum_cons]
    by_cases hk : e.1 = k
    · subst hk; simp [Rat.add_assoc]
    · rw [if_neg (fun x => hk x.symm), if_neg hk]; simp

theorem canon_fromPowers (l : Pows) : Canon (fromPowers l) := canon_foldl_add1 l canon_nil

theorem get_fromPowers (l : Pows) (k : Base) : get (fromPowers l) k = getSum l k := by
  unfold fromPowers; rw [get_foldl_add1 l canon_nil]; simp

/-- canonical lists are determined by their exponents -/
theorem ext {a b : Pows} (ha : Canon a) (hb : Canon b) (h : ∀ k, get a k = get b k) : a = b := by
  induction a generalizing b with
  | nil =>
    cases b with
    | nil => rfl
    | cons y t =>
      exfalso
      have := h y.1
      rw [get_nil, get_of_mem hb.1 (List.mem_cons_self ..)] at this
      exact hb.2 y (List.mem_cons_self ..) this.symm
  | cons x s ih =>
    cases b with
    | nil =>
      exfalso
      have := h x.1
      rw [get_nil, get_of_mem ha.1 (List.mem_cons_self ..)] at this
      exact ha.2 x (List.mem_cons_self ..) this
    | cons y t =>
      obtain ⟨b1, p1⟩ := x
      obtain ⟨b2, p2⟩ := y
      have hp1 : p1 ≠ 0 := ha.2 (b1, p1) (List.mem_cons_self ..)
      have hp2 : p2 ≠ 0 := hb.2 (b2, p2) (List.mem_cons_self ..)
      have hall1 : ∀ z ∈ (b1, p1) :: s, b1 = z.1 ∨ b1 < z.1 := by
        intro z hz; rcases List.mem_cons.mp hz with rfl | hz
        · left; rfl
        · right; exact sorted_head ha.1 z hz
      have hall2 : ∀ z ∈ (b2, p2) :: t, b2 = z.1 ∨ b2 < z.1 := by
        intro z hz; rcases List.mem_cons.mp hz with rfl | hz
        · left; rfl
        · right; exact sorted_head hb.1 z hz
      have hb12 : b1 = b2 := by
        apply Classical.byContradiction; intro hne
        by_cases hlt : b1 < b2
        · -- b1 does not occur in b
          have h0 : get ((b2, p2) :: t) b1 = 0 := by
            apply get_of_lt_all; intro z hz
            rcases hall2 z hz with e | l
            · rw [← e]; exact hlt
            · exact String.lt_trans hlt l
          have := h b1
          rw [h0, get_cons, if_pos rfl] at this
          exact hp1 this
        · have hgt : b2 < b1 := str_tri hlt hne
          have h0 : get ((b1, p1) :: s) b2 = 0 := by
            apply get_of_lt_all; intro z hz
            rcases hall1 z hz with e | l
            · rw [← e]; exact hgt
            · exact String.lt_trans hgt l
          have := h b2
          rw [h0, get_cons, if_pos rfl] at this
          exact hp2 this.symm
      subst hb12
      have hp : p1 = p2 := by
        have := h b1; rw [get_cons, get_cons, if_pos rfl, if_pos rfl] at this; exact this
      subst hp
      have hst : s = t := by
        apply ih (canon_tail ha) (canon_tail hb)
        intro k
        by_cases hk : b1 = k
        · subst hk
          rw [get_of_lt_all (sorted_head ha.1), get_of_lt_all (sorted_head hb.1)]
        · have := h k
          rw [get_cons, get_cons, if_neg hk, if_neg hk] at this
          exact this
      rw [hst]

theorem keys_nodup {d : Pows} (h : Sorted d) : (keys d).Nodup := by
  unfold keys Sorted at *
  rw [List.nodup_iff_pairwise_ne, List.pairwise_map]
  exact h.imp (fun hlt => str_lt_ne hlt)

/-- `getSum` over a list with distinct first components is a lookup -/
theorem getSum_map_of_nodup (ks : List Base) (f : Base → Rat) (hn : ks.Nodup) (k : Base) :
    getSum (ks.map fun x => (x, f x)) k = if k ∈ ks then f k else 0 := by
  induction ks with
  | nil => simp [getSum]
  | cons x t ih =>
    rw [List.nodup_cons] at hn
    have ih' := ih hn.2
    simp only [getSum, List.map_cons, List.sum_cons, List.map_map] at ih' ⊢
    by_cases hx : x = k
    · subst hx
      have : (List.map ((fun e : Base × Rat => if e.fst = x then e.snd else 0) ∘ fun x => (x, f x)) t).sum = 0 := by
        rw [ih', if_neg hn.1]
      simp [this]
    · rw [if_neg hx, ih']
      by_cases hkt : k ∈ t
      · rw [if_pos hkt, if_pos (List.mem_cons_of_mem _ hkt)]; simp
      · have : k ∉ x :: t := by
          intro h; rcases List.mem_cons.mp h with e | e
          · exact hx e.symm
          · exact hkt e
        rw [if_neg hkt, if_neg this]; simp

theorem unionKeys_nodup {a b : Pows} (ha : Sorted a) (hb : Sorted b) : (unionKeys a b).Nodup := by
  unfold unionKeys
  rw [List.nodup_append]
  refine ⟨keys_nodup ha, (keys_nodup hb).filter _, ?_⟩
  intro x hx y hy
  rw [List.mem_filter] at hy
  intro e; subst e
  simp at hy
  exact hy.2 hx

theorem mem_unionKeys {a b : Pows} {k : Base} : k ∈ unionKeys a b ↔ k ∈ keys a ∨ k ∈ keys b := by
  unfold unionKeys
  rw [List.mem_append, List.mem_filter]
  constructor
  · rintro (h | h)
    · left; exact h
    · right; exact h.1
  · rintro (h | h)
    · left; exact h
    · by_cases hk : k ∈ keys a
      · left; exact hk
      · right; exact ⟨h, by simpa using hk⟩

theorem canon_binop (op : Rat → Rat → Rat) (a b : Pows) : Canon (binop op a b) := canon_fromPowers _

theorem get_binop (op : Rat → Rat → Rat) (h0 : op 0 0 = 0) {a b : Pows} (ha : Sorted a) (hb : Sorted b) (k : Base) :
    get (binop op a b) k = op (get a k) (get b k) := by
  unfold binop
  rw [get_fromPowers, getSum_map_of_nodup _ (fun k => op (get a k) (get b k)) (unionKeys_nodup ha hb)]
  split
  · rfl
  · rename_i hk
    rw [mem_unionKeys, not_or] at hk
    rw [get_of_not_mem hk.1, get_of_not_mem hk.2, h0]

theorem getSum_map_scale {d : Pows} (hs : Sorted d) (q : Rat) (k : Base) :
    getSum (d.map fun e => (e.1, e.2 * q)) k = get d k * q := by
  induction d with
  | nil => simp [getSum]
  | cons x t ih =>
    obtain ⟨b, p⟩ := x
    have ih' := ih (sorted_tail hs)
    simp only [getSum, List.map_cons, List.sum_cons, List.map_map] at ih' ⊢
    rw [get_cons]
    by_cases hb : b = k
    · subst hb
      have h0 : get t b = 0 := get_of_lt_all (sorted_head hs)
      rw [if_pos rfl, if_pos rfl, ih', h0]; simp
    · rw [if_neg hb, if_neg hb, ih']; simp

theorem canon_pow (d : Pows) (q : Rat) : Canon (pow d q) := canon_fromPowers _

theorem get_pow {d : Pows} (hs : Sorted d) (q : Rat) (k : Base) : get (pow d q) k = get d k * q := by
  unfold pow; rw [get_fromPowers, getSum_map_scale hs]

theorem get_mul {a b : Pows} (ha : Sorted a) (hb : Sorted b) (k : Base) : get (mul a b) k = get a k + get b k :=
  get_binop _ (by simp) ha hb k

theorem get_div {a b : Pows} (ha : Sorted a) (hb : Sorted b) (k : Base) : get (div a b) k = get a k - get b k :=
  get_binop _ (by simp) ha hb k

theorem canon_mul (a b : Pows) : Canon (mul a b) := canon_binop _ a b
theorem canon_div (a b : Pows) : Canon (div a b) := canon_binop _ a b

/-- `from_powers` of a canonical list is the list itself -/
theorem fromPowers_canon {d : Pows} (h : Canon d) : fromPowers d = d := by
  apply ext (canon_fromPowers d) h
  intro k
  rw [get_fromPowers]
  have := getSum_map_scale h.1 1 k
  simp only [Rat.mul_one] at this
  have hid : (d.map fun e : Base × Rat => (e.1, e.2)) = d := by simp
  rw [hid] at this
  exact this

theorem canonB_iff (d : Pows) : canonB d = true ↔ Canon d := by
  unfold canonB Canon
  have hs : ∀ d : Pows, sortedB d = true ↔ Sorted d := by
    intro d
    induction d with
    | nil => simp [sortedB, Sorted]
    | cons x t ih =>
      cases t with
      | nil => simp [sortedB, Sorted]
      | cons y t =>
        simp only [sortedB, Bool.and_eq_true, decide_eq_true_eq, ih]
        constructor
        · rintro ⟨h1, h2⟩
          refine sorted_cons ?_ h2
          intro z hz
          rcases List.mem_cons.mp hz with rfl | hz
          · exact h1
          · exact String.lt_trans h1 (sorted_head h2 z hz)
        · intro h
          exact ⟨sorted_head h y (List.mem_cons_self ..), sorted_tail h⟩
  rw [Bool.and_eq_true, hs, List.all_eq_true]
  simp

end NutilsVerif.C20
