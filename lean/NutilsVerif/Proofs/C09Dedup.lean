import NutilsVerif.Proofs.C09Quad
import Mathlib.Data.List.Nodup
/-!
# C09 — `ConcatPoints` with duplicates keeps every weighted sum
-/
namespace NutilsVerif.C09

variable {α : Type} [CommSemiring α] {P : Type}

/-- the contribution of position `ij` to `Σ w g(x)` -/
def termAt (rs : List (Rule P α)) (g : P → α) (ij : Nat × Nat) : α :=
  match entryAt rs ij with
  | some pw => pw.2 * g pw.1
  | none => 0

def valAt (rs : List (Rule P α)) (g : P → α) (ij : Nat × Nat) : α :=
  match entryAt rs ij with
  | some pw => g pw.1
  | none => 0

/-- what `find_duplicates` delivers: groups of valid positions with equal coordinates, no position listed twice -/
structure DupOK (rs : List (Rule P α)) (dups : List (List (Nat × Nat))) : Prop where
  nodup : dups.flatten.Nodup
  inrange : ∀ grp ∈ dups, ∀ ij ∈ grp, ij ∈ positions rs
  samepoint : ∀ grp ∈ dups, ∀ ij ∈ grp, ∀ kl ∈ grp, (entryAt rs ij).map (·.1) = (entryAt rs kl).map (·.1)

omit [CommSemiring α] in
theorem mem_positions (rs : List (Rule P α)) (ij : Nat × Nat) :
    ij ∈ positions rs ↔ ∃ r, rs[ij.1]? = some r ∧ ij.2 < r.length := by
  unfold positions
  simp only [List.mem_flatMap, List.mem_map, List.mem_range]
  constructor
  · rintro ⟨ri, hri, j, hj, rfl⟩
    obtain ⟨r, i⟩ := ri
    have := List.mem_zipIdx hri
    simp at this
    exact ⟨r, by simp [this.2, List.getElem?_eq_getElem this.1], hj⟩
  · rintro ⟨r, hr, hj⟩
    obtain ⟨hi, rfl⟩ := List.getElem?_eq_some_iff.1 hr
    refine ⟨(rs[ij.1], ij.1), ?_, ij.2, hj, rfl⟩
    rw [List.mem_zipIdx_iff_getElem?]
    simp [List.getElem?_eq_getElem hi]

omit [CommSemiring α] in
theorem positions_nodup (rs : List (Rule P α)) : (positions rs).Nodup := by
  unfold positions
  rw [List.nodup_flatMap]
  constructor
  · intro ri _
    exact List.Nodup.map (fun a b h => by simpa using h) List.nodup_range
  · have h2 : (rs.zipIdx.map (·.2)).Nodup := by
      rw [List.zipIdx_map_snd]; exact List.nodup_range' ..
    have hpw : rs.zipIdx.Pairwise (fun a b => a.2 ≠ b.2) := by
      have := h2
      rw [List.Nodup, List.pairwise_map] at this
      exact this
    refine hpw.imp ?_
    intro a b hne
    simp only [Function.onFun, List.disjoint_left, List.mem_map]
    rintro x ⟨j, _, rfl⟩ ⟨k, _, h⟩
    exact hne (by have := congrArg Prod.fst h; simpa using this.symm)

omit [CommSemiring α] in
theorem entryAt_of_mem (rs : List (Rule P α)) (ij : Nat × Nat) (h : ij ∈ positions rs) : ∃ pw, entryAt rs ij = some pw := by
  obtain ⟨r, hr, hj⟩ := (mem_positions rs ij).1 h
  exact ⟨r[ij.2], by simp [entryAt, hr, List.getElem?_eq_getElem hj]⟩

/-! sums over positions -/

theorem sum_ite_single {β : Type} [DecidableEq β] (l : List β) (hl : l.Nodup) (a : β) (ha : a ∈ l) (c : β → α) :
    (l.map fun x => if x = a then c x else 0).sum = c a := by
  induction l with
  | nil => cases ha
  | cons b t ih =>
    rw [List.nodup_cons] at hl
    simp only [List.map_cons, List.sum_cons]
    by_cases hb : b = a
    · subst hb
      have : (t.map fun x => if x = b then c x else 0).sum = 0 := by
        apply List.sum_eq_zero
        intro y hy
        obtain ⟨x, hx, rfl⟩ := List.mem_map.1 hy
        rw [if_neg]; intro h; subst h; exact hl.1 hx
      simp [this]
    · have ha' : a ∈ t := by
        rcases List.mem_cons.1 ha with h | h
        · exact absurd h.symm hb
        · exact h
      rw [if_neg hb, ih hl.2 ha', zero_add]

theorem sum_map_ite_filter {β : Type} (l : List β) (b : β → Bool) (c : β → α) :
    (l.map fun x => if b x then c x else 0).sum = ((l.filter b).map c).sum := by
  induction l with
  | nil => simp
  | cons a t ih =>
    simp only [List.map_cons, List.sum_cons, List.filter_cons, ih]
    cases b a <;> simp

theorem sum_ite_mem {β : Type} (l : List β) (hl : l.Nodup) (m : List β) (hm : m.Nodup) (hsub : ∀ x ∈ m, x ∈ l)
    (b : β → Bool) (hb : ∀ x, b x = true ↔ x ∈ m) (c : β → α) :
    (l.map fun x => if b x then c x else 0).sum = (m.map c).sum := by
  rw [sum_map_ite_filter]
  apply List.Perm.sum_eq
  apply List.Perm.map
  rw [List.perm_ext_iff_of_nodup (hl.filter _) hm]
  intro x
  rw [List.mem_filter, hb]
  exact ⟨fun h => h.2, fun h => ⟨hsub x h, h⟩⟩

theorem sum_swap {β γ : Type} (l1 : List β) (l2 : List γ) (F : β → γ → α) :
    (l1.map fun x => (l2.map fun y => F x y).sum).sum = (l2.map fun y => (l1.map fun x => F x y).sum).sum := by
  induction l1 with
  | nil => simp
  | cons a t ih =>
    simp only [List.map_cons, List.sum_cons, ih, ← List.sum_map_add]

theorem sum_map_mul_right' {β : Type} (l : List β) (c : α) (f : β → α) :
    (l.map fun x => f x * c).sum = (l.map f).sum * c := by
  induction l with
  | nil => simp
  | cons a t ih => simp only [List.map_cons, List.sum_cons, ih]; ring

/-! quadrature as a sum over positions -/

theorem quad_filterMap {β : Type} (l : List β) (F : β → Option (P × α)) (g : P → α) :
    quad (l.filterMap F) g = (l.map fun x => match F x with | some pw => pw.2 * g pw.1 | none => 0).sum := by
  induction l with
  | nil => simp [quad]
  | cons a t ih =>
    rw [List.filterMap_cons]
    cases h : F a with
    | none => simp [ih, h]
    | some pw => simp [quad_cons, ih, h]

omit [CommSemiring α] in
theorem map_range_getElem' {β γ : Type} (l : List β) (f : β → γ) (d : γ) :
    (List.range l.length).map (fun j => match l[j]? with | some x => f x | none => d) = l.map f := by
  apply List.ext_getElem
  · simp
  · intro i h1 h2
    simp at h1
    simp [List.getElem?_eq_getElem h1]

theorem sum_positions (rs : List (Rule P α)) (g : P → α) :
    ((positions rs).map (termAt rs g)).sum = quad (concat rs) g := by
  rw [quad_concat]
  unfold positions
  rw [List.map_flatMap, List.flatMap_def, List.sum_flatten, List.map_map]
  have : rs.map (fun r => quad r g) = rs.zipIdx.map (fun ri => quad ri.1 g) := by
    conv_lhs => rw [← List.zipIdx_map_fst (l := rs) (i := 0)]
    rw [List.map_map]; rfl
  rw [this]
  congr 1
  apply List.map_congr_left
  intro ri hri
  obtain ⟨r, i⟩ := ri
  have hm := List.mem_zipIdx hri
  simp at hm
  have hr : rs[i]? = some r := by simp [hm.2, List.getElem?_eq_getElem hm.1]
  simp only [Function.comp, List.map_map]
  unfold quad
  rw [← map_range_getElem' r (fun pw => pw.2 * g pw.1) 0]
  congr 1
  apply List.map_congr_left
  intro j _
  simp only [Function.comp, termAt, entryAt, hr, Option.bind_some]
  cases r[j]? <;> rfl

/-! the duplicate groups -/

omit [CommSemiring α] in
theorem dupMasked_iff (dups : List (List (Nat × Nat))) (ij : Nat × Nat) :
    dupMasked dups ij = true ↔ ij ∈ (dups.map List.tail).flatten := by
  simp [dupMasked, List.mem_flatten]

omit [CommSemiring α] in
theorem heads_tails_perm (dups : List (List (Nat × Nat))) :
    (dups.filterMap List.head? ++ (dups.map List.tail).flatten).Perm dups.flatten := by
  induction dups with
  | nil => simp
  | cons g rest ih =>
    cases g with
    | nil =>
      simp only [List.filterMap_cons, List.head?_nil, List.map_cons, List.tail_nil, List.flatten_cons, List.nil_append]
      exact ih
    | cons h t =>
      simp only [List.filterMap_cons, List.head?_cons, List.map_cons, List.tail_cons, List.flatten_cons, List.cons_append]
      refine List.Perm.cons h ?_
      have : (List.filterMap List.head? rest ++ (t ++ (List.map List.tail rest).flatten)).Perm
          (t ++ (List.filterMap List.head? rest ++ (List.map List.tail rest).flatten)) := by
        rw [← List.append_assoc, ← List.append_assoc]
        exact List.Perm.append_right _ List.perm_append_comm
      exact this.trans (List.Perm.append_left t ih)

/-- **`ConcatPoints` with duplicates**: merging points that coincide (first of a group keeps the position and receives the
weights of the others) changes no weighted sum `Σ w g(x)`, in particular not the total weight. -/
theorem quad_concatDedup (rs : List (Rule P α)) (dups : List (List (Nat × Nat))) (h : DupOK rs dups) (g : P → α) :
    quad (concatDedup rs dups) g = quad (concat rs) g := by
  set pos := positions rs with hpos
  set M := (dups.map List.tail).flatten with hM
  have hnd := (heads_tails_perm dups).nodup_iff.2 h.nodup
  rw [List.nodup_append] at hnd
  obtain ⟨_, hMnd, hdisj⟩ := hnd
  have hMsub : ∀ x ∈ M, x ∈ pos := by
    intro x hx
    simp only [hM, List.mem_flatten, List.mem_map] at hx
    obtain ⟨l, ⟨grp, hg, rfl⟩, hxl⟩ := hx
    exact h.inrange grp hg x (List.mem_of_mem_tail hxl)
  -- the deduplicated rule as a sum over positions
  have hD : quad (concatDedup rs dups) g =
      (pos.map fun ij => (if dupMasked dups ij then 0 else termAt rs g ij) + (if dupMasked dups ij then 0 else dupExtra rs dups ij * valAt rs g ij)).sum := by
    unfold concatDedup
    rw [quad_filterMap]
    congr 1
    apply List.map_congr_left
    intro ij hij
    obtain ⟨pw, hpw⟩ := entryAt_of_mem rs ij hij
    cases hb : dupMasked dups ij with
    | true => simp
    | false =>
      simp only [Bool.false_eq_true, if_false, hpw, Option.map_some, termAt, valAt]
      ring
  rw [hD, List.sum_map_add, ← sum_positions rs g]
  -- Σ_pos A = Σ_pos [∉M] A + Σ_pos [∈M] A
  have hsplit : (pos.map (termAt rs g)).sum =
      (pos.map fun ij => if dupMasked dups ij then 0 else termAt rs g ij).sum + (pos.map fun ij => if dupMasked dups ij then termAt rs g ij else 0).sum := by
    rw [← List.sum_map_add]
    congr 1
    apply List.map_congr_left
    intro ij _
    cases dupMasked dups ij <;> simp
  rw [hsplit]
  congr 1
  rw [sum_ite_mem pos (positions_nodup rs) M hMnd hMsub (dupMasked dups) (dupMasked_iff dups) (termAt rs g)]
  -- the extra weights: swap the sums over positions and groups
  have hE : (pos.map fun ij => if dupMasked dups ij then 0 else dupExtra rs dups ij * valAt rs g ij).sum =
      (dups.map fun grp => (pos.map fun ij => if dupMasked dups ij then 0 else
        (if grp.head? = some ij then (grp.tail.map (weightOf rs)).sum else 0) * valAt rs g ij).sum).sum := by
    rw [← sum_swap]
    congr 1
    apply List.map_congr_left
    intro ij _
    cases dupMasked dups ij with
    | true => simp
    | false =>
      simp only [Bool.false_eq_true, if_false, dupExtra]
      rw [sum_map_mul_right']
  rw [hE, hM, List.map_flatten, List.sum_flatten, List.map_map, List.map_map]
  congr 1
  apply List.map_congr_left
  intro grp hgrp
  simp only [Function.comp]
  cases grp with
  | nil => simp
  | cons hd t =>
    have hhd_pos : hd ∈ pos := h.inrange _ hgrp hd (by simp)
    have hhd_notM : hd ∉ M := by
      intro hm
      have : hd ∈ dups.filterMap List.head? := List.mem_filterMap.2 ⟨hd :: t, hgrp, rfl⟩
      exact hdisj hd this hd hm rfl
    have hhd_unmasked : dupMasked dups hd = false := by
      cases hb : dupMasked dups hd with
      | false => rfl
      | true => exact absurd ((dupMasked_iff dups hd).1 hb) hhd_notM
    have hsingle : (pos.map fun ij => if dupMasked dups ij then 0 else
        (if (hd :: t).head? = some ij then ((hd :: t).tail.map (weightOf rs)).sum else 0) * valAt rs g ij) =
        pos.map fun ij => if ij = hd then (t.map (weightOf rs)).sum * valAt rs g ij else 0 := by
      apply List.map_congr_left
      intro ij _
      by_cases he : ij = hd
      · subst he; simp [hhd_unmasked]
      · have : ¬ (hd = ij) := fun h' => he h'.symm
        simp [he, this]
    rw [hsingle, sum_ite_single pos (positions_nodup rs) hd hhd_pos, ← sum_map_mul_right']
    congr 1
    apply List.map_congr_left
    intro kl hkl
    have hkl_pos : kl ∈ pos := h.inrange _ hgrp kl (List.mem_cons_of_mem _ hkl)
    obtain ⟨pw, hpw⟩ := entryAt_of_mem rs kl hkl_pos
    obtain ⟨pw', hpw'⟩ := entryAt_of_mem rs hd hhd_pos
    have hsame := h.samepoint _ hgrp hd (by simp) kl (List.mem_cons_of_mem _ hkl)
    rw [hpw, hpw'] at hsame
    simp only [Option.map_some, Option.some.injEq] at hsame
    simp [weightOf, valAt, termAt, hpw, hpw', hsame]

/-- in particular the total weight (the volume) is kept -/
theorem totalWeight_concatDedup (rs : List (Rule P α)) (dups : List (List (Nat × Nat))) (h : DupOK rs dups) :
    totalWeight (concatDedup rs dups) = totalWeight (concat rs) := by
  have := quad_concatDedup rs dups h (fun _ => (1 : α))
  rwa [quad_one, quad_one] at this

end NutilsVerif.C09
