import NutilsVerif.Model.C05
import NutilsVerif.Proofs.TensorLaws
/-!
# C05 helper lemmas: the additive meaning `scatterSum` and the checkers' `lookup`  (no Mathlib)
-/
namespace NutilsVerif.C05
open NutilsVerif

section
variable {α : Type} {ι : Type} [BEq ι] [LawfulBEq ι]

omit [LawfulBEq ι] in
theorem scatterSum_nil (add : α → α → α) (zero : α) (values : List α) (idx : ι) :
    scatterSum add zero ([] : List ι) values idx = zero := by simp [scatterSum]

/-- at most one listed position equals `idx` when the positions are pairwise distinct -/
theorem filter_key_le_one {β : Type} (l : List (ι × β)) (idx : ι) (hn : (l.map (·.1)).Nodup) :
    (l.filter (·.1 == idx)).length ≤ 1 := by
  induction l with
  | nil => simp
  | cons a t ih =>
    rw [List.map_cons, List.nodup_cons] at hn
    rw [List.filter_cons]
    split
    · rename_i ha
      have : t.filter (·.1 == idx) = [] := by
        rw [List.filter_eq_nil_iff]
        intro x hx hpx
        apply hn.1
        have h1 : a.1 = idx := by simpa using ha
        have h2 : x.1 = idx := by simpa using hpx
        rw [h1, ← h2]
        exact List.mem_map_of_mem hx
      simp [this]
    · exact ih hn.2

/-- for pairwise distinct positions the additive meaning is the listed value, or zero: no value is lost or
counted twice -/
theorem scatterSum_eq_lookup (add : α → α → α) (zero : α) (hz : ∀ a, add zero a = a) (indices : List ι)
    (values : List α) (idx : ι) (hlen : indices.length = values.length) (hn : indices.Nodup) :
    scatterSum add zero indices values idx = lookup zero indices values idx := by
  have hmap : (indices.zip values).map (·.1) = indices := List.map_fst_zip (Nat.le_of_eq hlen)
  have hle := filter_key_le_one (indices.zip values) idx (by rw [hmap]; exact hn)
  unfold scatterSum lookup
  rw [← List.head?_filter]
  generalize (indices.zip values).filter (·.1 == idx) = L at hle
  match L, hle with
  | [], _ => simp
  | [p], _ => simp [hz]
  | _ :: _ :: _, h => simp at h

theorem lookup_of_not_mem (zero : α) (indices : List ι) (values : List α) (idx : ι) (h : idx ∉ indices) :
    lookup zero indices values idx = zero := by
  unfold lookup
  have : (indices.zip values).find? (·.1 == idx) = none := by
    rw [List.find?_eq_none]
    intro x hx hp
    have h1 : x.1 = idx := by simpa using hp
    exact h (h1 ▸ (List.of_mem_zip hx).1)
  rw [this]

/-- re-indexing through a map that is injective on the relevant positions does not change the meaning -/
theorem scatterSum_map_inj {κ : Type} [BEq κ] [LawfulBEq κ] (add : α → α → α) (zero : α) (g : ι → κ)
    (indices : List ι) (values : List α) (idx : ι) (hinj : ∀ t ∈ indices, g t = g idx → t = idx) :
    scatterSum add zero (indices.map g) values (g idx) = scatterSum add zero indices values idx := by
  unfold scatterSum
  generalize zero = acc
  induction indices generalizing values acc with
  | nil => simp
  | cons t ts ih =>
    cases values with
    | nil => simp
    | cons v vs =>
      have hts : ∀ t' ∈ ts, g t' = g idx → t' = idx := fun t' h => hinj t' (List.mem_cons_of_mem _ h)
      simp only [List.map_cons, List.zip_cons_cons, List.filter_cons]
      by_cases h : t = idx
      · subst h
        simp only [BEq.rfl, if_true, List.foldl_cons]
        exact ih vs hts _
      · have hg : g t ≠ g idx := fun hg => h (hinj t (List.mem_cons_self ..) hg)
        simp only [beq_iff_eq, h, hg, if_false]
        exact ih vs hts _

omit [LawfulBEq ι] in
/-- the meaning only depends on which listed positions equal `idx`: two index lists with the same
"equals `idx`" pattern give the same sum (no algebraic law needed: the summation order is the same) -/
theorem scatterSum_congr_keys {κ : Type} [BEq κ] [LawfulBEq κ] (add : α → α → α) (zero : α)
    (ks : List ι) (ls : List κ) (values : List α) (i : ι) (j : κ) (hlen : ks.length = ls.length)
    (h : ∀ n (h₁ : n < ks.length) (h₂ : n < ls.length), (ks[n] == i) = (ls[n] == j)) :
    scatterSum add zero ks values i = scatterSum add zero ls values j := by
  unfold scatterSum
  generalize zero = acc
  induction ks generalizing ls values acc with
  | nil =>
    cases ls with
    | nil => rfl
    | cons _ _ => simp at hlen
  | cons k ks ih =>
    cases ls with
    | nil => simp at hlen
    | cons l ls =>
      cases values with
      | nil => simp
      | cons v vs =>
        have h0 := h 0 (by simp) (by simp)
        simp only [List.getElem_cons_zero] at h0
        have hrest : ∀ n (h₁ : n < ks.length) (h₂ : n < ls.length), (ks[n] == i) = (ls[n] == j) := by
          intro n h₁ h₂
          have := h (n+1) (by simpa using h₁) (by simpa using h₂)
          simpa using this
        simp only [List.zip_cons_cons, List.filter_cons, h0]
        split
        · simp only [List.foldl_cons]; exact ih ls vs (by simpa using hlen) hrest _
        · exact ih ls vs (by simpa using hlen) hrest _

end

section monoid
variable {α : Type} {ι : Type} [BEq ι] {add : α → α → α} {zero : α}

/-- meaning of concatenated chunks = sum of the meanings of the chunks (what makes `Array.assparse` free to
concatenate the chunks of `_assparse`, and `Add._assparse` to chain the chunks of its terms) -/
theorem scatterSum_append (h : IsCommMonoid add zero) (i₁ i₂ : List ι) (v₁ v₂ : List α) (idx : ι)
    (hlen : i₁.length = v₁.length) :
    scatterSum add zero (i₁ ++ i₂) (v₁ ++ v₂) idx =
      add (scatterSum add zero i₁ v₁ idx) (scatterSum add zero i₂ v₂ idx) := by
  unfold scatterSum
  rw [List.zip_append hlen, List.filter_append, List.foldl_append]
  exact foldl_add_init h (fun p : ι × α => p.2) _ _

/-- the order of the chunks is irrelevant -/
theorem scatterSum_append_comm (h : IsCommMonoid add zero) (i₁ i₂ : List ι) (v₁ v₂ : List α) (idx : ι)
    (h₁ : i₁.length = v₁.length) (h₂ : i₂.length = v₂.length) :
    scatterSum add zero (i₁ ++ i₂) (v₁ ++ v₂) idx = scatterSum add zero (i₂ ++ i₁) (v₂ ++ v₁) idx := by
  rw [scatterSum_append h _ _ _ _ _ h₁, scatterSum_append h _ _ _ _ _ h₂, h.comm]

end monoid

end NutilsVerif.C05
