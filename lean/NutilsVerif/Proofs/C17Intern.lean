import NutilsVerif.Model.C17.Intern
/-!
# C17 — invariants of the intern table
-/
namespace NutilsVerif.C17

variable {K : Type} [DecidableEq K]

structure IInv (s : IState K) : Prop where
  fresh : ∀ o ∈ s.objs, o.1 < s.next
  tab_iff : ∀ k i, (k, i) ∈ s.table ↔ (i, k) ∈ s.objs
  keys_nodup : (s.table.map (·.1)).Nodup

theorem lookupKey_none {t : List (K × Nat)} {k : K} (h : lookupKey t k = none) : ∀ e ∈ t, e.1 ≠ k := by
  simp only [lookupKey, Option.map_eq_none_iff, List.find?_eq_none, decide_eq_true_eq] at h
  exact h

theorem lookupKey_some {t : List (K × Nat)} {k : K} {i : Nat} (h : lookupKey t k = some i) : (k, i) ∈ t := by
  simp only [lookupKey, Option.map_eq_some_iff] at h
  obtain ⟨e, he, rfl⟩ := h
  have h1 := List.find?_some he
  have h2 := List.mem_of_find?_eq_some he
  simp only [decide_eq_true_eq] at h1
  rw [← h1]
  exact h2

omit [DecidableEq K] in
theorem nodup_keys_unique {t : List (K × Nat)} (h : (t.map (·.1)).Nodup) {k : K} {i j : Nat}
    (hi : (k, i) ∈ t) (hj : (k, j) ∈ t) : i = j := by
  induction t with
  | nil => simp at hi
  | cons e t ih =>
    simp only [List.map_cons, List.nodup_cons, List.mem_map, not_exists, not_and] at h
    rcases List.mem_cons.mp hi with rfl | hi' <;> rcases List.mem_cons.mp hj with hj' | hj'
    · cases hj'; rfl
    · exact absurd rfl (h.1 (k, j) hj')
    · subst hj'; exact absurd rfl (h.1 (k, i) hi')
    · exact ih h.2 hi' hj'

omit [DecidableEq K] in
theorem IInv.empty : IInv (IState.empty : IState K) := ⟨by simp [IState.empty], by simp [IState.empty], by simp [IState.empty]⟩

theorem IInv.step {s : IState K} (inv : IInv s) (e : IEvent K) : IInv (istep s e).1 := by
  cases e with
  | call k =>
    simp only [istep]
    split
    · exact inv
    · rename_i hnone
      have hk := lookupKey_none hnone
      refine ⟨?_, ?_, ?_⟩
      · intro o ho
        rcases List.mem_cons.mp ho with rfl | ho
        · simp
        · have := inv.fresh o ho
          simp only; omega
      · intro k' i
        simp only [List.mem_cons, Prod.mk.injEq]
        rw [inv.tab_iff]
        constructor
        · rintro (⟨rfl, rfl⟩ | h)
          · exact .inl ⟨rfl, rfl⟩
          · exact .inr h
        · rintro (⟨rfl, rfl⟩ | h)
          · exact .inl ⟨rfl, rfl⟩
          · exact .inr h
      · simp only [List.map_cons, List.nodup_cons, List.mem_map, not_exists, not_and]
        exact ⟨fun e he => hk e he, inv.keys_nodup⟩
  | drop i =>
    simp only [istep]
    refine ⟨?_, ?_, ?_⟩
    · intro o ho
      exact inv.fresh o (List.mem_filter.mp ho).1
    · intro k j
      simp only [List.mem_filter, decide_eq_true_eq, inv.tab_iff]
    · exact (List.filter_sublist.map _).nodup inv.keys_nodup

theorem IInv.run {s : IState K} (inv : IInv s) : ∀ evs : List (IEvent K), IInv (irun s evs) := by
  intro evs
  induction evs generalizing s with
  | nil => exact inv
  | cons e es ih => exact ih (inv.step e)

/-- a `call` with the key of a live object returns that object and allocates nothing -/
theorem call_hit_of_inv {s : IState K} (inv : IInv s) {i : Nat} {k : K} (h : (i, k) ∈ s.objs) :
    istep s (.call k) = (s, some i) := by
  simp only [istep]
  have ht := (inv.tab_iff k i).mpr h
  split
  · rename_i j hj
    rw [nodup_keys_unique inv.keys_nodup ht (lookupKey_some hj)]
  · rename_i hnone
    exact absurd rfl (lookupKey_none hnone _ ht)

/-- whatever a `call` returns is live afterwards, under the requested key -/
theorem call_live {s : IState K} (inv : IInv s) (k : K) :
    ∃ i, (istep s (.call k)).2 = some i ∧ (i, k) ∈ (istep s (.call k)).1.objs := by
  simp only [istep]
  split
  · rename_i j hj
    exact ⟨j, rfl, (inv.tab_iff k j).mp (lookupKey_some hj)⟩
  · exact ⟨s.next, rfl, by simp⟩

def dropsId (i : Nat) : IEvent K → Bool
  | .drop j => i == j
  | _ => false

theorem live_preserved {s : IState K} {i : Nat} {k : K} (h : (i, k) ∈ s.objs) :
    ∀ (e : IEvent K), dropsId i e = false → (i, k) ∈ (istep s e).1.objs := by
  intro e he
  cases e with
  | call k' =>
    simp only [istep]
    split
    · exact h
    · exact List.mem_cons_of_mem _ h
  | drop j =>
    simp only [dropsId, beq_eq_false_iff_ne, ne_eq] at he
    simp only [istep, List.mem_filter, decide_eq_true_eq]
    exact ⟨h, he⟩

theorem live_preserved_run {s : IState K} {i : Nat} {k : K} (h : (i, k) ∈ s.objs) :
    ∀ (evs : List (IEvent K)), evs.all (fun e => !dropsId i e) = true → (i, k) ∈ (irun s evs).objs := by
  intro evs
  induction evs generalizing s with
  | nil => intro _; exact h
  | cons e es ih =>
    intro hall
    simp only [List.all_cons, Bool.and_eq_true, Bool.not_eq_true'] at hall
    exact ih (live_preserved h e hall.1) hall.2

end NutilsVerif.C17
