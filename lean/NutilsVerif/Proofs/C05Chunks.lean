import NutilsVerif.Proofs.C05Index
import NutilsVerif.Proofs.C05Scatter
import NutilsVerif.Proofs.C05Merge
/-!
# C05: chunk transformers of the `_assparse` overrides preserve the denotation  (no Mathlib)

`X._assparse` maps every chunk `(indices…, values)` of its operand to a chunk of `X` by re-indexing.  For the
re-indexings below the accumulated meaning of the new chunk is the tensor operation applied to the accumulated
meaning of the old chunk (`chunks_denote` for these classes):

* `Ravel._assparse`      `(…, i, j) ↦ (…, i*b + j)`
* `Unravel._assparse`    `(…, k) ↦ (…, k / b, k % b)`
* `Diagonalize._assparse` `(…, i) ↦ (…, i, i)`
-/
namespace NutilsVerif.C05
open NutilsVerif Tensor

/-- `Ravel._assparse`: `(*indices[:-2], indices[-2]*shape[-1] + indices[-1])` -/
def ravelTuple (b : Nat) (t : List Nat) : List Nat :=
  t.dropLast.dropLast ++ [t.dropLast.getLastD 0 * b + t.getLastD 0]

/-- `Unravel._assparse`: `(*indices[:-1], *divmod(indices[-1], shape[-1]))` -/
def unravelTuple (b : Nat) (t : List Nat) : List Nat :=
  t.dropLast ++ [t.getLastD 0 / b, t.getLastD 0 % b]

/-- `Diagonalize._assparse`: `(*indices, indices[-1])` -/
def diagTuple (t : List Nat) : List Nat := t ++ [t.getLastD 0]

theorem ravelTuple_snoc2 (b : Nat) (pre : List Nat) (i j : Nat) : ravelTuple b (pre ++ [i, j]) = pre ++ [i * b + j] := by
  have h1 : pre ++ [i, j] = (pre ++ [i]) ++ [j] := by simp
  unfold ravelTuple
  rw [h1, List.dropLast_concat, List.getLastD_concat, List.dropLast_concat, List.getLastD_concat]

theorem unravelTuple_snoc (b : Nat) (pre : List Nat) (k : Nat) : unravelTuple b (pre ++ [k]) = pre ++ [k / b, k % b] := by
  simp [unravelTuple]

theorem diagTuple_snoc (pre : List Nat) (i : Nat) : diagTuple (pre ++ [i]) = pre ++ [i, i] := by
  simp [diagTuple]

theorem append_inj_of_inBox {s : List Nat} {p q x y : List Nat} (hp : inBox s p = true) (hq : inBox s q = true)
    (h : p ++ x = q ++ y) : p = q ∧ x = y :=
  List.append_inj h ((inBox_length hp).trans (inBox_length hq).symm)

section
variable {α : Type} [Inhabited α] (add : α → α → α) (zero : α)

theorem accumulate_shape (shape : List Nat) (tuples : List (List Nat)) (values : List α) :
    (accumulate add zero shape tuples values).shape = shape := rfl

theorem accumulate_get (shape : List Nat) (tuples : List (List Nat)) (values : List α) {idx : List Nat}
    (h : inBox shape idx = true) : (accumulate add zero shape tuples values).get idx = scatterSum add zero tuples values idx :=
  get_ofFn shape _ idx h

/-- **`Ravel._assparse` denotes `Ravel`**: for chunk indices inside the box of `s ++ [a, b]` (any leading axes `s`),
accumulating the ravelled indices gives the ravelled array. -/
theorem ravel_chunk_denotes (s : List Nat) (a b : Nat) (tuples : List (List Nat)) (values : List α)
    (hbox : ∀ t ∈ tuples, inBox (s ++ [a, b]) t = true) :
    accumulate add zero (s ++ [a * b]) (tuples.map (ravelTuple b)) values ≃ₜ
      ravel (accumulate add zero (s ++ [a, b]) tuples values) := by
  have hsh : (accumulate add zero (s ++ [a, b]) tuples values).shape = s ++ [a, b] := rfl
  refine equiv_snoc rfl (shape_ravel hsh) fun pre k hp hk => ?_
  rw [get_ravel hsh hp hk, accumulate_get add zero _ _ _ (inBox_snoc hp hk)]
  obtain ⟨h1, h2, h3⟩ := ravel_unravel_index' hk
  rw [accumulate_get add zero _ _ _ (inBox_snoc2 hp h2 h3)]
  have hg : ravelTuple b (pre ++ [k / b, k % b]) = pre ++ [k] := by rw [ravelTuple_snoc2, h1]
  rw [← hg]
  apply scatterSum_map_inj
  intro t ht hgt
  obtain ⟨p, suf, rfl, hpb, hsuf⟩ := inBox_split (hbox t ht)
  obtain ⟨i, j, rfl, hi, hj⟩ := inBox_pair.1 hsuf
  rw [ravelTuple_snoc2, ravelTuple_snoc2] at hgt
  obtain ⟨hpp, hk'⟩ := append_inj_of_inBox hpb hp hgt
  have hk' : i * b + j = k / b * b + k % b := by simpa using hk'
  rw [h1] at hk'
  obtain ⟨e1, e2⟩ := unravel_ravel_index' (i := i) hj
  subst hk'; subst hpp
  rw [e1, e2]

/-- **`Unravel._assparse` denotes `Unravel`**: for chunk indices inside the box of `s ++ [a*b]`, accumulating the
divmod-split indices gives the unravelled array. -/
theorem unravel_chunk_denotes (s : List Nat) (a b : Nat) (tuples : List (List Nat)) (values : List α)
    (hbox : ∀ t ∈ tuples, inBox (s ++ [a * b]) t = true) :
    accumulate add zero (s ++ [a, b]) (tuples.map (unravelTuple b)) values ≃ₜ
      unravel (accumulate add zero (s ++ [a * b]) tuples values) a b := by
  have hsh : (accumulate add zero (s ++ [a * b]) tuples values).shape = s ++ [a * b] := rfl
  refine equiv_snoc2 rfl (shape_unravel hsh a b) fun pre i j hp hi hj => ?_
  have hk : i * b + j < a * b := by
    calc i * b + j < i * b + b := by omega
      _ = (i + 1) * b := by rw [Nat.add_mul, Nat.one_mul]
      _ ≤ a * b := Nat.mul_le_mul_right _ hi
  rw [get_unravel hsh a b hp hi hj, accumulate_get add zero _ _ _ (inBox_snoc2 hp hi hj),
    accumulate_get add zero _ _ _ (inBox_snoc hp hk)]
  obtain ⟨e1, e2⟩ := unravel_ravel_index' (i := i) hj
  have hg : unravelTuple b (pre ++ [i * b + j]) = pre ++ [i, j] := by rw [unravelTuple_snoc, e1, e2]
  rw [← hg]
  apply scatterSum_map_inj
  intro t ht hgt
  obtain ⟨p, suf, rfl, hpb, hsuf⟩ := inBox_split (hbox t ht)
  obtain ⟨k, rfl, hk'⟩ := inBox_single.1 hsuf
  rw [unravelTuple_snoc, unravelTuple_snoc, e1, e2] at hgt
  obtain ⟨hpp, hk''⟩ := append_inj_of_inBox hpb hp hgt
  have h1 := (ravel_unravel_index' hk').1
  simp only [List.cons.injEq, and_true] at hk''
  subst hpp
  rw [← h1, hk''.1, hk''.2]

/-- **`Diagonalize._assparse` denotes `Diagonalize`**: duplicating the last index accumulates to the array with the
accumulated vector on the diagonal of the last two axes and `zero` elsewhere. -/
theorem diagonalize_chunk_denotes (s : List Nat) (n : Nat) (tuples : List (List Nat)) (values : List α)
    (hbox : ∀ t ∈ tuples, inBox (s ++ [n]) t = true) :
    accumulate add zero (s ++ [n, n]) (tuples.map diagTuple) values ≃ₜ
      diagonalize zero (accumulate add zero (s ++ [n]) tuples values) := by
  have hsh : (accumulate add zero (s ++ [n]) tuples values).shape = s ++ [n] := rfl
  refine equiv_snoc2 rfl (shape_diagonalize zero hsh) fun pre i j hp hi hj => ?_
  rw [get_diagonalize zero hsh hp hi hj, accumulate_get add zero _ _ _ (inBox_snoc2 hp hi hj)]
  by_cases hij : i = j
  · subst hij
    rw [if_pos rfl, accumulate_get add zero _ _ _ (inBox_snoc hp hi), ← diagTuple_snoc]
    apply scatterSum_map_inj
    intro t ht hgt
    obtain ⟨p, suf, rfl, hpb, hsuf⟩ := inBox_split (hbox t ht)
    obtain ⟨k, rfl, _⟩ := inBox_single.1 hsuf
    rw [diagTuple_snoc, diagTuple_snoc] at hgt
    obtain ⟨hpp, hk⟩ := append_inj_of_inBox hpb hp hgt
    simp only [List.cons.injEq, and_true] at hk
    rw [hpp, hk.1]
  · rw [if_neg hij]
    apply scatterSum_not_mem
    intro hm
    obtain ⟨t, ht, hgt⟩ := List.mem_map.1 hm
    obtain ⟨p, suf, rfl, hpb, hsuf⟩ := inBox_split (hbox t ht)
    obtain ⟨k, rfl, _⟩ := inBox_single.1 hsuf
    rw [diagTuple_snoc] at hgt
    obtain ⟨_, hk⟩ := append_inj_of_inBox hpb hp hgt
    simp only [List.cons.injEq, and_true] at hk
    exact hij (hk.1.symm.trans hk.2)

end

end NutilsVerif.C05
