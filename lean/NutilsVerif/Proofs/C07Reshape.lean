import NutilsVerif.Model.C07
import NutilsVerif.Proofs.TensorLaws
import NutilsVerif.Proofs.C07Getitem
import Mathlib.Tactic.Ring
/-!
# C07 — the ravel / unravel / roll plan of `numpy.reshape` denotes the row-major reshape

Invariant of the main loop (`Inv`): with `shape = C ++ A`, `newshape = C ++ B` (`C` the common prefix found by the code),
after the last `i` entries `Fin` of `B` have been produced the current array has shape `C ++ Fin ++ Pend`, where `Pend` is
what is left of `A` (possibly with trailing axes merged), and its entry at `c ++ f ++ p` is the entry of the original at
offset `base c + flatIdx Pend p * shapeSize Fin + flatIdx Fin f`.
-/
namespace NutilsVerif.C07

/-! ## row-major offsets of concatenated multi-indices -/

theorem shapeSize_append (s t : List Nat) : shapeSize (s ++ t) = shapeSize s * shapeSize t := by
  induction s with
  | nil => simp [shapeSize]
  | cons a s ih => simp only [List.cons_append, shapeSize_cons, ih, Nat.mul_assoc]

theorem flatIdx_append (s t i j : List Nat) (h : i.length = s.length) :
    flatIdx (s ++ t) (i ++ j) = flatIdx s i * shapeSize t + flatIdx t j := by
  induction s generalizing i with
  | nil =>
    have : i = [] := List.eq_nil_of_length_eq_zero h
    subst this; simp [flatIdx]
  | cons a s ih =>
    cases i with
    | nil => simp at h
    | cons x i =>
      simp only [List.cons_append, flatIdx, shapeSize_append]
      rw [ih i (by simpa using h)]; ring

theorem flatIdx_single (n k : Nat) : flatIdx [n] [k] = k := by simp [flatIdx, shapeSize]

theorem flatIdx_pair (a b i j : Nat) : flatIdx [a, b] [i, j] = i * b + j := by simp [flatIdx, shapeSize]

theorem flatIdx_nil : flatIdx [] [] = 0 := rfl

theorem shapeSize_single (m : Nat) : shapeSize [m] = m := by simp [shapeSize]

theorem shapeSize_nil : shapeSize [] = 1 := rfl

theorem shapeSize_pos (s : List Nat) (h : ∀ n ∈ s, 0 < n) : 0 < shapeSize s := by
  induction s with
  | nil => simp [shapeSize]
  | cons a s ih =>
    rw [shapeSize_cons]
    exact Nat.mul_pos (h a (by simp)) (ih (fun n hn => h n (by simp [hn])))

theorem all_one_of_shapeSize_one (s : List Nat) (h : ∀ n ∈ s, 0 < n) (h1 : shapeSize s = 1) : ∀ n ∈ s, n = 1 := by
  induction s with
  | nil => simp
  | cons a s ih =>
    rw [shapeSize_cons] at h1
    have ha := h a (by simp)
    have hs := shapeSize_pos s (fun n hn => h n (by simp [hn]))
    have h2 : a = 1 ∧ shapeSize s = 1 := by
      constructor
      · exact Nat.eq_one_of_mul_eq_one_right h1
      · exact Nat.eq_one_of_mul_eq_one_left h1
    intro n hn
    rcases List.mem_cons.mp hn with rfl | hn'
    · exact h2.1
    · exact ih (fun n hn => h n (by simp [hn])) h2.2 n hn'

/-! ## the primitive operations on a shape `S ++ tail` -/

theorem getD_snoc2_fst (S : List Nat) (a b d : Nat) : (S ++ [a, b]).getD S.length d = a := getD_app S a [b] d

theorem getD_snoc2_snd (S : List Nat) (a b d : Nat) : (S ++ [a, b]).getD (S.length + 1) d = b := by
  have := getD_app (S ++ [a]) b [] d
  simp at this; simp

theorem ravel_spec (v : RView) (S : List Nat) (a b : Nat) (h : v.shape = S ++ [a, b]) :
    v.ravel.shape = S ++ [a * b] ∧ ∀ x k, v.ravel.src (x ++ [k]) = v.src (x ++ [k / b, k % b]) := by
  have hl : v.shape.length = S.length + 2 := by rw [h]; simp
  unfold RView.ravel
  simp only [hl, Nat.add_sub_cancel]
  rw [show S.length + 2 - 1 = S.length + 1 by omega, h, getD_snoc2_fst, getD_snoc2_snd]
  refine ⟨by rw [List.take_left' rfl], ?_⟩
  intro x k
  simp

theorem unravel_spec (v : RView) (S : List Nat) (m n s : Nat) (h : v.shape = S ++ [m]) :
    (v.unravel n s).shape = S ++ [n, s] ∧ ∀ x i j, (v.unravel n s).src (x ++ [i, j]) = v.src (x ++ [i * s + j]) := by
  unfold RView.unravel
  refine ⟨by rw [h]; simp, ?_⟩
  intro x i j
  simp only [List.length_append, List.length_cons, List.length_nil, Nat.add_sub_cancel]
  rw [show x.length + (0 + 1 + 1) - 1 = x.length + 1 by omega]
  rw [List.take_left' rfl, getD_snoc2_fst, getD_snoc2_snd]

theorem fromEnd_spec (v : RView) (X Y : List Nat) (z : Nat) (h : v.shape = X ++ Y ++ [z]) :
    (v.fromEnd X.length).shape = X ++ z :: Y ∧
      ∀ x j y, x.length = X.length → (v.fromEnd X.length).src (x ++ j :: y) = v.src (x ++ y ++ [j]) := by
  unfold RView.fromEnd
  constructor
  · rw [h]; simp only [List.dropLast_concat, List.getLastD_concat]; exact insertIdx_app X z Y
  · intro x j y hx
    simp only
    rw [← hx, eraseIdx_app, getD_app]

theorem appendOne_spec (v : RView) : v.appendOne.shape = v.shape ++ [1] ∧ ∀ x k, v.appendOne.src (x ++ [k]) = v.src x := by
  unfold RView.appendOne
  exact ⟨rfl, fun x k => by simp⟩

theorem dropOne_spec (v : RView) (S : List Nat) (z : Nat) (h : v.shape = S ++ [z]) :
    v.dropOne.shape = S ∧ ∀ x, v.dropOne.src x = v.src (x ++ [0]) := by
  unfold RView.dropOne
  exact ⟨by rw [h]; simp, fun x => rfl⟩

/-! ## the loop invariant -/

structure Inv (C Fin Pend : List Nat) (base : List Nat → Nat) (v : RView) : Prop where
  shape : v.shape = C ++ Fin ++ Pend
  src : ∀ c f p, inBox C c = true → inBox Fin f = true → inBox Pend p = true →
      v.src (c ++ f ++ p) = base c + flatIdx Pend p * shapeSize Fin + flatIdx Fin f

def Pos (s : List Nat) : Prop := ∀ n ∈ s, 0 < n

theorem Pos.append {s t : List Nat} (hs : Pos s) (ht : Pos t) : Pos (s ++ t) := by
  intro n hn; rcases List.mem_append.mp hn with h | h
  · exact hs n h
  · exact ht n h

theorem Pos.left {s t : List Nat} (h : Pos (s ++ t)) : Pos s := fun n hn => h n (List.mem_append_left _ hn)
theorem Pos.right {s t : List Nat} (h : Pos (s ++ t)) : Pos t := fun n hn => h n (List.mem_append_right _ hn)

theorem inv_ravel {C Fin P' : List Nat} {a b : Nat} {base : List Nat → Nat} {v : RView}
    (h : Inv C Fin (P' ++ [a, b]) base v) (hb : 0 < b) : Inv C Fin (P' ++ [a * b]) base v.ravel := by
  have hsh : v.shape = (C ++ Fin ++ P') ++ [a, b] := by rw [h.shape]; simp
  obtain ⟨h1, h2⟩ := ravel_spec v _ a b hsh
  refine ⟨by rw [h1]; simp, ?_⟩
  intro c f p hc hf hp
  obtain ⟨p', k, rfl, hp', hk⟩ := inBox_snoc_iff.mp hp
  have hkd : k / b < a := (Nat.div_lt_iff_lt_mul hb).mpr hk
  have hkm : k % b < b := Nat.mod_lt _ hb
  have e : c ++ f ++ (p' ++ [k]) = (c ++ f ++ p') ++ [k] := by simp
  rw [e, h2]
  have e2 : c ++ f ++ p' ++ [k / b, k % b] = c ++ f ++ (p' ++ [k / b, k % b]) := by simp
  rw [e2, h.src c f _ hc hf (inBox_snoc2 hp' hkd hkm)]
  have hl := inBox_length hp'
  rw [flatIdx_append _ _ _ _ hl, flatIdx_append _ _ _ _ hl, flatIdx_pair, flatIdx_single]
  have : k / b * b + k % b = k := Nat.div_add_mod' k b
  simp only [shapeSize, List.foldr, Nat.mul_one]
  rw [this]

theorem inv_unravel {C Fin P' : List Nat} {m n s : Nat} {base : List Nat → Nat} {v : RView}
    (h : Inv C Fin (P' ++ [m]) base v) (hm : m = n * s) : Inv C Fin (P' ++ [n, s]) base (v.unravel n s) := by
  have hsh : v.shape = (C ++ Fin ++ P') ++ [m] := by rw [h.shape]; simp
  obtain ⟨h1, h2⟩ := unravel_spec v _ m n s hsh
  refine ⟨by rw [h1]; simp, ?_⟩
  intro c f p hc hf hp
  obtain ⟨p', suf, rfl, hp', hsuf⟩ := inBox_split hp
  obtain ⟨i, j, rfl, hi, hj⟩ := inBox_pair.mp hsuf
  have e : c ++ f ++ (p' ++ [i, j]) = (c ++ f ++ p') ++ [i, j] := by simp
  rw [e, h2]
  have hij : i * s + j < m := by
    rw [hm]
    calc i * s + j < i * s + s := by omega
      _ = (i + 1) * s := by ring
      _ ≤ n * s := Nat.mul_le_mul_right _ hi
  have e2 : c ++ f ++ p' ++ [i * s + j] = c ++ f ++ (p' ++ [i * s + j]) := by simp
  rw [e2, h.src c f _ hc hf (inBox_snoc hp' hij)]
  have hl := inBox_length hp'
  rw [flatIdx_append _ _ _ _ hl, flatIdx_append _ _ _ _ hl, flatIdx_pair, flatIdx_single]
  simp only [shapeSize, List.foldr, Nat.mul_one]
  rw [hm]

theorem inv_fromEnd {C Fin P'' : List Nat} {s : Nat} {base : List Nat → Nat} {v : RView}
    (h : Inv C Fin (P'' ++ [s]) base v) : Inv C (s :: Fin) P'' base (v.fromEnd C.length) := by
  have hsh : v.shape = C ++ (Fin ++ P'') ++ [s] := by rw [h.shape]; simp
  obtain ⟨h1, h2⟩ := fromEnd_spec v C (Fin ++ P'') s hsh
  refine ⟨by rw [h1]; simp, ?_⟩
  intro c f p hc hf hp
  cases f with
  | nil => simp [inBox] at hf
  | cons j f =>
    rw [inBox_cons] at hf
    have e : c ++ j :: f ++ p = c ++ j :: (f ++ p) := by simp
    rw [e, h2 c j (f ++ p) (inBox_length hc)]
    have e2 : c ++ (f ++ p) ++ [j] = c ++ f ++ (p ++ [j]) := by simp
    rw [e2, h.src c f _ hc hf.2 (inBox_snoc hp hf.1)]
    rw [flatIdx_append _ _ _ _ (inBox_length hp), flatIdx_single]
    simp only [flatIdx, shapeSize, List.foldr, Nat.mul_one]
    ring

theorem inv_appendOne {C Fin : List Nat} {base : List Nat → Nat} {v : RView}
    (h : Inv C Fin [] base v) : Inv C Fin [1] base v.appendOne := by
  obtain ⟨h1, h2⟩ := appendOne_spec v
  refine ⟨by rw [h1, h.shape]; simp, ?_⟩
  intro c f p hc hf hp
  obtain ⟨k, rfl, hk⟩ := inBox_single.mp hp
  have e : c ++ f ++ [k] = (c ++ f ++ []) ++ [k] := by simp
  rw [e, h2, h.src c f [] hc hf (by simp [inBox])]
  have : k = 0 := by omega
  subst this
  simp [flatIdx]

theorem inv_dropOne {C Fin Q : List Nat} {base : List Nat → Nat} {v : RView}
    (h : Inv C Fin (Q ++ [1]) base v) : Inv C Fin Q base v.dropOne := by
  have hsh : v.shape = (C ++ Fin ++ Q) ++ [1] := by rw [h.shape]; simp
  obtain ⟨h1, h2⟩ := dropOne_spec v _ 1 hsh
  refine ⟨h1, ?_⟩
  intro c f q hc hf hq
  rw [h2]
  have e : c ++ f ++ q ++ [0] = c ++ f ++ (q ++ [0]) := by simp
  rw [e, h.src c f _ hc hf (inBox_snoc hq (by omega))]
  rw [flatIdx_append _ _ _ _ (inBox_length hq), flatIdx_single]
  simp [shapeSize]

/-! ## the inner while loop, one step, the main loop, the clean-up loop -/

theorem snoc_of_ne_nil {l : List Nat} (h : l ≠ []) : ∃ q m, l = q ++ [m] :=
  ⟨l.dropLast, l.getLast h, (List.dropLast_concat_getLast h).symm⟩

theorem inv_getLastD {C Fin Q : List Nat} {m : Nat} {base : List Nat → Nat} {v : RView}
    (h : Inv C Fin (Q ++ [m]) base v) : v.shape.getLastD 0 = m ∧ v.shape.length = C.length + Fin.length + Q.length + 1 := by
  rw [h.shape]
  constructor
  · rw [← List.append_assoc, List.getLastD_concat]
  · simp; omega

theorem ravelWhile_spec {C Fin : List Nat} {base : List Nat → Nat} {s : Nat} (hs : 0 < s) :
    ∀ (fuel : Nat) (Pend : List Nat) (v : RView), Inv C Fin Pend base v → Pend ≠ [] → Pos Pend → s ∣ shapeSize Pend →
      Pend.length ≤ fuel →
      ∃ P' m v', ravelWhile fuel (C.length + Fin.length + 1) s v = .ok v' ∧ Inv C Fin (P' ++ [m]) base v' ∧ m % s = 0 ∧
        Pos (P' ++ [m]) ∧ shapeSize (P' ++ [m]) = shapeSize Pend := by
  intro fuel
  induction fuel with
  | zero =>
    intro Pend v _ hne _ _ hf
    cases Pend with
    | nil => exact absurd rfl hne
    | cons a t => simp at hf
  | succ fuel ih =>
    intro Pend v hinv hne hpos hdvd hf
    obtain ⟨Q, m, rfl⟩ := snoc_of_ne_nil hne
    obtain ⟨hlast, hlen⟩ := inv_getLastD hinv
    unfold ravelWhile
    rw [if_neg (by omega), hlast]
    by_cases hm : m % s = 0
    · rw [if_pos hm]
      exact ⟨Q, m, v, rfl, hinv, hm, hpos, rfl⟩
    · rw [if_neg hm]
      have hQ : Q ≠ [] := by
        intro hq; subst hq
        simp only [List.nil_append, shapeSize_single] at hdvd
        exact hm (Nat.mod_eq_zero_of_dvd hdvd)
      obtain ⟨Q', a, rfl⟩ := snoc_of_ne_nil hQ
      rw [if_pos (by rw [hlen]; simp)]
      have hinv' : Inv C Fin (Q' ++ [a, m]) base v := by simpa using hinv
      have hm0 : 0 < m := hpos m (by simp)
      have ha0 : 0 < a := hpos a (by simp)
      have hr := inv_ravel hinv' hm0
      have hsz : shapeSize (Q' ++ [a * m]) = shapeSize (Q' ++ [a] ++ [m]) := by
        simp only [shapeSize_append, shapeSize_single]; ring
      obtain ⟨P', m', v', h1, h2, h3, h4, h5⟩ := ih (Q' ++ [a * m]) v.ravel hr (by simp)
        (Pos.append (Pos.left (Pos.left hpos)) (by intro n hn; simp at hn; subst hn; exact Nat.mul_pos ha0 hm0))
        (by rw [hsz]; exact hdvd) (by simp at hf ⊢; omega)
      exact ⟨P', m', v', h1, h2, h3, h4, by rw [h5, hsz]⟩

theorem step_spec {C Fin Pend : List Nat} {base : List Nat → Nat} {v : RView} {s q : Nat}
    (hinv : Inv C Fin Pend base v) (hpos : Pos Pend) (hs : 0 < s) (hq : shapeSize Pend = q * s) :
    ∃ Pend' v', reshapeStep C.length v Fin.length s = .ok v' ∧ Inv C (s :: Fin) Pend' base v' ∧ Pos Pend' ∧
      shapeSize Pend' = q := by
  unfold reshapeStep
  have hvl : v.shape.length = C.length + Fin.length + Pend.length := by rw [hinv.shape]; simp; omega
  by_cases hP : Pend = []
  · subst hP
    have hs1 : s = 1 := by
      rw [shapeSize_nil] at hq
      exact Nat.eq_one_of_mul_eq_one_left hq.symm
    have hq1 : q = 1 := by
      rw [shapeSize_nil] at hq
      exact Nat.eq_one_of_mul_eq_one_right hq.symm
    subst hs1
    simp only [List.length_nil, Nat.add_zero] at hvl
    rw [if_pos hvl]
    simp only [if_true, bind, Except.bind, pure, Except.pure]
    have h1 := inv_appendOne hinv
    have h2 : Inv C Fin ([] ++ [1]) base v.appendOne := by simpa using h1
    exact ⟨[], _, rfl, inv_fromEnd h2, by intro n hn; simp at hn, by rw [shapeSize_nil, hq1]⟩
  · have hne : ¬ v.shape.length = C.length + Fin.length := by
      rw [hvl]; cases Pend with
      | nil => exact absurd rfl hP
      | cons a t => simp
    rw [if_neg hne]
    obtain ⟨P', m, v1, h1, h2, h3, h4, h5⟩ := ravelWhile_spec (C := C) (Fin := Fin) (base := base) hs (v.shape.length + 1) Pend v hinv hP hpos
      ⟨q, by rw [hq]; ring⟩ (by rw [hvl]; omega)
    simp only [bind, Except.bind, pure, Except.pure, h1]
    obtain ⟨hlast, _⟩ := inv_getLastD h2
    rw [hlast]
    have hm0 : 0 < m := h4 m (by simp)
    obtain ⟨n, hn⟩ := Nat.dvd_of_mod_eq_zero h3
    have hsz : shapeSize P' * m = q * s := by
      rw [← hq, ← h5, shapeSize_append, shapeSize_single]
    by_cases hms : m = s
    · subst hms
      simp only [ne_eq, not_true_eq_false, if_false]
      refine ⟨P', _, rfl, inv_fromEnd h2, Pos.left h4, ?_⟩
      exact Nat.eq_of_mul_eq_mul_right hs hsz
    · simp only [ne_eq, hms, not_false_eq_true, if_true]
      have hmn : m = n * s := by rw [hn]; ring
      have hdiv : m / s = n := by rw [hmn]; exact Nat.mul_div_cancel n hs
      rw [hdiv]
      have h3' := inv_unravel h2 hmn
      have h3'' : Inv C Fin ((P' ++ [n]) ++ [s]) base (v1.unravel n s) := by simpa using h3'
      have hn0 : 0 < n := by
        rcases Nat.eq_zero_or_pos n with h0 | h0
        · subst h0; simp at hmn; omega
        · exact h0
      refine ⟨P' ++ [n], _, rfl, inv_fromEnd h3'', Pos.append (Pos.left h4) (by intro x hx; simp at hx; subst hx; exact hn0), ?_⟩
      apply Nat.eq_of_mul_eq_mul_right hs
      rw [shapeSize_append, shapeSize_single, ← hsz, hmn]; ring

theorem loop_spec {C : List Nat} {base : List Nat → Nat} :
    ∀ (ss Fin Pend : List Nat) (v : RView), Inv C Fin Pend base v → Pos Pend → Pos ss → shapeSize Pend = shapeSize ss →
      ∃ Pend' v', reshapeLoop C.length ss Fin.length v = .ok v' ∧ Inv C (ss.reverse ++ Fin) Pend' base v' ∧ Pos Pend' ∧
        shapeSize Pend' = 1 := by
  intro ss
  induction ss with
  | nil =>
    intro Fin Pend v hinv hpos _ hsz
    exact ⟨Pend, v, rfl, by simpa using hinv, hpos, by rw [hsz, shapeSize_nil]⟩
  | cons s ss ih =>
    intro Fin Pend v hinv hpos hss hsz
    have hs : 0 < s := hss s (by simp)
    obtain ⟨Pend1, v1, h1, h2, h3, h4⟩ := step_spec (q := shapeSize ss) hinv hpos hs (by rw [hsz, shapeSize_cons]; ring)
    obtain ⟨Pend', v', h5, h6, h7, h8⟩ := ih (s :: Fin) Pend1 v1 h2 h3 (fun n hn => hss n (by simp [hn])) h4
    refine ⟨Pend', v', ?_, by simpa using h6, h7, h8⟩
    simp only [reshapeLoop, bind, Except.bind, h1]
    simpa using h5

theorem strip_spec {C Fin : List Nat} {base : List Nat → Nat} :
    ∀ (fuel : Nat) (Pend : List Nat) (v : RView), Inv C Fin Pend base v → (∀ n ∈ Pend, n = 1) → Pend.length ≤ fuel →
      ∃ v', stripOnes fuel (C.length + Fin.length) v = .ok v' ∧ Inv C Fin [] base v' := by
  intro fuel
  induction fuel with
  | zero =>
    intro Pend v hinv _ hf
    have : Pend = [] := List.eq_nil_of_length_eq_zero (by omega)
    subst this
    exact ⟨v, rfl, hinv⟩
  | succ fuel ih =>
    intro Pend v hinv hone hf
    have hvl : v.shape.length = C.length + Fin.length + Pend.length := by rw [hinv.shape]; simp; omega
    unfold stripOnes
    by_cases hP : Pend = []
    · subst hP
      rw [if_neg (by rw [hvl]; simp)]
      exact ⟨v, rfl, hinv⟩
    · obtain ⟨Q, m, rfl⟩ := snoc_of_ne_nil hP
      have hm : m = 1 := hone m (by simp)
      subst hm
      obtain ⟨hlast, hlen⟩ := inv_getLastD hinv
      rw [if_pos (by rw [hlen]; omega), hlast]
      simp only [if_true]
      exact ih Q v.dropOne (inv_dropOne hinv) (fun n hn => hone n (by simp [hn])) (by simp at hf; omega)

/-! ## putting the plan together for a resolved new shape -/

theorem commonPrefix_spec : ∀ (a b : List Nat), a.take (commonPrefix a b) = b.take (commonPrefix a b) ∧
    commonPrefix a b ≤ a.length ∧ commonPrefix a b ≤ b.length
  | [], _ => by simp [commonPrefix]
  | _ :: _, [] => by simp [commonPrefix]
  | x :: a, y :: b => by
    unfold commonPrefix
    by_cases h : x = y
    · subst h
      obtain ⟨h1, h2, h3⟩ := commonPrefix_spec a b
      simp only [if_true, List.take_succ_cons, List.length_cons, h1]
      exact ⟨trivial, by omega, by omega⟩
    · simp [h]

theorem shapeSize_reverse (l : List Nat) : shapeSize l.reverse = shapeSize l := by
  induction l with
  | nil => rfl
  | cons a t ih => rw [List.reverse_cons, shapeSize_append, shapeSize_single, ih, shapeSize_cons]; ring

theorem reshape_core (shape ns : List Nat) (hp : Pos shape) (hn : Pos ns) (hsz : shapeSize ns = shapeSize shape) :
    ∃ v1 v2, reshapeLoop (commonPrefix shape ns) (ns.drop (commonPrefix shape ns)).reverse 0 ⟨shape, flatIdx shape⟩ = .ok v1 ∧
      stripOnes v1.shape.length ns.length v1 = .ok v2 ∧ v2.shape = ns ∧ ∀ idx, inBox ns idx = true → v2.src idx = flatIdx ns idx := by
  obtain ⟨hk1, hk2, hk3⟩ := commonPrefix_spec shape ns
  generalize commonPrefix shape ns = k at hk1 hk2 hk3
  have hshape : shape = shape.take k ++ shape.drop k := (List.take_append_drop k shape).symm
  have hns : ns = shape.take k ++ ns.drop k := by rw [hk1]; exact (List.take_append_drop k ns).symm
  generalize hC : shape.take k = C at hshape hns
  generalize shape.drop k = A at hshape
  generalize ns.drop k = B at hns
  have hCl : C.length = k := by rw [← hC, List.length_take]; omega
  subst hshape hns
  have hCpos : 0 < shapeSize C := shapeSize_pos C (Pos.left hp)
  have hAB : shapeSize A = shapeSize B := by
    rw [shapeSize_append, shapeSize_append] at hsz
    exact (Nat.eq_of_mul_eq_mul_left hCpos hsz).symm
  let base : List Nat → Nat := fun c => flatIdx C c * shapeSize A
  have hinv0 : Inv C [] A base ⟨C ++ A, flatIdx (C ++ A)⟩ := by
    refine ⟨by simp, ?_⟩
    intro c f p hc hf hp'
    rw [inBox_nil_iff.mp hf]
    simp only [List.append_nil, flatIdx_nil, shapeSize_nil, Nat.mul_one, Nat.add_zero, base]
    exact flatIdx_append C A c p (inBox_length hc)
  obtain ⟨Pend', v1, h1, h2, h3, h4⟩ := loop_spec (C := C) (base := base) B.reverse [] A _ hinv0 (Pos.right hp)
    (fun n hn' => Pos.right hn n (by simpa using hn')) (by rw [shapeSize_reverse, hAB])
  simp only [List.reverse_reverse, List.append_nil, List.length_nil] at h1 h2
  have hones := all_one_of_shapeSize_one Pend' h3 h4
  have hv1l : v1.shape.length = C.length + B.length + Pend'.length := by rw [h2.shape]; simp; omega
  obtain ⟨v2, h5, h6⟩ := strip_spec (C := C) (Fin := B) (base := base) v1.shape.length Pend' v1 h2 hones (by omega)
  refine ⟨v1, v2, by rw [← hCl]; exact h1, by rw [List.length_append]; exact h5, by rw [h6.shape]; simp, ?_⟩
  intro idx hidx
  obtain ⟨c, f, rfl, hc, hf⟩ := inBox_split hidx
  have := h6.src c f [] hc hf (by simp [inBox])
  simp only [List.append_nil, flatIdx_nil, Nat.zero_mul, Nat.add_zero, base] at this
  rw [this, flatIdx_append C B c f (inBox_length hc), hAB]

/-! ## resolving `-1` -/

theorem foldl_mul_eq_shapeSize (l : List Nat) : l.foldl (· * ·) 1 = shapeSize l := by
  have gen : ∀ (l : List Nat) (a : Nat), l.foldl (· * ·) a = a * shapeSize l := by
    intro l
    induction l with
    | nil => intro a; simp [shapeSize]
    | cons x t ih => intro a; simp only [List.foldl_cons, ih, shapeSize_cons]; ring
  rw [gen]; simp

def fillNone (q : Nat) : Option Nat → Nat
  | some n => n
  | none => q

theorem shapeSize_fill (q : Nat) (l : List (Option Nat)) :
    shapeSize (l.map (fillNone q)) = shapeSize (l.filterMap id) * q ^ (l.count none) := by
  induction l with
  | nil => simp [shapeSize]
  | cons x t ih =>
    cases x with
    | none => simp only [List.map_cons, fillNone, shapeSize_cons, ih, List.filterMap_cons_none, id, List.count_cons_self]; ring
    | some n =>
      have : (some n :: t).count none = t.count none := by simp [List.count_cons]
      simp only [List.map_cons, fillNone, shapeSize_cons, ih, this]
      simp [shapeSize_cons]; ring

theorem pos_fill (q : Nat) (hq : 0 < q) (l : List (Option Nat)) (h : Pos (l.filterMap id)) : Pos (l.map (fillNone q)) := by
  intro n hn
  simp only [List.mem_map] at hn
  obtain ⟨x, hx, rfl⟩ := hn
  cases x with
  | none => exact hq
  | some m => exact h m (by simp only [List.mem_filterMap, id]; exact ⟨some m, hx, rfl⟩)

theorem idxOf?_none_iff (l : List (Option Nat)) : l.idxOf? none = none ↔ l.count none = 0 := by
  induction l with
  | nil => simp
  | cons x t ih =>
    cases x with
    | none => simp [List.idxOf?_cons]
    | some n => simp [List.idxOf?_cons, List.count_cons, ih]

theorem idxOf?_some_count (l : List (Option Nat)) (i : Nat) (h : l.idxOf? none = some i) :
    l.count none = 1 + (l.drop (i + 1)).count none := by
  induction l generalizing i with
  | nil => simp at h
  | cons x t ih =>
    cases x with
    | none =>
      simp [List.idxOf?_cons] at h
      subst h; simp; omega
    | some n =>
      simp only [List.idxOf?_cons, beq_iff_eq, reduceCtorEq, if_false, Option.map_eq_some_iff] at h
      obtain ⟨j, hj, rfl⟩ := h
      have := ih j hj
      simp [List.count_cons, this]

theorem fill_eq (q : Nat) (l : List (Option Nat)) :
    l.map (fun | some n => n | none => q) = l.map (fillNone q) := by
  apply List.map_congr_left; intro x _; cases x <;> rfl

theorem filterMap_of_count_zero (l : List (Option Nat)) (h : l.count none = 0) : l.map (fillNone 0) = l.filterMap id := by
  induction l with
  | nil => rfl
  | cons x t ih =>
    cases x with
    | none => simp at h
    | some n =>
      have ht : t.count none = 0 := by simpa [List.count_cons] using h
      simp [fillNone, ih ht]

theorem resolve_spec (size : Nat) (newshape : List (Option Nat)) (hsize : 0 < size) (hpos : Pos (newshape.filterMap id)) :
    match resolveShape size newshape, npReshapeShape size newshape with
    | .ok a, some b => a = b ∧ Pos a ∧ shapeSize a = size
    | .error _, none => True
    | _, _ => False := by
  unfold resolveShape npReshapeShape
  have hopos : 0 < shapeSize (newshape.filterMap id) := shapeSize_pos _ hpos
  cases hi : newshape.idxOf? none with
  | none =>
    have hc := (idxOf?_none_iff newshape).mp hi
    simp only [hc, foldl_mul_eq_shapeSize]
    by_cases he : shapeSize (newshape.filterMap id) = size
    · simp [he, hpos]
    · simp [he]
  | some i =>
    have hc := idxOf?_some_count newshape i hi
    simp only [foldl_mul_eq_shapeSize]
    by_cases hdup : (newshape.drop (i + 1)).contains none = true
    · have : 0 < (newshape.drop (i + 1)).count none := List.count_pos_iff.mpr (by simpa using hdup)
      obtain ⟨m, hm⟩ : ∃ m, newshape.count none = m + 2 := ⟨(newshape.drop (i + 1)).count none - 1, by omega⟩
      rw [if_pos hdup, hm]
      trivial
    · have h0 : (newshape.drop (i + 1)).count none = 0 := by
        rcases Nat.eq_zero_or_pos ((newshape.drop (i + 1)).count none) with h | h
        · exact h
        · exact absurd (by simpa using List.count_pos_iff.mp h) hdup
      have h1 : newshape.count none = 1 := by omega
      have hne : ¬ shapeSize (newshape.filterMap id) = 0 := by omega
      rw [if_neg hdup, if_neg hne, h1]
      by_cases hm : size % shapeSize (newshape.filterMap id) = 0
      · have hc2 : ¬ (size % shapeSize (newshape.filterMap id) ≠ 0) := by omega
        rw [if_neg hc2]
        show match (Except.ok _ : Except String (List Nat)), (if shapeSize (newshape.filterMap id) ≠ 0 ∧ size % shapeSize (newshape.filterMap id) = 0 then _ else none) with
          | .ok a, some b => a = b ∧ Pos a ∧ shapeSize a = size
          | .error _, none => True
          | _, _ => False
        rw [if_pos ⟨hne, hm⟩]
        have hq : 0 < size / shapeSize (newshape.filterMap id) :=
          Nat.div_pos (Nat.le_of_dvd hsize (Nat.dvd_of_mod_eq_zero hm)) hopos
        suffices h : ∀ (f : Option Nat → Nat), (∀ x, f x = fillNone (size / shapeSize (newshape.filterMap id)) x) →
            Pos (newshape.map f) ∧ shapeSize (newshape.map f) = size from ⟨rfl, h _ (by intro x; cases x <;> rfl)⟩
        intro f hf
        have hfe : newshape.map f = newshape.map (fillNone (size / shapeSize (newshape.filterMap id))) :=
          List.map_congr_left (fun x _ => hf x)
        rw [hfe]
        refine ⟨pos_fill _ hq _ hpos, ?_⟩
        rw [shapeSize_fill, h1, Nat.pow_one]
        exact Nat.mul_div_cancel' (Nat.dvd_of_mod_eq_zero hm)
      · rw [if_pos hm]
        show match (Except.error _ : Except String (List Nat)), (if shapeSize (newshape.filterMap id) ≠ 0 ∧ size % shapeSize (newshape.filterMap id) = 0 then _ else none) with
          | .ok a, some b => a = b ∧ Pos a ∧ shapeSize a = size
          | .error _, none => True
          | _, _ => False
        rw [if_neg (fun h => hm h.2)]
        trivial

/-- **the ravel / unravel / roll plan of `numpy.reshape` on function arrays denotes NumPy's row-major reshape**, for all
shapes with positive dimensions: it is accepted exactly when NumPy accepts (at most one `-1`, equal sizes), and then the
entry at every multi-index of the new shape is the entry at the same row-major offset of the original. -/
theorem reshape_plan_spec' (shape : List Nat) (newshape : List (Option Nat))
    (hpos : ∀ n ∈ shape, 0 < n) (hpos' : ∀ n ∈ newshape.filterMap id, 0 < n) :
    match reshape shape newshape, npReshape shape newshape with
    | .ok v, some w => v.shape = w.shape ∧ ∀ idx, inBox w.shape idx = true → v.src idx = w.src idx
    | .error _, none => True
    | _, _ => False := by
  have hr := resolve_spec (shapeSize shape) newshape (shapeSize_pos shape hpos) hpos'
  unfold reshape npReshape
  cases h1 : resolveShape (shapeSize shape) newshape with
  | error e =>
    cases h2 : npReshapeShape (shapeSize shape) newshape with
    | none => simp [bind, Except.bind]
    | some b => rw [h1, h2] at hr; exact hr.elim
  | ok ns =>
    cases h2 : npReshapeShape (shapeSize shape) newshape with
    | none => rw [h1, h2] at hr; exact hr.elim
    | some b =>
      rw [h1, h2] at hr
      obtain ⟨rfl, hnpos, hsz⟩ := hr
      obtain ⟨v1, v2, hl, hs, hsh, hsrc⟩ := reshape_core shape ns hpos hnpos hsz
      simp only [bind, Except.bind, hl, hs, hsh, if_true, pure, Except.pure, Option.map_some]
      exact ⟨trivial, hsrc⟩

end NutilsVerif.C07
