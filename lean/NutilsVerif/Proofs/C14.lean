import NutilsVerif.Model.C14
/-!
# C14 — helper lemmas (order facts on `F`, list linear algebra, loop invariants)
-/
namespace NutilsVerif.C14
open F

/-! ## order facts -/

theorem F.le_not_nan {a b : F} (h : le a b = true) : a.isNan = false ∧ b.isNan = false := by
  cases a <;> cases b <;> simp_all [le, isNan]

theorem F.gt_not_nan {a b : F} (h : gt a b = true) : a.isNan = false ∧ b.isNan = false := by
  cases a <;> cases b <;> simp_all [gt, lt, isNan]

theorem F.le_of_not_gt {a b : F} (ha : a.isNan = false) (hb : b.isNan = false) (h : gt a b = false) : le a b = true := by
  cases a <;> cases b <;> simp_all [gt, lt, le, isNan]
  exact Rat.not_lt.mp h

theorem F.not_gt_of_le {a b : F} (h : le a b = true) : gt a b = false := by
  cases a <;> cases b <;> simp_all [gt, lt, le]
  exact Rat.not_lt.mpr h

theorem F.isFinite_not_nan {a : F} (h : a.isFinite = true) : a.isNan = false := by
  cases a <;> simp_all [isFinite, isNan]

theorem F.nan_le (a : F) : le nan a = false := by cases a <;> rfl
theorem F.le_nan (a : F) : le a nan = false := by cases a <;> rfl
theorem F.nan_gt (a : F) : gt nan a = false := by cases a <;> rfl
theorem F.gt_nan (a : F) : gt a nan = false := by cases a <;> rfl

/-! ## list linear algebra -/

theorem dot_nil_right (a : Vec) : dot a [] = 0 := by cases a <;> rfl

theorem sel_length_le {α : Type} : ∀ (m : List Bool) (l : List α), (sel m l).length ≤ l.length := by
  intro m
  induction m with
  | nil => intro l; cases l <;> simp [sel]
  | cons b m ih =>
    intro l
    cases l with
    | nil => cases b <;> simp [sel]
    | cons a as => cases b <;> simp [sel] <;> have := ih as <;> omega

theorem sel_map {α β : Type} (f : α → β) : ∀ (m : List Bool) (l : List α), sel m (l.map f) = (sel m l).map f := by
  intro m
  induction m with
  | nil => intro l; cases l <;> simp [sel]
  | cons b m ih =>
    intro l
    cases l with
    | nil => cases b <;> simp [sel]
    | cons a as => cases b <;> simp [sel, ih]

/-- `row · (lhs[J] += y)  =  row · lhs + row[J] · y` -/
theorem dot_scatterAdd : ∀ (J : List Bool) (row y lhs : Vec), J.length = lhs.length →
    dot row (scatterAdd J y lhs) = dot row lhs + dot (sel J row) y := by
  intro J
  induction J with
  | nil =>
    intro row y lhs h
    have : lhs = [] := by cases lhs <;> simp_all
    subst this
    cases row <;> simp [scatterAdd, dot, sel] <;> grind
  | cons b m ih =>
    intro row y lhs h
    cases lhs with
    | nil => simp at h
    | cons l ls =>
      simp at h
      cases row with
      | nil => simp [dot, sel]; grind
      | cons a as =>
        cases b with
        | true =>
          cases y with
          | nil => simp [scatterAdd, dot, sel, ih as [] ls h, dot_nil_right]; grind
          | cons y0 ys => simp [scatterAdd, dot, sel, ih as ys ls h]; grind
        | false =>
          have := ih as y ls h
          cases y <;> simp_all [scatterAdd, dot, sel] <;> grind

theorem scatterAdd_length : ∀ (J : List Bool) (y lhs : Vec), J.length = lhs.length → (scatterAdd J y lhs).length = lhs.length := by
  intro J
  induction J with
  | nil => intro y lhs h; cases lhs <;> simp_all [scatterAdd]
  | cons b m ih =>
    intro y lhs h
    cases lhs with
    | nil => simp at h
    | cons l ls =>
      simp at h
      cases b <;> cases y <;> simp [scatterAdd, ih _ _ h]

/-- constrained entries are *not touched* by `lhs[J] += y` -/
theorem scatterAdd_fixed : ∀ (J : List Bool) (y lhs : Vec) (j : Nat), J.length = lhs.length →
    J.getD j true = false → (scatterAdd J y lhs).getD j 0 = lhs.getD j 0 := by
  intro J
  induction J with
  | nil => intro y lhs j _ h; simp at h
  | cons b m ih =>
    intro y lhs j hl h
    cases lhs with
    | nil => simp at hl
    | cons l ls =>
      simp at hl
      cases j with
      | zero =>
        simp at h; subst h
        simp [scatterAdd]
      | succ j =>
        simp at h
        cases b <;> cases y <;> simp [scatterAdd] <;> exact ih _ _ _ hl (by simpa using h)

/-- adding zeros changes nothing (the within-tolerance shortcut returns `lhs` itself) -/
theorem scatterAdd_zeros : ∀ (J : List Bool) (n : Nat) (lhs : Vec), J.length = lhs.length →
    scatterAdd J (List.replicate n 0) lhs = lhs := by
  intro J
  induction J with
  | nil => intro n lhs h; cases lhs <;> simp_all [scatterAdd]
  | cons b m ih =>
    intro n lhs h
    cases lhs with
    | nil => simp at h
    | cons l ls =>
      simp at h
      cases b with
      | false => simp [scatterAdd, ih n ls h]
      | true =>
        cases n with
        | zero => simpa [scatterAdd] using ih 0 ls h
        | succ n => simp [List.replicate_succ, scatterAdd, ih n ls h]; grind

/-- the free-row residual of the full system at `lhs[J] += y` is the residual of the reduced system at `y` -/
theorem residual_reduced (J : List Bool) (y lhs : Vec) (hJ : J.length = lhs.length) :
    ∀ (I : List Bool) (A : Mat) (rhs : Vec), I.length = A.length → rhs.length = A.length →
      sel I (vsub rhs (matVec A (scatterAdd J y lhs)))
        = vsub (sel I (vsub rhs (matVec A lhs))) (matVec (subMat I J A) y) := by
  intro I
  induction I with
  | nil => intro A rhs h1 h2; cases A <;> simp_all [sel, matVec, subMat, vsub]
  | cons b m ih =>
    intro A rhs h1 h2
    cases A with
    | nil => simp at h1
    | cons row As =>
      cases rhs with
      | nil => simp at h2
      | cons r rs =>
        simp at h1 h2
        have := ih As rs h1 h2
        cases b with
        | false => simpa [sel, matVec, subMat, vsub] using this
        | true =>
          simp only [matVec, subMat] at this
          simp [sel, matVec, subMat, vsub, this, dot_scatterAdd J row y lhs hJ]
          grind

/-! ## `prepCols` -/

theorem applyVals_length : ∀ (v : List (Option Rat)) (lhs : Vec), v.length = lhs.length → (applyVals v lhs).length = lhs.length := by
  intro v
  induction v with
  | nil => intro lhs h; cases lhs <;> simp_all [applyVals]
  | cons c cs ih =>
    intro lhs h
    cases lhs with
    | nil => simp at h
    | cons l ls => simp at h; cases c <;> simp [applyVals, ih ls h]

theorem applyVals_some : ∀ (v : List (Option Rat)) (lhs : Vec) (j : Nat) (q : Rat), v.length = lhs.length →
    v.getD j none = some q → (applyVals v lhs).getD j 0 = q := by
  intro v
  induction v with
  | nil => intro lhs j q _ h; simp at h
  | cons c cs ih =>
    intro lhs j q hl h
    cases lhs with
    | nil => simp at hl
    | cons l ls =>
      simp at hl
      cases j with
      | zero => simp at h; subst h; simp [applyVals]
      | succ j => simp at h; cases c <;> simp [applyVals] <;> exact ih ls j q hl (by simpa using h)

theorem prepCols_spec {ncols : Nat} {lhs0 : Option Vec} {cons : Option Cons} {lhs : Vec} {J : List Bool}
    (h : prepCols ncols lhs0 cons = .ok (lhs, J)) :
    lhs.length = ncols ∧ J.length = ncols ∧
    ∀ j q, prescribed ncols lhs0 cons j = some q → J.getD j true = false ∧ lhs.getD j 0 = q := by
  unfold prepCols at h
  simp only at h
  split at h
  · cases h
  · rename_i hlen
    simp at hlen
    cases cons with
    | none =>
      simp at h
      obtain ⟨rfl, rfl⟩ := h
      simp [hlen, prescribed]
    | some c =>
      cases c with
      | mask m =>
        simp only at h
        split at h
        · cases h
        · rename_i hm
          simp at hm h
          obtain ⟨rfl, rfl⟩ := h
          refine ⟨hlen, by simpa using hm, ?_⟩
          intro j q hp
          simp only [prescribed] at hp
          split at hp
          · rename_i hmj
            simp at hp
            refine ⟨?_, hp⟩
            rw [List.getD_eq_getElem?_getD] at hmj ⊢
            rw [List.getElem?_map]
            cases hj : m[j]? with
            | none => simp [hj] at hmj
            | some b => simp [hj] at hmj; simp [hmj]
          · cases hp
      | vals v =>
        simp only at h
        split at h
        · cases h
        · rename_i hv
          simp at hv h
          obtain ⟨rfl, rfl⟩ := h
          have hvl : v.length = (lhs0.getD (zeros ncols)).length := by omega
          refine ⟨by rw [applyVals_length v _ hvl]; exact hlen, by simpa using hv, ?_⟩
          intro j q hp
          simp only [prescribed] at hp
          refine ⟨?_, applyVals_some v _ j q hvl hp⟩
          rw [List.getD_eq_getElem?_getD] at hp ⊢
          rw [List.getElem?_map]
          cases hj : v[j]? with
          | none => simp [hj] at hp
          | some b => simp [hj] at hp; simp [hp]

/-! ## `System.solve` loop invariant -/

theorem loop_post (tol : F) (mi : Int) (ma : Option Int) (evs : List Ev) :
    ∀ (rest : List Ev) (i : Nat) (r : F) (k : Nat) (r' : F),
      evs[i]? = some (.yield r) → evs.drop (i+1) = rest →
      loop tol mi ma i r rest = .returned k r' →
      i ≤ k ∧ evs[k]? = some (.yield r') ∧ le r' tol = true ∧ mi ≤ (k : Int) ∧
      ∀ j, i ≤ j → j < k → ∃ rj, evs[j]? = some (.yield rj) ∧ rj.isNan = false ∧
        (mi ≤ (j : Int) → le rj tol = false) ∧ hitMax ma j = false := by
  intro rest
  induction rest with
  | nil =>
    intro i r k r' hi hd h
    unfold loop at h
    split at h
    · split at h
      · simp at h
      · split at h <;> simp at h
    · rename_i hc
      simp at h
      obtain ⟨rfl, rfl⟩ := h
      simp at hc
      refine ⟨Nat.le_refl _, hi, hc.2, by omega, ?_⟩
      intro j h1 h2; omega
  | cons e rest ih =>
    intro i r k r' hi hd h
    unfold loop at h
    split at h
    · rename_i hc
      split at h
      · simp at h
      · rename_i hnan
        split at h
        · simp at h
        · rename_i hmax
          cases e with
          | raise t => simp at h
          | yield r1 =>
            simp only at h
            have hi1 : evs[i+1]? = some (.yield r1) := by
              have := congrArg List.head? hd
              simpa [List.head?_drop] using this
            have hd1 : evs.drop (i+1+1) = rest := by
              have := congrArg List.tail hd
              simpa [List.tail_drop] using this
            obtain ⟨h1, h2, h3, h4, h5⟩ := ih (i+1) r1 k r' hi1 hd1 h
            refine ⟨by omega, h2, h3, h4, ?_⟩
            intro j hj1 hj2
            by_cases hji : j = i
            · subst hji
              refine ⟨r, hi, by simpa using hnan, ?_, by simpa using hmax⟩
              intro hm
              simp at hc
              rcases hc with hc | hc
              · omega
              · exact hc
            · exact h5 j (by omega) hj2
    · rename_i hc
      simp at h
      obtain ⟨rfl, rfl⟩ := h
      simp at hc
      refine ⟨Nat.le_refl _, hi, hc.2, by omega, ?_⟩
      intro j h1 h2; omega

/-- index of the last iterate an outcome has consumed -/
def SOut.idx : SOut → Nat
  | .returned k _ => k
  | .solverError k _ => k
  | .valueError => 0
  | .stopIteration k => k
  | .raised k _ => k

theorem loop_cons (tol : F) (mi : Int) (ma : Option Int) (i : Nat) (r : F) (e : Ev) (rest : List Ev) :
    loop tol mi ma i r (e :: rest) =
      if (decide ((i : Int) < mi) || !(le r tol)) = true then
        if r.isNan = true then .solverError i .nan
        else if hitMax ma i = true then .solverError i .maxiter
        else match e with
          | .raise t => .raised i t
          | .yield r' => loop tol mi ma (i + 1) r' rest
      else .returned i r := by
  rw [loop.eq_def]
  cases e <;> rfl

/-- once the loop reaches a NaN residual norm it raises SolverError there: with a NaN at position `i + pre.length + 1`
of the stream, the loop either stops strictly before it or raises `SolverError(nan)` exactly at it -/
theorem loop_nan (tol : F) (mi : Int) (ma : Option Int) :
    ∀ (pre : List Ev) (post : List Ev) (i : Nat) (r : F),
      (loop tol mi ma i r (pre ++ .yield nan :: post)).idx < i + pre.length + 1 ∨
      loop tol mi ma i r (pre ++ .yield nan :: post) = .solverError (i + pre.length + 1) .nan := by
  intro pre
  induction pre with
  | nil =>
    intro post i r
    simp only [List.nil_append, List.length_nil, Nat.add_zero]
    rw [loop_cons]
    by_cases h1 : (decide ((i : Int) < mi) || !(le r tol)) = true
    · rw [if_pos h1]
      by_cases h2 : r.isNan = true
      · rw [if_pos h2]; left; simp [SOut.idx]
      · rw [if_neg h2]
        by_cases h3 : hitMax ma i = true
        · rw [if_pos h3]; left; simp [SOut.idx]
        · rw [if_neg h3]
          right
          show loop tol mi ma (i + 1) nan post = _
          rw [loop.eq_def]
          simp [F.nan_le, F.isNan]
    · rw [if_neg h1]; left; simp [SOut.idx]
  | cons e pre ih =>
    intro post i r
    rw [List.cons_append, loop_cons]
    by_cases h1 : (decide ((i : Int) < mi) || !(le r tol)) = true
    · rw [if_pos h1]
      by_cases h2 : r.isNan = true
      · rw [if_pos h2]; left; simp [SOut.idx]; omega
      · rw [if_neg h2]
        by_cases h3 : hitMax ma i = true
        · rw [if_pos h3]; left; simp [SOut.idx]; omega
        · rw [if_neg h3]
          cases e with
          | raise t => left; simp [SOut.idx]; omega
          | yield r1 =>
            have := ih post (i+1) r1
            simp only [List.length_cons]
            rcases this with h | h
            · left; show (loop tol mi ma (i + 1) r1 _).idx < _; omega
            · right; show loop tol mi ma (i + 1) r1 _ = _; rw [h]; congr 1; omega
    · rw [if_neg h1]; left; simp [SOut.idx]; omega

/-! ## `System.step` -/

theorem chains_append : ∀ (l1 l2 : List Call) (a b c : Rat), chains a l1 b → chains b l2 c → chains a (l1 ++ l2) c := by
  intro l1
  induction l1 with
  | nil => intro l2 a b c h1 h2; simp [chains] at h1; subst h1; simpa using h2
  | cons x xs ih =>
    intro l2 a b c h1 h2
    simp only [chains] at h1
    simp only [List.cons_append, chains]
    exact ⟨h1.1, ih l2 _ _ _ h1.2 h2⟩

/-! ## further helpers -/

theorem prepRows_length {nrows ncols : Nat} {J : List Bool} {cons : Option Cons} {rcons : Option (List Bool)} {I : List Bool}
    (hJ : J.length = ncols) (h : prepRows nrows ncols J cons rcons = .ok I) : I.length = nrows := by
  unfold prepRows at h
  cases rcons with
  | none =>
    simp only at h
    split at h
    · cases h
    · rename_i hn; simp at hn h; subst h; omega
  | some r =>
    simp only at h
    split at h
    · cases h
    · rename_i hr
      simp at hr
      cases cons with
      | none => cases h
      | some c =>
        cases c with
        | vals v => cases h
        | mask m => simp at h; subst h; simpa using hr

/-- the inner `_solver` call of the constrained path, made explicit -/
theorem solveM_constrained (nrm : Vec → F) (s : SolveIn) (hc : ¬ (s.lhs0 = none ∧ s.cons = none ∧ s.rcons = none)) :
    solveM nrm s =
      match prepCols s.ncols s.lhs0 s.cons with
      | .error e => .error e
      | .ok (lhs, J) =>
        match prepRows s.nrows s.ncols J s.cons s.rcons with
        | .error e => .error e
        | .ok I =>
          if (s.rhs.getD (zeros s.nrows)).length ≠ s.nrows then .error .broadcast
          else
            match solverM nrm (subMat I J s.A) (count J) (sel I (vsub (s.rhs.getD (zeros s.nrows)) (matVec s.A lhs))) s.atol s.rtol s.sol with
            | .ok y => .ok (scatterAdd J y lhs)
            | .error (.tolNotReached y) => .error (.tolNotReached (scatterAdd J y lhs))
            | .error e => .error e := by
  unfold solveM
  split
  · rename_i h1 h2 h3 h4; exact absurd ⟨h2, h3, h4⟩ hc
  · rename_i h1 h2 h3 h4; exact absurd ⟨h2, h3, h4⟩ hc
  · rfl

theorem F.gt_of_not_le {a b : F} (ha : a.isNan = false) (hb : b.isNan = false) (h : le a b = false) : gt a b = true := by
  cases a <;> cases b <;> simp_all [gt, lt, le, isNan]
  exact Rat.not_le.mp h

theorem stepM_ok (n : Nat) (dep : Bool) (t dt : Rat) (script : List Bool) (h : script.headD false = true) :
    stepM n dep t dt script = (true, [⟨t, t + dt, true⟩], script.tail) := by
  rw [stepM.eq_def]; have h' := h; simp only [List.headD_eq_head?_getD] at h'; simp [h']

theorem stepM_zero (dep : Bool) (t dt : Rat) (script : List Bool) (h : script.headD false = false) :
    stepM 0 dep t dt script = (false, [⟨t, t + dt, false⟩], script.tail) := by
  rw [stepM.eq_def]; have h' := h; simp only [List.headD_eq_head?_getD] at h'; simp [h']

theorem stepM_succ (n : Nat) (dep : Bool) (t dt : Rat) (script : List Bool) (h : script.headD false = false) :
    stepM (n+1) dep t dt script =
      if !dep then (false, [⟨t, t + dt, false⟩], script.tail)
      else
        let r1 := stepM n dep t (dt / 2) script.tail
        if !r1.1 then (false, ⟨t, t + dt, false⟩ :: r1.2.1, r1.2.2)
        else
          let r2 := stepM n dep (t + dt / 2) (dt / 2) r1.2.2
          (r2.1, ⟨t, t + dt, false⟩ :: (r1.2.1 ++ r2.2.1), r2.2.2) := by
  rw [stepM.eq_def]; have h' := h; simp only [List.headD_eq_head?_getD] at h'; simp [h']

theorem maskNan_spec : ∀ (m : List Bool) (x : Vec) (j : Nat), m.length = x.length → j < m.length →
    (maskNan m x).getD j none = if m.getD j true then none else some (x.getD j 0) := by
  intro m
  induction m with
  | nil => intro x j _ h; simp at h
  | cons b m ih =>
    intro x j hl hj
    cases x with
    | nil => simp at hl
    | cons a as =>
      simp at hl
      cases j with
      | zero => cases b <;> simp [maskNan]
      | succ j =>
        simp at hj
        cases b <;> simp [maskNan] <;> simpa using ih as j hl hj

theorem construct_allnone : ∀ (n : Nat) (x : Vec), x.length = n → construct (List.replicate n none) x = x := by
  intro n
  induction n with
  | zero => intro x h; cases x <;> simp_all [construct]
  | succ n ih =>
    intro x h
    cases x with
    | nil => simp at h
    | cons a as => simp at h; simp [List.replicate_succ, construct, ih as h]

theorem construct_mask_zeros : ∀ (m : List Bool) (k : Nat),
    construct (m.map fun b => if b then some (0 : Rat) else none) (zeros k) = zeros m.length := by
  intro m
  induction m with
  | nil => intro k; simp [construct, zeros]
  | cons b m ih =>
    intro k
    cases b with
    | true => simp [construct, zeros, List.replicate_succ] at ih ⊢; exact ih k
    | false =>
      cases k with
      | zero => simp [construct, zeros, List.replicate_succ] at ih ⊢; exact ih 0
      | succ k => simp [construct, zeros, List.replicate_succ] at ih ⊢; exact ih k

theorem construct_vals_zeros : ∀ (v : List (Option Rat)) (k : Nat),
    construct v (zeros k) = List.zipWith (fun c x => c.getD x) v (zeros v.length) := by
  intro v
  induction v with
  | nil => intro k; simp [construct, zeros]
  | cons c v ih =>
    intro k
    cases c with
    | some q => simp [construct, zeros, List.replicate_succ] at ih ⊢; exact ih k
    | none =>
      cases k with
      | zero => simp [construct, zeros, List.replicate_succ] at ih ⊢; exact ih 0
      | succ k => simp [construct, zeros, List.replicate_succ] at ih ⊢; exact ih k

theorem construct_mask_sel : ∀ (m : List Bool) (a : Vec), m.length = a.length →
    construct (List.zipWith (fun b x => if b then some x else none) m a) (sel (m.map (!·)) a) = a := by
  intro m
  induction m with
  | nil => intro a h; cases a <;> simp_all [construct]
  | cons b m ih =>
    intro a h
    cases a with
    | nil => simp at h
    | cons x xs => simp at h; cases b <;> simp [construct, sel, ih xs h]

theorem construct_vals_sel : ∀ (v : List (Option Rat)) (a : Vec), v.length = a.length →
    construct v (sel (v.map Option.isNone) a) = List.zipWith (fun c x => c.getD x) v a := by
  intro v
  induction v with
  | nil => intro a h; cases a <;> simp_all [construct]
  | cons c v ih =>
    intro a h
    cases a with
    | nil => simp at h
    | cons x xs => simp at h; cases c <;> simp [construct, sel, ih xs h]

def consLength : Option Cons → Option Nat
  | none => none
  | some (.mask m) => some m.length
  | some (.vals v) => some v.length

theorem sel_length_count {α : Type} : ∀ (m : List Bool) (a : List α), m.length = a.length → (sel m a).length = count m := by
  intro m
  induction m with
  | nil => intro a h; cases a <;> simp_all [sel, count]
  | cons b m ih =>
    intro a h
    cases a with
    | nil => simp at h
    | cons x xs =>
      simp at h
      have := ih xs h
      cases b <;> simp_all [sel, count]

theorem count_replicate_true (n : Nat) : count (List.replicate n true) = n := by
  induction n with
  | zero => rfl
  | succ n ih => simp_all [count, List.replicate_succ]

theorem zipWith_isNone : ∀ (m : List Bool) (a : Vec), m.length = a.length →
    (List.zipWith (fun b x => if b then some x else none) m a).map Option.isNone = m.map (!·) := by
  intro m
  induction m with
  | nil => intro a h; simp
  | cons b m ih =>
    intro a h
    cases a with
    | nil => simp at h
    | cons x xs => simp at h; cases b <;> simp [ih xs h]

theorem prepCols_err {ncols : Nat} {lhs0 : Option Vec} {cons : Option Cons} {e : MErr}
    (h : prepCols ncols lhs0 cons = .error e) : e = .assertion := by
  unfold prepCols at h
  simp only at h
  split at h
  · cases h; rfl
  · cases cons with
    | none => cases h
    | some c =>
      cases c <;> simp only at h <;> split at h <;> cases h <;> rfl

theorem prepRows_err {nrows ncols : Nat} {J : List Bool} {cons : Option Cons} {rcons : Option (List Bool)} {e : MErr}
    (h : prepRows nrows ncols J cons rcons = .error e) : e = .assertion ∨ e = .attribute := by
  unfold prepRows at h
  cases rcons with
  | none => simp only at h; split at h <;> cases h; left; rfl
  | some r =>
    simp only at h
    split at h
    · cases h; left; rfl
    · cases cons with
      | none => cases h; right; rfl
      | some c => cases c <;> cases h; left; rfl

/-! ## independence of the initial guess -/

theorem agreeOff_length : ∀ (J : List Bool) (a b : Vec), agreeOff J a b → J.length = a.length ∧ J.length = b.length := by
  intro J
  induction J with
  | nil => intro a b h; cases a <;> cases b <;> simp_all [agreeOff]
  | cons c m ih =>
    intro a b h
    cases a with
    | nil => cases c <;> simp [agreeOff] at h
    | cons x xs =>
      cases b with
      | nil => cases c <;> simp [agreeOff] at h
      | cons z zs =>
        cases c with
        | true => have := ih xs zs (by simpa [agreeOff] using h); simp; omega
        | false => have := ih xs zs (by simp [agreeOff] at h; exact h.2); simp; omega

theorem agreeOff_scatterAdd : ∀ (J : List Bool) (y lhs : Vec), J.length = lhs.length → agreeOff J (scatterAdd J y lhs) lhs := by
  intro J
  induction J with
  | nil => intro y lhs h; cases lhs <;> simp_all [scatterAdd, agreeOff]
  | cons c m ih =>
    intro y lhs h
    cases lhs with
    | nil => simp at h
    | cons l ls =>
      simp at h
      cases c <;> cases y <;> simp [scatterAdd, agreeOff, ih _ _ h]

theorem agreeOff_trans : ∀ (J : List Bool) (a b c : Vec), agreeOff J a b → agreeOff J b c → agreeOff J a c := by
  intro J
  induction J with
  | nil => intro a b c h1 h2; cases a <;> cases b <;> cases c <;> simp_all [agreeOff]
  | cons k m ih =>
    intro a b c h1 h2
    cases a with
    | nil => cases k <;> simp [agreeOff] at h1
    | cons x xs =>
      cases b with
      | nil => cases k <;> simp [agreeOff] at h1
      | cons z zs =>
        cases c with
        | nil => cases k <;> simp [agreeOff] at h2
        | cons w ws =>
          cases k with
          | true => simp [agreeOff] at h1 h2 ⊢; exact ih _ _ _ h1 h2
          | false => simp [agreeOff] at h1 h2 ⊢; exact ⟨h1.1.trans h2.1, ih _ _ _ h1.2 h2.2⟩

theorem eq_scatterAdd_of_agreeOff : ∀ (J : List Bool) (x w : Vec), agreeOff J x w →
    x = scatterAdd J (vsub (sel J x) (sel J w)) w := by
  intro J
  induction J with
  | nil => intro x w h; cases x <;> cases w <;> simp_all [agreeOff, scatterAdd]
  | cons k m ih =>
    intro x w h
    cases x with
    | nil => cases k <;> simp [agreeOff] at h
    | cons a as =>
      cases w with
      | nil => cases k <;> simp [agreeOff] at h
      | cons b bs =>
        cases k with
        | true =>
          simp [agreeOff] at h
          simp only [sel, vsub, scatterAdd]
          rw [← ih as bs h]
          congr 1; grind
        | false =>
          simp [agreeOff] at h
          simp only [sel, scatterAdd]
          rw [← ih as bs h.2, h.1]

theorem vsub_length : ∀ (a b : Vec), a.length = b.length → (vsub a b).length = a.length := by
  intro a
  induction a with
  | nil => intro b h; cases b <;> simp_all [vsub]
  | cons x xs ih =>
    intro b h
    cases b with
    | nil => simp at h
    | cons y ys => simp at h; simp [vsub, ih ys h]

theorem vsub_left_cancel : ∀ (a b c : Vec), a.length = b.length → a.length = c.length → vsub a b = vsub a c → b = c := by
  intro a
  induction a with
  | nil => intro b c h1 h2 _; cases b <;> cases c <;> simp_all
  | cons x xs ih =>
    intro b c h1 h2 h
    cases b with
    | nil => simp at h1
    | cons y ys =>
      cases c with
      | nil => simp at h2
      | cons z zs =>
        simp at h1 h2
        simp [vsub] at h
        have := ih ys zs h1 h2 h.2
        subst this
        congr 1; grind

theorem vsub_self : ∀ (a : Vec), vsub a a = List.replicate a.length 0 := by
  intro a
  induction a with
  | nil => rfl
  | cons x xs ih => simp [vsub, ih, List.replicate_succ]; grind

end NutilsVerif.C14
