import NutilsVerif.Model.C13Ravel
import Mathlib.Tactic.Ring
/-! # C13 (e): the ravel loop of `Monomial._derivative` computes the row-major flat index -/
namespace NutilsVerif.C13

theorem shapeSize_cons (n : Nat) (s : List Nat) : shapeSize (n :: s) = n * shapeSize s := by
  simp [shapeSize]

theorem shapeSize_snoc (s : List Nat) (n : Nat) : shapeSize (s ++ [n]) = shapeSize s * n := by
  induction s with
  | nil => simp [shapeSize]
  | cons m s ih => rw [List.cons_append, shapeSize_cons, shapeSize_cons, ih]; ring

theorem flatIdx_snoc : ∀ (s idx : List Nat) (n i : Nat), idx.length = s.length →
    flatIdx (s ++ [n]) (idx ++ [i]) = flatIdx s idx * n + i
  | [], [], n, i, _ => by simp [flatIdx, shapeSize]
  | [], _ :: _, _, _, h => by simp at h
  | _ :: _, [], _, _, h => by simp at h
  | m :: s, j :: idx, n, i, h => by
    have h' : idx.length = s.length := by simpa using h
    simp only [List.cons_append, flatIdx]
    rw [flatIdx_snoc s idx n i h', shapeSize_snoc]; ring

/-- invariant of the loop: with the leading axes still to do held reversed (`rs`, `ridx`), a partial index `ri` and stride `rl`,
the loop ends in `ri + flatIdx s idx * rl` and `shapeSize s * rl`, `s` / `idx` the leading axes in their original order -/
theorem ravelLoop_rev : ∀ (rs ridx : List Nat) (ri rl : Nat), ridx.length = rs.length →
    ravelLoop ridx rs ri rl = some (ri + flatIdx rs.reverse ridx.reverse * rl, shapeSize rs.reverse * rl)
  | [], [], ri, rl, _ => by simp [ravelLoop, flatIdx, shapeSize]
  | [], _ :: _, _, _, h => by simp at h
  | _ :: _, [], _, _, h => by simp at h
  | n :: ns, i :: is, ri, rl, h => by
    have h' : is.length = ns.length := by simpa using h
    simp only [ravelLoop, List.reverse_cons]
    rw [ravelLoop_rev ns is _ _ h', flatIdx_snoc _ _ n i (by simpa using h'), shapeSize_snoc]
    congr 1; ext <;> simp <;> ring

theorem ravelLoop_spec (s idx : List Nat) (ri rl : Nat) (h : idx.length = s.length) :
    ravelLoop idx.reverse s.reverse ri rl = some (ri + flatIdx s idx * rl, shapeSize s * rl) := by
  have := ravelLoop_rev s.reverse idx.reverse ri rl (by simpa using h)
  simpa using this

theorem monomialRavel_snoc (s idx : List Nat) (rl ri : Nat) (hlen : idx.length = s.length) :
    monomialRavel (idx ++ [ri]) (s ++ [rl]) = some (flatIdx (s ++ [rl]) (idx ++ [ri]), shapeSize (s ++ [rl])) := by
  simp only [monomialRavel, List.reverse_append, List.reverse_cons, List.reverse_nil, List.nil_append, List.singleton_append]
  rw [ravelLoop_spec s idx ri rl hlen, flatIdx_snoc s idx rl ri hlen, shapeSize_snoc]
  congr 1; ext
  · simp only; ring
  · rfl

theorem monomialRavel_spec (indices lengths : List Nat) (h : indices.length = lengths.length) (hne : lengths ≠ []) :
    monomialRavel indices lengths = some (flatIdx lengths indices, shapeSize lengths) := by
  match hL : lengths.reverse, hI : indices.reverse with
  | [], _ => exact absurd (by simpa using hL) hne
  | _ :: _, [] =>
    have : indices = [] := by simpa using hI
    subst this
    exact absurd (List.eq_nil_of_length_eq_zero (by simpa using h.symm)) hne
  | rl :: ns, ri :: is =>
    have e1 : lengths = ns.reverse ++ [rl] := by have := congrArg List.reverse hL; simpa using this
    have e2 : indices = is.reverse ++ [ri] := by have := congrArg List.reverse hI; simpa using this
    subst e1; subst e2
    exact monomialRavel_snoc _ _ _ _ (by simpa using h)

end NutilsVerif.C13
