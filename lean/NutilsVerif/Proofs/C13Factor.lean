import NutilsVerif.Model.C13
import Mathlib.Algebra.BigOperators.Group.List.Basic
import Mathlib.Algebra.Order.Field.Rat
import Mathlib.Data.Nat.Factorial.Basic
import Mathlib.Data.List.Nodup
import Mathlib.Tactic.Ring
import Mathlib.Tactic.FieldSimp
import Mathlib.Tactic.Linarith
/-!
# C13 (d): the Taylor reassembly of `evaluable.factor` reproduces the polynomial
-/
namespace NutilsVerif.C13
namespace MPoly

/-! ### evaluation is a sum of products -/

theorem evalMono_eq (x : Nat → Rat) (m : Mono) : evalMono x m = (m.map x).prod := by
  unfold evalMono
  induction m with
  | nil => rfl
  | cons a t ih => simp [ih]

theorem eval_eq (x : Nat → Rat) (p : MPoly) : eval x p = (p.map fun t => t.1 * evalMono x t.2).sum := by
  unfold eval
  induction p with
  | nil => rfl
  | cons a t ih => simp only [List.map_cons, List.foldr, List.sum_cons]; rw [ih]

@[simp] theorem eval_nil (x : Nat → Rat) : eval x [] = 0 := rfl

theorem eval_cons (x : Nat → Rat) (t : Rat × Mono) (p : MPoly) :
    eval x (t :: p) = t.1 * evalMono x t.2 + eval x p := by
  simp [eval_eq]

theorem eval_append (x : Nat → Rat) (p q : MPoly) : eval x (p ++ q) = eval x p + eval x q := by
  simp [eval_eq]

theorem eval_flatten (x : Nat → Rat) (l : List MPoly) : eval x l.flatten = (l.map (eval x)).sum := by
  induction l with
  | nil => rfl
  | cons a t ih => simp [eval_append, ih]

theorem evalMono_append (x : Nat → Rat) (a b : Mono) : evalMono x (a ++ b) = evalMono x a * evalMono x b := by
  simp [evalMono_eq]

theorem evalMono_erase (x : Nat → Rat) (a : Nat) (m : Mono) (h : a ∈ m) :
    evalMono x m = x a * evalMono x (m.erase a) := by
  induction m with
  | nil => cases h
  | cons b t ih =>
    by_cases e : b = a
    · subst e; simp [evalMono_eq]
    · have hb : (b == a) = false := by simpa using e
      have ht : a ∈ t := by
        rcases List.mem_cons.1 h with h | h
        · exact absurd h.symm e
        · exact h
      rw [List.erase_cons, hb]
      simp only [evalMono_eq, List.map_cons, List.prod_cons, Bool.false_eq_true, if_false] at ih ⊢
      rw [ih ht]; ring

theorem evalMono_zero_of_ne_nil (m : Mono) (h : m ≠ []) : evalMono (fun _ => (0 : Rat)) m = 0 := by
  cases m with
  | nil => exact absurd rfl h
  | cons a t => simp [evalMono_eq]

theorem zeroed_single (c : Rat) (m : Mono) : zeroed [(c, m)] = if m = [] then c else 0 := by
  unfold zeroed
  rw [eval_cons, eval_nil]
  by_cases h : m = []
  · subst h; simp [evalMono_eq]
  · simp [h, evalMono_zero_of_ne_nil m h]

theorem zeroed_append (p q : MPoly) : zeroed (p ++ q) = zeroed p + zeroed q := eval_append _ p q

/-! ### the emitted polynomial is additive in the analysed function -/

theorem factorAux_eval_succ (vars : List Nat) (x : Nat → Rat) (fuel : Nat) (args : List Nat) (g : MPoly) :
    eval x (factorAux vars (fuel + 1) args g) = zeroed g * evalMono x args +
      ((vars.filter (allowed args)).map fun a =>
        eval x (factorAux vars fuel (args ++ [a]) (scale (1 / ((args.count a : Rat) + 1)) (deriv a g)))).sum := by
  simp only [factorAux, eval_cons, eval_flatten, List.map_map]
  rfl

theorem factorAux_eval_zero (vars : List Nat) (x : Nat → Rat) (args : List Nat) (g : MPoly) :
    eval x (factorAux vars 0 args g) = zeroed g * evalMono x args := by
  simp [factorAux, eval_cons]

theorem factorAux_additive (vars : List Nat) (x : Nat → Rat) :
    ∀ fuel args g1 g2, eval x (factorAux vars fuel args (g1 ++ g2)) =
      eval x (factorAux vars fuel args g1) + eval x (factorAux vars fuel args g2) := by
  intro fuel
  induction fuel with
  | zero => intro args g1 g2; simp only [factorAux_eval_zero, zeroed_append]; ring
  | succ fuel ih =>
    intro args g1 g2
    simp only [factorAux_eval_succ, zeroed_append]
    have : ∀ a, scale (1 / ((args.count a : Rat) + 1)) (deriv a (g1 ++ g2)) =
        scale (1 / ((args.count a : Rat) + 1)) (deriv a g1) ++ scale (1 / ((args.count a : Rat) + 1)) (deriv a g2) := by
      intro a; simp [scale, deriv]
    simp only [this, ih, List.sum_map_add]
    ring

theorem factorAux_nil (vars : List Nat) (x : Nat → Rat) : ∀ fuel args, eval x (factorAux vars fuel args []) = 0 := by
  intro fuel
  induction fuel with
  | zero => intro args; simp [factorAux_eval_zero, zeroed]
  | succ fuel ih =>
    intro args
    simp only [factorAux_eval_succ]
    simp [zeroed, scale, deriv, ih]

theorem factorAux_sum (vars : List Nat) (x : Nat → Rat) (fuel : Nat) (args : List Nat) (g : MPoly) :
    eval x (factorAux vars fuel args g) = (g.map fun t => eval x (factorAux vars fuel args [t])).sum := by
  induction g with
  | nil => simp [factorAux_nil]
  | cons t g ih =>
    have := factorAux_additive vars x fuel args [t] g
    simp only [List.singleton_append] at this
    rw [this, ih]; simp

theorem factorAux_zero_coeff (vars : List Nat) (x : Nat → Rat) :
    ∀ fuel args m, eval x (factorAux vars fuel args [((0 : Rat), m)]) = 0 := by
  intro fuel
  induction fuel with
  | zero => intro args m; simp [factorAux_eval_zero, zeroed_single]
  | succ fuel ih =>
    intro args m
    have : ∀ a, scale (1 / ((args.count a : Rat) + 1)) (deriv a [((0 : Rat), m)]) = [((0 : Rat), m.erase a)] := by
      intro a; simp [scale, deriv]
    simp only [factorAux_eval_succ, zeroed_single, this, ih]
    simp

/-! ### bookkeeping of the multiplicities -/

/-- n!·k!/(n+k)! -/
def rho (n k : Nat) : Rat := ((n.factorial : Rat) * (k.factorial : Rat)) / ((n + k).factorial : Rat)

theorem rho_zero_right (n : Nat) : rho n 0 = 1 := by
  unfold rho
  have : (n.factorial : Rat) ≠ 0 := by exact_mod_cast Nat.factorial_ne_zero n
  simp [this]

theorem rho_zero_left (k : Nat) : rho 0 k = 1 := by
  unfold rho
  have : (k.factorial : Rat) ≠ 0 := by exact_mod_cast Nat.factorial_ne_zero k
  simp [this]

theorem rho_step (n j : Nat) : rho n (j + 1) = (((j + 1 : Nat) : Rat) / ((n : Rat) + 1)) * rho (n + 1) j := by
  unfold rho
  have h1 : ((n + (j + 1)).factorial : Rat) ≠ 0 := by exact_mod_cast Nat.factorial_ne_zero _
  have h2 : ((n : Rat) + 1) ≠ 0 := by
    have : (0 : Rat) ≤ (n : Rat) := by exact_mod_cast Nat.zero_le n
    linarith
  have e : n + 1 + j = n + (j + 1) := by omega
  rw [e]
  rw [Nat.factorial_succ j, Nat.factorial_succ n]
  push_cast
  field_simp

/-- product over all arguments of the multiplicity ratio -/
def ratio (vars args : List Nat) (m : Mono) : Rat := (vars.map fun v => rho (args.count v) (m.count v)).prod

theorem prod_change_one {l : List Nat} (hnd : l.Nodup) {a : Nat} (ha : a ∈ l) (f g : Nat → Rat) (q : Rat)
    (hne : ∀ v, v ≠ a → f v = g v) (hq : f a = q * g a) : (l.map f).prod = q * (l.map g).prod := by
  induction l with
  | nil => cases ha
  | cons h t ih =>
    rw [List.nodup_cons] at hnd
    by_cases e : h = a
    · subst e
      have : t.map f = t.map g := List.map_congr_left fun v hv => hne v (fun e => hnd.1 (e ▸ hv))
      simp only [List.map_cons, List.prod_cons, this, hq]; ring
    · have hat : a ∈ t := by
        rcases List.mem_cons.1 ha with h' | h'
        · exact absurd h'.symm e
        · exact h'
      simp only [List.map_cons, List.prod_cons, ih hnd.2 hat, hne h e]; ring

theorem sum_single {l : List Nat} (hnd : l.Nodup) {a : Nat} (ha : a ∈ l) (f : Nat → Rat)
    (h0 : ∀ v ∈ l, v ≠ a → f v = 0) : (l.map f).sum = f a := by
  induction l with
  | nil => cases ha
  | cons h t ih =>
    rw [List.nodup_cons] at hnd
    by_cases e : h = a
    · subst e
      have : (t.map f).sum = 0 := by
        apply List.sum_eq_zero
        intro y hy
        obtain ⟨v, hv, rfl⟩ := List.mem_map.1 hy
        exact h0 v (List.mem_cons_of_mem _ hv) (fun e => hnd.1 (e ▸ hv))
      simp [this]
    · have hat : a ∈ t := by
        rcases List.mem_cons.1 ha with h' | h'
        · exact absurd h'.symm e
        · exact h'
      simp only [List.map_cons, List.sum_cons, h0 h (by simp) e, zero_add]
      exact ih hnd.2 hat fun v hv => h0 v (List.mem_cons_of_mem _ hv)

theorem ratio_nil_right (vars args : List Nat) : ratio vars args [] = 1 := by
  unfold ratio
  apply List.prod_eq_one
  intro y hy
  obtain ⟨v, _, rfl⟩ := List.mem_map.1 hy
  simp [rho_zero_right]

theorem ratio_nil_left (vars : List Nat) (m : Mono) : ratio vars [] m = 1 := by
  unfold ratio
  apply List.prod_eq_one
  intro y hy
  obtain ⟨v, _, rfl⟩ := List.mem_map.1 hy
  simp [rho_zero_left]

theorem ratio_step (vars : List Nat) (hnd : vars.Nodup) (args : List Nat) (m : Mono) (a : Nat)
    (hav : a ∈ vars) (ham : a ∈ m) :
    ratio vars args m = ((m.count a : Rat) / ((args.count a : Rat) + 1)) * ratio vars (args ++ [a]) (m.erase a) := by
  unfold ratio
  apply prod_change_one hnd hav
  · intro v hv
    have h1 : (args ++ [a]).count v = args.count v := by
      simp [List.count_append, hv.symm]
    have h2 : (m.erase a).count v = m.count v := by
      rw [List.count_erase_of_ne hv]
    rw [h1, h2]
  · obtain ⟨j, hj⟩ : ∃ j, m.count a = j + 1 := ⟨m.count a - 1, by have := List.count_pos_iff.2 ham; omega⟩
    have h1 : (args ++ [a]).count a = args.count a + 1 := by simp [List.count_append]
    have h2 : (m.erase a).count a = j := by rw [List.count_erase_self, hj]; rfl
    rw [h1, h2, hj]
    exact rho_step _ _

/-! ### one monomial -/

/-- every variable of `m` is an argument and may still be appended to `args` -/
def Compat (vars args : List Nat) (m : Mono) : Prop := ∀ v ∈ m, v ∈ vars ∧ allowed args v = true

theorem allowed_append (args : List Nat) (a v : Nat) : allowed (args ++ [a]) v = decide (a ≤ v) := by
  simp [allowed]

theorem allowed_trans (args : List Nat) (a v : Nat) (ha : allowed args a = true) (hv : allowed args v = false) : v < a := by
  unfold allowed at ha hv
  cases h : args.getLast? with
  | none => simp [h] at hv
  | some b => simp [h] at ha hv; omega

theorem exists_min (m : List Nat) (h : m ≠ []) : ∃ a ∈ m, ∀ v ∈ m, a ≤ v := by
  induction m with
  | nil => exact absurd rfl h
  | cons b t ih =>
    cases t with
    | nil => exact ⟨b, by simp, by simp⟩
    | cons c t' =>
      obtain ⟨a, ha, hmin⟩ := ih (by simp)
      by_cases hba : b ≤ a
      · exact ⟨b, by simp, fun v hv => by
          rcases List.mem_cons.1 hv with rfl | hv
          · exact Nat.le_refl _
          · exact Nat.le_trans hba (hmin v hv)⟩
      · exact ⟨a, List.mem_cons_of_mem _ ha, fun v hv => by
          rcases List.mem_cons.1 hv with rfl | hv
          · omega
          · exact hmin v hv⟩

theorem deriv_scale_single (q c : Rat) (a : Nat) (m : Mono) :
    scale q (deriv a [(c, m)]) = [(q * (c * (m.count a : Rat)), m.erase a)] := by
  simp [scale, deriv]

open Classical in
theorem factorAux_single (vars : List Nat) (hnd : vars.Nodup) (x : Nat → Rat) :
    ∀ fuel args c m, m.length ≤ fuel →
      eval x (factorAux vars fuel args [(c, m)]) =
        if Compat vars args m then c * evalMono x args * evalMono x m * ratio vars args m else 0 := by
  intro fuel
  induction fuel with
  | zero =>
    intro args c m hlen
    have : m = [] := List.eq_nil_of_length_eq_zero (by omega)
    subst this
    have hc : Compat vars args [] := by intro v hv; cases hv
    simp [factorAux_eval_zero, zeroed_single, hc, ratio_nil_right, evalMono_eq]
  | succ fuel ih =>
    intro args c m hlen
    rw [factorAux_eval_succ]
    simp only [deriv_scale_single]
    by_cases hm : m = []
    · subst hm
      have hc : Compat vars args [] := by intro v hv; cases hv
      simp [zeroed_single, hc, ratio_nil_right, evalMono_eq, factorAux_zero_coeff]
    · rw [zeroed_single, if_neg hm, zero_mul, zero_add]
      -- every term with `a ∉ m` vanishes
      have hnotmem : ∀ a, a ∉ m → eval x (factorAux vars fuel (args ++ [a]) [(1 / ((args.count a : Rat) + 1) * (c * (m.count a : Rat)), m.erase a)]) = 0 := by
        intro a ha
        have : (1 / ((args.count a : Rat) + 1) * (c * (m.count a : Rat))) = 0 := by
          rw [List.count_eq_zero_of_not_mem ha]; simp
        rw [this]; exact factorAux_zero_coeff vars x fuel _ _
      have hmem : ∀ a, a ∈ m → (m.erase a).length ≤ fuel := by
        intro a ha
        rw [List.length_erase_of_mem ha]; omega
      by_cases hc : Compat vars args m
      · rw [if_pos hc]
        obtain ⟨a0, ha0, hmin⟩ := exists_min m hm
        have ha0F : a0 ∈ vars.filter (allowed args) := List.mem_filter.2 ⟨(hc a0 ha0).1, (hc a0 ha0).2⟩
        rw [sum_single (hnd.filter _) ha0F]
        · rw [ih _ _ _ (hmem a0 ha0)]
          have hc' : Compat vars (args ++ [a0]) (m.erase a0) := by
            intro v hv
            have hvm : v ∈ m := List.mem_of_mem_erase hv
            exact ⟨(hc v hvm).1, by rw [allowed_append]; simpa using hmin v hvm⟩
          rw [if_pos hc', ratio_step vars hnd args m a0 (hc a0 ha0).1 ha0, evalMono_erase x a0 m ha0,
            evalMono_append]
          have h2 : ((args.count a0 : Rat) + 1) ≠ 0 := by
            have : (0 : Rat) ≤ (args.count a0 : Rat) := by exact_mod_cast Nat.zero_le _
            linarith
          simp only [evalMono_eq, List.map_cons, List.map_nil, List.prod_cons, List.prod_nil]
          field_simp
        · intro a haF hne
          by_cases ham : a ∈ m
          · rw [ih _ _ _ (hmem a ham)]
            have : ¬ Compat vars (args ++ [a]) (m.erase a) := by
              intro hcc
              have h0 : a0 ∈ m.erase a := (List.mem_erase_of_ne (Ne.symm hne)).2 ha0
              have := (hcc a0 h0).2
              rw [allowed_append] at this
              have h1 : a ≤ a0 := by simpa using this
              have h2 : a0 ≤ a := hmin a ham
              exact hne (Nat.le_antisymm h1 h2)
            rw [if_neg this]
          · exact hnotmem a ham
      · rw [if_neg hc]
        apply List.sum_eq_zero
        intro y hy
        obtain ⟨a, haF, rfl⟩ := List.mem_map.1 hy
        obtain ⟨hav, haa⟩ := List.mem_filter.1 haF
        by_cases ham : a ∈ m
        · rw [ih _ _ _ (hmem a ham)]
          have : ¬ Compat vars (args ++ [a]) (m.erase a) := by
            intro hcc
            apply hc
            intro v hv
            by_cases hva : v = a
            · subst hva; exact ⟨hav, haa⟩
            · have hv' : v ∈ m.erase a := (List.mem_erase_of_ne hva).2 hv
              refine ⟨(hcc v hv').1, ?_⟩
              have h1 := (hcc v hv').2
              rw [allowed_append] at h1
              have h1 : a ≤ v := by simpa using h1
              by_contra hcon
              have hcon : allowed args v = false := by simpa using hcon
              have := allowed_trans args a v haa hcon
              omega
          rw [if_neg this]
        · exact hnotmem a ham

/-- **`factor_sound`** on the model: the polynomial emitted by the queue of `evaluable.factor` has the same
value as the analysed polynomial, for every argument value -/
theorem factor_eval (vars : List Nat) (hnd : vars.Nodup) (N : Nat) (p : MPoly)
    (hp : ∀ t ∈ p, t.2.length ≤ N ∧ ∀ v ∈ t.2, v ∈ vars) (x : Nat → Rat) :
    eval x (factor vars N p) = eval x p := by
  unfold factor
  rw [factorAux_sum, eval_eq]
  congr 1
  apply List.map_congr_left
  intro t ht
  obtain ⟨c, m⟩ := t
  rw [factorAux_single vars hnd x N [] c m (hp _ ht).1]
  have hc : Compat vars [] m := fun v hv => ⟨(hp _ ht).2 v hv, by simp [allowed]⟩
  rw [if_pos hc, ratio_nil_left]
  simp [evalMono_eq]

/-- `degree` is a valid fuel -/
theorem length_le_degree (p : MPoly) : ∀ t ∈ p, t.2.length ≤ degree p := by
  unfold degree
  induction p with
  | nil => intro t ht; cases ht
  | cons a rest ih =>
    intro t ht
    simp only [List.map_cons, List.foldr]
    rcases List.mem_cons.1 ht with rfl | ht
    · exact Nat.le_max_left _ _
    · exact Nat.le_trans (ih t ht) (Nat.le_max_right _ _)

end MPoly
end NutilsVerif.C13
