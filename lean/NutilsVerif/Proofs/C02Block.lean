import NutilsVerif.Model.C02
/-!
# C02 — block ids: `max` in Python's tuple order, and the order in which the assembled script executes the blocks
-/
namespace NutilsVerif.C02

theorem lexLt_irrefl (a : BlockId) : lexLt a a = false := by
  induction a with
  | nil => rfl
  | cons x xs ih => simp [lexLt, ih]

theorem lexLt_trans {a b c : BlockId} (h1 : lexLt a b = true) (h2 : lexLt b c = true) : lexLt a c = true := by
  induction a generalizing b c with
  | nil =>
    cases b with
    | nil => simp [lexLt] at h1
    | cons y ys => cases c with
      | nil => simp [lexLt] at h2
      | cons z zs => rfl
  | cons x xs ih =>
    cases b with
    | nil => simp [lexLt] at h1
    | cons y ys =>
      cases c with
      | nil => simp [lexLt] at h2
      | cons z zs =>
        simp only [lexLt, Bool.or_eq_true, decide_eq_true_eq, Bool.and_eq_true, beq_iff_eq] at h1 h2 ⊢
        rcases h1 with h1 | ⟨e1, l1⟩
        · rcases h2 with h2 | ⟨e2, _⟩
          · exact Or.inl (Nat.lt_trans h1 h2)
          · exact Or.inl (e2 ▸ h1)
        · rcases h2 with h2 | ⟨e2, l2⟩
          · exact Or.inl (e1 ▸ h2)
          · exact Or.inr ⟨e1.trans e2, ih l1 l2⟩

theorem lexLt_total (a b : BlockId) : lexLt a b = true ∨ a = b ∨ lexLt b a = true := by
  induction a generalizing b with
  | nil => cases b with
    | nil => exact Or.inr (Or.inl rfl)
    | cons y ys => exact Or.inl rfl
  | cons x xs ih =>
    cases b with
    | nil => exact Or.inr (Or.inr rfl)
    | cons y ys =>
      simp only [lexLt, Bool.or_eq_true, decide_eq_true_eq, Bool.and_eq_true, beq_iff_eq, List.cons.injEq]
      rcases Nat.lt_trichotomy x y with h | h | h
      · exact Or.inl (Or.inl h)
      · subst h
        rcases ih ys with h | h | h
        · exact Or.inl (Or.inr ⟨rfl, h⟩)
        · exact Or.inr (Or.inl ⟨rfl, h⟩)
        · exact Or.inr (Or.inr (Or.inr ⟨rfl, h⟩))
      · exact Or.inr (Or.inr (Or.inl h))

/-- `a ≤ b` in Python's tuple order -/
def lexLe (a b : BlockId) : Prop := lexLt b a = false

theorem lexLe_refl (a : BlockId) : lexLe a a := lexLt_irrefl a

theorem lexLe_trans {a b c : BlockId} (h1 : lexLe a b) (h2 : lexLe b c) : lexLe a c := by
  unfold lexLe at *
  cases h : lexLt c a with
  | false => rfl
  | true =>
    rcases lexLt_total a b with hab | hab | hab
    · rw [lexLt_trans h hab] at h2; cases h2
    · subst hab; rw [h] at h2; cases h2
    · rw [hab] at h1; cases h1

theorem lexLe_of_lt {a b : BlockId} (h : lexLt a b = true) : lexLe a b := by
  unfold lexLe
  cases h' : lexLt b a with
  | false => rfl
  | true => have := lexLt_trans h h'; rw [lexLt_irrefl] at this; cases this

theorem bmax_ge_left (a b : BlockId) : lexLe a (bmax a b) := by
  unfold bmax
  cases h : lexLt a b with
  | true => simpa using lexLe_of_lt h
  | false => simpa using lexLe_refl a

theorem bmax_ge_right (a b : BlockId) : lexLe b (bmax a b) := by
  unfold bmax
  cases h : lexLt a b with
  | true => simpa using lexLe_refl b
  | false => simpa [lexLe] using h

theorem foldl_bmax_ge (ds : List BlockId) (acc : BlockId) :
    lexLe acc (ds.foldl bmax acc) ∧ ∀ d, d ∈ ds → lexLe d (ds.foldl bmax acc) := by
  induction ds generalizing acc with
  | nil => exact ⟨lexLe_refl _, fun _ h => by cases h⟩
  | cons x xs ih =>
    simp only [List.foldl_cons]
    obtain ⟨h1, h2⟩ := ih (bmax acc x)
    refine ⟨lexLe_trans (bmax_ge_left _ _) h1, ?_⟩
    intro d hd
    cases hd with
    | head => exact lexLe_trans (bmax_ge_right _ _) h1
    | tail _ h => exact h2 d h

theorem foldl_bmax_mem (ds : List BlockId) (acc : BlockId) : ds.foldl bmax acc = acc ∨ ds.foldl bmax acc ∈ ds := by
  induction ds generalizing acc with
  | nil => exact Or.inl rfl
  | cons x xs ih =>
    simp only [List.foldl_cons]
    rcases ih (bmax acc x) with h | h
    · rw [h]
      unfold bmax
      cases lexLt acc x with
      | true => exact Or.inr (List.mem_cons_self ..)
      | false => exact Or.inl rfl
    · exact Or.inr (List.mem_cons_of_mem _ h)

/-! ## execution order of the assembled blocks -/

theorem lexLt_append_left (p a b : List Nat) : lexLt (p ++ a) (p ++ b) = lexLt a b := by
  induction p with
  | nil => rfl
  | cons x xs ih => simp [lexLt, ih]

/-- `id` lies in the level with prefix `p`, at position `≥ k` -/
def Under (p : List Nat) (k : Nat) (id : BlockId) : Prop := ∃ k' r, id = p ++ k' :: r ∧ k ≤ k'

mutual
theorem flatIds_under : ∀ (t : LoopTree) (p : List Nat) (id : BlockId), id ∈ flatIds t p → Under p 0 id
  | .node cs, p, id, h => flatFrom_under cs p 0 id (by simpa [flatIds] using h)
theorem flatFrom_under : ∀ (cs : List LoopTree) (p : List Nat) (k : Nat) (id : BlockId), id ∈ flatFrom cs p k → Under p k id
  | [], p, k, id, h => by
    simp only [flatFrom, List.mem_singleton] at h
    exact ⟨k, [], h, Nat.le_refl _⟩
  | c :: cs, p, k, id, h => by
    simp only [flatFrom, List.mem_cons, List.mem_append] at h
    rcases h with h | h | h
    · exact ⟨k, [], h, Nat.le_refl _⟩
    · obtain ⟨k', r, e, _⟩ := flatIds_under c (p ++ [k]) id h
      exact ⟨k, k' :: r, by rw [e]; simp, Nat.le_refl _⟩
    · obtain ⟨k', r, e, hk⟩ := flatFrom_under cs p (k+1) id h
      exact ⟨k', r, e, by omega⟩
end

theorem lt_of_under {p : List Nat} {k : Nat} {id : BlockId} (r : List Nat) (h : Under p (k+1) id) :
    lexLt (p ++ k :: r) id = true := by
  obtain ⟨k', r', e, hk⟩ := h
  rw [e, lexLt_append_left]
  simp only [lexLt, Bool.or_eq_true, decide_eq_true_eq]
  exact Or.inl (by omega)

theorem lt_of_under_child {p : List Nat} {k : Nat} {id : BlockId} (h : Under (p ++ [k]) 0 id) :
    lexLt (p ++ [k]) id = true := by
  obtain ⟨k', r', e, _⟩ := h
  rw [e]
  have : p ++ [k] = (p ++ [k]) ++ [] := by simp
  rw [this, List.append_assoc (p ++ [k]) [] (k' :: r'), lexLt_append_left]
  rfl

mutual
theorem flatIds_sorted : ∀ (t : LoopTree) (p : List Nat), (flatIds t p).Pairwise (fun a b => lexLt a b = true)
  | .node cs, p => by simpa [flatIds] using flatFrom_sorted cs p 0
theorem flatFrom_sorted : ∀ (cs : List LoopTree) (p : List Nat) (k : Nat), (flatFrom cs p k).Pairwise (fun a b => lexLt a b = true)
  | [], p, k => by simp [flatFrom]
  | c :: cs, p, k => by
    simp only [flatFrom]
    rw [List.pairwise_cons, List.pairwise_append]
    refine ⟨?_, flatIds_sorted c (p ++ [k]), flatFrom_sorted cs p (k+1), ?_⟩
    · intro id hid
      rcases List.mem_append.1 hid with h | h
      · exact lt_of_under_child (flatIds_under c (p ++ [k]) id h)
      · have := lt_of_under (k := k) [] (flatFrom_under cs p (k+1) id h)
        simpa using this
    · intro a ha b hb
      obtain ⟨k', r, e, _⟩ := flatIds_under c (p ++ [k]) a ha
      have := lt_of_under (k := k) (k' :: r) (flatFrom_under cs p (k+1) b hb)
      rw [e]
      simpa using this
end

end NutilsVerif.C02
