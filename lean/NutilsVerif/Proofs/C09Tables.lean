import NutilsVerif.Model.C09
import NutilsVerif.Generated.C09
/-!
# C09 — the extracted simplex Gauss tables satisfy `tableOK` (re-proved whenever `Generated/C09.lean` changes)
-/
namespace NutilsVerif.C09

theorem tri_tables_ok : ∀ t ∈ Gen.triTables, tableOK 2 t = true := by decide +kernel

theorem tet_tables_ok : ∀ t ∈ Gen.tetTables, tableOK 3 t = true := by decide +kernel

end NutilsVerif.C09
