import NutilsVerif.Model.C10
/-!
# C10 (a) — helper lemmas: hierarchical refinement keeps a partition
-/
namespace NutilsVerif.C10

/-! ### `Anc` / `Apart` -/

theorem Apart.symm {a b : Cell} (h : Apart a b) : Apart b a := ⟨h.2, h.1⟩

theorem anc_child_iff (a c : Cell) (k : Nat) :
    Anc a (c.child k) ↔ a = c.child k ∨ Anc a c := by
  unfold Anc Cell.child
  simp only
  rw [List.prefix_concat_iff]
  constructor
  · rintro ⟨hb, h | h⟩
    · left; cases a; simp_all
    · right; exact ⟨hb, h⟩
  · rintro (h | ⟨hb, h⟩)
    · subst h; exact ⟨rfl, Or.inl rfl⟩
    · exact ⟨hb, Or.inr h⟩

theorem anc_of_child_anc {c x : Cell} {k : Nat} (h : Anc (c.child k) x) : Anc c x := by
  unfold Anc Cell.child at *
  exact ⟨h.1, List.IsPrefix.trans (List.prefix_append _ _) h.2⟩

theorem anc_child_self (c : Cell) (k : Nat) : Anc c (c.child k) :=
  ⟨rfl, List.prefix_append _ _⟩

/-- a cell that is apart from `c` is apart from every child of `c` -/
theorem Apart.child {a c : Cell} (h : Apart a c) (k : Nat) : Apart a (c.child k) := by
  refine ⟨fun h1 => ?_, fun h2 => h.2 (anc_of_child_anc h2)⟩
  rcases (anc_child_iff a c k).1 h1 with h1 | h1
  · subst h1; exact h.2 (anc_child_self c k)
  · exact h.1 h1

/-- different children of one cell are apart -/
theorem apart_children (c : Cell) {j k : Nat} (h : j ≠ k) : Apart (c.child j) (c.child k) := by
  have key : ∀ j k : Nat, j ≠ k → ¬ Anc (c.child j) (c.child k) := by
    intro j k h hA
    rcases (anc_child_iff _ c k).1 hA with h1 | h1
    · unfold Cell.child at h1
      have := congrArg Cell.path h1
      simp at this
      exact h this
    · have := h1.2.length_le
      simp [Cell.child] at this
      omega
  exact ⟨key j k h, key k j (Ne.symm h)⟩

theorem pairwise_children (d : Nat) (c : Cell) : (children d c).Pairwise Apart := by
  unfold children
  rw [List.pairwise_map]
  have : (List.range (2 ^ d)).Pairwise (· ≠ ·) := List.nodup_range
  exact this.imp (fun h => apart_children c h)

/-! ### refinement relation -/

/-- `Refines d cs cs'`: `cs'` arises from `cs` by replacing some cells by their children, in place -/
inductive Refines (d : Nat) : List Cell → List Cell → Prop
  | nil : Refines d [] []
  | keep (c : Cell) {cs cs' : List Cell} : Refines d cs cs' → Refines d (c :: cs) (c :: cs')
  | split (c : Cell) {cs cs' : List Cell} : Refines d cs cs' → Refines d (c :: cs) (children d c ++ cs')

theorem refines_flatMap_children (d : Nat) (cs : List Cell) : Refines d cs (cs.flatMap (children d)) := by
  induction cs with
  | nil => exact .nil
  | cons c cs ih => rw [List.flatMap_cons]; exact .split c ih

theorem refines_zipIdx (d : Nat) (sel : List Nat) (cs : List Cell) (n : Nat) :
    Refines d cs ((cs.zipIdx n).flatMap fun ci => if sel.contains ci.2 then children d ci.1 else [ci.1]) := by
  induction cs generalizing n with
  | nil => exact .nil
  | cons c cs ih =>
    rw [List.zipIdx_cons, List.flatMap_cons]
    by_cases h : sel.contains n
    · simp only [h, if_true]; exact .split c (ih (n + 1))
    · simp only [h]; exact .keep c (ih (n + 1))

theorem refines_refineSel (d : Nat) (cs : List Cell) (sel : List Nat) : Refines d cs (refineSel d cs sel) :=
  refines_zipIdx d sel cs 0

/-- every cell of the refined list is a cell of the original list or a child of one -/
theorem Refines.source {d : Nat} {cs cs' : List Cell} (h : Refines d cs cs') :
    ∀ x ∈ cs', ∃ c ∈ cs, x = c ∨ ∃ k, x = c.child k := by
  induction h with
  | nil => intro x hx; cases hx
  | keep c _ ih =>
    intro x hx
    rcases List.mem_cons.1 hx with rfl | hx
    · exact ⟨x, List.mem_cons_self, Or.inl rfl⟩
    · obtain ⟨c', hc', h'⟩ := ih x hx
      exact ⟨c', List.mem_cons_of_mem _ hc', h'⟩
  | split c _ ih =>
    intro x hx
    rcases List.mem_append.1 hx with hx | hx
    · unfold children at hx
      obtain ⟨k, _, rfl⟩ := List.mem_map.1 hx
      exact ⟨c, List.mem_cons_self, Or.inr ⟨k, rfl⟩⟩
    · obtain ⟨c', hc', h'⟩ := ih x hx
      exact ⟨c', List.mem_cons_of_mem _ hc', h'⟩

theorem Refines.pairwise {d : Nat} {cs cs' : List Cell} (h : Refines d cs cs') (hp : cs.Pairwise Apart) :
    cs'.Pairwise Apart := by
  induction h with
  | nil => exact List.Pairwise.nil
  | keep c hr ih =>
    rw [List.pairwise_cons] at hp ⊢
    refine ⟨fun x hx => ?_, ih hp.2⟩
    obtain ⟨c', hc', rfl | ⟨k, rfl⟩⟩ := hr.source x hx
    · exact hp.1 _ hc'
    · exact (hp.1 _ hc').child k
  | split c hr ih =>
    rw [List.pairwise_cons] at hp
    rw [List.pairwise_append]
    refine ⟨pairwise_children d c, ih hp.2, fun a ha b hb => ?_⟩
    unfold children at ha
    obtain ⟨j, _, rfl⟩ := List.mem_map.1 ha
    obtain ⟨c', hc', rfl | ⟨k, rfl⟩⟩ := hr.source b hb
    · exact ((hp.1 _ hc').symm.child j).symm
    · exact (((hp.1 _ hc').child k).symm.child j).symm

/-! ### measure -/

theorem measure_cons (d L : Nat) (c : Cell) (cs : List Cell) :
    measure d L (c :: cs) = weight d L c + measure d L cs := by
  simp [measure]

theorem measure_append (d L : Nat) (as bs : List Cell) :
    measure d L (as ++ bs) = measure d L as + measure d L bs := by
  simp [measure, List.sum_append]

theorem sum_replicate_nat (n a : Nat) : (List.replicate n a).sum = n * a := by
  induction n with
  | zero => simp
  | succ n ih => rw [List.replicate_succ, List.sum_cons, ih, Nat.succ_mul, Nat.add_comm]

theorem measure_children (d L : Nat) (c : Cell) (h : c.level + 1 ≤ L) :
    measure d L (children d c) = weight d L c := by
  unfold measure children weight
  rw [List.map_map]
  have : (weight d L ∘ c.child) = fun _ => 2 ^ (d * (L - (c.level + 1))) := by
    funext k; simp [weight, Cell.child, Cell.level]
  unfold weight at this
  rw [this, List.map_const', sum_replicate_nat, List.length_range, ← Nat.pow_add]
  congr 1
  have : L - c.level = (L - (c.level + 1)) + 1 := by omega
  rw [this, Nat.mul_add, Nat.mul_one, Nat.add_comm]

theorem level_child (c : Cell) (k : Nat) : (c.child k).level = c.level + 1 := by
  simp [Cell.child, Cell.level]

theorem mem_children_level {d : Nat} {c x : Cell} (h : x ∈ children d c) : x.level = c.level + 1 := by
  unfold children at h
  obtain ⟨k, _, rfl⟩ := List.mem_map.1 h
  exact level_child c k

theorem child_zero_mem (d : Nat) (c : Cell) : c.child 0 ∈ children d c := by
  unfold children
  exact List.mem_map.2 ⟨0, List.mem_range.2 (Nat.pow_pos (by decide)), rfl⟩

/-- refinement conserves the measure (in units of any level that is at least as fine as all cells) -/
theorem Refines.measure {d L : Nat} {cs cs' : List Cell} (h : Refines d cs cs')
    (hL : ∀ x ∈ cs', x.level ≤ L) : measure d L cs' = measure d L cs := by
  induction h with
  | nil => rfl
  | keep c _ ih =>
    rw [measure_cons, measure_cons, ih (fun x hx => hL x (List.mem_cons_of_mem _ hx))]
  | split c _ ih =>
    rw [measure_append, measure_cons, ih (fun x hx => hL x (List.mem_append_right _ hx))]
    have := hL _ (List.mem_append_left _ (child_zero_mem d c))
    rw [level_child] at this
    rw [measure_children d L c this]

theorem measure_perm {d L : Nat} {as bs : List Cell} (h : as.Perm bs) : measure d L as = measure d L bs :=
  (h.map (weight d L)).sum_nat

theorem insertBy_perm {α : Type} (le : α → α → Bool) (a : α) (l : List α) : (insertBy le a l).Perm (a :: l) := by
  induction l with
  | nil => exact List.Perm.refl _
  | cons b t ih =>
    unfold insertBy
    split
    · exact List.Perm.refl _
    · exact (List.Perm.cons b ih).trans (List.Perm.swap a b t)

theorem isort_perm {α : Type} (le : α → α → Bool) (l : List α) : (isort le l).Perm l := by
  induction l with
  | nil => exact List.Perm.refl _
  | cons a t ih => exact (insertBy_perm le a _).trans (List.Perm.cons a ih)

/-! ### the invariant -/

/-- a list of cells is a partition of `N` level-0 cells: pairwise non-overlapping and of total measure `N` -/
def IsPartition (d N : Nat) (cells : List Cell) : Prop :=
  cells.Pairwise Apart ∧ ∀ L, (∀ c ∈ cells, c.level ≤ L) → measure d L cells = N * 2 ^ (d * L)

theorem IsPartition.refines {d N : Nat} {cs cs' : List Cell} (hp : IsPartition d N cs) (h : Refines d cs cs') :
    IsPartition d N cs' := by
  refine ⟨h.pairwise hp.1, fun L hL => ?_⟩
  rw [h.measure hL]
  apply hp.2
  intro c hc
  -- a level bound of the refined list bounds the original list
  clear hp
  induction h with
  | nil => cases hc
  | keep c0 _ ih =>
    rcases List.mem_cons.1 hc with rfl | hc
    · exact hL _ List.mem_cons_self
    · exact ih (fun x hx => hL x (List.mem_cons_of_mem _ hx)) hc
  | split c0 _ ih =>
    rcases List.mem_cons.1 hc with rfl | hc
    · have := hL _ (List.mem_append_left _ (child_zero_mem d c))
      rw [level_child] at this; omega
    · exact ih (fun x hx => hL x (List.mem_append_right _ hx)) hc

theorem IsPartition.perm {d N : Nat} {cs cs' : List Cell} (hp : IsPartition d N cs) (h : cs'.Perm cs) :
    IsPartition d N cs' := by
  refine ⟨(h.pairwise_iff (fun h => Apart.symm h)).2 hp.1, fun L hL => ?_⟩
  rw [measure_perm h]
  exact hp.2 L (fun c hc => hL c (h.symm.subset hc))

theorem IsPartition.after_step {d N : Nat} {cs cs' : List Cell} (hp : IsPartition d N cs) (op : Op)
    (h : step d cs op = .ok cs') : IsPartition d N cs' := by
  cases op with
  | refined =>
    simp only [step, Except.ok.injEq] at h
    subst h
    exact (hp.refines (refines_flatMap_children d cs)).perm (isort_perm _ _)
  | refinedBy sel =>
    simp only [step] at h
    split at h
    · simp only [Except.ok.injEq] at h
      subst h
      exact (hp.refines (refines_refineSel d cs _)).perm (isort_perm _ _)
    · cases h

theorem isPartition_bases (d : Nat) (bases : List (List Nat)) (h : bases.Nodup) :
    IsPartition d bases.length (cellsOfBases bases) := by
  constructor
  · unfold cellsOfBases
    rw [List.pairwise_map]
    exact h.imp (fun hne => ⟨fun hA => hne hA.1, fun hA => hne hA.1.symm⟩)
  · intro L _
    unfold measure cellsOfBases
    rw [List.map_map]
    have : (weight d L ∘ fun i => ({ base := i, path := [] } : Cell)) = fun _ => 2 ^ (d * L) := by
      funext i; simp [weight, Cell.level]
    rw [this, List.map_const', sum_replicate_nat]

theorem isPartition_foldlM {d N : Nat} (ops : List Op) : ∀ (cs cs' : List Cell), IsPartition d N cs →
    ops.foldlM (step d) cs = .ok cs' → IsPartition d N cs' := by
  induction ops with
  | nil =>
    intro cs cs' hp h
    simp only [List.foldlM_nil, pure, Except.pure, Except.ok.injEq] at h
    subst h; exact hp
  | cons op ops ih =>
    intro cs cs' hp h
    rw [List.foldlM_cons] at h
    cases hs : step d cs op with
    | error e => rw [hs] at h; cases h
    | ok s =>
      rw [hs] at h
      exact ih s cs' (hp.after_step op hs) h

theorem isPartition_runFrom (d : Nat) (bases : List (List Nat)) (h : bases.Nodup) (ops : List Op) (cells : List Cell)
    (hr : runFrom d bases ops = .ok cells) : IsPartition d bases.length cells :=
  isPartition_foldlM ops _ _ (isPartition_bases d bases h) hr

/-! ### `&` of two hierarchical topologies -/

theorem ancB_iff (a b : Cell) : ancB a b = true ↔ Anc a b := by
  unfold ancB Anc
  simp [List.isPrefixOf_iff_prefix]

theorem anc_comparable {a b c : Cell} (h1 : Anc a c) (h2 : Anc b c) : Anc a b ∨ Anc b a := by
  rcases List.prefix_or_prefix_of_prefix h1.2 h2.2 with h | h
  · exact Or.inl ⟨h1.1.trans h2.1.symm, h⟩
  · exact Or.inr ⟨h2.1.trans h1.1.symm, h⟩

theorem anc_antisymm {a b : Cell} (h1 : Anc a b) (h2 : Anc b a) : a = b := by
  cases a; cases b
  simp only [Anc] at h1 h2
  simp only [Cell.mk.injEq]
  exact ⟨h1.1, List.IsPrefix.eq_of_length_le h1.2 h2.2.length_le⟩

theorem anc_trans {a b c : Cell} (h1 : Anc a b) (h2 : Anc b c) : Anc a c :=
  ⟨h1.1.trans h2.1, h1.2.trans h2.2⟩

theorem pairwise_apart_of_ne {l : List Cell} (h : l.Pairwise Apart) {a b : Cell} (ha : a ∈ l) (hb : b ∈ l) (hne : a ≠ b) :
    Apart a b := by
  induction l with
  | nil => cases ha
  | cons c t ih =>
    rw [List.pairwise_cons] at h
    rcases List.mem_cons.1 ha with ha | ha
    · rcases List.mem_cons.1 hb with hb | hb
      · exact absurd (ha.trans hb.symm) hne
      · rw [ha]; exact h.1 _ hb
    · rcases List.mem_cons.1 hb with hb | hb
      · rw [hb]; exact (h.1 _ ha).symm
      · exact ih h.2 ha hb

/-- in a non-overlapping set, a cell has at most one ancestor-or-self -/
theorem unique_anc {l : List Cell} (h : l.Pairwise Apart) {a b c : Cell} (ha : a ∈ l) (hb : b ∈ l)
    (h1 : Anc a c) (h2 : Anc b c) : a = b := by
  apply Classical.byContradiction
  intro hne
  have hap := pairwise_apart_of_ne h ha hb hne
  rcases anc_comparable h1 h2 with h' | h'
  · exact hap.1 h'
  · exact hap.2 h'

theorem hand_pairwise (d : Nat) (A B : List Cell) (hA : A.Pairwise Apart) (hB : B.Pairwise Apart) :
    (hand d A B).Pairwise Apart := by
  unfold hand canon
  rw [(isort_perm _ _).pairwise_iff (fun h => Apart.symm h), List.pairwise_append]
  refine ⟨hA.filter _, hB.filter _, ?_⟩
  intro a ha b hb
  obtain ⟨haA, ha2⟩ := List.mem_filter.1 ha
  obtain ⟨hbB, hb2⟩ := List.mem_filter.1 hb
  obtain ⟨b0, hb0, hb0a⟩ := List.any_eq_true.1 ha2
  simp only [Bool.and_eq_true, Bool.not_eq_true', List.any_eq_true] at hb2
  obtain ⟨⟨a0, ha0, ha0b⟩, hnot⟩ := hb2
  rw [ancB_iff] at hb0a ha0b
  have hbA : b ∉ A := by
    intro h
    have := List.contains_iff_mem.2 h
    rw [this] at hnot; cases hnot
  constructor
  · intro hab
    -- a0 and a are both ancestors of b inside A, b0 and b both ancestors of b inside B
    have e1 : a0 = a := unique_anc hA ha0 haA ha0b hab
    have e2 : b0 = b := unique_anc hB hb0 hbB (anc_trans hb0a hab) ⟨rfl, List.prefix_refl _⟩
    subst e2
    have : a = b0 := anc_antisymm hab hb0a
    subst this
    exact hbA haA
  · intro hba
    have e2 : b0 = b := unique_anc hB hb0 hbB hb0a hba
    have e1 : a0 = a := unique_anc hA ha0 haA (anc_trans ha0b hba) ⟨rfl, List.prefix_refl _⟩
    subst e1
    have : a0 = b := anc_antisymm ha0b hba
    subst this
    exact hbA haA

/-! ### the multi-indices of a box -/

theorem length_multiIndices (shape : List Nat) : (multiIndices shape).length = shape.foldr (· * ·) 1 := by
  induction shape with
  | nil => rfl
  | cons n s ih =>
    simp only [multiIndices, List.foldr_cons]
    rw [List.length_flatMap]
    simp only [List.length_map, ih]
    rw [List.map_const', sum_replicate_nat, List.length_range]

theorem nodup_multiIndices (shape : List Nat) : (multiIndices shape).Nodup := by
  induction shape with
  | nil => simp [multiIndices]
  | cons n s ih =>
    simp only [multiIndices]
    unfold List.Nodup
    rw [List.pairwise_flatMap]
    constructor
    · intro a _
      rw [List.pairwise_map]
      exact ih.imp (fun hne h => hne (List.cons.inj h).2)
    · have : (List.range n).Pairwise (· ≠ ·) := List.nodup_range
      refine this.imp (fun {a b} hab x hx y hy hxy => ?_)
      obtain ⟨x', _, rfl⟩ := List.mem_map.1 hx
      obtain ⟨y', _, rfl⟩ := List.mem_map.1 hy
      exact hab (List.cons.inj hxy).1

/-- membership in the box: right length and every entry below the corresponding extent -/
theorem mem_multiIndices {shape i : List Nat} :
    i ∈ multiIndices shape ↔ i.length = shape.length ∧ ∀ k, k < shape.length → i.getD k 0 < shape.getD k 0 := by
  induction shape generalizing i with
  | nil =>
    simp only [multiIndices, List.mem_singleton, List.length_nil]
    constructor
    · rintro rfl; exact ⟨rfl, fun k hk => absurd hk (Nat.not_lt_zero k)⟩
    · rintro ⟨h, _⟩; exact List.length_eq_zero_iff.1 h
  | cons n s ih =>
    simp only [multiIndices, List.mem_flatMap, List.mem_range, List.mem_map]
    constructor
    · rintro ⟨a, ha, t, ht, rfl⟩
      obtain ⟨hl, hb⟩ := ih.1 ht
      refine ⟨by simp [hl], fun k hk => ?_⟩
      cases k with
      | zero => simpa using ha
      | succ k => simpa using hb k (by simpa using hk)
    · rintro ⟨hl, hb⟩
      cases i with
      | nil => simp at hl
      | cons a t =>
        refine ⟨a, by simpa using hb 0 (by simp), t, ih.2 ⟨by simpa using hl, fun k hk => ?_⟩, rfl⟩
        simpa using hb (k + 1) (by simpa using hk)

end NutilsVerif.C10
