import NutilsVerif.Proofs.C16Range
/-!
# C16 — the lock table, the discipline of the remaining code and read/write coherence (helper lemmas)
-/
namespace NutilsVerif.C16
variable {α : Type} [Add α]

def PC.held : PC α → List Nat
  | .body _ h _ => h
  | .mid _ h _ _ _ _ => h
  | _ => []

/-- Invariant under a disciplined program: the lock table agrees with the `with` blocks every worker is in,
the remaining code of every worker is disciplined from where it stands, and a worker between the read and
the write of an in-place add still sees the value it read. -/
structure LInv (s : State α) : Prop where
  locks_iff : ∀ l w, s.locks l = some w ↔ l ∈ (s.pc w).held
  body_disc : ∀ w i h r, s.pc w = .body i h r → h.Nodup ∧ disc h r = true
  mid_disc : ∀ w i h a v tmp r, s.pc w = .mid i h a v tmp r → h.Nodup ∧ a ∈ h ∧ disc h r = true
  tmp_ok : ∀ w i h a v tmp r, s.pc w = .mid i h a v tmp r → tmp = s.shared a

omit [Add α] in
theorem LInv.init (sh : Nat → α) (sl) : LInv (init sh sl) := by
  constructor <;> simp [C16.init, PC.held]

omit [Add α] in
theorem disc_rel {h : List Nat} {l : Nat} {r : List (Instr α)} (hn : h.Nodup) (hd : disc h (.rel l :: r) = true) :
    h.erase l = h.tail ∧ h.tail.Nodup ∧ l ∉ h.tail ∧ l ∈ h ∧ disc h.tail r = true ∧ (∀ x, x ∈ h.tail → x ∈ h) ∧ (∀ x, x ∈ h → x ≠ l → x ∈ h.tail) := by
  cases h with
  | nil => simp [disc] at hd
  | cons x t =>
    simp [disc] at hd
    obtain ⟨rfl, hd⟩ := hd
    simp at hn
    simp [hn, hd]
    grind

theorem LInv.stepW {n : Nat} {code : Nat → List (Instr α)} (hc : Disciplined code) {s : State α} (h : LInv s) (w : Nat) :
    LInv (stepW n code s w) := by
  obtain ⟨h1, h2, h3, h4⟩ := h
  unfold C16.stepW
  split
  · split
    · constructor <;> grind [upd, PC.held]
    · constructor <;> assumption
  · constructor <;> grind [upd, PC.held]
  · split
    · constructor <;> grind [upd, PC.held]
    · constructor <;> grind [upd, PC.held]
  · have := hc
    constructor <;> grind [upd, PC.held, Disciplined]
  · constructor <;> grind [upd, PC.held, disc]
  · constructor <;> grind [upd, PC.held, disc]
  · split
    · constructor <;> grind [upd, PC.held, disc]
    · constructor <;> assumption
  · rename_i i hh l r hpc
    have hb := h2 w i hh (.rel l :: r) hpc
    have := disc_rel hb.1 hb.2
    have hl : s.locks l = some w := (h1 l w).2 (by rw [hpc]; simpa [PC.held] using this.2.2.2.1)
    have hheld : ∀ x, x ∈ hh → s.locks x = some w := fun x hx => (h1 x w).2 (by rw [hpc]; simpa [PC.held] using hx)
    constructor <;> grind [upd, PC.held]
  · constructor <;> grind [upd, PC.held, disc]
  · constructor <;> grind [upd, PC.held, disc]
  · rename_i i hh a v tmp r hpc
    have hm := h3 w i hh a v tmp r hpc
    have hl : s.locks a = some w := (h1 a w).2 (by rw [hpc]; simpa [PC.held] using hm.2.1)
    have hex : ∀ w' i' h' a' v' tmp' r', s.pc w' = .mid i' h' a' v' tmp' r' → a' = a → w' = w := by
      intro w' i' h' a' v' tmp' r' hp ha
      have hm' := h3 w' i' h' a' v' tmp' r' hp
      have : s.locks a' = some w' := (h1 a' w').2 (by rw [hp]; simpa [PC.held] using hm'.2.1)
      grind
    constructor <;> grind [upd, PC.held, disc]
  · constructor <;> assumption
  · constructor <;> assumption

theorem LInv.applyEv {N n : Nat} {code : Nat → List (Instr α)} (hc : Disciplined code) {s : State α} (h : LInv s) (e : Ev) :
    LInv (applyEv N n code s e) := by
  cases e with
  | step w =>
    simp only [C16.applyEv]
    split
    · exact h.stepW hc w
    · exact h
  | kill w =>
    simp only [C16.applyEv]
    split
    · obtain ⟨h1, h2, h3, h4⟩ := h
      constructor <;> assumption
    · exact h
  | raise w =>
    simp only [C16.applyEv]
    split
    · obtain ⟨h1, h2, h3, h4⟩ := h
      constructor <;> grind [upd, PC.held]
    · exact h

theorem LInv.run {N n : Nat} {code : Nat → List (Instr α)} (hc : Disciplined code) (σ : List Ev) {s : State α} (h : LInv s) :
    LInv (run N n code σ s) := by
  induction σ generalizing s with
  | nil => exact h
  | cons e σ ih => exact ih (h.applyEv hc e)

end NutilsVerif.C16
