import NutilsVerif.Model.C07
import NutilsVerif.Proofs.C07Basic
import NutilsVerif.Proofs.TensorLaws
/-!
# C07 — `Array.__getitem__` meets NumPy's basic indexing  (no Mathlib)

The loop of `Array.__getitem__` walks over the expanded item tuple with an axis counter, applying `expand_dims`,
`_takeslice` (+ `take`) or `take` at that axis.  Invariant (`run_some`): after a prefix of the items the current view has
shape `done ++ rest` (`done` = result axes produced so far, `rest` = source axes not yet consumed) and maps
`pre ++ suf` (`pre` in the box of `done`, `suf` in the box of `rest`) to `P pre ++ suf`, where `P pre` is the prefix of the
source multi-index.  The specification `npBasic` is a recursion over (items, rest), which makes the induction go through.
-/
namespace NutilsVerif.C07

/-! ## list surgery at the end of a prefix -/

theorem eraseIdx_app (pre : List Nat) (x : Nat) (suf : List Nat) : (pre ++ x :: suf).eraseIdx pre.length = pre ++ suf := by
  induction pre with
  | nil => rfl
  | cons a t ih => simp only [List.cons_append, List.length_cons, List.eraseIdx_cons_succ, ih]

theorem insertIdx_app (pre : List Nat) (x : Nat) (suf : List Nat) : (pre ++ suf).insertIdx pre.length x = pre ++ x :: suf := by
  induction pre with
  | nil => simp
  | cons a t ih => simp only [List.cons_append, List.length_cons, List.insertIdx_succ_cons, ih]

theorem set_app (pre : List Nat) (x y : Nat) (suf : List Nat) : (pre ++ x :: suf).set pre.length y = pre ++ y :: suf := by
  induction pre with
  | nil => rfl
  | cons a t ih => simp only [List.cons_append, List.length_cons, List.set_cons_succ, ih]

theorem getD_app (pre : List Nat) (x : Nat) (suf : List Nat) (d : Nat) : (pre ++ x :: suf).getD pre.length d = x := by
  induction pre with
  | nil => rfl
  | cons a t ih => simp

/-! ## index normalisation -/

theorem normIndex_lt {i : Int} {n k : Nat} (h : normIndex i n = some k) : k < n := by
  unfold normIndex at h
  by_cases hn : i < 0
  · simp [hn] at h; omega
  · simp [hn] at h; omega

theorem normIndex_of_inrange {i : Int} {n : Nat} (h0 : 0 ≤ i) (h1 : i < n) : normIndex i n = some i.toNat := by
  unfold normIndex
  have hn : ¬ i < 0 := by omega
  simp [hn]; omega

theorem normIndices_of_inrange (r : List Int) (n : Nat) (h : ∀ i ∈ r, 0 ≤ i ∧ i < n) :
    normIndices r n = some (r.map Int.toNat) := by
  unfold normIndices
  induction r with
  | nil => rfl
  | cons a t ih =>
    have ha := h a (by simp)
    simp only [List.map_cons, normIndex_of_inrange ha.1 ha.2, sequence]
    rw [ih (fun i hi => h i (by simp [hi]))]; rfl

theorem normIndices_lt (r : List Int) (n : Nat) (ks : List Nat) (h : normIndices r n = some ks) : ∀ k ∈ ks, k < n := by
  unfold normIndices at h
  induction r generalizing ks with
  | nil => simp [sequence] at h; subst h; simp
  | cons a t ih =>
    simp only [List.map_cons] at h
    cases ha : normIndex a n with
    | none => simp [ha, sequence] at h
    | some k =>
      simp only [ha, sequence, Option.map_eq_some_iff] at h
      obtain ⟨ks', hks', rfl⟩ := h
      intro x hx
      rcases List.mem_cons.mp hx with rfl | hx'
      · exact normIndex_lt ha
      · exact ih ks' hks' x hx'

theorem normIndices_range (n : Nat) : normIndices ((List.range n).map fun (k : Nat) => (k : Int)) n = some (List.range n) := by
  rw [normIndices_of_inrange]
  · congr 1; rw [List.map_map]; conv => rhs; rw [← List.map_id (List.range n)]
    apply List.map_congr_left; intro k _; simp
  · intro i hi
    simp only [List.mem_map, List.mem_range] at hi
    obtain ⟨k, hk, rfl⟩ := hi; omega

/-- what the slice branch of the loop hands to `take`, in terms of the specification -/
theorem slice_plan (s : PySlice) (n : Nat) (r : List Nat)
    (h : (npSliceRange s n).bind (normIndices · n) = some r) :
    ∃ plan, takeslice s n = some plan ∧ normIndices (plan.indices n) n = some r ∧ (plan = .identity → r = List.range n) := by
  obtain ⟨ri, hri, hr⟩ := Option.bind_eq_some_iff.mp h
  have ht := takeslice_indices s n
  rw [hri] at ht
  obtain ⟨plan, hp, hpi⟩ := Option.map_eq_some_iff.mp ht
  refine ⟨plan, hp, by rw [hpi]; exact hr, ?_⟩
  intro hid
  subst hid
  simp only [SlicePlan.indices] at hpi
  rw [← hpi, normIndices_range] at hr
  exact (Option.some.inj hr).symm

/-! ## the loop invariant -/

/-- items that can occur after the expansion of a basic item tuple -/
def Item.plain : Item → Bool
  | .int _ | .slice _ | .newaxis => true
  | _ => false

theorem inBox_snoc_iff {s : List Nat} {n : Nat} {idx : List Nat} :
    inBox (s ++ [n]) idx = true ↔ ∃ pre k, idx = pre ++ [k] ∧ inBox s pre = true ∧ k < n := by
  constructor
  · intro h
    obtain ⟨pre, suf, rfl, hp, hs⟩ := inBox_split h
    obtain ⟨k, rfl, hk⟩ := inBox_single.mp hs
    exact ⟨pre, k, rfl, hp, hk⟩
  · rintro ⟨pre, k, rfl, hp, hk⟩; exact inBox_snoc hp hk

theorem run_some (items : List Item) : ∀ (done rest : List Nat) (P : List Nat → List Nat) (v w : View),
    (∀ it ∈ items, it.plain = true) → v.shape = done ++ rest →
    (∀ pre suf, inBox done pre = true → inBox rest suf = true → v.src (pre ++ suf) = P pre ++ suf) →
    npBasic items rest = some w →
    ∃ v', getitemRun items (v, done.length) = some (v', done.length + w.shape.length) ∧ v'.shape = done ++ w.shape ∧
      ∀ pre suf, inBox done pre = true → inBox w.shape suf = true → v'.src (pre ++ suf) = P pre ++ w.src suf := by
  induction items with
  | nil =>
    intro done rest P v w _ hs hsrc hw
    cases rest with
    | nil =>
      simp only [npBasic, Option.some.injEq] at hw
      subst hw
      refine ⟨v, by simp [getitemRun], by simpa using hs, ?_⟩
      intro pre suf hp hsuf
      have hnil := inBox_nil_iff.mp hsuf
      subst hnil
      simpa using hsrc pre [] hp hsuf
    | cons n sh => simp [npBasic] at hw
  | cons it its ih =>
    intro done rest P v w hpl hs hsrc hw
    have hpl' : ∀ it ∈ its, it.plain = true := fun x hx => hpl x (by simp [hx])
    have hit := hpl it (by simp)
    cases it with
    | ellipsis => simp [Item.plain] at hit
    | array ish vals => simp [Item.plain] at hit
    | newaxis =>
      simp only [npBasic] at hw
      cases hw' : npBasic its rest with
      | none => simp [hw'] at hw
      | some w' =>
        simp only [hw', Option.some.injEq] at hw
        subst hw
        have hs1 : (v.expandDims done.length).shape = (done ++ [1]) ++ rest := by
          simp only [View.expandDims, hs, List.append_assoc, List.singleton_append]
          exact insertIdx_app done 1 rest
        obtain ⟨v', hrun, hsh, hsrc'⟩ := ih (done ++ [1]) rest (fun pre => P pre.dropLast) (v.expandDims done.length) w' hpl' hs1
          (by
            intro pre suf hp hsuf
            obtain ⟨p, k, rfl, hp', _⟩ := inBox_snoc_iff.mp hp
            have hl := inBox_length hp'
            simp only [View.expandDims, List.append_assoc, List.singleton_append, List.dropLast_concat]
            rw [← hl, eraseIdx_app]
            exact hsrc p suf hp' hsuf) hw'
        refine ⟨v', ?_, by rw [hsh]; simp, ?_⟩
        · simp only [getitemRun, getitemStep, Option.bind_some]
          rw [show done.length + 1 = (done ++ [1]).length by simp, hrun]
          simp; omega
        · intro pre suf hp hsuf
          cases suf with
          | nil => simp [inBox] at hsuf
          | cons z suf' =>
            rw [inBox_cons] at hsuf
            have := hsrc' (pre ++ [z]) suf' (inBox_snoc hp hsuf.1) hsuf.2
            simp only [List.append_assoc, List.singleton_append, List.dropLast_concat] at this
            simpa using this
    | int i =>
      cases rest with
      | nil => simp [npBasic] at hw
      | cons n sh =>
        simp only [npBasic] at hw
        cases hk : normIndex i n with
        | none => simp [hk] at hw
        | some k =>
          cases hw' : npBasic its sh with
          | none => simp [hk, hw'] at hw
          | some w' =>
            simp only [hk, hw', Option.some.injEq] at hw
            subst hw
            have hklt := normIndex_lt hk
            have hs1 : (v.takeScalar done.length k).shape = done ++ sh := by
              simp only [View.takeScalar, hs]; exact eraseIdx_app done n sh
            obtain ⟨v', hrun, hsh, hsrc'⟩ := ih done sh (fun pre => P pre ++ [k]) (v.takeScalar done.length k) w' hpl' hs1
              (by
                intro pre suf hp hsuf
                have hl := inBox_length hp
                simp only [View.takeScalar]
                rw [← hl, insertIdx_app, hsrc pre (k :: suf) hp (inBox_cons.mpr ⟨hklt, hsuf⟩)]
                simp) hw'
            refine ⟨v', ?_, hsh, ?_⟩
            · simp only [getitemRun, getitemStep, hs, List.length_append, List.length_cons]
              rw [if_pos (by omega), getD_app, hk]
              simpa using hrun
            · intro pre suf hp hsuf
              rw [hsrc' pre suf hp hsuf]; simp
    | slice sl =>
      cases rest with
      | nil => simp [npBasic] at hw
      | cons n sh =>
        simp only [npBasic] at hw
        cases hr : (npSliceRange sl n).bind (normIndices · n) with
        | none => simp [hr] at hw
        | some r =>
          cases hw' : npBasic its sh with
          | none => simp [hr, hw'] at hw
          | some w' =>
            simp only [hr, hw', Option.some.injEq] at hw
            subst hw
            obtain ⟨plan, hplan, hnorm, hid⟩ := slice_plan sl n r hr
            have hrlt : ∀ k ∈ r, k < n := normIndices_lt _ n r hnorm
            -- the view after this step, whichever branch the code takes
            have hstep : ∃ v1, getitemStep (v, done.length) (.slice sl) = some (v1, done.length + 1) ∧ v1.shape = (done ++ [r.length]) ++ sh ∧
                ∀ pre suf, inBox (done ++ [r.length]) pre = true → inBox sh suf = true →
                  v1.src (pre ++ suf) = (P pre.dropLast ++ [r.getD (pre.getLastD 0) 0]) ++ suf := by
              have htl_shape : (v.takeList done.length r).shape = (done ++ [r.length]) ++ sh := by
                simp only [View.takeList, hs]; rw [set_app]; simp
              have htl_src : ∀ pre suf, inBox (done ++ [r.length]) pre = true → inBox sh suf = true →
                  (v.takeList done.length r).src (pre ++ suf) = (P pre.dropLast ++ [r.getD (pre.getLastD 0) 0]) ++ suf := by
                intro pre suf hp hsuf
                obtain ⟨p, k, rfl, hp', hk⟩ := inBox_snoc_iff.mp hp
                have hl := inBox_length hp'
                simp only [View.takeList, List.append_assoc, List.singleton_append, List.dropLast_concat, List.getLastD_concat]
                rw [← hl, getD_app, set_app]
                have hin : r.getD k 0 < n := by
                  apply hrlt; rw [List.getD_eq_getElem?_getD, List.getElem?_eq_getElem hk]; exact List.getElem_mem hk
                rw [hsrc p (r.getD k 0 :: suf) hp' (inBox_cons.mpr ⟨hin, hsuf⟩)]
              simp only [getitemStep, hs, List.length_append, List.length_cons]
              rw [if_pos (by omega), getD_app, hplan]
              cases plan with
              | identity =>
                have hrr := hid rfl
                refine ⟨v, rfl, by rw [hs, hrr]; simp, ?_⟩
                intro pre suf hp hsuf
                obtain ⟨p, k, rfl, hp', hk⟩ := inBox_snoc_iff.mp hp
                rw [hrr, List.length_range] at hk
                simp only [List.append_assoc, List.singleton_append, List.dropLast_concat, List.getLastD_concat]
                rw [hsrc p (k :: suf) hp' (inBox_cons.mpr ⟨hk, hsuf⟩), hrr]
                simp [List.getD_eq_getElem?_getD, hk]
              | unitRange a b => exact ⟨v.takeList done.length r, by simp only [hnorm], htl_shape, htl_src⟩
              | general l => exact ⟨v.takeList done.length r, by simp only [hnorm], htl_shape, htl_src⟩
            obtain ⟨v1, hst, hs1, hsrc1⟩ := hstep
            obtain ⟨v', hrun, hsh, hsrc'⟩ := ih (done ++ [r.length]) sh (fun pre => P pre.dropLast ++ [r.getD (pre.getLastD 0) 0]) v1 w' hpl' hs1 hsrc1 hw'
            refine ⟨v', ?_, by rw [hsh]; simp, ?_⟩
            · simp only [getitemRun, hst, Option.bind_some]
              rw [show done.length + 1 = (done ++ [r.length]).length by simp, hrun]
              simp; omega
            · intro pre suf hp hsuf
              cases suf with
              | nil => simp [inBox] at hsuf
              | cons z suf' =>
                rw [inBox_cons] at hsuf
                have := hsrc' (pre ++ [z]) suf' (inBox_snoc hp hsuf.1) hsuf.2
                simp only [List.append_assoc, List.singleton_append, List.dropLast_concat, List.getLastD_concat] at this
                simpa using this

theorem slice_bind_some (sl : PySlice) (n : Nat) (ri : List Int) (h : npSliceRange sl n = some ri) :
    ∃ r, (npSliceRange sl n).bind (normIndices · n) = some r := by
  refine ⟨ri.map Int.toNat, ?_⟩
  rw [h, Option.bind_some]
  exact normIndices_of_inrange ri n (npSliceRange_inrange sl n ri h)

theorem run_none (items : List Item) : ∀ (done rest : List Nat) (v : View),
    (∀ it ∈ items, it.plain = true) → v.shape = done ++ rest → npBasic items rest = none →
    ∀ v' a', getitemRun items (v, done.length) = some (v', a') → a' ≠ v'.shape.length := by
  induction items with
  | nil =>
    intro done rest v _ hs hw v' a' hrun
    simp only [getitemRun, Option.some.injEq, Prod.mk.injEq] at hrun
    obtain ⟨rfl, rfl⟩ := hrun
    cases rest with
    | nil => simp [npBasic] at hw
    | cons n sh => rw [hs]; simp
  | cons it its ih =>
    intro done rest v hpl hs hw v' a' hrun
    have hpl' : ∀ it ∈ its, it.plain = true := fun x hx => hpl x (by simp [hx])
    have hit := hpl it (by simp)
    cases it with
    | ellipsis => simp [Item.plain] at hit
    | array ish vals => simp [Item.plain] at hit
    | newaxis =>
      have hw' : npBasic its rest = none := by
        simp only [npBasic] at hw
        cases h : npBasic its rest with
        | none => rfl
        | some w' => simp [h] at hw
      have hs1 : (v.expandDims done.length).shape = (done ++ [1]) ++ rest := by
        simp only [View.expandDims, hs, List.append_assoc, List.singleton_append]
        exact insertIdx_app done 1 rest
      simp only [getitemRun, getitemStep, Option.bind_some] at hrun
      rw [show done.length + 1 = (done ++ [1]).length by simp] at hrun
      exact ih (done ++ [1]) rest _ hpl' hs1 hw' v' a' hrun
    | int i =>
      cases rest with
      | nil =>
        simp only [getitemRun, getitemStep, hs, List.append_nil] at hrun
        rw [if_neg (by omega)] at hrun
        simp at hrun
      | cons n sh =>
        simp only [getitemRun, getitemStep, hs, List.length_append, List.length_cons] at hrun
        rw [if_pos (by omega), getD_app] at hrun
        cases hk : normIndex i n with
        | none => simp [hk] at hrun
        | some k =>
          have hw' : npBasic its sh = none := by
            simp only [npBasic, hk] at hw
            cases h : npBasic its sh with
            | none => rfl
            | some w' => simp [h] at hw
          have hs1 : (v.takeScalar done.length k).shape = done ++ sh := by
            simp only [View.takeScalar, hs]; exact eraseIdx_app done n sh
          simp only [hk, Option.bind_some] at hrun
          exact ih done sh _ hpl' hs1 hw' v' a' hrun
    | slice sl =>
      cases rest with
      | nil =>
        simp only [getitemRun, getitemStep, hs, List.append_nil] at hrun
        rw [if_neg (by omega)] at hrun
        simp at hrun
      | cons n sh =>
        simp only [getitemRun, getitemStep, hs, List.length_append, List.length_cons] at hrun
        rw [if_pos (by omega), getD_app] at hrun
        cases hsr : npSliceRange sl n with
        | none =>
          have ht := takeslice_indices sl n
          rw [hsr] at ht
          have : takeslice sl n = none := by
            cases h : takeslice sl n with
            | none => rfl
            | some p => rw [h] at ht; simp at ht
          simp [this] at hrun
        | some ri =>
          obtain ⟨r, hr⟩ := slice_bind_some sl n ri hsr
          have hw' : npBasic its sh = none := by
            simp only [npBasic, hr] at hw
            cases h : npBasic its sh with
            | none => rfl
            | some w' => simp [h] at hw
          obtain ⟨plan, hplan, hnorm, hid⟩ := slice_plan sl n r hr
          rw [hplan] at hrun
          have hs2 : (v.takeList done.length r).shape = (done ++ [r.length]) ++ sh := by
            simp only [View.takeList, hs]; rw [set_app]; simp
          cases plan with
          | identity =>
            have hrr := hid rfl
            have hs1 : v.shape = (done ++ [r.length]) ++ sh := by rw [hs, hrr]; simp
            simp only [Option.bind_some] at hrun
            rw [show done.length + 1 = (done ++ [r.length]).length by simp] at hrun
            exact ih (done ++ [r.length]) sh _ hpl' hs1 hw' v' a' hrun
          | unitRange a b =>
            simp only [hnorm, Option.bind_some] at hrun
            rw [show done.length + 1 = (done ++ [r.length]).length by simp] at hrun
            exact ih (done ++ [r.length]) sh _ hpl' hs2 hw' v' a' hrun
          | general l =>
            simp only [hnorm, Option.bind_some] at hrun
            rw [show done.length + 1 = (done ++ [r.length]).length by simp] at hrun
            exact ih (done ++ [r.length]) sh _ hpl' hs2 hw' v' a' hrun

/-! ## ellipsis / newaxis bookkeeping -/

theorem plain_of_basic {it : Item} (hb : it.isBasic = true) (he : it ≠ .ellipsis) : it.plain = true := by
  cases it <;> simp_all [Item.isBasic, Item.plain]

theorem foldl_add_init (l : List Nat) (a : Nat) : l.foldl (· + ·) a = a + l.foldl (· + ·) 0 := by
  induction l generalizing a with
  | nil => simp
  | cons x t ih => simp only [List.foldl_cons]; rw [ih (a + x), ih (0 + x)]; omega

theorem consumed_cons (it : Item) (its : List Item) : consumed (it :: its) = it.consumes + consumed its := by
  unfold consumed
  simp only [List.map_cons, List.foldl_cons]
  rw [foldl_add_init]; omega

theorem countEllipsis_cons (it : Item) (its : List Item) :
    countEllipsis (it :: its) = (if it = .ellipsis then 1 else 0) + countEllipsis its := by
  unfold countEllipsis
  by_cases h : it = .ellipsis
  · subst h; simp; omega
  · simp [h]

theorem countNewaxis_cons (it : Item) (its : List Item) :
    countNewaxis (it :: its) = (if it = .newaxis then 1 else 0) + countNewaxis its := by
  unfold countNewaxis
  by_cases h : it = .newaxis
  · subst h; simp; omega
  · simp [h]

theorem count_split (items : List Item) (hb : ∀ it ∈ items, it.isBasic = true) :
    consumed items + countNewaxis items + countEllipsis items = items.length := by
  induction items with
  | nil => rfl
  | cons it its ih =>
    have := ih (fun x hx => hb x (by simp [hx]))
    have hit := hb it (by simp)
    rw [consumed_cons, countEllipsis_cons, countNewaxis_cons, List.length_cons]
    cases it <;> simp_all [Item.consumes, Item.isBasic] <;> omega

theorem countEllipsis_eq_zero {items : List Item} : countEllipsis items = 0 ↔ Item.ellipsis ∉ items := by
  induction items with
  | nil => simp [countEllipsis]
  | cons it its ih =>
    rw [countEllipsis_cons, List.mem_cons]
    by_cases h : it = .ellipsis
    · simp [h]
    · simp only [h, if_false, Nat.zero_add, ih]
      constructor
      · intro h1 h2; rcases h2 with h2 | h2
        · exact h h2.symm
        · exact h1 h2
      · intro h1 h2; exact h1 (Or.inr h2)

theorem idxOf?_none {items : List Item} (h : Item.ellipsis ∉ items) : items.idxOf? Item.ellipsis = none := by
  induction items with
  | nil => rfl
  | cons it its ih =>
    have h1 : it ≠ .ellipsis := fun e => h (by simp [e])
    have h2 : Item.ellipsis ∉ its := fun e => h (by simp [e])
    simp [List.idxOf?_cons, h1, ih h2]

theorem idxOf?_some {items : List Item} (h : Item.ellipsis ∈ items) :
    ∃ k, items.idxOf? Item.ellipsis = some k ∧ Item.ellipsis ∉ items.take k ∧ items = items.take k ++ Item.ellipsis :: items.drop (k + 1) := by
  induction items with
  | nil => simp at h
  | cons it its ih =>
    by_cases h1 : it = .ellipsis
    · subst h1; exact ⟨0, by simp [List.idxOf?_cons], by simp, by simp⟩
    · have h2 : Item.ellipsis ∈ its := by
        rcases List.mem_cons.mp h with e | e
        · exact absurd e.symm h1
        · exact e
      obtain ⟨k, hk, hn, he⟩ := ih h2
      refine ⟨k + 1, by simp [List.idxOf?_cons, h1, hk], ?_, ?_⟩
      · simp only [List.take_succ_cons, List.mem_cons, not_or]; exact ⟨fun e => h1 e.symm, hn⟩
      · simp only [List.take_succ_cons, List.drop_succ_cons, List.cons_append]; rw [← he]

theorem countEllipsis_append (a b : List Item) : countEllipsis (a ++ b) = countEllipsis a + countEllipsis b := by
  simp [countEllipsis]

/-- the `nx` bookkeeping of the code produces the expansion NumPy prescribes, and what remains is plain -/
theorem expand_eq (ndim : Nat) (items : List Item) (hb : ∀ it ∈ items, it.isBasic = true) (h1 : ¬ countEllipsis items > 1) :
    expandItems ndim items = npExpand ndim items ∧ ∀ it ∈ npExpand ndim items, it.plain = true := by
  have hc := count_split items hb
  unfold expandItems npExpand
  by_cases he : Item.ellipsis ∈ items
  · obtain ⟨k, hk, hn, hsplit⟩ := idxOf?_some he
    have hcnt : countEllipsis items = 1 := by
      have : countEllipsis items ≠ 0 := fun h => (countEllipsis_eq_zero.mp h) he
      omega
    simp only [hk]
    have hfill : ((ndim : Int) - (items.length : Int) + (countNewaxis items : Int) + 1).toNat = ndim - consumed items := by omega
    refine ⟨by rw [hfill], ?_⟩
    have hdrop : Item.ellipsis ∉ items.drop (k + 1) := by
      have h2 : countEllipsis items = countEllipsis (items.take k) + (1 + countEllipsis (items.drop (k + 1))) := by
        conv => lhs; rw [hsplit]
        rw [countEllipsis_append, countEllipsis_cons]; simp
      exact countEllipsis_eq_zero.mp (by omega)
    intro it hit
    simp only [List.mem_append, List.mem_replicate] at hit
    rcases hit with (hit | ⟨_, rfl⟩) | hit
    · exact plain_of_basic (hb it (List.mem_of_mem_take hit)) (fun e => hn (e ▸ hit))
    · rfl
    · exact plain_of_basic (hb it (List.mem_of_mem_drop hit)) (fun e => hdrop (e ▸ hit))
  · have hcnt : countEllipsis items = 0 := countEllipsis_eq_zero.mpr he
    simp only [idxOf?_none he]
    have hfill : ((ndim : Int) - (items.length : Int) + (countNewaxis items : Int)).toNat = ndim - consumed items := by omega
    refine ⟨by rw [hfill], ?_⟩
    intro it hit
    simp only [List.mem_append, List.mem_replicate] at hit
    rcases hit with hit | ⟨_, rfl⟩
    · exact plain_of_basic (hb it hit) (fun e => he (e ▸ hit))
    · rfl

/-- **`Array.__getitem__` = NumPy basic indexing**: for every tuple of ints, slices, ellipsis and newaxis the code
model rejects exactly when the specification does, and otherwise produces the same shape and the same element map. -/
theorem getitem_normal_form' (shape : List Nat) (items : List Item) (hb : ∀ it ∈ items, it.isBasic = true) :
    match getitem shape items, npGetitemBasic shape items with
    | some v, some w => v.shape = w.shape ∧ ∀ idx, inBox w.shape idx = true → v.src idx = w.src idx
    | none, none => True
    | _, _ => False := by
  unfold getitem npGetitemBasic
  by_cases h1 : countEllipsis items > 1
  · simp [h1]
  · simp only [h1, if_false]
    obtain ⟨heq, hplain⟩ := expand_eq shape.length items hb h1
    rw [heq]
    cases hw : npBasic (npExpand shape.length items) shape with
    | some w =>
      obtain ⟨v', hrun, hsh, hsrc⟩ := run_some _ [] shape (fun _ => []) (View.id shape) w hplain (by simp [View.id])
        (by intro pre suf hp _; rw [inBox_nil_iff.mp hp]; simp [View.id]) hw
      simp only [List.length_nil, Nat.zero_add, List.nil_append] at hrun hsh
      rw [hrun]
      simp only [hsh, if_true]
      exact ⟨trivial, fun idx hidx => by simpa using hsrc [] idx (by simp [inBox]) hidx⟩
    | none =>
      have hn := run_none _ [] shape (View.id shape) hplain (by simp [View.id]) hw
      simp only [List.length_nil] at hn
      cases hrun : getitemRun (npExpand shape.length items) (View.id shape, 0) with
      | none => simp
      | some res =>
        obtain ⟨v', a'⟩ := res
        have := hn v' a' hrun
        simp [this]

end NutilsVerif.C07
