import NutilsVerif.Proofs.C16Locks
/-!
# C16 — a complete schedule exists for every disciplined program (helper lemmas)
-/
namespace NutilsVerif.C16
variable {α : Type} [Add α]

def stepsOf : List (Instr α) → Nat
  | [] => 0
  | .rmw _ _ :: r => 2 + stepsOf r
  | .tau :: r => 1 + stepsOf r
  | .acq _ :: r => 1 + stepsOf r
  | .rel _ :: r => 1 + stepsOf r
  | .put _ _ :: r => 1 + stepsOf r

def solo (w k : Nat) : List Ev := List.replicate k (Ev.step w)

theorem run_append (N n : Nat) (code : Nat → List (Instr α)) (σ τ : List Ev) (s : State α) :
    run N n code (σ ++ τ) s = run N n code τ (run N n code σ s) := by
  simp [run, List.foldl_append]

theorem run_solo_succ (N n : Nat) (code : Nat → List (Instr α)) (w k : Nat) (s : State α) :
    run N n code (solo w (k+1)) s = run N n code (solo w k) (applyEv N n code s (.step w)) := by
  simp [run, solo, List.replicate_succ]

/-- nobody else is inside a lock, nobody is dead -/
structure Quiet (w : Nat) (h : List Nat) (s : State α) : Prop where
  locks : ∀ l, s.locks l = if l ∈ h then some w else none
  dead : ∀ w', s.dead w' = false

theorem body_solo {N n : Nat} {code : Nat → List (Instr α)} {w : Nat} (hw : w < N) (i : Nat) (r : List (Instr α)) :
    ∀ (h : List Nat) (s : State α), s.pc w = .body i h r → h.Nodup → Quiet w h s → disc h r = true →
    (run N n code (solo w (stepsOf r)) s).pc w = .body i [] [] ∧ Quiet w [] (run N n code (solo w (stepsOf r)) s) ∧
    (run N n code (solo w (stepsOf r)) s).idx = s.idx ∧ (run N n code (solo w (stepsOf r)) s).rlock = s.rlock ∧
    (∀ w', w' ≠ w → (run N n code (solo w (stepsOf r)) s).pc w' = s.pc w') := by
  induction r with
  | nil =>
    intro h s hpc _ hq hd
    have : h = [] := by simpa [disc] using hd
    subst this
    simp only [stepsOf, solo, List.replicate_zero, run, List.foldl_nil]
    exact ⟨hpc, hq, True.intro, True.intro, fun _ _ => True.intro⟩
  | cons x r ih =>
    intro h s hpc hn hq hd
    have hdw := hq.dead w
    have fin : ∀ (s1 : State α) (h1 : List Nat), applyEv N n code s (.step w) = s1 → s1.pc w = .body i h1 r → h1.Nodup → Quiet w h1 s1 →
        disc h1 r = true → s1.idx = s.idx → s1.rlock = s.rlock → (∀ w', w' ≠ w → s1.pc w' = s.pc w') → ∀ k, k = stepsOf r →
        (run N n code (solo w (k + 1)) s).pc w = .body i [] [] ∧ Quiet w [] (run N n code (solo w (k + 1)) s) ∧
        (run N n code (solo w (k + 1)) s).idx = s.idx ∧ (run N n code (solo w (k + 1)) s).rlock = s.rlock ∧
        (∀ w', w' ≠ w → (run N n code (solo w (k + 1)) s).pc w' = s.pc w') := by
      intro s1 h1 hs1 hpc1 hn1 hq1 hd1 hidx hrl hoth k hk
      subst hk
      rw [run_solo_succ, hs1]
      obtain ⟨a, b, c, d, e⟩ := ih h1 s1 hpc1 hn1 hq1 hd1
      exact ⟨a, b, c.trans hidx, d.trans hrl, fun w' hw' => (e w' hw').trans (hoth w' hw')⟩
    cases x with
    | tau =>
      have := fin { s with pc := upd s.pc w (.body i h r) } h (by simp [applyEv, hw, hdw, stepW, hpc]) (by simp) hn
        ⟨hq.locks, hq.dead⟩ (by simpa [disc] using hd) rfl rfl (fun w' hw' => by simp [upd, hw']) _ rfl
      simpa [stepsOf, Nat.add_comm] using this
    | acq l =>
      have hd' : l ∉ h ∧ disc (l :: h) r = true := by simpa [disc] using hd
      have hfree : s.locks l = none := by rw [hq.locks l]; simp [hd'.1]
      have := fin { s with locks := upd s.locks l (some w), pc := upd s.pc w (.body i (l :: h) r) } (l :: h)
        (by simp [applyEv, hw, hdw, stepW, hpc, hfree]) (by simp) (List.nodup_cons.2 ⟨hd'.1, hn⟩)
        ⟨fun l' => by by_cases hl : l' = l <;> simp [upd, hl, hq.locks l'], hq.dead⟩ hd'.2 rfl rfl (fun w' hw' => by simp [upd, hw']) _ rfl
      simpa [stepsOf, Nat.add_comm] using this
    | rel l =>
      have hb := disc_rel hn hd
      have := fin { s with locks := upd s.locks l none, pc := upd s.pc w (.body i h.tail r) } h.tail
        (by simp [applyEv, hw, hdw, stepW, hpc, hb.1]) (by simp) hb.2.1
        ⟨fun l' => by
          by_cases hl : l' = l
          · subst hl; simp [upd, hb.2.2.1]
          · simp only [upd, hl, if_false, hq.locks l']
            by_cases hm : l' ∈ h
            · simp [hm, hb.2.2.2.2.2.2 l' hm hl]
            · have : l' ∉ h.tail := fun h' => hm (hb.2.2.2.2.2.1 l' h')
              simp [hm, this], hq.dead⟩ hb.2.2.2.2.1 rfl rfl (fun w' hw' => by simp [upd, hw']) _ rfl
      simpa [stepsOf, Nat.add_comm] using this
    | rmw a v =>
      have hd' : disc h r = true := by have := hd; simp [disc] at this; exact this.2
      -- two micro steps: read, then write
      have h1 : applyEv N n code s (.step w) = { s with pc := upd s.pc w (.mid i h a v (s.shared a) r) } := by
        simp [applyEv, hw, hdw, stepW, hpc]
      have h2 : applyEv N n code { s with pc := upd s.pc w (.mid i h a v (s.shared a) r) } (.step w) =
          { s with shared := upd s.shared a (s.shared a + v), pc := upd s.pc w (.body i h r) } := by
        simp [applyEv, hw, hdw, stepW]
        funext j; by_cases hj : j = w <;> simp [upd, hj]
      have hsteps : stepsOf (Instr.rmw a v :: r) = (stepsOf r + 1) + 1 := by simp [stepsOf]; omega
      rw [hsteps, run_solo_succ, h1, run_solo_succ, h2]
      obtain ⟨a', b, c, d, e⟩ := ih h { s with shared := upd s.shared a (s.shared a + v), pc := upd s.pc w (.body i h r) } (by simp) hn ⟨hq.locks, hq.dead⟩ hd'
      exact ⟨a', b, c, d, fun w' hw' => (e w' hw').trans (by simp [upd, hw'])⟩
    | put k v =>
      have := fin { s with slots := upd s.slots k (some v), pc := upd s.pc w (.body i h r) } h (by simp [applyEv, hw, hdw, stepW, hpc]) (by simp) hn
        ⟨hq.locks, hq.dead⟩ (by simpa [disc] using hd) rfl rfl (fun w' hw' => by simp [upd, hw']) _ rfl
      simpa [stepsOf, Nat.add_comm] using this

/-- all workers below `j` have stopped, the others are waiting at the top of their loop, nothing is locked -/
structure Ready (k j : Nat) (s : State α) : Prop where
  rlock : s.rlock = none
  locks : ∀ l, s.locks l = none
  alive : ∀ w, s.dead w = false
  idx : s.idx = k
  pcs : ∀ w, s.pc w = if w < j then .done else .idle

theorem iter_solo {N n : Nat} {code : Nat → List (Instr α)} (hc : Disciplined code) {k : Nat} (hk : k < n) (hN : 0 < N)
    {s : State α} (h : Ready k 0 s) : ∃ σ, Ready (k + 1) 0 (run N n code σ s) := by
  have hpc0 : s.pc 0 = .idle := by simpa using h.pcs 0
  have hd0 := h.alive 0
  -- the four micro steps of __next__
  let s1 : State α := { s with rlock := some 0, pc := upd s.pc 0 .locked }
  let s2 : State α := { s1 with pc := upd s1.pc 0 (.read s.idx) }
  let s3 : State α := { s2 with idx := s.idx + 1, pc := upd s2.pc 0 (.wrote s.idx), claimed := s2.claimed ++ [(0, s.idx)] }
  let s4 : State α := { s3 with rlock := none, pc := upd s3.pc 0 (.body s.idx [] (code s.idx)) }
  have e1 : applyEv N n code s (.step 0) = s1 := by simp [applyEv, hN, hd0, stepW, hpc0, h.rlock, s1]
  have e2 : applyEv N n code s1 (.step 0) = s2 := by simp [applyEv, hN, hd0, stepW, s1, s2]
  have e3 : applyEv N n code s2 (.step 0) = s3 := by
    have : ¬ n ≤ s.idx := by rw [h.idx]; omega
    simp [applyEv, hN, hd0, stepW, s1, s2, s3, this]
  have e4 : applyEv N n code s3 (.step 0) = s4 := by simp [applyEv, hN, hd0, stepW, s1, s2, s3, s4]
  have hq4 : Quiet 0 [] s4 := ⟨fun l => by simp [s4, s3, s2, s1, h.locks l], fun w => by simp [s4, s3, s2, s1, h.alive w]⟩
  obtain ⟨a, b, c, d, e⟩ := body_solo (N := N) (n := n) (code := code) hN s.idx (code s.idx) [] s4 (by simp [s4]) List.nodup_nil hq4 (hc s.idx)
  refine ⟨solo 0 4 ++ (solo 0 (stepsOf (code s.idx)) ++ solo 0 1), ?_⟩
  rw [run_append, run_append]
  have r4 : run N n code (solo 0 4) s = s4 := by
    rw [run_solo_succ, e1, run_solo_succ, e2, run_solo_succ, e3, run_solo_succ, e4]; rfl
  rw [r4]
  generalize hs5 : run N n code (solo 0 (stepsOf (code s.idx))) s4 = s5 at a b c d e
  have e5 : run N n code (solo 0 1) s5 = { s5 with pc := upd s5.pc 0 .idle } := by
    rw [run_solo_succ]
    simp [run, solo, applyEv, hN, b.dead 0, stepW, a]
  rw [e5]
  refine ⟨by simpa [s4] using d, fun l => by simpa using b.locks l, fun w => by simpa using b.dead w, by simp [c, s4, s3, h.idx], fun w => ?_⟩
  by_cases hw : w = 0
  · subst hw; simp
  · simp only [upd_other _ _ _ _ hw, Nat.not_lt_zero, if_false]
    rw [e w hw]
    simp [s4, s3, s2, s1, upd, hw]
    simpa using h.pcs w

theorem iters_solo {N n : Nat} {code : Nat → List (Instr α)} (hc : Disciplined code) (hN : 0 < N) (d : Nat) :
    ∀ (k : Nat) (s : State α), k + d = n → Ready k 0 s → ∃ σ, Ready n 0 (run N n code σ s) := by
  induction d with
  | zero => intro k s hk h; exact ⟨[], by have : k = n := by omega
                                          subst this; exact h⟩
  | succ d ih =>
    intro k s hk h
    obtain ⟨σ1, h1⟩ := iter_solo (N := N) hc (by omega : k < n) hN h
    obtain ⟨σ2, h2⟩ := ih (k + 1) _ (by omega) h1
    exact ⟨σ1 ++ σ2, by rw [run_append]; exact h2⟩

theorem stop_solo {N n : Nat} {code : Nat → List (Instr α)} {j : Nat} (hj : j < N) {s : State α} (h : Ready n j s) :
    ∃ σ, Ready n (j + 1) (run N n code σ s) := by
  have hpc : s.pc j = .idle := by simpa using h.pcs j
  have hd := h.alive j
  let s1 : State α := { s with rlock := some j, pc := upd s.pc j .locked }
  let s2 : State α := { s1 with pc := upd s1.pc j (.read s.idx) }
  let s3 : State α := { s2 with rlock := none, pc := upd s2.pc j .done }
  have e1 : applyEv N n code s (.step j) = s1 := by simp [applyEv, hj, hd, stepW, hpc, h.rlock, s1]
  have e2 : applyEv N n code s1 (.step j) = s2 := by simp [applyEv, hj, hd, stepW, s1, s2]
  have e3 : applyEv N n code s2 (.step j) = s3 := by simp [applyEv, hj, hd, stepW, s1, s2, s3, h.idx]
  refine ⟨solo j 3, ?_⟩
  rw [run_solo_succ, e1, run_solo_succ, e2, run_solo_succ, e3]
  refine ⟨rfl, fun l => by simp [run, solo, s3, s2, s1, h.locks l], fun w => by simp [run, solo, s3, s2, s1, h.alive w],
    by simp [run, solo, s3, s2, s1, h.idx], fun w => ?_⟩
  simp only [run, solo, List.replicate_zero, List.foldl_nil, s3, s2, s1]
  by_cases hw : w = j
  · subst hw; simp
  · have := h.pcs w
    simp only [upd, hw, if_false, this]
    by_cases hlt : w < j
    · simp [hlt, Nat.lt_succ_of_lt hlt]
    · have : ¬ w < j + 1 := by omega
      simp [hlt, this]

theorem stops_solo {N n : Nat} {code : Nat → List (Instr α)} (d : Nat) :
    ∀ (j : Nat) (s : State α), j + d = N → Ready n j s → ∃ σ, Ready n N (run N n code σ s) := by
  induction d with
  | zero => intro j s hj h; exact ⟨[], by have : j = N := by omega
                                          subst this; exact h⟩
  | succ d ih =>
    intro j s hj h
    obtain ⟨σ1, h1⟩ := stop_solo (N := N) (n := n) (code := code) (by omega : j < N) h
    obtain ⟨σ2, h2⟩ := ih (j + 1) _ (by omega) h1
    exact ⟨σ1 ++ σ2, by rw [run_append]; exact h2⟩

/-- a complete schedule exists for every disciplined program, every number of workers and iterations -/
theorem complete_schedule_exists_aux {N n : Nat} (hN : 0 < N) {code : Nat → List (Instr α)} (hc : Disciplined code)
    (sh : Nat → α) (sl : Nat → Option α) : ∃ σ, AllDone N (run N n code σ (init sh sl)) := by
  have h0 : Ready 0 0 (init sh sl) := ⟨rfl, fun _ => rfl, fun _ => rfl, rfl, fun w => by simp [init]⟩
  obtain ⟨σ1, h1⟩ := iters_solo (N := N) (n := n) hc hN n 0 _ (by omega) h0
  obtain ⟨σ2, h2⟩ := stops_solo (N := N) (n := n) (code := code) N 0 _ (by omega) h1
  refine ⟨σ1 ++ σ2, ?_⟩
  rw [run_append]
  intro w hw
  exact ⟨by simpa [hw] using h2.pcs w, h2.alive w⟩

end NutilsVerif.C16
