import NutilsVerif.Proofs.C06
/-!
# C06 — Add, Constant, Sum, the index-valued classes, RavelIndex, Inflate, _SizesToOffsets, PolyDegree/PolyNCoeffs
-/
namespace NutilsVerif.C06
open PyNum

/-! ### Add (n-ary: `builtins.sum` over the flattened terms) -/

theorem add_le_int {a b : PyNum} {x y : Int} (h1 : PyNum.le a (int x) = true) (h2 : PyNum.le b (int y) = true) :
    PyNum.le (add a b) (int (x + y)) = true := by
  cases a <;> cases b <;> simp_all [PyNum.add] <;> omega

theorem int_le_add {a b : PyNum} {x y : Int} (h1 : PyNum.le (int x) a = true) (h2 : PyNum.le (int y) b = true) :
    PyNum.le (int (x + y)) (add a b) = true := by
  cases a <;> cases b <;> simp_all [PyNum.add] <;> omega

theorem pySum_lower {xs : List Int} {rs : List Rng} (h : MemAll xs rs) (acc : PyNum) (v0 : Int) (h0 : PyNum.le acc (int v0) = true) :
    PyNum.le ((rs.map (·.1)).foldl add acc) (int (v0 + xs.sum)) = true := by
  induction h generalizing acc v0 with
  | nil => simpa using h0
  | cons hm _ ih =>
    simp only [List.map_cons, List.foldl_cons, List.sum_cons]
    rw [← Int.add_assoc]
    exact ih _ _ (add_le_int h0 hm.1)

theorem pySum_upper {xs : List Int} {rs : List Rng} (h : MemAll xs rs) (acc : PyNum) (v0 : Int) (h0 : PyNum.le (int v0) acc = true) :
    PyNum.le (int (v0 + xs.sum)) ((rs.map (·.2)).foldl add acc) = true := by
  induction h generalizing acc v0 with
  | nil => simpa using h0
  | cons hm _ ih =>
    simp only [List.map_cons, List.foldl_cons, List.sum_cons]
    rw [← Int.add_assoc]
    exact ih _ _ (int_le_add h0 hm.2)

theorem tfAdd_sound {xs : List Int} {rs : List Rng} (h : MemAll xs rs) : ∃ r', tfAdd rs = some r' ∧ Mem xs.sum r' := by
  refine ⟨_, rfl, ?_, ?_⟩
  · have := pySum_lower h (int 0) 0 (by simp); simpa [pySum] using this
  · have := pySum_upper h (int 0) 0 (by simp); simpa [pySum] using this

/-! ### Constant -/

theorem foldl_min_le (t : List Int) (a : Int) : t.foldl min a ≤ a ∧ ∀ v ∈ t, t.foldl min a ≤ v := by
  induction t generalizing a with
  | nil => simp
  | cons b t ih =>
    simp only [List.foldl_cons, List.mem_cons]
    obtain ⟨h1, h2⟩ := ih (min a b)
    refine ⟨by omega, ?_⟩
    rintro v (rfl | hv)
    · omega
    · exact h2 v hv

theorem le_foldl_max (t : List Int) (a : Int) : a ≤ t.foldl max a ∧ ∀ v ∈ t, v ≤ t.foldl max a := by
  induction t generalizing a with
  | nil => simp
  | cons b t ih =>
    simp only [List.foldl_cons, List.mem_cons]
    obtain ⟨h1, h2⟩ := ih (max a b)
    refine ⟨by omega, ?_⟩
    rintro v (rfl | hv)
    · omega
    · exact h2 v hv

theorem tfConstant_sound (vals : List Int) : ∃ r', tfConstant vals = some r' ∧ ∀ v ∈ vals, Mem v r' := by
  cases vals with
  | nil => exact ⟨_, rfl, by simp⟩
  | cons a t =>
    refine ⟨_, rfl, ?_⟩
    intro v hv
    simp only [List.mem_cons] at hv
    simp only [mem_int_int]
    rcases hv with rfl | hv
    · exact ⟨(foldl_min_le t v).1, (le_foldl_max t v).1⟩
    · exact ⟨(foldl_min_le t a).2 v hv, (le_foldl_max t a).2 v hv⟩

/-! ### index-valued classes -/

macro "ibash" : tactic =>
  `(tactic| ((try simp only [tfIndexBelow, tfRange, tfSearchSorted, tfTransformIndex, tfSizesToOffsets, tfInflate, tfInflateOld, tfRavelIndex, tfSum,
      unbounded, Option.some.injEq, exists_eq_left'] at *) <;>
    (try simp [PyNum.min2, PyNum.max2, PyNum.lt, PyNum.le, PyNum.eq, PyNum.add, PyNum.sub, PyNum.neg, PyNum.mul, PyNum.isInt, Mem, andMul_int_pinf,
      andMul_pinf_int, andMul_int_ninf, andMul_ninf_int] at *) <;>
    (try split_ifs) <;> (try simp_all [PyNum.min2, PyNum.max2, PyNum.lt, PyNum.le, PyNum.eq, Mem]) <;> (try split_ifs) <;> (try omega)))

/-- `Find`, `ArgSort`, `_LoopIndex`: a value `0 ≤ v < n` with `n` inside the length range -/
theorem tfIndexBelow_sound {len : Rng} (h : Valid len) {n v : Int} (hn : Mem n len) (h0 : 0 ≤ v) (h1 : v < n) :
    ∃ r', tfIndexBelow len = some r' ∧ Mem v r' := by
  rcases valid_cases h with ⟨a, b, rfl, hab⟩ | ⟨b, rfl⟩ | ⟨a, rfl⟩ | rfl <;> ibash

theorem tfRange_sound {len : Rng} (h : Valid len) (hidx : PyNum.le (int 0) len.1 = true) {n v : Int} (hn : Mem n len) (h0 : 0 ≤ v) (h1 : v < n) :
    ∃ r', tfRange len = some r' ∧ Mem v r' := by
  rcases valid_cases h with ⟨a, b, rfl, hab⟩ | ⟨b, rfl⟩ | ⟨a, rfl⟩ | rfl <;> ibash

theorem tfSearchSorted_sound {len : Rng} (h : Valid len) {n v : Int} (hn : Mem n len) (h0 : 0 ≤ v) (h1 : v ≤ n) :
    ∃ r', tfSearchSorted len = some r' ∧ Mem v r' := by
  rcases valid_cases h with ⟨a, b, rfl, hab⟩ | ⟨b, rfl⟩ | ⟨a, rfl⟩ | rfl <;> ibash

theorem tfTransformIndex_sound (ntarget : Nat) {v : Int} (h0 : 0 ≤ v) (h1 : v < ntarget) :
    ∃ r', tfTransformIndex ntarget = some r' ∧ Mem v r' := by
  refine ⟨_, rfl, ?_⟩; simp; omega

/-! ### sums of list entries -/

theorem sum_lower (xs : List Int) (lo : Int) (h : ∀ x ∈ xs, lo ≤ x) : (xs.length : Int) * lo ≤ xs.sum := by
  induction xs with
  | nil => simp
  | cons a t ih =>
    have h1 := h a (by simp)
    have h2 := ih (fun x hx => h x (by simp [hx]))
    simp only [List.length_cons, List.sum_cons]
    push_cast; nlinarith

theorem sum_upper (xs : List Int) (hi : Int) (h : ∀ x ∈ xs, x ≤ hi) : xs.sum ≤ (xs.length : Int) * hi := by
  induction xs with
  | nil => simp
  | cons a t ih =>
    have h1 := h a (by simp)
    have h2 := ih (fun x hx => h x (by simp [hx]))
    simp only [List.length_cons, List.sum_cons]
    push_cast; nlinarith


/-! ### products of an endpoint with a length bound -/

@[simp] theorem mul_int_int (a b : Int) : PyNum.mul (int a) (int b) = int (a * b) := rfl
theorem mul_int_pinf_pos {a : Int} (h : 0 < a) : PyNum.mul (int a) pinf = pinf := by simp [PyNum.mul, h]
theorem mul_int_pinf_neg {a : Int} (h : a < 0) : PyNum.mul (int a) pinf = ninf := by
  have h' : ¬ 0 < a := by omega
  simp [PyNum.mul, h, h']
theorem mul_zero_pinf : PyNum.mul (int 0) pinf = nan := by simp [PyNum.mul]
theorem mul_ninf_int_pos {d : Int} (h : 0 < d) : PyNum.mul ninf (int d) = ninf := by simp [PyNum.mul, h]
theorem mul_pinf_int_pos {d : Int} (h : 0 < d) : PyNum.mul pinf (int d) = pinf := by simp [PyNum.mul, h]
theorem mul_ninf_zero : PyNum.mul ninf (int 0) = nan := by simp [PyNum.mul]
theorem min2_zero_nan : min2 (int 0) nan = int 0 := by simp [PyNum.min2, PyNum.lt]
theorem max2_zero_nan : max2 (int 0) nan = int 0 := by simp [PyNum.max2, PyNum.lt]
theorem min2_int_nan (a : Int) : min2 (int a) nan = int a := by simp [PyNum.min2, PyNum.lt]
theorem max2_int_nan (a : Int) : max2 (int a) nan = int a := by simp [PyNum.max2, PyNum.lt]

theorem sum_nil_of_length {xs : List Int} (h : (xs.length : Int) = 0) : xs.sum = 0 := by
  have : xs = [] := List.eq_nil_of_length_eq_zero (by omega)
  simp [this]

/-! ### Sum -/

/-- lower endpoint of `Sum`: `l` is the lower endpoint of the summand, `(int c, U)` the range of the length `n` -/
theorem sum_lower_endpoint {l U : PyNum} {c n s : Int} (hl : l = ninf ∨ ∃ a, l = int a ∧ n * a ≤ s) (hc : 0 ≤ c) (hcn : c ≤ n)
    (hU : PyNum.le (int n) U = true) (h0 : n = 0 → s = 0) :
    PyNum.le (if PyNum.eq U (int 0) then int 0 else if PyNum.eq (int c) (int 0) then min2 (int 0) (PyNum.mul l U)
      else min2 (PyNum.mul l (int c)) (PyNum.mul l U)) (int s) = true := by
  cases U with
  | int d =>
    have hnd : n ≤ d := by simpa using hU
    by_cases hd : d = 0
    · subst hd; have : s = 0 := h0 (by omega)
      simp [this]
    · have hdpos : 0 < d := by omega
      simp only [eq_int_int, hd, if_false]
      rcases hl with rfl | ⟨a, rfl, ha⟩
      · rw [mul_ninf_int_pos hdpos]
        by_cases hc0 : c = 0
        · simp [hc0, PyNum.min2, PyNum.lt]
        · simp only [hc0, if_false]
          rw [mul_ninf_int_pos (by omega)]
          simp [PyNum.min2, PyNum.lt]
      · simp only [mul_int_int]
        by_cases hc0 : c = 0
        · simp only [hc0, if_true]
          rcases le_or_gt 0 a with h | h
          · refine min2_le_left ?_
            simp only [le_int_int]; nlinarith
          · refine min2_le_right (nn_int _) ?_
            simp only [le_int_int]; nlinarith
        · simp only [hc0, if_false]
          rcases le_or_gt 0 a with h | h
          · refine min2_le_left ?_
            simp only [le_int_int]; nlinarith
          · refine min2_le_right (nn_int _) ?_
            simp only [le_int_int]; nlinarith
  | pinf =>
    simp only [PyNum.eq, Bool.false_eq_true, if_false, eq_int_int]
    rcases hl with rfl | ⟨a, rfl, ha⟩
    · by_cases hc0 : c = 0
      · simp [hc0, PyNum.mul, PyNum.min2, PyNum.lt]
      · simp only [hc0, if_false]
        rw [mul_ninf_int_pos (by omega)]
        simp [PyNum.mul, PyNum.min2, PyNum.lt]
    · by_cases hc0 : c = 0
      · simp only [hc0, if_true]
        rcases le_or_gt 0 a with h | h
        · refine min2_le_left ?_
          simp only [le_int_int]; nlinarith
        · rw [mul_int_pinf_neg h]; exact min2_le_right (nn_int 0) (le_ninf_left (nn_int s))
      · simp only [hc0, if_false, mul_int_int]
        rcases le_or_gt 0 a with h | h
        · refine min2_le_left ?_
          simp only [le_int_int]; nlinarith
        · rw [mul_int_pinf_neg h]; exact min2_le_right (a := int (a * c)) (nn_int _) (le_ninf_left (nn_int s))
  | ninf => simp at hU
  | nan => simp at hU

theorem sum_upper_endpoint {h U : PyNum} {c n s : Int} (hh : h = pinf ∨ ∃ b, h = int b ∧ s ≤ n * b) (hc : 0 ≤ c) (hcn : c ≤ n)
    (hU : PyNum.le (int n) U = true) (h0 : n = 0 → s = 0) :
    PyNum.le (int s) (if PyNum.eq U (int 0) then int 0 else if PyNum.eq (int c) (int 0) then max2 (int 0) (PyNum.mul h U)
      else max2 (PyNum.mul h (int c)) (PyNum.mul h U)) = true := by
  cases U with
  | int d =>
    have hnd : n ≤ d := by simpa using hU
    by_cases hd : d = 0
    · subst hd; have : s = 0 := h0 (by omega)
      simp [this]
    · have hdpos : 0 < d := by omega
      simp only [eq_int_int, hd, if_false]
      rcases hh with rfl | ⟨b, rfl, hb⟩
      · rw [mul_pinf_int_pos hdpos]
        by_cases hc0 : c = 0
        · simp [hc0, PyNum.max2, PyNum.lt]
        · simp only [hc0, if_false]
          rw [mul_pinf_int_pos (by omega)]
          simp [PyNum.max2, PyNum.lt]
      · simp only [mul_int_int]
        by_cases hc0 : c = 0
        · simp only [hc0, if_true]
          rcases le_or_gt b 0 with h | h
          · refine max2_ge_left ?_
            simp only [le_int_int]; nlinarith
          · refine max2_ge_right (nn_int _) ?_
            simp only [le_int_int]; nlinarith
        · simp only [hc0, if_false]
          rcases le_or_gt b 0 with h | h
          · refine max2_ge_left ?_
            simp only [le_int_int]; nlinarith
          · refine max2_ge_right (nn_int _) ?_
            simp only [le_int_int]; nlinarith
  | pinf =>
    simp only [PyNum.eq, Bool.false_eq_true, if_false, eq_int_int]
    rcases hh with rfl | ⟨b, rfl, hb⟩
    · by_cases hc0 : c = 0
      · simp [hc0, PyNum.mul, PyNum.max2, PyNum.lt]
      · simp only [hc0, if_false]
        rw [mul_pinf_int_pos (by omega)]
        simp [PyNum.mul, PyNum.max2, PyNum.lt]
    · by_cases hc0 : c = 0
      · simp only [hc0, if_true]
        rcases le_or_gt b 0 with h | h
        · refine max2_ge_left ?_
          simp only [le_int_int]; nlinarith
        · rw [mul_int_pinf_pos h]; exact max2_ge_right (nn_int 0) (le_pinf_right (nn_int s))
      · simp only [hc0, if_false, mul_int_int]
        rcases le_or_gt b 0 with h | h
        · refine max2_ge_left ?_
          simp only [le_int_int]; nlinarith
        · rw [mul_int_pinf_pos h]; exact max2_ge_right (a := int (b * c)) (nn_int _) (le_pinf_right (nn_int s))
  | ninf => simp at hU
  | nan => simp at hU

theorem tfSum_sound {f len : Rng} (hf : Valid f) (hl : Valid len) (hidx : PyNum.le (int 0) len.1 = true) {xs : List Int}
    (hn : Mem (xs.length : Int) len) (hx : ∀ x ∈ xs, Mem x f) : ∃ r', tfSum f len = some r' ∧ Mem xs.sum r' := by
  obtain ⟨c, hc⟩ : ∃ c, len.1 = int c := by
    rcases valid_cases hl with ⟨a, b, rfl, _⟩ | ⟨b, rfl⟩ | ⟨a, rfl⟩ | rfl <;> simp_all
  have hc0 : 0 ≤ c := by rw [hc] at hidx; simpa using hidx
  have hcn : c ≤ (xs.length : Int) := by have := hn.1; rw [hc] at this; simpa using this
  have h0 : (xs.length : Int) = 0 → xs.sum = 0 := sum_nil_of_length
  have hlo : f.1 = ninf ∨ ∃ a, f.1 = int a ∧ (xs.length : Int) * a ≤ xs.sum := by
    rcases valid_cases hf with ⟨a, b, rfl, _⟩ | ⟨b, rfl⟩ | ⟨a, rfl⟩ | rfl
    · exact Or.inr ⟨a, rfl, sum_lower xs a (fun x hx' => by have := hx x hx'; simp at this; omega)⟩
    · exact Or.inl rfl
    · exact Or.inr ⟨a, rfl, sum_lower xs a (fun x hx' => by have := hx x hx'; simpa using this)⟩
    · exact Or.inl rfl
  have hhi : f.2 = pinf ∨ ∃ b, f.2 = int b ∧ xs.sum ≤ (xs.length : Int) * b := by
    rcases valid_cases hf with ⟨a, b, rfl, _⟩ | ⟨b, rfl⟩ | ⟨a, rfl⟩ | rfl
    · exact Or.inr ⟨b, rfl, sum_upper xs b (fun x hx' => by have := hx x hx'; simp at this; omega)⟩
    · exact Or.inr ⟨b, rfl, sum_upper xs b (fun x hx' => by have := hx x hx'; simpa using this)⟩
    · exact Or.inl rfl
    · exact Or.inl rfl
  have L := sum_lower_endpoint hlo hc0 hcn hn.2 h0
  have U := sum_upper_endpoint hhi hc0 hcn hn.2 h0
  unfold tfSum
  rw [hc]
  by_cases e1 : PyNum.eq len.2 (int 0) = true
  · refine ⟨_, by simp only [e1, if_true]; rfl, ?_⟩
    simp only [e1, if_true] at L U
    exact ⟨L, U⟩
  · by_cases e2 : PyNum.eq (int c) (int 0) = true
    · refine ⟨_, by simp only [e1, e2, if_true, if_false]; rfl, ?_⟩
      simp only [e1, e2, if_true, if_false] at L U
      exact ⟨L, U⟩
    · refine ⟨_, by simp only [e1, e2, if_false]; rfl, ?_⟩
      simp only [e1, e2, if_false] at L U
      exact ⟨L, U⟩

/-! ### RavelIndex (documented domain: `ia ≥ 0` indexes an axis, `nb ≥ 0` is a length) -/

/-- the product of nonnegative values is bounded by the guarded product of their upper bounds -/
theorem andMul_mono_nonneg {A U : PyNum} {p d : Int} (hp : 0 ≤ p) (hd : 0 ≤ d) (h1 : PyNum.le (int p) A = true) (h2 : PyNum.le (int d) U = true) :
    PyNum.le (int (p * d)) (andMul A U) = true := by
  cases A with
  | int A =>
    have hA : p ≤ A := by simpa using h1
    cases U with
    | int U => have hU : d ≤ U := by simpa using h2
               simp only [andMul_int_int, le_int_int]; nlinarith
    | pinf =>
      rw [andMul_int_pinf]
      by_cases hA0 : A = 0
      · have : p = 0 := by omega
        simp [hA0, this]
      · have : 0 < A := by omega
        simp [hA0, this]
    | ninf => simp at h2
    | nan => simp at h2
  | pinf =>
    cases U with
    | int U =>
      have hU : d ≤ U := by simpa using h2
      rw [andMul_pinf_int]
      by_cases hU0 : U = 0
      · have : d = 0 := by omega
        simp [hU0, this]
      · have : 0 < U := by omega
        simp [hU0, this]
    | pinf => simp
    | ninf => simp at h2
    | nan => simp at h2
  | ninf => simp at h1
  | nan => simp at h1

/-- either the lower endpoint is `nan` (then `_intbounds` raises) or the value is inside -/
theorem tfRavelIndex_sound {ia ib nb : Rng} (h3 : Valid nb) (hidx : PyNum.le (int 0) nb.1 = true)
    {a b n : Int} (ha : Mem a ia) (hb : Mem b ib) (hn : Mem n nb) (ha0 : 0 ≤ a) :
    ∃ r', tfRavelIndex ia ib nb = some r' ∧ (r'.1 = nan ∨ Mem (a * n + b) r') := by
  refine ⟨_, rfl, ?_⟩
  obtain ⟨c, hc⟩ : ∃ c, nb.1 = int c := by
    rcases valid_cases h3 with ⟨a, b, rfl, _⟩ | ⟨b, rfl⟩ | ⟨a, rfl⟩ | rfl <;> simp_all
  have hc0 : 0 ≤ c := by rw [hc] at hidx; simpa using hidx
  have hcn : c ≤ n := by have := hn.1; rw [hc] at this; simpa using this
  have hup : PyNum.le (int (a * n + b)) (add (andMul ia.2 nb.2) ib.2) = true :=
    int_le_add (andMul_mono_nonneg ha0 (by omega) ha.2 hn.2) hb.2
  simp only [hc]
  cases hia : ia.1 with
  | int p =>
    have hpa : p ≤ a := by have := ha.1; rw [hia] at this; simpa using this
    right
    refine ⟨add_le_int (by simp only [mul_int_int, le_int_int]; rcases le_or_gt 0 p with h | h <;> nlinarith) hb.1, hup⟩
  | ninf =>
    by_cases hc00 : c = 0
    · left; subst hc00; simp [PyNum.mul, PyNum.add]
    · right
      refine ⟨add_le_int (x := a * n) (by rw [mul_ninf_int_pos (by omega)]; simp) hb.1, hup⟩
  | pinf => have := ha.1; rw [hia] at this; simp at this
  | nan => have := ha.1; rw [hia] at this; simp at this

/-! ### Inflate -/

theorem inflateMult_shape_sound (ds : List Int) (us : List PyNum) (h : ds.length = us.length)
    (hd : ∀ p ∈ ds.zip us, 0 ≤ p.1 ∧ PyNum.le (int p.1) p.2 = true) (acc : PyNum) (p0 : Int) (hp0 : 0 ≤ p0)
    (hacc : PyNum.le (int p0) acc = true) :
    PyNum.le (int (p0 * ds.prod)) (us.foldl andMul acc) = true := by
  induction ds generalizing us acc p0 with
  | nil =>
    cases us with
    | nil => simpa using hacc
    | cons _ _ => simp at h
  | cons d ds ih =>
    cases us with
    | nil => simp at h
    | cons u us =>
      simp only [List.zip_cons_cons, List.mem_cons, List.length_cons, Nat.add_right_cancel_iff] at hd h
      simp only [List.foldl_cons, List.prod_cons]
      have h1 := hd (d, u) (Or.inl rfl)
      rw [← Int.mul_assoc]
      exact ih us h (fun p hp => hd p (Or.inr hp)) _ _ (Int.mul_nonneg hp0 h1.1) (andMul_mono_nonneg hp0 h1.1 hacc h1.2)

/-- `xs` are the entries of `func` that are added into one dof; their number is at most the multiplicity `m` -/
theorem tfInflate_sound {f : Rng} (hf : Valid f) (k : DofKind) {xs : List Int} (hx : ∀ x ∈ xs, Mem x f)
    (hm : PyNum.le (int xs.length) (inflateMult k) = true) : ∃ r', tfInflate f k = some r' ∧ Mem xs.sum r' := by
  refine ⟨_, rfl, ?_⟩
  have hn0 : (0 : Int) ≤ xs.length := by omega
  have h0 : (xs.length : Int) = 0 → xs.sum = 0 := sum_nil_of_length
  have hmnn : NN (inflateMult k) := le_nn_right hm
  obtain ⟨nl, nu⟩ := valid_nn hf
  generalize inflateMult k = m at *
  constructor
  · -- lower: `min(lower and m and lower*m, 0)`
    rcases valid_cases hf with ⟨a, b, rfl, _⟩ | ⟨b, rfl⟩ | ⟨a, rfl⟩ | rfl
    all_goals first
      | -- finite lower endpoint `a`
        (have hlo := sum_lower xs a (fun x hx' => by have := hx x hx'; simp at this; omega)
         rcases le_or_gt 0 a with h | h
         · refine min2_le_right (andMul_nn (nn_int _) hmnn) ?_
           simp only [le_int_int]; nlinarith
         · refine min2_le_left ?_
           cases m with
           | int M => have : (xs.length : Int) ≤ M := by simpa using hm
                      simp only [andMul_int_int, le_int_int]; nlinarith
           | pinf => rw [andMul_int_pinf]; have h1 : ¬ a = 0 := by omega
                     have h2 : ¬ 0 < a := by omega
                     simp [h1, h2]
           | ninf => simp at hm
           | nan => simp at hm)
      | -- lower endpoint `-inf`
        (cases m with
         | int M =>
           have hM : (xs.length : Int) ≤ M := by simpa using hm
           rw [andMul_ninf_int]
           by_cases hM0 : M = 0
           · have : xs.sum = 0 := h0 (by omega)
             simp [hM0, this, PyNum.min2, PyNum.lt]
           · have : 0 < M := by omega
             simp [hM0, this, PyNum.min2, PyNum.lt]
         | pinf => simp [PyNum.min2, PyNum.lt]
         | ninf => simp at hm
         | nan => simp at hm)
  · rcases valid_cases hf with ⟨a, b, rfl, _⟩ | ⟨b, rfl⟩ | ⟨a, rfl⟩ | rfl
    all_goals first
      | (have hhi := sum_upper xs b (fun x hx' => by have := hx x hx'; simp at this; omega)
         rcases le_or_gt b 0 with h | h
         · refine max2_ge_right (andMul_nn (nn_int _) hmnn) ?_
           simp only [le_int_int]; nlinarith
         · refine max2_ge_left ?_
           cases m with
           | int M => have : (xs.length : Int) ≤ M := by simpa using hm
                      simp only [andMul_int_int, le_int_int]; nlinarith
           | pinf => rw [andMul_int_pinf]; have h1 : ¬ b = 0 := by omega
                     simp [h1, h]
           | ninf => simp at hm
           | nan => simp at hm)
      | (cases m with
         | int M =>
           have hM : (xs.length : Int) ≤ M := by simpa using hm
           rw [andMul_pinf_int]
           by_cases hM0 : M = 0
           · have : xs.sum = 0 := h0 (by omega)
             simp [hM0, this, PyNum.max2, PyNum.lt]
           · have : 0 < M := by omega
             simp [hM0, this, PyNum.max2, PyNum.lt]
         | pinf => simp [PyNum.max2, PyNum.lt]
         | ninf => simp at hm
         | nan => simp at hm)

/-! ### _SizesToOffsets -/

/-- an offset is the sum `xs.sum` of the first `xs.length ≤ n` sizes, `n` being the number of sizes -/
theorem tfSizesToOffsets_sound {sizes len : Rng} (hs : Valid sizes) (hs0 : PyNum.le (int 0) sizes.1 = true)
    {xs : List Int} {n : Int} (hx : ∀ x ∈ xs, Mem x sizes) (hn : Mem n len) (hk : (xs.length : Int) ≤ n) :
    ∃ r', tfSizesToOffsets sizes len = some r' ∧ Mem xs.sum r' := by
  refine ⟨_, rfl, ?_⟩
  have hk0 : (0 : Int) ≤ xs.length := by omega
  have h0 : (xs.length : Int) = 0 → xs.sum = 0 := sum_nil_of_length
  obtain ⟨c, hc⟩ : ∃ c, sizes.1 = int c := by
    rcases valid_cases hs with ⟨a, b, rfl, _⟩ | ⟨b, rfl⟩ | ⟨a, rfl⟩ | rfl <;> simp_all
  have hc0 : 0 ≤ c := by rw [hc] at hs0; simpa using hs0
  have hxs0 : ∀ x ∈ xs, 0 ≤ x := fun x hx' => by
    have := (hx x hx').1; rw [hc] at this; simp at this; omega
  have hs_nonneg : 0 ≤ xs.sum := by
    have := sum_lower xs 0 hxs0; simpa using this
  constructor
  · simpa using hs_nonneg
  · show PyNum.le (int xs.sum) (if PyNum.eq len.2 (int 0) || PyNum.eq sizes.2 (int 0) then int 0 else PyNum.mul len.2 sizes.2) = true
    have hnU := hn.2
    cases hN : len.2 with
    | int N =>
      rw [hN] at hnU
      have hnN : n ≤ N := by simpa using hnU
      cases hM : sizes.2 with
      | int M =>
        have hhi := sum_upper xs M (fun x hx' => by have := (hx x hx').2; rw [hM] at this; simpa using this)
        by_cases hN0 : N = 0
        · have : xs.sum = 0 := h0 (by omega)
          simp [hN0, this]
        · by_cases hM0 : M = 0
          · have : xs.sum ≤ 0 := by rw [hM0] at hhi; simpa using hhi
            have : xs.sum = 0 := by omega
            simp [hM0, this]
          · have hMpos : 0 ≤ M := by
              have := valid_le hs; rw [hc, hM] at this; simp at this; omega
            have e : (PyNum.eq (int N) (int 0) || PyNum.eq (int M) (int 0)) = false := by simp [PyNum.eq, hN0, hM0]
            rw [e]
            simp only [Bool.false_eq_true, if_false, mul_int_int, le_int_int]
            nlinarith
      | pinf =>
        by_cases hN0 : N = 0
        · have : xs.sum = 0 := h0 (by omega)
          simp [hN0, this]
        · have : 0 < N := by omega
          simp [hN0, PyNum.eq, mul_int_pinf_pos this]
      | ninf => have := valid_le hs; rw [hc, hM] at this; simp at this
      | nan => have := (valid_nn hs).2; rw [hM] at this; simp at this
    | pinf =>
      cases hM : sizes.2 with
      | int M =>
        have hhi := sum_upper xs M (fun x hx' => by have := (hx x hx').2; rw [hM] at this; simpa using this)
        by_cases hM0 : M = 0
        · have : xs.sum ≤ 0 := by rw [hM0] at hhi; simpa using hhi
          have : xs.sum = 0 := by omega
          simp [hM0, this, PyNum.eq]
        · have hMpos : 0 < M := by
            have := valid_le hs; rw [hc, hM] at this; simp at this; omega
          simp [hM0, PyNum.eq, mul_pinf_int_pos hMpos]
      | pinf => simp [PyNum.eq, PyNum.mul]
      | ninf => have := valid_le hs; rw [hc, hM] at this; simp at this
      | nan => have := (valid_nn hs).2; rw [hM] at this; simp at this
    | ninf => rw [hN] at hnU; simp at hnU
    | nan => rw [hN] at hnU; simp at hnU

end NutilsVerif.C06
