import NutilsVerif.Proofs.C06
/-!
# C06 — Add, Constant, Sum, the index-valued classes, RavelIndex, Inflate, _SizesToOffsets, PolyDegree/PolyNCoeffs
-/
namespace NutilsVerif.C06
open PyNum

/-! ### Add (n-ary: `builtins.sum` over the flattened terms) -/

theorem add_le_int {a b : PyNum} {x y : Int} (h1 : PyNum.le a (int x) = true) (h2 : PyNum.le b (int y) = true) :
    PyNum.le (add a b) (int (x + y)) = true := by
  cases a <;> cases b <;> simp_all [PyNum.add] <;> omega

theorem int_le_add {a b : PyNum} {x y : Int} (h1 : PyNum.le (int x) a = true) (h2 : PyNum.le (int y) b = true) :
    PyNum.le (int (x + y)) (add a b) = true := by
  cases a <;> cases b <;> simp_all [PyNum.add] <;> omega

theorem pySum_lower {xs : List Int} {rs : List Rng} (h : MemAll xs rs) (acc : PyNum) (v0 : Int) (h0 : PyNum.le acc (int v0) = true) :
    PyNum.le ((rs.map (·.1)).foldl add acc) (int (v0 + xs.sum)) = true := by
  induction h generalizing acc v0 with
  | nil => simpa using h0
  | cons hm _ ih =>
    simp only [List.map_cons, List.foldl_cons, List.sum_cons]
    rw [← Int.add_assoc]
    exact ih _ _ (add_le_int h0 hm.1)

theorem pySum_upper {xs : List Int} {rs : List Rng} (h : MemAll xs rs) (acc : PyNum) (v0 : Int) (h0 : PyNum.le (int v0) acc = true) :
    PyNum.le (int (v0 + xs.sum)) ((rs.map (·.2)).foldl add acc) = true := by
  induction h generalizing acc v0 with
  | nil => simpa using h0
  | cons hm _ ih =>
    simp only [List.map_cons, List.foldl_cons, List.sum_cons]
    rw [← Int.add_assoc]
    exact ih _ _ (int_le_add h0 hm.2)

theorem tfAdd_sound {xs : List Int} {rs : List Rng} (h : MemAll xs rs) : ∃ r', tfAdd rs = some r' ∧ Mem xs.sum r' := by
  refine ⟨_, rfl, ?_, ?_⟩
  · have := pySum_lower h (int 0) 0 (by simp); simpa [pySum] using this
  · have := pySum_upper h (int 0) 0 (by simp); simpa [pySum] using this

/-! ### Constant -/

theorem foldl_min_le (t : List Int) (a : Int) : t.foldl min a ≤ a ∧ ∀ v ∈ t, t.foldl min a ≤ v := by
  induction t generalizing a with
  | nil => simp
  | cons b t ih =>
    simp only [List.foldl_cons, List.mem_cons]
    obtain ⟨h1, h2⟩ := ih (min a b)
    refine ⟨by omega, ?_⟩
    rintro v (rfl | hv)
    · omega
    · exact h2 v hv

theorem le_foldl_max (t : List Int) (a : Int) : a ≤ t.foldl max a ∧ ∀ v ∈ t, v ≤ t.foldl max a := by
  induction t generalizing a with
  | nil => simp
  | cons b t ih =>
    simp only [List.foldl_cons, List.mem_cons]
    obtain ⟨h1, h2⟩ := ih (max a b)
    refine ⟨by omega, ?_⟩
    rintro v (rfl | hv)
    · omega
    · exact h2 v hv

theorem tfConstant_sound (vals : List Int) : ∃ r', tfConstant vals = some r' ∧ ∀ v ∈ vals, Mem v r' := by
  cases vals with
  | nil => exact ⟨_, rfl, by simp⟩
  | cons a t =>
    refine ⟨_, rfl, ?_⟩
    intro v hv
    simp only [List.mem_cons] at hv
    simp only [mem_int_int]
    rcases hv with rfl | hv
    · exact ⟨(foldl_min_le t v).1, (le_foldl_max t v).1⟩
    · exact ⟨(foldl_min_le t a).2 v hv, (le_foldl_max t a).2 v hv⟩

/-! ### index-valued classes -/

macro "ibash" : tactic =>
  `(tactic| ((try simp only [tfIndexBelow, tfRange, tfSearchSorted, tfTransformIndex, tfSizesToOffsets, tfInflate, tfInflateOld, tfRavelIndex, tfSum,
      unbounded, Option.some.injEq, exists_eq_left'] at *) <;>
    (try simp [PyNum.min2, PyNum.max2, PyNum.lt, PyNum.le, PyNum.eq, PyNum.add, PyNum.sub, PyNum.neg, PyNum.mul, PyNum.isInt, Mem, andMul_int_pinf,
      andMul_pinf_int, andMul_int_ninf, andMul_ninf_int] at *) <;>
    (try split_ifs) <;> (try simp_all [PyNum.min2, PyNum.max2, PyNum.lt, PyNum.le, PyNum.eq, Mem]) <;> (try split_ifs) <;> (try omega)))

/-- `Find`, `ArgSort`, `_LoopIndex`: a value `0 ≤ v < n` with `n` inside the length range -/
theorem tfIndexBelow_sound {len : Rng} (h : Valid len) {n v : Int} (hn : Mem n len) (h0 : 0 ≤ v) (h1 : v < n) :
    ∃ r', tfIndexBelow len = some r' ∧ Mem v r' := by
  rcases valid_cases h with ⟨a, b, rfl, hab⟩ | ⟨b, rfl⟩ | ⟨a, rfl⟩ | rfl <;> ibash

theorem tfRange_sound {len : Rng} (h : Valid len) (hidx : PyNum.le (int 0) len.1 = true) {n v : Int} (hn : Mem n len) (h0 : 0 ≤ v) (h1 : v < n) :
    ∃ r', tfRange len = some r' ∧ Mem v r' := by
  rcases valid_cases h with ⟨a, b, rfl, hab⟩ | ⟨b, rfl⟩ | ⟨a, rfl⟩ | rfl <;> ibash

theorem tfSearchSorted_sound {len : Rng} (h : Valid len) {n v : Int} (hn : Mem n len) (h0 : 0 ≤ v) (h1 : v ≤ n) :
    ∃ r', tfSearchSorted len = some r' ∧ Mem v r' := by
  rcases valid_cases h with ⟨a, b, rfl, hab⟩ | ⟨b, rfl⟩ | ⟨a, rfl⟩ | rfl <;> ibash

theorem tfTransformIndex_sound (ntarget : Nat) {v : Int} (h0 : 0 ≤ v) (h1 : v < ntarget) :
    ∃ r', tfTransformIndex ntarget = some r' ∧ Mem v r' := by
  refine ⟨_, rfl, ?_⟩; simp; omega

/-! ### sums of list entries -/

theorem sum_lower (xs : List Int) (lo : Int) (h : ∀ x ∈ xs, lo ≤ x) : (xs.length : Int) * lo ≤ xs.sum := by
  induction xs with
  | nil => simp
  | cons a t ih =>
    have h1 := h a (by simp)
    have h2 := ih (fun x hx => h x (by simp [hx]))
    simp only [List.length_cons, List.sum_cons]
    push_cast; nlinarith

theorem sum_upper (xs : List Int) (hi : Int) (h : ∀ x ∈ xs, x ≤ hi) : xs.sum ≤ (xs.length : Int) * hi := by
  induction xs with
  | nil => simp
  | cons a t ih =>
    have h1 := h a (by simp)
    have h2 := ih (fun x hx => h x (by simp [hx]))
    simp only [List.length_cons, List.sum_cons]
    push_cast; nlinarith

end NutilsVerif.C06
