import NutilsVerif.Model.C16
/-!
# C16 — the alias rule of the static check

`lockOK` is decided on *allocation sites*, not on variable names: a variable bound to anything that is not certainly a new
object (`RhsKind.view`: `numpy.einsum('...ii->...i', v)`, `numpy.transpose(v, …)`, `v[…]`, `v.reshape(…)`, `v.T`, a plain
`w = v`, any unknown call) inherits the allocation sites of everything it reads, transitively.  An in-place accumulation
through such a variable is therefore classified exactly like one through the array itself: `accum (arrayId v)`, which
`lockOK` accepts only inside `with lock<id v>:`.
-/
namespace NutilsVerif.C16

theorem get_cons_self (i : VarInfo) (e : Env) : Env.get (i :: e) i.name = some i := by
  simp [Env.get, List.find?]

theorem get_cons_ne (i : VarInfo) (e : Env) (x : String) (h : i.name ≠ x) : Env.get (i :: e) x = Env.get e x := by
  have : (i.name == x) = false := by simpa using h
  simp [Env.get, List.find?, this]

/-- a view of a known non-lock variable `y` has exactly the allocation sites of `y` -/
theorem view_inherits_roots (o : Bool) (e : Env) (x y : String) (iy : VarInfo)
    (hy : e.get y = some iy) (hyl : iy.isLock = false) (hne : iy.roots.eraseDups ≠ []) :
    (bindVar o e x .view [y]).get x =
      some { name := x, outer := o, shared := false, isLock := false, roots := iy.roots.eraseDups } := by
  have hr : rootsOf e ([y].filter fun x => (e.get x).isSome) = iy.roots.eraseDups := by
    simp [rootsOf, hy, hyl]
  unfold bindVar
  simp only [hr]
  have : (iy.roots.eraseDups).isEmpty = false := by
    cases h : iy.roots.eraseDups with
    | nil => exact absurd h hne
    | cons a t => rfl
  simp only [this]
  exact get_cons_self _ e

/-- binding another variable leaves the entries of all other names alone -/
theorem bindVar_get_ne (o : Bool) (e : Env) (x z : String) (k : RhsKind) (reads : List String) (h : x ≠ z) :
    (bindVar o e x k reads).get z = e.get z := by
  cases k <;> simp only [bindVar] <;> exact get_cons_ne _ e z h

/-- **alias rule**: an accumulation `numpy.add(x, …, out=x)` / `numpy.add.at(x, …)` inside a parallel loop, where `x` is any
variable whose only allocation site is the shared array `v` allocated in front of the loop, is the statement `accum (arrayId v)` —
whatever the name `x`, wherever it was bound, through however many views. -/
theorem alias_accum (muts scratch : List String) (e : Env) (x v : String) (ix iv : VarInfo)
    (hx : e.get x = some ix) (hxl : ix.isLock = false) (hxr : ix.roots = [v])
    (hv : e.get v = some iv) (hvo : iv.outer = true) (hvs : iv.shared = true) (hs : scratch.contains v = false) :
    (clsS muts scratch e (.mutate true [x] [] [])).2 = [.accum (arrayId v)] := by
  have hd : List.eraseDups [v] = [v] := rfl
  have hroots : rootsOf e [x] = [v] := by simp [rootsOf, hx, hxl, hxr, hd]
  have hout : isOuter e v = true := by simp [isOuter, hv, hvo]
  have hsh : isShared e v = true := by simp [isShared, hv, hvs]
  have hs' : (!scratch.contains v) = true := by rw [hs]; rfl
  simp only [clsS, hroots, List.filter, hout, hs', hsh]
  simp [racyRead, rootsOf]

end NutilsVerif.C16
