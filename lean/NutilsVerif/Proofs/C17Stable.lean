import NutilsVerif.Proofs.C17Lemmas
/-!
# C17 — the hash respects `Equiv` (order independence) and NumPy-scalar normalisation
-/
namespace NutilsVerif.C17

variable {H : Bytes → Bytes}

/-! ### `bytesLe` is a total order, so `sorted` depends on the multiset only -/

theorem bytesLe_total : ∀ (a b : Bytes), (bytesLe a b || bytesLe b a) = true
  | [], _ => by simp [bytesLe]
  | _ :: _, [] => by simp [bytesLe]
  | a :: as, b :: bs => by
    have ih := bytesLe_total as bs
    simp only [bytesLe, Bool.or_eq_true, Bool.and_eq_true, decide_eq_true_eq] at *
    by_cases h1 : a.toNat < b.toNat
    · exact .inl (.inl h1)
    · by_cases h2 : b.toNat < a.toNat
      · exact .inr (.inl h2)
      · have : a.toNat = b.toNat := by omega
        rcases ih with h | h
        · exact .inl (.inr ⟨this, h⟩)
        · exact .inr (.inr ⟨this.symm, h⟩)

theorem bytesLe_trans : ∀ (a b c : Bytes), bytesLe a b = true → bytesLe b c = true → bytesLe a c = true
  | [], _, _, _, _ => by simp [bytesLe]
  | _ :: _, [], _, h, _ => by simp [bytesLe] at h
  | _ :: _, _ :: _, [], _, h => by simp [bytesLe] at h
  | a :: as, b :: bs, c :: cs, h1, h2 => by
    have ih := bytesLe_trans as bs cs
    simp only [bytesLe, Bool.or_eq_true, Bool.and_eq_true, decide_eq_true_eq] at *
    rcases h1 with h1 | ⟨e1, h1⟩ <;> rcases h2 with h2 | ⟨e2, h2⟩
    · exact .inl (by omega)
    · exact .inl (by omega)
    · exact .inl (by omega)
    · exact .inr ⟨by omega, ih h1 h2⟩

theorem bytesLe_antisymm : ∀ (a b : Bytes), bytesLe a b = true → bytesLe b a = true → a = b
  | [], [], _, _ => rfl
  | [], _ :: _, _, h => by simp [bytesLe] at h
  | _ :: _, [], h, _ => by simp [bytesLe] at h
  | a :: as, b :: bs, h1, h2 => by
    have ih := bytesLe_antisymm as bs
    simp only [bytesLe, Bool.or_eq_true, Bool.and_eq_true, decide_eq_true_eq] at *
    rcases h1 with h1 | ⟨e1, h1⟩ <;> rcases h2 with h2 | ⟨e2, h2⟩
    · omega
    · omega
    · omega
    · rw [UInt8.toNat_inj.mp e1, ih h1 h2]

theorem sortB_perm {l1 l2 : List Bytes} (h : l1.Perm l2) : sortB l1 = sortB l2 := by
  unfold sortB
  refine List.Perm.eq_of_pairwise (le := fun a b => bytesLe a b = true) (fun a b _ _ => bytesLe_antisymm a b)
    (List.pairwise_mergeSort bytesLe_trans bytesLe_total l1) (List.pairwise_mergeSort bytesLe_trans bytesLe_total l2) ?_
  exact (List.mergeSort_perm l1 _).trans (h.trans (List.mergeSort_perm l2 _).symm)

/-! ### `Equiv` values hash alike, whatever `H` is -/

mutual
theorem equiv_emit : {v w : Value} → Equiv v w → emit H v = emit H w
  | _, _, .none => rfl
  | _, _, .ellipsis => rfl
  | _, _, .bool _ => rfl
  | _, _, .int _ => rfl
  | _, _, .float _ => rfl
  | _, _, .complex _ => rfl
  | _, _, .str _ => rfl
  | _, _, .bytes _ => rfl
  | _, _, .type _ => rfl
  | _, _, .tuple h => by simp only [emit, emit1, shape, tagB, body, equivL_emitL h]
  | _, _, .list h => by simp only [emit, emit1, shape, tagB, body, equivL_emitL h]
  | _, _, .dict (ys := ys) (ys' := ys') hp h => by
    have : sortB (emitL H ys) = sortB (emitL H ys') := sortB_perm (by rw [emitL_eq_map, emitL_eq_map]; exact hp.map _)
    simp only [emit, emit1, shape, tagB, body, equivL_emitL h, this]
  | _, _, .set (ys := ys) (ys' := ys') hp h => by
    have : sortB (emitL H ys) = sortB (emitL H ys') := sortB_perm (by rw [emitL_eq_map, emitL_eq_map]; exact hp.map _)
    simp only [emit, emit1, shape, tagB, body, equivL_emitL h, this]
  | _, _, .frozenset (ys := ys) (ys' := ys') hp h => by
    have : sortB (emitL H ys) = sortB (emitL H ys') := sortB_perm (by rw [emitL_eq_map, emitL_eq_map]; exact hp.map _)
    simp only [emit, emit1, shape, tagB, body, equivL_emitL h, this]
  | _, _, .bufio _ h => by simp only [emit, emit1, shape, tagB, body, h]
  | _, _, .method hs hn => by
    have e1 := equiv_emit hs
    have e2 := equiv_emit hn
    simp only [emit] at e1 e2
    simp only [emit, emit1, shape, tagB, body] at *
    rw [e1, e2]
  | _, _, .ndarray _ h => by simp only [emit, emit1, shape, tagB, body, h]
  | _, _, .dataclass _ (ys := ys) (ys' := ys') hp h => by
    have : sortB (emitL H ys) = sortB (emitL H ys') := sortB_perm (by rw [emitL_eq_map, emitL_eq_map]; exact hp.map _)
    simp only [emit, emit1, shape, tagB, body, equivL_emitL h, this]
  | _, _, .newargs _ h => by simp only [emit, emit1, shape, tagB, body, equivL_emitL h]
  | _, _, .immutable ht h => by simp only [emit, emit1, shape, tagB, body, equivL_emitL h, ht]
  | _, _, .dclass _ h => by simp only [emit, emit1, shape, tagB, body, equivL_emitL h]
  | _, _, .frozendict _ (ys := ys) (ys' := ys') hp h => by
    have : sortB (emitL H ys) = sortB (emitL H ys') := sortB_perm (by rw [emitL_eq_map, emitL_eq_map]; exact hp.map _)
    simp only [emit, emit1, shape, tagB, body, equivL_emitL h, this]
  | _, _, .frozenmultiset _ (ys := ys) (ys' := ys') hp h => by
    have : sortB (emitL H ys) = sortB (emitL H ys') := sortB_perm (by rw [emitL_eq_map, emitL_eq_map]; exact hp.map _)
    simp only [emit, emit1, shape, tagB, body, equivL_emitL h, this]
  | _, _, .opaque _ => rfl
  | _, _, .pair hk hv => by
    have e1 := equiv_emit hk
    have e2 := equiv_emit hv
    simp only [emit] at e1 e2
    simp only [emit, emit1, shape, body] at *
    rw [e1, e2]
  | _, _, .counted _ hv => by
    have e2 := equiv_emit hv
    simp only [emit] at e2
    simp only [emit, emit1, shape, body] at *
    rw [e2]
theorem equivL_emitL : {xs ys : List Value} → EquivL xs ys → emitL H xs = emitL H ys
  | _, _, .nil => rfl
  | _, _, .cons h t => by
    have e1 := equiv_emit h
    simp only [emit] at e1
    simp only [emitL, e1, equivL_emitL t]
end

/-! ### NumPy scalars hash like the Python scalars they are converted to -/

mutual
theorem emit_norm : (v : Value) → emit H (norm v) = emit H v
  | .tuple xs => by simp only [norm, emit, emit1, shape, tagB, body, emitL_norm xs]
  | .list xs => by simp only [norm, emit, emit1, shape, tagB, body, emitL_norm xs]
  | .dict xs => by simp only [norm, emit, emit1, shape, tagB, body, emitL_norm xs]
  | .set xs => by simp only [norm, emit, emit1, shape, tagB, body, emitL_norm xs]
  | .frozenset xs => by simp only [norm, emit, emit1, shape, tagB, body, emitL_norm xs]
  | .method s n => by
    have e1 := emit_norm s
    have e2 := emit_norm n
    simp only [emit] at e1 e2
    simp only [norm, emit, emit1, shape, tagB, body] at *
    rw [e1, e2]
  | .dataclass t xs => by simp only [norm, emit, emit1, shape, tagB, body, emitL_norm xs]
  | .newargs t xs => by simp only [norm, emit, emit1, shape, tagB, body, emitL_norm xs]
  | .immutable m i xs => by simp only [norm, emit, emit1, shape, tagB, body, emitL_norm xs]
  | .dclass m xs => by simp only [norm, emit, emit1, shape, tagB, body, emitL_norm xs]
  | .frozendict m xs => by simp only [norm, emit, emit1, shape, tagB, body, emitL_norm xs]
  | .frozenmultiset m xs => by simp only [norm, emit, emit1, shape, tagB, body, emitL_norm xs]
  | .pair k v => by
    have e1 := emit_norm k
    have e2 := emit_norm v
    simp only [emit] at e1 e2
    simp only [norm, emit, emit1, shape, body] at *
    rw [e1, e2]
  | .counted n v => by
    have e2 := emit_norm v
    simp only [emit] at e2
    simp only [norm, emit, emit1, shape, body] at *
    rw [e2]
  | .npscalar k v => by
    have e2 := emit_norm v
    simp only [emit] at e2
    simp only [norm, emit, emit1, shape, body] at *
    rw [e2]
  | .none => rfl
  | .ellipsis => rfl
  | .bool _ => rfl
  | .int _ => rfl
  | .float _ => rfl
  | .complex _ => rfl
  | .str _ => rfl
  | .bytes _ => rfl
  | .type _ => rfl
  | .bufio _ _ _ => rfl
  | .ndarray _ _ _ => rfl
  | .opaque _ => rfl
  | .unsupported _ => rfl
theorem emitL_norm : (xs : List Value) → emitL H (normL xs) = emitL H xs
  | [] => rfl
  | x :: xs => by
    have e1 := emit_norm x
    simp only [emit] at e1
    simp only [normL, emitL, e1, emitL_norm xs]
end

end NutilsVerif.C17
