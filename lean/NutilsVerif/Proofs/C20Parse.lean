import NutilsVerif.Proofs.C20Dim
/-!
# C20 — `parse` is linear in the leading number, and `__format__` followed by `parse` is the identity (helper lemmas)
-/
namespace NutilsVerif.C20

/-- multiply the value of a parsed quantity -/
def scaleU (x : Rat) (r : UVal) : UVal := { dim := r.dim, val := x * r.val }

theorem stepQ_scale (x : Rat) (d : Pows) (qv : Rat) (v : UVal) (b : Bool) :
    stepQ ⟨d, x * qv⟩ v b = (stepQ ⟨d, qv⟩ v b).map (scaleU x) := by
  unfold stepQ
  split
  · simp only [Except.map, scaleU]; congr 2; exact Rat.mul_assoc ..
  · split
    · rfl
    · simp only [Except.map, scaleU]; congr 2
      rw [Rat.div_def, Rat.div_def, Rat.mul_assoc]

theorem parseFactor_scale (U : UTable) (x : Rat) (d : Pows) (qv : Rat) (fb : List Char × Bool) :
    parseFactor U ⟨d, x * qv⟩ fb = (parseFactor U ⟨d, qv⟩ fb).map (scaleU x) := by
  unfold parseFactor
  simp only [bind, Except.bind, pure, Except.pure, throw, throwThe, MonadExceptOf.throw]
  repeat' split
  all_goals (first | rfl | exact stepQ_scale ..)

theorem parseLoop_scale (U : UTable) (x : Rat) (d : Pows) (qv : Rat) (fs : List (List Char × Bool)) :
    parseLoop U ⟨d, x * qv⟩ fs = (parseLoop U ⟨d, qv⟩ fs).map (scaleU x) := by
  induction fs generalizing d qv with
  | nil => rfl
  | cons fb t ih =>
    simp only [parseLoop, bind, Except.bind]
    rw [parseFactor_scale]
    cases h : parseFactor U ⟨d, qv⟩ fb with
    | error e => rfl
    | ok q' =>
      simp only [Except.map, scaleU]
      exact ih q'.dim q'.val

theorem takeWhile_num_append (num u : List Char) (hnum : ∀ c ∈ num, isNumChar c = true)
    (hu : ∀ c, u.head? = some c → isNumChar c = false) :
    (num ++ u).takeWhile isNumChar = num ∧ (num ++ u).dropWhile isNumChar = u := by
  induction num with
  | nil =>
    cases u with
    | nil => simp
    | cons c t =>
      have := hu c rfl
      simp [List.takeWhile_cons, List.dropWhile_cons, this]
  | cons c t ih =>
    have hc := hnum c (List.mem_cons_self ..)
    obtain ⟨i1, i2⟩ := ih (fun y hy => hnum y (List.mem_cons_of_mem _ hy))
    simp [List.takeWhile_cons, List.dropWhile_cons, hc, i1, i2]

/-- a number written in front of a unit string multiplies the value and leaves the dimension alone -/
theorem parse_number_prefix (U : UTable) (num u : List Char) (x : Rat) (hnum : ∀ c ∈ num, isNumChar c = true)
    (hne : num ≠ []) (hx : readNum num = some x) (hu : ∀ c, u.head? = some c → isNumChar c = false) :
    parse U (num ++ u) = (parse U u).map (scaleU x) := by
  obtain ⟨h1, h2⟩ := takeWhile_num_append num u hnum hu
  obtain ⟨h3, h4⟩ := takeWhile_num_append [] u (by simp) hu
  simp only [List.nil_append] at h3 h4
  unfold parse
  simp only [h1, h2, h3, h4, if_neg hne, hx, if_true, bind, Except.bind, pure, Except.pure]
  have := parseLoop_scale U x [] 1 (rawFactors u)
  rw [Rat.mul_one] at this
  exact this

/-- token-level round trip: the text `__format__` produces (any numeral `txt` that reads back as the printed value,
followed by the unit) parses to the original quantity -/
theorem format_parse_roundtrip (U : UTable) (q : UVal) (spec pre unit txt : List Char) (x : Rat)
    (hf : formatParts U q spec = .ok (pre, x, unit))
    (htxt : ∀ c ∈ txt, isNumChar c = true) (hne : txt ≠ []) (hread : readNum txt = some x)
    (hu : ∀ c, unit.head? = some c → isNumChar c = false) :
    parse U (txt ++ unit) = .ok q := by
  unfold formatParts at hf
  simp only [bind, Except.bind, pure, Except.pure] at hf
  split at hf
  · cases hf
  · rename_i u hcon
    split at hf
    · cases hf
    · rename_i hnz
      simp only [Except.ok.injEq, Prod.mk.injEq] at hf
      obtain ⟨_, hxv, hunit⟩ := hf
      subst hunit
      unfold construct at hcon
      simp only [bind, Except.bind, pure, Except.pure] at hcon
      split at hcon
      · cases hcon
      · rename_i p hp
        split at hcon
        · rename_i hdim
          simp only [Except.ok.injEq] at hcon
          subst hcon
          rw [parse_number_prefix U txt _ x htxt hne hread hu, hp]
          simp only [Except.map, scaleU]
          congr 1
          obtain ⟨qd, qv⟩ := q
          simp only at hdim hxv ⊢
          subst hdim
          congr 1
          rw [← hxv]
          exact Rat.div_mul_cancel (by simpa using hnz)
        · cases hcon

end NutilsVerif.C20
