import NutilsVerif.Proofs.C15Block
import NutilsVerif.Proofs.C15Fast
import NutilsVerif.Proofs.C15Compress
/-!
# C15 — `assemble_block_csr`: the code model (offsets, empty-block skipping, fast / generic path, fold over
block rows) produces the specification-level merge `blockMerge`
-/
namespace NutilsVerif.C15

/-! ### the inner loop as concatenations -/

def sV (i : Nat) (d : BData) : List Int := pySlice d.1 (d.2.1.getD i 0) (d.2.1.getD (i+1) 0)
def sC (i : Nat) (d : BData) : List Int := pySlice d.2.2 (d.2.1.getD i 0) (d.2.1.getD (i+1) 0)
def sN (i : Nat) (d : BData) : Int := d.2.1.getD (i+1) 0 - d.2.1.getD i 0

theorem genRow_fold (i : Nat) : ∀ (data : List BData) (acc : List Int × List Int × Int),
    data.foldl (fun (acc : List Int × List Int × Int) (d : BData) =>
      let a := d.2.1.getD i 0
      let b := d.2.1.getD (i+1) 0
      (acc.1 ++ pySlice d.1 a b, acc.2.1 ++ pySlice d.2.2 a b, acc.2.2 + (b - a))) acc
    = (acc.1 ++ data.flatMap (sV i), acc.2.1 ++ data.flatMap (sC i), acc.2.2 + (data.map (sN i)).sum)
  | [], acc => by simp
  | d :: t, acc => by
    rw [List.foldl_cons, genRow_fold i t]
    simp [sV, sC, sN, List.flatMap_cons, Int.add_assoc]

theorem genRow_flat (data : List BData) (i : Nat) :
    genRow data i = (data.flatMap (sV i), data.flatMap (sC i), (data.map (sN i)).sum) := by
  unfold genRow
  rw [genRow_fold]
  simp

/-! ### pointers of a valid block -/

theorem rp_bounds (rp : List Int) (n : Nat) (h : rowptrOK rp n = true) (i : Nat) (hi : i + 1 < rp.length) :
    0 ≤ rp.getD i 0 ∧ rp.getD i 0 ≤ rp.getD (i+1) 0 ∧ rp.getD (i+1) 0 ≤ (n:Int) := by
  obtain ⟨t, rfl, hmono, hlast⟩ := (rowptrOK_iff rp n).1 h
  have hpw := (monotone_iff_pairwise _).1 hmono
  have hi0 : i < (0 :: t).length := by omega
  have h1 : (0 :: t).getD i 0 = (0 :: t)[i]'hi0 := by
    simp only [List.getD_eq_getElem?_getD]; rw [List.getElem?_eq_getElem hi0]; rfl
  have h2 : (0 :: t).getD (i+1) 0 = (0 :: t)[i+1]'hi := by
    simp only [List.getD_eq_getElem?_getD]; rw [List.getElem?_eq_getElem hi]; rfl
  have hge : ∀ x ∈ (0 :: t), (0:Int) ≤ x := by
    intro x hx
    rcases List.mem_cons.1 hx with rfl | hx
    · exact Int.le_refl _
    · exact mono_tail_ge t 0 hmono x hx
  have hle : ∀ x ∈ (0 :: t), x ≤ (n:Int) := by
    intro x hx
    have := mono_le_last t 0 hmono x hx
    rw [hlast] at this
    simpa using this
  rw [h1, h2]
  exact ⟨hge _ (List.getElem_mem _), (List.pairwise_iff_getElem.1 hpw) i (i+1) _ _ (by omega), hle _ (List.getElem_mem _)⟩

theorem pySlice_map {α β : Type} (f : α → β) (l : List α) (i j : Int) : pySlice (l.map f) i j = (pySlice l i j).map f := by
  simp [pySlice, List.map_take, List.map_drop]

/-- row `i` of a valid block, in terms of the slices the generic path takes -/
theorem block_row_slices (b : Block) (hv : validB b.csr = true) (i : Nat) (hi : i < nrows b.csr) :
    pySlice b.values (b.rowptr.getD i 0) (b.rowptr.getD (i+1) 0) = ((toRows b.csr).getD i []).map (·.2) ∧
    pySlice b.colidx (b.rowptr.getD i 0) (b.rowptr.getD (i+1) 0) = ((toRows b.csr).getD i []).map (·.1) ∧
    b.rowptr.getD (i+1) 0 - b.rowptr.getD i 0 = (((toRows b.csr).getD i []).length : Int) := by
  unfold validB at hv
  simp only [Bool.and_eq_true, beq_iff_eq] at hv
  obtain ⟨⟨⟨hrp, hlen⟩, _⟩, _⟩ := hv
  have hi' : i + 1 < b.rowptr.length := by simp only [nrows, Block.csr] at hi; omega
  obtain ⟨h0, h1, h2⟩ := rp_bounds _ _ hrp i hi'
  simp only [Block.csr] at hrp hlen h0 h1 h2
  have hrow : (toRows b.csr).getD i [] =
      List.zip (pySlice b.colidx (b.rowptr.getD i 0) (b.rowptr.getD (i+1) 0)) (pySlice b.values (b.rowptr.getD i 0) (b.rowptr.getD (i+1) 0)) := by
    simp only [toRows, Block.csr, pySlice]
    rw [slicesBy_getD _ _ _ hi']
    simp only [List.zip, List.drop_zipWith, List.take_zipWith]
  have hl1 : (pySlice b.colidx (b.rowptr.getD i 0) (b.rowptr.getD (i+1) 0)).length = (b.rowptr.getD (i+1) 0 - b.rowptr.getD i 0).toNat := by
    unfold pySlice; exact length_slice _ _ _ (by omega)
  have hl2 : (pySlice b.values (b.rowptr.getD i 0) (b.rowptr.getD (i+1) 0)).length = (b.rowptr.getD (i+1) 0 - b.rowptr.getD i 0).toNat := by
    unfold pySlice; exact length_slice _ _ _ (by omega)
  rw [hrow]
  refine ⟨(List.map_snd_zip (by omega)).symm, (List.map_fst_zip (by omega)).symm, ?_⟩
  rw [List.length_zip, hl1, hl2]
  omega

/-! ### the first loop: offsets and skipping -/

/-- `block_data` of a block row: the non-empty blocks with their absolute column offset applied -/
def dataOf : Nat → List Block → List BData
  | _, [] => []
  | off, b :: t =>
    if b.values.length != 0 then (b.values, b.rowptr, b.colidx.map (· + (off:Int))) :: dataOf (off + b.ncols) t
    else dataOf (off + b.ncols) t

/-- what a well-formed block row must satisfy for the code: validity, common row count, common dtype -/
def browOK (nr dt : Nat) (brow : List Block) : Prop :=
  ∀ b ∈ brow, validB b.csr = true ∧ nrows b.csr = nr ∧ b.dt = dt

theorem collectRow_ok (nr dt : Nat) : ∀ (brow : List Block) (off : Nat), browOK nr dt brow →
    collectRow nr dt brow off = .ok (dataOf off brow, off + (brow.map (·.ncols)).sum)
  | [], off, _ => by simp [collectRow, dataOf]
  | b :: t, off, h => by
    obtain ⟨hv, hn, hd⟩ := h b (by simp)
    have ih := collectRow_ok nr dt t (off + b.ncols) (fun b' hb' => h b' (List.mem_cons_of_mem _ hb'))
    unfold validB at hv
    simp only [Bool.and_eq_true, beq_iff_eq, Block.csr] at hv
    obtain ⟨⟨⟨hrp, hlen⟩, hcr⟩, _⟩ := hv
    have hne : b.rowptr.length ≠ 0 := by
      obtain ⟨t', ht', _, _⟩ := (rowptrOK_iff _ _).1 hrp
      rw [ht']; simp
    have hn' : b.rowptr.length - 1 = nr := by simpa [nrows, Block.csr] using hn
    unfold collectRow
    have c1 : (b.rowptr.length - 1 != nr || b.rowptr.length == 0) = false := by simp [hn', hne]
    have c2 : (b.dt != dt) = false := by simp [hd]
    have c3 : (!(rowptrOK b.rowptr b.values.length && b.colidx.length == b.values.length)) = false := by simp [hrp, hlen]
    have c4 : (!colRangeOK b.colidx b.ncols) = false := by simp [hcr]
    simp only [c1, c2, c3, c4, Bool.false_eq_true, if_false, ih, bind, Except.bind, pure, Except.pure, dataOf, List.map_cons, List.sum_cons]
    by_cases hz : (b.values.length != 0) = true
    · simp [hz, Nat.add_assoc]
    · simp [hz, Nat.add_assoc]

theorem dataOf_mem : ∀ (brow : List Block) (off : Nat), ∀ d ∈ dataOf off brow,
    ∃ b ∈ brow, d.1 = b.values ∧ d.2.1 = b.rowptr ∧ d.2.2.length = b.colidx.length ∧ b.values ≠ []
  | [], _, d, h => by simp [dataOf] at h
  | b :: t, off, d, h => by
    unfold dataOf at h
    split at h
    · rename_i hz
      rcases List.mem_cons.1 h with rfl | h
      · exact ⟨b, by simp, rfl, rfl, by simp, by intro he; simp [he] at hz⟩
      · obtain ⟨b', hb', r⟩ := dataOf_mem t _ d h
        exact ⟨b', List.mem_cons_of_mem _ hb', r⟩
    · obtain ⟨b', hb', r⟩ := dataOf_mem t _ d h
      exact ⟨b', List.mem_cons_of_mem _ hb', r⟩

/-! ### one matrix row of a block row, with absolute offsets -/

def rowAtAbs (i : Nat) : Nat → List Block → Row
  | _, [] => []
  | off, b :: t => shiftRow off ((toRows b.csr).getD i []) ++ rowAtAbs i (off + b.ncols) t

theorem toRows_empty (b : Block) (h : b.values.length = 0) (i : Nat) : (toRows b.csr).getD i [] = [] := by
  have hv : b.values = [] := List.length_eq_zero_iff.1 h
  have hz : List.zip b.colidx b.values = [] := by rw [hv]; simp
  simp only [toRows, Block.csr, hz, slicesBy]
  rw [List.getD_eq_getElem?_getD]
  cases hget : (List.map (fun (x : Int × Int) => List.take (x.2 - x.1).toNat (List.drop x.1.toNat ([] : List (Int × Int)))) (b.rowptr.zip b.rowptr.tail))[i]? with
  | none => rfl
  | some r =>
    obtain ⟨_, hr⟩ := List.getElem?_eq_some_iff.1 hget
    simp at hr
    simp [← hr]

theorem genRow_data (nr dt : Nat) (i : Nat) (hi : i < nr) : ∀ (brow : List Block) (off : Nat), browOK nr dt brow →
    genRow (dataOf off brow) i =
      ((rowAtAbs i off brow).map (·.2), (rowAtAbs i off brow).map (·.1), ((rowAtAbs i off brow).length : Int))
  | [], off, _ => by simp [genRow_flat, dataOf, rowAtAbs]
  | b :: t, off, h => by
    obtain ⟨hv, hn, _⟩ := h b (by simp)
    have ih := genRow_data nr dt i hi t (off + b.ncols) (fun b' hb' => h b' (List.mem_cons_of_mem _ hb'))
    rw [genRow_flat] at ih ⊢
    simp only [Prod.mk.injEq] at ih
    obtain ⟨ih1, ih2, ih3⟩ := ih
    unfold dataOf rowAtAbs
    by_cases hz : (b.values.length != 0) = true
    · obtain ⟨s1, s2, s3⟩ := block_row_slices b hv i (by omega)
      simp only [hz, if_true, List.flatMap_cons, List.map_cons, List.sum_cons, ih1, ih2, ih3, sV, sC, sN,
        List.map_append, List.length_append, shiftRow, List.map_map, List.length_map, pySlice_map, s1, s2, s3]
      refine Prod.ext ?_ (Prod.ext ?_ ?_)
      · simp [Function.comp_def]
      · simp [Function.comp_def]
      · simp
    · have hz' : b.values.length = 0 := by simpa using hz
      simp only [hz, Bool.false_eq_true, if_false, toRows_empty b hz' i, shiftRow, List.map_nil, List.nil_append]
      exact Prod.ext ih1 (Prod.ext ih2 ih3)

/-! ### the accumulated output lists -/

/-- the accumulated lists after appending the rows `L` -/
def extend (a : Acc) (L : List Row) (flag : Bool) : Acc :=
  { values := a.values ++ (L.map (·.map (·.2))).flatten
    colidx := a.colidx ++ (L.map (·.map (·.1))).flatten
    rowptr := a.rowptr ++ ptrTail a.ptr L
    any := a.any || flag }

theorem ptrTail_append {α : Type} : ∀ (L₁ L₂ : List (List α)) (s : Int),
    ptrTail s (L₁ ++ L₂) = ptrTail s L₁ ++ ptrTail (s + (L₁.flatten.length : Int)) L₂
  | [], L₂, s => by simp [ptrTail]
  | r :: t, L₂, s => by
    simp only [List.cons_append, ptrTail, ptrTail_append t L₂, List.flatten_cons, List.length_append]
    congr 3
    simp [Int.add_assoc]

theorem ptr_extend (a : Acc) (L : List Row) (flag : Bool) : (extend a L flag).ptr = a.ptr + (L.flatten.length : Int) := by
  show ((a.rowptr ++ ptrTail a.ptr L).getLast?.getD 0) = a.ptr + (L.flatten.length : Int)
  cases L with
  | nil => simp [ptrTail, Acc.ptr]
  | cons r t =>
    have h := last_ptr (r :: t) a.ptr
    have e : (a.ptr :: ptrTail a.ptr (r :: t)).getLast? = (ptrTail a.ptr (r :: t)).getLast? := by
      simp only [ptrTail, List.getLast?_cons_cons]
    rw [e] at h
    rw [List.getLast?_append, h]
    simp

theorem extend_single (b : Acc) (r : Row) (g : Bool) :
    extend b [r] g = { values := b.values ++ r.map (·.2), colidx := b.colidx ++ r.map (·.1),
                       rowptr := b.rowptr ++ [b.ptr + (r.length : Int)], any := b.any || g } := by
  simp [extend, ptrTail]

theorem extend_nil (a : Acc) : extend a [] false = a := by
  cases a; simp [extend, ptrTail]

theorem extend_extend (a : Acc) (L₁ L₂ : List Row) (f₁ f₂ : Bool) :
    extend (extend a L₁ f₁) L₂ f₂ = extend a (L₁ ++ L₂) (f₁ || f₂) := by
  have hp := ptr_extend a L₁ f₁
  unfold extend at hp ⊢
  simp only [hp, List.map_append, List.flatten_append, List.append_assoc, ptrTail_append, Bool.or_assoc]

/-- the generic path appends, row by row, whatever `genRow` lists -/
theorem generic_extend (data : List BData) (rowfn : Nat → Row) (a : Acc) : ∀ k,
    (∀ i, i < k → genRow data i = ((rowfn i).map (·.2), (rowfn i).map (·.1), ((rowfn i).length : Int))) →
    genericRows data k a = extend a ((List.range k).map rowfn) (decide (0 < k) && !data.isEmpty)
  | 0, _ => by simp [genericRows_eq, extend_nil]
  | k+1, h => by
    have ih := generic_extend data rowfn a k (fun i hi => h i (by omega))
    have : extend a ((List.range (k+1)).map rowfn) (decide (0 < k+1) && !data.isEmpty) =
        extend (extend a ((List.range k).map rowfn) (decide (0 < k) && !data.isEmpty)) [rowfn k] (!data.isEmpty) := by
      rw [extend_extend, List.range_succ, List.map_append]
      congr 1
      cases data.isEmpty <;> simp
    rw [genericRows_succ, ih, this, extend_single]
    unfold stepF
    rw [h k (by omega)]

/-! ### absolute offsets versus nested shifts -/

theorem shiftRow_nil (w : Nat) : shiftRow w [] = [] := rfl

theorem shiftRow_zero (r : Row) : shiftRow 0 r = r := by
  unfold shiftRow
  conv => rhs; rw [← List.map_id r]
  apply List.map_congr_left
  intro p _; simp

theorem shiftRow_append (w : Nat) (r r' : Row) : shiftRow w (r ++ r') = shiftRow w r ++ shiftRow w r' := by
  simp [shiftRow]

theorem shiftRow_shiftRow (a b : Nat) (r : Row) : shiftRow a (shiftRow b r) = shiftRow (a + b) r := by
  unfold shiftRow
  rw [List.map_map]
  apply List.map_congr_left
  intro p _
  simp only [Function.comp, Prod.mk.injEq, and_true]
  omega

theorem mergeBlockRow_length (nr : Nat) : ∀ (Ws : List (List Row × Nat)), (∀ W ∈ Ws, W.1.length = nr) →
    (mergeBlockRow Ws nr).length = nr
  | [], _ => by simp [mergeBlockRow]
  | (L, w) :: T, h => by
    have ih := mergeBlockRow_length nr T (fun W hW => h W (List.mem_cons_of_mem _ hW))
    have hL := h (L, w) (by simp)
    simp only at hL
    simp [mergeBlockRow, ih, hL]

theorem merge_abs (nr dt : Nat) : ∀ (brow : List Block) (off : Nat), browOK nr dt brow →
    (mergeBlockRow (brow.map fun b => (toRows b.csr, b.ncols)) nr).map (shiftRow off) =
      (List.range nr).map (fun i => rowAtAbs i off brow)
  | [], off, _ => by
    simp only [List.map_nil, mergeBlockRow, rowAtAbs, List.map_replicate, shiftRow_nil]
    apply List.ext_getElem <;> simp
  | b :: t, off, h => by
    obtain ⟨_, hn, _⟩ := h b (by simp)
    have hbt : browOK nr dt t := fun b' hb' => h b' (List.mem_cons_of_mem _ hb')
    have ih := merge_abs nr dt t (off + b.ncols) hbt
    have hlenT : (mergeBlockRow (t.map fun b => (toRows b.csr, b.ncols)) nr).length = nr := by
      apply mergeBlockRow_length
      intro W hW
      obtain ⟨b', hb', rfl⟩ := List.mem_map.1 hW
      simp only; rw [length_toRows]; exact (hbt b' hb').2.1
    have hlenL : (toRows b.csr).length = nr := by rw [length_toRows]; exact hn
    simp only [List.map_cons, mergeBlockRow]
    apply List.ext_getElem
    · simp [hlenT, hlenL]
    · intro i h1 h2
      have hi : i < nr := by simpa using h2
      have ihi := congrArg (fun l => l[i]?) ih
      simp only [List.getElem?_map, List.getElem?_range hi, Option.map_some] at ihi
      rw [List.getElem?_eq_getElem (by omega : i < (mergeBlockRow (t.map fun b => (toRows b.csr, b.ncols)) nr).length)] at ihi
      simp only [Option.map_some, Option.some.injEq] at ihi
      have e : ∀ X : Row, List.map (fun p : Int × Int => (p.1 + (b.ncols:Int), p.2)) X = shiftRow b.ncols X := fun _ => rfl
      simp only [List.getElem_map, List.getElem_zipWith, List.getElem_range, rowAtAbs, shiftRow_append, e, shiftRow_shiftRow]
      rw [ihi]
      congr 2
      simp [List.getD_eq_getElem?_getD, hlenL, hi]

/-- every pointer of a validated block without entries is 0 -/
theorem rp_all_zero (rp : List Int) (h : rowptrOK rp 0 = true) : ∀ x ∈ rp, x = 0 := by
  obtain ⟨t, rfl, hmono, hlast⟩ := (rowptrOK_iff rp 0).1 h
  intro x hx
  have h1 : (0:Int) ≤ x := by
    rcases List.mem_cons.1 hx with rfl | hx
    · exact Int.le_refl _
    · exact mono_tail_ge t 0 hmono x hx
  have h2 := mono_le_last t 0 hmono x hx
  rw [hlast] at h2
  simp at h2
  omega

/-! ### one block row of the code -/

theorem blockRowStep_ok (ncols dt : Nat) (a : Acc) (brow : List Block) (hne : brow ≠ [])
    (hok : browOK ((brow.head?.map fun b => nrows b.csr).getD 0) dt brow) (hw : (brow.map (·.ncols)).sum = ncols) :
    ∃ flag, blockRowStep ncols dt a brow = .ok (extend a (blockRowRows brow) flag) ∧
      (flag = false → ((blockRowRows brow).map (·.map (·.2))).flatten = []) := by
  cases brow with
  | nil => exact absurd rfl hne
  | cons b0 rest =>
    simp only [List.head?_cons, Option.map_some, Option.getD_some] at hok
    have hnr : b0.rowptr.length - 1 = nrows b0.csr := rfl
    -- the generic path computes the rows of `blockRowRows`
    have hgen : genericRows (dataOf 0 (b0 :: rest)) (nrows b0.csr) a =
        extend a (blockRowRows (b0 :: rest)) (decide (0 < nrows b0.csr) && !(dataOf 0 (b0 :: rest)).isEmpty) := by
      rw [generic_extend _ (fun i => rowAtAbs i 0 (b0 :: rest)) a _ (fun i hi => genRow_data _ dt i hi _ 0 hok)]
      congr 1
      have := merge_abs _ dt (b0 :: rest) 0 hok
      rw [← this]
      unfold blockRowRows
      simp only [List.head?_cons, Option.map_some, Option.getD_some]
      conv => rhs; rw [← List.map_id (mergeBlockRow _ _)]
      apply List.map_congr_left
      intro r _; simp [shiftRow_zero]
    have hflag : (decide (0 < nrows b0.csr) && !(dataOf 0 (b0 :: rest)).isEmpty) = false →
        ((blockRowRows (b0 :: rest)).map (·.map (·.2))).flatten = [] := by
      intro hf
      have hrows : blockRowRows (b0 :: rest) = (List.range (nrows b0.csr)).map (fun i => rowAtAbs i 0 (b0 :: rest)) := by
        have := merge_abs _ dt (b0 :: rest) 0 hok
        rw [← this]
        unfold blockRowRows
        simp only [List.head?_cons, Option.map_some, Option.getD_some]
        conv => lhs; rw [← List.map_id (mergeBlockRow _ _)]
        apply List.map_congr_left
        intro r _; simp [shiftRow_zero]
      rw [hrows]
      rw [List.flatten_eq_nil_iff]
      intro l hl
      simp only [List.map_map, List.mem_map, List.mem_range, Function.comp] at hl
      obtain ⟨i, hi, rfl⟩ := hl
      have hd : dataOf 0 (b0 :: rest) = [] := by
        have : (0 < nrows b0.csr) := by omega
        simp only [this, decide_true, Bool.true_and, Bool.not_eq_false', List.isEmpty_iff] at hf
        exact hf
      have := genRow_data _ dt i hi (b0 :: rest) 0 hok
      rw [hd, genRow_flat] at this
      simp only [List.flatMap_nil, List.map_nil, List.sum_nil, Prod.mk.injEq] at this
      exact this.1.symm
    unfold blockRowStep
    simp only [hnr, collectRow_ok _ dt (b0 :: rest) 0 hok, bind, Except.bind, Nat.zero_add, hw, bne_self_eq_false,
      Bool.false_eq_true, if_false]
    cases hdata : dataOf 0 (b0 :: rest) with
    | nil =>
      rw [hdata] at hgen hflag
      exact ⟨_, by simp only [pure, Except.pure, hgen], hflag⟩
    | cons d more =>
      cases more with
      | cons d2 more2 =>
        rw [hdata] at hgen hflag
        exact ⟨_, by simp only [pure, Except.pure, hgen], hflag⟩
      | nil =>
        rw [hdata] at hgen hflag
        obtain ⟨b, hb, e1, e2, e3, e4⟩ := dataOf_mem (b0 :: rest) 0 d (by rw [hdata]; simp)
        obtain ⟨hv, hn, _⟩ := hok b hb
        unfold validB at hv
        simp only [Bool.and_eq_true, beq_iff_eq, Block.csr] at hv
        obtain ⟨⟨⟨hrp, hlen⟩, _⟩, _⟩ := hv
        have hfast := fast_eq_generic' d.1 d.2.1 d.2.2 a (by rw [e1, e2]; exact hrp) (by rw [e3, e1]; exact hlen) (by rw [e1]; exact e4)
        have hnr2 : d.2.1.length - 1 = nrows b0.csr := by rw [e2]; exact hn
        rw [hnr2] at hfast
        refine ⟨_, ?_, hflag⟩
        simp only [pure, Except.pure]
        rw [← hgen, hfast]

/-! ### all block rows -/

theorem fold_ok (ncols dt : Nat) : ∀ (blocks : List (List Block)) (a : Acc), (a.any = false → a.values = []) →
    (∀ brow ∈ blocks, brow ≠ [] ∧ (brow.map (·.ncols)).sum = ncols ∧
      browOK ((brow.head?.map fun b => nrows b.csr).getD 0) dt brow) →
    ∃ flag, blocks.foldlM (blockRowStep ncols dt) a = .ok (extend a (blocks.map blockRowRows).flatten flag) ∧
      ((extend a (blocks.map blockRowRows).flatten flag).any = false →
        (extend a (blocks.map blockRowRows).flatten flag).values = [])
  | [], a, ha, _ => by
    refine ⟨false, by simp [List.foldlM, extend_nil, pure, Except.pure], ?_⟩
    simp only [List.map_nil, List.flatten_nil, extend_nil]; exact ha
  | brow :: rest, a, ha, h => by
    obtain ⟨hne, hw, hok⟩ := h brow (by simp)
    obtain ⟨f1, hstep, hf1⟩ := blockRowStep_ok ncols dt a brow hne hok hw
    have ha' : (extend a (blockRowRows brow) f1).any = false → (extend a (blockRowRows brow) f1).values = [] := by
      intro hany
      simp only [extend, Bool.or_eq_false_iff] at hany ⊢
      rw [ha hany.1, hf1 hany.2]; rfl
    obtain ⟨f2, hfold, hf2⟩ := fold_ok ncols dt rest (extend a (blockRowRows brow) f1) ha'
      (fun b hb => h b (List.mem_cons_of_mem _ hb))
    rw [extend_extend] at hfold hf2
    refine ⟨f1 || f2, ?_, ?_⟩
    · simp only [List.foldlM, hstep, bind, Except.bind, List.map_cons, List.flatten_cons]
      exact hfold
    · simpa only [List.map_cons, List.flatten_cons] using hf2

theorem ptr_init : ({} : Acc).ptr = 0 := by simp [Acc.ptr]

/-- **the code model of `assemble_block_csr` computes the specification-level merge.** -/
theorem blockMergeCode_ok (blocks : List (List Block)) (h : blocksOK blocks = true) (dt : Nat)
    (hdt : ∀ brow ∈ blocks, ∀ b ∈ brow, b.dt = dt) :
    ∃ any, blockMergeCode blocks = .ok (blockMerge blocks, any) ∧ (any = false → (blockMerge blocks).values = []) := by
  obtain ⟨hne, hrows⟩ := (blocksOK_iff blocks).1 h
  cases blocks with
  | nil => exact absurd rfl hne
  | cons r0 rest =>
    cases r0 with
    | nil => exact absurd rfl (hrows [] (by simp)).1
    | cons b0 t0 =>
      have hb0 : b0.dt = dt := hdt (b0 :: t0) (by simp) b0 (by simp)
      have hall : ∀ brow ∈ (b0 :: t0) :: rest, brow ≠ [] ∧ (brow.map (·.ncols)).sum = ((b0 :: t0).map (·.ncols)).sum ∧
          browOK ((brow.head?.map fun b => nrows b.csr).getD 0) dt brow := by
        intro brow hbrow
        obtain ⟨h1, h2, h3⟩ := hrows brow hbrow
        exact ⟨h1, by simpa using h2, fun b hb => ⟨(h3 b hb).1, (h3 b hb).2, hdt brow hbrow b hb⟩⟩
      obtain ⟨flag, hfold, hflag⟩ := fold_ok _ dt ((b0 :: t0) :: rest) {} (by intro _; rfl) hall
      refine ⟨({} : Acc).any || flag, ?_, ?_⟩
      · unfold blockMergeCode
        simp only [hb0, hfold, bind, Except.bind, pure, Except.pure]
        congr 1
      · intro hf
        have := hflag (by simpa [extend] using hf)
        exact this

/-- a valid triple without entries is the `empty` matrix of its shape -/
theorem valid_empty (m : CSR) (hv : validB m = true) (he : m.values = []) :
    m = emptyCSR (m.rowptr.length - 1) m.ncols := by
  unfold validB at hv
  simp only [Bool.and_eq_true, beq_iff_eq] at hv
  obtain ⟨⟨⟨hrp, hlen⟩, _⟩, _⟩ := hv
  rw [he] at hrp hlen
  have hz := rp_all_zero m.rowptr (by simpa using hrp)
  have hne : m.rowptr.length ≠ 0 := by
    obtain ⟨t, ht, _, _⟩ := (rowptrOK_iff _ _).1 hrp
    rw [ht]; simp
  cases m with
  | mk vs rp ci nc =>
    simp only at he hlen hz hne ⊢
    subst he
    have hci : ci = [] := List.length_eq_zero_iff.1 (by simpa using hlen)
    subst hci
    simp only [emptyCSR, CSR.mk.injEq, true_and, and_true]
    rw [List.eq_replicate_iff]
    exact ⟨by omega, hz⟩

end NutilsVerif.C15
