import NutilsVerif.Model.C11Spec
import NutilsVerif.Proofs.C11Lin
/-!
# C11 — item level: table facts, lengths, soundness of `swapup` / `swapdown`
-/
namespace NutilsVerif.C11

/-! ## facts about the extracted tables (re-proved whenever the tables change) -/

theorem childTab_shape : ∀ n, n < 4 → ∀ k, k < 2^n →
    matShape (childAff n k).1 (childAff n k).2.1 n = true ∧ (childAff n k).2.1.length = n := by
  decide +kernel

theorem edgeTab_shape : ∀ n, n < 4 → 1 ≤ n → ∀ k, k < n + 1 →
    matShape (edgeAff n k).1 (edgeAff n k).2.1 (n-1) = true ∧ (edgeAff n k).2.1.length = n := by
  decide +kernel

/-- composition of a simplex edge after a simplex child, as matrix and offset -/
def edgeChild (n ie ic : Nat) : Mat × Vec :=
  compAff (edgeAff n ie).1 (edgeAff n ie).2.1 (childAff (n-1) ic).1 (childAff (n-1) ic).2.1 (n-1)
/-- composition of a simplex child after a simplex edge -/
def childEdge (n ic ie : Nat) : Mat × Vec :=
  compAff (childAff n ic).1 (childAff n ic).2.1 (edgeAff n ie).1 (edgeAff n ie).2.1 (n-1)

/-- check of one entry of `SimplexEdge.swap` as used by `swapup`: in range, same affine map, same orientation, and found
back by the search of `swapdown` -/
def swapUpOK (n ie ic : Nat) : Bool :=
  match swapLookup ie ic with
  | some (ic', ie') =>
    decide (ic' < 2^n) && decide (ie' < n + 1) && edgeChild n ie ic == childEdge n ic' ie' &&
      (((childAff n ic').2.2 != (edgeAff n ie').2.2) == ((edgeAff n ie).2.2 != (childAff (n-1) ic).2.2)) &&
      swapFind n (n-1) (ic', ie') == some (ie, ic)
  | none => false

/-- check of one search of `swapdown`: if it succeeds the result is in range, the same affine map, the same orientation,
and mapped back by the table -/
def swapDownOK (n ic ie : Nat) : Bool :=
  match swapFind n (n-1) (ic, ie) with
  | some (r, col) =>
    decide (r < n + 1) && decide (col < 2^(n-1)) && childEdge n ic ie == edgeChild n r col &&
      (((edgeAff n r).2.2 != (childAff (n-1) col).2.2) == ((childAff n ic).2.2 != (edgeAff n ie).2.2)) &&
      swapLookup r col == some (ic, ie)
  | none => true

theorem swapTab_up : ∀ n, n < 4 → 1 ≤ n → ∀ ie, ie < n + 1 → ∀ ic, ic < 2^(n-1) → swapUpOK n ie ic = true := by
  decide +kernel

theorem swapTab_down : ∀ n, n < 4 → 1 ≤ n → ∀ ic, ic < 2^n → ∀ ie, ie < n + 1 → swapDownOK n ic ie = true := by
  decide +kernel

/-! ## shapes and lengths -/

theorem matShape_iff (lin : Mat) (off : Vec) (k : Nat) :
    matShape lin off k = true ↔ lin.length = off.length ∧ ∀ r ∈ lin, r.length = k := by
  simp [matShape, List.all_eq_true]

theorem affApply_length (lin : Mat) (off x : Vec) : (affApply lin off x).length = min lin.length off.length := by
  simp [affApply]

theorem affApply_length_of_shape {lin : Mat} {off : Vec} {k : Nat} (h : matShape lin off k = true) (x : Vec) :
    (affApply lin off x).length = off.length := by
  rw [affApply_length, ((matShape_iff _ _ _).1 h).1]; simp

theorem Sq.app_length (s : Sq) : ∀ x, s.wf = true → x.length = s.dim → (s.app x).length = s.dim := by
  induction s with
  | identity n => intro x _ hx; simpa [Sq.app, Sq.dim] using hx
  | index n i => intro x _ hx; simpa [Sq.app, Sq.dim] using hx
  | simplexChild n k =>
    intro x hw _
    simp only [Sq.wf, Bool.and_eq_true, decide_eq_true_eq] at hw
    obtain ⟨hs, hl⟩ := childTab_shape n (by omega) k hw.2
    simp only [Sq.app, Sq.dim]
    rw [affApply_length_of_shape hs, hl]
  | tensorChild a b iha ihb =>
    intro x hw hx
    simp only [Sq.wf, Bool.and_eq_true, decide_eq_true_eq] at hw
    simp only [Sq.dim] at hx
    simp only [Sq.app, Sq.dim, List.length_append]
    rw [iha _ hw.1.1.1 (by simp; omega), ihb _ hw.1.1.2 (by simp; omega)]
  | generic lin off =>
    intro x hw _
    simp only [Sq.wf] at hw
    simp only [Sq.app, Sq.dim]
    exact affApply_length_of_shape hw x

theorem Up.td_eq (u : Up) : u.wf = true → u.td = u.fd + 1 := by
  induction u with
  | simplexEdge n k inv =>
    intro hw; simp only [Up.wf, Bool.and_eq_true, decide_eq_true_eq] at hw
    simp only [Up.td, Up.fd]; omega
  | tensorEdge1 e n2 ih =>
    intro hw; simp only [Up.wf, Bool.and_eq_true, decide_eq_true_eq] at hw
    simp only [Up.td, Up.fd]; have := ih hw.1; omega
  | tensorEdge2 n1 e ih =>
    intro hw; simp only [Up.wf, Bool.and_eq_true, decide_eq_true_eq] at hw
    simp only [Up.td, Up.fd]; have := ih hw.1; omega
  | scaledUpdim c e ih =>
    intro hw; simp only [Up.wf, Bool.and_eq_true, beq_iff_eq] at hw
    simp only [Up.td, Up.fd]; have := ih hw.1.2; omega
  | generic lin off f =>
    intro hw; simp only [Up.wf, Bool.and_eq_true, decide_eq_true_eq] at hw
    simp only [Up.td, Up.fd]; omega

theorem Up.app_length (u : Up) : ∀ x, u.wf = true → x.length = u.fd → (u.app x).length = u.td := by
  induction u with
  | simplexEdge n k inv =>
    intro x hw _
    simp only [Up.wf, Bool.and_eq_true, decide_eq_true_eq] at hw
    obtain ⟨hs, hl⟩ := edgeTab_shape n (by omega) hw.1.1 k (by omega)
    simp only [Up.app, Up.td]
    rw [affApply_length_of_shape hs, hl]
  | tensorEdge1 e n2 ih =>
    intro x hw hx
    simp only [Up.wf, Bool.and_eq_true, decide_eq_true_eq] at hw
    simp only [Up.fd] at hx
    simp only [Up.app, Up.td, List.length_append, List.length_drop]
    rw [ih _ hw.1 (by simp; omega)]; omega
  | tensorEdge2 n1 e ih =>
    intro x hw hx
    simp only [Up.wf, Bool.and_eq_true, decide_eq_true_eq] at hw
    simp only [Up.fd] at hx
    simp only [Up.app, Up.td, List.length_append, List.length_take]
    rw [ih _ hw.1 (by simp; omega)]; omega
  | scaledUpdim c e ih =>
    intro x hw hx
    simp only [Up.wf, Bool.and_eq_true, beq_iff_eq] at hw
    simp only [Up.fd] at hx
    simp only [Up.app, Up.td]
    exact Sq.app_length c _ hw.1.1 (by rw [ih x hw.1.2 hx]; exact hw.2.symm)
  | generic lin off f =>
    intro x hw _
    simp only [Up.wf, Bool.and_eq_true, decide_eq_true_eq] at hw
    simp only [Up.app, Up.td]
    exact affApply_length_of_shape hw.2 x

/-! ## the simplex base cases, pointwise -/

theorem simplex_swapup_app {n ie ic ic' ie' : Nat} (hn : n < 4) (h1 : 1 ≤ n) (hie : ie < n + 1) (hic : ic < 2^(n-1))
    (h : swapLookup ie ic = some (ic', ie')) (x : Vec) :
    affApply (childAff n ic').1 (childAff n ic').2.1 (affApply (edgeAff n ie').1 (edgeAff n ie').2.1 x)
      = affApply (edgeAff n ie).1 (edgeAff n ie).2.1 (affApply (childAff (n-1) ic).1 (childAff (n-1) ic).2.1 x) := by
  have hok := swapTab_up n hn h1 ie hie ic hic
  simp only [swapUpOK, h, Bool.and_eq_true, decide_eq_true_eq, beq_iff_eq] at hok
  obtain ⟨⟨⟨⟨_, hie'⟩, heq⟩, _⟩, _⟩ := hok
  obtain ⟨hsE', _⟩ := edgeTab_shape n hn h1 ie' hie'
  obtain ⟨hsC, _⟩ := childTab_shape (n-1) (by omega) ic hic
  rw [affApply_comp _ _ _ _ (n-1) x ((matShape_iff _ _ _).1 hsE').2 ((matShape_iff _ _ _).1 hsE').1,
    affApply_comp _ _ _ _ (n-1) x ((matShape_iff _ _ _).1 hsC).2 ((matShape_iff _ _ _).1 hsC).1]
  simp only [edgeChild, childEdge] at heq
  rw [heq]

theorem simplex_swapdown_app {n ic ie r col : Nat} (hn : n < 4) (h1 : 1 ≤ n) (hic : ic < 2^n) (hie : ie < n + 1)
    (h : swapFind n (n-1) (ic, ie) = some (r, col)) (x : Vec) :
    affApply (edgeAff n r).1 (edgeAff n r).2.1 (affApply (childAff (n-1) col).1 (childAff (n-1) col).2.1 x)
      = affApply (childAff n ic).1 (childAff n ic).2.1 (affApply (edgeAff n ie).1 (edgeAff n ie).2.1 x) := by
  have hok := swapTab_down n hn h1 ic hic ie hie
  simp only [swapDownOK, h, Bool.and_eq_true, decide_eq_true_eq, beq_iff_eq] at hok
  obtain ⟨⟨⟨⟨_, hcol⟩, heq⟩, _⟩, _⟩ := hok
  obtain ⟨hsE, _⟩ := edgeTab_shape n hn h1 ie hie
  obtain ⟨hsC, _⟩ := childTab_shape (n-1) (by omega) col hcol
  rw [affApply_comp _ _ _ _ (n-1) x ((matShape_iff _ _ _).1 hsE).2 ((matShape_iff _ _ _).1 hsE).1,
    affApply_comp _ _ _ _ (n-1) x ((matShape_iff _ _ _).1 hsC).2 ((matShape_iff _ _ _).1 hsC).1]
  simp only [edgeChild, childEdge] at heq
  rw [heq]

/-! ## soundness of the swaps (any tensor nesting) -/

theorem bool_flip_aux (a b c d i : Bool) (h : (a != b) = (c != d)) : (a != (i != b)) = ((i != c) != d) := by
  cases a <;> cases b <;> cases c <;> cases d <;> cases i <;> simp_all

/-- what `e.swapup(c) = (c', e')` guarantees -/
structure SwapUpSpec (e : Up) (c c' : Sq) (e' : Up) : Prop where
  wfc : c'.wf = true
  wfe : e'.wf = true
  dimc : c'.dim = e.td
  tde : e'.td = e.td
  fde : e'.fd = c.dim
  flip : (c'.flip != e'.flip) = (e.flip != c.flip)
  app : ∀ x : Vec, x.length = c.dim → c'.app (e'.app x) = e.app (c.app x)

theorem simplexChild00_app (x : Vec) : Sq.app (.simplexChild 0 0) x = [] := by
  have : childAff 0 0 = ([], [], false) := by decide +kernel
  simp [Sq.app, this, affApply]

theorem Up.swapup_sound (e : Up) : ∀ (c c' : Sq) (e' : Up), e.wf = true → c.wf = true → e.fd = c.dim →
    e.swapup c = some (c', e') → SwapUpSpec e c c' e' := by
  induction e with
  | simplexEdge n ie inv =>
    intro c c' e' hwe hwc hd h
    cases c with
    | simplexChild m ic =>
      simp only [Up.swapup, Option.map_eq_some_iff] at h
      obtain ⟨⟨ic', ie'⟩, hl, heq⟩ := h
      simp only [Prod.mk.injEq] at heq
      obtain ⟨rfl, rfl⟩ := heq
      simp only [Up.wf, Sq.wf, Bool.and_eq_true, decide_eq_true_eq] at hwe hwc
      simp only [Up.fd, Sq.dim] at hd
      subst hd
      have hok := swapTab_up n (by omega) hwe.1.1 ie (by omega) ic hwc.2
      simp only [swapUpOK, hl, Bool.and_eq_true, decide_eq_true_eq, beq_iff_eq] at hok
      obtain ⟨⟨⟨⟨hic', hie'⟩, _⟩, hfl⟩, _⟩ := hok
      refine ⟨?_, ?_, rfl, rfl, rfl, ?_, ?_⟩
      · simp [Sq.wf]; omega
      · simp [Up.wf]; omega
      · simp only [Sq.flip, Up.flip]; exact bool_flip_aux _ _ _ _ _ hfl
      · intro x _
        simp only [Sq.app, Up.app]
        exact simplex_swapup_app (by omega) hwe.1.1 (by omega) hwc.2 hl x
    | identity _ => simp [Up.swapup] at h
    | index _ _ => simp [Up.swapup] at h
    | tensorChild _ _ => simp [Up.swapup] at h
    | generic _ _ => simp [Up.swapup] at h
  | scaledUpdim c0 e0 _ =>
    intro c c' e' hwe hwc hd h
    cases c with
    | identity k =>
      simp only [Up.swapup, Option.some.injEq, Prod.mk.injEq] at h
      obtain ⟨rfl, rfl⟩ := h
      simp only [Up.wf, Bool.and_eq_true, beq_iff_eq] at hwe
      refine ⟨hwe.1.1, hwe.1.2, rfl, hwe.2.symm, hd, ?_, ?_⟩
      · simp [Up.flip, Sq.flip]
      · intro x _; simp [Up.app, Sq.app]
    | index _ _ => simp [Up.swapup] at h
    | simplexChild _ _ => simp [Up.swapup] at h
    | tensorChild _ _ => simp [Up.swapup] at h
    | generic _ _ => simp [Up.swapup] at h
  | generic lin off f =>
    intro c c' e' _ _ _ h
    cases c <;> simp [Up.swapup] at h
  | tensorEdge1 e1 n2 ih =>
    intro c c' e' hwe hwc hd h
    simp only [Up.wf, Bool.and_eq_true, decide_eq_true_eq] at hwe
    have htd := Up.td_eq e1 hwe.1
    cases c with
    | tensorChild a b =>
      simp only [Sq.wf, Bool.and_eq_true, decide_eq_true_eq] at hwc
      simp only [Up.fd, Sq.dim] at hd
      simp only [Up.swapup] at h
      split at h
      · rename_i hfa
        simp only [Option.map_eq_some_iff] at h
        obtain ⟨⟨c1, e1'⟩, hs, heq⟩ := h
        simp only [Prod.mk.injEq] at heq
        obtain ⟨rfl, rfl⟩ := heq
        have sp := ih a c1 e1' hwe.1 hwc.1.1.1 hfa hs
        have hn2 : n2 = b.dim := by omega
        subst hn2
        refine ⟨?_, ?_, ?_, ?_, ?_, ?_, ?_⟩
        · simp [Sq.wf, sp.wfc, hwc.1.1.2]; have := sp.dimc; omega
        · simp [Up.wf, sp.wfe]; omega
        · simp [Sq.dim, Up.td, sp.dimc]
        · simp [Up.td, sp.tde]
        · simp [Up.fd, Sq.dim, sp.fde]
        · simp only [Sq.flip, Up.flip]
          have := sp.flip
          revert this; cases c1.flip <;> cases e1'.flip <;> cases e1.flip <;> cases a.flip <;> cases b.flip <;> simp
        · intro x hx
          simp only [Sq.dim] at hx
          have hx1 : (x.take a.dim).length = a.dim := by simp; omega
          have hla : (a.app (x.take a.dim)).length = a.dim := Sq.app_length a _ hwc.1.1.1 hx1
          have hle : (e1'.app (x.take a.dim)).length = c1.dim := by
            rw [Up.app_length e1' _ sp.wfe (by rw [sp.fde]; exact hx1), sp.tde, sp.dimc]
          simp only [Sq.app, Up.app, sp.fde]
          rw [List.take_left' hle, List.drop_left' hle, hfa, List.take_left' hla, List.drop_left' hla, sp.app _ hx1]
      · split at h
        · rename_i hne hf0
          simp only [Option.map_eq_some_iff] at h
          obtain ⟨⟨c1, e1'⟩, hs, heq⟩ := h
          simp only [Prod.mk.injEq] at heq
          obtain ⟨rfl, rfl⟩ := heq
          have sp := ih (.simplexChild 0 0) c1 e1' hwe.1 (by decide) (by simpa [Sq.dim] using hf0) hs
          have hn2 : n2 = a.dim + b.dim := by omega
          subst hn2
          have hfd' : e1'.fd = 0 := by simpa [Sq.dim] using sp.fde
          refine ⟨?_, ?_, ?_, ?_, ?_, ?_, ?_⟩
          · have := sp.dimc
            simp only [Sq.wf, Bool.and_eq_true, decide_eq_true_eq]
            simp only [Sq.dim]
            exact ⟨⟨⟨sp.wfc, hwc⟩, by omega⟩, by omega⟩
          · simp [Up.wf, sp.wfe]; omega
          · simp [Sq.dim, Up.td, sp.dimc]
          · simp [Up.td, Sq.dim, sp.tde]
          · simp [Up.fd, Sq.dim, hfd']
          · simp only [Sq.flip, Up.flip]
            have := sp.flip
            have h00 : Sq.flip (.simplexChild 0 0) = false := by decide +kernel
            rw [h00] at this
            revert this; cases c1.flip <;> cases e1'.flip <;> cases e1.flip <;> cases a.flip <;> cases b.flip <;> simp
          · intro x hx
            have hle : (e1'.app []).length = c1.dim := by
              rw [Up.app_length e1' _ sp.wfe (by simp [hfd']), sp.tde, sp.dimc]
            have := sp.app [] (by simp [Sq.dim])
            rw [simplexChild00_app] at this
            generalize hy : (Sq.tensorChild a b).app x = y
            simp only [Up.app, hfd', hf0, List.take_zero, List.drop_zero]
            rw [Sq.app, List.take_left' hle, List.drop_left' hle, this, hy]
        · simp at h
    | simplexChild m k =>
      simp only [Sq.wf, Bool.and_eq_true, decide_eq_true_eq] at hwc
      simp only [Up.fd, Sq.dim] at hd
      simp only [Up.swapup] at h
      split at h
      · rename_i hf0
        simp only [Option.map_eq_some_iff] at h
        obtain ⟨⟨c1, e1'⟩, hs, heq⟩ := h
        simp only [Prod.mk.injEq] at heq
        obtain ⟨rfl, rfl⟩ := heq
        have sp := ih (.simplexChild 0 0) c1 e1' hwe.1 (by decide) (by simpa [Sq.dim] using hf0) hs
        have hn2 : n2 = m := by omega
        subst hn2
        have hfd' : e1'.fd = 0 := by simpa [Sq.dim] using sp.fde
        refine ⟨?_, ?_, ?_, ?_, ?_, ?_, ?_⟩
        · have := sp.dimc
          simp only [Sq.wf, Bool.and_eq_true, decide_eq_true_eq]
          simp only [Sq.dim]
          exact ⟨⟨⟨sp.wfc, hwc⟩, by omega⟩, by omega⟩
        · simp [Up.wf, sp.wfe]; omega
        · simp [Sq.dim, Up.td, sp.dimc]
        · simp [Up.td, sp.tde]
        · simp [Up.fd, Sq.dim, hfd']
        · simp only [Sq.flip, Up.flip]
          have := sp.flip
          have h00 : Sq.flip (.simplexChild 0 0) = false := by decide +kernel
          rw [h00] at this
          revert this; cases c1.flip <;> cases e1'.flip <;> cases e1.flip <;> cases (childAff n2 k).2.2 <;> simp
        · intro x hx
          have hle : (e1'.app []).length = c1.dim := by
            rw [Up.app_length e1' _ sp.wfe (by simp [hfd']), sp.tde, sp.dimc]
          have := sp.app [] (by simp [Sq.dim])
          rw [simplexChild00_app] at this
          generalize hy : (Sq.simplexChild n2 k).app x = y
          simp only [Up.app, hfd', hf0, List.take_zero, List.drop_zero]
          rw [Sq.app, List.take_left' hle, List.drop_left' hle, this, hy]
      · simp at h
    | identity _ => simp [Up.swapup] at h
    | index _ _ => simp [Up.swapup] at h
    | generic _ _ => simp [Up.swapup] at h
  | tensorEdge2 n1 e2 ih =>
    intro c c' e' hwe hwc hd h
    simp only [Up.wf, Bool.and_eq_true, decide_eq_true_eq] at hwe
    have htd := Up.td_eq e2 hwe.1
    cases c with
    | tensorChild a b =>
      simp only [Sq.wf, Bool.and_eq_true, decide_eq_true_eq] at hwc
      simp only [Up.fd, Sq.dim] at hd
      simp only [Up.swapup] at h
      split at h
      · rename_i hfb
        simp only [Option.map_eq_some_iff] at h
        obtain ⟨⟨c2, e2'⟩, hs, heq⟩ := h
        simp only [Prod.mk.injEq] at heq
        obtain ⟨rfl, rfl⟩ := heq
        have sp := ih b c2 e2' hwe.1 hwc.1.1.2 hfb hs
        have hn1 : n1 = a.dim := by omega
        subst hn1
        refine ⟨?_, ?_, ?_, ?_, ?_, ?_, ?_⟩
        · simp [Sq.wf, sp.wfc, hwc.1.1.1]; have := sp.dimc; omega
        · simp [Up.wf, sp.wfe]; omega
        · simp [Sq.dim, Up.td, sp.dimc]
        · simp [Up.td, sp.tde]
        · simp [Up.fd, Sq.dim, sp.fde]
        · simp only [Sq.flip, Up.flip]
          have := sp.flip
          revert this; cases c2.flip <;> cases e2'.flip <;> cases e2.flip <;> cases a.flip <;> cases b.flip <;> cases (a.dim % 2 == 1) <;> simp
        · intro x hx
          simp only [Sq.dim] at hx
          have hx1 : (x.take a.dim).length = a.dim := by simp; omega
          have hx2 : (x.drop a.dim).length = b.dim := by simp; omega
          have hla : (a.app (x.take a.dim)).length = a.dim := Sq.app_length a _ hwc.1.1.1 hx1
          simp only [Sq.app, Up.app]
          rw [List.take_left' hx1, List.drop_left' hx1, List.take_left' hla, List.drop_left' hla, sp.app _ hx2]
      · split at h
        · rename_i hne hf0
          simp only [Option.map_eq_some_iff] at h
          obtain ⟨⟨c2, e2'⟩, hs, heq⟩ := h
          simp only [Prod.mk.injEq] at heq
          obtain ⟨rfl, rfl⟩ := heq
          have sp := ih (.simplexChild 0 0) c2 e2' hwe.1 (by decide) (by simpa [Sq.dim] using hf0) hs
          have hn1 : n1 = a.dim + b.dim := by omega
          subst hn1
          have hfd' : e2'.fd = 0 := by simpa [Sq.dim] using sp.fde
          refine ⟨?_, ?_, ?_, ?_, ?_, ?_, ?_⟩
          · have := sp.dimc
            simp only [Sq.wf, Bool.and_eq_true, decide_eq_true_eq]
            simp only [Sq.dim]
            exact ⟨⟨⟨hwc, sp.wfc⟩, by omega⟩, by omega⟩
          · simp [Up.wf, sp.wfe]; omega
          · simp [Sq.dim, Up.td, sp.dimc]
          · simp [Up.td, Sq.dim, sp.tde]
          · simp [Up.fd, Sq.dim, hfd']
          · simp only [Sq.flip, Up.flip, Sq.dim]
            have := sp.flip
            have h00 : Sq.flip (.simplexChild 0 0) = false := by decide +kernel
            rw [h00] at this
            revert this; cases c2.flip <;> cases e2'.flip <;> cases e2.flip <;> cases a.flip <;> cases b.flip <;> cases ((a.dim + b.dim) % 2 == 1) <;> simp
          · intro x hx
            simp only [Sq.dim] at hx
            have hlc : ((Sq.tensorChild a b).app x).length = a.dim + b.dim :=
              Sq.app_length (.tensorChild a b) x (by simp [Sq.wf, hwc.1.1.1, hwc.1.1.2, hwc.1.2, hwc.2]) (by simpa [Sq.dim] using hx)
            have := sp.app [] (by simp [Sq.dim])
            rw [simplexChild00_app] at this
            generalize hy : (Sq.tensorChild a b).app x = y at hlc
            simp only [Up.app]
            rw [Sq.app]
            simp only [Sq.dim]
            rw [List.take_of_length_le (l := x) (by omega), List.drop_eq_nil_of_le (as := x) (by omega),
              List.take_left' (by simpa using hx), List.drop_left' (by simpa using hx),
              List.take_of_length_le (l := y) (by omega), List.drop_eq_nil_of_le (as := y) (by omega), this, hy]
        · simp at h
    | simplexChild m k =>
      simp only [Sq.wf, Bool.and_eq_true, decide_eq_true_eq] at hwc
      simp only [Up.fd, Sq.dim] at hd
      simp only [Up.swapup] at h
      split at h
      · rename_i hf0
        simp only [Option.map_eq_some_iff] at h
        obtain ⟨⟨c2, e2'⟩, hs, heq⟩ := h
        simp only [Prod.mk.injEq] at heq
        obtain ⟨rfl, rfl⟩ := heq
        have sp := ih (.simplexChild 0 0) c2 e2' hwe.1 (by decide) (by simpa [Sq.dim] using hf0) hs
        have hn1 : n1 = m := by omega
        subst hn1
        have hfd' : e2'.fd = 0 := by simpa [Sq.dim] using sp.fde
        refine ⟨?_, ?_, ?_, ?_, ?_, ?_, ?_⟩
        · have := sp.dimc
          simp only [Sq.wf, Bool.and_eq_true, decide_eq_true_eq]
          simp only [Sq.dim]
          exact ⟨⟨⟨hwc, sp.wfc⟩, by omega⟩, by omega⟩
        · simp [Up.wf, sp.wfe]; omega
        · simp [Sq.dim, Up.td, sp.dimc]
        · simp [Up.td, sp.tde]
        · simp [Up.fd, Sq.dim, hfd']
        · simp only [Sq.flip, Up.flip]
          have := sp.flip
          have h00 : Sq.flip (.simplexChild 0 0) = false := by decide +kernel
          rw [h00] at this
          revert this; cases c2.flip <;> cases e2'.flip <;> cases e2.flip <;> cases (childAff n1 k).2.2 <;> cases (n1 % 2 == 1) <;> simp
        · intro x hx
          simp only [Sq.dim] at hx
          have hlc : ((Sq.simplexChild n1 k).app x).length = n1 :=
            Sq.app_length (.simplexChild n1 k) x (by simp [Sq.wf, hwc.1, hwc.2]) (by simpa [Sq.dim] using hx)
          have := sp.app [] (by simp [Sq.dim])
          rw [simplexChild00_app] at this
          generalize hy : (Sq.simplexChild n1 k).app x = y at hlc
          simp only [Up.app]
          rw [Sq.app]
          simp only [Sq.dim]
          rw [List.take_of_length_le (l := x) (by omega), List.drop_eq_nil_of_le (as := x) (by omega),
            List.take_left' (by simpa using hx), List.drop_left' (by simpa using hx),
            List.take_of_length_le (l := y) (by omega), List.drop_eq_nil_of_le (as := y) (by omega), this, hy]
      · simp at h
    | identity _ => simp [Up.swapup] at h
    | index _ _ => simp [Up.swapup] at h
    | generic _ _ => simp [Up.swapup] at h

/-- what `e.swapdown(c) = (e', c')` guarantees -/
structure SwapDownSpec (e : Up) (c : Sq) (e' : Up) (c' : Sq) : Prop where
  wfe : e'.wf = true
  wfc : c'.wf = true
  tde : e'.td = c.dim
  dimc : c'.dim = e.fd
  fde : e'.fd = c'.dim
  flip : (e'.flip != c'.flip) = (c.flip != e.flip)
  app : ∀ x : Vec, x.length = e.fd → e'.app (c'.app x) = c.app (e.app x)

theorem Sq.flip_of_dim_zero (s : Sq) (hw : s.wf = true) (hd : s.dim = 0) : s.flip = false := by
  cases s with
  | identity _ => rfl
  | index _ _ => rfl
  | simplexChild n k =>
    simp only [Sq.dim] at hd; subst hd
    simp only [Sq.wf, Bool.and_eq_true, decide_eq_true_eq] at hw
    have : k = 0 := by omega
    subst this; decide +kernel
  | tensorChild a b =>
    simp only [Sq.wf, Bool.and_eq_true, decide_eq_true_eq] at hw
    simp only [Sq.dim] at hd; omega
  | generic lin off =>
    simp only [Sq.dim] at hd
    simp only [Sq.wf] at hw
    have hl := ((matShape_iff _ _ _).1 hw).1
    have : lin = [] := by
      cases lin with
      | nil => rfl
      | cons _ _ => simp [hd] at hl
    subst this; simp [Sq.flip, det]

theorem fallback_spec (e : Up) (c : Sq) (hwe : e.wf = true) (hwc : c.wf = true) (hd : c.dim = e.td) :
    SwapDownSpec e c (.scaledUpdim c e) (.identity e.fd) := by
  refine ⟨?_, rfl, rfl, rfl, rfl, ?_, ?_⟩
  · simp [Up.wf, hwe, hwc, hd]
  · simp [Up.flip, Sq.flip]
  · intro x _; simp [Up.app, Sq.app]

theorem Up.swapdown_sound (e : Up) : ∀ (c : Sq) (e' : Up) (c' : Sq), e.wf = true → c.wf = true → c.dim = e.td →
    e.swapdown c = some (e', c') → SwapDownSpec e c e' c' := by
  induction e with
  | simplexEdge n ie inv =>
    intro c e' c' hwe hwc hd h
    cases c with
    | simplexChild m ic =>
      simp only [Up.swapdown, Option.map_eq_some_iff] at h
      obtain ⟨⟨r, col⟩, hf, heq⟩ := h
      simp only [Prod.mk.injEq] at heq
      obtain ⟨rfl, rfl⟩ := heq
      simp only [Up.wf, Sq.wf, Bool.and_eq_true, decide_eq_true_eq] at hwe hwc
      simp only [Up.td, Sq.dim] at hd
      subst hd
      have hok := swapTab_down m (by omega) hwe.1.1 ic hwc.2 ie (by omega)
      simp only [swapDownOK, hf, Bool.and_eq_true, decide_eq_true_eq, beq_iff_eq] at hok
      obtain ⟨⟨⟨⟨hr, hcol⟩, _⟩, hfl⟩, _⟩ := hok
      refine ⟨?_, ?_, rfl, rfl, rfl, ?_, ?_⟩
      · simp [Up.wf]; omega
      · simp [Sq.wf]; omega
      · simp only [Sq.flip, Up.flip]
        revert hfl
        cases (edgeAff m r).2.2 <;> cases (childAff (m-1) col).2.2 <;> cases (childAff m ic).2.2 <;> cases (edgeAff m ie).2.2 <;> cases inv <;> simp
      · intro x _
        simp only [Sq.app, Up.app]
        exact simplex_swapdown_app (by omega) hwe.1.1 hwc.2 (by omega) hf x
    | identity _ => simp [Up.swapdown] at h
    | index _ _ => simp [Up.swapdown] at h
    | tensorChild _ _ => simp [Up.swapdown] at h
    | generic _ _ => simp [Up.swapdown] at h
  | scaledUpdim c0 e0 _ =>
    intro c e' c' hwe hwc hd h
    cases c with
    | tensorChild a b =>
      simp only [Up.swapdown, Option.some.injEq, Prod.mk.injEq] at h
      obtain ⟨rfl, rfl⟩ := h
      exact fallback_spec _ _ hwe hwc hd
    | identity _ => simp [Up.swapdown] at h
    | index _ _ => simp [Up.swapdown] at h
    | simplexChild _ _ => simp [Up.swapdown] at h
    | generic _ _ => simp [Up.swapdown] at h
  | generic lin off f =>
    intro c e' c' hwe hwc hd h
    cases c with
    | tensorChild a b =>
      simp only [Up.swapdown, Option.some.injEq, Prod.mk.injEq] at h
      obtain ⟨rfl, rfl⟩ := h
      exact fallback_spec _ _ hwe hwc hd
    | identity _ => simp [Up.swapdown] at h
    | index _ _ => simp [Up.swapdown] at h
    | simplexChild _ _ => simp [Up.swapdown] at h
    | generic _ _ => simp [Up.swapdown] at h
  | tensorEdge1 e1 n2 ih =>
    intro c e' c' hwe hwc hd h
    have hwe' := hwe
    simp only [Up.wf, Bool.and_eq_true, decide_eq_true_eq] at hwe
    have htd := Up.td_eq e1 hwe.1
    cases c with
    | tensorChild a b =>
      have hwc' := hwc
      simp only [Sq.wf, Bool.and_eq_true, decide_eq_true_eq] at hwc
      simp only [Up.td, Sq.dim] at hd
      simp only [Up.swapdown] at h
      split at h
      · rename_i hat
        split at h
        · rename_i edge child hs
          simp only [Option.some.injEq, Prod.mk.injEq] at h
          obtain ⟨rfl, rfl⟩ := h
          have sp := ih a edge child hwe.1 hwc.1.1.1 hat hs
          have hn2 : n2 = b.dim := by omega
          subst hn2
          by_cases hc0 : child.dim = 0
          · simp only [hc0, ne_eq, not_true_eq_false, if_false]
            have hfl0 := Sq.flip_of_dim_zero child sp.wfc hc0
            have he1 : e1.fd = 0 := by rw [← sp.dimc]; exact hc0
            refine ⟨?_, hwc.1.1.2, ?_, ?_, ?_, ?_, ?_⟩
            · simp [Up.wf, sp.wfe]; omega
            · simp [Up.td, Sq.dim, sp.tde]
            · simp [Up.fd, he1]
            · simp [Up.fd, sp.fde, hc0]
            · simp only [Sq.flip, Up.flip]
              have := sp.flip
              rw [hfl0] at this
              revert this; cases edge.flip <;> cases e1.flip <;> cases a.flip <;> cases b.flip <;> simp
            · intro x hx
              have hca : (child.app []).length = 0 := by rw [Sq.app_length child [] sp.wfc (by simp [hc0]), hc0]
              have hnil : child.app [] = [] := List.eq_nil_of_length_eq_zero hca
              have hle : (e1.app []).length = a.dim := by rw [Up.app_length e1 [] hwe.1 (by simp [he1]), hat]
              have := sp.app [] (by simp [he1])
              rw [hnil] at this
              simp only [Sq.app, Up.app, sp.fde, hc0, he1, List.take_zero, List.drop_zero]
              rw [List.take_left' hle, List.drop_left' hle, this]
          · simp only [ne_eq, hc0, not_false_eq_true, if_true]
            refine ⟨?_, ?_, ?_, ?_, ?_, ?_, ?_⟩
            · simp [Up.wf, sp.wfe]; omega
            · simp only [Sq.wf, Bool.and_eq_true, decide_eq_true_eq]
              exact ⟨⟨⟨sp.wfc, hwc.1.1.2⟩, by omega⟩, hwc.2⟩
            · simp [Up.td, Sq.dim, sp.tde]
            · simp [Up.fd, Sq.dim, sp.dimc]
            · simp [Up.fd, Sq.dim, sp.fde]
            · simp only [Sq.flip, Up.flip]
              have := sp.flip
              revert this; cases edge.flip <;> cases child.flip <;> cases e1.flip <;> cases a.flip <;> cases b.flip <;> simp
            · intro x hx
              simp only [Up.fd] at hx
              have hx1 : (x.take child.dim).length = child.dim := by simp; have := sp.dimc; omega
              have hlc : (child.app (x.take child.dim)).length = edge.fd := by
                rw [Sq.app_length child _ sp.wfc hx1, sp.fde]
              have hx1' : (x.take e1.fd).length = e1.fd := by simp; omega
              have hle : (e1.app (x.take e1.fd)).length = a.dim := by
                rw [Up.app_length e1 _ hwe.1 hx1', hat]
              simp only [Sq.app, Up.app]
              rw [List.take_left' hlc, List.drop_left' hlc, List.take_left' hle, List.drop_left' hle]
              have := sp.app (x.take child.dim) (by rw [hx1, sp.dimc])
              rw [this, sp.dimc]
        · rename_i hs
          simp only [Option.some.injEq, Prod.mk.injEq] at h
          obtain ⟨rfl, rfl⟩ := h
          exact fallback_spec _ _ hwe' hwc' (by simp [Sq.dim, Up.td]; omega)
      · simp at h
    | identity _ => simp [Up.swapdown] at h
    | index _ _ => simp [Up.swapdown] at h
    | simplexChild _ _ => simp [Up.swapdown] at h
    | generic _ _ => simp [Up.swapdown] at h
  | tensorEdge2 n1 e2 ih =>
    intro c e' c' hwe hwc hd h
    have hwe' := hwe
    simp only [Up.wf, Bool.and_eq_true, decide_eq_true_eq] at hwe
    have htd := Up.td_eq e2 hwe.1
    cases c with
    | tensorChild a b =>
      have hwc' := hwc
      simp only [Sq.wf, Bool.and_eq_true, decide_eq_true_eq] at hwc
      simp only [Up.td, Sq.dim] at hd
      simp only [Up.swapdown] at h
      split at h
      · rename_i hbt
        split at h
        · rename_i edge child hs
          simp only [Option.some.injEq, Prod.mk.injEq] at h
          obtain ⟨rfl, rfl⟩ := h
          have sp := ih b edge child hwe.1 hwc.1.1.2 hbt hs
          have hn1 : n1 = a.dim := by omega
          subst hn1
          by_cases hc0 : child.dim = 0
          · simp only [hc0, ne_eq, not_true_eq_false, if_false]
            have hfl0 := Sq.flip_of_dim_zero child sp.wfc hc0
            have he2 : e2.fd = 0 := by rw [← sp.dimc]; exact hc0
            refine ⟨?_, hwc.1.1.1, ?_, ?_, ?_, ?_, ?_⟩
            · simp [Up.wf, sp.wfe]; omega
            · simp [Up.td, Sq.dim, sp.tde]
            · simp [Up.fd, he2]
            · simp [Up.fd, sp.fde, hc0]
            · simp only [Sq.flip, Up.flip]
              have := sp.flip
              rw [hfl0] at this
              revert this; cases edge.flip <;> cases e2.flip <;> cases a.flip <;> cases b.flip <;> cases (a.dim % 2 == 1) <;> simp
            · intro x hx
              simp only [Up.fd, he2] at hx
              have hca : (child.app []).length = 0 := by rw [Sq.app_length child [] sp.wfc (by simp [hc0]), hc0]
              have hnil : child.app [] = [] := List.eq_nil_of_length_eq_zero hca
              have hla : (a.app x).length = a.dim := Sq.app_length a x hwc.1.1.1 (by simpa using hx)
              have := sp.app [] (by simp [he2])
              rw [hnil] at this
              simp only [Up.app]
              rw [List.take_of_length_le (l := a.app x) (by omega), List.drop_eq_nil_of_le (as := a.app x) (by omega),
                List.take_of_length_le (l := x) (by omega), List.drop_eq_nil_of_le (as := x) (by omega), Sq.app,
                List.take_left' (by simpa using hx), List.drop_left' (by simpa using hx), this]
          · simp only [ne_eq, hc0, not_false_eq_true, if_true]
            refine ⟨?_, ?_, ?_, ?_, ?_, ?_, ?_⟩
            · simp [Up.wf, sp.wfe]; omega
            · simp only [Sq.wf, Bool.and_eq_true, decide_eq_true_eq]
              exact ⟨⟨⟨hwc.1.1.1, sp.wfc⟩, hwc.1.2⟩, by omega⟩
            · simp [Up.td, Sq.dim, sp.tde]
            · simp [Up.fd, Sq.dim, sp.dimc]
            · simp [Up.fd, Sq.dim, sp.fde]
            · simp only [Sq.flip, Up.flip]
              have := sp.flip
              revert this; cases edge.flip <;> cases child.flip <;> cases e2.flip <;> cases a.flip <;> cases b.flip <;> cases (a.dim % 2 == 1) <;> simp
            · intro x hx
              simp only [Up.fd] at hx
              have hx1 : (x.take a.dim).length = a.dim := by simp; omega
              have hx2 : (x.drop a.dim).length = child.dim := by simp; have := sp.dimc; omega
              have hla : (a.app (x.take a.dim)).length = a.dim := Sq.app_length a _ hwc.1.1.1 hx1
              simp only [Sq.app, Up.app]
              rw [List.take_left' hla, List.drop_left' hla, List.take_left' hx1, List.drop_left' hx1]
              have := sp.app (x.drop a.dim) (by rw [hx2, sp.dimc])
              rw [this]
        · rename_i hs
          simp only [Option.some.injEq, Prod.mk.injEq] at h
          obtain ⟨rfl, rfl⟩ := h
          exact fallback_spec _ _ hwe' hwc' (by simp [Sq.dim, Up.td]; omega)
      · simp at h
    | identity _ => simp [Up.swapdown] at h
    | index _ _ => simp [Up.swapdown] at h
    | simplexChild _ _ => simp [Up.swapdown] at h
    | generic _ _ => simp [Up.swapdown] at h

end NutilsVerif.C11
