import NutilsVerif.Model.C12
/-!
# C12 — structured (tensor-product spline) dof bookkeeping: `get_support` is the inverse of `get_dofs`
-/
namespace NutilsVerif.C12

/-! ### `uniq`, `ssr` -/

theorem le_foldl_max (l : List Nat) (a x : Nat) (h : x ≤ a ∨ x ∈ l) : x ≤ l.foldl max a := by
  induction l generalizing a with
  | nil => rcases h with h | h
           · exact h
           · cases h
  | cons b t ih =>
    simp only [List.foldl_cons]
    apply ih
    rcases h with h | h
    · left; exact Nat.le_trans h (Nat.le_max_left _ _)
    · rcases List.mem_cons.mp h with h | h
      · left; subst h; exact Nat.le_max_right _ _
      · right; exact h

theorem mem_uniq (l : List Nat) (x : Nat) : x ∈ uniq l ↔ x ∈ l := by
  unfold uniq
  rw [List.mem_filter, List.mem_range]
  constructor
  · intro h; simpa using h.2
  · intro h
    exact ⟨Nat.lt_succ_of_le (le_foldl_max l 0 x (Or.inr h)), by simpa using h⟩

theorem getD_mem {l : List Nat} {e : Nat} (h : e < l.length) : l.getD e 0 ∈ l := by
  rw [List.getD_eq_getElem?_getD, List.getElem?_eq_getElem h]; simp

theorem lt_ssr_iff {l : List Nat} (hs : l.Pairwise (· ≤ ·)) (x e : Nat) :
    e < ssr l x ↔ e < l.length ∧ l.getD e 0 ≤ x := by
  unfold ssr
  induction l generalizing e with
  | nil => simp
  | cons a t ih =>
    rw [List.pairwise_cons] at hs
    by_cases hax : a ≤ x
    · simp only [List.takeWhile_cons, hax, decide_true, if_true, List.length_cons]
      cases e with
      | zero => simp [hax]
      | succ e =>
        have := ih hs.2 e
        simp only [List.getD_cons_succ]
        omega
    · simp only [List.takeWhile_cons, hax, decide_false, Bool.false_eq_true, if_false, List.length_nil]
      constructor
      · intro h; omega
      · intro ⟨h1, h2⟩
        cases e with
        | zero => simp at h2; omega
        | succ e =>
          simp only [List.getD_cons_succ] at h2
          simp only [List.length_cons] at h1
          have := hs.1 _ (getD_mem (l := t) (e := e) (by omega))
          omega

theorem ssr_le_length (l : List Nat) (x : Nat) : ssr l x ≤ l.length := by
  unfold ssr
  exact List.Sublist.length_le (List.takeWhile_sublist _)

/-! ### well-formed dimension data -/

structure SDim.WF (d : SDim) : Prop where
  len : d.stop.length = d.start.length
  sstart : d.start.Pairwise (· ≤ ·)
  sstop : d.stop.Pairwise (· ≤ ·)
  pos : 0 < d.nd

theorem getD_le_getLast {l : List Nat} (hs : l.Pairwise (· ≤ ·)) {e : Nat} (h : e < l.length) :
    l.getD e 0 ≤ l.getLast?.getD 0 := by
  induction l generalizing e with
  | nil => simp at h
  | cons a t ih =>
    rw [List.pairwise_cons] at hs
    cases t with
    | nil =>
      have : e = 0 := by simp at h; omega
      subst this; simp
    | cons b t' =>
      rw [List.getLast?_cons_cons]
      cases e with
      | zero =>
        simp only [List.getD_cons_zero]
        have h1 := hs.1 b (by simp)
        have h2 := ih hs.2 (e := 0) (by simp)
        simp only [List.getD_cons_zero] at h2
        omega
      | succ e =>
        simp only [List.getD_cons_succ]
        exact ih hs.2 (by simp at h ⊢; omega)

/-! ### one dimension -/

theorem mem_dofs1 (d : SDim) (e x : Nat) :
    x ∈ dofs1 d e ↔ ∃ r, r < d.stop.getD e 0 - d.start.getD e 0 ∧ (d.start.getD e 0 + r) % d.nd = x := by
  unfold dofs1
  simp [List.mem_map, List.mem_range]

theorem mem_supportLoop (d : SDim) (fuel dof e : Nat) :
    e ∈ (supportLoop d fuel dof).flatten ↔
      ∃ k, k < fuel ∧ dof + k * d.nd < d.stop.getLast?.getD 0 ∧
        ssr d.stop (dof + k * d.nd) ≤ e ∧ e < ssr d.start (dof + k * d.nd) := by
  induction fuel generalizing dof with
  | zero => simp [supportLoop]
  | succ fuel ih =>
    unfold supportLoop
    by_cases hc : dof < d.stop.getLast?.getD 0
    · simp only [hc, if_true, List.flatten_cons, List.mem_append, List.mem_range'_1]
      rw [ih]
      constructor
      · rintro (h | ⟨k, hk, h1, h2, h3⟩)
        · exact ⟨0, by omega, by simpa using hc, by simpa using h.1, by simp; omega⟩
        · refine ⟨k+1, by omega, ?_, ?_, ?_⟩
          · rw [Nat.succ_mul]; omega
          · rw [Nat.succ_mul]; rw [show dof + (k * d.nd + d.nd) = dof + d.nd + k * d.nd by omega]; exact h2
          · rw [Nat.succ_mul]; rw [show dof + (k * d.nd + d.nd) = dof + d.nd + k * d.nd by omega]; exact h3
      · rintro ⟨k, hk, h1, h2, h3⟩
        cases k with
        | zero => left; simp at h2 h3; omega
        | succ k =>
          right
          rw [Nat.succ_mul] at h1 h2 h3
          rw [show dof + (k * d.nd + d.nd) = dof + d.nd + k * d.nd by omega] at h1 h2 h3
          exact ⟨k, by omega, h1, h2, h3⟩
    · simp only [hc, if_false, List.flatten_nil, List.not_mem_nil, false_iff]
      rintro ⟨k, _, h1, _⟩
      have : dof ≤ dof + k * d.nd := Nat.le_add_right _ _
      omega

/-- one dimension: element `e` is in the support of dof `x` iff `x` is among the dofs of `e` -/
theorem support1_iff (d : SDim) (hd : d.WF) (x : Nat) (hx : x < d.nd) (e : Nat) :
    e ∈ support1 d x ↔ e < d.n ∧ x ∈ dofs1 d e := by
  unfold support1
  rw [mem_uniq, mem_supportLoop, mem_dofs1]
  constructor
  · rintro ⟨k, _, _, h2, h3⟩
    have h3' := (lt_ssr_iff hd.sstart _ e).mp h3
    have hlen : e < d.stop.length := by rw [hd.len]; exact h3'.1
    have h2' : ¬ (e < d.stop.length ∧ d.stop.getD e 0 ≤ x + k * d.nd) := by
      rw [← lt_ssr_iff hd.sstop]; omega
    have h4 : x + k * d.nd < d.stop.getD e 0 := by
      by_cases h : d.stop.getD e 0 ≤ x + k * d.nd
      · exact absurd ⟨hlen, h⟩ h2'
      · omega
    refine ⟨h3'.1, x + k * d.nd - d.start.getD e 0, by omega, ?_⟩
    rw [show d.start.getD e 0 + (x + k * d.nd - d.start.getD e 0) = x + k * d.nd by omega]
    rw [Nat.add_mul_mod_self_right]
    exact Nat.mod_eq_of_lt hx
  · rintro ⟨he, r, hr, hmod⟩
    have hlen : e < d.stop.length := by rw [hd.len]; exact he
    have hlast := getD_le_getLast hd.sstop hlen
    let t := d.start.getD e 0 + r
    have ht : t = x + (t / d.nd) * d.nd := by
      have := Nat.div_add_mod t d.nd
      rw [hmod] at this
      rw [Nat.mul_comm] at this
      omega
    have hk : t / d.nd ≤ t := Nat.div_le_self _ _
    refine ⟨t / d.nd, by omega, by rw [← ht]; show d.start.getD e 0 + r < _; omega, ?_, ?_⟩
    · rw [← ht]
      have : ¬ e < ssr d.stop t := by
        rw [lt_ssr_iff hd.sstop]
        intro h; have := h.2; show False; omega
      omega
    · rw [← ht, lt_ssr_iff hd.sstart]
      exact ⟨he, by show _ ≤ d.start.getD e 0 + r; omega⟩

theorem dofs1_lt (d : SDim) (hd : d.WF) (e x : Nat) (h : x ∈ dofs1 d e) : x < d.nd := by
  obtain ⟨r, _, rfl⟩ := (mem_dofs1 d e x).mp h
  exact Nat.mod_lt _ hd.pos

/-! ### tensor products -/

theorem mem_pairs {l1 l2 : List Nat} {N z : Nat} :
    z ∈ l1.flatMap (fun a => l2.map fun b => a * N + b) ↔ ∃ a ∈ l1, ∃ b ∈ l2, z = a * N + b := by
  simp only [List.mem_flatMap, List.mem_map]
  constructor
  · rintro ⟨a, ha, b, hb, rfl⟩; exact ⟨a, ha, b, hb, rfl⟩
  · rintro ⟨a, ha, b, hb, rfl⟩; exact ⟨a, ha, b, hb, rfl⟩

theorem split_pair {N a b : Nat} (hb : b < N) : (a * N + b) / N = a ∧ (a * N + b) % N = b := by
  have hN : 0 < N := by omega
  constructor
  · rw [Nat.mul_comm, Nat.mul_add_div hN, Nat.div_eq_of_lt hb]; simp
  · rw [Nat.mul_comm, Nat.mul_add_mod, Nat.mod_eq_of_lt hb]

theorem mem_pairs_iff {l1 l2 : List Nat} {N z : Nat} (h2 : ∀ b ∈ l2, b < N) :
    z ∈ l1.flatMap (fun a => l2.map fun b => a * N + b) ↔ z / N ∈ l1 ∧ z % N ∈ l2 := by
  rw [mem_pairs]
  constructor
  · rintro ⟨a, ha, b, hb, rfl⟩
    have := split_pair (a := a) (h2 b hb)
    rw [this.1, this.2]; exact ⟨ha, hb⟩
  · rintro ⟨h1, h3⟩
    refine ⟨z / N, h1, z % N, h3, ?_⟩
    have := Nat.div_add_mod z N
    rw [Nat.mul_comm] at this; omega

theorem dofsND_lt (ds : List SDim) (hd : ∀ d ∈ ds, d.WF) (e x : Nat) (h : x ∈ dofsND ds e) : x < ndofsTot ds := by
  induction ds generalizing e x with
  | nil => simp [dofsND] at h; subst h; simp [ndofsTot]
  | cons d t ih =>
    unfold dofsND at h
    obtain ⟨a, ha, b, hb, rfl⟩ := mem_pairs.mp h
    have h1 := dofs1_lt d (hd d List.mem_cons_self) _ _ ha
    have h2 := ih (fun d' hd' => hd d' (List.mem_cons_of_mem _ hd')) _ _ hb
    show a * ndofsTot t + b < d.nd * ndofsTot t
    calc a * ndofsTot t + b < a * ndofsTot t + ndofsTot t := by omega
      _ = (a + 1) * ndofsTot t := by rw [Nat.succ_mul]
      _ ≤ d.nd * ndofsTot t := Nat.mul_le_mul_right _ h1

theorem supportND_lt (ds : List SDim) (hd : ∀ d ∈ ds, d.WF) (x e : Nat) (hx : x < ndofsTot ds) (h : e ∈ supportND ds x) :
    e < nelemsTot ds := by
  induction ds generalizing e x with
  | nil => simp [supportND] at h; subst h; simp [nelemsTot]
  | cons d t ih =>
    unfold supportND at h
    unfold ndofsTot at hx
    obtain ⟨a, ha, b, hb, rfl⟩ := mem_pairs.mp h
    have hpos : 0 < ndofsTot t := by
      rcases Nat.eq_zero_or_pos (ndofsTot t) with h0 | h0
      · rw [h0] at hx; simp at hx
      · exact h0
    have hx1 : x / ndofsTot t < d.nd := by
      rw [Nat.div_lt_iff_lt_mul hpos]; exact hx
    have h1 := ((support1_iff d (hd d List.mem_cons_self) _ hx1 a).mp ha).1
    have h2 := ih (fun d' hd' => hd d' (List.mem_cons_of_mem _ hd')) _ _ (Nat.mod_lt _ hpos) hb
    show a * nelemsTot t + b < d.n * nelemsTot t
    calc a * nelemsTot t + b < a * nelemsTot t + nelemsTot t := by omega
      _ = (a + 1) * nelemsTot t := by rw [Nat.succ_mul]
      _ ≤ d.n * nelemsTot t := Nat.mul_le_mul_right _ h1

/-- all dimensions: `get_support` is the inverse relation of `get_dofs` -/
theorem supportND_iff (ds : List SDim) (hd : ∀ d ∈ ds, d.WF) (x e : Nat) (hx : x < ndofsTot ds) (he : e < nelemsTot ds) :
    e ∈ supportND ds x ↔ x ∈ dofsND ds e := by
  induction ds generalizing e x with
  | nil =>
    simp only [ndofsTot, nelemsTot] at hx he
    have : x = 0 := by omega
    have : e = 0 := by omega
    subst_vars; simp [supportND, dofsND]
  | cons d t ih =>
    have hdt : ∀ d' ∈ t, d'.WF := fun d' hd' => hd d' (List.mem_cons_of_mem _ hd')
    unfold ndofsTot at hx
    unfold nelemsTot at he
    have hposD : 0 < ndofsTot t := by
      rcases Nat.eq_zero_or_pos (ndofsTot t) with h0 | h0
      · rw [h0] at hx; simp at hx
      · exact h0
    have hposE : 0 < nelemsTot t := by
      rcases Nat.eq_zero_or_pos (nelemsTot t) with h0 | h0
      · rw [h0] at he; simp at he
      · exact h0
    have hx1 : x / ndofsTot t < d.nd := by rw [Nat.div_lt_iff_lt_mul hposD]; exact hx
    have he1 : e / nelemsTot t < d.n := by rw [Nat.div_lt_iff_lt_mul hposE]; exact he
    unfold supportND dofsND
    rw [mem_pairs_iff (fun b hb => supportND_lt t hdt _ b (Nat.mod_lt _ hposD) hb),
        mem_pairs_iff (fun b hb => dofsND_lt t hdt _ b hb)]
    rw [support1_iff d (hd d List.mem_cons_self) _ hx1, ih hdt _ _ (Nat.mod_lt _ hposD) (Nat.mod_lt _ hposE)]
    constructor
    · rintro ⟨⟨_, h1⟩, h2⟩; exact ⟨h1, h2⟩
    · rintro ⟨h1, h2⟩; exact ⟨⟨he1, h1⟩, h2⟩

end NutilsVerif.C12

namespace NutilsVerif.C12

/-! ### the data `basis_spline` hands to `StructuredBasis` is well formed -/

theorem length_cumsum (l : List Nat) : (cumsum l).length = l.length := by
  induction l with
  | nil => rfl
  | cons a t ih => simp [cumsum, ih]

theorem cumsum_getD (l : List Nat) (e : Nat) (h : e < l.length) : (cumsum l).getD e 0 = (l.take (e+1)).sum := by
  induction l generalizing e with
  | nil => simp at h
  | cons a t ih =>
    cases e with
    | zero => simp [cumsum]
    | succ e =>
      have he : e < t.length := by simpa using h
      have hl : e < (cumsum t).length := by rw [length_cumsum]; exact he
      have := ih e he
      rw [List.getD_eq_getElem?_getD, List.getElem?_eq_getElem hl] at this
      simp only [Option.getD_some] at this
      simp only [cumsum, List.getD_cons_succ, List.take_succ_cons, List.sum_cons]
      rw [List.getD_eq_getElem?_getD, List.getElem?_eq_getElem (by simpa using hl)]
      simp only [Option.getD_some, List.getElem_map]
      rw [this]

theorem cumsum_ge_head (a : Nat) (t : List Nat) : ∀ x ∈ cumsum (a :: t), a ≤ x := by
  intro x hx
  simp only [cumsum, List.mem_cons, List.mem_map] at hx
  rcases hx with h | ⟨y, _, h⟩ <;> omega

theorem cumsum_sorted (l : List Nat) : (cumsum l).Pairwise (· ≤ ·) := by
  induction l with
  | nil => simp [cumsum]
  | cons a t ih =>
    simp only [cumsum, List.pairwise_cons, List.mem_map]
    refine ⟨?_, ?_⟩
    · rintro x ⟨y, _, rfl⟩; omega
    · rw [List.pairwise_map]
      exact ih.imp (by intro x y h; omega)

theorem sorted_map_sub {l : List Nat} (c : Nat) (h : l.Pairwise (· ≤ ·)) : (l.map (· - c)).Pairwise (· ≤ ·) := by
  rw [List.pairwise_map]; exact h.imp (by intro x y h; omega)

theorem sorted_map_add {l : List Nat} (c : Nat) (h : l.Pairwise (· ≤ ·)) : (l.map (· + c + 1)).Pairwise (· ≤ ·) := by
  rw [List.pairwise_map]; exact h.imp (by intro x y h; omega)

theorem sum_pos_of_mem {l : List Nat} (hne : l ≠ []) (h : ∀ x ∈ l, 1 ≤ x) : 0 < l.sum := by
  cases l with
  | nil => exact absurd rfl hne
  | cons a t => have := h a List.mem_cons_self; simp only [List.sum_cons]; omega

/-- `splineDim` produces well-formed `StructuredBasis` data with `n` elements, `stop = start + p + 1` -/
theorem splineDim_wf {p n : Nat} {m : List Nat} {per : Bool} {d : SDim} (h : splineDim p n m per = .ok d)
    (hm : ∀ x ∈ m, 1 ≤ x) : d.WF ∧ d.n = n ∧ d.stop = d.start.map (· + p + 1) := by
  unfold splineDim at h
  split at h
  · cases h
  · rename_i hshape
    have hn : n ≠ 0 := fun e => hshape (Or.inl e)
    have hlen : m.length = n + 1 := by
      by_cases e : m.length = n + 1
      · exact e
      · exact absurd (Or.inr e) hshape
    simp only at h
    split at h
    · split at h
      · cases h
      · injection h with h
        subst h
        refine ⟨⟨by simp, sorted_map_sub _ (cumsum_sorted _), ?_, ?_⟩, ?_, rfl⟩
        · exact sorted_map_add _ (sorted_map_sub _ (cumsum_sorted _))
        · apply sum_pos_of_mem
          · intro e
            have := congrArg List.length e
            rw [List.length_take, List.length_nil] at this; omega
          · intro x hx; exact hm x (List.mem_of_mem_take hx)
        · simp [SDim.n, length_cumsum, hlen]
    · injection h with h
      subst h
      refine ⟨⟨by simp, sorted_map_sub _ (cumsum_sorted _), ?_, by simp⟩, ?_, rfl⟩
      · exact sorted_map_add _ (sorted_map_sub _ (cumsum_sorted _))
      · simp [SDim.n, length_cumsum, hlen]

/-! ### multiplicity resolution -/

theorem resolveCont_range {p : Nat} {c : Int} {f : Nat} (h : resolveCont p c = .ok f) : 1 ≤ f ∧ f ≤ p + 1 := by
  unfold resolveCont at h
  by_cases hc : c < 0
  · simp only [hc, if_true] at h
    by_cases h2 : -1 ≤ c + (p : Int) ∧ c + (p : Int) < (p : Int)
    · rw [if_pos h2] at h; injection h with h; omega
    · rw [if_neg h2] at h; cases h
  · simp only [hc, if_false] at h
    by_cases h2 : -1 ≤ c ∧ c < (p : Int)
    · rw [if_pos h2] at h; injection h with h; omega
    · rw [if_neg h2] at h; cases h

theorem mem_interleave {fill : Nat} {l : List Nat} {x : Nat} (h : x ∈ interleave fill l) : x = fill ∨ x ∈ l := by
  induction l using interleave.induct with
  | case1 => simp [interleave] at h
  | case2 a => simp [interleave] at h; right; simp [h]
  | case3 a t hne ih =>
    rw [interleave] at h
    · simp only [List.mem_cons] at h
      rcases h with h | h | h
      · right; simp [h]
      · left; exact h
      · rcases ih h with h | h
        · left; exact h
        · right; exact List.mem_cons_of_mem _ h
    · exact hne

theorem extendMults_range {fill len fuel : Nat} {m r : List Nat} {lo hi : Nat} (h : extendMults fill len fuel m = .ok r)
    (hf : lo ≤ fill ∧ fill ≤ hi) (hm : ∀ x ∈ m, lo ≤ x ∧ x ≤ hi) : r.length = len ∧ ∀ x ∈ r, lo ≤ x ∧ x ≤ hi := by
  induction fuel generalizing m with
  | zero =>
    unfold extendMults at h
    split at h
    · split at h
      · injection h with h; subst h; exact ⟨by assumption, hm⟩
      · cases h
    · split at h <;> cases h
  | succ fuel ih =>
    unfold extendMults at h
    split at h
    · split at h
      · injection h with h; subst h; exact ⟨by assumption, hm⟩
      · cases h
    · split at h
      · cases h
      · apply ih h
        intro x hx
        rcases mem_interleave hx with e | e
        · subst e; exact hf
        · exact hm x e

theorem resolveMults_range {p n : Nat} {c : Int} {m : Option (List Nat)} {r : List Nat} (h : resolveMults p n c m = .ok r) :
    r.length = n + 1 ∧ ∀ x ∈ r, 1 ≤ x ∧ x ≤ p + 1 := by
  unfold resolveMults at h
  cases hc : resolveCont p c with
  | error e => rw [hc] at h; cases h
  | ok fill =>
    rw [hc] at h
    have hf := resolveCont_range hc
    cases m with
    | none =>
      have : r = List.replicate (n+1) fill := by
        have : (Except.ok (List.replicate (n+1) fill) : Except SplErr _) = .ok r := h
        injection this with this; exact this.symm
      subst this
      refine ⟨by simp, ?_⟩
      intro x hx
      rw [List.mem_replicate] at hx
      rw [hx.2]; exact hf
    | some m =>
      have h' : (if m = [] ∨ !(m.all (fun x => decide (0 < x) && decide (x ≤ p+1))) then Except.error SplErr.multRange
                  else extendMults fill (n+1) (n+1) m) = .ok r := h
      split at h'
      · cases h'
      · rename_i hcond
        have hall : ∀ x ∈ m, 1 ≤ x ∧ x ≤ p + 1 := by
          intro x hx
          have : m.all (fun x => decide (0 < x) && decide (x ≤ p+1)) = true := by
            cases hb : m.all (fun x => decide (0 < x) && decide (x ≤ p+1)) with
            | true => rfl
            | false => exact absurd (Or.inr (by simp [hb])) hcond
          have := (List.all_eq_true.mp this) x hx
          simp at this; omega
        exact extendMults_range h' hf hall

end NutilsVerif.C12

namespace NutilsVerif.C12

/-! ### closed formulas for the offsets and the number of dofs -/

theorem getD_map_of_lt {l : List Nat} (f : Nat → Nat) {e : Nat} (h : e < l.length) :
    (l.map f).getD e 0 = f (l.getD e 0) := by
  rw [List.getD_eq_getElem?_getD, List.getD_eq_getElem?_getD, List.getElem?_eq_getElem (by simpa using h),
    List.getElem?_eq_getElem h]
  simp

theorem start_formula (a : Nat) (t : List Nat) (n e : Nat) (he : e < n) (hl : n ≤ t.length + 1) :
    ((cumsum ((a :: t).take n)).map (· - a)).getD e 0 = (t.take e).sum := by
  have hlen : ((a :: t).take n).length = n := by rw [List.length_take]; simp; omega
  rw [getD_map_of_lt _ (by rw [length_cumsum, hlen]; exact he), cumsum_getD _ _ (by rw [hlen]; exact he)]
  rw [List.take_take, Nat.min_eq_left (by omega), List.take_succ_cons, List.sum_cons]
  omega

/-- **dof count and offsets** of one spline dimension in closed form: element `e` starts at dof
`m[1] + … + m[e]`; a non-periodic dimension has `p + 1 + m[1] + … + m[n-1]` dofs and a periodic one
`m[0] + … + m[n-1]`. -/
theorem splineDim_formula {p n : Nat} {m : List Nat} {per : Bool} {d : SDim} (h : splineDim p n m per = .ok d) :
    (∀ e, e < n → d.start.getD e 0 = ((m.take (e+1)).drop 1).sum) ∧
    d.nd = (if per && !(m.getD 0 0 == m.getD n 0 && m.getD n 0 == p+1) then (m.take n).sum
            else p + 1 + ((m.take n).drop 1).sum) := by
  unfold splineDim at h
  split at h
  · cases h
  · rename_i hshape
    have hn : n ≠ 0 := fun e => hshape (Or.inl e)
    have hlen : m.length = n + 1 := by
      by_cases e : m.length = n + 1
      · exact e
      · exact absurd (Or.inr e) hshape
    cases m with
    | nil => simp at hlen
    | cons a t =>
      have htl : t.length = n := by simpa using hlen
      cases n with
      | zero => exact absurd rfl hn
      | succ k =>
      simp only at h
      split at h
      · rename_i hper
        split at h
        · cases h
        · injection h with h
          subst h
          refine ⟨?_, ?_⟩
          · intro e he
            simp only [List.getD_cons_zero]
            rw [start_formula a t (k+1) e he (by omega)]
            simp
          · rw [if_pos hper]
      · rename_i hper
        injection h with h
        subst h
        have hms : (((a :: t).set 0 p).set (k+1) p).take (k+1) = (p :: t).take (k+1) := by
          rw [List.take_set_of_le (Nat.le_refl _)]; rfl
        refine ⟨?_, ?_⟩
        · intro e he
          simp only [hms]
          rw [start_formula p t (k+1) e he (by omega)]
          simp
        · rw [if_neg hper]
          simp only [hms, List.take_succ_cons, List.sum_cons, List.drop_succ_cons, List.drop_zero]
          omega

/-- in a non-periodic dimension the last element ends exactly at the last dof: no wrap-around happens -/
theorem splineDim_nowrap {p n : Nat} {m : List Nat} {d : SDim} (h : splineDim p n m false = .ok d) :
    d.stop.getLast?.getD 0 = d.nd := by
  unfold splineDim at h
  split at h
  · cases h
  · rename_i hshape
    have hn : n ≠ 0 := fun e => hshape (Or.inl e)
    have hlen : m.length = n + 1 := by
      by_cases e : m.length = n + 1
      · exact e
      · exact absurd (Or.inr e) hshape
    cases m with
    | nil => simp at hlen
    | cons a t =>
      have htl : t.length = n := by simpa using hlen
      cases n with
      | zero => exact absurd rfl hn
      | succ k =>
      simp only [Bool.false_and, Bool.false_eq_true, if_false] at h
      injection h with h
      subst h
      have hms : (((a :: t).set 0 p).set (k+1) p).take (k+1) = (p :: t).take (k+1) := by
        rw [List.take_set_of_le (Nat.le_refl _)]; rfl
      simp only [hms]
      have hl2 : ((p :: t).take (k+1)).length = k + 1 := by rw [List.length_take]; simp; omega
      have hl3 : (List.map (fun x => x + p + 1) (List.map (fun x => x - p) (cumsum ((p :: t).take (k+1))))).length = k + 1 := by
        rw [List.length_map, List.length_map, length_cumsum, hl2]
      rw [List.getLast?_eq_getElem?, hl3]
      simp only [Nat.add_sub_cancel]
      rw [← List.getD_eq_getElem?_getD, getD_map_of_lt _ (by rw [List.length_map, length_cumsum, hl2]; omega),
        getD_map_of_lt _ (by rw [length_cumsum, hl2]; omega), cumsum_getD _ _ (by rw [hl2]; omega)]
      rw [List.take_take, Nat.min_self]
      simp only [List.take_succ_cons, List.sum_cons]
      omega

end NutilsVerif.C12
