import NutilsVerif.Model.C12
import NutilsVerif.Proofs.C12Struct
/-!
# C12 — `_basis_spline` dof slices in closed form
-/
namespace NutilsVerif.C12

theorem getD_map_int {l : List Nat} (f : Nat → Int) {e : Nat} (h : e < l.length) :
    (l.map f).getD e 0 = f (l.getD e 0) := by
  rw [List.getD_eq_getElem?_getD, List.getD_eq_getElem?_getD, List.getElem?_eq_getElem (by simpa using h),
    List.getElem?_eq_getElem h]
  simp

theorem getLast_map_int {l : List Nat} (f : Nat → Int) (h : 0 < l.length) :
    (l.map f).getLast?.getD 0 = f (l.getD (l.length - 1) 0) := by
  rw [List.getLast?_eq_getElem?, List.length_map, ← List.getD_eq_getElem?_getD]
  exact getD_map_int f (by omega)

theorem sum_take_succ (l : List Nat) (e : Nat) (h : e < l.length) : (l.take (e+1)).sum = (l.take e).sum + l.getD e 0 := by
  induction l generalizing e with
  | nil => simp at h
  | cons a t ih =>
    cases e with
    | zero => simp
    | succ e =>
      simp only [List.take_succ_cons, List.sum_cons, List.getD_cons_succ]
      rw [ih e (by simpa using h)]; omega

theorem sum_take_le (l : List Nat) (a b : Nat) (h : a ≤ b) : (l.take a).sum ≤ (l.take b).sum := by
  induction l generalizing a b with
  | nil => simp
  | cons x t ih =>
    cases a with
    | zero => simp
    | succ a =>
      cases b with
      | zero => omega
      | succ b =>
        simp only [List.take_succ_cons, List.sum_cons]
        have := ih a b (by omega)
        omega

/-- `_basis_spline`, one non-periodic dimension, in closed form: with `μ_e = m[0]+…+m[e] - 1` the index of the last
copy of knot `e` in the knot vector with multiplicities `m`, element `e` carries the dofs
`[max(0, μ_e - p), min(μ_e + 1, nd))` and `nd = Σ m - p - 1`: exactly the B-splines on that knot vector whose support
contains the element. -/
theorem vsDim_spec {p n : Nat} {m : List Nat} {sl : List (Nat × Nat)} {nd : Nat} (h : vsDim p n m = .ok (sl, nd)) :
    sl.length = n ∧ (nd : Int) = (m.sum : Int) - p - 1 ∧ 0 < nd ∧
    ∀ e, e < n → sl.getD e (0, 0) =
      ((max 0 (((m.take (e+1)).sum : Int) - 1 - p)).toNat, (min (((m.take (e+1)).sum : Int)) (nd : Int)).toNat) := by
  unfold vsDim at h
  split at h
  · cases h
  · rename_i hshape
    have hn : n ≠ 0 := fun e => hshape (Or.inl e)
    have hlen : m.length = n + 1 := by
      by_cases e : m.length = n + 1
      · exact e
      · exact absurd (Or.inr e) hshape
    simp only at h
    split at h
    · cases h
    · rename_i hnd
      injection h with h
      injection h with h1 h2
      cases m with
      | nil => simp at hlen
      | cons a t =>
        have htl : t.length = n := by simpa using hlen
        cases n with
        | zero => exact absurd rfl hn
        | succ k =>
        have hms : (((a :: t).set 0 (p+1)).set (k+1) (p+1)).take (k+1) = (p+1) :: t.take k := by
          rw [List.take_set_of_le (Nat.le_refl _)]; rfl
        have hl2 : ((p+1) :: t.take k).length = k + 1 := by simp [List.length_take]; omega
        have hcl : (cumsum ((p+1) :: t.take k)).length = k + 1 := by rw [length_cumsum, hl2]
        have hoff : ∀ e, e < k + 1 → ((cumsum ((p+1) :: t.take k)).map (fun (x : Nat) => (x : Int) - p)).getD e 0
            = 1 + ((t.take e).sum : Int) := by
          intro e he
          rw [getD_map_int _ (by rw [hcl]; exact he), cumsum_getD _ _ (by rw [hl2]; exact he)]
          simp only [List.take_succ_cons, List.sum_cons, List.take_take]
          rw [Nat.min_eq_left (by omega)]
          push_cast; omega
        have hlast : ((cumsum ((p+1) :: t.take k)).map (fun (x : Nat) => (x : Int) - p)).getLast?.getD 0
            = 1 + ((t.take k).sum : Int) := by
          rw [getLast_map_int _ (by rw [hcl]; omega), hcl]
          have := hoff k (by omega)
          rw [getD_map_int _ (by rw [hcl]; omega)] at this
          simpa using this
        have hsumm : ((a :: t).sum : Int) = a + ((t.take k).sum : Int) + (t.getD k 0 : Int) := by
          have := sum_take_succ t k (by omega)
          rw [show t.take (k+1) = t by rw [← htl]; exact List.take_length] at this
          simp only [List.sum_cons]; push_cast; omega
        subst h1 h2
        simp only [hms] at *
        refine ⟨by simp [hcl], ?_, ?_, ?_⟩
        · rw [Int.toNat_of_nonneg (by omega)]
        · omega
        · intro e he
          have hget : ((cumsum ((p+1) :: t.take k)).map (fun (x : Nat) => (x : Int) - p))[e]? = some (1 + ((t.take e).sum : Int)) := by
            have h1 := hoff e he
            rw [List.getD_eq_getElem?_getD, List.getElem?_eq_getElem (by rw [List.length_map, hcl]; exact he)] at h1
            rw [List.getElem?_eq_getElem (by rw [List.length_map, hcl]; exact he)]
            simpa using h1
          rw [List.getD_eq_getElem?_getD, List.getElem?_map, hget]
          simp only [Option.map_some, Option.getD_some]
          rw [hoff 0 (by omega), hlast]
          have hse : ((List.take (e + 1) (a :: t)).sum : Int) = a + ((t.take e).sum : Int) := by
            simp only [List.take_succ_cons, List.sum_cons]; push_cast; rfl
          have hle : ((t.take e).sum : Int) ≤ ((t.take k).sum : Int) := by
            have := sum_take_le t e k (by omega); exact_mod_cast this
          have hnd' : (0 : Int) < ((a :: t).sum : Int) - p - 1 := by omega
          rw [hse]
          simp only [List.take_zero, List.sum_nil, List.getD_cons_zero, List.getD_cons_succ, Int.natCast_zero, Int.add_zero]
          rw [Int.toNat_of_nonneg (by omega), hsumm]
          apply Prod.ext
          · simp only; omega
          · simp only; omega

end NutilsVerif.C12
