import NutilsVerif.Proofs.C03First
/-! C03 — the globals after a first run that raised, and the general history invariant -/
namespace NutilsVerif.C03
variable {D : Type}

/-- the globals while `first_run` is still True: the constants are untouched, locals are gone; the cached globals may hold
anything an aborted first run assigned -/
structure Uncached (p : Prog) (O : Var → List Loc) (cd : Var → D × Bool) (dflt : D) (st : St D) : Prop where
  first : st.first = true
  err : st.err = none
  locals : ∀ v, persists p v = false → st.env v = none
  cenv : ∀ k ∈ p.consts, st.env k = (initSt p cd dflt).env k
  cheap : ∀ k ∈ p.consts, st.heap (.var k) = (initSt p cd dflt).heap (.var k)
  origin : OriginInv O st

theorem init_uncached (p : Prog) (O : Var → List Loc) (cd : Var → D × Bool) (dflt : D) (hH : Hyp p O) :
    Uncached p O cd dflt (initSt p cd dflt) := by
  refine ⟨rfl, rfl, ?_, fun _ _ => rfl, fun _ _ => rfl, init_origin p O (classes_of _ hH.cls) cd dflt⟩
  intro v hv
  simp only [initSt]
  split
  · next hc => simp [persists, hc] at hv
  · rfl

/-! ## the constants survive everything -/

def wfC (c : Ctx) : Stmt → Bool :=
  allOps (fun t b => wfKop c t b && match b with | .write dst _ _ => (c.O dst).all (fun l => !c.constloc l) | _ => true)
    (fun cnt i b => wfKloop c cnt i b)

theorem constloc_cloc (c : Ctx) (l : Loc) (h : c.constloc l = true) : c.cloc l = true := by
  cases l <;> simp_all [Ctx.constloc, Ctx.cloc]

theorem chk_wfC (c : Ctx) : ∀ (s : Stmt) (Dv : List Var) (Wl : List Loc) (Wv : List Var),
    chk c s Dv Wl Wv = true → wfC c s = true := by
  intro s
  induction s with
  | nop => intros; rfl
  | op t b =>
    intro Dv Wl Wv h
    have hk := chkOp_wfK c Dv Wl Wv t b h
    simp only [chk, chkOp, Bool.and_eq_true] at h
    simp only [wfC, allOps, Bool.and_eq_true]
    refine ⟨hk, ?_⟩
    cases b <;> try trivial
    rename_i dst op srcs
    simp only [List.all_eq_true, Bool.not_eq_true']
    intro l hl
    cases t with
    | skip =>
      simp only [List.all_eq_true, Bool.and_eq_true, Bool.not_eq_true'] at h
      exact (h.2.2 l hl).2
    | shared => simp at h
    | rerun =>
      simp only [List.all_eq_true, Bool.and_eq_true, Bool.not_eq_true'] at h
      have := (h.2.2 l hl).1.1
      cases hc : c.constloc l
      · rfl
      · rw [constloc_cloc c l hc] at this; cases this
  | seq s t ihs iht =>
    intro Dv Wl Wv h
    simp only [chk, Bool.and_eq_true] at h
    simp only [wfC, allOps, Bool.and_eq_true]
    exact ⟨ihs _ _ _ h.1, iht _ _ _ h.2⟩
  | loop cnt i body ih =>
    intro Dv Wl Wv h
    have hk := chk_wfK c _ _ _ _ h
    simp only [chk, Bool.and_eq_true] at h
    simp only [wfC, allOps, Bool.and_eq_true]
    exact ⟨(wfK_loop c cnt i body hk).1, ih _ _ _ h.2⟩

/-- read-only constants keep their binding and their buffer through any run -/
theorem exec_consts (I : Interp D) (args : Args D) (m : Mode) (c : Ctx) (k : Classes c) (s : Stmt) (st : St D)
    (hs : wfC c s = true) (ho : OriginInv c.O st) (kc : Var) (hkc : kc ∈ c.consts) (r0 : Ref) (hr0 : r0.w = false)
    (henv : st.env kc = some r0) :
    (exec I args m s st).env kc = some r0 ∧ (exec I args m s st).heap (.var kc) = st.heap (.var kc) := by
  have := exec_preserves I args m (fun st' => OriginInv c.O st' ∧ st'.env kc = some r0 ∧ st'.heap (.var kc) = st.heap (.var kc))
    (fun s => wfC c s = true) ?_ ?_ ?_ ?_ ?_ s st hs ⟨ho, henv, rfl⟩
  · exact this.2
  · intro t b st' hq _ hP
    have hq' := hq
    simp only [wfC, allOps, Bool.and_eq_true] at hq'
    obtain ⟨hk, hw⟩ := hq'
    refine ⟨execB_origin I args c b st' (wfK_wfO_op c t b hk) hP.1, ?_⟩
    cases herr : st'.err with
    | some e => rw [execB_err I args b st' e herr]; exact hP.2
    | none =>
      rw [execB_eq I args b st' herr]
      have hdefs : ∀ d ∈ b.defs, d ≠ kc := by
        intro d hd e; subst e
        simp only [wfKop, Bool.and_eq_true] at hk
        cases t with
        | skip => exact k.c_sk d hkc (by simpa using (List.all_eq_true.mp hk.2) d hd)
        | shared =>
          simp only [Bool.and_eq_true] at hk
          exact k.c_sh d hkc (by simpa using (List.all_eq_true.mp hk.2.1) d hd)
        | rerun => exact k.c_ns d hkc (by simpa using (List.all_eq_true.mp hk.2) d hd)
      constructor
      · rw [applyEff_env]
        cases he : (effB I args b st').err <;> cases hu : (effB I args b st').envUpd <;> simp only
        · exact hP.2.1
        · rename_i p; obtain ⟨x, r⟩ := p
          split
          · next e =>
            subst e
            rcases effB_envUpd I args b st' kc r hu with hd | hd
            · exact absurd rfl (hdefs kc hd)
            · -- setflags on a constant that is read-only already
              subst hd
              simp only [effB, hP.2.1] at hu
              simp only [Option.some.injEq, Prod.mk.injEq, true_and] at hu
              rw [← hu]; cases r0; simp_all
          · exact hP.2.1
        · exact hP.2.1
        · exact hP.2.1
      · rw [applyEff_heap_frame]
        · exact hP.2.2
        · intro l' d hu e; subst e
          rcases effB_heapUpd I args b st' _ d hu with ⟨x, hx, hxe⟩ | ⟨dst, op, srcs, r, hb, hr', hle⟩
          · cases hxe; exact hdefs kc hx rfl
          · subst hb
            simp only [List.all_eq_true, Bool.not_eq_true'] at hw
            have := hw _ (hP.1 dst r hr')
            rw [← hle] at this
            simp [Ctx.constloc, hkc] at this
  · intro cnt i body j st' hq _ hP
    have hq2 := hq
    simp only [wfC, allOps, Bool.and_eq_true] at hq2
    have hl' := hq2.1
    simp only [wfKloop, Bool.and_eq_true] at hl'
    have hne : kc ≠ i := by
      intro e; subst e
      cases ht : loopTag body <;> rw [ht] at hl'
      · exact k.c_sk kc hkc (by simpa using hl'.2)
      · exact k.c_sh kc hkc (by simpa using hl'.2)
      · exact k.c_ns kc hkc (by simpa using hl'.2)
    refine ⟨bindIdx_origin I c i j st' hl'.1 hP.1, ?_⟩
    unfold bindIdx; split
    · exact hP.2
    · simp only [alloc_env, alloc_heap, hne, if_false]
      refine ⟨hP.2.1, ?_⟩
      have : Loc.var kc ≠ Loc.var i := fun e => hne (by cases e; rfl)
      simp only [this, if_false]; exact hP.2.2
  · intro st' e hP; exact hP
  · intro s t hq; simpa [wfC, allOps] using hq
  · intro cnt i b hq; exact (by simpa [wfC, allOps] using hq : _ ∧ _).2


/-! ## a first run from any uncached state behaves like a first run of a fresh function -/

theorem init_const_ref (p : Prog) (cd : Var → D × Bool) (dflt : D) (hro : ∀ k ∈ p.consts, k ∈ p.roconsts) (k : Var) (hk : k ∈ p.consts) :
    (initSt p cd dflt).env k = some ⟨.var k, [], false⟩ := by
  have : p.roconsts.contains k = true := by simpa using hro k hk
  simp only [initSt, hk, if_true, this, Bool.not_true, Bool.and_false]

theorem entry_agree (p : Prog) (O : Var → List Loc) (cd : Var → D × Bool) (dflt : D) (hH : Hyp p O) (st : St D)
    (hU : Uncached p O cd dflt st) (args : Args D) :
    AgreeE (mkCtx p O) [] (enter p dflt st args) (enter p dflt (initSt p cd dflt) args) := by
  have k := classes_of _ hH.cls
  have hag : ∀ v, agreedVar (mkCtx p O) [] v → st.env v = (initSt p cd dflt).env v := by
    intro v hv
    rcases hv with h | h | h | h
    · exact hU.cenv v h
    · have hnp : persists p v = false := by rw [← mkCtx_persists p O]; exact k.not_pers (Or.inl h)
      rw [hU.locals v hnp, (init_uncached p O cd dflt hH).locals v hnp]
    · have hnp : persists p v = false := by rw [← mkCtx_persists p O]; exact k.not_pers (Or.inr h)
      rw [hU.locals v hnp, (init_uncached p O cd dflt hH).locals v hnp]
    · cases h
  refine ⟨rfl, fun _ => ⟨fun v hv => hag v hv, ?_, ?_, by simp [hU.first, initSt]⟩⟩
  · intro l hl
    exact enter_heap_uncached p dflt _ _ args l (by rwa [← mkCtx_cloc p O])
  · intro v r hv hr
    simp only [enter_env] at hr
    -- only constants are bound among the agreed variables at entry
    rcases hv with h | h | h | h
    · have := init_const_ref p cd dflt hH.constsRO v h
      rw [hU.cenv v h, this] at hr
      cases hr
      have hc : cachedLoc p (.var v) = true := by
        have : v ∈ p.consts := h
        simp [cachedLoc, this]
      rw [enter_heap_cached p dflt st args _ hc, enter_heap_cached p dflt _ args _ hc]
      exact hU.cheap v h
    · have hnp : persists p v = false := by rw [← mkCtx_persists p O]; exact k.not_pers (Or.inl h)
      rw [hU.locals v hnp] at hr; cases hr
    · have hnp : persists p v = false := by rw [← mkCtx_persists p O]; exact k.not_pers (Or.inr h)
      rw [hU.locals v hnp] at hr; cases hr
    · cases h

theorem safe_entry (p : Prog) (O : Var → List Loc) (cd : Var → D × Bool) (dflt : D) (hH : Hyp p O) (st : St D)
    (hU : Uncached p O cd dflt st) (args : Args D) : SafeOn (mkCtx p O) p.roconsts (enter p dflt st args) := by
  intro _ v hv r hr
  simp only [enter_env] at hr
  have hc := hH.roConsts v hv
  rw [hU.cenv v hc, init_const_ref p cd dflt hH.constsRO v hc] at hr
  cases hr; exact Or.inl rfl

/-- **a call while `first_run` is still True** — from the initial globals or after any number of first runs that raised —
returns what a fresh function returns; if nothing is raised the cached state is established, otherwise the globals stay
uncached -/
theorem call_uncached (I : Interp D) (p : Prog) (O : Var → List Loc) (cd : Var → D × Bool) (dflt : D) (hH : Hyp p O)
    (hKe : (cacheSt I p cd dflt).err = none) (st : St D) (hU : Uncached p O cd dflt st) (args : Args D) :
    (call I p dflt st args).2.res = fresh I p cd dflt args ∧
    (CachedS (mkCtx p O) (cacheSt I p cd dflt) (call I p dflt st args).1 ∨ Uncached p O cd dflt (call I p dflt st args).1) ∧
    (∀ r ∈ (call I p dflt st args).2.refs, SafeRef (mkCtx p O) r) := by
  have k := classes_of _ hH.cls
  have hm : modeOf st = .first := by simp [modeOf, hU.first]
  have hmI : modeOf (initSt p cd dflt) = .first := by simp [modeOf, initSt]
  have hwf := chk_wfK _ _ _ _ _ hH.body
  have hAg := cc_first I args (mkCtx p O) p.body [] [] [] _ _ hH.body (entry_agree p O cd dflt hH st hU args)
  have hO' : OriginInv O (exec I args .first p.body (enter p dflt st args)) :=
    exec_origin_K I args .first (mkCtx p O) p.body _ hwf (fun v r h => hU.origin v r h)
  have hretag : ∀ v ∈ p.ret, agreedVar (mkCtx p O) (dAfter p.body []) v :=
    fun v hv => readRerun_agreed (retRead_spec _ _ _ hH.ret v hv)
  -- the outcome
  have hres : (call I p dflt st args).2.res = fresh I p cd dflt args := by
    simp only [fresh, call, hm, hmI]
    apply outcome_res_same I p hAg.1
    intro he v hv
    have hA := hAg.2 he
    unfold SeeSame
    rw [← hA.env v (hretag v hv)]
    cases hev : (exec I args .first p.body (enter p dflt st args)).env v with
    | none => trivial
    | some r => exact ⟨rfl, rfl, hA.hc v r (hretag v hv) hev⟩
  refine ⟨hres, ?_, ?_⟩
  · cases he : (exec I args .first p.body (enter p dflt st args)).err with
    | none =>
      left
      have hA := hAg.2 he
      have heI : (exec I args .first p.body (enter p dflt (initSt p cd dflt) args)).err = none := hAg.1 ▸ he
      obtain ⟨⟨hC, hS⟩, _⟩ := call_first I p O cd dflt hH hKe args heI
      simp only [call, hmI] at hC hS
      have hpag : ∀ v, persists p v = true → agreedVar (mkCtx p O) (dAfter p.body []) v := by
        intro v hv
        simp only [persists, Bool.or_eq_true, List.contains_eq_mem, decide_eq_true_eq] at hv
        rcases hv with h | h
        · exact Or.inr (Or.inr (Or.inr (hH.globDef v h)))
        · exact Or.inl h
      have henvP : ∀ v, persists p v = true →
          (exec I args .first p.body (enter p dflt st args)).env v = (cacheSt I p cd dflt).env v := by
        intro v hv
        rw [hA.env v (hpag v hv)]
        have := hC.pers.env v (by rw [mkCtx_persists]; exact hv)
        simpa only [leave, hv, if_true] using this
      simp only [call, hm]
      refine ⟨⟨?_, rfl, ⟨?_, ?_⟩, ?_, ?_⟩, ?_⟩
      · have := hC.first; simp only [leave] at this ⊢; rw [hA.first]; exact this
      · intro v hv
        have hv' : persists p v = true := by rw [← mkCtx_persists p O]; exact hv
        simp only [leave, hv', if_true]; exact henvP v hv'
      · intro v r hv hcl
        simp only [leave] at hv ⊢
        split at hv
        · next hp =>
          rw [hA.hc v r (hpag v hp) hv]
          have h2 : (exec I args .first p.body (enter p dflt (initSt p cd dflt) args)).env v = some r := by
            rw [← hA.env v (hpag v hp)]; exact hv
          have := hC.pers.heap v r (by simp only [leave, hp, if_true]; exact h2) hcl
          simpa only [leave] using this
        · next hnp => rw [hU.locals v (by simpa using hnp)] at hv; cases hv
      · intro v r hv
        simp only [leave] at hv
        split at hv
        · exact hO' v r hv
        · exact hU.origin v r hv
      · intro v hv
        have hv' : persists p v = false := by rw [← mkCtx_persists p O]; exact hv
        simp only [leave, hv', Bool.false_eq_true, if_false]; exact hU.locals v hv'
      · intro v r hv
        simp only [leave] at hv
        split at hv
        · next hp =>
          apply hS v r
          simp only [leave, hp, if_true]
          rw [← hA.env v (hpag v hp)]; exact hv
        · next hnp => rw [hU.locals v (by simpa using hnp)] at hv; cases hv
    | some e =>
      right
      simp only [call, hm]
      refine ⟨?_, rfl, ?_, ?_, ?_, ?_⟩
      · simp only [leave]
        rw [first_run_flag I args p.body _ hH.shape (by simp [hU.first]), he]; rfl
      · intro v hv; simp only [leave, hv, Bool.false_eq_true, if_false]; exact hU.locals v hv
      · intro kc hkc
        have hp : persists p kc = true := by simp [persists, hkc]
        simp only [leave, hp, if_true]
        have hr0 := init_const_ref p cd dflt hH.constsRO kc hkc
        rw [hr0]
        exact (exec_consts I args .first (mkCtx p O) k p.body (enter p dflt st args) (chk_wfC _ _ _ _ _ hH.body)
          (fun v r h => hU.origin v r h) kc hkc ⟨.var kc, [], false⟩ rfl (by rw [enter_env, hU.cenv kc hkc, hr0])).1
      · intro kc hkc
        simp only [leave]
        have hr0 := init_const_ref p cd dflt hH.constsRO kc hkc
        rw [(exec_consts I args .first (mkCtx p O) k p.body (enter p dflt st args) (chk_wfC _ _ _ _ _ hH.body)
          (fun v r h => hU.origin v r h) kc hkc ⟨.var kc, [], false⟩ rfl (by rw [enter_env, hU.cenv kc hkc, hr0])).2]
        rw [enter_heap_cached p dflt st args _ (by simp [cachedLoc, hkc])]
        exact hU.cheap kc hkc
      · intro v r hv
        simp only [leave] at hv
        split at hv
        · exact hO' v r hv
        · exact hU.origin v r hv
  · intro r hr
    simp only [call, hm] at hr
    obtain ⟨he, v, hv, hev⟩ := outcome_refs I p _ r hr
    have hret := hH.h3c
    simp only [retOK, List.all_eq_true, Bool.or_eq_true, List.contains_eq_mem, decide_eq_true_eq, Bool.not_eq_true'] at hret
    rcases hret v hv with h | h
    · exact Or.inr (h _ (hO' v r hev))
    · exact exec_safe I args (mkCtx p O) .first p.body p.roconsts _ (safe_entry p O cd dflt hH st hU args) he v h r hev


/-! ## the general history invariant -/

structure GInv (I : Interp D) (p : Prog) (O : Var → List Loc) (cd : Var → D × Bool) (dflt : D) (h : HSt D) : Prop where
  st : CachedS (mkCtx p O) (cacheSt I p cd dflt) h.st ∨ Uncached p O cd dflt h.st
  held : ∀ r ∈ h.held, SafeRef (mkCtx p O) r
  log : ∀ e ∈ h.log, e.2 = fresh I p cd dflt e.1

theorem GInv.origin {I : Interp D} {p : Prog} {O : Var → List Loc} {cd : Var → D × Bool} {dflt : D} {h : HSt D}
    (hI : GInv I p O cd dflt h) : OriginInv O h.st :=
  hI.st.elim (fun hc => hc.1.origin) (fun hu => hu.origin)

theorem gstep_inv (I : Interp D) (p : Prog) (O : Var → List Loc) (cd : Var → D × Bool) (dflt : D) (hH : Hyp p O)
    (hKe : (cacheSt I p cd dflt).err = none) (h : HSt D) (hI : GInv I p O cd dflt h) (e : Event D) :
    GInv I p O cd dflt (step I p dflt h e) := by
  cases e with
  | call args =>
    simp only [step]
    rcases hI.st with hC | hU
    · obtain ⟨h1, h2, h3⟩ := call_rerun_safe I p O cd dflt hH hKe h.st hC args
      refine ⟨Or.inl h2, ?_, ?_⟩
      · intro r hr
        simp only [List.mem_append] at hr
        exact hr.elim (h3 r) (hI.held r)
      · intro e he
        simp only [List.mem_cons] at he
        rcases he with he | he
        · rw [he]; exact h1
        · exact hI.log e he
    · obtain ⟨h1, h2, h3⟩ := call_uncached I p O cd dflt hH hKe h.st hU args
      refine ⟨h2, ?_, ?_⟩
      · intro r hr
        simp only [List.mem_append] at hr
        exact hr.elim (h3 r) (hI.held r)
      · intro e he
        simp only [List.mem_cons] at he
        rcases he with he | he
        · rw [he]; exact h1
        · exact hI.log e he
  | uwrite l d =>
    simp only [step]
    split
    · next hp =>
      have hl : (mkCtx p O).cloc l = false := by
        simp only [permitted, List.any_eq_true, Bool.and_eq_true, decide_eq_true_eq] at hp
        obtain ⟨r, hr, hw, hloc⟩ := hp
        rcases hI.held r hr with h | h
        · rw [hw] at h; cases h
        · rw [← hloc]; exact h
      refine ⟨?_, hI.held, hI.log⟩
      rcases hI.st with hC | hU
      · left
        refine ⟨⟨hC.1.first, hC.1.err, ⟨hC.1.pers.env, ?_⟩, hC.1.origin, hC.1.locals⟩, hC.2⟩
        intro v r hv hl'
        simp only [setHeap_heap, setHeap_env] at hv ⊢
        split
        · next e => rw [e, hl] at hl'; cases hl'
        · exact hC.1.pers.heap v r hv hl'
      · right
        refine ⟨hU.first, hU.err, hU.locals, hU.cenv, ?_, hU.origin⟩
        intro kc hkc
        simp only [setHeap_heap]
        split
        · next e =>
          rw [← e] at hl
          have : kc ∈ (mkCtx p O).consts := hkc
          simp [Ctx.cloc, this] at hl
        · exact hU.cheap kc hkc
    · exact hI

theorem grunHist_inv (I : Interp D) (p : Prog) (O : Var → List Loc) (cd : Var → D × Bool) (dflt : D) (hH : Hyp p O)
    (hKe : (cacheSt I p cd dflt).err = none) : ∀ (es : List (Event D)) (h : HSt D), GInv I p O cd dflt h →
    GInv I p O cd dflt (runHist I p dflt h es)
  | [], h, hI => hI
  | e :: es, h, hI => grunHist_inv I p O cd dflt hH hKe es _ (gstep_inv I p O cd dflt hH hKe h hI e)

theorem start_ginv (I : Interp D) (p : Prog) (O : Var → List Loc) (cd : Var → D × Bool) (dflt : D) (hH : Hyp p O) :
    GInv I p O cd dflt (startH p cd dflt) :=
  ⟨Or.inr (init_uncached p O cd dflt hH), fun r h => by simp [startH] at h, fun e h => by simp [startH] at h⟩

end NutilsVerif.C03
