import NutilsVerif.Proofs.C06Expr
/-!
# C06 — the evaluated value has the announced shape (0-d, or 1-d with the announced — constant or computed — length)
-/
namespace NutilsVerif.C06
open PyNum

theorem mapOpt_length {α β : Type} {f : α → Option β} : ∀ {l : List α} {v : List β}, mapOpt f l = some v → v.length = l.length
  | [], v, h => by simp only [mapOpt, Option.some.injEq] at h; subst h; rfl
  | a :: t, v, h => by
    simp only [mapOpt] at h
    cases hfa : f a with
    | none => simp [hfa] at h
    | some b =>
      cases ht : mapOpt f t with
      | none => simp [hfa, ht] at h
      | some bs =>
        simp only [hfa, ht, Option.some.injEq] at h; subst h
        simp [mapOpt_length ht]

theorem mapOpt_rel {α β γ : Type} {f : α → Option β} {g : α → Option γ} {h : β → γ} (hfg : ∀ x y, f x = some y → g x = some (h y)) :
    ∀ {l : List α} {v : List β}, mapOpt f l = some v → mapOpt g l = some (v.map h)
  | [], v, hv => by simp only [mapOpt, Option.some.injEq] at hv; subst hv; rfl
  | a :: t, v, hv => by
    simp only [mapOpt] at hv
    cases hfa : f a with
    | none => simp [hfa] at hv
    | some b =>
      cases ht : mapOpt f t with
      | none => simp [hfa, ht] at hv
      | some bs =>
        simp only [hfa, ht, Option.some.injEq] at hv; subst hv
        simp only [mapOpt, hfg a b hfa, mapOpt_rel hfg ht, List.map_cons]

theorem zipOp_length {f : Int → Int → Option Int} {a b : Option (List Int)} {v : List Int} (h : zipOp f a b = some v) :
    ∃ va vb, a = some va ∧ b = some vb ∧ v.length = va.length ∧ v.length = vb.length := by
  cases a with
  | none => simp [zipOp] at h
  | some va =>
    cases b with
    | none => simp [zipOp] at h
    | some vb =>
      refine ⟨va, vb, rfl, rfl, ?_⟩
      simp only [zipOp] at h
      split at h
      · rename_i hl
        have := mapOpt_length h
        rw [List.length_zip] at this
        omega
      · simp at h

theorem checkedPart_len {p : Option (List Int)} {k : Option Int} {q : List Int} (h : checkedPart p k = some q) : k = some (q.length : Int) := by
  unfold checkedPart at h
  split at h
  · split at h
    · rename_i hl
      simp only [Option.some.injEq] at h; subst h; rw [hl]
    · simp at h
  · simp at h

theorem flatMap_map_length {α β : Type} (va : List α) (vb : List β) (g : α → β → Int) :
    (va.flatMap fun a => vb.map fun b => g a b).length = va.length * vb.length := by
  induction va with
  | nil => simp
  | cons a t ih => simp only [List.flatMap_cons, List.length_append, List.length_map, ih, List.length_cons]; rw [Nat.add_mul]; omega

theorem offsetsVal_length (sv : List Int) : (offsetsVal sv).length = sv.length + 1 := by
  simp [offsetsVal]

theorem offsetsVal_last (cs : List Int) : (offsetsVal cs)[cs.length]? = some cs.sum := by
  simp [offsetsVal]

theorem sum_replicate_one (k : Nat) : (List.replicate k (1 : Int)).sum = k := by
  induction k with
  | zero => simp
  | succ k ih => simp [List.replicate_succ, ih]; omega

theorem flatten_map_singleton' {α β : Type} (f : α → β) (l : List α) : (l.map fun p => [f p]).flatten = l.map f := by
  induction l with
  | nil => rfl
  | cons a t ih => simp only [List.map_cons, List.flatten_cons, ih, List.singleton_append]

theorem sum_lengths_cast (l : List (List Int)) : (((l.map List.length).sum : Nat) : Int) = (l.map fun p => (p.length : Int)).sum := by
  induction l with
  | nil => rfl
  | cons a t ih => simp only [List.map_cons, List.sum_cons]; push_cast; rw [ih]

/-- the value of `Take(_SizesToOffsets(X), len)` when `X` evaluates to the chunk sizes `cs` and `len` to their number -/
theorem total_length_eval {X N len : Expr} {ρ : Env} {cs : List Int} (hX : eval X ρ = some cs) (hcs : ∀ x ∈ cs, 0 ≤ x)
    (hN : scalarOf (eval N ρ) = some (cs.length : Int)) (hlen : scalarOf (eval len ρ) = some (cs.length : Int)) :
    scalarOf (eval (.take (.sizesToOffsets X N) len) ρ) = some cs.sum := by
  have hall : (cs.all fun x => decide (0 ≤ x)) = true := by
    rw [List.all_eq_true]; intro x hx; simpa using hcs x hx
  have e1 : eval (.sizesToOffsets X N) ρ = some (offsetsVal cs) := by
    simp only [eval, hX, hN, hall, and_self, if_true]
  have e2 : takeVal (offsetsVal cs) (cs.length : Int) = some cs.sum := by
    unfold takeVal
    have h1 : ¬ ((cs.length : Int) < 0) := by omega
    simp only [h1, if_false, offsetsVal_length]
    have h2 : (0 : Int) ≤ cs.length ∧ (cs.length : Int) < ((cs.length + 1 : Nat) : Int) := by omega
    simp only [h2, and_self, if_true, Int.toNat_natCast, offsetsVal_last]
  rw [eval, e1, scalarOf_some hlen]
  simp only [mapOpt, e2, scalarOf]

theorem concatLen_sound {id : Nat} {len body blen : Expr} {ρ : Env} {n : Int} {parts : List (List Int)}
    (hn : scalarOf (eval len ρ) = some n)
    (hp : iterate n (fun i => checkedPart (eval body (ρ.setLoop id i)) (scalarOf (eval blen (ρ.setLoop id i)))) = some parts) :
    scalarOf (eval (concatLen id len blen) ρ) = some (parts.flatten.length : Int) := by
  have hn0 : ¬ n < 0 := by
    intro h; simp [iterate, h] at hp
  have hplen : parts.length = n.toNat := by
    have := hp; simp only [iterate, hn0, if_false] at this
    rw [mapOpt_length this, List.length_range]
  have hnN : ((n.toNat : Nat) : Int) = n := by omega
  -- the chunk sizes
  let sizes : List Int := parts.map fun p => (p.length : Int)
  have hsizes_len : (sizes.length : Int) = n := by simp [sizes, hplen, hnN]
  -- `ONES` evaluates to n
  have hones : scalarOf (eval (.take (.sizesToOffsets (.insertAxis one len) len) len) ρ) = some n := by
    have hX : eval (.insertAxis one len) ρ = some (List.replicate n.toNat 1) := by
      simp [eval, one, hn, hn0]
    have := total_length_eval (X := .insertAxis one len) (N := len) (len := len) hX (by intro x hx; have := List.eq_of_mem_replicate hx; omega)
      (by simpa [hnN] using hn) (by simpa [hnN] using hn)
    rw [this, sum_replicate_one, hnN]
  -- the chunk sizes as an expression
  have hcs : eval (.loopConcat id len (.insertAxis blen one) one) ρ = some sizes := by
    have hiter : iterate n (fun i => checkedPart (eval (.insertAxis blen one) (ρ.setLoop id i)) (scalarOf (eval one (ρ.setLoop id i))))
        = some (parts.map fun p => [(p.length : Int)]) := by
      simp only [iterate, hn0, if_false] at hp ⊢
      refine mapOpt_rel (h := fun p => [(p.length : Int)]) ?_ hp
      intro i p hF
      have hk := checkedPart_len hF
      have hb := scalarOf_some hk
      simp [eval, one, hb, scalarOf, checkedPart]
    rw [eval]
    simp only [hn]
    rw [hiter]
    simp only [sizes, flatten_map_singleton']
  have := total_length_eval (X := .loopConcat id len (.insertAxis blen one) one)
    (N := .take (.sizesToOffsets (.insertAxis one len) len) len) (len := len) hcs
    (by intro x hx; simp only [sizes, List.mem_map] at hx; obtain ⟨p, _, rfl⟩ := hx; omega)
    (by rw [hsizes_len]; exact hones) (by rw [hsizes_len]; exact hn)
  unfold concatLen
  rw [this]
  congr 1
  simp only [sizes, List.length_flatten, sum_lengths_cast]


/-- the induction hypothesis -/
abbrev LH (a : Expr) : Prop := WF a → ∀ (ρ : Env) (v : List Int), eval a ρ = some v → LenOK a ρ v

theorem lenOK_of_eq {a b : Expr} (h : lenOf a = lenOf b) {ρ : Env} {v w : List Int} (hl : v.length = w.length) (hb : LenOK b ρ w) : LenOK a ρ v := by
  unfold LenOK at hb ⊢
  rw [h, hl]; exact hb

theorem len_unary {a e : Expr} (ih : LH a) (hwf : WF a) (hlen : lenOf e = lenOf a) {g : Int → Int} {ρ : Env} {v : List Int}
    (h : (eval a ρ).map (fun l => l.map g) = some v) : LenOK e ρ v := by
  cases ha : eval a ρ with
  | none => simp [ha] at h
  | some va =>
    simp only [ha, Option.map_some, Option.some.injEq] at h; subst h
    exact lenOK_of_eq hlen (by simp) (ih hwf ρ va ha)

theorem len_binary_left {a b e : Expr} (ih : LH a) (hwf : WF a) (hlen : lenOf e = lenOf a) {f : Int → Int → Option Int} {ρ : Env} {v : List Int}
    (h : zipOp f (eval a ρ) (eval b ρ) = some v) : LenOK e ρ v := by
  obtain ⟨va, vb, ha, _, hl, _⟩ := zipOp_length h
  exact lenOK_of_eq hlen hl (ih hwf ρ va ha)

theorem len_sound (e : Expr) : LH e := by
  induction e with
  | const s vals =>
    intro hwf ρ v h
    simp only [eval, Option.some.injEq] at h; subst h
    unfold LenOK; simp only [lenOf]
    cases s with
    | true => simpa using hwf rfl
    | false => simp [eval, scalarOf]
  | argS name lo hi =>
    intro _ ρ v h
    simp only [eval] at h
    split at h
    · rename_i hc
      simp only [Option.some.injEq] at h; subst h
      unfold LenOK; simp only [lenOf]; exact hc.1
    · simp at h
  | argV name lo hi len _ =>
    intro _ ρ v h
    simp only [eval] at h
    split at h
    · rename_i n hn
      split at h
      · rename_i hc
        simp only [Option.some.injEq] at h; subst h
        unfold LenOK; simp only [lenOf]; rw [hn, hc.1]
      · simp at h
    · simp at h
  | loopIndex id len _ =>
    intro _ ρ v h
    simp only [eval] at h
    split at h
    · split at h
      · simp only [Option.some.injEq] at h; subst h
        unfold LenOK; simp [lenOf]
      · simp at h
    · simp at h
  | neg a ih =>
    intro hwf ρ v h
    exact len_unary ih hwf rfl (by simpa only [eval] using h)
  | abs a ih =>
    intro hwf ρ v h
    exact len_unary ih hwf rfl (by simpa only [eval] using h)
  | sign a ih =>
    intro hwf ρ v h
    exact len_unary ih hwf rfl (by simpa only [eval] using h)
  | add a b iha _ =>
    intro hwf ρ v h
    exact len_binary_left iha hwf.1 rfl (by simpa only [eval] using h)
  | mul a b iha _ =>
    intro hwf ρ v h
    exact len_binary_left iha hwf.1 rfl (by simpa only [eval] using h)
  | floordiv a b iha _ =>
    intro hwf ρ v h
    exact len_binary_left iha hwf.1 rfl (by simpa only [eval] using h)
  | mod a b iha _ =>
    intro hwf ρ v h
    exact len_binary_left iha hwf.1 rfl (by simpa only [eval] using h)
  | min a b iha _ =>
    intro hwf ρ v h
    exact len_binary_left iha hwf.1 rfl (by simpa only [eval] using h)
  | max a b iha _ =>
    intro hwf ρ v h
    exact len_binary_left iha hwf.1 rfl (by simpa only [eval] using h)
  | inRange idx len ihi _ =>
    intro hwf ρ v h
    simp only [eval] at h
    split at h
    · rename_i iv n hiv hn
      split at h
      · simp only [Option.some.injEq] at h; subst h
        exact lenOK_of_eq (b := idx) rfl rfl (ihi hwf.1 ρ iv hiv)
      · simp at h
    · simp at h
  | normDim len idx _ ihi =>
    intro hwf ρ v h
    simp only [eval] at h
    obtain ⟨va, vb, _, hb, _, hl⟩ := zipOp_length h
    exact lenOK_of_eq (b := idx) rfl hl (ihi hwf.2 ρ vb hb)
  | ravelIndex ia ib nb iha ihb _ =>
    intro hwf ρ v h
    simp only [eval] at h
    split at h
    · rename_i va vb n hva hvb hn
      split at h
      · simp only [Option.some.injEq] at h; subst h
        have hA := iha hwf.1 ρ va hva
        have hB := ihb hwf.2.1 ρ vb hvb
        have hlen := flatMap_map_length va vb (fun a b => ravelIndexVal a b n)
        unfold LenOK at hA hB ⊢
        simp only [lenOf]
        cases hla : lenOf ia with
        | none =>
          rw [hla] at hA
          simp only at hA ⊢
          rw [hlen, hA, Nat.one_mul]; exact hB
        | some l =>
          rw [hla] at hA
          have hlb : lenOf ib = none := by
            rcases hwf.2.2.2 with h1 | h1
            · rw [hla] at h1; cases h1
            · exact h1
          rw [hlb] at hB
          simp only at hA hB ⊢
          rw [hlen, hB, Nat.mul_one]; exact hA
      · simp at h
    · simp at h
  | range n _ =>
    intro _ ρ v h
    simp only [eval] at h
    split at h
    · rename_i k hk
      split at h
      · simp at h
      · rename_i hk0
        simp only [Option.some.injEq] at h; subst h
        unfold LenOK; simp only [lenOf, List.length_map, List.length_range]
        rw [hk]; congr 1; omega
    · simp at h
  | insertAxis a n iha _ =>
    intro hwf ρ v h
    simp only [eval] at h
    split at h
    · rename_i va k hva hk
      split at h
      · simp at h
      · rename_i hk0
        simp only [Option.some.injEq] at h; subst h
        have hA := iha hwf.1 ρ va hva
        unfold LenOK at hA ⊢
        rw [hwf.2.2] at hA
        simp only at hA
        simp only [lenOf]
        match va, hA with
        | [x], _ =>
          simp only [List.flatMap_cons, List.flatMap_nil, List.append_nil, List.length_replicate]
          rw [hk]; congr 1; omega
    · simp at h
  | take f idx _ ihi =>
    intro hwf ρ v h
    simp only [eval] at h
    split at h
    · rename_i fv iv hfv hiv
      exact lenOK_of_eq (b := idx) rfl (mapOpt_length h) (ihi hwf.2 ρ iv hiv)
    · simp at h
  | sum f n _ _ =>
    intro _ ρ v h
    simp only [eval] at h
    split at h
    · split at h
      · simp only [Option.some.injEq] at h; subst h
        unfold LenOK; simp [lenOf]
      · simp at h
    · simp at h
  | sizesToOffsets s n _ _ =>
    intro _ ρ v h
    simp only [eval] at h
    split at h
    · rename_i sv k hsv hk
      split at h
      · rename_i hc
        simp only [Option.some.injEq] at h; subst h
        unfold LenOK; simp only [lenOf]
        rw [eval, scalarOf_some hk]
        simp [one, eval, zipOp, mapOpt, scalarOf, offsetsVal_length, hc.1]
      · simp at h
    · simp at h
  | loopSum id len body _ _ =>
    intro _ ρ v h
    simp only [eval] at h
    split at h
    · split at h
      · simp only [Option.some.injEq] at h; subst h
        unfold LenOK; simp [lenOf]
      · simp at h
    · simp at h
  | loopConcat id len body blen _ _ _ =>
    intro _ ρ v h
    simp only [eval] at h
    split at h
    · rename_i n hn
      split at h
      · rename_i parts hp
        simp only [Option.some.injEq] at h; subst h
        unfold LenOK; simp only [lenOf]
        exact concatLen_sound hn hp
      · simp at h
    · simp at h

end NutilsVerif.C06
