import NutilsVerif.Proofs.C13Subst
import Mathlib.Analysis.Calculus.Deriv.Mul
import Mathlib.Analysis.Calculus.Deriv.Add
import Mathlib.Tactic.Ring
/-!
# C13 (c): `linearize` is the directional derivative (polynomial fragment)
-/
namespace NutilsVerif.C13
namespace Expr
variable {V : Type}

section ring
variable {R : Type} [CommRing R]

/-- the directional derivative of `e` at `ρ` in direction `d`, by the rules of calculus -/
def dirDeriv (I : String → List R → R) (ρ d : V → R) : Expr V → R
  | var y => d y
  | const _ => 0
  | add a b => dirDeriv I ρ d a + dirDeriv I ρ d b
  | mul a b => dirDeriv I ρ d a * eval I ρ b + eval I ρ a * dirDeriv I ρ d b
  | neg a => - dirDeriv I ρ d a
  | app _ _ => 0

/-- the direction that `linearize(f, pairs)` differentiates in: argument `x` moves along the value of its partner -/
def direction [DecidableEq V] (ρ : V → R) : List (V × V) → V → R
  | [], _ => 0
  | (x, v) :: rest, y => (if y = x then ρ v else 0) + direction ρ rest y

theorem eval_sumList (I : String → List R → R) (ρ : V → R) (l : List (Expr V)) :
    eval I ρ (sumList l) = (l.map (eval I ρ)).sum := by
  induction l with
  | nil => simp [sumList, eval]
  | cons a t ih => simp [sumList, eval, ih]

theorem eval_linearize [DecidableEq V] (I : String → List R → R) (ρ : V → R) (pairs : List (V × V)) (e : Expr V) :
    eval I ρ (linearize pairs e) = (pairs.map fun p => eval I ρ (deriv p.1 e) * ρ p.2).sum := by
  simp only [linearize, eval_sumList, List.map_map]
  congr 1
  exact List.map_congr_left fun p _ => by simp [eval]

/-- contraction of the partial derivatives with a direction = the directional derivative -/
theorem sum_deriv_eq_dirDeriv [DecidableEq V] (I : String → List R → R) (ρ : V → R) (pairs : List (V × V)) (e : Expr V) :
    (pairs.map fun p => eval I ρ (deriv p.1 e) * ρ p.2).sum = dirDeriv I ρ (direction ρ pairs) e := by
  induction pairs with
  | nil =>
    simp only [List.map_nil, List.sum_nil]
    induction e using Expr.ind with
    | hvar x => simp [dirDeriv, direction]
    | hconst c => simp [dirDeriv]
    | hadd a b ha hb => simp [dirDeriv, ← ha, ← hb]
    | hmul a b ha hb => simp [dirDeriv, ← ha, ← hb]
    | hneg a ha => simp [dirDeriv, ← ha]
    | happ f args _ => simp [dirDeriv]
  | cons p rest ih =>
    obtain ⟨x, v⟩ := p
    simp only [List.map_cons, List.sum_cons, ih]
    clear ih
    induction e using Expr.ind with
    | hvar y =>
      simp only [deriv, dirDeriv, direction]
      by_cases h : y = x <;> simp [h, eval]
    | hconst c => simp [deriv, dirDeriv, eval]
    | hadd a b ha hb =>
      simp only [deriv, dirDeriv, eval] at ha hb ⊢
      rw [← ha, ← hb]; ring
    | hmul a b ha hb =>
      simp only [deriv, dirDeriv, eval] at ha hb ⊢
      rw [← ha, ← hb]; ring
    | hneg a ha =>
      simp only [deriv, dirDeriv, eval] at ha ⊢
      rw [← ha]; ring
    | happ f args _ => simp [deriv, dirDeriv, eval]

/-- first-order expansion: the value along the line `ρ + t·d` is `f(ρ) + t·Df(ρ)[d] + t²·(…)` -/
theorem eval_line_expansion (I : String → List R → R) (ρ d : V → R) (e : Expr V) (hp : isPoly e = true) :
    ∀ t : R, ∃ r : R, eval I (fun y => ρ y + t * d y) e = eval I ρ e + t * dirDeriv I ρ d e + t * t * r := by
  intro t
  induction e using Expr.ind with
  | hvar x => exact ⟨0, by simp [eval, dirDeriv]⟩
  | hconst c => exact ⟨0, by simp [eval, dirDeriv]⟩
  | hadd a b ha hb =>
    simp only [isPoly, Bool.and_eq_true] at hp
    obtain ⟨ra, ha⟩ := ha hp.1; obtain ⟨rb, hb⟩ := hb hp.2
    exact ⟨ra + rb, by simp only [eval, dirDeriv, ha, hb]; ring⟩
  | hmul a b ha hb =>
    simp only [isPoly, Bool.and_eq_true] at hp
    obtain ⟨ra, ha⟩ := ha hp.1; obtain ⟨rb, hb⟩ := hb hp.2
    refine ⟨eval I ρ a * rb + ra * eval I ρ b + dirDeriv I ρ d a * dirDeriv I ρ d b
      + t * (dirDeriv I ρ d a * rb + ra * dirDeriv I ρ d b) + t * t * (ra * rb), ?_⟩
    simp only [eval, dirDeriv, ha, hb]; ring
  | hneg a ha =>
    simp only [isPoly] at hp
    obtain ⟨ra, ha⟩ := ha hp
    exact ⟨-ra, by simp only [eval, dirDeriv, ha]; ring⟩
  | happ f args _ => simp [isPoly] at hp

end ring

/-- over the reals: `t ↦ f(ρ + t·d)` is differentiable at every `t` with derivative `Df(ρ + t·d)[d]` -/
theorem hasDerivAt_line (I : String → List ℝ → ℝ) (ρ d : V → ℝ) (e : Expr V) (hp : isPoly e = true) (t : ℝ) :
    HasDerivAt (fun s : ℝ => eval I (fun y => ρ y + s * d y) e)
      (dirDeriv I (fun y => ρ y + t * d y) d e) t := by
  induction e using Expr.ind with
  | hvar x =>
    simp only [eval, dirDeriv]
    simpa using ((hasDerivAt_id t).mul_const (d x)).const_add (ρ x)
  | hconst c => simpa [eval, dirDeriv] using hasDerivAt_const t ((c : ℤ) : ℝ)
  | hadd a b ha hb =>
    simp only [isPoly, Bool.and_eq_true] at hp
    simp only [eval, dirDeriv]
    exact (ha hp.1).add (hb hp.2)
  | hmul a b ha hb =>
    simp only [isPoly, Bool.and_eq_true] at hp
    simp only [eval, dirDeriv]
    exact (ha hp.1).mul (hb hp.2)
  | hneg a ha =>
    simp only [isPoly] at hp
    simp only [eval, dirDeriv]
    exact (ha hp).neg
  | happ f args _ => simp [isPoly] at hp

/-- tensor pairs: the direction of `linearize(f, 'u:v')` moves *every* entry `u[i]` along `v[i]` and nothing else -/
theorem direction_entries {R : Type} [CommRing R] (ρ : String × Nat → R) (u v : String) (l : List Nat) (hnd : l.Nodup)
    (y : String × Nat) :
    direction ρ (l.map fun i => ((u, i), (v, i))) y = if y.1 = u ∧ y.2 ∈ l then ρ (v, y.2) else 0 := by
  induction l with
  | nil => simp [direction]
  | cons a t ih =>
    rw [List.nodup_cons] at hnd
    simp only [List.map_cons, direction, ih hnd.2]
    obtain ⟨x, j⟩ := y
    by_cases hx : x = u
    · subst hx
      by_cases hj : j = a
      · subst hj; simp [hnd.1]
      · simp [hj]
    · simp [hx]

theorem direction_expandPair {R : Type} [CommRing R] (ρ : String × Nat → R) (u v : String) (n : Nat) (y : String × Nat) :
    direction ρ (expandPair u v n) y = if y.1 = u ∧ y.2 < n then ρ (v, y.2) else 0 := by
  unfold expandPair
  rw [direction_entries ρ u v (List.range n) List.nodup_range y]
  simp [List.mem_range]

end Expr
end NutilsVerif.C13
