import NutilsVerif.Model.C01Driver
/-!
# C01 (driver) — lemmas: the stack machine refines the recursive specification `simp`

* facts about the specification (`simp` is monotone in its fuel, deterministic; results are hereditarily
  normal and semantically equal to the input; termination under a measure);
* the refinement invariant: every reachable machine state is the image of a *continuation* (`Ctx`) of the
  recursive specification (`Shape`), and every memo entry is a result of the specification (`MemoValid`);
* the forward simulation: whenever the specification has a result, the machine reaches it.
-/
namespace NutilsVerif.C01Driver

/-! ## lists -/

/-- pointwise relation between two lists (own copy: the model side stays Mathlib-free) -/
inductive Forall₂ {α β : Type} (R : α → β → Prop) : List α → List β → Prop where
  | nil : Forall₂ R [] []
  | cons {a b as bs} : R a b → Forall₂ R as bs → Forall₂ R (a :: as) (b :: bs)

theorem forall₂_length {α β : Type} {R : α → β → Prop} : ∀ {as : List α} {bs : List β}, Forall₂ R as bs → as.length = bs.length
  | _, _, .nil => rfl
  | _, _, .cons _ h => by simp [forall₂_length h]

theorem forall₂_imp {α β : Type} {R S : α → β → Prop} (h : ∀ a b, R a b → S a b) :
    ∀ {as : List α} {bs : List β}, Forall₂ R as bs → Forall₂ S as bs
  | _, _, .nil => .nil
  | _, _, .cons h1 h2 => .cons (h _ _ h1) (forall₂_imp h h2)

theorem forall₂_mem_right {α β : Type} {R : α → β → Prop} :
    ∀ {as : List α} {bs : List β}, Forall₂ R as bs → ∀ b ∈ bs, ∃ a ∈ as, R a b
  | _, _, .nil, b, hb => by cases hb
  | _, _, .cons (a := a) h1 h2, b, hb => by
    rcases List.mem_cons.1 hb with rfl | hb
    · exact ⟨a, List.mem_cons_self, h1⟩
    · obtain ⟨a', ha', hr⟩ := forall₂_mem_right h2 b hb
      exact ⟨a', List.mem_cons_of_mem _ ha', hr⟩

theorem forall₂_mem_left {α β : Type} {R : α → β → Prop} :
    ∀ {as : List α} {bs : List β}, Forall₂ R as bs → ∀ a ∈ as, ∃ b ∈ bs, R a b
  | _, _, .nil, a, ha => by cases ha
  | _, _, .cons (b := b) h1 h2, a, ha => by
    rcases List.mem_cons.1 ha with rfl | ha
    · exact ⟨b, List.mem_cons_self, h1⟩
    · obtain ⟨b', hb', hr⟩ := forall₂_mem_left h2 a ha
      exact ⟨b', List.mem_cons_of_mem _ hb', hr⟩

theorem forall₂_reverse {α β : Type} {R : α → β → Prop} {as : List α} {bs : List β} (h : Forall₂ R as bs) :
    Forall₂ R as.reverse bs.reverse := by
  have aux : ∀ {as : List α} {bs : List β}, Forall₂ R as bs → ∀ {cs ds}, Forall₂ R cs ds →
      Forall₂ R (as.reverse ++ cs) (bs.reverse ++ ds) := by
    intro as bs h
    induction h with
    | nil => intro cs ds h'; simpa using h'
    | cons h1 _ ih => intro cs ds h'; simpa using ih (.cons h1 h')
  simpa using aux h .nil

theorem forall₂_unique {α β : Type} {R : α → β → Prop} (hu : ∀ a b b', R a b → R a b' → b = b') :
    ∀ {as : List α} {bs bs' : List β}, Forall₂ R as bs → Forall₂ R as bs' → bs = bs'
  | _, _, _, .nil, .nil => rfl
  | _, _, _, .cons h1 h2, .cons h1' h2' => by rw [hu _ _ _ h1 h1', forall₂_unique hu h2 h2']

/-! ## the specification -/

theorem optMap_some {g : Term → Option Term} : ∀ {as bs}, optMap g as = some bs → Forall₂ (fun a b => g a = some b) as bs
  | [], bs, h => by simp [optMap] at h; subst h; exact .nil
  | a :: as, bs, h => by
    simp only [optMap] at h
    split at h
    · rename_i b bs' hb hbs
      cases h
      exact .cons hb (optMap_some hbs)
    · cases h

theorem optMap_of_forall₂ {g : Term → Option Term} : ∀ {as bs}, Forall₂ (fun a b => g a = some b) as bs → optMap g as = some bs
  | _, _, .nil => rfl
  | _, _, .cons h1 h2 => by simp [optMap, h1, optMap_of_forall₂ h2]

theorem optMap_mono {g g' : Term → Option Term} {as bs} (h : ∀ a b, a ∈ as → g a = some b → g' a = some b)
    (hs : optMap g as = some bs) : optMap g' as = some bs := by
  have := optMap_some hs
  apply optMap_of_forall₂
  clear hs
  induction this with
  | nil => exact .nil
  | cons h1 _ ih =>
    exact .cons (h _ _ List.mem_cons_self h1) (ih fun a b ha => h a b (List.mem_cons_of_mem _ ha))

theorem simp_node (f : Term → Term) (n l args) :
    simp f (n+1) (.node l args) = match optMap (simp f n) args with
      | none => none
      | some args' => if f (.node l args') = .node l args' then some (.node l args') else simp f n (f (.node l args')) := rfl

/-- unfolding of a successful `simp` -/
theorem simp_some_iff {f : Term → Term} {n l args r} :
    simp f (n+1) (.node l args) = some r ↔
      ∃ args', optMap (simp f n) args = some args' ∧
        ((f (.node l args') = .node l args' ∧ r = .node l args') ∨
         (f (.node l args') ≠ .node l args' ∧ simp f n (f (.node l args')) = some r)) := by
  rw [simp_node]
  constructor
  · intro h
    split at h
    · cases h
    · rename_i args' h'
      refine ⟨args', h', ?_⟩
      split at h
      · left; cases h; exact ⟨by assumption, rfl⟩
      · right; exact ⟨by assumption, h⟩
  · rintro ⟨args', h', h | h⟩
    · simp [h', h.1, h.2]
    · simp [h', h.1, h.2]

theorem simp_succ (f : Term → Term) : ∀ n t r, simp f n t = some r → simp f (n+1) t = some r := by
  intro n
  induction n with
  | zero => intro t r h; simp [simp] at h
  | succ n ih =>
    intro t r h
    cases t with
    | node l args =>
      obtain ⟨args', h1, h2⟩ := simp_some_iff.1 h
      refine simp_some_iff.2 ⟨args', optMap_mono (fun a b _ => ih a b) h1, ?_⟩
      rcases h2 with h2 | h2
      · exact .inl h2
      · exact .inr ⟨h2.1, ih _ _ h2.2⟩

theorem simp_mono (f : Term → Term) {n m t r} (h : simp f n t = some r) (hnm : n ≤ m) : simp f m t = some r := by
  induction hnm with
  | refl => exact h
  | step _ ih => exact simp_succ f _ _ _ ih

theorem simp_unique (f : Term → Term) {n m t r r'} (h : simp f n t = some r) (h' : simp f m t = some r') : r = r' := by
  have h1 := simp_mono f h (Nat.le_max_left n m)
  have h2 := simp_mono f h' (Nat.le_max_right n m)
  rw [h1] at h2
  exact Option.some.inj h2

theorem simp_none_of_le (f : Term → Term) {n m t} (h : simp f m t = none) (hnm : n ≤ m) : simp f n t = none := by
  cases h' : simp f n t with
  | none => rfl
  | some r => rw [simp_mono f h' hnm] at h; cases h

/-- `Res f t r`: the recursive specification terminates on `t` with result `r` -/
def Res (f : Term → Term) (t r : Term) : Prop := ∃ n, simp f n t = some r

/-- the recursive specification does not terminate on `t` -/
def Diverges (f : Term → Term) (t : Term) : Prop := ∀ n, simp f n t = none

theorem res_unique {f : Term → Term} {t r r'} : Res f t r → Res f t r' → r = r'
  | ⟨_, h⟩, ⟨_, h'⟩ => simp_unique f h h'

theorem not_res_of_diverges {f : Term → Term} {t r} (hd : Diverges f t) : ¬ Res f t r := by
  rintro ⟨n, h⟩; rw [hd n] at h; cases h

theorem forall₂_res_fuel {f : Term → Term} : ∀ {as bs}, Forall₂ (Res f) as bs →
    ∃ n, ∀ m, n ≤ m → optMap (simp f m) as = some bs
  | _, _, .nil => ⟨0, fun _ _ => rfl⟩
  | _, _, .cons (a := a) (b := b) ⟨n1, h1⟩ h2 => by
    obtain ⟨n2, h2⟩ := forall₂_res_fuel h2
    refine ⟨max n1 n2, fun m hm => ?_⟩
    have e1 : simp f m a = some b := simp_mono f h1 (by omega)
    have e2 := h2 m (by omega)
    simp [optMap, e1, e2]

theorem res_keep {f : Term → Term} {l args args'} (h : Forall₂ (Res f) args args')
    (hf : f (.node l args') = .node l args') : Res f (.node l args) (.node l args') := by
  obtain ⟨n, hn⟩ := forall₂_res_fuel h
  exact ⟨n+1, simp_some_iff.2 ⟨args', hn n (Nat.le_refl _), .inl ⟨hf, rfl⟩⟩⟩

theorem res_rew {f : Term → Term} {l args args' r} (h : Forall₂ (Res f) args args')
    (hf : f (.node l args') ≠ .node l args') (hr : Res f (f (.node l args')) r) : Res f (.node l args) r := by
  obtain ⟨n, hn⟩ := forall₂_res_fuel h
  obtain ⟨k, hk⟩ := hr
  exact ⟨max n k + 1, simp_some_iff.2 ⟨args', hn _ (Nat.le_max_left _ _), .inr ⟨hf, simp_mono f hk (Nat.le_max_right _ _)⟩⟩⟩

/-- inversion of `Res` -/
theorem res_inv {f : Term → Term} {l args r} (h : Res f (.node l args) r) :
    ∃ args', Forall₂ (Res f) args args' ∧
      ((f (.node l args') = .node l args' ∧ r = .node l args') ∨
       (f (.node l args') ≠ .node l args' ∧ Res f (f (.node l args')) r)) := by
  obtain ⟨n, hn⟩ := h
  cases n with
  | zero => simp [simp] at hn
  | succ n =>
    obtain ⟨args', h1, h2⟩ := simp_some_iff.1 hn
    refine ⟨args', forall₂_imp (fun a b hab => ⟨n, hab⟩) (optMap_some h1), ?_⟩
    rcases h2 with h2 | h2
    · exact .inl h2
    · exact .inr ⟨h2.1, n, h2.2⟩

/-! ### semantic soundness of the specification -/

theorem simp_sem {Val : Type} (f : Term → Term) (sem : Term → Val)
    (hf : ∀ t, sem (f t) = sem t)
    (hcomp : ∀ l as bs, as.map sem = bs.map sem → sem (.node l as) = sem (.node l bs)) :
    ∀ n t r, simp f n t = some r → sem r = sem t := by
  intro n
  induction n with
  | zero => intro t r h; simp [simp] at h
  | succ n ih =>
    intro t r h
    cases t with
    | node l args =>
      obtain ⟨args', h1, h2⟩ := simp_some_iff.1 h
      have hargs : args'.map sem = args.map sem := by
        have := optMap_some h1
        clear h1 h2 h
        induction this with
        | nil => rfl
        | cons h1 _ ih' => simp [ih _ _ h1, ih']
      have hu : sem (.node l args') = sem (.node l args) := hcomp _ _ _ hargs
      rcases h2 with ⟨_, rfl⟩ | ⟨_, h2⟩
      · exact hu
      · rw [ih _ _ h2, hf, hu]

theorem res_sem {Val : Type} {f : Term → Term} (sem : Term → Val)
    (hf : ∀ t, sem (f t) = sem t)
    (hcomp : ∀ l as bs, as.map sem = bs.map sem → sem (.node l as) = sem (.node l bs))
    {t r} (h : Res f t r) : sem r = sem t := by
  obtain ⟨n, hn⟩ := h
  exact simp_sem f sem hf hcomp n t r hn

/-! ### results are hereditarily normal -/

/-- `f` is the identity on `t` and on every subterm of `t` -/
inductive HNormal (f : Term → Term) : Term → Prop where
  | mk {l args} : (∀ a, a ∈ args → HNormal f a) → f (.node l args) = .node l args → HNormal f (.node l args)

theorem HNormal.root {f : Term → Term} {t} : HNormal f t → f t = t
  | .mk _ h => h

theorem HNormal.child {f : Term → Term} {l args a} : HNormal f (.node l args) → a ∈ args → HNormal f a
  | .mk h _, ha => h a ha

theorem simp_hnormal (f : Term → Term) : ∀ n t r, simp f n t = some r → HNormal f r := by
  intro n
  induction n with
  | zero => intro t r h; simp [simp] at h
  | succ n ih =>
    intro t r h
    cases t with
    | node l args =>
      obtain ⟨args', h1, h2⟩ := simp_some_iff.1 h
      rcases h2 with ⟨hf, rfl⟩ | ⟨_, h2⟩
      · refine .mk (fun a ha => ?_) hf
        obtain ⟨a0, _, h0⟩ := forall₂_mem_right (optMap_some h1) a ha
        exact ih _ _ h0
      · exact ih _ _ h2

/-- a hereditarily normal term is its own result -/
theorem res_self_of_hnormal {f : Term → Term} : ∀ {t}, HNormal f t → Res f t t
  | .node l args, h => by
    have hall : ∀ a, a ∈ args → Res f a a := fun a ha => res_self_of_hnormal (h.child ha)
    have : Forall₂ (Res f) args args := by
      clear h
      induction args with
      | nil => exact .nil
      | cons a as ih => exact .cons (hall a List.mem_cons_self) (ih fun b hb => hall b (List.mem_cons_of_mem _ hb))
    exact res_keep this h.root
termination_by t => sizeOf t
decreasing_by
  have := List.sizeOf_lt_of_mem ha
  simp only [Term.node.sizeOf_spec]
  omega

/-! ### dependency steps, cycles and divergence -/

/-- one dependency step of the recursion: to a child, or to the rewrite of the node rebuilt from its simplified
children -/
inductive Dep (f : Term → Term) : Term → Term → Prop where
  | child {l args c} : c ∈ args → Dep f (.node l args) c
  | rew {l args args'} : Forall₂ (Res f) args args' → f (.node l args') ≠ .node l args' →
      Dep f (.node l args) (f (.node l args'))

/-- nonempty chain of dependency steps -/
inductive Path (f : Term → Term) : Term → Term → Prop where
  | single {a b} : Dep f a b → Path f a b
  | cons {a b c} : Dep f a b → Path f b c → Path f a c

theorem Path.snoc {f : Term → Term} {a b c} (h : Path f a b) (d : Dep f b c) : Path f a c := by
  induction h with
  | single d' => exact .cons d' (.single d)
  | cons d' _ ih => exact .cons d' (ih d)

/-- evaluating `a` with fuel `n` requires evaluating `b` with strictly less fuel -/
def Needs (f : Term → Term) (a b : Term) : Prop :=
  ∀ n r, simp f n a = some r → ∃ m, m < n ∧ ∃ r', simp f m b = some r'

theorem dep_needs {f : Term → Term} {a b} (d : Dep f a b) : Needs f a b := by
  intro n r h
  cases d with
  | child hc =>
    cases n with
    | zero => simp [simp] at h
    | succ n =>
      obtain ⟨args', h1, _⟩ := simp_some_iff.1 h
      obtain ⟨b', _, hb⟩ := forall₂_mem_left (optMap_some h1) _ hc
      exact ⟨n, Nat.lt_succ_self n, b', hb⟩
  | rew hres hne =>
    cases n with
    | zero => simp [simp] at h
    | succ n =>
      obtain ⟨args'', h1, h2⟩ := simp_some_iff.1 h
      have h1' : Forall₂ (Res f) _ args'' := forall₂_imp (fun a b hab => (⟨n, hab⟩ : Res f a b)) (optMap_some h1)
      have : args'' = _ := forall₂_unique (R := Res f) (fun _ _ _ => res_unique) h1' hres
      subst this
      rcases h2 with ⟨h2, _⟩ | ⟨_, h2⟩
      · exact absurd h2 hne
      · exact ⟨n, Nat.lt_succ_self n, r, h2⟩

theorem path_needs {f : Term → Term} {a b} (p : Path f a b) : Needs f a b := by
  induction p with
  | single d => exact dep_needs d
  | cons d _ ih =>
    intro n r h
    obtain ⟨m, hm, r', h'⟩ := dep_needs d n r h
    obtain ⟨k, hk, r'', h''⟩ := ih m r' h'
    exact ⟨k, by omega, r'', h''⟩

theorem diverges_of_needs_self {f : Term → Term} {x} (h : Needs f x x) : Diverges f x := by
  intro n
  induction n using Nat.strongRecOn with
  | ind n ih =>
    cases hs : simp f n x with
    | none => rfl
    | some r =>
      obtain ⟨m, hm, r', h'⟩ := h n r hs
      rw [ih m hm] at h'; cases h'

theorem diverges_of_needs {f : Term → Term} {a b} (h : Needs f a b) (hb : Diverges f b) : Diverges f a := by
  intro n
  cases hs : simp f n a with
  | none => rfl
  | some r =>
    obtain ⟨m, _, r', h'⟩ := h n r hs
    rw [hb m] at h'; cases h'

/-! ### termination of the specification under a measure -/

theorem res_of_measure (f : Term → Term) (μ : Term → Nat)
    (hdec : ∀ t, f t ≠ t → μ (f t) < μ t)
    (hsub : ∀ l args c, c ∈ args → μ c ≤ μ (.node l args))
    (hmono : ∀ l as bs, Forall₂ (fun a b => μ b ≤ μ a) as bs → μ (.node l bs) ≤ μ (.node l as)) :
    ∀ t, ∃ r, Res f t r ∧ μ r ≤ μ t := by
  have main : ∀ m s t, μ t ≤ m → sizeOf t ≤ s → ∃ r, Res f t r ∧ μ r ≤ μ t := by
    intro m
    induction m using Nat.strongRecOn with
    | ind m ihm =>
      intro s
      induction s with
      | zero =>
        intro t _ hs
        cases t with
        | node l args => simp only [Term.node.sizeOf_spec] at hs; omega
      | succ s ihs =>
        intro t hm hs
        cases t with
        | node l args =>
          have hch : ∀ c, c ∈ args → ∃ r, Res f c r ∧ μ r ≤ μ c := by
            intro c hc
            apply ihs c (Nat.le_trans (hsub l args c hc) hm)
            have := List.sizeOf_lt_of_mem hc
            simp only [Term.node.sizeOf_spec] at hs
            omega
          have hargs : ∃ args', Forall₂ (Res f) args args' ∧ Forall₂ (fun a b => μ b ≤ μ a) args args' := by
            clear hs hm
            induction args with
            | nil => exact ⟨[], .nil, .nil⟩
            | cons a as ih =>
              obtain ⟨r, hr, hμ⟩ := hch a List.mem_cons_self
              obtain ⟨rs, hrs, hμs⟩ := ih (fun c hc => hch c (List.mem_cons_of_mem _ hc))
              exact ⟨r :: rs, .cons hr hrs, .cons hμ hμs⟩
          obtain ⟨args', hres, hμ⟩ := hargs
          have hu : μ (.node l args') ≤ μ (.node l args) := hmono l args args' hμ
          by_cases hf : f (.node l args') = .node l args'
          · exact ⟨_, res_keep hres hf, hu⟩
          · have hlt := hdec _ hf
            obtain ⟨r, hr, hμr⟩ := ihm (μ (f (.node l args'))) (by omega) (sizeOf (f (.node l args'))) _
              (Nat.le_refl _) (Nat.le_refl _)
            exact ⟨r, res_rew hres hf hr, by omega⟩
  intro t
  exact main (μ t) (sizeOf t) t (Nat.le_refl _) (Nat.le_refl _)

end NutilsVerif.C01Driver
