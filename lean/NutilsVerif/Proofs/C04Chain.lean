import NutilsVerif.Proofs.C04Tables
import NutilsVerif.Proofs.C04Link
/-!
# C04 — from the rule table to the derivative of a function atom

`SE.toPoly` (the rule written in the carrier) evaluates to `SE.sem` (the rule over ℝ) under every interpretation that
models the atom layer (`AppModel`), and a unary function atom `f(k)` whose argument moves differentiably moves with the
derivative `rule(f)(q) · q'` — the step `datom` performs.
-/
noncomputable section
namespace NutilsVerif.C04
open NutilsVerif Real

/-- `ρ` is a model of the atom layer: whatever `Poly.app` returns (a folded constant, a polynomial power, or an
uninterpreted atom) has the value of the real function applied to the values of the arguments -/
structure AppModel (ρ : String → ℝ) : Prop where
  app1 : ∀ f q v, Poly.app f [q] = some v → Poly.eval ρ v = sem1 f (Poly.eval ρ q)
  app2 : ∀ f q r v, f ≠ "pow" → Poly.app f [q, r] = some v → Poly.eval ρ v = sem2 f (Poly.eval ρ q) (Poly.eval ρ r)
  pow : ∀ q r v, Poly.app "pow" [q, r] = some v → Poly.eval ρ v = Poly.eval ρ q ^ Poly.eval ρ r

/-- a rule that never applies a two-argument function named `pow` through `app2` (true for both tables) -/
def SE.noPowApp : SE → Bool
  | .var _ | .const _ _ => true
  | .add a b | .mul a b | .pow a b => a.noPowApp && b.noPowApp
  | .app1 _ a => a.noPowApp
  | .app2 f a b => f != "pow" && a.noPowApp && b.noPowApp

theorem ratCast_div_int_nat (n : Int) (d : Nat) : (((n : Rat) / (d : Rat) : Rat) : ℝ) = (n : ℝ) / (d : ℝ) := by
  push_cast
  rfl

/-- **the rule in the carrier denotes the rule over ℝ** -/
theorem toPoly_sem (ρ : String → ℝ) (hρ : AppModel ρ) (args : List Poly) :
    ∀ (e : SE) (v : Poly), e.noPowApp = true → e.toPoly args = some v →
      Poly.eval ρ v = e.sem (fun i => Poly.eval ρ (args[i]?.getD Poly.zero)) := by
  intro e
  induction e with
  | var i =>
    intro v _ h
    simp only [SE.toPoly] at h
    simp [SE.sem, h]
  | const n d =>
    intro v _ h
    simp only [SE.toPoly] at h
    split at h
    · cases h
    · cases h
      simp only [SE.sem, Poly.eval_ofRat, ratCast_div_int_nat]
  | add a b iha ihb =>
    intro v hn h
    simp only [SE.noPowApp, Bool.and_eq_true] at hn
    simp only [SE.toPoly, Option.bind_eq_bind, Option.bind_eq_some_iff, Option.some.injEq] at h
    obtain ⟨va, ha, vb, hb, rfl⟩ := h
    simp only [SE.sem, Poly.eval_hadd, iha va hn.1 ha, ihb vb hn.2 hb]
  | mul a b iha ihb =>
    intro v hn h
    simp only [SE.noPowApp, Bool.and_eq_true] at hn
    simp only [SE.toPoly, Option.bind_eq_bind, Option.bind_eq_some_iff, Option.some.injEq] at h
    obtain ⟨va, ha, vb, hb, rfl⟩ := h
    simp only [SE.sem, Poly.eval_hmul, iha va hn.1 ha, ihb vb hn.2 hb]
  | pow a b iha ihb =>
    intro v hn h
    simp only [SE.noPowApp, Bool.and_eq_true] at hn
    simp only [SE.toPoly, Option.bind_eq_bind, Option.bind_eq_some_iff] at h
    obtain ⟨va, ha, vb, hb, hv⟩ := h
    simp only [SE.sem, hρ.pow va vb v hv, iha va hn.1 ha, ihb vb hn.2 hb]
  | app1 f a iha =>
    intro v hn h
    simp only [SE.noPowApp] at hn
    simp only [SE.toPoly, Option.bind_eq_bind, Option.bind_eq_some_iff] at h
    obtain ⟨va, ha, hv⟩ := h
    simp only [SE.sem, hρ.app1 f va v hv, iha va hn ha]
  | app2 f a b iha ihb =>
    intro v hn h
    simp only [SE.noPowApp, Bool.and_eq_true, bne_iff_ne, ne_eq] at hn
    simp only [SE.toPoly, Option.bind_eq_bind, Option.bind_eq_some_iff] at h
    obtain ⟨va, ha, vb, hb, hv⟩ := h
    simp only [SE.sem, hρ.app2 f va vb v hn.1.1 hv, iha va hn.1.2 ha, ihb vb hn.2 hb]

/-- every rule of the specification table avoids `app2 "pow"` -/
theorem specRules_noPowApp : ∀ e ∈ specRules, e.deriv.noPowApp = true := by decide

/-- unary rows of the specification table are about `f(v₀)` -/
theorem specRules_unary_fn : ∀ e ∈ specRules, e.arity = 1 → e.fn = .app1 e.name (.var 0) ∧ e.pos = 0 := by
  intro e he h1
  simp only [specRules, List.mem_cons, List.mem_nil_iff, or_false] at he
  rcases he with rfl | rfl | rfl | rfl | rfl | rfl | rfl | rfl | rfl | rfl | rfl | rfl | rfl | rfl | rfl | rfl | rfl | rfl | rfl | rfl | rfl | rfl | rfl | rfl | rfl | rfl | rfl | rfl | rfl | rfl | rfl | rfl | rfl | rfl | rfl <;> simp_all

/-- the lookup `datom` performs: a row found in the table is the rule -/
theorem specRule_of_find {f : String} {n i : Nat} {e : Entry}
    (h : specRules.find? (fun e => e.name == f && e.arity == n && e.pos == i) = some e) : specRule f n i = some e.deriv := by
  simp [specRule, h]

theorem find_spec {f : String} {n i : Nat} {e : Entry}
    (h : specRules.find? (fun e => e.name == f && e.arity == n && e.pos == i) = some e) :
    e ∈ specRules ∧ e.name = f ∧ e.arity = n ∧ e.pos = i := by
  have hm := List.mem_of_find?_eq_some h
  have hp := List.find?_some h
  simp only [Bool.and_eq_true, beq_iff_eq] at hp
  exact ⟨hm, hp.1.1, hp.1.2, hp.2⟩

/-- **Chain rule through a unary function atom** (the step of `datom`): if the atom `a` denotes `f` of the value of
`q` along the curve, `q` moves with derivative `eval dq`, and the rule of `f` written in the carrier is `v`, then `a`
moves with derivative `eval (v · dq)` — provided the point is in the claimed domain of `f`. -/
theorem unary_atom_hasDerivAt (f : String) (e : Entry) (q dq v : Poly) (ρ : ℝ → String → ℝ) (a : String) (t0 : ℝ)
    (hr : specRules.find? (fun e => e.name == f && e.arity == 1 && e.pos == 0) = some e) (hf : f ∈ provedNames)
    (hv : e.deriv.toPoly [q] = some v) (hρ : AppModel (ρ t0))
    (ha : ∀ t, ρ t a = sem1 f (Poly.eval (ρ t) q))
    (hq : HasDerivAt (fun t => Poly.eval (ρ t) q) (Poly.eval (ρ t0) dq) t0)
    (hdom : Dom f 0 (fun i => Poly.eval (ρ t0) (([q] : List Poly)[i]?.getD Poly.zero))) :
    HasDerivAt (fun t => ρ t a) (Poly.eval (ρ t0) (v * dq)) t0 := by
  obtain ⟨hm, hname, harity, hpos⟩ := find_spec hr
  have hfn := (specRules_unary_fn e hm harity).1
  have hsound := specRules_sound_proof e hm (hname ▸ hf) (fun i => Poly.eval (ρ t0) (([q] : List Poly)[i]?.getD Poly.zero))
    (by rw [hname, hpos]; exact hdom)
  unfold Entry.SoundAt at hsound
  rw [hfn, hpos, hname] at hsound
  have hval := toPoly_sem (ρ t0) hρ [q] e.deriv v (specRules_noPowApp e hm) hv
  have houter : HasDerivAt (fun s => sem1 f s) (Poly.eval (ρ t0) v) (Poly.eval (ρ t0) q) := by
    have := hsound
    simp only [SE.sem, upd_same] at this
    rw [hval]
    simpa using this
  have hcomp := houter.comp t0 hq
  have hfun : (fun t => ρ t a) = (fun s => sem1 f s) ∘ fun t => Poly.eval (ρ t) q := by
    funext t; exact ha t
  rw [hfun, Poly.eval_hmul]
  exact hcomp

end NutilsVerif.C04
