import NutilsVerif.Model.C16
/-!
# C16 — invariants of `parallel.range` under every schedule (helper lemmas for Props/C16)
-/
namespace NutilsVerif.C16
variable {α : Type} [Add α]

def PC.crit : PC α → Bool
  | .locked => true
  | .read _ => true
  | .wrote _ => true
  | _ => false

@[simp] theorem upd_same {β : Type} (f : Nat → β) (i : Nat) (v : β) : upd f i v i = v := by simp [upd]
theorem upd_other {β : Type} (f : Nat → β) (i j : Nat) (v : β) (h : j ≠ i) : upd f i v j = f j := by simp [upd, h]

/-- the invariant of the shared counter: holds in every reachable state, whatever the loop bodies do and
whichever workers are killed or raise -/
structure RInv (n : Nat) (s : State α) : Prop where
  idx_le : s.idx ≤ n
  claimed_eq : s.claimed.map (·.2) = List.range s.idx
  rlock_iff : ∀ w, s.rlock = some w ↔ (s.pc w).crit = true
  read_idx : ∀ w i, s.pc w = .read i → i = s.idx
  done_idx : ∀ w, s.pc w = .done → s.idx = n

omit [Add α] in
theorem RInv.init (n : Nat) (sh : Nat → α) (sl) : RInv n (init sh sl) := by
  constructor <;> simp [C16.init, PC.crit]

theorem RInv.stepW {n : Nat} {code : Nat → List (Instr α)} {s : State α} (h : RInv n s) (w : Nat) :
    RInv n (stepW n code s w) := by
  obtain ⟨h1, h2, h3, h4, h5⟩ := h
  unfold C16.stepW
  split
  · split
    · constructor <;> grind [upd, PC.crit]
    · constructor <;> assumption
  · constructor <;> grind [upd, PC.crit]
  · split
    · constructor <;> grind [upd, PC.crit]
    · constructor <;> grind [upd, PC.crit, List.range_succ]
  · constructor <;> grind [upd, PC.crit]
  · constructor <;> grind [upd, PC.crit]
  · constructor <;> grind [upd, PC.crit]
  · split
    · constructor <;> grind [upd, PC.crit]
    · constructor <;> assumption
  · constructor <;> grind [upd, PC.crit]
  · constructor <;> grind [upd, PC.crit]
  · constructor <;> grind [upd, PC.crit]
  · constructor <;> grind [upd, PC.crit]
  · constructor <;> assumption
  · constructor <;> assumption

theorem RInv.applyEv {N n : Nat} {code : Nat → List (Instr α)} {s : State α} (h : RInv n s) (e : Ev) :
    RInv n (applyEv N n code s e) := by
  cases e with
  | step w =>
    simp only [C16.applyEv]
    split
    · exact h.stepW w
    · exact h
  | kill w =>
    simp only [C16.applyEv]
    split
    · obtain ⟨h1, h2, h3, h4, h5⟩ := h
      constructor <;> assumption
    · exact h
  | raise w =>
    simp only [C16.applyEv]
    split
    · obtain ⟨h1, h2, h3, h4, h5⟩ := h
      constructor <;> grind [upd, PC.crit, PC.finished]
    · exact h

theorem RInv.run {N n : Nat} {code : Nat → List (Instr α)} (σ : List Ev) {s : State α} (h : RInv n s) :
    RInv n (run N n code σ s) := by
  induction σ generalizing s with
  | nil => exact h
  | cons e σ ih => exact ih (h.applyEv e)

theorem failed_stepW {n : Nat} {code : Nat → List (Instr α)} {s : State α} (w w0 : Nat) (h : s.pc w0 = .failed) :
    (stepW n code s w).pc w0 = .failed := by
  unfold C16.stepW
  split <;> (try split) <;> grind [upd]

end NutilsVerif.C16
