import NutilsVerif.Proofs.C19Trace
import NutilsVerif.Proofs.C19Fuel
/-!
# C19 — every successful parse returns well-formed index bookkeeping (for all strings)
-/
namespace NutilsVerif.C19

/-- the bookkeeping invariant of a parse result -/
structure Res.WF (r : Res) : Prop where
  nodup : r.indices.Nodup
  disjoint : ∀ c ∈ r.indices, c ∉ r.summed
  shape : r.shape.length = r.indices.length
  letters : ∀ c ∈ r.indices, 'a' ≤ c ∧ c ≤ 'z'

theorem bind_ok {α β : Type} {x : P α} {f : α → P β} {b : β} (h : x.bind f = .ok b) :
    ∃ a, x = .ok a ∧ f a = .ok b := by
  cases x with
  | error e => simp [Except.bind] at h
  | ok a => exact ⟨a, rfl, h⟩

theorem mergeSummedGo_mem (s : Sub) (parts : List (List Char)) : ∀ (merged m : List Char),
    mergeSummedGo s merged parts = .ok m → ∀ c, c ∈ m ↔ c ∈ merged ∨ ∃ p ∈ parts, c ∈ p := by
  induction parts with
  | nil => intro merged m h c; simp [mergeSummedGo] at h; subst h; simp
  | cons p ps ih =>
    intro merged m h c
    simp only [mergeSummedGo] at h
    split at h
    · simp [fail] at h
    · rw [ih _ _ h c]; simp [or_assoc]

theorem mergeSummed_mem (s : Sub) (parts : List (List Char)) (m : List Char) (h : mergeSummed s parts = .ok m) (c : Char) :
    c ∈ m ↔ ∃ p ∈ parts, c ∈ p := by
  have := mergeSummedGo_mem s parts [] m h c
  simpa using this

theorem verify_ok (s : Sub) (indices summed : List Char) (h : verifyIndicesSummed s indices summed = .ok ()) :
    ∀ c ∈ indices, c ∉ summed := by
  unfold verifyIndicesSummed at h
  split at h
  · simp [fail] at h
  · rename_i hf
    intro c hc hs
    have := List.find?_eq_none.mp hf c hc
    simp [hs] at this

theorem trace_wf (s : Sub) (ops : Ops) (shape : List Nat) (indices : List Char) (parts : List (List Char)) (r : Res)
    (hsh : shape.length = indices.length) (hl : ∀ c ∈ indices, 'a' ≤ c ∧ c ≤ 'z')
    (h : trace s ops shape indices parts = .ok r) : r.WF := by
  unfold trace at h
  obtain ⟨sm, _, h⟩ := bind_ok h
  obtain ⟨h1, h2, h3, h4⟩ := traceGo_spec s indices ops [] [] sm shape r List.nodup_nil (by simp) h
  simp only [List.nil_append] at h1 h2 h4
  refine ⟨?_, ?_, ?_, ?_⟩
  · rw [h1]; exact filter_count_one_nodup indices
  · intro c hc hs
    rw [h1, List.mem_filter] at hc
    rcases (h2 c).mp hs with hs | hs
    · exact h3 c hc.1 hs
    · simp [hs] at hc
  · exact traceGo_shape s indices ops [] [] sm shape r rfl hsh h
  · intro c hc; rw [h1, List.mem_filter] at hc; exact hl c hc.1

theorem genIndicesGo_spec (n : Nat) : ∀ (ops : Ops) (shape : List Nat) (indices : List Char) (g : Sub) (r : Ops × List Nat × List Char),
    g.chars.length = n → genIndicesGo ops shape indices g = .ok r →
    shape.length = indices.length + g.len → (∀ c ∈ indices, 'a' ≤ c ∧ c ≤ 'z') →
    r.2.1.length = r.2.2.length ∧ (∀ c ∈ r.2.2, 'a' ≤ c ∧ c ≤ 'z') := by
  induction n with
  | zero =>
    intro ops shape indices g r hn h hs hl
    obtain ⟨st, cs⟩ := g
    simp at hn; subst hn
    simp [genIndicesGo] at h; subst h
    simpa [Sub.len] using ⟨hs, hl⟩
  | succ n ih =>
    intro ops shape indices g r hn h hs hl
    obtain ⟨st, cs⟩ := g
    match cs, hn with
    | c :: cs, hn =>
      simp only [genIndicesGo] at h
      simp only [Sub.len, List.length_cons] at hs
      split at h
      · split at h
        · simp [fail] at h
        · refine ih _ _ _ _ _ (by simpa using hn) h ?_ hl
          rw [List.length_eraseIdx]; simp [Sub.len]; split <;> omega
      · split at h
        · rename_i hc
          refine ih _ _ _ _ _ (by simpa using hn) h (by simp [Sub.len]; omega) ?_
          intro d hd; rcases List.mem_append.mp hd with hd | hd
          · exact hl d hd
          · simp at hd; subst hd; simpa using hc
        · simp [fail] at h

theorem wf_scalar (o : Ops) : (⟨o, [], [], []⟩ : Res).WF := ⟨List.nodup_nil, by simp, rfl, by simp⟩

theorem parseUnsignedInt_wf (t : Sub) (r : Res) (h : parseUnsignedInt t = .ok r) : r.WF := by
  unfold parseUnsignedInt at h
  split at h
  · split at h
    · simp [fail] at h
    · simp at h; subst h; exact wf_scalar _
  · simp [fail] at h

theorem parseUnsignedFloat_wf (t : Sub) (r : Res) (h : parseUnsignedFloat t = .ok r) : r.WF := by
  unfold parseUnsignedFloat at h
  split at h
  · simp at h; subst h; exact wf_scalar _
  · simp [fail] at h

theorem parseSignedInt_wf (t : Sub) (r : Res) (h : parseSignedInt t = .ok r) : r.WF := by
  unfold parseSignedInt at h
  split at h
  · simp at h; subst h; exact wf_scalar _
  · simp [fail] at h

theorem mergeSummed_single (s : Sub) (a : List Char) : mergeSummed s [a] = .ok a := by
  have : List.filter (fun _ : Char => false) a = [] := by simp
  simp [mergeSummed, mergeSummedGo, this, minChar]

theorem itemBody_wf (Γ : Ctx) (rec : Rec) (s : Sub) (a : Bool) (hrec : ∀ t r, rec t = .ok r → r.WF)
    (r : Res) (h : itemBody Γ rec s a = .ok r) : r.WF := by
  unfold itemBody at h
  simp only [] at h
  split at h
  · simp at h
  · split at h
    · split at h
      · simp [fail] at h
      · split at h
        · rename_i r' hr; simp at h; subst h; exact parseUnsignedInt_wf _ _ hr
        · split at h
          · rename_i r' hr; simp at h; subst h; exact parseUnsignedFloat_wf _ _ hr
          · simp at h
    · split at h
      · simp [fail2] at h
      · split at h
        · simp [fail2] at h
        · split at h
          · simp [fail] at h
          · split at h
            · -- variable or call
              obtain ⟨b, hb, h⟩ := bind_ok h
              obtain ⟨g, hg, h⟩ := bind_ok h
              have hbase : b.shape.length = b.indices.length + ((s.trim.partitionScope.head.partition [.lit ['_']]).2.2).len
                  ∧ (∀ c ∈ b.indices, 'a' ≤ c ∧ c ≤ 'z') := by
                split at hb
                · split at hb
                  · simp [fail] at hb
                  · split at hb
                    · simp [fail] at hb
                    · rename_i hlen
                      simp at hb; subst hb
                      simp at hlen; simp [hlen]
                · split at hb
                  · obtain ⟨arg, harg, hb⟩ := bind_ok hb
                    have hw := hrec _ _ harg
                    split at hb
                    · simp [fail] at hb
                    · split at hb
                      · simp [fail] at hb
                      · rename_i hlen
                        simp at hb; subst hb
                        simp at hlen
                        refine ⟨by simp [hw.shape, hlen], hw.letters⟩
                  · simp at hb
              obtain ⟨h1, h2⟩ := genIndicesGo_spec _ _ _ _ _ _ rfl hg hbase.1 hbase.2
              exact trace_wf _ _ _ _ _ _ h1 h2 h
            · split at h
              · obtain ⟨r', hr', h⟩ := bind_ok h
                simp at h; subst h
                have := hrec _ _ hr'; exact ⟨this.nodup, this.disjoint, this.shape, this.letters⟩
              · split at h
                · obtain ⟨r', hr', h⟩ := bind_ok h
                  simp at h; subst h
                  have := hrec _ _ hr'; exact ⟨this.nodup, this.disjoint, this.shape, this.letters⟩
                · split at h
                  · obtain ⟨r', hr', h⟩ := bind_ok h
                    simp at h; subst h
                    have := hrec _ _ hr'; exact ⟨this.nodup, this.disjoint, this.shape, this.letters⟩
                  · simp at h

theorem wf_with_summed (b : Res) (hb : b.WF) (o : Ops) (summed : List Char) (hd : ∀ c ∈ b.indices, c ∉ summed) :
    (⟨o, b.shape, b.indices, summed⟩ : Res).WF := ⟨hb.nodup, hd, hb.shape, hb.letters⟩

theorem powerBody_wf (Γ : Ctx) (rec : Rec) (s : Sub) (a : Bool) (hrec : ∀ t r, rec t = .ok r → r.WF)
    (r : Res) (h : powerBody Γ rec s a = .ok r) : r.WF := by
  unfold powerBody at h
  simp only [] at h
  split at h
  · exact itemBody_wf Γ rec _ a hrec r h
  · split at h
    · simp [fail] at h
    · split at h
      · simp [fail] at h
      · obtain ⟨base, hbase, h⟩ := bind_ok h
        obtain ⟨ex, _, h⟩ := bind_ok h
        split at h
        · simp [fail] at h
        · obtain ⟨summed, _, h⟩ := bind_ok h
          obtain ⟨u, hv, h⟩ := bind_ok h
          simp at h; subst h
          exact wf_with_summed base (itemBody_wf Γ rec _ a hrec base hbase) _ _ (verify_ok _ _ _ hv)
  · simp [fail] at h

theorem mapMIdx_mem {α β : Type} (f : Nat → α → P β) (l : List α) : ∀ (k : Nat) (out : List β),
    mapMIdx f l k = .ok out → ∀ b ∈ out, ∃ i a, a ∈ l ∧ f i a = .ok b := by
  induction l with
  | nil => intro k out h b hb; simp [mapMIdx] at h; subst h; simp at hb
  | cons x xs ih =>
    intro k out h b hb
    simp only [mapMIdx] at h
    obtain ⟨y, hy, h⟩ := bind_ok h
    obtain ⟨ys, hys, h⟩ := bind_ok h
    simp at h; subst h
    rcases List.mem_cons.mp hb with e | hb
    · subst e; exact ⟨k, x, List.mem_cons_self, hy⟩
    · obtain ⟨i, a, ha, hf⟩ := ih _ _ hys b hb
      exact ⟨i, a, List.mem_cons_of_mem _ ha, hf⟩

theorem flatten_shape_len (parts : List Res) (h : ∀ r ∈ parts, r.WF) :
    (parts.map (·.shape)).flatten.length = (parts.map (·.indices)).flatten.length := by
  induction parts with
  | nil => rfl
  | cons r rs ih =>
    simp only [List.map_cons, List.flatten_cons, List.length_append]
    rw [(h r List.mem_cons_self).shape, ih (fun x hx => h x (List.mem_cons_of_mem _ hx))]

theorem termBody_wf (Γ : Ctx) (rec : Rec) (s : Sub) (hrec : ∀ t r, rec t = .ok r → r.WF)
    (r : Res) (h : termBody Γ rec s = .ok r) : r.WF := by
  unfold termBody at h
  simp only [] at h
  split at h
  · exact powerBody_wf Γ rec s true hrec r h
  · obtain ⟨parts, hparts, h⟩ := bind_ok h
    have hall : ∀ x ∈ parts, x.WF := by
      intro x hx
      obtain ⟨i, p, _, hf⟩ := mapMIdx_mem _ _ _ _ hparts x hx
      exact powerBody_wf Γ rec p _ hrec x hf
    split at h
    · simp at h; subst h; exact hall _ (by simp)
    · refine trace_wf _ _ _ _ _ _ (flatten_shape_len parts hall) ?_ h
      intro c hc
      simp only [List.mem_flatten, List.mem_map] at hc
      obtain ⟨l, ⟨x, hx, rfl⟩, hc⟩ := hc
      exact (hall x hx).letters c hc

theorem fractionBody_wf (Γ : Ctx) (rec : Rec) (s : Sub) (hrec : ∀ t r, rec t = .ok r → r.WF)
    (r : Res) (h : fractionBody Γ rec s = .ok r) : r.WF := by
  unfold fractionBody at h
  split at h
  · exact termBody_wf Γ rec _ hrec r h
  · obtain ⟨num, hnum, h⟩ := bind_ok h
    obtain ⟨den, _, h⟩ := bind_ok h
    split at h
    · simp [fail] at h
    · obtain ⟨summed, _, h⟩ := bind_ok h
      obtain ⟨u, hv, h⟩ := bind_ok h
      simp at h; subst h
      exact wf_with_summed num (termBody_wf Γ rec _ hrec num hnum) _ _ (verify_ok _ _ _ hv)
  · simp [fail] at h

theorem minChar_none (l : List Char) (h : minChar l = none) : l = [] := by
  cases l with
  | nil => rfl
  | cons c cs => simp only [minChar] at h; split at h <;> simp at h

theorem charsMinus_none (a b : List Char) (h : charsMinus a b = none) : ∀ c ∈ a, c ∈ b := by
  intro c hc
  have := minChar_none _ h
  rw [List.filter_eq_nil_iff] at this
  simpa using this c hc

theorem alignGo_disjoint (sFirst : Sub) (shape : List Nat) (indices : List Char) (rest : List (Bool × Sub × Res)) :
    ∀ (iterm : Nat) (negs : List Bool) (args : List Ops) (summed : List Char) (out : List Bool × List Ops × List Char),
    alignGo sFirst shape indices rest iterm negs args summed = .ok out →
    (∀ x ∈ rest, x.2.2.WF) → (∀ c ∈ indices, c ∉ summed) → ∀ c ∈ indices, c ∉ out.2.2 := by
  induction rest with
  | nil => intro iterm negs args summed out h _ hd; simp [alignGo] at h; subst h; exact hd
  | cons x xs ih =>
    intro iterm negs args summed out h hw hd
    obtain ⟨neg, sTerm, r⟩ := x
    simp only [alignGo] at h
    have hr : r.WF := hw _ List.mem_cons_self
    split at h
    · simp at h
    · rename_i ops tshape hal
      split at h
      · simp [fail2] at h
      · refine ih _ _ _ _ _ h (fun y hy => hw y (List.mem_cons_of_mem _ hy)) ?_
        intro c hc hcs
        rcases List.mem_append.mp hcs with hcs | hcs
        · exact hd c hc hcs
        · have hcr : c ∈ r.indices := by
            unfold alignTerm at hal
            split at hal
            · split at hal
              · simp [fail2] at hal
              · rename_i hm
                exact charsMinus_none _ _ hm c hc
            · rename_i he; simp at he; rw [he]; exact hc
          exact hr.disjoint c hcr hcs

theorem exprBody_wf (Γ : Ctx) (rec : Rec) (s : Sub) (hrec : ∀ t r, rec t = .ok r → r.WF)
    (r : Res) (h : exprBody Γ rec s = .ok r) : r.WF := by
  unfold exprBody at h
  simp only [] at h
  obtain ⟨un, hun, h⟩ := bind_ok h
  have hall : ∀ x ∈ un, x.2.2.WF := by
    intro x hx
    obtain ⟨i, p, _, hf⟩ := mapMIdx_mem _ _ _ _ hun x hx
    obtain ⟨r', hr', hf⟩ := bind_ok hf
    simp at hf; subst hf
    exact fractionBody_wf Γ rec _ hrec r' hr'
  unfold exprCombine at h
  split at h
  · simp [fail] at h
  · rename_i neg sFirst first rest
    have hf : first.WF := hall (neg, sFirst, first) List.mem_cons_self
    split at h
    · simp at h; subst h; exact hf
    · obtain ⟨a, ha, h⟩ := bind_ok h
      simp at h; subst h
      exact wf_with_summed first hf _ _
        (alignGo_disjoint _ _ _ _ _ _ _ _ _ ha (fun y hy => hall y (List.mem_cons_of_mem _ hy)) hf.disjoint)

/-- for every string and every amount of fuel: a successful parse returns well-formed bookkeeping -/
theorem parseExprB_wf (Γ : Ctx) (base : Rec) (hbase : ∀ t r, base t = .ok r → r.WF) :
    ∀ (n : Nat) (s : Sub) (r : Res), parseExprB Γ base n s = .ok r → r.WF := by
  intro n
  induction n with
  | zero => intro s r h; exact hbase s r h
  | succ n ih => intro s r h; exact exprBody_wf Γ _ s (fun t r' h' => ih t r' h') r h

theorem parseExpr_wf (Γ : Ctx) (n : Nat) (s : Sub) (r : Res) (h : parseExpr Γ n s = .ok r) : r.WF :=
  parseExprB_wf Γ _ (fun _ _ h => by simp at h) n s r h

end NutilsVerif.C19
