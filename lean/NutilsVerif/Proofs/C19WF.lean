import NutilsVerif.Proofs.C19Trace
import NutilsVerif.Proofs.C19Fuel
/-!
# C19 — every successful parse returns well-formed index bookkeeping (for all strings)
-/
namespace NutilsVerif.C19

/-- the bookkeeping invariant of a parse result -/
structure Res.WF (r : Res) : Prop where
  nodup : r.indices.Nodup
  disjoint : ∀ c ∈ r.indices, c ∉ r.summed
  shape : r.shape.length = r.indices.length
  letters : ∀ c ∈ r.indices, 'a' ≤ c ∧ c ≤ 'z'

theorem bind_ok {α β : Type} {x : P α} {f : α → P β} {b : β} (h : x.bind f = .ok b) :
    ∃ a, x = .ok a ∧ f a = .ok b := by
  cases x with
  | error e => simp [Except.bind] at h
  | ok a => exact ⟨a, rfl, h⟩

theorem mergeSummedGo_mem (s : Sub) (parts : List (List Char)) : ∀ (merged m : List Char),
    mergeSummedGo s merged parts = .ok m → ∀ c, c ∈ m ↔ c ∈ merged ∨ ∃ p ∈ parts, c ∈ p := by
  induction parts with
  | nil => intro merged m h c; simp [mergeSummedGo] at h; subst h; simp
  | cons p ps ih =>
    intro merged m h c
    simp only [mergeSummedGo] at h
    split at h
    · simp [fail] at h
    · rw [ih _ _ h c]; simp [or_assoc]

theorem mergeSummed_mem (s : Sub) (parts : List (List Char)) (m : List Char) (h : mergeSummed s parts = .ok m) (c : Char) :
    c ∈ m ↔ ∃ p ∈ parts, c ∈ p := by
  have := mergeSummedGo_mem s parts [] m h c
  simpa using this

theorem verify_ok (s : Sub) (indices summed : List Char) (h : verifyIndicesSummed s indices summed = .ok ()) :
    ∀ c ∈ indices, c ∉ summed := by
  unfold verifyIndicesSummed at h
  split at h
  · simp [fail] at h
  · rename_i hf
    intro c hc hs
    have := List.find?_eq_none.mp hf c hc
    simp [hs] at this

theorem trace_wf (s : Sub) (ops : Ops) (shape : List Nat) (indices : List Char) (parts : List (List Char)) (r : Res)
    (hsh : shape.length = indices.length) (hl : ∀ c ∈ indices, 'a' ≤ c ∧ c ≤ 'z')
    (h : trace s ops shape indices parts = .ok r) : r.WF := by
  unfold trace at h
  obtain ⟨sm, _, h⟩ := bind_ok h
  obtain ⟨h1, h2, h3, h4⟩ := traceGo_spec s indices ops [] [] sm shape r List.nodup_nil (by simp) h
  simp only [List.nil_append] at h1 h2 h4
  refine ⟨?_, ?_, ?_, ?_⟩
  · rw [h1]; exact filter_count_one_nodup indices
  · intro c hc hs
    rw [h1, List.mem_filter] at hc
    rcases (h2 c).mp hs with hs | hs
    · exact h3 c hc.1 hs
    · simp [hs] at hc
  · exact traceGo_shape s indices ops [] [] sm shape r rfl hsh h
  · intro c hc; rw [h1, List.mem_filter] at hc; exact hl c hc.1

theorem genIndicesGo_spec (n : Nat) : ∀ (ops : Ops) (shape : List Nat) (indices : List Char) (g : Sub) (r : Ops × List Nat × List Char),
    g.chars.length = n → genIndicesGo ops shape indices g = .ok r →
    shape.length = indices.length + g.len → (∀ c ∈ indices, 'a' ≤ c ∧ c ≤ 'z') →
    r.2.1.length = r.2.2.length ∧ (∀ c ∈ r.2.2, 'a' ≤ c ∧ c ≤ 'z') := by
  induction n with
  | zero =>
    intro ops shape indices g r hn h hs hl
    obtain ⟨st, cs⟩ := g
    simp at hn; subst hn
    simp [genIndicesGo] at h; subst h
    simpa [Sub.len] using ⟨hs, hl⟩
  | succ n ih =>
    intro ops shape indices g r hn h hs hl
    obtain ⟨st, cs⟩ := g
    match cs, hn with
    | c :: cs, hn =>
      simp only [genIndicesGo] at h
      simp only [Sub.len, List.length_cons] at hs
      split at h
      · split at h
        · simp [fail] at h
        · refine ih _ _ _ _ _ (by simpa using hn) h ?_ hl
          rw [List.length_eraseIdx]; simp [Sub.len]; split <;> omega
      · split at h
        · rename_i hc
          refine ih _ _ _ _ _ (by simpa using hn) h (by simp [Sub.len]; omega) ?_
          intro d hd; rcases List.mem_append.mp hd with hd | hd
          · exact hl d hd
          · simp at hd; subst hd; simpa using hc
        · simp [fail] at h

end NutilsVerif.C19
