import NutilsVerif.Proofs.C09Index
import Mathlib.Algebra.BigOperators.Group.List.Basic
import Mathlib.Tactic.Ring
/-!
# C09 — evaluation order and integration of sample expressions  (helper lemmas)
-/
namespace NutilsVerif.C09

/-! ## the concatenated index lists are a permutation of `0..npoints` -/

theorem flat_nodup {s : Sem} (h : Part s) : ((List.range s.nelems).flatMap s.getindex).Nodup := by
  rw [List.nodup_flatMap]
  refine ⟨fun i _ => h.nodup i, ?_⟩
  refine List.Pairwise.imp_of_mem ?_ (List.nodup_range (n := s.nelems))
  intro i j _ _ hne
  simp only [Function.onFun, List.disjoint_left]
  intro x hi hj
  exact hne (h.disj i j x hi hj)

theorem flat_perm {s : Sem} (h : Part s) : ((List.range s.nelems).flatMap s.getindex).Perm (List.range s.npoints) := by
  rw [List.perm_ext_iff_of_nodup (flat_nodup h) List.nodup_range]
  intro x
  simp only [List.mem_flatMap, List.mem_range]
  exact (h.cover x).symm

/-! ## unfolding equations -/

theorem getindex_custom (p : SampleExpr) (ix : List Nat) (i : Nat) :
    getindex (.custom p ix) i = (getindex p i).map fun j => ix.getD j 0 := rfl
theorem getindex_add (a b : SampleExpr) (i : Nat) :
    getindex (.add a b) i = if i < nelems a then getindex a i else (getindex b (i - nelems a)).map (· + npoints a) := rfl
theorem getindex_mul (a b : SampleExpr) (e : Nat) :
    getindex (.mul a b) e = (getindex a (e / nelems b)).flatMap fun p => (getindex b (e % nelems b)).map fun q => p * npoints b + q := rfl
theorem nelems_add (a b : SampleExpr) : nelems (.add a b) = nelems a + nelems b := rfl
theorem npoints_add (a b : SampleExpr) : npoints (.add a b) = npoints a + npoints b := rfl
theorem nelems_mul (a b : SampleExpr) : nelems (.mul a b) = nelems a * nelems b := rfl
theorem npoints_mul (a b : SampleExpr) : npoints (.mul a b) = npoints a * npoints b := rfl
theorem nelems_custom (p : SampleExpr) (ix : List Nat) : nelems (.custom p ix) = nelems p := rfl
theorem npoints_custom (p : SampleExpr) (ix : List Nat) : npoints (.custom p ix) = npoints p := rfl
theorem nelems_take (p : SampleExpr) (ind : List Nat) : nelems (.take p ind) = ind.length := rfl
theorem nelems_default (t : Nat) (c : List Nat) : nelems (.default t c) = c.length := rfl
theorem npoints_default (t : Nat) (c : List Nat) : npoints (.default t c) = c.sum := rfl
theorem nelems_empty : nelems .empty = 0 := rfl
theorem npoints_empty : npoints .empty = 0 := rfl
theorem getindex_empty (i : Nat) : getindex .empty i = [] := rfl

theorem part_of_valid {s : SampleExpr} (h : Valid s) : Part (sem s) := part_sem s h

/-! ## lengths -/

theorem length_flatMap_map {β γ δ : Type} (l1 : List β) (l2 : List γ) (g : β → γ → δ) :
    (l1.flatMap fun x => l2.map (g x)).length = l1.length * l2.length := by
  induction l1 with
  | nil => simp
  | cons a t ih => simp [List.flatMap_cons, ih, Nat.add_mul, Nat.add_comm]

theorem getindex_default_length (t : Nat) (c : List Nat) (i : Nat) :
    (getindex (.default t c) i).length = c.getD i 0 := by
  show ((segSem c).getindex i).length = _
  simp only [segSem]
  split
  · rename_i h; exact length_segment c i h
  · rename_i h; simp [List.getD_eq_getElem?_getD, List.getElem?_eq_none (Nat.le_of_not_lt h)]

theorem getindex_take (p : SampleExpr) (ind : List Nat) (i : Nat) :
    (getindex (.take p ind) i).length = match ind[i]? with | some j => (getindex p j).length | none => 0 := by
  unfold getindex
  rw [sem_take]
  simp only [segSem, List.length_map]
  split
  · rename_i h
    rw [length_segment _ i (by simpa using h)]
    simp [List.getD_eq_getElem?_getD, List.getElem?_map, List.getElem?_eq_getElem h]
  · rename_i h
    rw [List.getElem?_eq_none (Nat.le_of_not_lt h)]; rfl

theorem pts_length (s : SampleExpr) (i : Nat) : (pts s i).length = (getindex s i).length := by
  induction s generalizing i with
  | default t c => rw [getindex_default_length]; simp [pts]
  | custom p ix ih => rw [getindex_custom, List.length_map]; exact ih i
  | add a b iha ihb =>
    rw [getindex_add]; simp only [pts]
    by_cases h : i < nelems a
    · rw [if_pos h, if_pos h]; exact iha i
    · rw [if_neg h, if_neg h, List.length_map]; exact ihb _
  | mul a b iha ihb =>
    rw [getindex_mul]; simp only [pts]
    rw [length_flatMap_map, length_flatMap_map, iha, ihb]
  | take p ind ih =>
    rw [getindex_take]
    simp only [pts]
    split <;> simp_all
  | zip a b _ _ =>
    simp only [pts, getindex, sem]
    split <;> simp
  | empty => simp [pts, getindex, sem]

variable {α : Type}

theorem wts_length [Add α] [Mul α] [Zero α] (w : LeafPt → α) (s : SampleExpr) (i : Nat) :
    (wts w s i).length = (getindex s i).length := by
  induction s generalizing i with
  | default t c => rw [getindex_default_length]; simp [wts]
  | custom p ix ih => rw [getindex_custom, List.length_map]; exact ih i
  | add a b iha ihb =>
    rw [getindex_add]; simp only [wts]
    by_cases h : i < nelems a
    · rw [if_pos h, if_pos h]; exact iha i
    · rw [if_neg h, if_neg h, List.length_map]; exact ihb _
  | mul a b iha ihb =>
    rw [getindex_mul]; simp only [wts]
    rw [length_flatMap_map, length_flatMap_map, iha, ihb]
  | take p ind ih =>
    rw [getindex_take]
    simp only [wts]
    split <;> simp_all
  | zip a b _ _ =>
    simp only [wts, getindex, sem]
    split <;> simp
  | empty => simp [wts, getindex, sem]

/-! ## scatter-add hits exactly one entry -/

theorem sum_map_single [AddCommMonoid α] {β : Type} (l : List β) (f : β → α) (k : Nat) (hk : k < l.length)
    (h0 : ∀ j (hj : j < l.length), j ≠ k → f l[j] = 0) : (l.map f).sum = f l[k] := by
  induction l generalizing k with
  | nil => simp at hk
  | cons a t ih =>
    cases k with
    | zero =>
      have : (t.map f).sum = 0 := by
        apply List.sum_eq_zero
        intro x hx
        obtain ⟨y, hy, rfl⟩ := List.mem_map.1 hx
        obtain ⟨j, hj, rfl⟩ := List.getElem_of_mem hy
        exact h0 (j+1) (by simpa using hj) (by omega)
      simp [this]
    | succ k =>
      have ha : f a = 0 := h0 0 (by simp) (by omega)
      have := ih k (by simpa using hk) (fun j hj hne => h0 (j+1) (by simpa using hj) (by omega))
      simp [ha, this]

theorem scatterAt_hit [AddCommMonoid α] (nel : Nat) (gi : Nat → List Nat) (vals : Nat → List α)
    (hnd : ∀ i, (gi i).Nodup) (hdisj : ∀ i j x, x ∈ gi i → x ∈ gi j → i = j)
    (i k q : Nat) (v : α) (hi : i < nel) (hq : (gi i)[k]? = some q) (hv : (vals i)[k]? = some v) :
    scatterAt nel gi vals q = v := by
  unfold scatterAt
  obtain ⟨hk1, e1⟩ := List.getElem?_eq_some_iff.1 hq
  obtain ⟨hk2, e2⟩ := List.getElem?_eq_some_iff.1 hv
  have hqi : q ∈ gi i := e1 ▸ List.getElem_mem hk1
  rw [sum_map_single (List.range nel) _ i (by simpa using hi)]
  · simp only [List.getElem_range]
    have hkz : k < (List.zip (gi i) (vals i)).length := by simp; omega
    rw [sum_map_single _ _ k hkz]
    · simp [e1, e2]
    · intro j hj hne
      simp only [List.getElem_zip]
      rw [if_neg]
      intro h
      have hj' : j < (gi i).length := by simp at hj; omega
      exact hne ((hnd i).getElem_inj_iff.1 (h.trans e1.symm))
  · intro j hj hne
    simp only [List.getElem_range]
    apply List.sum_eq_zero
    intro x hx
    obtain ⟨pv, hpv, rfl⟩ := List.mem_map.1 hx
    rw [if_neg]
    intro h
    have : pv.1 ∈ gi j := (List.of_mem_zip (a := pv.1) (b := pv.2) hpv).1
    rw [h] at this
    exact hne (hdisj j i q this hqi)

/-! ## `Sample.bind`: the value at position `getindex(i)[k]` is the value in point `k` of element `i` -/

theorem flatten_range_getElem? {β : Type} (vals : Nat → List β) (n i k : Nat) (hi : i < n) (hk : k < (vals i).length) :
    (((List.range n).map vals).flatten)[((List.range i).map fun j => (vals j).length).sum + k]? = (vals i)[k]? := by
  induction n with
  | zero => omega
  | succ n ih =>
    rw [List.range_succ, List.map_append, List.flatten_append]
    simp only [List.map_cons, List.map_nil, List.flatten_cons, List.flatten_nil, List.append_nil]
    rcases Nat.lt_or_ge i n with h | h
    · have := ih h
      have hlt : ((List.range i).map fun j => (vals j).length).sum + k < ((List.range n).map vals).flatten.length := by
        rw [List.getElem?_eq_getElem hk] at this
        exact (List.getElem?_eq_some_iff.1 this).1
      rw [List.getElem?_append_left hlt, this]
    · have : i = n := by omega
      subst this
      have hlen : ((List.range i).map vals).flatten.length = ((List.range i).map fun j => (vals j).length).sum := by
        rw [List.length_flatten, List.map_map]; rfl
      rw [List.getElem?_append_right (by omega), hlen, Nat.add_sub_cancel_left]

theorem pre_eq_sum_range (c : List Nat) (i : Nat) (hi : i ≤ c.length) :
    pre c i = ((List.range i).map fun j => c.getD j 0).sum := by
  induction i with
  | zero => simp [pre_zero]
  | succ i ih =>
    rw [pre_succ c i (by omega), ih (by omega), List.range_succ, List.map_append, List.sum_append]
    simp

theorem getindex_default_getElem? (t : Nat) (c : List Nat) (i k q : Nat)
    (h : (getindex (.default t c) i)[k]? = some q) : i < c.length ∧ k < c.getD i 0 ∧ q = pre c i + k := by
  have hk := (List.getElem?_eq_some_iff.1 h).1
  rw [getindex_default_length] at hk
  have hi : i < c.length := by
    apply Nat.lt_of_not_le; intro hle
    simp [List.getD_eq_getElem?_getD, List.getElem?_eq_none hle] at hk
  refine ⟨hi, hk, ?_⟩
  change ((segSem c).getindex i)[k]? = some q at h
  simp only [segSem, if_pos hi, segment, arange, cumsum0] at h
  rw [cumsumFrom_getD 0 c i (by omega)] at h
  obtain ⟨_, e⟩ := List.getElem?_eq_some_iff.1 h
  rw [List.getElem_range'] at e
  omega

theorem flatMap_map_getElem? {β γ δ : Type} (l1 : List β) (l2 : List γ) (g : β → γ → δ) (k : Nat) :
    (l1.flatMap fun x => l2.map (g x))[k]? = (l1[k / l2.length]?).bind fun x => (l2[k % l2.length]?).map (g x) := by
  rcases Nat.eq_zero_or_pos l2.length with h0 | hpos
  · have : l2 = [] := List.length_eq_zero_iff.1 h0
    subst this
    simp
  induction l1 generalizing k with
  | nil => simp
  | cons a t ih =>
    rw [List.flatMap_cons]
    rcases Nat.lt_or_ge k l2.length with h | h
    · rw [List.getElem?_append_left (by simpa using h), Nat.div_eq_of_lt h, Nat.mod_eq_of_lt h]
      simp
    · rw [List.getElem?_append_right (by simpa using h), List.length_map, ih]
      have h1 : k / l2.length = (k - l2.length) / l2.length + 1 := by
        rw [Nat.div_eq_sub_div hpos h]
      have h2 : k % l2.length = (k - l2.length) % l2.length := Nat.mod_eq_sub_mod h
      rw [h1, h2]
      simp

section
variable [CommSemiring α]

theorem concatAt_default (t : Nat) (c : List Nat) (f : Pt → α) (i k q : Nat)
    (h : (getindex (.default t c) i)[k]? = some q) :
    concatAt (nelems (.default t c)) (fun i => (pts (.default t c) i).map f) q = f [(t, i, k)] := by
  obtain ⟨hi, hk, rfl⟩ := getindex_default_getElem? t c i k q h
  unfold concatAt
  rw [nelems_default, pre_eq_sum_range c i (by omega)]
  have hl : ∀ j, ((pts (.default t c) j).map f).length = c.getD j 0 := by intro j; simp [pts]
  have := flatten_range_getElem? (fun i => (pts (.default t c) i).map f) c.length i k hi (by rw [hl]; exact hk)
  simp only [hl] at this
  rw [this]
  rw [List.getD_eq_getElem?_getD] at hk
  simp [pts, List.getElem?_range hk]

/-- **evaluation order**: in the array `sample.bind(f)` the entry at position `getindex(i)[k]` is `f` in point `k` of element `i` -/
theorem bindAt_getindex (s : SampleExpr) (hs : Valid s) (f : Pt → α) (i k q : Nat) (P : Pt)
    (hq : (getindex s i)[k]? = some q) (hP : (pts s i)[k]? = some P) : bindAt s f q = f P := by
  induction s generalizing f i k q P with
  | default t c =>
    simp only [bindAt]
    rw [concatAt_default t c f i k q hq]
    obtain ⟨hi, hk, _⟩ := getindex_default_getElem? t c i k q hq
    rw [List.getD_eq_getElem?_getD] at hk
    simp [pts, List.getElem?_range hk] at hP
    rw [← hP]
  | custom p ix _ =>
    have hp := part_of_valid hs
    simp only [bindAt]
    exact scatterAt_hit _ _ _ hp.nodup hp.disj i k q (f P) (hp.lt_nelems ((List.mem_iff_getElem?).2 ⟨k, hq⟩)) hq (by simp [hP])
  | take p ind _ =>
    have hp := part_of_valid hs
    simp only [bindAt]
    exact scatterAt_hit _ _ _ hp.nodup hp.disj i k q (f P) (hp.lt_nelems ((List.mem_iff_getElem?).2 ⟨k, hq⟩)) hq (by simp [hP])
  | zip a b _ _ =>
    have hp := part_of_valid hs
    simp only [bindAt]
    exact scatterAt_hit _ _ _ hp.nodup hp.disj i k q (f P) (hp.lt_nelems ((List.mem_iff_getElem?).2 ⟨k, hq⟩)) hq (by simp [hP])
  | empty => simp [getindex_empty] at hq
  | add a b iha ihb =>
    simp only [Valid] at hs
    have ha := part_of_valid hs.1
    rw [getindex_add] at hq
    simp only [pts] at hP
    simp only [bindAt]
    by_cases h : i < nelems a
    · rw [if_pos h] at hq hP
      have : q < npoints a := ha.lt_npoints ((List.mem_iff_getElem?).2 ⟨k, hq⟩)
      rw [if_pos this]
      exact iha hs.1 f i k q P hq hP
    · rw [if_neg h] at hq hP
      rw [List.getElem?_map] at hq
      cases hq' : (getindex b (i - nelems a))[k]? with
      | none => simp [hq'] at hq
      | some q' =>
        simp [hq'] at hq
        subst hq
        rw [if_neg (by omega), Nat.add_sub_cancel]
        exact ihb hs.2 f _ k q' P hq' hP
  | mul a b iha ihb =>
    simp only [Valid] at hs
    have hb := part_of_valid hs.2
    rw [getindex_mul, flatMap_map_getElem?] at hq
    simp only [pts] at hP
    rw [flatMap_map_getElem?, pts_length] at hP
    simp only [bindAt]
    cases h1 : (getindex a (i / nelems b))[k / (getindex b (i % nelems b)).length]? with
    | none => simp [h1] at hq
    | some p =>
      cases h2 : (getindex b (i % nelems b))[k % (getindex b (i % nelems b)).length]? with
      | none => simp [h1, h2] at hq
      | some q' =>
        simp [h1, h2] at hq
        cases h3 : (pts a (i / nelems b))[k / (getindex b (i % nelems b)).length]? with
        | none => simp [h3] at hP
        | some pa =>
          cases h4 : (pts b (i % nelems b))[k % (getindex b (i % nelems b)).length]? with
          | none => simp [h3, h4] at hP
          | some pb =>
            simp [h3, h4] at hP
            subst hq hP
            have hq'lt : q' < npoints b := hb.lt_npoints ((List.mem_iff_getElem?).2 ⟨_, h2⟩)
            have e1 : (p * npoints b + q') / npoints b = p := by
              rw [Nat.mul_comm, Nat.mul_add_div (by omega), Nat.div_eq_of_lt hq'lt]; rfl
            have e2 : (p * npoints b + q') % npoints b = q' := by
              rw [Nat.mul_comm, Nat.mul_add_mod, Nat.mod_eq_of_lt hq'lt]
            rw [e1, e2, iha hs.1 _ _ _ p pa h1 h3]
            exact ihb hs.2 _ _ _ q' pb h2 h4
end

/-! ## `Sample.integral`: nested dispatch = element loop = flat weighted sum -/

section
variable [CommSemiring α]

theorem dot_nil_right (w : List α) : dot w [] = 0 := by simp [dot]
theorem dot_nil_left (v : List α) : dot [] v = 0 := by simp [dot]
theorem dot_cons (a b : α) (w v : List α) : dot (a :: w) (b :: v) = a * b + dot w v := by simp [dot]

theorem dot_map_mul_left (x : α) (w v : List α) : dot (w.map (x * ·)) v = x * dot w v := by
  induction w generalizing v with
  | nil => simp [dot_nil_left]
  | cons a t ih =>
    cases v with
    | nil => simp [dot_nil_right]
    | cons b v => rw [List.map_cons, dot_cons, dot_cons, ih]; ring

theorem dot_map_zero {β : Type} (w : List α) (l : List β) : dot w (l.map fun _ => (0 : α)) = 0 := by
  induction w generalizing l with
  | nil => simp [dot_nil_left]
  | cons a t ih =>
    cases l with
    | nil => simp [dot_nil_right]
    | cons b l => rw [List.map_cons, dot_cons, ih]; simp

theorem dot_map_add {β : Type} (w : List α) (l : List β) (g h : β → α) :
    dot w (l.map fun x => g x + h x) = dot w (l.map g) + dot w (l.map h) := by
  induction w generalizing l with
  | nil => simp [dot_nil_left]
  | cons a t ih =>
    cases l with
    | nil => simp [dot_nil_right]
    | cons b l => simp only [List.map_cons, dot_cons, ih]; ring

theorem sum_dot_map {β ι : Type} (L : List ι) (w : List α) (l : List β) (g : ι → β → α) :
    (L.map fun j => dot w (l.map (g j))).sum = dot w (l.map fun x => (L.map fun j => g j x).sum) := by
  induction L with
  | nil =>
    simp only [List.map_nil, List.sum_nil]
    exact (dot_map_zero w l).symm
  | cons j L ih => simp only [List.map_cons, List.sum_cons, ih, dot_map_add]

theorem dot_flatMap {β γ : Type} (wa : List α) (pa : List β) (wb : List α) (pb : List γ) (F : β → γ → α)
    (hlen : wb.length = pb.length) :
    dot (wa.flatMap fun x => wb.map (x * ·)) (pa.flatMap fun P => pb.map (F P)) =
      dot wa (pa.map fun P => dot wb (pb.map (F P))) := by
  induction wa generalizing pa with
  | nil => simp [dot_nil_left]
  | cons x t ih =>
    cases pa with
    | nil => simp [dot_nil_right]
    | cons P pa =>
      rw [List.flatMap_cons, List.flatMap_cons, List.map_cons, dot_cons]
      unfold dot
      rw [List.zipWith_append (by simp [hlen]), List.sum_append]
      have h1 := dot_map_mul_left x wb (pb.map (F P))
      have h2 := ih pa
      unfold dot at h1 h2
      rw [h1, h2]

theorem sum_range_mul (n m : Nat) (G : Nat → Nat → α) :
    ((List.range (n * m)).map fun e => G (e / m) (e % m)).sum =
      ((List.range n).map fun i => ((List.range m).map fun j => G i j).sum).sum := by
  rcases Nat.eq_zero_or_pos m with h0 | hpos
  · subst h0; simp
  induction n with
  | zero => simp
  | succ n ih =>
    rw [Nat.succ_mul, List.range_add, List.map_append, List.sum_append, ih, List.range_succ,
      List.map_append, List.sum_append]
    congr 1
    simp only [List.map_map, List.map_cons, List.map_nil, List.sum_cons, List.sum_nil, add_zero]
    congr 1
    apply List.map_congr_left
    intro j hj
    have hj := List.mem_range.1 hj
    simp only [Function.comp]
    rw [Nat.mul_comm n m, Nat.mul_add_div hpos, Nat.div_eq_of_lt hj, Nat.mul_add_mod, Nat.mod_eq_of_lt hj]
    simp

theorem loopIntegral_add (w : LeafPt → α) (a b : SampleExpr) (f : Pt → α) :
    loopIntegral w (.add a b) f = loopIntegral w a f + loopIntegral w b f := by
  unfold loopIntegral
  rw [nelems_add, List.range_add, List.map_append, List.sum_append]
  congr 1
  · congr 1
    apply List.map_congr_left
    intro i hi
    have hi := List.mem_range.1 hi
    simp only [wts, pts, if_pos hi]
  · rw [List.map_map]
    congr 1
    apply List.map_congr_left
    intro i _
    simp only [Function.comp, wts, pts]
    rw [if_neg (by omega), if_neg (by omega), Nat.add_sub_cancel_left]

theorem loopIntegral_mul (w : LeafPt → α) (a b : SampleExpr) (f : Pt → α) :
    loopIntegral w (.mul a b) f = loopIntegral w a fun pa => loopIntegral w b fun pb => f (pa ++ pb) := by
  unfold loopIntegral
  rw [nelems_mul]
  let G : Nat → Nat → α := fun e1 e2 =>
    dot (wts w a e1) ((pts a e1).map fun P => dot (wts w b e2) ((pts b e2).map fun pb => f (P ++ pb)))
  have key : ∀ e, dot (wts w (.mul a b) e) ((pts (.mul a b) e).map f) = G (e / nelems b) (e % nelems b) := by
    intro e
    simp only [wts, pts, List.map_flatMap, List.map_map]
    exact dot_flatMap _ _ _ _ (fun P pb => f (P ++ pb)) (by rw [wts_length, pts_length])
  have h1 : ((List.range (nelems a * nelems b)).map fun e => dot (wts w (.mul a b) e) ((pts (.mul a b) e).map f)) =
      (List.range (nelems a * nelems b)).map fun e => G (e / nelems b) (e % nelems b) :=
    List.map_congr_left fun e _ => key e
  rw [h1, sum_range_mul (nelems a) (nelems b) G]
  congr 1
  apply List.map_congr_left
  intro e1 _
  exact sum_dot_map (List.range (nelems b)) (wts w a e1) (pts a e1)
    (fun e2 P => dot (wts w b e2) ((pts b e2).map fun pb => f (P ++ pb)))

/-- the dispatch of `Sample.integral` over `_Add`, `_Mul`, `_Empty` equals the plain element loop of `_Integral.lower` -/
theorem integralCode_eq_loop (w : LeafPt → α) (s : SampleExpr) (f : Pt → α) :
    integralCode w s f = loopIntegral w s f := by
  induction s generalizing f with
  | default t c => rfl
  | custom p ix _ => rfl
  | take p ind _ => rfl
  | zip a b _ _ => rfl
  | empty => simp [integralCode, loopIntegral, nelems_empty]
  | add a b iha ihb => rw [loopIntegral_add, ← iha, ← ihb]; rfl
  | mul a b iha ihb =>
    rw [loopIntegral_mul]
    simp only [integralCode]
    rw [iha]
    congr 1
    funext pa
    exact ihb _

theorem sum_map_flatMap {β γ : Type} (L : List β) (g : β → List γ) (h : γ → α) :
    ((L.flatMap g).map h).sum = (L.map fun i => ((g i).map h).sum).sum := by
  induction L with
  | nil => simp
  | cons a t ih => rw [List.flatMap_cons, List.map_append, List.sum_append, ih]; simp

/-- element loop = `(weights * sample.eval(f)).sum()` -/
theorem loop_eq_flat (w : LeafPt → α) (s : SampleExpr) (hs : Valid s) (f : Pt → α) :
    loopIntegral w s f = flatWeightedSum w s f := by
  have hp := part_of_valid hs
  unfold flatWeightedSum loopIntegral
  have hperm : (((List.range (nelems s)).flatMap (getindex s)).map fun q => weightAt w s q * bindAt s f q).Perm
      ((List.range (npoints s)).map fun q => weightAt w s q * bindAt s f q) :=
    (flat_perm hp).map (fun q => weightAt w s q * bindAt s f q)
  rw [← hperm.sum_eq, sum_map_flatMap]
  congr 1
  apply List.map_congr_left
  intro i hi
  have hi := List.mem_range.1 hi
  unfold dot
  congr 1
  apply List.ext_getElem?
  intro k
  rw [List.getElem?_map, List.getElem?_zipWith, List.getElem?_map]
  cases hq : (getindex s i)[k]? with
  | none =>
    have hk : (getindex s i).length ≤ k := by
      rcases Nat.lt_or_ge k (getindex s i).length with h | h
      · rw [List.getElem?_eq_getElem h] at hq; cases hq
      · exact h
    rw [List.getElem?_eq_none (by rw [wts_length]; exact hk)]
    simp
  | some q =>
    have hk := (List.getElem?_eq_some_iff.1 hq).1
    have hw : (wts w s i)[k]? = some ((wts w s i)[k]'(by rw [wts_length]; exact hk)) :=
      List.getElem?_eq_getElem _
    have hP : (pts s i)[k]? = some ((pts s i)[k]'(by rw [pts_length]; exact hk)) :=
      List.getElem?_eq_getElem _
    rw [hw, hP]
    simp only [Option.map_some]
    rw [bindAt_getindex s hs f i k q _ hq hP]
    unfold weightAt
    have hsc : scatterAt (nelems s) (getindex s) (wts w s) q = (wts w s i)[k]'(by rw [wts_length]; exact hk) :=
      scatterAt_hit (nelems s) (getindex s) (wts w s) hp.nodup hp.disj i k q _ hi hq hw
    rw [hsc]
end

end NutilsVerif.C09
