import NutilsVerif.Proofs.C04Real
/-!
# C04 — derivative facts over ℝ that Mathlib does not state in the needed form
(tanh, artanh, the partial derivatives of `arctan2`, min/max/abs/sign away from their kinks, floor and the
comparisons away from their jumps)
-/
noncomputable section
namespace NutilsVerif.C04
open Real Filter Topology Set

theorem hasDerivAt_tanh (x : ℝ) : HasDerivAt tanh (1 - tanh x ^ 2) x := by
  have hc : cosh x ≠ 0 := ne_of_gt (Real.cosh_pos x)
  have h := (Real.hasDerivAt_sinh x).div (Real.hasDerivAt_cosh x) hc
  have e : (fun t => sinh t / cosh t) = tanh := by funext t; exact (Real.tanh_eq_sinh_div_cosh t).symm
  have h' : HasDerivAt tanh ((cosh x * cosh x - sinh x * sinh x) / cosh x ^ 2) x := by
    rw [← e]; exact h
  convert h' using 1
  rw [Real.tanh_eq_sinh_div_cosh]
  field_simp

theorem hasDerivAt_artanh {x : ℝ} (h1 : -1 < x) (h2 : x < 1) : HasDerivAt artanh (1 - x ^ 2)⁻¹ x := by
  have hev : artanh =ᶠ[𝓝 x] fun t => 1 / 2 * log ((1 + t) / (1 - t)) := by
    filter_upwards [Ioo_mem_nhds h1 h2] with t ht
    exact artanh_eq_half_log ⟨ht.1.le, ht.2.le⟩
  refine HasDerivAt.congr_of_eventuallyEq ?_ hev
  have ha : (0 : ℝ) < 1 - x := by linarith
  have hb : (0 : ℝ) < 1 + x := by linarith
  have hp : (1 + x) / (1 - x) ≠ 0 := by positivity
  have hn : HasDerivAt (fun t : ℝ => 1 + t) 1 x := by simpa using (hasDerivAt_id x).const_add 1
  have hm : HasDerivAt (fun t : ℝ => 1 - t) (-1) x := by simpa using (hasDerivAt_id x).const_sub 1
  have hd : HasDerivAt (fun t : ℝ => (1 + t) / (1 - t)) ((1 * (1 - x) - (1 + x) * -1) / (1 - x) ^ 2) x :=
    hn.fun_div hm (ne_of_gt ha)
  refine ((hd.log hp).const_mul (1 / 2)).congr_deriv ?_
  have h3 : (1 : ℝ) - x ^ 2 = (1 - x) * (1 + x) := by ring
  rw [h3]
  field_simp
  ring

/-- ∂/∂y arctan2(y, x), away from the line `x = 0` and the branch cut -/
theorem hasDerivAt_arctan2_fst {y x : ℝ} (hx : x ≠ 0) (h : 0 < x ∨ y ≠ 0) :
    HasDerivAt (fun t => arctan2 t x) (x / (y ^ 2 + x ^ 2)) y := by
  have hbase : ∀ c : ℝ, HasDerivAt (fun t => arctan (t / x) + c) (x / (y ^ 2 + x ^ 2)) y := by
    intro c
    have h1 : HasDerivAt (fun t : ℝ => t / x) (1 / x) y := (hasDerivAt_id' y).div_const x
    have h2 : HasDerivAt (fun t : ℝ => arctan (t / x)) (1 / (1 + (y / x) ^ 2) * (1 / x)) y := h1.arctan
    refine (h2.add_const c).congr_deriv ?_
    field_simp
    ring
  rcases lt_or_gt_of_ne hx with hneg | hpos
  · have hy : y ≠ 0 := by
      rcases h with h | h
      · exact absurd h (not_lt.mpr hneg.le)
      · exact h
    rcases lt_or_gt_of_ne hy with hyn | hyp
    · refine (hbase (-π)).congr_of_eventuallyEq ?_
      filter_upwards [Iio_mem_nhds hyn] with t ht
      simp only [arctan2, not_lt.mpr hneg.le, if_false, hneg, if_true, not_le.mpr (show t < 0 from ht)]
      ring
    · refine (hbase π).congr_of_eventuallyEq ?_
      filter_upwards [Ioi_mem_nhds hyp] with t ht
      simp only [arctan2, not_lt.mpr hneg.le, if_false, hneg, if_true, (show (0:ℝ) ≤ t from le_of_lt ht)]
  · refine (hbase 0).congr_of_eventuallyEq (Eventually.of_forall fun t => ?_)
    simp [arctan2, hpos]

/-- ∂/∂x arctan2(y, x), away from the line `x = 0` and the branch cut -/
theorem hasDerivAt_arctan2_snd {y x : ℝ} (hx : x ≠ 0) (h : 0 < x ∨ y ≠ 0) :
    HasDerivAt (fun t => arctan2 y t) (-y / (y ^ 2 + x ^ 2)) x := by
  have hbase : ∀ c : ℝ, HasDerivAt (fun t => arctan (y / t) + c) (-y / (y ^ 2 + x ^ 2)) x := by
    intro c
    have h1 : HasDerivAt (fun t : ℝ => y / t) (-y / x ^ 2) x :=
      ((hasDerivAt_const x y).fun_div (hasDerivAt_id' x) hx).congr_deriv (by simp)
    have h2 : HasDerivAt (fun t : ℝ => arctan (y / t)) (1 / (1 + (y / x) ^ 2) * (-y / x ^ 2)) x := h1.arctan
    refine (h2.add_const c).congr_deriv ?_
    field_simp
    ring
  rcases lt_or_gt_of_ne hx with hneg | hpos
  · have hy : y ≠ 0 := by
      rcases h with h | h
      · exact absurd h (not_lt.mpr hneg.le)
      · exact h
    rcases lt_or_gt_of_ne hy with hyn | hyp
    · refine (hbase (-π)).congr_of_eventuallyEq ?_
      filter_upwards [Iio_mem_nhds hneg] with t ht
      simp only [arctan2, not_lt.mpr (le_of_lt (show t < 0 from ht)), if_false, (show t < 0 from ht), if_true, not_le.mpr hyn]
      ring
    · refine (hbase π).congr_of_eventuallyEq ?_
      filter_upwards [Iio_mem_nhds hneg] with t ht
      simp only [arctan2, not_lt.mpr (le_of_lt (show t < 0 from ht)), if_false, (show t < 0 from ht), if_true, le_of_lt hyp]
  · refine (hbase 0).congr_of_eventuallyEq ?_
    filter_upwards [Ioi_mem_nhds hpos] with t ht
    simp [arctan2, (show 0 < t from ht)]

theorem hasDerivAt_min_left {a b : ℝ} (h : a ≠ b) : HasDerivAt (fun t => min t b) (2⁻¹ - 2⁻¹ * Real.sign (a - b)) a := by
  rcases lt_or_gt_of_ne h with hlt | hgt
  · rw [Real.sign_of_neg (by linarith)]
    have : HasDerivAt (fun t : ℝ => t) (2⁻¹ - 2⁻¹ * (-1)) a := (hasDerivAt_id' a).congr_deriv (by norm_num)
    refine this.congr_of_eventuallyEq ?_
    filter_upwards [Iio_mem_nhds hlt] with t ht
    exact min_eq_left (le_of_lt ht)
  · rw [Real.sign_of_pos (by linarith)]
    have : HasDerivAt (fun _ : ℝ => b) (2⁻¹ - 2⁻¹ * 1) a := (hasDerivAt_const a b).congr_deriv (by norm_num)
    refine this.congr_of_eventuallyEq ?_
    filter_upwards [Ioi_mem_nhds hgt] with t ht
    exact min_eq_right (le_of_lt ht)

theorem hasDerivAt_max_left {a b : ℝ} (h : a ≠ b) : HasDerivAt (fun t => max t b) (2⁻¹ + 2⁻¹ * Real.sign (a - b)) a := by
  rcases lt_or_gt_of_ne h with hlt | hgt
  · rw [Real.sign_of_neg (by linarith)]
    have : HasDerivAt (fun _ : ℝ => b) (2⁻¹ + 2⁻¹ * (-1)) a := (hasDerivAt_const a b).congr_deriv (by norm_num)
    refine this.congr_of_eventuallyEq ?_
    filter_upwards [Iio_mem_nhds hlt] with t ht
    exact max_eq_right (le_of_lt ht)
  · rw [Real.sign_of_pos (by linarith)]
    have : HasDerivAt (fun t : ℝ => t) (2⁻¹ + 2⁻¹ * 1) a := (hasDerivAt_id' a).congr_deriv (by norm_num)
    refine this.congr_of_eventuallyEq ?_
    filter_upwards [Ioi_mem_nhds hgt] with t ht
    exact max_eq_left (le_of_lt ht)

theorem hasDerivAt_min_right {a b : ℝ} (h : a ≠ b) : HasDerivAt (fun t => min a t) (2⁻¹ + 2⁻¹ * Real.sign (a - b)) b := by
  have := hasDerivAt_min_left (a := b) (b := a) (Ne.symm h)
  have e : (fun t => min a t) = fun t => min t a := by funext t; exact min_comm a t
  rw [e]
  refine this.congr_deriv ?_
  rcases lt_or_gt_of_ne h with hlt | hgt
  · rw [Real.sign_of_pos (show 0 < b - a by linarith), Real.sign_of_neg (show a - b < 0 by linarith)]; ring
  · rw [Real.sign_of_neg (show b - a < 0 by linarith), Real.sign_of_pos (show 0 < a - b by linarith)]; ring

theorem hasDerivAt_max_right {a b : ℝ} (h : a ≠ b) : HasDerivAt (fun t => max a t) (2⁻¹ - 2⁻¹ * Real.sign (a - b)) b := by
  have := hasDerivAt_max_left (a := b) (b := a) (Ne.symm h)
  have e : (fun t => max a t) = fun t => max t a := by funext t; exact max_comm a t
  rw [e]
  refine this.congr_deriv ?_
  rcases lt_or_gt_of_ne h with hlt | hgt
  · rw [Real.sign_of_pos (show 0 < b - a by linarith), Real.sign_of_neg (show a - b < 0 by linarith)]; ring
  · rw [Real.sign_of_neg (show b - a < 0 by linarith), Real.sign_of_pos (show 0 < a - b by linarith)]; ring

/-- a function that is locally constant at `a` has derivative 0 there -/
theorem hasDerivAt_of_eventually_const {f : ℝ → ℝ} {a c : ℝ} (h : ∀ᶠ t in 𝓝 a, f t = c) : HasDerivAt f 0 a :=
  (hasDerivAt_const a c).congr_of_eventuallyEq h

theorem hasDerivAt_sign {a : ℝ} (h : a ≠ 0) : HasDerivAt Real.sign 0 a := by
  rcases lt_or_gt_of_ne h with hlt | hgt
  · exact hasDerivAt_of_eventually_const (c := -1) (by filter_upwards [Iio_mem_nhds hlt] with t ht; exact Real.sign_of_neg ht)
  · exact hasDerivAt_of_eventually_const (c := 1) (by filter_upwards [Ioi_mem_nhds hgt] with t ht; exact Real.sign_of_pos ht)

theorem hasDerivAt_abs' {a : ℝ} (h : a ≠ 0) : HasDerivAt (fun t => |t|) (Real.sign a) a := by
  rcases lt_or_gt_of_ne h with hlt | hgt
  · rw [Real.sign_of_neg hlt]
    refine (hasDerivAt_neg' a).congr_of_eventuallyEq ?_
    filter_upwards [Iio_mem_nhds hlt] with t ht
    exact abs_of_neg ht
  · rw [Real.sign_of_pos hgt]
    refine (hasDerivAt_id' a).congr_of_eventuallyEq ?_
    filter_upwards [Ioi_mem_nhds hgt] with t ht
    exact abs_of_pos ht

/-- `x · sign x` (what the code builds for `abs`) -/
theorem hasDerivAt_sign_mul {a : ℝ} (h : a ≠ 0) : HasDerivAt (fun t => Real.sign t * t) (Real.sign a) a := by
  exact ((hasDerivAt_sign h).fun_mul (hasDerivAt_id' a)).congr_deriv (by simp)

theorem floor_eventually_const {a : ℝ} (h : ∀ n : ℤ, a ≠ n) : ∀ᶠ t in 𝓝 a, (⌊t⌋ : ℝ) = (⌊a⌋ : ℝ) := by
  have h1 : (⌊a⌋ : ℝ) < a := lt_of_le_of_ne (Int.floor_le a) (fun e => h ⌊a⌋ e.symm)
  have h2 : a < (⌊a⌋ : ℝ) + 1 := Int.lt_floor_add_one a
  filter_upwards [Ioo_mem_nhds h1 h2] with t ht
  have : ⌊t⌋ = ⌊a⌋ := Int.floor_eq_iff.mpr ⟨le_of_lt ht.1, ht.2⟩
  rw [this]

theorem hasDerivAt_floor {a : ℝ} (h : ∀ n : ℤ, a ≠ n) : HasDerivAt (fun t : ℝ => (⌊t⌋ : ℝ)) 0 a :=
  hasDerivAt_of_eventually_const (floor_eventually_const h)

/-- a locally constant function of a continuous function is locally constant -/
theorem eventually_const_comp {f : ℝ → ℝ} {g : ℝ → ℝ} {a c : ℝ} (hf : ContinuousAt f a)
    (hg : ∀ᶠ y in 𝓝 (f a), g y = c) : ∀ᶠ t in 𝓝 a, g (f t) = c := hf.eventually hg

theorem lt_eventually_const {a b : ℝ} (h : a ≠ b) :
    ∀ᶠ t in 𝓝 a, (if t < b then (1 : ℝ) else 0) = (if a < b then 1 else 0) := by
  rcases lt_or_gt_of_ne h with hlt | hgt
  · filter_upwards [Iio_mem_nhds hlt] with t ht
    simp [hlt, (show t < b from ht)]
  · filter_upwards [Ioi_mem_nhds hgt] with t ht
    simp [not_lt.mpr hgt.le, not_lt.mpr (le_of_lt (show b < t from ht))]

theorem gt_eventually_const {a b : ℝ} (h : a ≠ b) :
    ∀ᶠ t in 𝓝 a, (if b < t then (1 : ℝ) else 0) = (if b < a then 1 else 0) := by
  rcases lt_or_gt_of_ne h with hlt | hgt
  · filter_upwards [Iio_mem_nhds hlt] with t ht
    simp [not_lt.mpr hlt.le, not_lt.mpr (le_of_lt (show t < b from ht))]
  · filter_upwards [Ioi_mem_nhds hgt] with t ht
    simp [hgt, (show b < t from ht)]

theorem eq_eventually_const {a b : ℝ} (h : a ≠ b) : ∀ᶠ t in 𝓝 a, (if t = b then (1 : ℝ) else 0) = 0 := by
  filter_upwards [isOpen_ne.mem_nhds h] with t ht
  simp [show t ≠ b from ht]

theorem eq_eventually_const' {a b : ℝ} (h : a ≠ b) : ∀ᶠ t in 𝓝 a, (if b = t then (1 : ℝ) else 0) = 0 := by
  filter_upwards [isOpen_ne.mem_nhds h] with t ht
  simp [show b ≠ t from fun e => ht e.symm]

theorem hasDerivAt_fdiv_left {a b : ℝ} (h : ∀ n : ℤ, a / b ≠ n) :
    HasDerivAt (fun t : ℝ => (⌊t / b⌋ : ℝ)) 0 a :=
  hasDerivAt_of_eventually_const (c := (⌊a / b⌋ : ℝ))
    (eventually_const_comp (f := fun t => t / b) (g := fun y => (⌊y⌋ : ℝ)) (continuousAt_id.div_const b) (floor_eventually_const h))

theorem hasDerivAt_fdiv_right {a b : ℝ} (hb : b ≠ 0) (h : ∀ n : ℤ, a / b ≠ n) :
    HasDerivAt (fun t : ℝ => (⌊a / t⌋ : ℝ)) 0 b :=
  hasDerivAt_of_eventually_const (c := (⌊a / b⌋ : ℝ))
    (eventually_const_comp (f := fun t => a / t) (g := fun y => (⌊y⌋ : ℝ)) (continuousAt_const.div continuousAt_id hb) (floor_eventually_const h))

end NutilsVerif.C04
