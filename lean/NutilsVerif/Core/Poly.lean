/-!
# Sparse multivariate polynomials over ℚ with uninterpreted atoms  (no Mathlib)

The scalar carrier of the specification-level evaluator (`Model/Expr.lean`).  A value is a
polynomial whose indeterminates ("atoms") are identified by a canonical string key: either an
entry of a real-valued argument (`x[0,1]`) or an uninterpreted application `f(<keys of the
normalised arguments>)` of a non-polynomial scalar function (sin, abs, sign, inv, …).
Constant polynomials are exactly the rationals, so concrete exact evaluation is the special case
without atoms.  Equal normal forms ⇒ equal values under every interpretation of the atoms
(`Props/Poly.lean`), which is what turns one symbolic evaluation into a statement about all real
argument values.
-/
namespace NutilsVerif

/-- a monomial: atoms (by key) with positive exponents, sorted by key, keys distinct -/
abbrev Mono := List (String × Nat)

namespace Mono

def cmp : Mono → Mono → Ordering
  | [], [] => .eq
  | [], _ :: _ => .lt
  | _ :: _, [] => .gt
  | (a, m) :: s, (b, n) :: t =>
    match compare a b with
    | .lt => .lt
    | .gt => .gt
    | .eq => match compare m n with
      | .lt => .lt
      | .gt => .gt
      | .eq => cmp s t

/-- product of monomials: merge of sorted atom lists adding exponents -/
def mul : Mono → Mono → Mono
  | [], t => t
  | s, [] => s
  | (a, m) :: s, (b, n) :: t =>
    match compare a b with
    | .lt => (a, m) :: mul s ((b, n) :: t)
    | .gt => (b, n) :: mul ((a, m) :: s) t
    | .eq => (a, m + n) :: mul s t
termination_by s t => s.length + t.length

def key (m : Mono) : String :=
  "*".intercalate (m.map fun (a, n) => if n == 1 then a else s!"{a}^{n}")

end Mono

/-- polynomial: monomials with non-zero rational coefficients, strictly sorted by `Mono.cmp` -/
structure Poly where
  terms : List (Mono × Rat)
deriving Inhabited

namespace Poly

def zero : Poly := ⟨[]⟩
def ofRat (q : Rat) : Poly := if q == 0 then ⟨[]⟩ else ⟨[([], q)]⟩
def ofInt (z : Int) : Poly := ofRat z
def one : Poly := ofRat 1
def atom (key : String) : Poly := ⟨[([(key, 1)], 1)]⟩

instance : OfNat Poly n := ⟨ofRat n⟩

/-- insert one term into a sorted term list, merging equal monomials and dropping zeros -/
def insertTerm (m : Mono) (c : Rat) : List (Mono × Rat) → List (Mono × Rat)
  | [] => if c == 0 then [] else [(m, c)]
  | (m', c') :: t =>
    match Mono.cmp m m' with
    | .lt => if c == 0 then (m', c') :: t else (m, c) :: (m', c') :: t
    | .eq => if c + c' == 0 then t else (m, c + c') :: t
    | .gt => (m', c') :: insertTerm m c t

def addTerms (a b : List (Mono × Rat)) : List (Mono × Rat) :=
  a.foldl (fun acc (m, c) => insertTerm m c acc) b

def add (p q : Poly) : Poly := ⟨addTerms p.terms q.terms⟩
def neg (p : Poly) : Poly := ⟨p.terms.map fun (m, c) => (m, -c)⟩
def sub (p q : Poly) : Poly := add p (neg q)
def scale (c : Rat) (p : Poly) : Poly := if c == 0 then zero else ⟨p.terms.map fun (m, d) => (m, c * d)⟩

def mul (p q : Poly) : Poly :=
  ⟨p.terms.foldl (fun acc (m, c) => q.terms.foldl (fun acc (m', c') => insertTerm (Mono.mul m m') (c * c') acc) acc) []⟩

instance : Add Poly := ⟨add⟩
instance : Mul Poly := ⟨mul⟩
instance : Neg Poly := ⟨neg⟩
instance : Sub Poly := ⟨sub⟩

def npow (p : Poly) : Nat → Poly
  | 0 => one
  | n + 1 => mul (npow p n) p

/-- the rational value of a constant polynomial -/
def toRat? (p : Poly) : Option Rat :=
  match p.terms with
  | [] => some 0
  | [([], c)] => some c
  | _ => none

def toInt? (p : Poly) : Option Int :=
  match p.toRat? with
  | some q => if q.den == 1 then some q.num else none
  | none => none

def isZero (p : Poly) : Bool := p.terms.isEmpty

def ratKey (q : Rat) : String := if q.den == 1 then toString q.num else s!"{q.num}/{q.den}"

/-- canonical printing (used as key of atoms that contain polynomials, and in the line protocol) -/
def key (p : Poly) : String :=
  if p.terms.isEmpty then "0" else
  "+".intercalate (p.terms.map fun (m, c) => if m.isEmpty then ratKey c else s!"{ratKey c}*{Mono.key m}")

instance : BEq Poly := ⟨fun p q => p.terms == q.terms⟩

/-! ### non-polynomial scalar functions

`app f args` computes the value when all arguments are constants and the function has an exact
rational meaning at that point; otherwise it returns the uninterpreted atom `f(args)` (or `none`
when the function is *undefined* at constant arguments, e.g. division by zero). -/

def floorDiv (a b : Int) : Int := Int.fdiv a b
def floorMod (a b : Int) : Int := Int.fmod a b

/-- integer square root test on naturals -/
def natSqrt? (n : Nat) : Option Nat :=
  let r := Nat.sqrt n
  if r * r == n then some r else none

def ratSqrt? (q : Rat) : Option Rat :=
  if q < 0 then none else
  match natSqrt? q.num.toNat, natSqrt? q.den with
  | some a, some b => some ((a : Rat) / (b : Rat))
  | _, _ => none

def ratPowInt (q : Rat) (e : Int) : Option Rat :=
  if e ≥ 0 then some (q ^ e.toNat) else if q == 0 then none else some ((1 / q) ^ (-e).toNat)

def symbolic (f : String) (args : List Poly) : Poly :=
  atom (f ++ "(" ++ ",".intercalate (args.map key) ++ ")")

/-- Result of applying a scalar function: a value, or `none` = undefined at this (constant) point. -/
def app (f : String) (args : List Poly) : Option Poly :=
  match f, args, args.mapM toRat? with
  | "abs", _, some [x] => some (ofRat (if x < 0 then -x else x))
  | "sign", _, some [x] => some (ofRat (if x < 0 then -1 else if x == 0 then 0 else 1))
  | "inv", _, some [x] => if x == 0 then none else some (ofRat (1 / x))
  | "min", _, some [x, y] => some (ofRat (if x ≤ y then x else y))
  | "max", _, some [x, y] => some (ofRat (if x ≤ y then y else x))
  | "less", _, some [x, y] => some (ofRat (if x < y then 1 else 0))
  | "greater", _, some [x, y] => some (ofRat (if x > y then 1 else 0))
  | "equal", _, some [x, y] => some (ofRat (if x == y then 1 else 0))
  | "not", _, some [x] => some (ofRat (if x == 0 then 1 else 0))
  | "floor", _, some [x] => some (ofRat x.floor)
  | "fdiv", _, some [x, y] => if y == 0 then none else some (ofRat (x / y).floor)
  | "fmod", _, some [x, y] => if y == 0 then none else some (ofRat (x - y * (x / y).floor))
  | "pow", [p, _], some [x, y] =>
      if y.den == 1 then
        (if y.num ≥ 0 then some (npow p y.num.toNat) else (ratPowInt x y.num).map ofRat)
      else if y.den == 2 then
        (if x < 0 then none else match ratSqrt? x with
          | some r => (ratPowInt r y.num).map ofRat
          | none => if x == 0 && y < 0 then none else some (symbolic f args))
      else if x < 0 then none else if x == 0 then (if y > 0 then some zero else none)
      else if x == 1 then some one else some (symbolic f args)
  | "pow", [p, e], none =>
      match e.toRat? with
      | some y => if y.den == 1 && y.num ≥ 0 then some (npow p y.num.toNat) else some (symbolic f args)
      | none => some (symbolic f args)
  | "sqrt", _, some [x] => if x < 0 then none else match ratSqrt? x with | some r => some (ofRat r) | none => some (symbolic f args)
  | "exp", _, some [x] => if x == 0 then some one else some (symbolic f args)
  | "log", _, some [x] => if x ≤ 0 then none else if x == 1 then some zero else some (symbolic f args)
  | "sin", _, some [x] => if x == 0 then some zero else some (symbolic f args)
  | "cos", _, some [x] => if x == 0 then some one else some (symbolic f args)
  | "tan", _, some [x] => if x == 0 then some zero else some (symbolic f args)
  | "arcsin", _, some [x] => if x < -1 || x > 1 then none else if x == 0 then some zero else some (symbolic f args)
  | "arccos", _, some [x] => if x < -1 || x > 1 then none else if x == 1 then some zero else some (symbolic f args)
  | "arctan", _, some [x] => if x == 0 then some zero else some (symbolic f args)
  | "sinh", _, some [x] => if x == 0 then some zero else some (symbolic f args)
  | "cosh", _, some [x] => if x == 0 then some one else some (symbolic f args)
  | "tanh", _, some [x] => if x == 0 then some zero else some (symbolic f args)
  | "arctanh", _, some [x] => if x ≤ -1 || x ≥ 1 then none else if x == 0 then some zero else some (symbolic f args)
  | _, _, _ => some (symbolic f args)

end Poly
end NutilsVerif
