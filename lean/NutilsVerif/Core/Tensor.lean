/-!
# Dense tensors as (shape, row-major data), with every operation defined through an index function
(no Mathlib).

`ofFn shape f` tabulates `f` over the box of multi-indices of `shape` in row-major order, and every
array operation of the evaluable IR is *defined* as `ofFn newShape (fun idx => … t.get …)`: the
definition is the NumPy meaning of the operation written as an index formula.  `Props/Tensor.lean`
proves `get_ofFn` (tabulate-then-get is the function) and the algebraic laws the simplifier relies on.
-/
namespace NutilsVerif

def shapeSize (s : List Nat) : Nat := s.foldr (· * ·) 1

/-- row-major flat position of a multi-index -/
def flatIdx : List Nat → List Nat → Nat
  | n :: s, i :: idx => i * shapeSize s + flatIdx s idx
  | _, _ => 0

/-- multi-index of a flat position (row-major) -/
def unflatIdx : List Nat → Nat → List Nat
  | [], _ => []
  | _ :: s, k => (k / shapeSize s) :: unflatIdx s (k % shapeSize s)

def inBox : List Nat → List Nat → Bool
  | [], [] => true
  | n :: s, i :: idx => decide (i < n) && inBox s idx
  | _, _ => false

structure Tensor (α : Type) where
  shape : List Nat
  data : Array α
deriving Repr

namespace Tensor
variable {α : Type} [Inhabited α]

def ofFn (shape : List Nat) (f : List Nat → α) : Tensor α :=
  ⟨shape, Array.ofFn (n := shapeSize shape) fun k => f (unflatIdx shape k.val)⟩

def get (t : Tensor α) (idx : List Nat) : α := t.data.getD (flatIdx t.shape idx) default

def scalar (a : α) : Tensor α := ⟨[], #[a]⟩
def ndim (t : Tensor α) : Nat := t.shape.length
def size (t : Tensor α) : Nat := shapeSize t.shape
def wf (t : Tensor α) : Bool := t.data.size == shapeSize t.shape

def map {β : Type} (f : α → β) (t : Tensor α) : Tensor β := ⟨t.shape, t.data.map f⟩

def zipWith {β γ : Type} [Inhabited β] [Inhabited γ] (f : α → β → γ) (a : Tensor α) (b : Tensor β) : Tensor γ :=
  ofFn a.shape fun idx => f (a.get idx) (b.get idx)

def full (shape : List Nat) (a : α) : Tensor α := ofFn shape fun _ => a

/-- all multi-indices of a shape, row-major -/
def indices (shape : List Nat) : List (List Nat) :=
  (List.range (shapeSize shape)).map (unflatIdx shape)

/-! ### structural operations (NumPy meaning as index formulas) -/

/-- `InsertAxis`: append an axis of length `n` (value independent of the new index) -/
def insertAxis (t : Tensor α) (n : Nat) : Tensor α :=
  ofFn (t.shape ++ [n]) fun idx => t.get idx.dropLast

/-- `numpy.transpose(t, axes)`: result axis `i` is source axis `axes[i]` -/
def transpose (t : Tensor α) (axes : List Nat) : Tensor α :=
  ofFn (axes.map fun a => t.shape.getD a 0) fun idx =>
    t.get ((List.range t.shape.length).map fun a => idx.getD (axes.idxOf a) 0)

/-- `TakeDiag`: diagonal of the last two axes -/
def takeDiag (t : Tensor α) : Tensor α :=
  ofFn t.shape.dropLast fun idx => t.get (idx ++ [idx.getLastD 0])

/-- `Diagonalize`: last axis becomes the diagonal of two -/
def diagonalize (zero : α) (t : Tensor α) : Tensor α :=
  ofFn (t.shape ++ [t.shape.getLastD 0]) fun idx =>
    let j := idx.getLastD 0
    let pre := idx.dropLast
    if pre.getLastD 0 == j then t.get pre else zero

/-- `Take(func, indices)`: last axis of `t` indexed by an integer tensor (already normalised to ℕ) -/
def take (t : Tensor α) (ind : Tensor Nat) : Tensor α :=
  let na := t.shape.length - 1
  ofFn (t.shape.dropLast ++ ind.shape) fun idx =>
    t.get (idx.take na ++ [ind.get (idx.drop na)])

/-- reduce the last axis with `op` starting from `unit` -/
def reduceLast (op : α → α → α) (unit : α) (t : Tensor α) : Tensor α :=
  let n := t.shape.getLastD 0
  ofFn t.shape.dropLast fun idx => (List.range n).foldl (fun acc k => op acc (t.get (idx ++ [k]))) unit

/-- `Inflate(func, dofmap, length)`: scatter-add the trailing `dofmap.ndim` axes into one axis -/
def inflate (add : α → α → α) (zero : α) (t : Tensor α) (dofmap : Tensor Nat) (length : Nat) : Tensor α :=
  let na := t.shape.length - dofmap.shape.length
  let ds := indices dofmap.shape
  ofFn (t.shape.take na ++ [length]) fun idx =>
    let a := idx.take na
    let k := idx.getLastD 0
    ds.foldl (fun acc d => if dofmap.get d == k then add acc (t.get (a ++ d)) else acc) zero

/-- `Ravel`: merge the last two axes -/
def ravel (t : Tensor α) : Tensor α :=
  let n := t.shape.length
  let b := t.shape.getD (n-1) 0
  ofFn (t.shape.take (n-2) ++ [t.shape.getD (n-2) 0 * b]) fun idx =>
    let k := idx.getLastD 0
    t.get (idx.dropLast ++ [k / b, k % b])

/-- `Unravel`: split the last axis into `(a, b)` -/
def unravel (t : Tensor α) (a b : Nat) : Tensor α :=
  ofFn (t.shape.dropLast ++ [a, b]) fun idx =>
    let n := idx.length
    t.get (idx.take (n-2) ++ [idx.getD (n-2) 0 * b + idx.getD (n-1) 0])

/-- concatenate along the last axis -/
def concatLast (parts : List (Tensor α)) (pre : List Nat) : Tensor α :=
  let lens := parts.map fun p => p.shape.getLastD 0
  let total := lens.foldl (· + ·) 0
  ofFn (pre ++ [total]) fun idx =>
    let k := idx.getLastD 0
    let rec go : List (Tensor α) → Nat → α
      | [], _ => default
      | p :: ps, k => let n := p.shape.getLastD 0; if k < n then p.get (idx.dropLast ++ [k]) else go ps (k - n)
    go parts k

/-- slice of the last axis `[offset, offset+length)` -/
def sliceLast (t : Tensor α) (offset length : Nat) : Tensor α :=
  ofFn (t.shape.dropLast ++ [length]) fun idx => t.get (idx.dropLast ++ [idx.getLastD 0 + offset])

def toList (t : Tensor α) : List α := t.data.toList

end Tensor
end NutilsVerif
