/-!
Line-protocol helpers shared by all drivers (no Mathlib).

A request line is `op|field|field|...`; a field is usually a space-separated list of
integers.  Responses are single lines.  Everything that is not understood is answered
with `bad-request ...` -- never with a default value.
-/
namespace NutilsVerif.Proto

def fields (line : String) : List String :=
  (line.splitOn "|").map (fun s => s.trimAscii.toString)

def words (s : String) : List String :=
  (s.splitOn " ").filter (· ≠ "")

def parseInts (s : String) : Option (List Int) :=
  (words s).mapM (fun w => w.toInt?)

def parseNats (s : String) : Option (List Nat) :=
  (words s).mapM (fun w => w.toNat?)

def showInts (l : List Int) : String :=
  " ".intercalate (l.map toString)

def showNats (l : List Nat) : String :=
  " ".intercalate (l.map toString)

def showRows (m : List (List Int)) : String :=
  ";".intercalate (m.map showInts)

/-- generic stdin loop: one answer line per request line -/
partial def loop (h : IO.FS.Stream) (f : String → String) : IO Unit := do
  let line ← h.getLine
  if line.isEmpty then return ()
  let l := if line.endsWith "\n" then (line.dropEnd 1).toString else line
  IO.println (f l)
  loop h f

def serve (f : String → String) : IO Unit := do
  loop (← IO.getStdin) f

end NutilsVerif.Proto
