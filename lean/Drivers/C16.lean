import NutilsVerif.Model.C16
open NutilsVerif NutilsVerif.Proto NutilsVerif.C16

/-! Driver for C16: line protocol, see `harness/nvh/c16.py`. -/

/-- `a,b` ↦ (a, b) -/
def parsePair (s : String) : Option (Int × Int) :=
  match s.splitOn "," with
  | [a, b] => do return (← a.toInt?, ← b.toInt?)
  | _ => none

/-- instruction template: `t`, `a<l>`, `r<l>`, `m<a>:<c>,<d>` (rmw a (c + d*i)), `p<c>,<d>:<e>,<f>` (put (c+d*i) (e+f*i)) -/
def parseInstr (tok : String) : Option (Nat → Instr Int) :=
  if tok == "t" then some fun _ => .tau
  else if tok.startsWith "a" then (tok.drop 1).toString.toNat?.map fun l => fun _ => .acq l
  else if tok.startsWith "r" then (tok.drop 1).toString.toNat?.map fun l => fun _ => .rel l
  else if tok.startsWith "m" then
    match ((tok.drop 1).toString).splitOn ":" with
    | [a, v] => do
      let a ← a.toNat?
      let (c, d) ← parsePair v
      return fun i => .rmw a (c + d * (i : Int))
    | _ => none
  else if tok.startsWith "p" then
    match ((tok.drop 1).toString).splitOn ":" with
    | [k, v] => do
      let (kc, kd) ← parsePair k
      let (c, d) ← parsePair v
      return fun i => .put (kc + kd * (i : Int)).toNat (c + d * (i : Int))
    | _ => none
  else none

def parseCode (s : String) : Option (Nat → List (Instr Int)) := do
  let is ← (words s).mapM parseInstr
  return fun i => is.map (· i)

def parseEv (tok : String) : Option Ev :=
  if tok.startsWith "s" then (tok.drop 1).toString.toNat?.map Ev.step
  else if tok.startsWith "k" then (tok.drop 1).toString.toNat?.map Ev.kill
  else if tok.startsWith "x" then (tok.drop 1).toString.toNat?.map Ev.raise
  else none

def pcName : PC Int → String
  | .idle => "idle"
  | .locked => "locked"
  | .read i => s!"read{i}"
  | .wrote i => s!"wrote{i}"
  | .body i h r => s!"body{i}:{r.length}:{h.length}"
  | .mid i _ a _ _ r => s!"mid{i}:{a}:{r.length}"
  | .done => "done"
  | .failed => "failed"

/-- what the event does in state `s` (name of the micro operation) -/
def opName (N n : Nat) (s : State Int) : Ev → String
  | .step w =>
    if ¬ (w < N ∧ s.dead w = false) then "noop"
    else match s.pc w with
      | .idle => if s.rlock.isNone then "acquire" else "blocked"
      | .locked => s!"get:{s.idx}"
      | .read i => if n ≤ i then "release-stop" else s!"set:{i+1}"
      | .wrote i => s!"release:{i}"
      | .body _ _ [] => "next"
      | .body _ _ (.tau :: _) => "tau"
      | .body _ _ (.acq l :: _) => if (s.locks l).isNone then s!"lock:{l}" else s!"lockblocked:{l}"
      | .body _ _ (.rel l :: _) => s!"unlock:{l}"
      | .body _ _ (.rmw a _ :: _) => s!"load:{a}"
      | .body _ _ (.put k _ :: _) => s!"put:{k}"
      | .mid _ _ a _ _ _ => s!"store:{a}"
      | .done => "noop"
      | .failed => "noop"
  | .kill w => if w < N ∧ (s.pc w).finished = false then "kill" else "noop"
  | .raise w => if w < N ∧ s.dead w = false ∧ (s.pc w).finished = false then "raise" else "noop"

def resultName : ForkResult → String
  | .returns => "returns"
  | .reraises k => s!"reraises:{showNats k}"
  | .forkFailed a b => s!"forkfailed:{a}:{b}"
  | .blocked => "blocked"

def runTrace (N n : Nat) (code : Nat → List (Instr Int)) (σ : List Ev) (s : State Int) : State Int × List String :=
  σ.foldl (fun (acc : State Int × List String) e => (applyEv N n code acc.1 e, opName N n acc.1 e :: acc.2)) (s, [])

def showOptInt : Option Int → String
  | none => "-"
  | some v => toString v

def handleSched (N n nArr nSlot : Nat) (code : Nat → List (Instr Int)) (σ : List Ev) : String :=
  let s0 : State Int := init (fun _ => 0) (fun _ => none)
  let (s, tr) := runTrace N n code σ s0
  let ser := serial n code (fun _ => 0) (fun _ => none)
  let claimed := " ".intercalate (s.claimed.map fun (w, i) => s!"{w}:{i}")
  let pcs := " ".intercalate ((List.range N).map fun w => pcName (s.pc w))
  let dead := " ".intercalate ((List.range N).map fun w => if s.dead w then "1" else "0")
  let shared := showInts ((List.range nArr).map s.shared)
  let slots := " ".intercalate ((List.range nSlot).map fun k => showOptInt (s.slots k))
  let sshared := showInts ((List.range nArr).map ser.1)
  let sslots := " ".intercalate ((List.range nSlot).map fun k => showOptInt (ser.2 k))
  let disc := if (List.range n).all (fun i => disc [] (code i)) then "1" else "0"
  let alldone := if decide (AllDone N s) then "1" else "0"
  s!"idx={s.idx}|claimed={claimed}|pcs={pcs}|dead={dead}|shared={shared}|slots={slots}|serial={sshared}|serialslots={sslots}|disc={disc}|alldone={alldone}|outcome={resultName (outcome N s)}|trace={" ".intercalate tr.reverse}"

/-! descriptor parser (prefix token stream, explicit counts) -/

def takeN (n : Nat) (ts : List String) : Option (List String × List String) :=
  if ts.length < n then none else some (ts.take n, ts.drop n)

def takeCounted (ts : List String) : Option (List String × List String) :=
  match ts with
  | k :: r => do takeN (← k.toNat?) r
  | [] => none

def parseKind : String → Option RhsKind
  | "shalloc" => some .shalloc
  | "lock" => some .lock
  | "fresh" => some .fresh
  | "view" => some .view
  | _ => none

mutual
  partial def parseStmt (ts : List String) : Option (SStmt × List String) :=
    match ts with
    | "A" :: lhs :: kind :: r => do
      let k ← parseKind kind
      let (reads, r) ← takeCounted r
      return (.assign lhs k reads, r)
    | "M" :: acc :: r => do
      let (base, r) ← takeCounted r
      let (index, r) ← takeCounted r
      let (reads, r) ← takeCounted r
      if acc == "acc" then return (.mutate true base index reads, r)
      else if acc == "other" then return (.mutate false base index reads, r)
      else none
    | "O" :: r => do
      let (reads, r) ← takeCounted r
      return (.other reads, r)
    | "W" :: l :: k :: r => do
      let (body, r) ← parseStmts (← k.toNat?) r
      return (.withLock l body, r)
    | "P" :: r => do
      let (binds, r) ← takeCounted r
      let (reads, r) ← takeCounted r
      match r with
      | k :: r => do
        let (body, r) ← parseStmts (← k.toNat?) r
        return (.par binds reads body, r)
      | [] => none
    | "B" :: r => do
      let (binds, r) ← takeCounted r
      let (reads, r) ← takeCounted r
      match r with
      | k :: r => do
        let (body, r) ← parseStmts (← k.toNat?) r
        return (.block binds reads body, r)
      | [] => none
    | "U" :: r => some (.unknown, r)
    | _ => none
  partial def parseStmts (k : Nat) (ts : List String) : Option (List SStmt × List String) :=
    match k with
    | 0 => some ([], ts)
    | k+1 => do
      let (s, r) ← parseStmt ts
      let (ss, r) ← parseStmts k r
      return (s :: ss, r)
end

partial def showB : BStmt → String
  | .plain => "."
  | .accum a => s!"acc{a}"
  | .slot => "slot"
  | .bad x => s!"BAD{x}"
  | .withLock l b => s!"L{l}[{" ".intercalate (b.map showB)}]"
  | .block b => s!"[{" ".intercalate (b.map showB)}]"

partial def badsOf : BStmt → List Nat
  | .bad x => [x]
  | .withLock _ b => b.flatMap badsOf
  | .block b => b.flatMap badsOf
  | _ => []

def parseStatus (tok : String) : Option ChildStatus :=
  if tok == "o" then some .other
  else if tok == "r" then some .running
  else if tok.startsWith "e" then (tok.drop 1).toString.toNat?.map ChildStatus.exited
  else if tok.startsWith "s" then (tok.drop 1).toString.toNat?.map ChildStatus.signaled
  else if tok.startsWith "t" then (tok.drop 1).toString.toNat?.map ChildStatus.stopped
  else none

def statusChar (st : Nat) : String :=
  match decodeStatus st with
  | .exited 0 => "T"
  | .exited _ => "e"
  | .signaled _ => "s"
  | .stopped _ => "t"
  | .other => "o"
  | .running => "r"

def handle (line : String) : String :=
  match fields line with
  | ["sched", N, n, nArr, nSlot, code, evs] =>
    match N.toNat?, n.toNat?, nArr.toNat?, nSlot.toNat?, parseCode code, (words evs).mapM parseEv with
    | some N, some n, some nArr, some nSlot, some code, some σ => handleSched N n nArr nSlot code σ
    | _, _, _, _, _, _ => "bad-request"
  | ["lockok", scratch, desc] =>
    match words desc with
    | k :: ts =>
      match k.toNat? with
      | some k =>
        match parseStmts k ts with
        | some (script, []) =>
          let bodies := loopBodies (words scratch) script
          let ok := scriptOK (words scratch) script
          let bads := (bodies.flatMap fun b => b.flatMap badsOf).eraseDups
          let perBody := " ".intercalate (bodies.map fun b => if lockOK b then "1" else "0")
          s!"ok={if ok then 1 else 0}|nbodies={bodies.length}|perbody={perBody}|bad={showNats bads}|{" ;; ".intercalate (bodies.map fun b => " ".intercalate (b.map showB))}"
        | _ => "bad-request"
      | none => "bad-request"
    | [] => "bad-request"
  | ["fork", parent, sts] =>
    let p : Option BodyOutcome := match parent with
      | "ok" => some .ok
      | "raised" => some .raised
      | "running" => some .running
      | _ => none
    match p, (words sts).mapM parseStatus with
    | some p, some cs => resultName (forkResult p cs)
    | _, _ => "bad-request"
  | ["wait", lo, hi] =>
    match lo.toNat?, hi.toNat? with
    | some lo, some hi => "".intercalate ((List.range (hi - lo)).map fun k => statusChar (lo + k))
    | _, _ => "bad-request"
  | ["width", k, maxp] =>
    match maxp.toNat? with
    | some maxp =>
      if k == "none" then toString (forkWidth none maxp)
      else match k.toNat? with
        | some k => toString (forkWidth (some k) maxp)
        | none => "bad-request"
    | none => "bad-request"
  | _ => "bad-request"

def main : IO Unit := serve handle
