import NutilsVerif.Core.Proto
import NutilsVerif.Model.C03
open NutilsVerif NutilsVerif.Proto NutilsVerif.C03

/-!
Requests
* `check|<consts>|<read-only consts>|<globals>|<ret>|<body tokens>` → the static verdict of `Model/C03.lean` on the abstract program
* `hist|<consts>|<read-only consts>|<globals>|<ret>|<body tokens>|<events>` → runs the abstract machine with a symbolic-free toy
  interpretation (numbers) over a history and reports per call whether the outcome equals the fresh outcome.
  events: `;`-separated, `c a:d:w:copy,...` (call with arguments name:data:writable:copy) or `u` (the user fills
  every writable array returned so far with 777)

body tokens (prefix form, all numbers except the keywords):
  stmt  := `n` | `o <tag> <basic>` | `s <k> stmt*k` | `l <cnt> <idx> stmt`
  basic := `F dst op k src*k` | `A dst a cop` | `V dst vop may src` | `W dst op k src*k` | `R v` | `G op k src*k` | `C`
-/


def pNat : List String → Option (Nat × List String)
  | t :: ts => t.toNat?.map (·, ts)
  | [] => none

def pNats : Nat → List String → Option (List Nat × List String)
  | 0, ts => some ([], ts)
  | k+1, ts => do
    let (a, ts) ← pNat ts
    let (as, ts) ← pNats k ts
    return (a :: as, ts)

def pBasic : List String → Option (Basic × List String)
  | "F" :: ts => do
    let (dst, ts) ← pNat ts; let (op, ts) ← pNat ts; let (k, ts) ← pNat ts; let (srcs, ts) ← pNats k ts
    return (.fresh dst op srcs, ts)
  | "A" :: ts => do
    let (dst, ts) ← pNat ts; let (a, ts) ← pNat ts; let (cop, ts) ← pNat ts
    return (.getarg dst a cop, ts)
  | "V" :: ts => do
    let (dst, ts) ← pNat ts; let (vop, ts) ← pNat ts; let (may, ts) ← pNat ts; let (src, ts) ← pNat ts
    return (.view dst vop (may != 0) src, ts)
  | "W" :: ts => do
    let (dst, ts) ← pNat ts; let (op, ts) ← pNat ts; let (k, ts) ← pNat ts; let (srcs, ts) ← pNats k ts
    return (.write dst op srcs, ts)
  | "R" :: ts => do
    let (v, ts) ← pNat ts
    return (.setro v, ts)
  | "G" :: ts => do
    let (op, ts) ← pNat ts; let (k, ts) ← pNat ts; let (srcs, ts) ← pNats k ts
    return (.guard op srcs, ts)
  | "C" :: ts => some (.clear, ts)
  | _ => none

def mkSeq : List Stmt → Stmt
  | [] => .nop
  | [s] => s
  | s :: ss => .seq s (mkSeq ss)

/-- right-nested `seq` with the last statement alone on the right when it is `first_run = False`
(so that `shapeOK` sees `seq main clear`) -/
def mkBody (ss : List Stmt) : Stmt :=
  match ss.getLast? with
  | some (.op .skip .clear) => .seq (mkSeq ss.dropLast) (.op .skip .clear)
  | _ => mkSeq ss

mutual
def pStmt : Nat → List String → Option (Stmt × List String)
  | 0, _ => none
  | _+1, "n" :: ts => some (.nop, ts)
  | _+1, "o" :: ts => do
    let (t, ts) ← pNat ts
    let tag ← (match t with | 0 => some Tag.skip | 1 => some Tag.shared | 2 => some Tag.rerun | _ => none)
    let (b, ts) ← pBasic ts
    return (.op tag b, ts)
  | fuel+1, "s" :: ts => do
    let (k, ts) ← pNat ts
    let (ss, ts) ← pStmts fuel k ts
    return (mkSeq ss, ts)
  | fuel+1, "l" :: ts => do
    let (cnt, ts) ← pNat ts; let (i, ts) ← pNat ts
    let (b, ts) ← pStmt fuel ts
    return (.loop cnt i b, ts)
  | _, _ => none
def pStmts : Nat → Nat → List String → Option (List Stmt × List String)
  | 0, _, _ => none
  | _, 0, ts => some ([], ts)
  | fuel+1, k+1, ts => do
    let (s, ts) ← pStmt fuel ts
    let (ss, ts) ← pStmts fuel k ts
    return (s :: ss, ts)
end

/-- top level: `s k stmt*k` becomes `mkBody` -/
def pTop (toks : List String) : Option Stmt :=
  match toks with
  | "s" :: ts => do
    let (k, ts) ← pNat ts
    let (ss, rest) ← pStmts (toks.length + 1) k ts
    if rest.isEmpty then some (mkBody ss) else none
  | _ => do
    let (s, rest) ← pStmt (toks.length + 1) toks
    if rest.isEmpty then some s else none

def pProg (cs ros gs rs body : String) : Option Prog := do
  let consts ← parseNats cs
  let roconsts ← parseNats ros
  let globals ← parseNats gs
  let ret ← parseNats rs
  let b ← pTop (words body)
  return { consts, roconsts, globals, body := b, ret }

def b01 (b : Bool) : String := if b then "1" else "0"

def pArg (s : String) : Option (Nat × Arg Nat) :=
  match (s.splitOn ":").map String.toNat? with
  | [some a, some d, some w, some c] => some (a, ⟨d, [], w != 0, c != 0⟩)
  | _ => none

def pEvent (s : String) : Option (Option (List (Nat × Arg Nat))) :=
  match words s with
  | ["u"] => some none
  | ["c"] => some (some [])
  | ["c", as] => ((as.splitOn ",").mapM pArg).map some
  | _ => none

def argsOf (l : List (Nat × Arg Nat)) : Args Nat := fun a => (l.find? (·.1 == a)).map (·.2)

def showRes : Except Err (List Nat) → String
  | .ok ds => "ok " ++ showNats ds
  | .error .unbound => "err unbound"
  | .error .readonly => "err readonly"
  | .error .check => "err check"
  | .error .noarg => "err noarg"

def histRun (p : Prog) (cd : Var → Nat × Bool) (evs : List (Option (List (Nat × Arg Nat)))) : String :=
  let rec go (h : HSt Nat) (evs : List (Option (List (Nat × Arg Nat)))) (acc : List String) : List String :=
    match evs with
    | [] => acc.reverse
    | none :: es =>
      -- the user overwrites every writable array returned so far
      let h' := h.held.foldl (fun h r => if r.w then step toy p (0 : Nat) h (.uwrite r.loc 777) else h) h
      go h' es acc
    | some l :: es =>
      let args := argsOf l
      let h' := step toy p (0 : Nat) h (.call args)
      let got := match h'.log with | (_, r) :: _ => r | [] => .error .unbound
      let want := fresh toy p cd 0 args
      let same := showRes got == showRes want
      go h' es ((if same then "same" else s!"DIFF got={showRes got} want={showRes want}") :: acc)
  ";".intercalate (go (startH p cd 0) evs [])

def handle (line : String) : String :=
  match fields line with
  | ["check", cs, ros, gs, rs, body] =>
    match pProg cs ros gs rs body with
    | some p =>
      let O := tableOf p
      let v := verdict p O
      let c := mkCtx p O
      s!"ok|H={b01 (checkH p O)}|classes={b01 v.classes}|shape={b01 v.shape}|body={b01 v.body}|ret={b01 v.ret}|h3c={b01 v.h3c}|pro={b01 v.pro}|first={b01 v.first}|h3a={b01 v.h3a}|nsk={c.sk.length}|nsh={c.sh.length}|nns={c.ns.length}|nglob={p.globals.length}"
    | none => "bad-request"
  | ["hist", cs, ros, gs, rs, body, evs] =>
    match pProg cs ros gs rs body, (evs.splitOn ";").mapM pEvent with
    | some p, some evs => "ok|" ++ histRun p (fun v => (v + 100, true)) evs
    | _, _ => "bad-request"
  | _ => "bad-request"

def main : IO Unit := serve handle
