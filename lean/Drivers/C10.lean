import NutilsVerif.Model.C10
import NutilsVerif.Model.C10Axis
open NutilsVerif NutilsVerif.Proto NutilsVerif.C10

/-! line protocol of the C10 model (see `harness/nvh/c10.py`) -/

def parseOp (s : String) : Option Op :=
  match words s with
  | ["R"] => some .refined
  | "B" :: rest => (rest.mapM (fun (w : String) => w.toInt?)).map .refinedBy
  | _ => none

def parseOps (s : String) : Option (List Op) :=
  if s.trimAscii.toString == "" then some [] else (s.splitOn ";").mapM parseOp

def boxBases (lo hi : List Nat) : List (List Nat) :=
  (multiIndices (List.zipWith (· - ·) hi lo)).map fun i => List.zipWith (· + ·) i lo

def showCell (d : Nat) (c : Cell) : String :=
  ",".intercalate ((c.level :: c.index d).map toString)

def showCells (d : Nat) (cs : List Cell) : String := ";".intercalate (cs.map (showCell d))

def maxLevel (cs : List Cell) : Nat := cs.foldl (fun m c => max m c.level) 0

def summary (d : Nat) (cs : List Cell) : String :=
  let L := maxLevel cs
  s!"apart={if apartAll cs then 1 else 0}|measure={measure d L cs}@{L}"

def flatOf (shape : List Nat) (i : List Nat) : Nat :=
  (List.zip i shape).foldl (fun acc p => acc * p.2 + p.1) 0

def showRef : Ref1 → String
  | .full => "F"
  | .empty => "E"
  | .kids a b => s!"K({showRef a},{showRef b})"
  | .cut hi xi => s!"C{if hi then 1 else 0}:{xi}"

def showCuts (l : List (Nat × Bool)) : String :=
  ";".intercalate (l.map fun p => s!"{p.1},{if p.2 then 1 else 0}")

def parseAxisOp (s : String) : Option AxisOp :=
  match words s with
  | ["R"] => some .refined
  | ["G", a, b] => match a.toInt?, b.toInt? with
    | some a, some b => some (.getitem a b)
    | _, _ => none
  | ["B", k] => k.toNat?.map .boundary
  | ["I", "0"] => some (.intaxis false)
  | ["I", "1"] => some (.intaxis true)
  | ["O"] => some .opposite
  | _ => none

def parseAxisOps (s : String) : Option (List AxisOp) :=
  if s.trimAscii.toString == "" then some [] else (s.splitOn ";").mapM parseAxisOp

def handle (line : String) : String :=
  match fields line with
  | ["axis", ax, ops] =>
    match parseInts ax, parseAxisOps ops with
    | some [i, j, m, p], some ops =>
      if m < 0 || i > j || (p != 0 && p != 1) then "bad-request" else
      match axisRun { i := i, j := j, mod := m.toNat, isdim := true, flag := p == 1 } ops with
      | .ok a => s!"ok|{a.i} {a.j} {a.mod} {if a.isdim then 1 else 0} {if a.flag then 1 else 0}|{showInts a.cells}"
      | .error e => s!"err|{e}"
    | _, _ => "bad-request"
  | ["hier", lo, hi, ops] =>
    match parseNats lo, parseNats hi, parseOps ops with
    | some lo, some hi, some ops =>
      if lo.length != hi.length then "bad-request" else
      let d := lo.length
      match runFrom d (boxBases lo hi) ops with
      | .ok cs => s!"ok|{cs.length}|{showCells d cs}|{summary d cs}"
      | .error e => s!"err|{e}"
    | _, _, _ => "bad-request"
  | ["hand", lo, hi, opsA, opsB] =>
    match parseNats lo, parseNats hi, parseOps opsA, parseOps opsB with
    | some lo, some hi, some opsA, some opsB =>
      if lo.length != hi.length then "bad-request" else
      let d := lo.length
      match runFrom d (boxBases lo hi) opsA, runFrom d (boxBases lo hi) opsB with
      | .ok A, .ok B =>
        let cs := hand d A B
        s!"ok|{cs.length}|{showCells d cs}|{summary d cs}"
      | _, _ => "err|IndexError"
    | _, _, _, _ => "bad-request"
  | ["grid", shape, per, mask] =>
    match parseNats shape, parseNats per, parseNats mask with
    | some shape, some per, some mask =>
      let g : Grid := { shape := shape, per := per.map (· != 0) }
      if per.length != shape.length || mask.length != g.cells.length then "bad-request" else
      let S : List Nat → Bool := fun i => mask.getD (flatOf shape i) 0 != 0
      let fl := fun (o : Option (List Nat)) => match o with | some j => (flatOf shape j : Int) | none => -1
      let conn := g.cells.map fun i => (sides g.dim).map fun ks => fl (g.nbr ks.1 ks.2 i)
      let bnd := (g.boundary S).map fun f => s!"{flatOf shape f.1},{f.2.1},{if f.2.2 then 1 else 0}"
      let ifc := (g.interfaces S).map fun f => s!"{flatOf shape f.1},{f.2.1},{if f.2.2.1 then 1 else 0},{flatOf shape f.2.2.2}"
      let closed := (List.range g.dim).all fun k => g.bndCount S k true == g.bndCount S k false
      s!"ok|{showRows conn}|{";".intercalate bnd}|{";".intercalate ifc}|closed={if closed then 1 else 0}"
    | _, _, _ => "bad-request"
  | ["trim", ndiv, m, lv] =>
    match ndiv.toNat?, m.toNat?, parseInts lv with
    | some ndiv, some m, some lv =>
      if lv.length != 2 ^ m + 1 then "bad-request" else
      let r := trim1 ndiv m lv
      let rn := trim1 ndiv m (lv.map (- ·))
      let rc := compl r
      s!"ok|{showRef r}|{vol ndiv m r}|{showCuts (cuts ndiv m 0 r)}|{showRef rc}|{vol ndiv m rc}|{showCuts (cuts ndiv m 0 rc)}|{showRef rn}|{vol ndiv m rn}"
    | _, _, _ => "bad-request"
  | _ => "bad-request"

def main : IO Unit := serve handle
