import NutilsVerif.Model.C12
import NutilsVerif.Model.C12Slice
open NutilsVerif NutilsVerif.Proto NutilsVerif.C12

def mergeErrName : MergeErr → String
  | .indexError => "IndexError" | .emptySet => "ValueError"

def splErrName : SplErr → String
  | .continuity => "continuity" | .multRange => "multRange" | .multLen => "multLen" | .hang => "hang"
  | .periodicMult => "periodicMult" | .endMult => "endMult" | .noDofs => "noDofs" | .shape => "shape"

/-- `a;b;c` → list of fields; the empty string is the empty list -/
def semis (s : String) : List String :=
  if s.trimAscii.toString == "" then [] else (s.splitOn ";").map (fun t => t.trimAscii.toString)

/-- rows are `;`-separated, an empty row is written `_`, no rows at all is the empty string -/
def parseNatRows (s : String) : Option (List (List Nat)) := (semis s).mapM fun t => if t == "_" then some [] else parseNats t
def parseIntRows (s : String) : Option (List (List Int)) := (semis s).mapM fun t => if t == "_" then some [] else parseInts t
def showNatRows (r : List (List Nat)) : String := ";".intercalate (r.map fun x => if x.isEmpty then "_" else showNats x)

def parseBool (s : String) : Option Bool :=
  if s == "1" then some true else if s == "0" then some false else none

def parseRat (w : String) : Option Rat :=
  match w.splitOn "/" with
  | [a] => a.toInt?.map (fun (z : Int) => (z : Rat))
  | [a, b] => match a.toInt?, b.toNat? with
    | some a, some b => if b = 0 then none else some ((a : Rat) / (b : Rat))
    | _, _ => none
  | _ => none

def parseRats (s : String) : Option (List Rat) := (words s).mapM parseRat
def showRat (q : Rat) : String := s!"{q.num}/{q.den}"
def showRats (l : List Rat) : String := " ".intercalate (l.map showRat)

/-- one dimension spec `p,n,cont,mults-or-"-",periodic` -/
def parseDim (s : String) : Option (Nat × Nat × Int × Option (List Nat) × Bool) :=
  match (s.splitOn ",").map (fun t => t.trimAscii.toString) with
  | [p, n, c, m, per] =>
    match p.toNat?, n.toNat?, c.toInt?, parseBool per with
    | some p, some n, some c, some per =>
      if m == "-" then some (p, n, c, none, per)
      else (parseNats m).map fun m => (p, n, c, some m, per)
    | _, _, _, _ => none
  | _ => none

/-- `-` = `None`, else a python int -/
def parseOptInt (s : String) : Option (Option Int) :=
  if s == "-" then some none else s.toInt?.map some

def handle (line : String) : String :=
  match fields line with
  | ["getitem", n, start, stop, step] =>
    match n.toNat?, parseOptInt start, parseOptInt stop, parseOptInt step with
    | some n, some start, some stop, some step =>
      match basisGetSlice n start stop step with
      | .self => "self"
      | .masked idx => s!"masked|{showNats idx}"
      | .generic => "generic"
      | .valueError => "valueerror"
    | _, _, _, _ => "bad-request"
  | ["merge", n, condense, sets] =>
    match n.toNat?, parseBool condense, parseIntRows sets with
    | some n, some condense, some sets =>
      match mergeIndexMap n sets condense with
      | .ok (out, nout) => s!"ok|{showNats out}|{nout}"
      | .error e => s!"err|{mergeErrName e}"
    | _, _, _ => "bad-request"
  | ["mults", p, n, c, m] =>
    match p.toNat?, n.toNat?, c.toInt? with
    | some p, some n, some c =>
      let mm := if m == "-" then some none else (parseNats m).map some
      match mm with
      | some mm => match resolveMults p n c mm with
        | .ok r => s!"ok|{showNats r}"
        | .error e => s!"err|{splErrName e}"
      | none => "bad-request"
    | _, _, _ => "bad-request"
  | ["sbasis", dims] =>
    match (semis dims).mapM parseDim with
    | some ds =>
      if ds.isEmpty then "bad-request" else
      match ds.mapM buildDim with
      | .ok sd =>
        let ne := nelemsTot sd
        let nd := ndofsTot sd
        let per := ";".intercalate (sd.map fun d => s!"{showNats d.start},{showNats d.stop},{d.nd}")
        let dofs := (List.range ne).map (dofsND sd)
        let supp := (List.range nd).map (supportND sd)
        s!"ok|{nd}|{ne}|{per}|{showNatRows dofs}|{showNatRows supp}"
      | .error e => s!"err|{splErrName e}"
    | none => "bad-request"
  | ["vs", p, n, c, m] =>
    match p.toNat?, n.toNat?, c.toInt? with
    | some p, some n, some c =>
      let mm := if m == "-" then some none else (parseNats m).map some
      match mm with
      | some mm =>
        match (do let r ← resolveMultsVs p n c mm; vsDim p n r) with
        | .ok (sl, nd) => s!"ok|{nd}|{showNatRows (sl.map fun ab => [ab.1, ab.2])}"
        | .error e => s!"err|{splErrName e}"
      | none => "bad-request"
    | _, _, _ => "bad-request"
  | ["plain", ndofs, table] =>
    match ndofs.toNat?, parseNatRows table with
    | some ndofs, some table =>
      if table.any (fun r => r.any (· ≥ ndofs)) then "err|IndexError"
      else s!"ok|{showNatRows (computedSupport ndofs table)}"
    | _, _ => "bad-request"
  | ["discont", sizes] =>
    match parseNats sizes with
    | some sizes =>
      let nd := sizes.sum
      s!"ok|{nd}|{showNatRows ((List.range sizes.length).map (discontDofs sizes))}|{showNatRows ((List.range nd).map (discontSupport sizes))}"
    | none => "bad-request"
  | ["legendre", p, n] =>
    match p.toNat?, n.toNat? with
    | some p, some n =>
      let nd := n * (p+1)
      let coeffs := (List.range (p+1)).map fun k => showInts ((List.range (p+1)).map fun j => if p - j ≤ k then legendreCoeff k (p - j) else 0)
      s!"ok|{nd}|{showNatRows ((List.range n).map (legendreDofs p))}|{showNatRows ((List.range nd).map (legendreSupport p))}|{";".intercalate coeffs}"
    | _, _ => "bad-request"
  | ["masked", nparent, table, indices] =>
    match nparent.toNat?, parseNatRows table, parseNats indices with
    | some nparent, some table, some indices =>
      if table.any (fun r => r.any (· ≥ nparent)) || indices.any (· ≥ nparent) then "bad-request" else
      let psupp := computedSupport nparent table
      let dofs := table.map fun pd => maskedDofs pd indices nparent
      let sel := table.map fun pd => maskedSelection pd indices nparent
      let supp := (List.range indices.length).map (maskedSupport (fun d => psupp.getD d []) indices)
      s!"ok|{indices.length}|{showNatRows dofs}|{showNatRows sel}|{showNatRows supp}"
    | _, _, _ => "bad-request"
  | ["pruned", nparent, table, transmap] =>
    match nparent.toNat?, parseNatRows table, parseNats transmap with
    | some nparent, some table, some transmap =>
      if table.any (fun r => r.any (· ≥ nparent)) || transmap.any (· ≥ table.length) then "bad-request" else
      let psupp := computedSupport nparent table
      let pdofs := fun e => table.getD e []
      let dofmap := prunedDofmap pdofs transmap
      let dofs := (List.range transmap.length).map (prunedDofs pdofs transmap nparent)
      let supp := (List.range dofmap.length).map (prunedSupport pdofs (fun d => psupp.getD d []) transmap)
      s!"ok|{dofmap.length}|{showNats dofmap}|{showNatRows dofs}|{showNatRows supp}"
    | _, _, _ => "bad-request"
  | ["bspline", p, knots, x] =>
    match p.toNat?, parseRats knots, parseRat x with
    | some p, some knots, some x =>
      if knots.length < p + 2 then "bad-request" else
      s!"ok|{showRats ((List.range (knots.length - p - 1)).map fun j => bspline (knotSeq knots) p j x)}"
    | _, _, _ => "bad-request"
  | ["knots", p, n, m, k] =>
    match p.toNat?, n.toNat?, parseNats m, parseRats k with
    | some p, some n, some m, some k => s!"ok|{showRats (knotVector (openMults p n m) k)}"
    | _, _, _, _ => "bad-request"
  | ["bernstein", n, x] =>
    match n.toNat?, parseRat x with
    | some n, some x => s!"ok|{showRats ((List.range (n+1)).map fun i => bernstein n i x)}"
    | _, _ => "bad-request"
  | _ => "bad-request"

def main : IO Unit := serve handle
