import NutilsVerif.Model.ExprJson
import NutilsVerif.Model.C05
/-!
Driver of C05.  Two request forms, one per line.

**JSON** (an `ExprJson` request, see `Drivers/Expr.lean`, with an extra field `"c05"`):
* `{"kind":"coo","ndim":n,"results":bool}` — roots are `[dense, values, index_0 … index_{n-1}, shape_0 … shape_{n-1}, extra…]`
* `{"kind":"csr","results":bool}`        — roots are `[dense, values, rowptr, colidx, ncols, extra…]`
All roots are evaluated with the specification semantics (`Model/Expr.lean`; real arguments may be symbolic), then
`C05.cooClauses` / `C05.csrClauses` are applied.
Answer `{"verdict": "ok" | "fail:<first failed clause>" | "error:<kind>:<what>", "nnz":…, "cmp":[…], "results":[…]}`.

**Line protocol** over ℤ (fields separated by `|`, lists by blanks, lists of lists by `;`):
`compress|idx|n` · `unique|f` · `assparse|shape|tuples|values` · `accumulate|shape|tuples|values` ·
`coo|shape|tuples|values|dense` · `csr|nrows|ncols|rowptr|colidx|values|dense` · `ascsr|nrows|tuples` ·
`unravel|shape|flat` · `horner|shape|tuple` · `blockpos|shape|tuples` (strides and positions of `Inflate._assparse`, and
whether every position is the row-major position)
-/
open Lean NutilsVerif NutilsVerif.Expr NutilsVerif.Proto NutilsVerif.C05

def errText : Err → String
  | .unsupported w => "error:unsupported:" ++ w
  | .undefined w => "error:undefined:" ++ w
  | .illformed w => "error:illformed:" ++ w

def natVector (r : M T) : Except String (List Nat) :=
  match r with
  | .error e => .error (errText e)
  | .ok t =>
    if t.shape.length != 1 then .error "fail:index-not-1d" else
    match t.toNats with
    | .ok v => .ok v.data.toList
    | .error _ => .error "fail:index-not-natural"

def natScalar (r : M T) : Except String Nat :=
  match r with
  | .error e => .error (errText e)
  | .ok t => match t.toNat with
    | .ok n => .ok n
    | .error _ => .error "fail:length-not-natural"

def tensorOf (r : M T) : Except String T :=
  match r with
  | .error e => .error (errText e)
  | .ok t => .ok t

def verdictOf (cl : List (String × Bool)) : String :=
  match firstFailed cl with
  | none => "ok"
  | some c => "fail:" ++ c

def root (r : Request) (k : Nat) : M T := r.results.getD k (.error (.illformed "missing root"))

def judgeCOO (r : Request) (n : Nat) : Except String (String × Nat) := do
  let dense ← tensorOf (root r 0)
  let values ← tensorOf (root r 1)
  if values.shape.length != 1 then throw "fail:values-not-1d"
  let cols ← (List.range n).mapM fun k => natVector (root r (2 + k))
  let shape ← (List.range n).mapM fun k => natScalar (root r (2 + n + k))
  let vals := values.data.toList
  if cols.any (·.length != vals.length) then throw "fail:length"
  pure (verdictOf (cooClauses (0 : Poly) shape (tuplesOf vals.length cols) vals dense), vals.length)

def judgeCSR (r : Request) : Except String (String × Nat) := do
  let dense ← tensorOf (root r 0)
  let values ← tensorOf (root r 1)
  if values.shape.length != 1 then throw "fail:values-not-1d"
  let rowptr ← natVector (root r 2)
  let colidx ← natVector (root r 3)
  let ncols ← natScalar (root r 4)
  let vals := values.data.toList
  pure (verdictOf (csrClauses (0 : Poly) (rowptr.length - 1) ncols rowptr colidx vals dense), vals.length)

def handleJson (line : String) : String :=
  match parseRequest line with
  | .error e => "bad-request " ++ e
  | .ok r =>
    match r.json.getObjVal? "c05" with
    | .error _ => "bad-request missing c05 field"
    | .ok spec =>
      let judged : Option (Except String (String × Nat)) :=
        match spec.getObjValAs? String "kind" with
        | .ok "coo" => match spec.getObjValAs? Nat "ndim" with
          | .ok n => some (judgeCOO r n)
          | .error _ => none
        | .ok "csr" => some (judgeCSR r)
        | _ => none
      match judged with
      | none => "bad-request unknown c05 kind"
      | some j =>
        let (verdict, nnz) := match j with
          | .ok (v, n) => (v, n)
          | .error e => (e, 0)
        let cmpPairs := (r.json.getObjValAs? (List (List Nat)) "cmp").toOption.getD []
        let cmps := cmpPairs.map fun p =>
          match root r (p.getD 0 0), root r (p.getD 1 0) with
          | .ok a, .ok b => if a.shape == b.shape && a.data.toList == b.data.toList then "same" else "differ"
          | _, _ => "error"
        let wantResults := (spec.getObjValAs? Bool "results").toOption.getD false
        let fields := [("verdict", Json.str verdict), ("nnz", toJson nnz), ("cmp", toJson cmps)] ++
          (if wantResults then [("results", Json.arr (r.results.map resultJson).toArray)] else [])
        (Json.mkObj fields).compress

/-! ### line protocol over ℤ -/

def parseNatLists (s : String) : Option (List (List Nat)) :=
  if s.trimAscii.toString == "" then some [] else
  (s.splitOn ";").mapM parseNats

def showNatLists (l : List (List Nat)) : String := ";".intercalate (l.map showNats)

instance : Inhabited Int := ⟨0⟩

def intTensor (shape : List Nat) (data : List Int) : Option (Tensor Int) :=
  if data.length == shapeSize shape then some ⟨shape, data.toArray⟩ else none

def handleLine (line : String) : String :=
  match fields line with
  | ["compress", idx, n] =>
    match parseInts idx, n.toNat? with
    | some idx, some n =>
      match compressIndices idx n with
      | .ok c => s!"ok|{showInts c}|{if c == searchsortedAll idx n then "spec-agrees" else "spec-differs"}|{if monotoneInt idx && inRangeInt idx n then "pre" else "nopre"}"
      | .error .bounds => s!"err|bounds|{if monotoneInt idx && inRangeInt idx n then "pre" else "nopre"}"
      | .error .notMonotone => s!"err|monotone|{if monotoneInt idx && inRangeInt idx n then "pre" else "nopre"}"
    | _, _ => "bad-request"
  | ["unique", f] =>
    match parseNats f with
    | some f =>
      let (u, inv) := uniqueInv f
      s!"{showNats u}|{showNats inv}|{showNats (argsortStable f)}"
    | none => "bad-request"
  | ["assparse", shape, tuples, values] =>
    match parseNats shape, parseNatLists tuples, parseInts values with
    | some shape, some tuples, some values =>
      if shape.isEmpty || tuples.length != values.length || !tuples.all (inBox shape) then "bad-request precondition" else
      let (t, v) := assparse (· + ·) (0 : Int) shape tuples values
      s!"{showNatLists t}|{showInts v}"
    | _, _, _ => "bad-request"
  | ["accumulate", shape, tuples, values] =>
    match parseNats shape, parseNatLists tuples, parseInts values with
    | some shape, some tuples, some values =>
      if tuples.length != values.length || !tuples.all (inBox shape) then "bad-request precondition" else
      showInts (accumulate (· + ·) (0 : Int) shape tuples values).data.toList
    | _, _, _ => "bad-request"
  | ["coo", shape, tuples, values, dense] =>
    match parseNats shape, parseNatLists tuples, parseInts values, parseInts dense with
    | some shape, some tuples, some values, some dense =>
      match intTensor shape dense with
      | some d => verdictOf (cooClauses (0 : Int) shape tuples values d)
      | none => "bad-request dense size"
    | _, _, _, _ => "bad-request"
  | ["csr", nrows, ncols, rowptr, colidx, values, dense] =>
    match nrows.toNat?, ncols.toNat?, parseNats rowptr, parseNats colidx, parseInts values, parseInts dense with
    | some nr, some nc, some rp, some ci, some values, some dense =>
      match intTensor [nr, nc] dense with
      | some d => verdictOf (csrClauses (0 : Int) nr nc rp ci values d)
      | none => "bad-request dense size"
    | _, _, _, _, _, _ => "bad-request"
  | ["ascsr", nrows, tuples] =>
    match nrows.toNat?, parseNatLists tuples with
    | some nr, some tuples =>
      match asCsr tuples nr with
      | .ok (rp, ci) => s!"ok|{showNats rp}|{showNats ci}"
      | .error .bounds => "err|bounds"
      | .error .notMonotone => "err|monotone"
    | _, _ => "bad-request"
  | ["unravel", shape, flat] =>
    match parseNats shape, flat.toNat? with
    | some shape, some k => showNats (unravelLoop shape k)
    | _, _ => "bad-request"
  | ["blockpos", shape, tuples] =>
    match parseNats shape, parseNatLists tuples with
    | some shape, some tuples =>
      if shape.isEmpty || !tuples.all (inBox shape) then "bad-request precondition" else
      let st := blockStrides shape
      let pos := tuples.map fun t => stridedPos t st
      s!"{showNats st}|{showNats pos}|{if pos == tuples.map (flatIdx shape) then "spec-agrees" else "spec-differs"}"
    | _, _ => "bad-request"
  | ["horner", shape, tuple] =>
    match parseNats shape, parseNats tuple with
    | some shape, some t => toString (hornerFlat shape t)
    | _, _ => "bad-request"
  | _ => "bad-request"

def handle (line : String) : String :=
  if line.startsWith "{" then handleJson line else handleLine line

def main : IO Unit := serve handle
