import NutilsVerif.Model.ExprJson
import NutilsVerif.Model.C08
/-!
Driver of C08: one JSON request per line, one JSON answer per line.  Rationals travel as strings "p/q".

{"op":"ext","linear":[[…]],"flip":b}                       → {"ext":[…]|null}
{"op":"ref","kind":"square"}                               → the model's record of that reference kind
{"op":"scaled","child":{linear,offset},"edge":{linear,offset,flip}} → {linear,offset,flip,ext}
{"op":"basis","chain":[{"sq":{…}}|{"up":{…}}…],"fromdims":k} → {"linear":[[…]],"basis":[[…]]|null}
{"op":"project","G":[[…]],"k":k,"v":[…]}                   → {"w":[…],"ww":"p/q"} | {"w":null}
{"op":"matrix","J":[[…]],"rows":r,"cols":k,"df":[…]}       → {"sqdetgram":…, "grad":[…]|null, "surfgrad":[…]|null, "extnormal":[…]|null}
{"op":"spec","kind":K,"fields":[poly…],"n":n,"x":[[…]…]}   → {"values":[[…]…]}   (specification operators at rational points)
{"op":"check","nodes":…,"roots":…,"args":…,"spec":{"kind":K,"fields":[poly…],"A":[[…]],"b":[…],"arg":"xi"}}
     → {"result":{shape,data}|{error…},"expect":{shape,data},"verdict":"same"|"differ"|"error"}
poly = [[coef,[e0,e1,…]],…]
-/
open Lean NutilsVerif NutilsVerif.Expr NutilsVerif.C08

def ratStr (q : Rat) : String := Poly.ratKey q
def vecJ (v : Vec) : Json := toJson (v.map ratStr)
def matJ (m : Mat) : Json := Json.arr (m.map vecJ).toArray

def getRat (j : Json) : Except String Rat :=
  match j with
  | .str s => match parseRat s with | some q => pure q | none => throw s!"bad rational {s}"
  | .num n => if n.exponent == 0 then pure (n.mantissa : Rat) else throw "non-integer number"
  | _ => throw "rational expected"

def getVec (j : Json) : Except String Vec := do
  let a ← j.getArr?
  a.toList.mapM getRat

def getMat (j : Json) : Except String Mat := do
  let a ← j.getArr?
  a.toList.mapM getVec

def getSquare (j : Json) : Except String Square := do
  pure ⟨← getMat (← j.getObjVal? "linear"), ← getVec (← j.getObjVal? "offset")⟩

def getUpdim (j : Json) : Except String Updim := do
  pure ⟨← getMat (← j.getObjVal? "linear"), ← getVec (← j.getObjVal? "offset"), ← j.getObjValAs? Bool "flip"⟩

def getPoly (j : Json) : Except String MPoly := do
  let a ← j.getArr?
  a.toList.mapM fun t => do
    let p ← t.getArr?
    match p.toList with
    | [c, es] => do pure (← getRat c, ← (fromJson? es : Except String (List Nat)))
    | _ => throw "bad term"

def kindOf : String → Option Ref
  | "point" => some (.simplex 0) | "line" => some (.simplex 1) | "triangle" => some (.simplex 2)
  | "tetrahedron" => some (.simplex 3)
  | "square" => some (.tensor (.simplex 1) (.simplex 1))
  | "cube" => some (.tensor (.simplex 1) (.tensor (.simplex 1) (.simplex 1)))
  | "prism" => some (.tensor (.simplex 2) (.simplex 1))
  | "linetri" => some (.tensor (.simplex 1) (.simplex 2))
  | _ => none

def optVecJ : Option Vec → Json
  | some v => vecJ v
  | none => Json.null

def recJ (r : RefRec) : Json :=
  Json.mkObj [("ndims", toJson r.ndims), ("volume", ratStr r.volume), ("centroid", vecJ r.centroid),
    ("edges", Json.arr (r.edges.map fun e => Json.mkObj [("linear", matJ e.linear), ("offset", vecJ e.offset), ("ext", vecJ e.ext),
        ("isflipped", toJson e.isflipped), ("refVolume", ratStr e.refVolume), ("refCentroid", vecJ e.refCentroid)]).toArray),
    ("children", Json.arr (r.children.map fun c => Json.mkObj [("linear", matJ c.linear), ("offset", vecJ c.offset)]).toArray)]

def polyOps : Ops Poly := ⟨Poly.zero, Poly.one, Poly.add, Poly.mul, Poly.ofRat⟩

/-- the specification operators of a list of polynomial fields in `n` variables, as nested polynomial lists flattened in
row-major order together with the operator's shape -/
def specPolys (kind : String) (n : Nat) (F : List MPoly) : Except String (List Nat × List MPoly) :=
  let f0 := F.headD []
  match kind with
  | "value" => pure ([], [f0])
  | "grad" => pure ([n], gradSpec n f0)
  | "vgrad" => pure ([F.length, n], (vgradSpec n F).flatten)
  | "div" => if F.length == n then pure ([], [divSpec F]) else throw "div: field length ≠ n"
  | "laplace" => pure ([], [laplaceSpec n f0])
  | "vlaplace" => pure ([F.length], F.map (laplaceSpec n))
  | "symgrad" => if F.length == n then pure ([n, n], (symgradSpec n F).flatten) else throw "symgrad: field length ≠ n"
  | "curl" => if F.length == 3 && n == 3 then pure ([3], curlSpec F) else throw "curl: 3-d only"
  | _ => throw s!"unknown kind {kind}"

def handleJson (j : Json) : Except String Json := do
  let op ← j.getObjValAs? String "op"
  match op with
  | "ext" =>
    let u : Updim := ⟨← getMat (← j.getObjVal? "linear"), [], ← j.getObjValAs? Bool "flip"⟩
    pure (Json.mkObj [("ext", optVecJ u.ext)])
  | "ref" =>
    let name ← j.getObjValAs? String "kind"
    match kindOf name with
    | some k => pure (recJ (modelRec name k))
    | none => throw "unknown kind"
  | "scaled" =>
    let m := scaledUpdim (← getSquare (← j.getObjVal? "child")) (← getUpdim (← j.getObjVal? "edge"))
    pure (Json.mkObj [("linear", matJ m.linear), ("offset", vecJ m.offset), ("flip", toJson m.isflipped), ("ext", optVecJ m.ext)])
  | "basis" =>
    let items ← (← (← j.getObjVal? "chain").getArr?).toList.mapM fun it =>
      match it.getObjVal? "sq" with
      | .ok s => do pure (Item.sq (← getSquare s))
      | .error _ => do pure (Item.up (← getUpdim (← it.getObjVal? "up")))
    let fd ← j.getObjValAs? Nat "fromdims"
    pure (Json.mkObj [("linear", matJ (chainLinear items fd)),
      ("basis", match chainBasis items fd with | some (m, _) => matJ m | none => Json.null)])
  | "project" =>
    let G ← getMat (← j.getObjVal? "G"); let k ← j.getObjValAs? Nat "k"; let v ← getVec (← j.getObjVal? "v")
    match projectOut G k v with
    | some w => pure (Json.mkObj [("w", vecJ w), ("ww", ratStr (dot w w))])
    | none => pure (Json.mkObj [("w", Json.null)])
  | "matrix" =>
    let J ← getMat (← j.getObjVal? "J"); let r ← j.getObjValAs? Nat "rows"; let k ← j.getObjValAs? Nat "cols"
    let df ← getVec (← j.getObjVal? "df")
    pure (Json.mkObj [("sqdetgram", ratStr (sqAbsDetGram J r k)),
      ("grad", if r == k then optVecJ (gradientRow df J k) else Json.null),
      ("surfgrad", optVecJ (surfGradientRow df J k)),
      ("extnormal", optVecJ (exteriorNormalRaw J))])
  | "spec" =>
    let kind ← j.getObjValAs? String "kind"
    let n ← j.getObjValAs? Nat "n"
    let F ← (← (← j.getObjVal? "fields").getArr?).toList.mapM getPoly
    let xs ← getMat (← j.getObjVal? "x")
    let (_, ps) ← specPolys kind n F
    pure (Json.mkObj [("values", matJ (xs.map fun x => ps.map (evalP ratOps x)))])
  | "check" =>
    let r ← parseRequest j.compress
    let spec ← j.getObjVal? "spec"
    let kind ← spec.getObjValAs? String "kind"
    let F ← (← (← spec.getObjVal? "fields").getArr?).toList.mapM getPoly
    let A ← getMat (← spec.getObjVal? "A"); let b ← getVec (← spec.getObjVal? "b")
    let argName ← spec.getObjValAs? String "arg"
    let n := A.length
    let xi ← match r.env.args.lookup argName with
      | some t => pure t
      | none => throw "spec.arg is not an argument"
    if xi.shape.length != 2 then throw "spec.arg must have shape (npoints, ndims)" else
    let npts := xi.shape.getD 0 0
    let m := xi.shape.getD 1 0
    let (opShape, ps) ← if kind == "jac" then pure ([], []) else specPolys kind n F
    let rows : List (List Poly) := (List.range npts).map fun q =>
      let ξ := (List.range m).map fun i => xi.get [q, i]
      if kind == "jac" then [Poly.ofRat (absRat (det n A))] else
      let x := affineAt polyOps A b ξ
      ps.map (evalP polyOps x)
    let expect : T := ⟨npts :: opShape, rows.flatten.toArray⟩
    let res := r.results.headD (.error (.illformed "no root"))
    let verdict := match res with
      | .ok t => if t.shape == expect.shape && t.data.toList == expect.data.toList then "same" else "differ"
      | .error _ => "error"
    pure (Json.mkObj [("result", resultJson res), ("expect", resultJson (.ok expect)), ("verdict", verdict)])
  | _ => throw "unknown op"

def handle (line : String) : String :=
  match Json.parse line with
  | .error e => "bad-request " ++ e
  | .ok j =>
    match handleJson j with
    | .ok r => r.compress
    | .error e => "bad-request " ++ e

def main : IO Unit := NutilsVerif.Proto.serve handle
