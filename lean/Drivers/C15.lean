import NutilsVerif.Model.C15
open NutilsVerif NutilsVerif.Proto NutilsVerif.C15

def rejName : Reject → String
  | .values => "values" | .rowptr => "rowptr" | .colidx => "colidx" | .order => "order"

def posNodup (m : CSR) : Bool :=
  let ps := (entries m).map fun e => (e.1, e.2.1)
  ps.eraseDups.length == ps.length

def handle (line : String) : String :=
  match fields line with
  | ["csr", v, rp, ci, nc] =>
    match parseInts v, parseInts rp, parseInts ci, nc.toNat? with
    | some v, some rp, some ci, some nc =>
      let m : CSR := { values := v, rowptr := rp, colidx := ci, ncols := nc }
      let valid := if validB m then "1" else "0"
      match assemble m with
      | .ok d => s!"accept|valid={valid}|nodup={if posNodup m then 1 else 0}|{showRows d}|{showRows (denseSum m)}"
      | .error e => s!"reject|valid={valid}|{rejName e}"
    | _, _, _, _ => "bad-request"
  | ["compress", idx, n] =>
    match parseInts idx, n.toNat? with
    | some idx, some n =>
      match compressIndices idx n with
      | .ok c => s!"ok|{showInts c}|{if c == searchsortedAll idx n then "spec-agrees" else "spec-differs"}"
      | .error .bounds => "err|bounds"
      | .error .notMonotone => "err|monotone"
    | _, _ => "bad-request"
  | ["export", rows, nc] =>
    match (rows.splitOn ";").mapM parseInts, nc.toNat? with
    | some d, some nc =>
      let d := if rows.trimAscii.toString == "" then [] else d
      let m := exportCSR d nc
      s!"{showInts m.values}|{showInts m.colidx}|{showInts m.rowptr}"
    | _, _ => "bad-request"
  | _ => "bad-request"

def main : IO Unit := serve handle
