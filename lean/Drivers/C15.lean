import NutilsVerif.Model.C15
open NutilsVerif NutilsVerif.Proto NutilsVerif.C15

def rejName : Reject → String
  | .values => "values" | .rowptr => "rowptr" | .colidx => "colidx" | .order => "order"

def cerrName : CErr → String
  | .bounds => "bounds" | .notMonotone => "monotone"

def berrName : BErr → String
  | .rowSizes => "rowsizes" | .dtype => "dtype" | .colSizes => "colsizes" | .noBlocks => "noblocks"
  | .blockRowptr => "blockrowptr" | .blockColidx => "blockcolidx"

def b01 (b : Bool) : String := if b then "1" else "0"

def posNodup (m : CSR) : Bool :=
  let ps := (entries m).map fun e => (e.1, e.2.1)
  ps.eraseDups.length == ps.length

def showAsm : Except Reject Dense → String
  | .ok d => s!"accept:{showRows d}"
  | .error e => s!"reject:{rejName e}"

def showComp : Except CErr (List Int) → String
  | .ok c => s!"ok:{showInts c}"
  | .error e => s!"err:{cerrName e}"

/-- dense rows `a b;c d`; the empty string is the 0-row matrix, `;` separates (possibly empty) rows -/
def parseDense (s : String) (nrows : Nat) : Option Dense :=
  if nrows == 0 then (if s.trimAscii.toString == "" then some [] else none)
  else
    match (s.splitOn ";").mapM parseInts with
    | some d => if d.length == nrows then some d else none
    | none => none

def parseBlock (s : String) : Option Block :=
  match (s.splitOn ",").map (fun t => t.trimAscii.toString) with
  | [v, rp, ci, nc, dt] =>
    match parseInts v, parseInts rp, parseInts ci, nc.toNat?, dt.toNat? with
    | some v, some rp, some ci, some nc, some dt => some { values := v, rowptr := rp, colidx := ci, ncols := nc, dt := dt }
    | _, _, _, _, _ => none
  | _ => none

def parseBlocks (s : String) : Option (List (List Block)) :=
  (s.splitOn "#").mapM fun row => (row.splitOn "/").mapM parseBlock

def handle (line : String) : String :=
  match fields line with
  | ["csr", v, rp, ci, nc] =>
    match parseInts v, parseInts rp, parseInts ci, nc.toNat? with
    | some v, some rp, some ci, some nc =>
      let m : CSR := { values := v, rowptr := rp, colidx := ci, ncols := nc }
      let valid := b01 (validB m)
      match assemble m with
      | .ok d => s!"accept|valid={valid}|nodup={b01 (posNodup m)}|{showRows d}|{showRows (denseSum m)}|{showInts (csrDiagonal m)}|{showInts (dDiag (denseSum m))}"
      | .error e => s!"reject|valid={valid}|{rejName e}"
    | _, _, _, _ => "bad-request"
  | ["compress", idx, n] =>
    match parseInts idx, n.toNat? with
    | some idx, some n => s!"{showComp (compressIndices idx n)}|{showComp (compressSpec idx n)}"
    | _, _ => "bad-request"
  | ["coo", v, ri, nr, ci, nc] =>
    match parseInts v, parseInts ri, nr.toNat?, parseInts ci, nc.toNat? with
    | some v, some ri, some nr, some ci, some nc =>
      let valid := b01 (cooValidB v ri nr ci nc)
      let spec := showRows (denseSum { values := v, rowptr := searchsortedAll ri nr, colidx := ci, ncols := nc })
      match assembleCOO v ri nr ci nc with
      | .valueError e => s!"valueerror|valid={valid}|{cerrName e}"
      | .reject r => s!"reject|valid={valid}|{rejName r}"
      | .ok d => s!"accept|valid={valid}|{showRows d}|{spec}"
    | _, _, _, _, _ => "bad-request"
  | ["export", rows, nr, nc, tol] =>
    match nr.toNat?, nc.toNat?, tol.toNat? with
    | some nr, some nc, some tol =>
      match parseDense rows nr with
      | some d =>
        if d.all (·.length == nc) then
          let m := exportCSR d nc
          let coo := exportCOO d
          s!"{showInts m.values}|{showInts m.colidx}|{showInts m.rowptr}|{showNats (coo.map (·.1))}|{showInts (csrDiagonal m)}|{showInts (dDiag d)}|{"".intercalate ((cooRowsupp coo nr tol).map b01)}|{"".intercalate ((dRowsupp d tol).map b01)}|{showAsm (assemble m)}"
        else "bad-request"
      | none => "bad-request"
    | _, _, _ => "bad-request"
  | ["block", bs] =>
    match parseBlocks bs with
    | some blocks =>
      let ok := blocksOK blocks
      let spec := blockMerge blocks
      let specS := s!"ok={b01 ok}|{showInts spec.values};{showInts spec.rowptr};{showInts spec.colidx};{spec.ncols}|{showRows (blockDense blocks)}"
      match blockMergeCode blocks with
      | .error e => s!"err|{berrName e}|{specS}"
      | .ok (m, any) =>
        let res := match assembleBlock blocks with
          | .ok r => showAsm r
          | .error e => s!"err:{berrName e}"
        s!"merged|any={b01 any}|{showInts m.values};{showInts m.rowptr};{showInts m.colidx};{m.ncols}|{res}|agrees={b01 (m == spec)}|{specS}"
    | none => "bad-request"
  | _ => "bad-request"

def main : IO Unit := serve handle
