import NutilsVerif.Core.Proto
import NutilsVerif.Model.C11
import NutilsVerif.Model.C11Alg
import NutilsVerif.Model.C11Axes
open NutilsVerif NutilsVerif.Proto NutilsVerif.C11

/-!
Line protocol of the C11 model driver.  Tokens are separated by blanks, fields by `|`.

items (prefix notation)
  sq   : `I n` | `X n i` | `C n k` | `TC sq sq` | `GS r c <r*c rats> <r rats>`
  up   : `E n k inv` | `T1 up n2` | `T2 n1 up` | `SU sq up` | `GU r c <r*c rats> <r rats> flip`
  item : sq | up | `M fd r c <r*c rats> <r rats>`
chain  : `k item*k`
seq    : `empty td fd` | `plain td fd n chain*n` | `index nd len off` | `struct item na (i j mod isdim ibound side)*na nrefine`
       | `masked seq n idx*n` | `reord seq n idx*n` | `derived seq fd n (k item*k)*n` | `uderived seq fd k item*k` | `chain seq seq`
-/

abbrev P := StateT (List String) Option

def tok : P String := do
  match (← get) with
  | [] => failure
  | t :: r => set r; pure t

def pNat : P Nat := do
  match (← tok).toNat? with
  | some n => pure n
  | none => failure

def pInt : P Int := do
  match (← tok).toInt? with
  | some n => pure n
  | none => failure

def pBool : P Bool := do
  match (← tok) with
  | "0" => pure false
  | "1" => pure true
  | _ => failure

def pRat : P Rat := do
  match (← tok).splitOn "/" with
  | [a] => match a.toInt? with
    | some z => pure (z : Rat)
    | none => failure
  | [a, b] => match a.toInt?, b.toNat? with
    | some z, some d => if d = 0 then failure else pure (mkRat z d)
    | _, _ => failure
  | _ => failure

def pMany {α} (n : Nat) (p : P α) : P (List α) := (List.range n).mapM fun _ => p

def pMat : P (Mat × Vec) := do
  let r ← pNat
  let c ← pNat
  let lin ← pMany r (pMany c pRat)
  let off ← pMany r pRat
  pure (lin, off)

partial def pSqT (t : String) : P Sq := do
  match t with
  | "I" => pure (.identity (← pNat))
  | "X" => do let n ← pNat; let i ← pInt; pure (.index n i)
  | "C" => do let n ← pNat; let k ← pNat; pure (.simplexChild n k)
  | "TC" => do let a ← pSqT (← tok); let b ← pSqT (← tok); pure (.tensorChild a b)
  | "GS" => do let (l, o) ← pMat; pure (.generic l o)
  | _ => failure

partial def pUpT (t : String) : P Up := do
  match t with
  | "E" => do let n ← pNat; let k ← pNat; let i ← pBool; pure (.simplexEdge n k i)
  | "T1" => do let e ← pUpT (← tok); let n ← pNat; pure (.tensorEdge1 e n)
  | "T2" => do let n ← pNat; let e ← pUpT (← tok); pure (.tensorEdge2 n e)
  | "SU" => do let c ← pSqT (← tok); let e ← pUpT (← tok); pure (.scaledUpdim c e)
  | "GU" => do let (l, o) ← pMat; let f ← pBool; pure (.generic l o f)
  | _ => failure

def pItem : P Item := do
  let t ← tok
  if t == "M" then
    let fd ← pNat
    let (l, o) ← pMat
    pure (.mat fd l o)
  else if ["I", "X", "C", "TC", "GS"].contains t then
    return .sq (← pSqT t)
  else
    return .up (← pUpT t)

def pChain : P Chain := do pMany (← pNat) pItem

def pAxis : P Axis := do
  let i ← pInt; let j ← pInt; let m ← pInt; let d ← pBool; let ib ← pNat; let s ← pBool
  pure { i := i, j := j, mod := m, isdim := d, ibound := ib, side := s }

partial def pSeq : P TSeq := do
  match (← tok) with
  | "empty" => do let td ← pNat; let fd ← pNat; pure (.empty td fd)
  | "plain" => do let td ← pNat; let fd ← pNat; let cs ← pMany (← pNat) pChain; pure (.plain cs td fd)
  | "index" => do let nd ← pNat; let len ← pNat; let off ← pInt; pure (.index nd len off)
  | "struct" => do let r ← pItem; let axes ← pMany (← pNat) pAxis; let nr ← pNat; pure (.structured r axes nr)
  | "masked" => do let p ← pSeq; let idx ← pMany (← pNat) pNat; pure (.masked p idx)
  | "reord" => do let p ← pSeq; let idx ← pMany (← pNat) pNat; pure (.reordered p idx)
  | "derived" => do let p ← pSeq; let fd ← pNat; let dts ← pMany (← pNat) pChain; pure (.derived p dts fd)
  | "uderived" => do let p ← pSeq; let fd ← pNat; let dts ← pChain; pure (.uniform p dts fd)
  | "chain" => do let a ← pSeq; let b ← pSeq; pure (.chain a b)
  | _ => failure

def parseAll {α} (p : P α) (s : String) : Option α :=
  match p.run (words s) with
  | some (a, []) => some a
  | _ => none

/-! ### printing -/

def showRat (q : Rat) : String := if q.den = 1 then toString q.num else s!"{q.num}/{q.den}"
def showVec (v : Vec) : String := " ".intercalate (v.map showRat)
def showMat (m : Mat) : String := ";".intercalate (m.map showVec)
def showB (b : Bool) : String := if b then "1" else "0"
def showMatP (l : Mat) (o : Vec) : String :=
  let c := (l.head?.map List.length).getD 0
  s!"{o.length} {c} {showVec l.flatten} {showVec o}"

def showSq : Sq → String
  | .identity n => s!"I {n}"
  | .index n i => s!"X {n} {i}"
  | .simplexChild n k => s!"C {n} {k}"
  | .tensorChild a b => s!"TC {showSq a} {showSq b}"
  | .generic l o => s!"GS {showMatP l o}"

def showUp : Up → String
  | .simplexEdge n k i => s!"E {n} {k} {showB i}"
  | .tensorEdge1 e n => s!"T1 {showUp e} {n}"
  | .tensorEdge2 n e => s!"T2 {n} {showUp e}"
  | .scaledUpdim c e => s!"SU {showSq c} {showUp e}"
  | .generic l o f => s!"GU {showMatP l o} {showB f}"

def showItem : Item → String
  | .sq s => showSq s
  | .up u => showUp u
  | .mat fd l o => s!"M {fd} {showMatP l o}"

def showChain (c : Chain) : String := " ".intercalate (toString c.length :: c.map showItem)

def normSpaces (s : String) : String := " ".intercalate (words s)

def showErr : Err → String
  | .value => "err value"
  | .index => "err index"

/-! ### key for plain sequences: position in the universe of items met by the request -/

def plainNodes : TSeq → List (List Chain × Nat)
  | .plain cs _ fd => [(cs, fd)]
  | .masked p _ => plainNodes p
  | .reordered p _ => plainNodes p
  | .derived p _ _ => plainNodes p
  | .uniform p _ _ => plainNodes p
  | .chain a b => plainNodes a ++ plainNodes b
  | _ => []

def mkKey (s : TSeq) (queries : List Chain) (rev : Bool) : Item → Nat :=
  let nodes := plainNodes s
  let u := (nodes.map fun (cs, _) => cs.flatten).flatten ++
    (nodes.map fun (_, fd) => (queries.map fun q => promote q fd).flatten).flatten
  let u := u.eraseDups
  fun it => if rev then u.length - u.idxOf it else 1 + u.idxOf it

def chainFd (c : Chain) (dflt : Nat) : Nat := (c.getLast?.map Item.fd).getD dflt

def handleQuery (s : TSeq) (key : Item → Nat) (q : String) : String :=
  match words q with
  | ["len"] => toString s.len
  | ["dims"] => s!"{s.td} {s.fd}"
  | ["get", i] =>
    match i.toNat? with
    | some i => match s.get i with
      | some c => showChain c
      | none => "err index"
    | none => "bad-request"
  | "iwt" :: rest =>
    match (pChain.run rest) with
    | some (c, []) => match s.iwt key c with
      | .ok (i, t) => s!"ok {i} {showChain t}"
      | .error e => showErr e
    | _ => "bad-request"
  | "index" :: rest =>
    match (pChain.run rest) with
    | some (c, []) => match s.indexOf key c with
      | .ok i => s!"ok {i}"
      | .error e => showErr e
    | _ => "bad-request"
  | "contains" :: rest =>
    match (pChain.run rest) with
    | some (c, []) => match s.contains key c with
      | .ok b => s!"ok {showB b}"
      | .error e => showErr e
    | _ => "bad-request"
  | _ => "bad-request"

def queryChain (q : String) : List Chain :=
  match words q with
  | _ :: rest => match pChain.run rest with
    | some (c, []) => [c]
    | _ => []
  | [] => []

/-! ### containers: items are words of atoms, `mul` = concatenation, `der` from a table in the request -/

abbrev W := List Nat

def pWord : P W := do pMany (← pNat) pNat

def pDerTab : P (List ((Bool × W) × List W)) := do
  pMany (← pNat) (do let t ← pBool; let w ← pWord; let cs ← pMany (← pNat) pWord; pure ((t, w), cs))

partial def pAlg (o : Alg.Ops W) : P (Alg.Seq W) := do
  match (← tok) with
  | "fromiter" => do let l ← pMany (← pNat) pWord; pure (Alg.fromIter l)
  | "uniform" => do let w ← pWord; let n ← pNat; pure (Alg.uniformS w n)
  | "take" => do let s ← pAlg o; let idx ← pMany (← pNat) pNat; pure (Alg.takeS o s idx)
  | "compress" => do let s ← pAlg o; let m ← pMany (← pNat) pBool; pure (Alg.compressS o s m)
  | "repeat" => do let s ← pAlg o; let c ← pNat; pure (Alg.repeatS s c)
  | "product" => do let a ← pAlg o; let b ← pAlg o; pure (Alg.productS o a b)
  | "chain" => do let a ← pAlg o; let b ← pAlg o; pure (Alg.chainS o a b)
  | "children" => do let s ← pAlg o; pure (Alg.derivedS o false s)
  | "edges" => do let s ← pAlg o; pure (Alg.derivedS o true s)
  | _ => failure

def showWord (w : W) : String := ".".intercalate (w.map toString)

def handleAlg (tab expr : String) : String :=
  match parseAll pDerTab tab with
  | none => "bad-request"
  | some tab =>
    let o : Alg.Ops W := { mul := fun a b => a ++ b, der := fun t w => (tab.lookup (t, w)).getD [] }
    match parseAll (pAlg o) expr with
    | none => "bad-request"
    | some s =>
      let l := s.toList o
      let gets := (List.range (s.len o)).map fun i => match s.get o i with
        | some w => showWord w
        | none => "none"
      s!"{s.shape}|{s.len o}|{" ".intercalate (l.map showWord)}|{" ".intercalate gets}"

/-! ### derived axes of structured topologies: `dimaxis|i j mod isperiodic|ops|ibound` with ops a blank separated list of
`R` (refined) and `G start stop` (getitem of an explicit slice); answer: the derived DimAxis, its two interface axes and its
boundary axes -/

def showAxis (a : Axis) : String := s!"{a.i} {a.j} {a.mod} {showB a.isdim} {a.ibound} {showB a.side}"

def applyDimOps (d : DimAx) : List String → Option DimAx
  | [] => some d
  | "R" :: rest => applyDimOps d.refined rest
  | "G" :: a :: b :: rest =>
    match a.toNat?, b.toNat? with
    | some a, some b => if a < b ∧ b ≤ d.len then applyDimOps (d.getitem a b) rest else none
    | _, _ => none
  | _ => none

def handleDimAxis (ax ops ib : String) : String :=
  match parseInts ax, ib.toNat? with
  | some [i, j, m, p], some ib =>
    if (p ≠ 0 ∧ p ≠ 1) ∨ j < i then "bad-request" else
    match applyDimOps { i := i, j := j, mod := m, isperiodic := p == 1 } (words ops) with
    | some d =>
      let bnd := d.boundaries ib
      let opp := bnd.map fun a => a.intOpposite ib
      s!"{d.i} {d.j} {d.mod} {showB d.isperiodic}|{showAxis (d.intaxis ib true)}|{showAxis (d.intaxis ib false)}|{";".intercalate (bnd.map showAxis)}|{";".intercalate (opp.map showAxis)}"
    | none => "bad-request"
  | _, _ => "bad-request"

def handle (line : String) : String :=
  match fields line with
  | ["alg", tab, expr] => handleAlg tab expr
  | ["dimaxis", ax, ops, ib] => handleDimAxis ax ops ib
  | ["item", it] =>
    match parseAll pItem it with
    | some it =>
      let (l, o) := linOff it.app it.fd
      s!"{it.td} {it.fd} {showB it.flip}|{showMat l}|{showVec o}"
    | none => "bad-request"
  | ["chainaff", c] =>
    match parseAll pChain c with
    | some c =>
      let (l, o) := linOff (Chain.app c) (chainFd c 0)
      s!"{showB (Chain.flip c)}|{showMat l}|{showVec o}"
    | none => "bad-request"
  | ["app", c, x] =>
    match parseAll pChain c, (words x).mapM (fun w => (pRat.run [w]).map (·.1)) with
    | some c, some x => showVec (Chain.app c x)
    | _, _ => "bad-request"
  | ["swapup", ab] =>
    match parseAll (do let a ← pItem; let b ← pItem; pure (a, b)) ab with
    | some (a, b) => match Item.swapup a b with
      | some (x, y) => s!"{showItem x}|{showItem y}"
      | none => "none"
    | none => "bad-request"
  | ["swapdown", ab] =>
    match parseAll (do let a ← pItem; let b ← pItem; pure (a, b)) ab with
    | some (a, b) => match Item.swapdown a b with
      | some (x, y) => s!"{showItem x}|{showItem y}"
      | none => "none"
    | none => "bad-request"
  | ["canon", c] =>
    match parseAll pChain c with
    | some c => showChain (canonical c)
    | none => "bad-request"
  | ["upper", c] =>
    match parseAll pChain c with
    | some c => showChain (uppermost c)
    | none => "bad-request"
  | ["iscanon", c] =>
    match parseAll pChain c with
    | some c => showB (isCanonical c)
    | none => "bad-request"
  | ["promote", n, c] =>
    match n.toNat?, parseAll pChain c with
    | some n, some c => showChain (promote c n)
    | _, _ => "bad-request"
  | "seq" :: s :: rev :: queries =>
    match parseAll pSeq s, parseAll pBool rev with
    | some s, some rev =>
      let key := mkKey s (queries.map queryChain).flatten rev
      "|".intercalate (queries.map (handleQuery s key))
    | _, _ => "bad-request"
  | _ => "bad-request"

def main : IO Unit := serve handle
