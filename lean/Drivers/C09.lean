import NutilsVerif.Core.Proto
import NutilsVerif.Model.C09
open NutilsVerif NutilsVerif.Proto NutilsVerif.C09

/-!
Requests (fields separated by `|`):

* `sample|<mode>|<expr>|<tables>`  — mode `index`, `lite` or `full`; `<expr>` in prefix notation (`D tag n c1..cn`, `C <e> n i1..in`, `A <e> <e>`, `M <e> <e>`,
  `T <e> n i1..in`, `Z <e> <e>`, `E`); `<tables>` = `tag elem : w.. : v..` entries separated by `;` (integer leaf weights
  and integer leaf values; the integrand is the product of the leaf values of a point).
  Answer: `valid|can|nelems|npoints|index` (index) `|pts|wts|integral` (lite) or `|pts|wts|integral loop flat|bind|weightAt` (full).
* `take|<expr>|<indices>`   — `Sample.take_elements`; answer: the resulting expression.
* `add|<expr>|<expr>`       — `Sample.__add__`.
* `concat|<rules>|<dups>`   — `ConcatPoints`: rules separated by `;`, each `p:w p:w ..` (integer point ids and weights);
  dups groups separated by `;`, each `i:j i:j ..`.  Answer: `p:w p:w ..`.
* `tensor|<w1>|<w2>`, `transform|<w>|<absdet>` — weights of `TensorPoints`, `TransformPoints`.
* `gauss1|degree`           — number of points.
* `table|mode|dim|deg|denX|denW|x.. : w ; ...` — `insideSimplex exactToDegree ratCheck exactToDegree(deg+1)` (mode `int`: the last two are `-`).
-/

def parseNatList (n : Nat) (ts : List String) : Option (List Nat × List String) :=
  if ts.length < n then none else
    match (ts.take n).mapM (·.toNat?) with
    | some l => some (l, ts.drop n)
    | none => none

def parseExprFuel : Nat → List String → Option (SampleExpr × List String)
  | 0, _ => none
  | fuel+1, ts =>
    match ts with
    | "E" :: r => some (.empty, r)
    | "D" :: t :: n :: r =>
      match t.toNat?, n.toNat? with
      | some t, some n => (parseNatList n r).map fun (c, r) => (.default t c, r)
      | _, _ => none
    | "C" :: r =>
      match parseExprFuel fuel r with
      | some (p, n :: r) => match n.toNat? with
        | some n => (parseNatList n r).map fun (ix, r) => (.custom p ix, r)
        | none => none
      | _ => none
    | "T" :: r =>
      match parseExprFuel fuel r with
      | some (p, n :: r) => match n.toNat? with
        | some n => (parseNatList n r).map fun (ix, r) => (.take p ix, r)
        | none => none
      | _ => none
    | "A" :: r =>
      match parseExprFuel fuel r with
      | some (a, r) => (parseExprFuel fuel r).map fun (b, r) => (.add a b, r)
      | none => none
    | "M" :: r =>
      match parseExprFuel fuel r with
      | some (a, r) => (parseExprFuel fuel r).map fun (b, r) => (.mul a b, r)
      | none => none
    | "Z" :: r =>
      match parseExprFuel fuel r with
      | some (a, r) => (parseExprFuel fuel r).map fun (b, r) => (.zip a b, r)
      | none => none
    | _ => none

def parseExpr (s : String) : Option SampleExpr :=
  let ts := words s
  match parseExprFuel (ts.length + 1) ts with
  | some (e, []) => some e
  | _ => none

def showExpr : SampleExpr → String
  | .empty => "E"
  | .default t c => s!"D {t} {c.length} {showNats c}".trimAscii.toString
  | .custom p ix => s!"C {showExpr p} {ix.length} {showNats ix}".trimAscii.toString
  | .take p ix => s!"T {showExpr p} {ix.length} {showNats ix}".trimAscii.toString
  | .add a b => s!"A {showExpr a} {showExpr b}"
  | .mul a b => s!"M {showExpr a} {showExpr b}"
  | .zip a b => s!"Z {showExpr a} {showExpr b}"

/-- leaf tables: (tag, elem) ↦ (weights, values) -/
def parseTables (s : String) : Option (List ((Nat × Nat) × (List Int × List Int))) :=
  if s.trimAscii.toString == "" then some [] else
  (s.splitOn ";").mapM fun ent =>
    match ent.splitOn ":" with
    | [k, w, v] =>
      match parseNats k, parseInts w, parseInts v with
      | some [t, e], some w, some v => some ((t, e), (w, v))
      | _, _, _ => none
    | _ => none

def lookupW (tb : List ((Nat × Nat) × (List Int × List Int))) (lp : LeafPt) : Int :=
  match tb.lookup (lp.1, lp.2.1) with
  | some (w, _) => w.getD lp.2.2 0
  | none => 0

def lookupV (tb : List ((Nat × Nat) × (List Int × List Int))) (lp : LeafPt) : Int :=
  match tb.lookup (lp.1, lp.2.1) with
  | some (_, v) => v.getD lp.2.2 0
  | none => 0

def showPt (p : Pt) : String := "+".intercalate (p.map fun lp => s!"{lp.1}:{lp.2.1}:{lp.2.2}")

def parsePairs (s : String) : Option (List (Int × Int)) :=
  (words s).mapM fun w => match w.splitOn ":" with
    | [a, b] => match a.toInt?, b.toInt? with
      | some a, some b => some (a, b)
      | _, _ => none
    | _ => none

def splitGroups (s : String) : List String :=
  if s.trimAscii.toString == "" then [] else s.splitOn ";"

def b01 (b : Bool) : String := if b then "1" else "0"

def handle (line : String) : String :=
  match fields line with
  | ["sample", mode, e, tb] =>
    match parseExpr e, parseTables tb with
    | some s, some tb =>
      let w : LeafPt → Int := lookupW tb
      let f : Pt → Int := fun P => (P.map (lookupV tb)).foldl (· * ·) 1
      let S := sem s          -- computed once: `getindex s i` would rebuild it for every element
      let ne := S.nelems
      let idx := ";".intercalate ((List.range ne).map fun i => showNats (S.getindex i))
      let head := s!"{b01 (validB s)}|{b01 (canIntegrate s)}|{ne}|{S.npoints}|{idx}"
      if mode == "index" then head
      else
        let ps := ";".intercalate ((List.range ne).map fun i => ",".intercalate ((pts s i).map showPt))
        let ws := ";".intercalate ((List.range ne).map fun i => showInts (wts w s i))
        if mode == "lite" then s!"{head}|{ps}|{ws}|{integralCode w s f}"
        else if mode == "full" then
          let bind := showInts (bindList s f)
          let wat := showInts ((List.range (npoints s)).map (weightAt w s))
          s!"{head}|{ps}|{ws}|{integralCode w s f} {loopIntegral w s f} {flatWeightedSum w s f}|{bind}|{wat}"
        else "bad-request"
    | _, _ => "bad-request"
  | ["take", e, ind] =>
    match parseExpr e, parseNats ind with
    | some s, some ind => showExpr (takeElements s ind)
    | _, _ => "bad-request"
  | ["add", a, b] =>
    match parseExpr a, parseExpr b with
    | some a, some b => showExpr (mkAdd a b)
    | _, _ => "bad-request"
  | ["concat", rules, dups] =>
    match (splitGroups rules).mapM parsePairs, (splitGroups dups).mapM parsePairs with
    | some rs, some ds =>
      let ds : List (List (Nat × Nat)) := ds.map fun g => g.map fun (a, b) => (a.toNat, b.toNat)
      if ds.any (fun g => g.isEmpty) then "bad-request" else
      let r : Rule Int Int := if ds.isEmpty then concat rs else concatDedup rs ds
      " ".intercalate (r.map fun pw => s!"{pw.1}:{pw.2}")
    | _, _ => "bad-request"
  | ["tensor", w1, w2] =>
    match parseInts w1, parseInts w2 with
    | some w1, some w2 =>
      let r1 : Rule Nat Int := w1.zipIdx.map fun (w, i) => (i, w)
      let r2 : Rule Nat Int := w2.zipIdx.map fun (w, i) => (i, w)
      " ".intercalate ((tensor r1 r2).map fun pw => s!"{pw.1.1},{pw.1.2}:{pw.2}")
    | _, _ => "bad-request"
  | ["transform", w, d] =>
    match parseInts w, d.toInt? with
    | some w, some d =>
      let r : Rule Nat Int := w.zipIdx.map fun (w, i) => (i, w)
      showInts ((transform r id d).map (·.2))
    | _, _ => "bad-request"
  | ["gauss1", d] =>
    match d.toNat? with
    | some d => toString (gauss1Npoints d)
    | none => "bad-request"
  | ["table", mode, dim, deg, dx, dw, pts] =>
    match dim.toNat?, deg.toNat?, dx.toNat?, dw.toNat?,
        (splitGroups pts).mapM (fun ent => match ent.splitOn ":" with
          | [x, w] => match parseInts x, w.trimAscii.toString.toInt? with
            | some x, some w => some (x, w)
            | _, _ => none
          | _ => none) with
    | some dim, some deg, some dx, some dw, some pts =>
      let t : ITable := (deg, dx, dw, pts)
      let t1 : ITable := (deg + 1, dx, dw, pts)
      if mode == "int" then s!"{b01 (insideSimplex dim t)} {b01 (exactToDegree dim t)} - -"
      else s!"{b01 (insideSimplex dim t)} {b01 (exactToDegree dim t)} {b01 ((monomials dim deg).all (ratMonomialOK dim t))} {b01 (exactToDegree dim t1)}"
    | _, _, _, _, _ => "bad-request"
  | _ => "bad-request"

def main : IO Unit := serve handle
