import NutilsVerif.Model.C17.Wire
open NutilsVerif NutilsVerif.Proto NutilsVerif.C17

/-! request syntax and handler: see `NutilsVerif/Model/C17/Wire.lean` -/

def main : IO Unit := serve handle
