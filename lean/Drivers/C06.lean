import NutilsVerif.Model.C06
open NutilsVerif NutilsVerif.Proto NutilsVerif.C06

def parseNum (s : String) : Option PyNum :=
  if s == "-inf" then some .ninf
  else if s == "inf" then some .pinf
  else if s == "nan" then some .nan
  else s.toInt?.map .int

def showNum : PyNum → String
  | .int z => toString z
  | .ninf => "-inf"
  | .pinf => "inf"
  | .nan => "nan"

def parseRng (s : String) : Option Rng :=
  match words s with
  | [a, b] => do some ((← parseNum a), (← parseNum b))
  | _ => none

def parseNums (s : String) : Option (List PyNum) := (words s).mapM parseNum

def showRes : Option Rng → String
  | some r => s!"ok {showNum r.1} {showNum r.2}"
  | none => "raise"

/-- `c <v>` = 0-d constant integer array with value v, `n` = anything else -/
def parseConstScalar (s : String) : Option (Option Int) :=
  match words s with
  | ["n"] => some none
  | ["c", v] => v.toInt?.map some
  | _ => none

def parseDofKind (s : String) : Option DofKind :=
  match words s with
  | ["scalar"] => some .scalar
  | ["const", c] => c.toNat?.map .const
  | "shape" :: us => (us.mapM parseNum).map .shape
  | _ => none

def tf (cls : String) (args : List String) : Option (Option Rng) :=
  match cls, args with
  | "Default", [c] => do some (tfDefault (← parseConstScalar c))
  | "Constant", [v] => do some (tfConstant (← parseInts v))
  | "Identity", [r] => do some (tfIdentity (← parseRng r))
  | "AssertEqual", [a, b] => do some (tfAssertEqual (← parseRng a) (← parseRng b))
  | "Multiply", [a, b] => do some (tfMul (← parseRng a) (← parseRng b))
  | "Add", rs => do some (tfAdd (← rs.mapM parseRng))
  | "Einsum", k :: rs => do
      let k ← k.toNat?
      let rs ← rs.mapM parseRng
      if k ≤ rs.length then some (tfEinsum (rs.take k) (rs.drop k)) else none
  | "Sum", [f, l] => do some (tfSum (← parseRng f) (← parseRng l))
  | "Negative", [r] => do some (tfNeg (← parseRng r))
  | "FloorDivide", [a, b] => do some (tfFloorDiv (← parseRng a) (← parseRng b))
  | "Absolute", [r] => do some (tfAbs (← parseRng r))
  | "Mod", [a, b, c] => do some (tfMod (← parseRng a) (← parseRng b) (← parseConstScalar c))
  | "Minimum", [a, b] => do some (tfMin (← parseRng a) (← parseRng b))
  | "Maximum", [a, b] => do some (tfMax (← parseRng a) (← parseRng b))
  | "BoolToInt", [] => some tfBoolToInt
  | "Sign", [r] => do some (tfSign (← parseRng r))
  | "Zeros", [] => some tfZeros
  | "Inflate", [r, k] => do some (tfInflate (← parseRng r) (← parseDofKind k))
  | "IndexBelow", [l] => do some (tfIndexBelow (← parseRng l))
  | "Range", [l] => do some (tfRange (← parseRng l))
  | "RavelIndex", [ia, ib, nb] => do some (tfRavelIndex (← parseRng ia) (← parseRng ib) (← parseRng nb))
  | "InRange", [i, l] => do some (tfInRange (← parseRng i) (← parseRng l))
  | "NormDim", [l, i] => do some (tfNormDim (← parseRng l) (← parseRng i))
  | "PolyDegree", [nv, r] => do some (tfPolyDegree (← nv.toNat?) (← parseRng r))
  | "PolyNCoeffs", [nv, r] => do some (tfPolyNCoeffs (← nv.toNat?) (← parseRng r))
  | "TransformIndex", [n] => do some (tfTransformIndex (← n.toNat?))
  | "SizesToOffsets", [s, l] => do some (tfSizesToOffsets (← parseRng s) (← parseRng l))
  | "SearchSorted", [l] => do some (tfSearchSorted (← parseRng l))
  | _, _ => none

def handle (line : String) : String :=
  match fields line with
  | "tf" :: cls :: args =>
    match tf cls args with
    | some raw => showRes (bnd raw)
    | none => "bad-request"
  | ["poly", nv, n] =>
    match nv.toNat?, n.toInt? with
    | some nv, some n =>
      let d := match degree? nv n with | some d => toString d | none => "raise"
      let c := if 0 ≤ n then toString (ncoeffs nv n.toNat) else "raise"
      s!"{d} {c}"
    | _, _ => "bad-request"
  | _ => "bad-request"

def main : IO Unit := serve handle
