import NutilsVerif.Model.C06
import NutilsVerif.Model.C06Expr
import NutilsVerif.Model.C06Func
open NutilsVerif NutilsVerif.Proto NutilsVerif.C06

def parseNum (s : String) : Option PyNum :=
  if s == "-inf" then some .ninf
  else if s == "inf" then some .pinf
  else if s == "nan" then some .nan
  else s.toInt?.map .int

def showNum : PyNum → String
  | .int z => toString z
  | .ninf => "-inf"
  | .pinf => "inf"
  | .nan => "nan"

def parseRng (s : String) : Option Rng :=
  match words s with
  | [a, b] => do some ((← parseNum a), (← parseNum b))
  | _ => none

def parseNums (s : String) : Option (List PyNum) := (words s).mapM parseNum

def showRes : Option Rng → String
  | some r => s!"ok {showNum r.1} {showNum r.2}"
  | none => "raise"

/-- `c <v>` = 0-d constant integer array with value v, `n` = anything else -/
def parseConstScalar (s : String) : Option (Option Int) :=
  match words s with
  | ["n"] => some none
  | ["c", v] => v.toInt?.map some
  | _ => none

def parseDofKind (s : String) : Option DofKind :=
  match words s with
  | ["scalar"] => some .scalar
  | ["const", c] => c.toNat?.map .const
  | "shape" :: us => (us.mapM parseNum).map .shape
  | _ => none

def tf (cls : String) (args : List String) : Option (Option Rng) :=
  match cls, args with
  | "Default", [c] => do some (tfDefault (← parseConstScalar c))
  | "Constant", [v] => do some (tfConstant (← parseInts v))
  | "Identity", [r] => do some (tfIdentity (← parseRng r))
  | "AssertEqual", [a, b] => do some (tfAssertEqual (← parseRng a) (← parseRng b))
  | "Multiply", [a, b] => do some (tfMul (← parseRng a) (← parseRng b))
  | "Add", rs => do some (tfAdd (← rs.mapM parseRng))
  | "Einsum", k :: rs => do
      let k ← k.toNat?
      let rs ← rs.mapM parseRng
      if k ≤ rs.length then some (tfEinsum (rs.take k) (rs.drop k)) else none
  | "Sum", [f, l] => do some (tfSum (← parseRng f) (← parseRng l))
  | "Negative", [r] => do some (tfNeg (← parseRng r))
  | "FloorDivide", [a, b] => do some (tfFloorDiv (← parseRng a) (← parseRng b))
  | "Absolute", [r] => do some (tfAbs (← parseRng r))
  | "Mod", [a, b, c] => do some (tfMod (← parseRng a) (← parseRng b) (← parseConstScalar c))
  | "Minimum", [a, b] => do some (tfMin (← parseRng a) (← parseRng b))
  | "Maximum", [a, b] => do some (tfMax (← parseRng a) (← parseRng b))
  | "BoolToInt", [] => some tfBoolToInt
  | "Sign", [r] => do some (tfSign (← parseRng r))
  | "Zeros", [] => some tfZeros
  | "Inflate", [r, k] => do some (tfInflate (← parseRng r) (← parseDofKind k))
  | "IndexBelow", [l] => do some (tfIndexBelow (← parseRng l))
  | "Range", [l] => do some (tfRange (← parseRng l))
  | "RavelIndex", [ia, ib, nb] => do some (tfRavelIndex (← parseRng ia) (← parseRng ib) (← parseRng nb))
  | "InRange", [i, l] => do some (tfInRange (← parseRng i) (← parseRng l))
  | "NormDim", [l, i] => do some (tfNormDim (← parseRng l) (← parseRng i))
  | "PolyDegree", [nv, r] => do some (tfPolyDegree (← nv.toNat?) (← parseRng r))
  | "PolyNCoeffs", [nv, r] => do some (tfPolyNCoeffs (← nv.toNat?) (← parseRng r))
  | "TransformIndex", [n] => do some (tfTransformIndex (← n.toNat?))
  | "SizesToOffsets", [s, l] => do some (tfSizesToOffsets (← parseRng s) (← parseRng l))
  | "SearchSorted", [l] => do some (tfSearchSorted (← parseRng l))
  | _, _ => none

/-- prefix notation, fixed arities:  `add <e> <e>`, `const s|v <k> <v1> … <vk>`, `argS <name> <lo> <hi>`, `argV <name> <lo> <hi> <e>`, … -/
partial def parseExpr : List String → Option (Expr × List String)
  | "const" :: sc :: k :: rest => do
    let k ← k.toNat?
    let vals ← (rest.take k).mapM (·.toInt?)
    if vals.length ≠ k then none else
    let sc ← if sc == "s" then some true else if sc == "v" then some false else none
    some (.const sc vals, rest.drop k)
  | "argS" :: n :: lo :: hi :: rest => do some (.argS (← n.toNat?) (← parseNum lo) (← parseNum hi), rest)
  | "argV" :: n :: lo :: hi :: rest => do
    let (len, rest) ← parseExpr rest
    some (.argV (← n.toNat?) (← parseNum lo) (← parseNum hi) len, rest)
  | "loopIndex" :: id :: rest => do
    let (len, rest) ← parseExpr rest
    some (.loopIndex (← id.toNat?) len, rest)
  | "loopSum" :: id :: rest => do
    let (len, rest) ← parseExpr rest
    let (body, rest) ← parseExpr rest
    some (.loopSum (← id.toNat?) len body, rest)
  | "loopConcat" :: id :: rest => do
    let (len, rest) ← parseExpr rest
    let (body, rest) ← parseExpr rest
    let (blen, rest) ← parseExpr rest
    some (.loopConcat (← id.toNat?) len body blen, rest)
  | "ravelIndex" :: rest => do
    let (a, rest) ← parseExpr rest
    let (b, rest) ← parseExpr rest
    let (c, rest) ← parseExpr rest
    some (.ravelIndex a b c, rest)
  | op :: rest =>
    match op with
    | "neg" | "abs" | "sign" | "range" => do
      let (a, rest) ← parseExpr rest
      let e ← match op with
        | "neg" => some (Expr.neg a) | "abs" => some (.abs a) | "sign" => some (.sign a) | "range" => some (.range a) | _ => none
      some (e, rest)
    | _ => do
      let (a, rest) ← parseExpr rest
      let (b, rest) ← parseExpr rest
      let e ← match op with
        | "add" => some (Expr.add a b) | "mul" => some (.mul a b) | "floordiv" => some (.floordiv a b) | "mod" => some (.mod a b)
        | "min" => some (.min a b) | "max" => some (.max a b) | "inRange" => some (.inRange a b) | "normDim" => some (.normDim a b)
        | "insertAxis" => some (.insertAxis a b) | "take" => some (.take a b) | "sum" => some (.sum a b)
        | "sizesToOffsets" => some (.sizesToOffsets a b) | _ => none
      some (e, rest)
  | [] => none

/-- `name:v1,v2;name:…` -/
def parseArgs (s : String) : Option (List (Nat × List Int)) :=
  ((s.splitOn ";").filter (· ≠ "")).mapM fun item =>
    match item.splitOn ":" with
    | [n, vs] => do some ((← n.trimAscii.toString.toNat?), (← ((vs.splitOn ",").filter (· ≠ "")).mapM (·.trimAscii.toString.toInt?)))
    | _ => none

def mkEnv (args : List (Nat × List Int)) (loops : List (Nat × List Int)) : Env :=
  { args := fun n => (args.lookup n).getD []
    loops := fun i => ((loops.lookup i).getD []).headD 0 }

def showDep : Dep → String
  | .arg n => s!"a{n}"
  | .loop i => s!"l{i}"

def showSimp (e : Expr) : String :=
  let r := match e with
    | .inRange a b => (simpInRange a b).map fun _ => "0"
    | .mod a b => (simpMod a b).map fun _ => "0"
    | .normDim a b => (simpNormDim a b).map fun _ => "1"
    | .min a b => (match simpMin a b, bounds a, bounds b with
        | some _, some r1, some r2 => some (if PyNum.le r1.2 r2.1 then "0" else "1")
        | _, _, _ => none)
    | .max a b => (match simpMax a b, bounds a, bounds b with
        | some _, some r1, some r2 => some (if PyNum.le r2.2 r1.1 then "0" else "1")
        | _, _, _ => none)
    | _ => none
  r.getD "none"

def handle (line : String) : String :=
  match fields line with
  | "tf" :: cls :: args =>
    match tf cls args with
    | some raw => showRes (bnd raw)
    | none => "bad-request"
  | ["expr", toks, args, loops] =>
    match parseExpr (words toks), parseArgs args, parseArgs loops with
    | some (e, []), some args, some loops =>
      let ev := match eval e (mkEnv args loops) with
        | some v => showInts v
        | none => "raise"
      let deps := ",".intercalate ((deps e).eraseDups.map showDep)
      let len := match lenOf e with
        | none => "scalar"
        | some l => (match scalarOf (eval l (mkEnv args loops)) with | some k => toString k | none => "raise")
      let lenb := match lenOf e with
        | none => "scalar"
        | some l => showRes (bounds l)
      s!"bounds={showRes (bounds e)};deps={deps};scalar={if isScalar e then 1 else 0};index={if isIndex e then 1 else 0};simp={showSimp e};len={len};lenbounds={lenb};eval={ev}"
    | _, _, _ => "bad-request"
  | ["fargs", args, keys, targets] =>
    -- announced names of `_Replace(arg, spec)`: names of arg | keys of the specification | announced names of each replacement (`;`-separated, same order)
    let ks := words keys
    let ts := (targets.splitOn ";").map words
    if ks.length != ts.length then "bad-request" else
    let tbl := ks.zip ts
    let res := Func.announceReplace (words args) ks (fun k => match tbl.lookup k with | some t => t | none => [])
    "names " ++ " ".intercalate res.eraseDups
  | ["poly", nv, n] =>
    match nv.toNat?, n.toInt? with
    | some nv, some n =>
      let d := match degree? nv n with | some d => toString d | none => "raise"
      let c := if 0 ≤ n then toString (ncoeffs nv n.toNat) else "raise"
      s!"{d} {c}"
    | _, _ => "bad-request"
  | _ => "bad-request"

def main : IO Unit := serve handle
