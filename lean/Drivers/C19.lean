import NutilsVerif.Core.Proto
import NutilsVerif.Model.C19
import NutilsVerif.Model.C19Src
import NutilsVerif.Model.C19Sem
open NutilsVerif NutilsVerif.Proto NutilsVerif.C19

/-- fields separated by '|' WITHOUT trimming (marker / expression data may start with blanks) -/
def rawFields (line : String) : List String := line.splitOn "|"

partial def showOps : Ops → String
  | .int v => s!"i({v})"
  | .float m e => s!"f({m},{e})"
  | .var n => s!"v({str n})"
  | .call n k a => s!"c({str n},{k},{showOps a})"
  | .getElement a ax i => s!"g({showOps a},{ax},{i})"
  | .transpose a axes => s!"t({showOps a};{showNats axes})"
  | .trace a i j => s!"tr({showOps a},{i},{j})"
  | .scope a => s!"s({showOps a})"
  | .mean a => s!"m({showOps a})"
  | .jump a => s!"j({showOps a})"
  | .add negs args => "add(" ++ ",".intercalate ((List.zip negs args).map fun (n, a) => (if n then "-" else "+") ++ showOps a) ++ ")"
  | .mul args => "mul(" ++ ",".intercalate (args.map showOps) ++ ")"
  | .div a b => s!"div({showOps a},{showOps b})"
  | .pow a b => s!"pow({showOps a},{showOps b})"

def parseCodes (s : String) : Option (List Char) :=
  (parseNats s).map fun l => l.map Char.ofNat

/-- `name:2,3 other:` → association list -/
def parseAssoc (s : String) : Option (List (Name × List Nat)) :=
  (words s).mapM fun w =>
    match w.splitOn ":" with
    | [n, sh] =>
      let dims := (sh.splitOn ",").filter (· ≠ "")
      (dims.mapM fun (x : String) => x.toNat?).map fun d => (n.toList, d)
    | _ => none

def parseEntry : String → Option Entry
  | "expr" => some .expression | "frac" => some .fraction | "term" => some .term
  | "pow1" => some (.power true) | "pow0" => some (.power false)
  | "item1" => some (.item true) | "item0" => some (.item false)
  | _ => none

def dedupSorted (l : List Char) : List Char := (l.mergeSort (· ≤ ·)).eraseDups

def showRes (r : P Res) (n : Nat) : String :=
  match r with
  | .ok r => s!"ok|{showOps r.ops}|{showNats r.shape}|{str r.indices}|{str (dedupSorted r.summed)}"
  | .error e => s!"err|{e.kind.message}|{str ((e.markers n).map fun c => if c == ' ' then '.' else c)}"

/-- prefix-coded source ASTs: `num d d ... ;` `var name idx|-` `paren e` `jump e` `mean e` `prod f tail` `pnil`
`pcons f tail` `sum 0|1 first tail` `tnil` `tcons 0|1 t tail` `powint b 0|1 d d ... ;` `powexpr b e` `frac n d` `dec d.. ; nofp|fp d.. ; noex|ex 0|1 d.. ;` `call name idx|- e` -/
partial def readSrc : List String → Option (Src × List String)
  | "num" :: rest =>
    let ds := rest.takeWhile (· ≠ ";")
    match ds.mapM (·.toNat?), rest.dropWhile (· ≠ ";") with
    | some d, _ :: rest' => some (.num d, rest')
    | _, _ => none
  | "dec" :: rest =>
    let ipT := rest.takeWhile (· ≠ ";")
    match ipT.mapM (·.toNat?), rest.dropWhile (· ≠ ";") with
    | some ip, _ :: r1 =>
      let fpRes : Option (Option (List Nat) × List String) :=
        match r1 with
        | "nofp" :: r2 => some (none, r2)
        | "fp" :: r2 =>
          match (r2.takeWhile (· ≠ ";")).mapM (·.toNat?), r2.dropWhile (· ≠ ";") with
          | some f, _ :: r3 => some (some f, r3)
          | _, _ => none
        | _ => none
      match fpRes with
      | some (fp, r3) =>
        match r3 with
        | "noex" :: r4 => some (.dec ip fp none, r4)
        | "ex" :: ng :: r4 =>
          match (r4.takeWhile (· ≠ ";")).mapM (·.toNat?), r4.dropWhile (· ≠ ";") with
          | some d, _ :: r5 => some (.dec ip fp (some (ng == "1", d)), r5)
          | _, _ => none
        | _ => none
      | none => none
    | _, _ => none
  | "call" :: name :: idx :: rest =>
    (readSrc rest).map fun (e, r) => (.call name.toList (if idx == "-" then [] else idx.toList) e, r)
  | "var" :: name :: idx :: rest => some (.var name.toList (if idx == "-" then [] else idx.toList), rest)
  | "paren" :: rest => (readSrc rest).map fun (e, r) => (.paren e, r)
  | "jump" :: rest => (readSrc rest).map fun (e, r) => (.jump e, r)
  | "mean" :: rest => (readSrc rest).map fun (e, r) => (.mean e, r)
  | "powint" :: rest =>
    (readSrc rest).bind fun (b, r) =>
      match r with
      | ng :: r' =>
        let ds := r'.takeWhile (· ≠ ";")
        match ds.mapM (·.toNat?), r'.dropWhile (· ≠ ";") with
        | some d, _ :: r'' => some (.powInt b (ng == "1") d, r'')
        | _, _ => none
      | [] => none
  | "powexpr" :: rest => (readSrc rest).bind fun (b, r) => (readSrc r).map fun (e, r') => (.powExpr b e, r')
  | "frac" :: rest => (readSrc rest).bind fun (n, r) => (readSrc r).map fun (d, r') => (.frac n d, r')
  | "prod" :: rest => (readSrc rest).bind fun (f, r) => (readSrc r).map fun (t, r') => (.prod f t, r')
  | "pnil" :: rest => some (.pnil, rest)
  | "pcons" :: rest => (readSrc rest).bind fun (f, r) => (readSrc r).map fun (t, r') => (.pcons f t, r')
  | "sum" :: b :: rest => (readSrc rest).bind fun (f, r) => (readSrc r).map fun (t, r') => (.sum (b == "1") f t, r')
  | "tnil" :: rest => some (.tnil, rest)
  | "tcons" :: b :: rest => (readSrc rest).bind fun (f, r) => (readSrc r).map fun (t, r') => (.tcons (b == "1") f t, r')
  | _ => none

def showCodes (l : List Char) : String := showNats (l.map Char.toNat)

/-! evaluation of `evalOps` on integer data (the tie of the tensor semantics to the real `_FunctionArrayOps`) -/

def intAlg : Alg Int :=
  ⟨0, (· + ·), (- ·), (· * ·), (· / ·), fun a b => if b.toNat > 64 then 0 else a ^ b.toNat, id,
   fun m e => if e.toNat > 64 then 0 else (m : Int) * 10 ^ e.toNat⟩   -- capped: the harness only compares small exact cases

def flatIndex (shape idx : List Nat) : Nat := (List.zip shape idx).foldl (fun acc p => acc * p.1 + p.2) 0

def mkTensor (shape : List Nat) (data : List Int) : Tensor Int := ⟨shape, fun idx => data.getD (flatIndex shape idx) 0⟩

def fnTensor (gen : List Nat) (f : Int → List Nat → Int) (t : Tensor Int) : Tensor Int :=
  ⟨t.shape ++ gen, fun idx => f (t.get (idx.take t.shape.length)) (idx.drop t.shape.length)⟩

/-- the functions of the harness' namespaces -/
def harnessFn (n : Name) (t : Tensor Int) : Tensor Int :=
  match str n with
  | "f" => fnTensor [] (fun u _ => 2 * u + 1) t
  | "h" => fnTensor [] (fun u _ => u * u) t
  | "g" => fnTensor [2] (fun u k => u * (if k.headD 0 == 0 then 1 else 10) + (k.headD 0 : Int)) t
  | "w" => fnTensor [3] (fun u k => u * ((k.headD 0 : Int) + 2) - 1) t
  | "G" => fnTensor [2, 3] (fun u k => u * ((k.headD 0 : Int) + 1) + (k.getD 1 0 : Int)) t
  | "abs" => fnTensor [] (fun u _ => if u < 0 then -u else u) t
  | "sign" => fnTensor [] (fun u _ => if u < 0 then -1 else if u == 0 then 0 else 1) t
  | _ => ⟨t.shape, fun _ => 0⟩

/-- all multi-indices of a shape in row-major order -/
def allIdx : List Nat → List (List Nat)
  | [] => [[]]
  | n :: ns => (List.range n).flatMap fun i => (allIdx ns).map (i :: ·)

/-- `name:2,3:1,2,3,4,5,6` -/
def parseData (s : String) : Option (List (Name × List Nat × List Int)) :=
  (words s).mapM fun w =>
    match w.splitOn ":" with
    | [n, sh, dat] =>
      match ((sh.splitOn ",").filter (· ≠ "")).mapM (fun (x : String) => x.toNat?),
            ((dat.splitOn ",").filter (· ≠ "")).mapM (fun (x : String) => x.toInt?) with
      | some d, some v => some (n.toList, d, v)
      | _, _ => none
    | _ => none

def handle (line : String) : String :=
  match rawFields line with
  | ["parse", entry, vars, fns, codes] =>
    match parseEntry entry, parseAssoc vars, parseAssoc fns, parseCodes codes with
    | some e, some vs, some fs, some l => showRes (parseAt ⟨vs, fs⟩ e l) l.length
    | _, _, _, _ => "bad-request"
  | ["eval", vars, fns, codes] =>
    match parseData vars, parseAssoc fns, parseCodes codes with
    | some vs, some fs, some l =>
      match parse ⟨vs.map fun v => (v.1, v.2.1), fs⟩ l with
      | .error e => s!"err|{e.kind.message}"
      | .ok r =>
        let E : Env Int := ⟨intAlg, fun n => match vs.find? (·.1 == n) with | some v => mkTensor v.2.1 v.2.2 | none => ⟨[], fun _ => 0⟩,
          harnessFn, id, fun t => ⟨t.shape, fun _ => 0⟩⟩
        let t := evalOps E r.ops
        s!"ok|{showNats t.shape}|{str r.indices}|{showInts ((allIdx t.shape).map t.get)}"
    | _, _, _ => "bad-request"
  | ["src", vars, fns, toks] =>
    match parseAssoc vars, parseAssoc fns, readSrc (words toks) with
    | some vs, some fs, some (t, []) =>
      let el := match elabExpr ⟨vs, fs⟩ t with
        | some r => s!"some|{showOps r.ops}|{showNats r.shape}|{str r.indices}|{str (dedupSorted r.summed)}"
        | none => "none"
      s!"{if t.ok .expr then 1 else 0}|{showCodes t.print}|{el}"
    | _, _, _ => "bad-request"
  | _ => "bad-request"

def main : IO Unit := serve handle
