import NutilsVerif.Core.Proto
import NutilsVerif.Model.C19
import NutilsVerif.Model.C19Src
open NutilsVerif NutilsVerif.Proto NutilsVerif.C19

/-- fields separated by '|' WITHOUT trimming (marker / expression data may start with blanks) -/
def rawFields (line : String) : List String := line.splitOn "|"

partial def showOps : Ops → String
  | .int v => s!"i({v})"
  | .float m e => s!"f({m},{e})"
  | .var n => s!"v({str n})"
  | .call n k a => s!"c({str n},{k},{showOps a})"
  | .getElement a ax i => s!"g({showOps a},{ax},{i})"
  | .transpose a axes => s!"t({showOps a};{showNats axes})"
  | .trace a i j => s!"tr({showOps a},{i},{j})"
  | .scope a => s!"s({showOps a})"
  | .mean a => s!"m({showOps a})"
  | .jump a => s!"j({showOps a})"
  | .add negs args => "add(" ++ ",".intercalate ((List.zip negs args).map fun (n, a) => (if n then "-" else "+") ++ showOps a) ++ ")"
  | .mul args => "mul(" ++ ",".intercalate (args.map showOps) ++ ")"
  | .div a b => s!"div({showOps a},{showOps b})"
  | .pow a b => s!"pow({showOps a},{showOps b})"

def parseCodes (s : String) : Option (List Char) :=
  (parseNats s).map fun l => l.map Char.ofNat

/-- `name:2,3 other:` → association list -/
def parseAssoc (s : String) : Option (List (Name × List Nat)) :=
  (words s).mapM fun w =>
    match w.splitOn ":" with
    | [n, sh] =>
      let dims := (sh.splitOn ",").filter (· ≠ "")
      (dims.mapM fun (x : String) => x.toNat?).map fun d => (n.toList, d)
    | _ => none

def parseEntry : String → Option Entry
  | "expr" => some .expression | "frac" => some .fraction | "term" => some .term
  | "pow1" => some (.power true) | "pow0" => some (.power false)
  | "item1" => some (.item true) | "item0" => some (.item false)
  | _ => none

def dedupSorted (l : List Char) : List Char := (l.mergeSort (· ≤ ·)).eraseDups

def showRes (r : P Res) (n : Nat) : String :=
  match r with
  | .ok r => s!"ok|{showOps r.ops}|{showNats r.shape}|{str r.indices}|{str (dedupSorted r.summed)}"
  | .error e => s!"err|{e.kind.message}|{str ((e.markers n).map fun c => if c == ' ' then '.' else c)}"

/-- prefix-coded source ASTs: `num d d ... ;` `var name idx|-` `paren e` `jump e` `mean e` `prod f tail` `pnil`
`pcons f tail` `sum 0|1 first tail` `tnil` `tcons 0|1 t tail` -/
partial def readSrc : List String → Option (Src × List String)
  | "num" :: rest =>
    let ds := rest.takeWhile (· ≠ ";")
    match ds.mapM (·.toNat?), rest.dropWhile (· ≠ ";") with
    | some d, _ :: rest' => some (.num d, rest')
    | _, _ => none
  | "var" :: name :: idx :: rest => some (.var name.toList (if idx == "-" then [] else idx.toList), rest)
  | "paren" :: rest => (readSrc rest).map fun (e, r) => (.paren e, r)
  | "jump" :: rest => (readSrc rest).map fun (e, r) => (.jump e, r)
  | "mean" :: rest => (readSrc rest).map fun (e, r) => (.mean e, r)
  | "prod" :: rest => (readSrc rest).bind fun (f, r) => (readSrc r).map fun (t, r') => (.prod f t, r')
  | "pnil" :: rest => some (.pnil, rest)
  | "pcons" :: rest => (readSrc rest).bind fun (f, r) => (readSrc r).map fun (t, r') => (.pcons f t, r')
  | "sum" :: b :: rest => (readSrc rest).bind fun (f, r) => (readSrc r).map fun (t, r') => (.sum (b == "1") f t, r')
  | "tnil" :: rest => some (.tnil, rest)
  | "tcons" :: b :: rest => (readSrc rest).bind fun (f, r) => (readSrc r).map fun (t, r') => (.tcons (b == "1") f t, r')
  | _ => none

def showCodes (l : List Char) : String := showNats (l.map Char.toNat)

def handle (line : String) : String :=
  match rawFields line with
  | ["parse", entry, vars, fns, codes] =>
    match parseEntry entry, parseAssoc vars, parseAssoc fns, parseCodes codes with
    | some e, some vs, some fs, some l => showRes (parseAt ⟨vs, fs⟩ e l) l.length
    | _, _, _, _ => "bad-request"
  | ["src", vars, fns, toks] =>
    match parseAssoc vars, parseAssoc fns, readSrc (words toks) with
    | some vs, some fs, some (t, []) =>
      let el := match elabExpr ⟨vs, fs⟩ t with
        | some r => s!"some|{showOps r.ops}|{showNats r.shape}|{str r.indices}|{str (dedupSorted r.summed)}"
        | none => "none"
      s!"{if t.ok .expr then 1 else 0}|{showCodes t.print}|{el}"
    | _, _, _ => "bad-request"
  | _ => "bad-request"

def main : IO Unit := serve handle
