import Lean.Data.Json
import NutilsVerif.Core.Proto
import NutilsVerif.Model.C02
/-!
Line protocol of the C02 driver: one JSON request per line.

{"script": {"globals": [name, …], "prog": [stmt, …]}}
    stmt = ["assign", x, [reads]] | ["alloc", x, [reads]] | ["fill", x, [sig]] | ["write", x, [sig], [reads]]
         | ["accum", x, [sig], [reads]] | ["use", [reads]] | ["loop", i, [reads], [body]] | ["rerun", [cached], [first], [again]]
    → {"ok": true} | {"ok": false, "kind": …, "var": …}
{"core": expr, "shared": [expr, …], "early": [expr, …]}
    expr = ["leaf", k, size] | ["add", a, b] | ["scatter", t, n, e] | ["transp", t, e] | ["loopsum", n, e]
    → {"stmts": [...], "result": x}      the script `compileCore` emits (nutils' gate = the listed sub-expressions)
{"exec": expr, "shared": […], "early": […], "rho": [[leaf, "env key", [value, …]], …], "M": [[tag, "env key", [target cell, …]], …],
 "P": [[tag, [target cell, …]], …], "Q": [[tag, [source cell, …]], …]}
    → {"wf": bool, "run": [value | null, …] | null, "eval": [value, …]}   the emitted script executed by `execL` from an empty
      store over ℤ (cells of the result variable), and the denotation `eval`; "env key" = loop indices, innermost first, joined by ","
{"blockof": [[dep block id, …], …]}  → {"blocks": [[id, scope_ok], …]}
{"flat": tree}   tree = [child tree, …]  → {"ids": [[…], …]}     block ids in execution order
-/
open Lean NutilsVerif.C02

partial def toStmt (j : Json) : Except String Stmt := do
  let a ← j.getArr?
  let strs (k : Json) : Except String (List String) := do
    let l ← k.getArr?
    l.toList.mapM fun s => s.getStr?
  let stmts (k : Json) : Except String (List Stmt) := do
    let l ← k.getArr?
    l.toList.mapM toStmt
  match a.toList with
  | [.str "assign", .str x, r] => pure (.assign x (← strs r))
  | [.str "alloc", .str x, r] => pure (.alloc x (← strs r))
  | [.str "fill", .str x, s] => pure (.fill x (← strs s))
  | [.str "write", .str x, s, r] => pure (.write x (← strs s) (← strs r))
  | [.str "accum", .str x, s, r] => pure (.accum x (← strs s) (← strs r))
  | [.str "use", r] => pure (.use (← strs r))
  | [.str "loop", .str i, r, b] => pure (.loop i (← strs r) (← stmts b))
  | [.str "rerun", c, f, g] => pure (.rerun (← strs c) (← stmts f) (← stmts g))
  | _ => throw s!"unknown statement {j.compress}"

partial def toE (j : Json) : Except String E := do
  let a ← j.getArr?
  let nat (k : Json) : Except String Nat := k.getNat?
  match a.toList with
  | [.str "leaf", k, s] => pure (.leaf (← nat k) (← nat s))
  | [.str "add", x, y] => pure (.add (← toE x) (← toE y))
  | [.str "scatter", t, n, e] => pure (.scatter (← nat t) (← nat n) (← toE e))
  | [.str "transp", t, e] => pure (.transp (← nat t) (← toE e))
  | [.str "loopsum", n, e] => pure (.loopsum (← nat n) (← toE e))
  | _ => throw s!"unknown expression {j.compress}"

partial def sJson : S → Json
  | .alloc x n => Json.arr #["alloc", x, n]
  | .zero x v n => Json.arr #["zero", x, toJson v, n]
  | .leafv x k n => Json.arr #["leafv", x, k, n]
  | .plus x a b n => Json.arr #["plus", x, a, b, n]
  | .reindex x t a n => Json.arr #["reindex", x, t, a, n]
  | .addAt x v sc src n => Json.arr #["addAt", x, toJson v, (match sc with | some t => (t : Json) | none => Json.null), src, n]
  | .copyTo x v src n => Json.arr #["copyTo", x, toJson v, src, n]
  | .loop n body => Json.arr #["loop", n, Json.arr (body.map sJson).toArray]

partial def toTree (j : Json) : Except String LoopTree := do
  let a ← j.getArr?
  pure (.node (← a.toList.mapM toTree))

def envKey (env : List Nat) : String := ",".intercalate (env.map toString)

def lookup2 (tbl : List (Nat × String × List Int)) (k : Nat) (env : List Nat) : List Int :=
  match tbl.find? (fun r => r.1 == k && r.2.1 == envKey env) with
  | some r => r.2.2
  | none => []

def parseTbl2 (j : Json) : Except String (List (Nat × String × List Int)) := do
  let rows ← j.getArr?
  rows.toList.mapM fun r => do
    let a ← r.getArr?
    match a.toList with
    | [k, e, v] => pure (← k.getNat?, ← e.getStr?, ← (fromJson? v : Except String (List Int)))
    | _ => throw "bad table row"

def parseTbl1 (j : Json) : Except String (List (Nat × List Nat)) := do
  let rows ← j.getArr?
  rows.toList.mapM fun r => do
    let a ← r.getArr?
    match a.toList with
    | [k, v] => pure (← k.getNat?, ← (fromJson? v : Except String (List Nat)))
    | _ => throw "bad table row"

def lookup1 (tbl : List (Nat × List Nat)) (k : Nat) (j : Nat) : Nat :=
  match tbl.find? (fun r => r.1 == k) with
  | some r => r.2.getD j 0
  | none => 0

/-- decidable version of `WF` for table contexts (scatter maps are checked on the listed environments) -/
def wfB (Γ : Ctx Int) (envs : Nat → List (List Nat)) : E → Bool
  | .leaf _ _ => true
  | .add a b => a.size == b.size && wfB Γ envs a && wfB Γ envs b
  | .scatter t n e => ((envs t).all fun env => (List.range e.size).all fun j => Γ.M t env j < n) && wfB Γ envs e
  | .transp t e => ((List.range e.size).all fun j => Γ.P t j < e.size && Γ.Q t j < e.size && Γ.Q t (Γ.P t j) == j && Γ.P t (Γ.Q t j) == j) && wfB Γ envs e
  | .loopsum _ e => wfB Γ envs e

def handle (line : String) : String :=
  match Json.parse line with
  | .error e => "bad-request " ++ e
  | .ok j =>
    match j.getObjVal? "script" with
    | .ok sc =>
      match (do
        let g ← sc.getObjValAs? (List String) "globals"
        let p ← sc.getObjVal? "prog"
        let l ← p.getArr?
        let prog ← l.toList.mapM toStmt
        pure (g, prog) : Except String (List String × List Stmt)) with
      | .error e => "bad-request " ++ e
      | .ok (g, prog) =>
        match checkScript g prog with
        | .ok _ => (Json.mkObj [("ok", true)]).compress
        | .error e => (Json.mkObj [("ok", false), ("kind", e.kind), ("var", e.var)]).compress
    | .error _ =>
    match j.getObjVal? "core" with
    | .ok c =>
      match (do
        let e ← toE c
        let sl ← (← j.getObjVal? "shared").getArr?
        let shared ← sl.toList.mapM toE
        let el ← (← j.getObjVal? "early").getArr?
        let early ← el.toList.mapM toE
        pure (e, shared, early) : Except String (E × List E × List E)) with
      | .error e => "bad-request " ++ e
      | .ok (e, shared, early) =>
        let r := compileCore { shared := fun x => shared.contains x, early := fun x => early.contains x } e
        (Json.mkObj [("stmts", Json.arr (r.1.map sJson).toArray), ("result", r.2)]).compress
    | .error _ =>
    match j.getObjVal? "exec" with
    | .ok c =>
      match (do
        let e ← toE c
        let sl ← (← j.getObjVal? "shared").getArr?
        let shared ← sl.toList.mapM toE
        let el ← (← j.getObjVal? "early").getArr?
        let early ← el.toList.mapM toE
        let rho ← parseTbl2 (← j.getObjVal? "rho")
        let m ← parseTbl2 (← j.getObjVal? "M")
        let p ← parseTbl1 (← j.getObjVal? "P")
        let q ← parseTbl1 (← j.getObjVal? "Q")
        pure (e, shared, early, rho, m, p, q)) with
      | .error e => "bad-request " ++ e
      | .ok (e, shared, early, rho, m, p, q) =>
        let Γ : Ctx Int := { ρ := fun k env c => (lookup2 rho k env).getD c 0
                             M := fun t env j => ((lookup2 m t env).getD j 0).toNat
                             P := lookup1 p, Q := lookup1 q }
        let envsOf : Nat → List (List Nat) := fun t => (m.filter (·.1 == t)).map fun r =>
          if r.2.1 == "" then [] else (r.2.1.splitOn ",").map fun w => w.toNat!
        let gate : Gate := { shared := fun x => shared.contains x, early := fun x => early.contains x }
        let r := compileCore gate e
        let run : Json := match execL Γ [] r.1 (fun _ _ => none) with
          | some st => Json.arr ((List.range e.size).map fun c => match st r.2 c with | some v => toJson (v : Int) | none => Json.null).toArray
          | none => Json.null
        let ev : Json := Json.arr ((List.range e.size).map fun c => toJson (eval Γ [] e c : Int)).toArray
        (Json.mkObj [("wf", wfB Γ envsOf e), ("run", run), ("eval", ev)]).compress
    | .error _ =>
    match j.getObjValAs? (List (List (List Nat))) "blockof" with
    | .ok qs =>
      let ans := qs.map fun deps =>
        let b := blockOf deps
        Json.arr #[toJson b, toJson (deps.all fun d => scopeOK d b)]
      (Json.mkObj [("blocks", Json.arr ans.toArray)]).compress
    | .error _ =>
    match j.getObjVal? "flat" with
    | .ok t =>
      match toTree t with
      | .ok tree => (Json.mkObj [("ids", toJson (flatIds tree []))]).compress
      | .error e => "bad-request " ++ e
    | .error _ => "bad-request unknown request"

def main : IO Unit := NutilsVerif.Proto.serve handle
