import NutilsVerif.Model.ExprJson
import NutilsVerif.Model.C04
/-!
Driver of C04: Lean-side validation of REAL derivative trees.

request = the request of `Drivers/Expr.lean` (nodes, roots, args) plus
  "wrt":   name of the argument differentiated to (symbolic in "args")
  "point": ["p/q", …]  row-major rational value of that argument (the sample point)
  "presubst": true|false   substitute the point into the formal Jacobian *before* the symbolic comparison
                            (used for virtual derivative targets: Jacobian at t = 0, symbolic in everything else)
roots = [e, d₁, d₂, …]: `e` the expression, `dₖ` trees that claim to be its derivative to "wrt".

answer  {"eshape":[…], "roundtrip":bool, "jac":"ok"|"none:<index>",
         "e": value of e at the point, "d":[value of dₖ at the point …],
         "checks":[{"shape":bool, "sym":"same"|"differ"|"error", "pt":"same"|"differ"|"kink"|"undefined"|"unknown"|"error",
                    "at":[i…], "jac":key, "val":key, "what":text} …]}
`sym = same`: every entry of dₖ has the same normal form as the formal partial derivative (`pderiv`) of the
corresponding entry of `e` ⇒ equal for all real values of "wrt" (where both are defined, away from kinks).
-/
open Lean NutilsVerif NutilsVerif.Expr NutilsVerif.C04

def fuel : Nat := 12

def atomKey (name : String) (idx : List Nat) : String := name ++ "[" ++ ",".intercalate (idx.map toString) ++ "]"

partial def roundTrip (p : Poly) : Bool :=
  match parseKey p.key with
  | none => false
  | some q => q.terms == p.terms && (atomsOf p).all fun a =>
    isVarAtom a || match atomArgs a with
      | none => false
      | some (_, ks) => ks.all fun k => match parseKey k with
        | some q => q.key == k && roundTrip q
        | none => false

def errName : Err → String
  | .unsupported w => "unsupported:" ++ w
  | .undefined w => "undefined:" ++ w
  | .illformed w => "illformed:" ++ w

def handle (line : String) : String :=
  match parseRequest line with
  | .error e => "bad-request " ++ e
  | .ok r =>
    match r.json.getObjValAs? String "wrt", r.json.getObjValAs? (List String) "point" with
    | .ok wrt, .ok pointS =>
      match pointS.mapM parseRat, r.env.args.lookup wrt, r.results with
      | some point, some xt, eRes :: dRes =>
        if point.length != xt.data.size then "bad-request point length" else
        let presubst := (r.json.getObjValAs? Bool "presubst").toOption.getD false
        let xshape := xt.shape
        let xidx := Tensor.indices xshape
        let pt : List (String × Rat) := (xidx.zip point).map fun (j, q) => (atomKey wrt j, q)
        -- concrete environment: the same trees at the sample point
        let xconc : T := ⟨xshape, (point.map Poly.ofRat).toArray⟩
        let envC : Env := { r.env with args := r.env.args.map fun (k, v) => if k == wrt then (k, xconc) else (k, v) }
        let concs := r.roots.map fun id => evalRef envC id
        match eRes with
        | .error e => (Json.mkObj [("error", errName e)]).compress
        | .ok E =>
          let eidx := Tensor.indices E.shape
          -- formal Jacobian of the symbolic value of e
          let jac : List (List Nat × List (List Nat × Option Poly)) := eidx.map fun i =>
            let p := E.get i
            (i, xidx.map fun j => (j, pderiv fuel (atomKey wrt j) p))
          let jacOk := jac.findSome? fun (i, row) => row.findSome? fun (j, d) => if d.isNone then some (i ++ j) else none
          let rt := E.data.all roundTrip
          let substJ (p : Poly) : Except PointErr Poly := evalAt fuel pt p
          let checks := (dRes.zip (concs.drop 1)).map fun (dr, dc) =>
            match dr with
            | .error e => Json.mkObj [("shape", false), ("sym", "error"), ("pt", "error"), ("what", errName e)]
            | .ok D =>
              let shapeOk := D.shape == E.shape ++ xshape
              if !shapeOk then Json.mkObj [("shape", false), ("sym", "error"), ("pt", "error"), ("what", s!"shape {D.shape} expected {E.shape ++ xshape}")] else
              -- symbolic comparison
              let modinv := jac.any fun (i, row) => row.any fun (j, d) => match d with
                | some dp => !presubst && !(dp == D.get (i ++ j))
                | none => false
              let symDiff := jac.findSome? fun (i, row) => row.findSome? fun (j, d) =>
                match d with
                | none => some (i ++ j, "none")
                | some dp =>
                  if presubst then
                    match substJ dp with
                    | .ok v => if v == D.get (i ++ j) || eqModInv 6 v (D.get (i ++ j)) then none else some (i ++ j, v.key)
                    | .error _ => some (i ++ j, "point-error")
                  else if dp == D.get (i ++ j) || eqModInv 6 dp (D.get (i ++ j)) then none else some (i ++ j, dp.key)
              match symDiff with
              | none => Json.mkObj [("shape", true), ("sym", if modinv then "same-modinv" else "same"), ("pt", "same")]
              | some (at0, _) =>
                -- comparison at the sample point
                match dc with
                | .error e => Json.mkObj [("shape", true), ("sym", "differ"), ("pt", (match e with | .undefined _ => "undefined" | _ => "error")), ("at", toJson at0), ("what", errName e)]
                | .ok DC =>
                  let all : List (String × List Nat × String × String) := jac.flatMap fun (i, row) => row.filterMap fun (j, d) =>
                    match d with
                    | none => some ("unknown", i ++ j, "none", (DC.get (i ++ j)).key)
                    | some dp =>
                      match substJ dp with
                      | .ok v => if v == DC.get (i ++ j) then none else some ("differ", i ++ j, v.key, (DC.get (i ++ j)).key)
                      | .error (.kink w) => some ("kink", i ++ j, w, "")
                      | .error (.undefined w) => some ("undefined", i ++ j, w, "")
                      | .error (.unknown w) => some ("unknown", i ++ j, w, "")
                  -- the worst status wins: a difference must not hide behind a kink of another entry
                  let res := ["differ", "unknown", "undefined", "kink"].findSome? fun st => all.find? (·.1 == st)
                  match res with
                  | none => Json.mkObj [("shape", true), ("sym", "differ"), ("pt", "same"), ("at", toJson at0)]
                  | some (st, at1, a, b) => Json.mkObj [("shape", true), ("sym", "differ"), ("pt", st), ("at", toJson at1), ("jac", a), ("val", b)]
          (Json.mkObj [("eshape", toJson E.shape), ("roundtrip", rt),
            ("jac", match jacOk with | none => "ok" | some i => s!"none:{i}"),
            ("e", resultJson (concs.headD (.error (.illformed "no roots")))),
            ("d", Json.arr ((concs.drop 1).map resultJson).toArray),
            ("checks", Json.arr checks.toArray)]).compress
      | _, _, _ => "bad-request point/wrt/roots"
    | _, _ => "bad-request wrt/point missing"

def main : IO Unit := NutilsVerif.Proto.serve handle
