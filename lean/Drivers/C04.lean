import NutilsVerif.Model.ExprJson
import NutilsVerif.Model.C04
/-!
Driver of C04: Lean-side validation of REAL derivative trees.

request = the request of `Drivers/Expr.lean` (nodes, roots, args) plus
  "wrt":   name of the argument differentiated to (symbolic in "args")
  "point": ["p/q", …]  row-major rational value of that argument (the sample point)
  "presubst": true|false   substitute the point into the formal Jacobian *before* the symbolic comparison
                            (used for virtual derivative targets: Jacobian at t = 0, symbolic in everything else)
  "others": {name: ["p/q", …]}   sample values of the other symbolic arguments (used only for the comparison at the point)
  "jacpt": true|false      also return the formal Jacobian at the point (oracle for trees Lean cannot evaluate)
roots = [e, d₁, d₂, …]: `e` the expression, `dₖ` trees that claim to be its derivative to "wrt".

answer  {"eshape":[…], "roundtrip":bool, "jac":"ok"|"none:<index>",
         "e": value of e at the point, "d":[value of dₖ at the point …],
         "jacpt": {"shape":[…],"data":[key…]} | {"error":kind,"what":…}     (when requested or needed)
         "checks":[{"shape":bool, "sym":"same"|"same-modinv"|"differ"|"error",
                    "pt":"same"|"differ"|"kink"|"undefined"|"unknown"|"error",
                    "diffs":[[index, jacobian key, value key] …], "what":text} …]}
`sym = same`: every entry of dₖ has the same normal form as the formal partial derivative (`pderiv`) of the
corresponding entry of `e` ⇒ equal for all real values of "wrt" (where both are defined, away from kinks);
`same-modinv`: equal modulo `inv(k)·k = 1`, `pow(k,-n)·kⁿ = 1` (`eqModInv`).
-/
open Lean NutilsVerif NutilsVerif.Expr NutilsVerif.C04

def fuel : Nat := 12

def atomKey (name : String) (idx : List Nat) : String := name ++ "[" ++ ",".intercalate (idx.map toString) ++ "]"

partial def roundTrip (p : Poly) : Bool :=
  match parseKey p.key with
  | none => false
  | some q => q.terms == p.terms && (atomsOf p).all fun a =>
    isVarAtom a || match atomArgs a with
      | none => false
      | some (_, ks) => ks.all fun k => match parseKey k with
        | some q => q.key == k && roundTrip q
        | none => false

def errName : Err → String
  | .unsupported w => "unsupported:" ++ w
  | .undefined w => "undefined:" ++ w
  | .illformed w => "illformed:" ++ w

def ptErrJson : PointErr → Json
  | .kink w => Json.mkObj [("error", "kink"), ("what", w)]
  | .undefined w => Json.mkObj [("error", "undefined"), ("what", w)]
  | .unknown w => Json.mkObj [("error", "unknown"), ("what", w)]

def handle (line : String) : String :=
  match parseRequest line with
  | .error e => "bad-request " ++ e
  | .ok r =>
    match r.json.getObjValAs? String "wrt", r.json.getObjValAs? (List String) "point" with
    | .ok wrt, .ok pointS =>
      match pointS.mapM parseRat, r.env.args.lookup wrt, r.results with
      | some point, some xt, eRes :: dRes =>
        if point.length != xt.data.size then "bad-request point length" else
        let presubst := (r.json.getObjValAs? Bool "presubst").toOption.getD false
        let wantJac := (r.json.getObjValAs? Bool "jacpt").toOption.getD false
        let xshape := xt.shape
        let xidx := Tensor.indices xshape
        let ptX : List (String × Rat) := (xidx.zip point).map fun (j, q) => (atomKey wrt j, q)
        -- sample values of the other symbolic arguments ("others": {name: ["p/q", …]})
        let others : List (String × List Rat) := match r.json.getObjVal? "others" with
          | .ok (.obj kvs) => kvs.toList.filterMap fun (k, v) =>
              match (fromJson? v : Except String (List String)) with
              | .ok l => (l.mapM parseRat).map fun qs => (k, qs)
              | .error _ => none
          | _ => []
        let ptOthers : List (String × Rat) := others.flatMap fun (k, qs) =>
          match r.env.args.lookup k with
          | some t => ((Tensor.indices t.shape).zip qs).map fun (j, q) => (atomKey k j, q)
          | none => []
        -- presubst: only "wrt" is substituted before the symbolic comparison; the point comparison uses all sample values
        let pt := ptX
        let ptAll := ptX ++ ptOthers
        -- concrete environment: the same trees at the sample point
        let xconc : T := ⟨xshape, (point.map Poly.ofRat).toArray⟩
        let concArgs : List (String × T) := r.env.args.map fun (k, v) =>
          if k == wrt then (k, xconc) else
          match others.lookup k with
          | some qs => (k, (⟨v.shape, (qs.map Poly.ofRat).toArray⟩ : T))
          | none => (k, v)
        let envC : Env := { r.env with args := concArgs }
        let concs := r.roots.map fun id => evalRef envC id
        match eRes with
        | .error e => (Json.mkObj [("error", errName e)]).compress
        | .ok E =>
          let eidx := Tensor.indices E.shape
          -- formal Jacobian of the symbolic value of e: entries (index i ++ j, ∂E[i]/∂x[j])
          let jac : List (List Nat × Option Poly) := eidx.flatMap fun i =>
            let p := E.get i
            xidx.map fun j => (i ++ j, pderiv fuel (atomKey wrt j) p)
          let jacNone := jac.findSome? fun (ij, d) => if d.isNone then some ij else none
          let rt := E.data.all roundTrip
          -- symbolic comparison of every candidate derivative
          let syms : List (Except String (T × String)) := dRes.map fun dr =>
            match dr with
            | .error e => .error (errName e)
            | .ok D =>
              if D.shape != E.shape ++ xshape then .error s!"shape {D.shape} expected {E.shape ++ xshape}" else
              let codes := jac.map fun (ij, d) =>
                match d with
                | none => 0
                | some dp =>
                  let lhs? : Option Poly := if presubst then (match evalAt false fuel pt dp with | .ok v => some v | .error _ => none) else some dp
                  match lhs? with
                  | none => 0
                  | some lhs => if lhs == D.get ij then 2 else if eqModInv 6 lhs (D.get ij) then 1 else 0
              .ok (D, if codes.all (· == 2) then "same" else if codes.all (· ≥ 1) then "same-modinv" else "differ")
          let needPt := wantJac || syms.any fun s => match s with | .ok (_, "differ") => true | .error _ => true | _ => false
          -- the formal Jacobian at the sample point
          let jacPt : List (List Nat × Except PointErr Poly) :=
            if needPt then jac.map fun (ij, d) =>
              match d with
              | none => (ij, .error (.unknown "not differentiable by the rule table"))
              | some dp => (ij, evalAt true fuel ptAll dp)
            else []
          let checks := (syms.zip (concs.drop 1)).map fun (s, dc) =>
            match s with
            | .error w => Json.mkObj [("shape", !(w.startsWith "shape")), ("sym", "error"), ("pt", "error"), ("what", w)]
            | .ok (_, "differ") =>
              match dc with
              | .error e => Json.mkObj [("shape", true), ("sym", "differ"), ("pt", (match e with | .undefined _ => "undefined" | _ => "error")), ("what", errName e)]
              | .ok DC =>
                let all : List (String × List Nat × String × String) := jacPt.filterMap fun (ij, v) =>
                  match v with
                  | .ok v => if v == DC.get ij then none else some ("differ", ij, v.key, (DC.get ij).key)
                  | .error (.kink w) => some ("kink", ij, w, "")
                  | .error (.undefined w) => some ("undefined", ij, w, "")
                  | .error (.unknown w) => some ("unknown", ij, w, "")
                -- the worst status wins: a difference must not hide behind a kink of another entry
                let worst := (["differ", "unknown", "undefined", "kink"].find? fun st => all.any (·.1 == st)).getD "same"
                let diffs := ((all.filter (·.1 == worst)).take 64).map fun (_, ij, a, b) => Json.arr #[toJson ij, Json.str a, Json.str b]
                Json.mkObj [("shape", true), ("sym", "differ"), ("pt", worst), ("diffs", Json.arr diffs.toArray)]
            | .ok (_, st) => Json.mkObj [("shape", true), ("sym", st), ("pt", "same")]
          let jacJson : Json :=
            if !needPt then Json.null else
            match jacPt.findSome? fun (_, v) => match v with | .error e => some e | .ok _ => none with
            | some e => ptErrJson e
            | none => Json.mkObj [("shape", toJson (E.shape ++ xshape)),
                ("data", toJson (jacPt.map fun (_, v) => match v with | .ok p => p.key | .error _ => "?"))]
          (Json.mkObj [("eshape", toJson E.shape), ("roundtrip", rt),
            ("jac", match jacNone with | none => "ok" | some i => s!"none:{i}"),
            ("e", resultJson (concs.headD (.error (.illformed "no roots")))),
            ("d", Json.arr ((concs.drop 1).map resultJson).toArray),
            ("jacpt", jacJson),
            ("checks", Json.arr checks.toArray)]).compress
      | _, _, _ => "bad-request point/wrt/roots"
    | _, _ => "bad-request wrt/point missing"

/-- one answer line per request line, flushed immediately (the harness enforces a per-request time limit) -/
partial def loop (hin hout : IO.FS.Stream) : IO Unit := do
  let line ← hin.getLine
  if line.isEmpty then return ()
  let l := if line.endsWith "\n" then (line.dropEnd 1).toString else line
  hout.putStrLn (handle l)
  hout.flush
  loop hin hout

def main : IO Unit := do loop (← IO.getStdin) (← IO.getStdout)
