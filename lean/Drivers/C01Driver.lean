import NutilsVerif.Core.Proto
import NutilsVerif.Model.C01Driver
open NutilsVerif NutilsVerif.Proto NutilsVerif.C01Driver

/-!
Request:  `run|maxcalls|fuel|exact|rules|roots`
  term   = prefix tokens `label nargs child ...`
  exact  = `lhs , rhs ; lhs , rhs ; ...`          (exact-match rewrite table, first match wins)
  rules  = `label kind [param] ; ...`             (kind: arg i | relabel l | wrap l | swap | drop | const <term>)
  roots  = `term ; term ; ...`                    (accessed one after the other; the memo persists, as in `__dict__`)
Answer:   one `;`-separated entry per root: `done <term> calls=n` | `loop <label> calls=n` | `budget calls=n` |
          `fuel` | `stuck`, then `|memo=` + `&`-joined `key>value` (`=` for the identity marker).
-/

mutual
partial def parseTerm : List String → Option (Term × List String)
  | l :: n :: rest => do
    let l ← l.toNat?
    let n ← n.toNat?
    let (args, rest) ← parseArgs n rest
    pure (.node l args, rest)
  | _ => none
partial def parseArgs : Nat → List String → Option (List Term × List String)
  | 0, rest => some ([], rest)
  | n+1, rest => do
    let (a, rest) ← parseTerm rest
    let (as, rest) ← parseArgs n rest
    pure (a :: as, rest)
end

def parseWhole (s : String) : Option Term :=
  match parseTerm (words s) with
  | some (t, []) => some t
  | _ => none

partial def showTerm : Term → String
  | .node l args => " ".intercalate (toString l :: toString args.length :: args.map showTerm)

def splitList (s : String) (sep : String) : List String :=
  if s.trimAscii.toString == "" then [] else (s.splitOn sep).map (fun x => x.trimAscii.toString)

def parseExact (s : String) : Option (List (Term × Term)) :=
  (splitList s ";").mapM fun e =>
    match e.splitOn "," with
    | [a, b] => do pure (← parseWhole a, ← parseWhole b)
    | _ => none

def parseRule (s : String) : Option (Nat × Action) :=
  match words s with
  | [l, "arg", i] => do pure (← l.toNat?, .arg (← i.toNat?))
  | [l, "relabel", m] => do pure (← l.toNat?, .relabel (← m.toNat?))
  | [l, "wrap", m] => do pure (← l.toNat?, .wrap (← m.toNat?))
  | [l, "swap"] => do pure (← l.toNat?, .swap)
  | [l, "drop"] => do pure (← l.toNat?, .dropFirst)
  | l :: "const" :: rest =>
    match parseTerm rest with
    | some (t, []) => do pure (← l.toNat?, .const t)
    | _ => none
  | _ => none

/-- the model's `step`, iterated; stops when `func` would be called for the `maxcalls+1`-th time (the harness'
rewrite function raises there) -/
def runBudget (f : Term → Term) (maxcalls : Nat) : Nat → State → String × State
  | 0, s => ("fuel", s)
  | n+1, s =>
    match step f s with
    | .halt (.done r) => (s!"done {showTerm r} calls={s.calls}", s)
    | .halt (.loop x) => (s!"loop {x.label} calls={s.calls}", s)
    | .halt .stuck => ("stuck", s)
    | .halt .outOfFuel => ("fuel", s)
    | .next s' => if s'.calls > maxcalls then (s!"budget calls={s.calls}", s) else runBudget f maxcalls n s'

def showMemo (m : Memo) : String :=
  "&".intercalate (m.map fun (k, v) => showTerm k ++ ">" ++ (match v with | none => "=" | some r => showTerm r))

def handle (line : String) : String :=
  match fields line with
  | ["run", mc, fuel, exact, rules, roots] =>
    match mc.toNat?, fuel.toNat?, parseExact exact, (splitList rules ";").mapM parseRule, (splitList roots ";").mapM parseWhole with
    | some mc, some fuel, some exact, some rules, some roots =>
      let f := applyRules exact rules
      let (outs, memo) := roots.foldl (fun (acc : List String × Memo) t =>
        let (o, s) := runBudget f mc fuel (init acc.2 t)
        (acc.1 ++ [o], s.memo)) ([], [])
      ";".intercalate outs ++ "|memo=" ++ showMemo memo
    | _, _, _, _, _ => "bad-request"
  | _ => "bad-request"

def main : IO Unit := serve handle
