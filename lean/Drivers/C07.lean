import NutilsVerif.Model.C07
open NutilsVerif NutilsVerif.Proto NutilsVerif.C07

def dtypeOf : String → Option DType
  | "b" => some .bool | "i" => some .int | "f" => some .float | "c" => some .complex | _ => none

def dtypeName : DType → String
  | .bool => "b" | .int => "i" | .float => "f" | .complex => "c"

def parseDTypes (s : String) : Option (List DType) := (words s).mapM dtypeOf

def optInt (s : String) : Option (Option Int) :=
  if s == "N" then some none else s.toInt?.map some

def optNat (s : String) : Option (Option Nat) :=
  if s == "N" then some none else s.toNat?.map some

def showOpt (r : Option (List Nat)) : String :=
  match r with | some l => "ok " ++ showNats l | none => "err"

def allIdx (shape : List Nat) : List (List Nat) :=
  (List.range (shapeSize shape)).map (unflatIdx shape)

def parseSlice (s : String) : Option PySlice :=
  match s.splitOn ":" with
  | [a, b, c] =>
    match optInt a, optInt b, optInt c with
    | some a, some b, some c => some ⟨a, b, c⟩
    | _, _, _ => none
  | _ => none

/-- items: `i<int>`, `s<a>:<b>:<c>`, `e`, `n`, `a<shape,>:<values,>` (comma separated) -/
def parseItem (s : String) : Option Item :=
  if s == "e" then some .ellipsis
  else if s == "n" then some .newaxis
  else if s.startsWith "i" then (s.drop 1).toString.toInt?.map .int
  else if s.startsWith "s" then (parseSlice (s.drop 1).toString).map .slice
  else if s.startsWith "a" then
    match (s.drop 1).toString.splitOn ":" with
    | [sh, vs] =>
      match parseNats (sh.replace "," " "), parseInts (vs.replace "," " ") with
      | some sh, some vs => some (.array sh vs)
      | _, _ => none
    | _ => none
  else none

def parseItems (s : String) : Option (List Item) :=
  if s.trimAscii.toString == "" then some [] else (s.splitOn ";").mapM fun w => parseItem w.trimAscii.toString

def showView (shape : List Nat) (v : Option View) : String :=
  match v with
  | none => "err"
  | some v => "ok " ++ showNats v.shape ++ " : " ++ showNats ((allIdx v.shape).map fun idx => flatIdx shape (v.src idx))

def showRView (v : Option RView) : String :=
  match v with
  | none => "err"
  | some v => "ok " ++ showNats v.shape ++ " : " ++ showNats ((allIdx v.shape).map v.src)

def showPlan : SlicePlan → String
  | .identity => "identity"
  | .unitRange a l => s!"unit {a} {l}"
  | .general _ => "general"

def handle (line : String) : String :=
  match fields line with
  | ["normdim", nd, n] =>
    match nd.toNat?, n.toInt? with
    | some nd, some n => match normdim nd n with | some k => s!"ok {k}" | none => "err"
    | _, _ => "bad-request"
  | ["promote", m, ds] =>
    match dtypeOf m, parseDTypes ds with
    | some m, some ds => dtypeName (typecast m ds) ++ "|" ++ dtypeName (ds.foldl npPromote m)
    | _, _ => "bad-request"
  | ["ufunc", name, m, force, ds] =>
    match dtypeOf m, (if force == "N" then some none else (dtypeOf force).map some), parseDTypes ds with
    | some m, some force, some ds =>
      let e : UfuncEntry := ⟨name, ds.length, m, force⟩
      dtypeName (e.result ds) ++ "|" ++ (match npUfuncKind name ds with | some d => dtypeName d | none => "?")
    | _, _, _ => "bad-request"
  | ["bshape", ss] =>
    match (if ss.trimAscii.toString == "-" then some [] else (ss.splitOn ";").mapM (fun s => parseNats s)) with
    | some shapes =>
      showOpt (broadcastShapes shapes) ++ "|" ++ showOpt (npBroadcast shapes)
    | none => "bad-request"
  | ["slice", a, b, c, n] =>
    match optInt a, optInt b, optInt c, n.toNat? with
    | some a, some b, some c, some n =>
      let s : PySlice := ⟨a, b, c⟩
      let ind := match sliceIndices s n with | some (x, y, z) => s!"ind {x} {y} {z}" | none => "ind err"
      let spec := match npSliceRange s n with | some r => "ok " ++ showInts r | none => "err"
      let mir := match takeslice s n with | some p => showPlan p ++ " : " ++ showInts (p.indices n) | none => "err"
      let pin := match takeslicePinned s n with | some p => showPlan p ++ " : " ++ showInts (p.indices n) | none => "err"
      s!"{ind}|{spec}|{mir}|{pin}"
    | _, _, _, _ => "bad-request"
  | ["getitem", sh, its] =>
    match parseNats sh, parseItems its with
    | some sh, some its => showView sh (getitem sh its) ++ "|" ++ showView sh (npGetitem sh its)
    | _, _ => "bad-request"
  | ["reshape", sh, ns] =>
    match parseNats sh, (words ns).mapM optNat with
    | some sh, some ns =>
      let m := match reshape sh ns with | .ok v => showRView (some v) | .error e => "err " ++ e
      m ++ "|" ++ showRView (npReshape sh ns)
    | _, _ => "bad-request"
  | ["toend", nd, axes, inv] =>
    match nd.toNat?, parseInts axes with
    | some nd, some axes =>
      match transposeEnd nd axes (inv == "1") with
      | none => "err"
      | some none => "id"
      | some (some t) => "ok " ++ showNats t
    | _, _ => "bad-request"
  | ["lift", off, axes, sh] =>
    -- lowered transposition with `off` point axes applied to the shape `sh` (which includes the point axes)
    match off.toNat?, parseNats axes, parseNats sh with
    | some off, some axes, some sh =>
      let l := liftAxes off axes
      showNats l ++ "|" ++ showNats (transposeShape l sh)
    | _, _, _ => "bad-request"
  | ["transpose", axes, sh] =>
    -- specification of numpy.transpose as (shape, element map), tabulated
    match parseNats axes, parseNats sh with
    | some axes, some sh =>
      let rs := transposeShape axes sh
      "ok " ++ showNats rs ++ " : " ++ showNats ((allIdx rs).map fun idx => flatIdx sh (transposeSrc axes idx))
    | _, _ => "bad-request"
  | ["matmul", a, b] =>
    match parseNats a, parseNats b with
    | some a, some b => showOpt (matmulShape a b) ++ "|" ++ showOpt (npMatmulShape a b)
    | _, _ => "bad-request"
  | _ => "bad-request"

def main : IO Unit := serve handle
