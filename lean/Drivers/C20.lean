import NutilsVerif.Core.Proto
import NutilsVerif.Model.C20
import NutilsVerif.Model.C20Unit
open NutilsVerif NutilsVerif.Proto NutilsVerif.C20

/-! Line protocol of the C20 model.  Fields are separated by `|`.
* rational: `n` or `n/d`
* exponent vector: `base:rat,base:rat` (empty string = dimensionless)
* argument: `q:<pows>` (a Quantity), `p` (anything else)
The unit table is state: `units|...` replaces it. -/

def parseRat (s : String) : Option Rat :=
  match s.splitOn "/" with
  | [n] => n.toInt?.map fun z => (z : Rat)
  | [n, d] => do
    let n ← n.toInt?
    let d ← d.toNat?
    if d = 0 then none else some ((n : Rat) / (d : Rat))
  | _ => none

def showRat (r : Rat) : String := if r.den = 1 then toString r.num else s!"{r.num}/{r.den}"

def parsePows (s : String) : Option Pows :=
  if s = "" then some [] else
  (s.splitOn ",").mapM fun item =>
    match item.splitOn ":" with
    | [b, r] => (parseRat r).map fun r => (b, r)
    | _ => none

def showPows (d : Pows) : String := ",".intercalate (d.map fun e => s!"{e.1}:{showRat e.2}")

def parseArg (s : String) : Option (Arg String) :=
  if s = "p" then some (.plain "") else
  if s.startsWith "q:" then (parsePows (s.drop 2).toString).map fun d => .q d "" else none

def showArg : Arg String → String
  | .q d v => s!"Q<{showPows d}>[{v}]"
  | .plain v => v

/-- number the payloads so that the harness can see which argument went where -/
def label (as : List (Arg String)) (start : Nat := 0) : List (Arg String) :=
  as.zipIdx.map fun ai => match ai.1 with
    | .q d _ => .q d s!"a{ai.2 + start}"
    | .plain _ => .plain s!"a{ai.2 + start}"

def opStr (as : List (Arg String)) : String := "f(" ++ ",".intercalate (as.map showArg) ++ ")"

def kindOfString : String → Option Kind
  | "unary" => some .unary | "addLike" => some .addLike | "mulLike" => some .mulLike | "divLike" => some .divLike
  | "laplace" => some .laplace | "sqrt" => some .sqrt | "setitem" => some .setitem | "powLike" => some .powLike
  | "unaryOp" => some .unaryOp | "binaryOp" => some .binaryOp | "stackLike" => some .stackLike
  | "curvature" => some .curvature | "evaluate" => some .evaluate | "field" => some .field
  | "attribute" => some .attribute | "interp" => some .interp | "locate" => some .locate | "sample" => some .sample
  | _ => none

def kindName (k : Kind) : String := (toString (repr k)).replace "NutilsVerif.C20.Kind." ""
def lawName (l : Law) : String := (toString (repr l)).replace "NutilsVerif.C20.Law." ""

def errName : Err → String
  | .dimension => "dimension" | .assertion => "assertion" | .index => "index" | .type => "type"
def serrName : SErr → String | .value => "value" | .zeroDiv => "zeroDiv"
def perrName : PErr → String
  | .value => "value" | .zeroDiv => "zeroDiv" | .dimension => "dimension" | .typeErr => "type" | .exists_ => "exists"
  | .collision => "collision" | .inexact => "inexact" | .range => "range"

def showUVal (v : UVal) : String := s!"{showPows v.dim}|{showRat v.val}"

def parseOptOperand (s : String) : Option (Option (Pows × Bool)) :=
  if s = "none" then some none
  else if s = "p" then some (some ([], false))
  else if s.startsWith "q:" then (parsePows (s.drop 2).toString).map fun d => some (d, true)
  else none

def parseUDef (s : String) : Option UDef :=
  match s.splitOn "=" with
  | ["wrap", n, d, v] => do
    let d ← parsePows d; let v ← parseRat v
    pure (.wrap n.toList { dim := d, val := v })
  | ["str", n, e] => some (.str n.toList e.toList)
  | ["item", n, e] => some (.item n.toList e.toList)
  | _ => none

def splitList (s : String) (sep : String) : List String := if s = "" then [] else s.splitOn sep

/-! unit.py: a unit system is `name=value;name=~string` (`~` marks a string definition) -/
def parseDefs (s : String) : Option Unit.Defs :=
  (splitList s ";").mapM fun item =>
    match item.splitOn "=" with
    | [n, v] => if v.startsWith "~" then some (n.toList, Unit.Def.str (v.drop 1).toString.toList) else (parseRat v).map fun r => (n.toList, Unit.Def.num r)
    | _ => none

def uerrName : Unit.UErr → String | .value => "value" | .zeroDiv => "zeroDiv" | .recursion => "recursion" | .range => "range"
def showIPows (l : List (String × Int)) : String := ",".intercalate (l.map fun e => s!"{e.1}:{e.2}")
def showUQ (q : Unit.UQ) : String := s!"{showRat q.val}|{showIPows q.pows}"

/-- `usys|defs|req;req;...` with req = `p~string` (parse) or `l~unit~string` (bound loads) or `c~string` (unbound call) -/
def handleUnit (defs reqs : String) : String :=
  match parseDefs defs with
  | none => "bad-request"
  | some D =>
    match Unit.build D with
    | .error e => s!"builderr|{uerrName e}"
    | .ok Q =>
      let one (r : String) : String :=
        match r.splitOn "~" with
        | ["p", s] => (match Unit.parse Q s.toList with | .ok q => s!"ok|{showUQ q}" | .error e => s!"err|{uerrName e}")
        | ["l", u, s] => (match Unit.loads Q u.toList s.toList with | .ok v => s!"ok|{showRat v}" | .error e => s!"err|{uerrName e}")
        | ["c", s] => (match Unit.loads Q (Unit.unboundUnit s.toList) s.toList with | .ok v => s!"ok|{showRat v}" | .error e => s!"err|{uerrName e}")
        | _ => "bad"
      "built|" ++ ";".intercalate (Q.map fun e => s!"{String.ofList e.1}={showUQ e.2}") ++ "#" ++ "#".intercalate ((splitList reqs ";").map one)


/-- prefix notation: `L <pows>` leaf, `M`/`D`/`A` binary, `P <rat>`/`S`/`U` unary; tokens separated by blanks (`-` = empty exponent vector) -/
partial def parseExpr : List String → Option (Expr × List String)
  | "L" :: d :: rest => (parsePows (if d = "-" then "" else d)).map fun d => (.leaf (fromPowers d), rest)
  | "M" :: rest => do let (a, r1) ← parseExpr rest; let (b, r2) ← parseExpr r1; pure (.mul a b, r2)
  | "D" :: rest => do let (a, r1) ← parseExpr rest; let (b, r2) ← parseExpr r1; pure (.div a b, r2)
  | "A" :: rest => do let (a, r1) ← parseExpr rest; let (b, r2) ← parseExpr r1; pure (.addLike a b, r2)
  | "P" :: q :: rest => do let q ← parseRat q; let (a, r1) ← parseExpr rest; pure (.pow a q, r1)
  | "S" :: rest => do let (a, r1) ← parseExpr rest; pure (.sqrt a, r1)
  | "U" :: rest => do let (a, r1) ← parseExpr rest; pure (.unary a, r1)
  | _ => none

def handle (U : UTable) (line : String) : UTable × String :=
  let pure' (s : String) := (U, s)
  match fields line with
  | ["dimop", "mul", a, b] =>
    match parsePows a, parsePows b with
    | some a, some b => let r := mul (fromPowers a) (fromPowers b); pure' s!"{showPows r}|{String.ofList (name r)}"
    | _, _ => pure' "bad-request"
  | ["dimop", "div", a, b] =>
    match parsePows a, parsePows b with
    | some a, some b => let r := div (fromPowers a) (fromPowers b); pure' s!"{showPows r}|{String.ofList (name r)}"
    | _, _ => pure' "bad-request"
  | ["dimop", "pow", a, q] =>
    match parsePows a, parseRat q with
    | some a, some q => let r := pow (fromPowers a) q; pure' s!"{showPows r}|{String.ofList (name r)}"
    | _, _ => pure' "bad-request"
  | ["dimop", "from", a] =>
    match parsePows a with
    | some a => let r := fromPowers a; pure' s!"{showPows r}|{String.ofList (name r)}|{if canonB r then 1 else 0}"
    | _ => pure' "bad-request"
  | ["dimofname", s] =>
    match dimOfName s.toList with
    | .ok d => pure' s!"ok|{showPows d}|{if d.all (fun e => validBaseB e.1) then 1 else 0}"
    | .error e => pure' s!"err|{serrName e}"
  | ["split", s] =>
    match splitFactors s.toList with
    | .ok fs => pure' ("ok|" ++ ";".intercalate (fs.map fun f => s!"{String.ofList f.1}:{showRat f.2.1}:{if f.2.2 then 1 else 0}"))
    | .error e => pure' s!"err|{serrName e}"
  | ["create", s] =>
    match createCheck s.toList with
    | .ok => pure' s!"ok|{if validBaseB s then 1 else 0}"
    | .invalid => pure' s!"invalid|{if validBaseB s then 1 else 0}"
    | .stopIteration => pure' s!"stop|{if validBaseB s then 1 else 0}"
    | .exc e => pure' s!"exc|{serrName e}|{if validBaseB s then 1 else 0}"
  | ["law", f] =>
    match lawOf f with
    | some l => pure' s!"{lawName l}|{kindName (requiredKind l)}"
    | none => pure' "none"
  | ["handler", h, r] =>
    match r.toNat? with
    | some r => (match handlerKind h r with | some k => pure' (kindName k) | none => pure' "none")
    | none => pure' "bad-request"
  | ["apply", k, args, e] =>
    match kindOfString k, (splitList args ";").mapM parseArg, (if e = "none" then some none else (parseRat e).map some) with
    | some k, some args, some e =>
      let args := label args
      match apply k opStr (fun v => (List.range args.length).map fun i => s!"{v}#{i}") (fun _ => e) args with
      | .ok c => pure' ("ok|" ++ ";".intercalate (c.result.map showArg))
      | .error er => pure' s!"err|{errName er}"
    | _, _, _ => pure' "bad-request"
  | ["stack", seq, rest] =>
    match (splitList seq ";").mapM parseArg, (splitList rest ";").mapM parseArg with
    | some seq, some rest =>
      let seq := label seq; let rest := label rest seq.length
      match applyStack (fun s r => "f([" ++ ",".intercalate (s.map showArg) ++ "]" ++ String.join (r.map fun a => "," ++ showArg a) ++ ")") seq rest with
      | .ok (r, _) => pure' ("ok|" ++ showArg r)
      | .error er => pure' s!"err|{errName er}"
    | _, _ => pure' "bad-request"
  | ["locate", g, c, t, m] =>
    match parseOptOperand g, parseOptOperand c, parseOptOperand t, parseOptOperand m with
    | some (some g), some (some c), some t, some m =>
      match applyLocate g c t m with
      | .ok () => pure' "ok"
      | .error er => pure' s!"err|{errName er}"
    | _, _, _, _ => pure' "bad-request"
  | ["prefixes"] => pure' (";".intercalate (prefixes.map fun p => s!"{String.ofList p.1}={showRat p.2}"))
  | ["units", defs] =>
    match (splitList defs ";").mapM parseUDef with
    | some defs =>
      match defineAll [] defs with
      | .ok U' => (U', s!"ok|{U'.length}")
      | .error e => pure' s!"err|{perrName e}"
    | none => pure' "bad-request"
  | ["expr", e] =>
    match parseExpr (words e) with
    | some (e, []) =>
      match e.dim with
      | .ok d => pure' s!"ok|{showPows d}"
      | .error er => pure' s!"err|{errName er}"
    | _ => pure' "bad-request"
  | ["usys", defs, reqs] => pure' (handleUnit defs reqs)
  | ["sispec"] => pure' (";".intercalate (siSpec.map fun e => s!"{e.1}={showPows e.2.dim}={showRat e.2.val}"))
  | ["checktable", defs] =>
    match (splitList defs ";").mapM parseUDef with
    | some defs => pure' (if checkTable defs then "1" else "0")
    | none => pure' "bad-request"
  | ["table"] => pure' (";".intercalate (U.map fun e => s!"{String.ofList e.1}={showPows e.2.dim}={showRat e.2.val}"))
  | ["parse", s] =>
    match parse U s.toList with
    | .ok v => pure' s!"ok|{showUVal v}"
    | .error .inexact =>
      -- no exact value: give the dimension (all unit values replaced by one)
      match parse (U.map fun e => (e.1, { e.2 with val := 1 })) s.toList with
      | .ok v => pure' s!"inexact|{showPows v.dim}"
      | .error e => pure' s!"err|{perrName e}"
    | .error e => pure' s!"err|{perrName e}"
  | ["construct", d, s] =>
    match parsePows d with
    | some d =>
      match construct U d s.toList with
      | .ok v => pure' s!"ok|{showUVal v}"
      | .error e => pure' s!"err|{perrName e}"
    | none => pure' "bad-request"
  | ["format", d, v, spec] =>
    match parsePows d, parseRat v with
    | some d, some v =>
      match formatParts U { dim := d, val := v } spec.toList with
      | .ok (p, x, u) => pure' s!"ok|{String.ofList p}|{showRat x}|{String.ofList u}"
      | .error e => pure' s!"err|{perrName e}"
    | _, _ => pure' "bad-request"
  | ["defseq", steps] =>
    -- a fresh `Units()` instance: sequence of `name=pows=val`
    let rec go (T : UTable) (l : List String) (acc : List String) : Option (UTable × List String) :=
      match l with
      | [] => some (T, acc.reverse)
      | s :: t =>
        match s.splitOn "=" with
        | [n, d, v] =>
          match parsePows d, parseRat v with
          | some d, some v =>
            match define T n.toList { dim := d, val := v } with
            | .ok T' => go T' t ("ok" :: acc)
            | .error e => go T t (perrName e :: acc)
          | _, _ => none
        | _ => none
    match go [] (splitList steps ";") [] with
    | some (T, res) => pure' (",".intercalate res ++ "|" ++ ";".intercalate (T.map fun e => s!"{String.ofList e.1}={showRat e.2.val}"))
    | none => pure' "bad-request"
  | _ => pure' "bad-request"

partial def loopS (h : IO.FS.Stream) (U : UTable) : IO Unit := do
  let line ← h.getLine
  if line.isEmpty then return ()
  let l := if line.endsWith "\n" then (line.dropEnd 1).toString else line
  let (U', out) := handle U l
  IO.println out
  loopS h U'

def main : IO Unit := do loopS (← IO.getStdin) []
