import NutilsVerif.Model.C13Driver
/-!
Driver of C13.  One JSON request per line, field `op`:

* `"expr"` — the request of `Drivers/Expr.lean` (`nodes`, `roots`, `args`, `cmp`) plus
  - `binds`: `[{"stages":[{name: rootpos, …}, …], "root": pos, "cmp": pos}]` — environment E₀ = `args`;
    E_{k+1} = E_k with every `name` of stage k bound (simultaneously) to the value of `roots[rootpos]` in E_k;
    answer: is `roots[root]` evaluated in the last environment equal to `roots[cmp]` evaluated in E₀?
  - `lins`: `[{"root": pos, "pairs": {u: v, …}, "cmp": pos, "stages": […]}]` — (after the optional binding stages, used to
    give direction *arrays* a name) bind every `u` to `u + #t·v` (values from `args`),
    evaluate `roots[root]`, take the coefficient of `#t`¹: the formal directional derivative; compare with `roots[cmp]`.
  - `derivs`: `[{"root": pos, "name": u, "cmp": pos}]` — the same per entry of `u`, assembled to `f.shape + u.shape`.
  - `degrees`: `[{"root": pos, "names": [...]}]` — true degree of the normal form in the entries of each argument
    (`-1`: the argument occurs inside a non-polynomial atom).
* `"spec"` — `_argument_to_array` / `_Replace.__init__` on the model (`ctx`, `spec`).
* `"machine"` — the `shallow_replace` loop on a node table (`dag`, `sigma`, `root`): result, specification
  `subst`, and the trace of `func` calls.
Anything else: `bad-request`.
-/
def main : IO Unit := NutilsVerif.Proto.serve C13Driver.handle
