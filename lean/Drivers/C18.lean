import NutilsVerif.Model.C18
open NutilsVerif NutilsVerif.Proto NutilsVerif.C18

/-!
Driver for C18.  Values, logs and exceptions are natural-number ids; the pickle is the *idealised* table pickle
(`tableLoad`): the harness sends the real bytes of every complete pickle that can occur, the model treats a file
that starts with one of them as loading it, a proper prefix of one of them as EOFError, anything else as `other`
(= the model makes no prediction; reported as `crash other`).

  fn|table|caught|f|dumps|file0|events
  rec|length|caught|steps|dumps|events
  par|table|caught|f|dumps|file0|lock|actions
-/

def errName : LoadErr → String
  | .eof => "eof" | .unpickling => "unpickling" | .index => "index" | .other => "other"

def parseErr : String → Option LoadErr
  | "eof" => some .eof | "unpickling" => some .unpickling | "index" => some .index | "other" => some .other
  | _ => none

def parseCaught (s : String) : Option (LoadErr → Bool) :=
  (words s).mapM parseErr |>.map fun l e => l.contains e

def splitNE (s : String) (sep : String) : List String :=
  if s.trimAscii.toString == "" then [] else (s.splitOn sep).map (fun x => x.trimAscii.toString)

def parseData (s : String) : Option (Data Nat Nat) :=
  match words s with
  | ["e", v, l] => do some (.entry (← v.toNat?) (← l.toNat?))
  | ["o", l, f, v] => do some (.old (← l.toNat?) ((← f.toNat?) != 0) (← v.toNat?))
  | ["j"] => some .illTyped
  | _ => none

/-- `bytes:data;bytes:data` -/
def parseTable {α : Type} (pd : String → Option α) (s : String) : Option (List (Bytes × α)) :=
  (splitNE s ";").mapM fun e =>
    match e.splitOn ":" with
    | [b, d] => do some (← parseNats b, ← pd d)
    | _ => none

def parseF (s : String) : Option (FRes Nat Nat Nat) :=
  match words s with
  | ["ret", v, l] => do some (.ret (← v.toNat?) (← l.toNat?))
  | ["exc", e, l] => do some (.exc (← e.toNat?) (← l.toNat?))
  | _ => none

def parseEvent (s : String) : Option (Event Nat) :=
  match words s with
  | ["c", n] => do some ⟨← n.toNat?, .none⟩
  | ["k", n, k] => do some ⟨← n.toNat?, .kill (← k.toNat?)⟩
  | ["i", n, e] => do some ⟨← n.toNat?, .intr (← e.toNat?)⟩
  | _ => none

def showOutcome : Outcome Nat Nat Nat → String
  | .ret v l n => s!"ret {v} {l} {n}"
  | .exc e l n => s!"exc {e} {l} {n}"
  | .intr e => s!"intr {e}"
  | .killed => "killed"
  | .loadCrash e => s!"crash {errName e}"

def mkCfg (table : List (Bytes × Data Nat Nat)) (caught : LoadErr → Bool) (f : FRes Nat Nat Nat) (dumps : List Bytes) : Cfg Nat Nat Nat :=
  ⟨⟨fun n _ => dumps.getD n (dumps.getLastD []), tableLoad table⟩, caught, f⟩

def runFn (c : Cfg Nat Nat Nat) : List (Event Nat) → Bytes → List String
  | [], _ => []
  | ev :: h, file =>
    let r := call c ev file
    s!"{showOutcome r.2}@{showNats r.1}" :: runFn c h r.1

/-! recursion -/

def parseStep (s : String) : Option (Next Nat Nat Nat) :=
  match words s with
  | ["i", v, l] => do some (.item (← v.toNat?) (← l.toNat?))
  | ["s", l] => do some (.stop (← l.toNat?))
  | ["x", e, l] => do some (.exc (← e.toNat?) (← l.toNat?))
  | _ => none

def seqVals : List (Next Nat Nat Nat) → List Nat
  | .item v _ :: t => v :: seqVals t
  | _ => []

def storedEq : Stored Nat Nat → Stored Nat Nat → Bool
  | .item l v, .item l' v' => l == l' && v == v'
  | .stop l, .stop l' => l == l'
  | _, _ => false

def stepStored : Next Nat Nat Nat → Option (Stored Nat Nat)
  | .item v l => some (.item l v)
  | .stop l => some (.stop l)
  | .exc _ _ => none

/-- the recursion given by a table of its uncached steps: `resume` continues the table when it is handed the right
history window, and raises the marker exception 998 otherwise; past the table it raises 999 -/
def mkRec (length : Nat) (caught : LoadErr → Bool) (steps : List (Next Nat Nat Nat)) (dumps : List (List Bytes)) : RecCfg Nat Nat Nat :=
  let tbl : List (Bytes × Stored Nat Nat) := (steps.zip dumps).flatMap fun (st, ds) =>
    match stepStored st with
    | some s => (ds.filter (· ≠ [])).map fun b => (b, s)
    | none => []
  { length := length
    resume := fun hist idx j =>
      let want := lastN length ((seqVals steps).take idx)
      if hist == want && idx ≤ (seqVals steps).length then steps.getD (idx + j) (.exc 999 0) else .exc 998 0
    pk := ⟨fun n s =>
        match (steps.zip dumps).find? fun (st, _) => (stepStored st).any (storedEq s) with
        | some (_, ds) => ds.getD n (ds.getLastD [])
        | none => [], tableLoad tbl⟩
    caught := caught }

def parseREvent (s : String) : Option (REvent Nat) :=
  match words s with
  | ["t", n, k] => do some (.take (← n.toNat?) (← k.toNat?))
  | ["k", n, i, k] => do some (.kill (← n.toNat?) (← i.toNat?) (← k.toNat?))
  | ["x", n, i, e] => do some (.intr (← n.toNat?) (← i.toNat?) (← e.toNat?))
  | _ => none

def showEnd : End Nat → String
  | .closed => "closed" | .stopped => "stopped" | .raised e => s!"raised {e}" | .killed => "killed"
  | .interrupted e => s!"interrupted {e}" | .loadCrash e => s!"crash {errName e}"

def showRun (nfiles : Nat) (r : RunOut Nat Nat Nat) : String :=
  let items := ",".intercalate (r.items.map fun (v, l) => s!"{v}:{l}")
  let finlog := match r.finLog with | some l => toString l | none => "-"
  let resumed := match r.resumed with | some (h, i) => s!"{showNats h}@{i}" | none => "-"
  let files := ",".intercalate ((List.range nfiles).map fun i => showNats (r.files i))
  s!"items={items}&fin={showEnd r.fin}&finlog={finlog}&resumed={resumed}&ncomp={r.ncomputed}&files={files}"

def runRec (c : RecCfg Nat Nat Nat) (nfiles : Nat) : List (REvent Nat) → Files → List String
  | [], _ => []
  | ev :: h, fs =>
    let r := ev.run c fs
    showRun nfiles r :: runRec c nfiles h r.files

/-! concurrency -/

inductive MAct | one (a : Act) | finish (p : Nat) | writeTo (p k : Nat) | jumpTo (p k : Nat)

def parseMAct (s : String) : Option MAct :=
  match words s with
  | ["s", p] => do some (.one (.step (← p.toNat?)))
  | ["k", p] => do some (.one (.kill (← p.toNat?)))
  | ["S", p] => do some (.finish (← p.toNat?))
  | ["W", p, k] => do some (.writeTo (← p.toNat?) (← k.toNat?))
  | ["J", p, k] => do some (.jumpTo (← p.toNat?) (← k.toNat?))
  | _ => none

def busy : PState Nat Nat Nat → Bool
  | .computing | .writing _ => true
  | _ => false

/-- run process `p` until it has left `computing`/`writing` (bounded) -/
def finishP (c : Cfg Nat Nat Nat) (lock : Bool) (p : Nat) : Nat → CState Nat Nat Nat → CState Nat Nat Nat
  | 0, s => s
  | n+1, s => if busy (s.procs p) then finishP c lock p n (act c lock s (.step p)) else s

/-- run process `p` while it is computing or has written fewer than `k` bytes (bounded) -/
def writeToP (c : Cfg Nat Nat Nat) (lock : Bool) (p k : Nat) : Nat → CState Nat Nat Nat → CState Nat Nat Nat
  | 0, s => s
  | n+1, s =>
    match s.procs p with
    | .computing => writeToP c lock p k n (act c lock s (.step p))
    | .writing j => if j < k then writeToP c lock p k n (act c lock s (.step p)) else s
    | _ => s

/-- shortcut for large entries: the state reached by `writeToP` (`computing` → `writing 0` → ... → `writing k`) written
down directly; equal to the stepped state because `writeByte k d[k] (overlay k d b) = overlay (k+1) d b`
(`writeByte_overlay`, used in the proof of `lock_serialisable`) and `overlay k d (overlay j d b) = overlay k d b` for `j ≤ k` -/
def jumpToP (c : Cfg Nat Nat Nat) (lock : Bool) (p k : Nat) (s : CState Nat Nat Nat) : CState Nat Nat Nat :=
  let s := match s.procs p with
    | .computing => act c lock s (.step p)
    | _ => s
  match s.procs p, c.f with
  | .writing j, .ret v l =>
    let d := entryBytes c p v l
    if j < k && k ≤ d.length then { s with file := overlay k d s.file, procs := setProc s.procs p (.writing k) } else s
  | _, _ => s

def fileHash (b : Bytes) : Nat := b.foldl (fun h x => (h * 257 + x + 1) % 1000000007) 0

def showFile (b : Bytes) : String := if b.length ≤ 3000 then showNats b else s!"#{b.length}:{fileHash b}"

def showP : PState Nat Nat Nat → String
  | .idle => "idle" | .locked => "locked" | .computing => "computing" | .writing k => s!"writing {k}"
  | .done o => s!"done {showOutcome o}" | .dead => "dead"

def showC (np : Nat) (s : CState Nat Nat Nat) : String :=
  let ps := ",".intercalate ((List.range np).map fun p => showP (s.procs p))
  let holder := match s.holder with | some p => toString p | none => "-"
  let hist := ",".intercalate (s.hist.map fun (p, ev) => s!"{p}:" ++ (match ev.fault with | .none => "c" | .kill k => s!"k{k}" | .intr e => s!"i{e}"))
  s!"procs={ps}&holder={holder}&execs={s.execs}&file={showFile s.file}&hist={hist}"

def runC (c : Cfg Nat Nat Nat) (lock : Bool) (np : Nat) : List MAct → CState Nat Nat Nat → List String
  | [], _ => []
  | a :: t, s =>
    let s' := match a with
      | .one a => act c lock s a
      | .finish p => finishP c lock p 1000000 s
      | .writeTo p k => writeToP c lock p k 1000000 s
      | .jumpTo p k => jumpToP c lock p k s
    showC np s' :: runC c lock np t s'

def handle (line : String) : String :=
  match fields line with
  | ["fn", table, caught, f, dumps, file0, events] =>
    match parseTable parseData table, parseCaught caught, parseF f, (splitNE dumps ";").mapM parseNats, parseNats file0,
          (splitNE events ";").mapM parseEvent with
    | some table, some caught, some f, some dumps, some file0, some events =>
      ";".intercalate (runFn (mkCfg table caught f dumps) events file0)
    | _, _, _, _, _, _ => "bad-request"
  | ["rec", length, caught, steps, dumps, events] =>
    match length.toNat?, parseCaught caught, (splitNE steps ";").mapM parseStep,
          (splitNE dumps ";").mapM (fun d => if d == "-" then some [] else (d.splitOn "/").mapM parseNats), (splitNE events ";").mapM parseREvent with
    | some length, some caught, some steps, some dumps, some events =>
      if dumps.length != steps.length then "bad-request dumps" else
      ";".intercalate (runRec (mkRec length caught steps dumps) (steps.length + 1) events (fun _ => []))
    | _, _, _, _, _ => "bad-request"
  | ["par", table, caught, f, dumps, file0, lock, np, actions] =>
    match parseTable parseData table, parseCaught caught, parseF f, (splitNE dumps ";").mapM parseNats, parseNats file0,
          lock.toNat?, np.toNat?, (splitNE actions ";").mapM parseMAct with
    | some table, some caught, some f, some dumps, some file0, some lock, some np, some actions =>
      ";".intercalate (runC (mkCfg table caught f dumps) (lock != 0) np actions (initC file0))
    | _, _, _, _, _, _, _, _ => "bad-request"
  | _ => "bad-request"

def main : IO Unit := serve handle
