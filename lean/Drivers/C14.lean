import NutilsVerif.Model.C14
import NutilsVerif.Model.C14Cache
open NutilsVerif NutilsVerif.Proto NutilsVerif.C14

/-!
Driver for C14.  Numbers are `p` or `p/q` (exact rationals; Python floats are sent via `as_integer_ratio`),
`nan`, `inf`, `-inf`.  Vectors are space separated, matrices `row;row`, an absent optional is `none`.

  solver|<mode>|A|ncols|b|atol|rtol|<sol>             mode = sq | obs:<rhsnorm>:<resnorm>;  sol = vec:<F...> | merr | oerr
  solve|A|nrows|ncols|rhs|lhs0|cons|rcons|atol|rtol|<sol>|<lenient 0/1>     (always mode sq)
  sys|tol|miniter|maxiter|tuple:<F>   or   sys|tol|miniter|maxiter|iter:<ev ...>      ev = y:<F> | r:<tag>
  legacy|tol|miniter|maxiter|<ev ...>
  step|maxretry|dep|t|dt|<0/1 ...>
  droptol|A|ncols|d
  decon|n|a|cons
  ls|failrelax|relax0|<scale:acc ...>
  hist|A|nrows|ncols|<step>&<step>&...      one Matrix object, its sub-block cache threaded through the steps
        step = S,<rhs 0/1>,<lhs0 0/1>,<cons>,<rcons>   (Matrix.solve; only the masks handed to `submatrix` matter)
             | X,<rows mask>,<cols mask>               (Matrix.submatrix)
        answer: per step `nocall` | `self` | `hit:<block>` | `miss:<block>`, joined by `&`
-/

def parseRat (s : String) : Option Rat :=
  match s.splitOn "/" with
  | [p] => p.toInt?.map fun (i : Int) => (i : Rat)
  | [p, q] => do
    let p ← p.toInt?
    let q ← q.toNat?
    if q == 0 then none else some ((p : Rat) / (q : Rat))
  | _ => none

def parseF (s : String) : Option F :=
  match s with
  | "nan" => some .nan
  | "inf" => some .posInf
  | "-inf" => some .negInf
  | _ => (parseRat s).map .fin

def parseVec (s : String) : Option Vec := (words s).mapM parseRat
def parseFVec (s : String) : Option (List F) := (words s).mapM parseF
def parseMask (s : String) : Option (List Bool) :=
  (words s).mapM fun w => match w with | "1" => some true | "0" => some false | _ => none
def parseMat (s : String) : Option Mat :=
  if s.trimAscii.toString == "" then some [] else (s.splitOn ";").mapM parseVec

def parseOpt {α : Type} (p : String → Option α) (s : String) : Option (Option α) :=
  if s == "none" then some none else (p s).map some

def parseOptRatVec (s : String) : Option (List (Option Rat)) :=
  (words s).mapM fun w => if w == "nan" then some none else (parseRat w).map some

def parseCons (s : String) : Option Cons :=
  if s.startsWith "m:" then (parseMask (s.drop 2).toString).map .mask
  else if s.startsWith "v:" then (parseOptRatVec (s.drop 2).toString).map .vals
  else none

def parseSol (s : String) : Option SolverRet :=
  if s == "merr" then some .matrixError
  else if s == "oerr" then some .otherError
  else if s.startsWith "vec:" then (parseFVec (s.drop 4).toString).map .vec
  else none

def showRat (q : Rat) : String := if q.den == 1 then toString q.num else s!"{q.num}/{q.den}"
def showF : F → String
  | .fin q => showRat q
  | .posInf => "inf"
  | .negInf => "-inf"
  | .nan => "nan"
def showVec (v : Vec) : String := " ".intercalate (v.map showRat)
def showMask (m : List Bool) : String := " ".intercalate (m.map fun b => if b then "1" else "0")
def showOptVec (v : List (Option Rat)) : String := " ".intercalate (v.map fun | some q => showRat q | none => "nan")

def errName : MErr → String
  | .notSquare => "notSquare" | .rhsShape => "rhsShape" | .rhsNonFinite => "rhsNonFinite" | .resNonFinite => "resNonFinite"
  | .solverMatrixError => "solverMatrixError" | .solverFailed => "solverFailed" | .nonFinite => "nonFinite"
  | .matmulShape => "matmulShape" | .tolNotReached b => s!"tolNotReached|{showVec b}" | .assertion => "assertion"
  | .attribute => "attribute" | .broadcast => "broadcast"

def showRes : Except MErr Vec → String
  | .ok x => s!"ok|{showVec x}"
  | .error e => s!"err|{errName e}"

def sqNorm (v : Vec) : F := .fin (normSq v)

/-- squared tolerance for mode `sq`: only finite non-negative tolerances are meaningful there -/
def sqTol : F → Option F
  | .fin q => if q < 0 then none else some (.fin (q * q))
  | _ => none

def parseMode (s : String) (b : Vec) : Option ((Vec → F) × Bool) :=
  if s == "sq" then some (sqNorm, true)
  else match s.splitOn ":" with
    | ["obs", a, r] => do
      let a ← parseF a
      let r ← parseF r
      some ((fun v => if v == b then a else r), false)
    | _ => none

def whyName : Why → String | .nan => "nan" | .tol => "tol" | .maxiter => "maxiter"
def showSOut : SOut → String
  | .returned k r => s!"returned {k} {showF r}"
  | .solverError k w => s!"solverError {k} {whyName w}"
  | .valueError => "valueError"
  | .stopIteration k => s!"stopIteration {k}"
  | .raised k t => s!"raised {k} {t}"

def parseEv (s : String) : Option Ev :=
  if s.startsWith "y:" then (parseF (s.drop 2).toString).map .yield
  else if s.startsWith "r:" then ((s.drop 2).toString.toNat?).map .raise
  else none

def parseMaxiter (s : String) : Option (Option Int) := parseOpt (fun w => w.toInt?) s

def showCall (c : Call) : String := s!"{showRat c.t0},{showRat c.t1},{if c.ok then 1 else 0}"

def showLOut : LOut → String
  | .accepted u n k => s!"accepted {showRat u} {showRat n} {k}"
  | .stuck k => s!"stuck {k}"
  | .assertion k => s!"assertion {k}"
  | .exhausted k => s!"exhausted {k}"

def parseLs (s : String) : Option (List (Rat × Bool)) :=
  (words s).mapM fun w => match w.splitOn ":" with
    | [a, "1"] => (parseRat a).map (·, true)
    | [a, "0"] => (parseRat a).map (·, false)
    | _ => none

def showMat (m : Mat) : String := ";".intercalate (m.map showVec)

def showHow (r : SubHow × Mat) : String :=
  match r.1 with
  | .self => "self"
  | .hit => s!"hit:{showMat r.2}"
  | .miss => s!"miss:{showMat r.2}"

def parseFlag (s : String) : Option Bool :=
  if s == "1" then some true else if s == "0" then some false else none

/-- the masks a history step hands to `submatrix` (`none` inside: no call) -/
def parseHStep (A : Mat) (nr nc : Nat) (s : String) : Option (Option (List Bool × List Bool)) :=
  match (s.splitOn ",").map (fun w => w.trimAscii.toString) with
  | ["S", rhs, lhs0, cons, rcons] =>
    match parseFlag rhs, parseFlag lhs0, parseOpt parseCons cons, parseOpt parseMask rcons with
    | some rhs, some lhs0, some cons, some rcons =>
      let si : SolveIn := ⟨A, nr, nc, if rhs then some (zeros nr) else none, if lhs0 then some (zeros nc) else none,
                          cons, rcons, .fin 0, .fin 0, .matrixError⟩
      some (solveSel si)
    | _, _, _, _ => none
  | ["X", rows, cols] =>
    match parseMask rows, parseMask cols with
    | some rows, some cols => if rows.length == nr && cols.length == nc then some (some (rows, cols)) else none
    | _, _ => none
  | _ => none

def runHist (A : Mat) : Option SubCache → List (Option (List Bool × List Bool)) → List String
  | _, [] => []
  | st, none :: rest => "nocall" :: runHist A st rest
  | st, some (I, J) :: rest => showHow (submatrixM A st I J).2 :: runHist A (submatrixM A st I J).1 rest

def handle (line : String) : String :=
  match fields line with
  | ["solver", mode, A, nc, b, atol, rtol, sol] =>
    match parseMat A, nc.toNat?, parseVec b, parseF atol, parseF rtol, parseSol sol with
    | some A, some nc, some b, some atol, some rtol, some sol =>
      match parseMode mode b with
      | some (nrm, true) =>
        match sqTol atol, sqTol rtol with
        | some a2, some r2 => showRes (solverM nrm A nc b a2 r2 sol)
        | _, _ => "bad-request tolerance not finite non-negative in mode sq"
      | some (nrm, false) => showRes (solverM nrm A nc b atol rtol sol)
      | none => "bad-request mode"
    | _, _, _, _, _, _ => "bad-request"
  | ["solve", A, nr, nc, rhs, lhs0, cons, rcons, atol, rtol, sol, len] =>
    match parseMat A, nr.toNat?, nc.toNat?, parseOpt parseVec rhs, parseOpt parseVec lhs0, parseOpt parseCons cons,
          parseOpt parseMask rcons, (parseF atol).bind sqTol, (parseF rtol).bind sqTol, parseSol sol with
    | some A, some nr, some nc, some rhs, some lhs0, some cons, some rcons, some a2, some r2, some sol =>
      let s : SolveIn := ⟨A, nr, nc, rhs, lhs0, cons, rcons, a2, r2, sol⟩
      if len == "1" then showRes (solveLenientM sqNorm s)
      else if len == "0" then showRes (solveM sqNorm s)
      else "bad-request"
    | _, _, _, _, _, _, _, _, _, _ => "bad-request"
  | ["sys", tol, mi, ma, m] =>
    match parseF tol, mi.toInt?, parseMaxiter ma with
    | some tol, some mi, some ma =>
      if m.startsWith "tuple:" then
        match parseF (m.drop 6).toString with
        | some r => showSOut (solveSys tol mi ma (.tuple r))
        | none => "bad-request"
      else if m.startsWith "iter:" then
        match (words (m.drop 5).toString).mapM parseEv with
        | some evs => showSOut (solveSys tol mi ma (.iter evs))
        | none => "bad-request"
      else "bad-request"
    | _, _, _ => "bad-request"
  | ["legacy", tol, mi, ma, evs] =>
    match parseF tol, mi.toInt?, parseMaxiter ma, (words evs).mapM parseEv with
    | some tol, some mi, some ma, some evs => showSOut (legacySolve tol mi ma evs)
    | _, _, _, _ => "bad-request"
  | ["step", n, dep, t, dt, script] =>
    match n.toNat?, parseMask dep, parseRat t, parseRat dt, parseMask script with
    | some n, some [dep], some t, some dt, some script =>
      let r := stepM n dep t dt script
      s!"{if r.1 then "ok" else "fail"}|{";".intercalate (r.2.1.map showCall)}|{r.2.2.length}"
    | _, _, _, _, _ => "bad-request"
  | ["droptol", A, nc, d] =>
    match parseMat A, nc.toNat?, parseF d with
    | some A, some nc, some d => showMask (droptolMask A nc d)
    | _, _, _ => "bad-request"
  | ["decon", n, a, cons] =>
    match n.toNat?, parseOpt parseVec a, parseOpt parseCons cons with
    | some n, some a, some cons =>
      let r := deconstruct n a cons
      s!"{showOptVec r.1}|{showVec r.2}|{showVec (construct r.1 r.2)}|{showVec (expected n a cons)}"
    | _, _, _ => "bad-request"
  | ["hist", A, nr, nc, steps] =>
    match parseMat A, nr.toNat?, nc.toNat? with
    | some A, some nr, some nc =>
      if A.length != nr || A.any (fun row => row.length != nc) then "bad-request shape"
      else match (steps.splitOn "&").mapM (parseHStep A nr nc) with
        | some sels => "&".intercalate (runHist A none sels)
        | none => "bad-request step"
    | _, _, _ => "bad-request"
  | ["ls", fr, r0, script] =>
    match parseRat fr, parseRat r0, parseLs script with
    | some fr, some r0, some script => showLOut (linesearch fr r0 0 script)
    | _, _, _ => "bad-request"
  | _ => "bad-request"

def main : IO Unit := serve handle
