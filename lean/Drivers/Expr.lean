import NutilsVerif.Model.ExprJson
/-!
Line protocol of the specification-level evaluator: one JSON request per line.

request  {"nodes":[[cls, arg, …], …], "roots":[id, …], "args":{name:{"shape":[…], "data":["p/q", …]} | {"shape":[…], "sym":true}},
          "cmp":[[i,j], …]}     (cmp: pairs of positions in roots whose values are compared by Lean)
response {"results":[{"shape":[…],"data":[key, …]} | {"error":kind,"what":…}, …], "cmp":["same"|"differ"|"error", …]}

arg encodings: {"r":id} node reference · integer · "string" · true/false · null · [list] · {"ms":[…]} frozenmultiset ·
{"a":{"dtype":…,"shape":[…],"data":["p/q",…]}} arraydata · {"t":"float"} dtype · {"loop":name} · {"o":"ClassName"} opaque
-/
open Lean NutilsVerif NutilsVerif.Expr

def handle (line : String) : String :=
  match parseRequest line with
  | .error e => "bad-request " ++ e
  | .ok r =>
    let cmpPairs := (r.json.getObjValAs? (List (List Nat)) "cmp").toOption.getD []
    let cmps := cmpPairs.map fun p =>
      match r.results.getD (p.getD 0 0) (.error (.illformed "cmp index")), r.results.getD (p.getD 1 0) (.error (.illformed "cmp index")) with
      | .ok a, .ok b => if a.shape == b.shape && a.data.toList == b.data.toList then "same" else "differ"
      | _, _ => "error"
    (Json.mkObj [("results", Json.arr (r.results.map resultJson).toArray), ("cmp", toJson cmps)]).compress

def main : IO Unit := NutilsVerif.Proto.serve handle
