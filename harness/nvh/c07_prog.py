"""C07 (M2): random compositions of NumPy-API calls on real nutils function arrays, evaluated on real samples and compared
at every point with real NumPy applied to the operands' per-point values.

A *case* is a small DAG: leaves (constants, Arguments, geometry / basis / element index of the environment's spaces) and
op applications.  Every op is one Python callable `OPS[name](P, *operands)` that is executed twice: on the nutils function
arrays (NEP-13/18 dispatch decides what happens) and, per sample point, on the NumPy values of the operands at that point.
A case is fully described by JSON (`desc`) and can be re-run from it.
"""
import math, warnings, json
import numpy

FAIL_REL = 1e-8
PYT = {'b': bool, 'i': int, 'f': float, 'c': complex}


def kind_of(x):
    if isinstance(x, type):
        return {bool: 'b', int: 'i', float: 'f', complex: 'c'}[x]
    if isinstance(x, bool): return 'b'
    if isinstance(x, int): return 'i'
    if isinstance(x, float): return 'f'
    if isinstance(x, complex): return 'c'
    k = numpy.asarray(x).dtype.kind
    return 'i' if k == 'u' else k


# =====================================================================================================================
# environments: samples with 0..3 point axes
# =====================================================================================================================

class Env:
    def __init__(self, name, sample, k, spaces, exact):
        self.name, self.sample, self.k, self.spaces, self.exact = name, sample, k, spaces, exact
        self.npoints = sample.npoints if sample is not None else 1

    def eval(self, function, exprs, arguments):
        """list of arrays with a leading axis of length npoints"""
        exprs = [function.Array.cast(e) for e in exprs]
        if self.sample is None:
            return [numpy.asarray(v)[numpy.newaxis] for v in function.eval(exprs, arguments=arguments)]
        return [numpy.asarray(v) for v in self.sample.eval(exprs, arguments=arguments)]


ENV_SPECS = [
    # name, number of point axes, spaces, exact, builder(sp) -> sample
    ('none', 0, (), True, lambda sp: None),
    ('X.bezier2', 1, ('X',), True, lambda sp: sp['X'][0].sample('bezier', 2)),
    ('X.gauss2', 1, ('X',), False, lambda sp: sp['X'][0].sample('gauss', 2)),
    ('T.uniform1', 1, ('T',), True, lambda sp: sp['T'][0].sample('uniform', 1)),
    ('T.bezier2', 1, ('T',), True, lambda sp: sp['T'][0].sample('bezier', 2)),
    ('T.boundary.uniform1', 1, ('T',), True, lambda sp: sp['T'][0].boundary.sample('uniform', 1)),
    ('R.bezier2', 1, ('R',), True, lambda sp: sp['R'][0].sample('bezier', 2)),
    ('X.uniform1*Y.bezier2', 2, ('X', 'Y'), True, lambda sp: sp['X'][0].sample('uniform', 1) * sp['Y'][0].sample('bezier', 2)),
    ('Y.uniform1*X.gauss1', 2, ('X', 'Y'), True, lambda sp: sp['Y'][0].sample('uniform', 1) * sp['X'][0].sample('gauss', 1)),
    ('T.boundary.uniform1*Z.bezier2', 2, ('T', 'Z'), True, lambda sp: sp['T'][0].boundary.sample('uniform', 1) * sp['Z'][0].sample('bezier', 2)),
    ('X.uniform1*Y.uniform1*Z.bezier2', 3, ('X', 'Y', 'Z'), True, lambda sp: sp['X'][0].sample('uniform', 1) * sp['Y'][0].sample('uniform', 1) * sp['Z'][0].sample('bezier', 2)),
    ('Z.uniform2*T.uniform1*Y.uniform1', 3, ('T', 'Y', 'Z'), True, lambda sp: sp['Z'][0].sample('uniform', 2) * sp['T'][0].sample('uniform', 1) * sp['Y'][0].sample('uniform', 1)),
]

SPACE_BUILDERS = {
    'X': lambda mesh: mesh.line(2, space='X'),
    'Y': lambda mesh: mesh.line([0, 1, 3], space='Y'),
    'Z': lambda mesh: mesh.line(1, space='Z'),
    'T': lambda mesh: mesh.rectilinear([2, 1], space='T'),
    'R': lambda mesh: mesh.unitsquare(1, 'triangle'),     # space 'X' as well, never combined with the line X
}


def make_envs(function, mesh):
    """-> (dict name -> Env, list of (what, exception)): building a mesh / sample runs real function-array code as well"""
    sp, errors = {}, []
    for k, b in SPACE_BUILDERS.items():
        try: sp[k] = b(mesh)
        except Exception as e: errors.append(('mesh ' + k, e))
    E = {}
    for name, k, spaces, exact, build in ENV_SPECS:
        if any(s not in sp for s in spaces): continue
        try: E[name] = Env(name, build(sp), k, {s: sp[s] for s in spaces}, exact)
        except Exception as e: errors.append(('sample ' + name, e))
    return E, errors


# =====================================================================================================================
# the op catalogue: one callable for both worlds
# =====================================================================================================================

def dec_item(it, xs):
    t = it[0]
    if t == 'i': return it[1]
    if t == 's': return slice(it[1], it[2], it[3])
    if t == 'e': return Ellipsis
    if t == 'n': return None
    if t == 'a': return numpy.array(it[1], dtype=int)       # constant index ndarray
    if t == 'l': return it[1]                                # constant index as (nested) list
    if t == 'x': return xs[it[1]]                            # operand (function index array)
    if t == 'm': return numpy.array(it[1], dtype=bool)       # boolean mask (supported by Basis.__getitem__ only)
    raise ValueError(it)


def dec_items(items, xs):
    r = tuple(dec_item(it, xs) for it in items)
    return r


def _ax(a):
    return tuple(a) if isinstance(a, list) else a


def _sel(r, P):
    return r[P['sel']] if 'sel' in P else r


UFUNC2 = ['add', 'subtract', 'multiply', 'true_divide', 'floor_divide', 'mod', 'power', 'minimum', 'maximum', 'greater', 'less', 'equal',
          'hypot', 'arctan2', 'logical_and', 'logical_or', 'bitwise_and', 'bitwise_or']
UFUNC1 = ['negative', 'positive', 'reciprocal', 'sqrt', 'square', 'absolute', 'sign', 'sin', 'cos', 'tan', 'arcsin', 'arccos', 'arctan', 'sinc',
          'cosh', 'sinh', 'tanh', 'arctanh', 'exp', 'log', 'log2', 'log10', 'logical_not', 'invert', 'conjugate', 'real', 'imag']

OPS = {}
NPF = {}    # op name -> names of the numpy functions (HANDLED_FUNCTIONS keys) it invokes directly

for _n in UFUNC2:
    OPS[_n] = (lambda f: lambda P, a, b: f(a, b))(getattr(numpy, _n)); NPF[_n] = [getattr(numpy, _n).__name__]
for _n in UFUNC1:
    OPS[_n] = (lambda f: lambda P, a: f(a))(getattr(numpy, _n)); NPF[_n] = [getattr(numpy, _n).__name__]

OPS.update({
    'op+': lambda P, a, b: a + b, 'op-': lambda P, a, b: a - b, 'op*': lambda P, a, b: a * b, 'op/': lambda P, a, b: a / b,
    'op//': lambda P, a, b: a // b, 'op%': lambda P, a, b: a % b, 'op**': lambda P, a, b: a ** b, 'op@': lambda P, a, b: a @ b,
    'op<': lambda P, a, b: a < b, 'op>': lambda P, a, b: a > b, 'op==': lambda P, a, b: a == b, 'op&': lambda P, a, b: a & b, 'op|': lambda P, a, b: a | b,
    'op~': lambda P, a: ~a, 'op-neg': lambda P, a: -a, 'op+pos': lambda P, a: +a, 'abs()': lambda P, a: abs(a),
    'divmod()': lambda P, a, b: divmod(a, b)[P['sel']], 'np.divmod': lambda P, a, b: numpy.divmod(a, b)[P['sel']],
    'sum': lambda P, a: numpy.sum(a, axis=_ax(P['axis'])), 'sum-default': lambda P, a: numpy.sum(a),
    'prod': lambda P, a: numpy.prod(a, axis=_ax(P['axis'])) if P.get('kw', True) else numpy.prod(a, _ax(P['axis'])),
    'a.sum': lambda P, a: a.sum(_ax(P['axis'])), 'a.prod': lambda P, a: a.prod(_ax(P['axis'])),
    'all': lambda P, a: numpy.all(a, axis=P['axis']) if 'axis' in P else numpy.all(a),
    'any': lambda P, a: numpy.any(a, axis=P['axis']) if 'axis' in P else numpy.any(a),
    'getitem': lambda P, a, *xs: a[dec_items(P['items'], xs)] if P.get('tuple', True) else a[dec_items(P['items'], xs)[0]],
    'getitem2': lambda P, a, *xs: a[dec_items(P['items'], xs)][dec_items(P['items2'], xs)],
    'take': lambda P, a, *xs: numpy.take(a, dec_item(P['indices'], xs), axis=P['axis']) if 'axis' in P else numpy.take(a, dec_item(P['indices'], xs)),
    'compress': lambda P, a: numpy.compress(P['cond'], a, axis=P['axis']) if 'axis' in P else numpy.compress(P['cond'], a),
    'reshape': lambda P, a: numpy.reshape(a, _ax(P['shape'])), 'ravel': lambda P, a: numpy.ravel(a),
    'transpose': lambda P, a: numpy.transpose(a, _ax(P['axes'])) if 'axes' in P else numpy.transpose(a),
    'a.T': lambda P, a: a.T, 'a.transpose': lambda P, a: a.transpose(_ax(P['axes'])), 'swapaxes': lambda P, a: numpy.swapaxes(a, P['a1'], P['a2']),
    'a.swapaxes': lambda P, a: a.swapaxes(P['a1'], P['a2']),
    'broadcast_to': lambda P, a: numpy.broadcast_to(a, _ax(P['shape'])), 'repeat': lambda P, a: numpy.repeat(a, P['n'], axis=P['axis']),
    'concatenate': lambda P, *xs: numpy.concatenate(list(xs), axis=P['axis']) if 'axis' in P else numpy.concatenate(list(xs)),
    'stack': lambda P, *xs: numpy.stack(list(xs), axis=P['axis']) if 'axis' in P else numpy.stack(list(xs)),
    'diagonal': lambda P, a: numpy.diagonal(a, P['offset'], P['a1'], P['a2']), 'trace': lambda P, a: numpy.trace(a, P['offset'], P['a1'], P['a2']),
    'diagonal-default': lambda P, a: numpy.diagonal(a), 'trace-default': lambda P, a: numpy.trace(a),
    'einsum': lambda P, *xs: numpy.einsum(P['sub'], *xs), 'dot': lambda P, a, b: numpy.dot(a, b), 'matmul': lambda P, a, b: numpy.matmul(a, b),
    'vdot': lambda P, a, b: numpy.vdot(a, b), 'cross': lambda P, a, b: numpy.cross(a, b, **P.get('kw', {})),
    'norm': lambda P, a: numpy.linalg.norm(a, axis=_ax(P['axis'])) if 'axis' in P else numpy.linalg.norm(a),
    'det': lambda P, a: numpy.linalg.det(a), 'inv': lambda P, a: numpy.linalg.inv(a),
    'eigh': lambda P, a: numpy.linalg.eigh(a)[P['sel']], 'eig': lambda P, a: numpy.linalg.eig(a)[P['sel']],
    'choose': lambda P, a, *xs: numpy.choose(a, list(xs)), 'a.choose': lambda P, a, *xs: a.choose(list(xs)),
    'searchsorted': lambda P, v: numpy.searchsorted(numpy.array(P['a']), v, **P.get('kw', {})),
    'interp': lambda P, x: numpy.interp(x, numpy.array(P['xp']), numpy.array(P['fp']), **P.get('kw', {})),
    'astype': lambda P, a: a.astype(PYT[P['kind']]), 'conj()': lambda P, a: a.conj() if hasattr(a, 'conj') else numpy.conj(a),
    'a.real': lambda P, a: a.real, 'a.imag': lambda P, a: a.imag,
    'iter-stack': lambda P, a: numpy.stack([x for x in a]),
    'cast-list': lambda P, *xs: numpy.stack(list(xs)) * 1,       # numpy.stack -> Array.cast of every item
    'meta': lambda P, a: {'shape': numpy.shape, 'ndim': numpy.ndim, 'size': numpy.size, 'len': len}[P['what']](a),
})
NPF.update({
    'op+': ['add'], 'op-': ['subtract'], 'op*': ['multiply'], 'op/': ['divide'], 'op//': ['floor_divide'], 'op%': ['remainder'], 'op**': ['power'], 'op@': ['matmul'],
    'op<': ['less'], 'op>': ['greater'], 'op==': ['equal'], 'op&': ['bitwise_and'], 'op|': ['bitwise_or'], 'op~': ['invert'], 'op-neg': ['negative'], 'op+pos': ['positive'],
    'abs()': ['absolute'], 'divmod()': ['divmod'], 'np.divmod': ['divmod'], 'sum': ['sum'], 'sum-default': ['sum'], 'prod': ['prod'], 'a.sum': ['sum'], 'a.prod': ['prod'],
    'all': ['all'], 'any': ['any'], 'getitem': ['take'], 'getitem2': ['take'], 'take': ['take'], 'compress': ['compress'], 'reshape': ['reshape'], 'ravel': ['ravel'],
    'transpose': ['transpose'], 'a.T': ['transpose'], 'a.transpose': ['transpose'], 'swapaxes': ['swapaxes'], 'a.swapaxes': ['swapaxes'], 'broadcast_to': ['broadcast_to'],
    'repeat': ['repeat'], 'concatenate': ['concatenate'], 'stack': ['stack'], 'diagonal': ['diagonal'], 'trace': ['trace'], 'diagonal-default': ['diagonal'], 'trace-default': ['trace'],
    'einsum': ['einsum'], 'dot': ['dot'], 'matmul': ['matmul'], 'vdot': ['vdot'], 'cross': ['cross'], 'norm': ['norm'], 'det': ['det'], 'inv': ['inv'], 'eigh': ['eigh'], 'eig': ['eig'],
    'choose': ['choose'], 'a.choose': ['choose'], 'searchsorted': ['searchsorted'], 'interp': ['interp'], 'astype': [], 'conj()': ['conjugate'], 'a.real': ['real'], 'a.imag': ['imag'],
    'iter-stack': ['stack', 'take'], 'cast-list': ['stack', 'multiply'], 'meta': [],
})
for _n in ('true_divide',): NPF[_n] = ['divide']
for _n in ('mod',): NPF[_n] = ['remainder']
META_NPF = {'shape': 'shape', 'ndim': 'ndim', 'size': 'size', 'len': None}


# =====================================================================================================================
# nodes
# =====================================================================================================================

class Node:
    __slots__ = ('id', 'fa', 'vals', 'depth', 'desc', 'ptdep', 'isfa', 'children', 'op', 'exact')

    def __init__(self, id, fa, vals, depth, desc, ptdep, isfa, children=(), op=None):
        self.id, self.fa, self.vals, self.depth, self.desc, self.ptdep, self.isfa, self.children, self.op = id, fa, vals, depth, desc, ptdep, isfa, children, op
        self.exact = None

    @property
    def v0(self): return self.vals[0]
    @property
    def shape(self): return numpy.shape(self.vals[0])
    @property
    def ndim(self): return len(self.shape)
    @property
    def kind(self): return kind_of(self.vals[0])

    def all(self, pred):
        return all(bool(numpy.all(pred(numpy.asarray(v)))) for v in self.vals)


def small_dyadic(vals):
    """all values are k / 2**20 with |value| < 2**20: float arithmetic on them (+, -, *) is exact"""
    for v in vals:
        a = numpy.asarray(v)
        if a.dtype.kind in 'biu': continue
        parts = [a.real, a.imag] if a.dtype.kind == 'c' else [a]
        for x in parts:
            if not numpy.isfinite(x).all(): return False
            y = x * 2.**20
            if (numpy.abs(x) >= 2.**20).any() or (y != numpy.round(y)).any(): return False
    return True


# ops that map exactly representable operands to exactly representable results without rounding (given small dyadic values)
EXACT_OPS = {'add', 'subtract', 'multiply', 'op+', 'op-', 'op*', 'negative', 'positive', 'op-neg', 'op+pos', 'absolute', 'abs()', 'sign', 'square', 'minimum', 'maximum',
             'greater', 'less', 'equal', 'op<', 'op>', 'op==', 'logical_and', 'logical_or', 'bitwise_and', 'bitwise_or', 'op&', 'op|', 'logical_not', 'invert', 'op~',
             'floor_divide', 'mod', 'op//', 'op%', 'divmod()', 'np.divmod', 'power', 'op**', 'sum', 'sum-default', 'prod', 'a.sum', 'a.prod', 'all', 'any', 'getitem', 'getitem2', 'take',
             'compress', 'reshape', 'ravel', 'transpose', 'a.T', 'a.transpose', 'swapaxes', 'a.swapaxes', 'broadcast_to', 'repeat', 'concatenate', 'stack', 'diagonal', 'trace',
             'diagonal-default', 'trace-default', 'einsum', 'dot', 'matmul', 'op@', 'vdot', 'cross', 'choose', 'a.choose', 'searchsorted', 'astype', 'conjugate', 'conj()', 'real', 'imag',
             'a.real', 'a.imag', 'iter-stack', 'cast-list', 'true_divide', 'op/', 'reciprocal'}     # divisions only count when the quotient is again a small dyadic (checked on the values)
# ops whose value jumps: they are only applied to exact operands (a 1-ulp difference of an equivalent evaluation order would flip the result)
DISCONTINUOUS_OPS = {'floor_divide', 'mod', 'op//', 'op%', 'divmod()', 'np.divmod', 'greater', 'less', 'equal', 'op<', 'op>', 'op==', 'sign', 'searchsorted', 'astype'}


def enc_val(v):
    """JSON encoding of a python scalar / ndarray (complex as [re, im] pairs)"""
    a = numpy.asarray(v)
    if a.dtype.kind == 'c':
        return dict(c=[a.real.tolist(), a.imag.tolist()])
    return a.tolist()


def dec_val(j, kind):
    if isinstance(j, dict):
        return numpy.array(j['c'][0], dtype=float) + 1j * numpy.array(j['c'][1], dtype=float)
    return numpy.array(j, dtype=PYT[kind])


class Case:
    """a DAG under construction / replay on one environment"""

    def __init__(self, function, env):
        self.function, self.env = function, env
        self.nodes = []
        self.args = {}
        self.log = []          # ('leaf', desc) | ('op', desc) in creation order = node ids

    # ------------------------------------------------------------------ leaves
    def add_leaf(self, d):
        f = self.function; env = self.env
        t = d['t']
        ptdep = False; isfa = True
        if t == 'scalar':      # raw python scalar
            k = d['kind']; v = PYT[k](complex(*d['v']) if k == 'c' else d['v'])
            fa = v; vals = [v]; isfa = False
        elif t == 'nparray':   # raw numpy array
            fa = dec_val(d['v'], d['kind']); vals = [fa]; isfa = False
        elif t == 'list':      # raw nested list
            fa = d['v']; vals = [numpy.array(d['v'])]; isfa = False
        elif t == 'const':     # function.Array.cast of a numpy array
            v = dec_val(d['v'], d['kind']); fa = f.Array.cast(v); vals = [v]
        elif t == 'arg':
            v = dec_val(d['v'], d['kind']); fa = f.Argument(d['name'], v.shape, PYT[d['kind']]); self.args[d['name']] = v; vals = [v]
        elif t == 'zeros':
            fa = f.zeros(tuple(d['shape']), PYT[d['kind']]); vals = [numpy.zeros(tuple(d['shape']), PYT[d['kind']])]
        elif t == 'ones':
            fa = f.ones(tuple(d['shape']), PYT[d['kind']]); vals = [numpy.ones(tuple(d['shape']), PYT[d['kind']])]
        else:
            topo, geom = env.spaces[d['space']]
            if t == 'geom': fa = geom
            elif t == 'geomc': fa = geom[d['i']]
            elif t == 'basis': fa = topo.basis(d['btype'], degree=d['degree'])
            elif t == 'index': fa = topo.f_index
            else: raise ValueError(t)
            vals = None; ptdep = t != 'index'
        n = Node(len(self.nodes), fa, vals, 0, d, ptdep, isfa)
        n.exact = small_dyadic(vals) if vals is not None else None
        self.nodes.append(n); self.log.append(['leaf', d])
        return n

    def eval_leaves(self):
        todo = [n for n in self.nodes if n.vals is None]
        if todo:
            with warnings.catch_warnings():
                warnings.simplefilter('ignore')
                vs = self.env.eval(self.function, [n.fa for n in todo], self.args)
            for n, v in zip(todo, vs):
                n.vals = [v[p] for p in range(self.env.npoints)]
                n.exact = small_dyadic(n.vals)

    # ------------------------------------------------------------------ op application
    def numpy_side(self, op, P, operands):
        """per-point reference values; returns (vals, None) or (None, exception)"""
        npts = 1 if all(len(o.vals) == 1 for o in operands) else self.env.npoints
        out = []
        with warnings.catch_warnings():
            warnings.simplefilter('ignore')
            try:
                for p in range(npts):
                    out.append(OPS[op](P, *[o.vals[p if len(o.vals) > 1 else 0] for o in operands]))
            except Exception as e:
                return None, e
        return out, None

    def nutils_side(self, op, P, operands):
        with warnings.catch_warnings():
            warnings.simplefilter('ignore')
            try:
                return OPS[op](P, *[o.fa for o in operands]), None
            except Exception as e:
                return None, e

    def add_op(self, op, P, operands, vals, fa):
        n = Node(len(self.nodes), fa, vals, 1 + max(o.depth for o in operands), dict(op=op, P=P, args=[o.id for o in operands]),
                 any(o.ptdep for o in operands), True, tuple(operands), op)
        n.exact = all(o.exact for o in operands) and op in EXACT_OPS and small_dyadic(vals)
        self.nodes.append(n); self.log.append(['op', n.desc])
        return n

    def desc(self):
        return dict(env=self.env.name, log=self.log)

    def expr_str(self, n):
        if n.op is None:
            d = n.desc
            return {'scalar': lambda: repr(n.fa), 'nparray': lambda: 'nd%s%s' % (d['kind'], list(n.shape)), 'list': lambda: 'list%s' % list(n.shape),
                    'const': lambda: 'C%s%s' % (d['kind'], list(n.shape)), 'arg': lambda: '%s:%s%s' % (d['name'], d['kind'], list(n.shape)),
                    'zeros': lambda: 'zeros', 'ones': lambda: 'ones'}.get(d['t'], lambda: '%s.%s' % (d.get('space'), d['t']))()
        P = {k: v for k, v in n.desc['P'].items()}
        return '%s(%s%s)' % (n.op, ', '.join(self.expr_str(c) for c in n.children), (', ' + json.dumps(P, separators=(',', ':'))) if P else '')


# =====================================================================================================================
# comparison
# =====================================================================================================================

def rel_dev(got, want):
    """max relative deviation (0 when identical, NaN/inf positions must coincide)"""
    got = numpy.asarray(got); want = numpy.asarray(want)
    if got.dtype.kind in 'biu' and want.dtype.kind in 'biu':
        return 0. if numpy.array_equal(got, want) else math.inf
    g = got.astype(complex); w = want.astype(complex)
    gn, wn = numpy.isnan(g), numpy.isnan(w)
    if (gn != wn).any(): return math.inf
    gi, wi = numpy.isinf(g), numpy.isinf(w)
    if (gi != wi).any() or (g[gi] != w[wi]).any(): return math.inf
    ok = ~(gn | gi)
    if not ok.any(): return 0.
    d = numpy.abs(g[ok] - w[ok])
    scale = max(1., float(numpy.abs(w[ok]).max()))
    return float(d.max()) / scale


def compare(node, got, npoints):
    """-> (verdict, detail); verdict in ok | close | shape | kind | value"""
    want0 = numpy.asarray(node.vals[0])
    declared_shape = tuple(int(s) for s in node.fa.shape)
    if declared_shape != want0.shape:
        return 'shape', 'declared shape %r, NumPy %r' % (declared_shape, want0.shape)
    if got.shape != (npoints,) + want0.shape:
        return 'shape', 'evaluated shape %r, expected %r' % (got.shape, (npoints,) + want0.shape)
    dk, gk, wk = kind_of(node.fa.dtype), kind_of(got), kind_of(want0)
    if dk != wk or gk != wk:
        return 'kind', 'declared kind %s, evaluated kind %s, NumPy kind %s' % (dk, gk, wk)
    worst = 0.
    for p in range(npoints):
        w = node.vals[p if len(node.vals) > 1 else 0]
        d = rel_dev(got[p], w)
        if d >= FAIL_REL:
            return 'value', 'point %d: nutils %s, NumPy %s' % (p, numpy.asarray(got[p]).tolist(), numpy.asarray(w).tolist())
        worst = max(worst, d)
    return ('ok' if worst == 0 else 'close'), worst
