"""C17 helper streams (systematic grids, property oracles on the real code; no Lean request except `canonbo`).

* `arraydata_grid`  — memory representation x value grid for `types.arraydata`: every NumPy dtype of the kinds b/i/u/f/c
  (all item sizes, BOTH byte orders, incl. the native-size non-native-endian ones), several memory layouts (C, Fortran,
  strided, reversed, transposed, byte-swapped view, unaligned read-only buffer, broadcast) and adversarial values (min/max,
  byte-asymmetric patterns together with their byte-reversed siblings).  Specification oracle, computed from the exact
  Python values with `struct` only: the container holds the native bool/int/float/complex encoding of exactly these
  values, is the *same object* (same nutils hash) as the canonical construction from a native array / nested list, data
  that does not survive the cast is rejected with ValueError, and containers of different (dtype kind, shape, values)
  never share identity or hash.
* `signature_grid`  — Immutable / Singleton classes generated from signature descriptors (positional-or-keyword with and
  without defaults, *args, keyword-only with and without defaults, **kwargs) and called with every kind of spelling of
  one assignment: positional/keyword split, defaults left out or given, keywords (named, keyword-only and the extra ones
  collected by **kwargs) in permuted orders.  Specification: one assignment = one value (==, hash, `_args`, nutils hash,
  `is` for Singleton, also after a pickle round trip); what `__init__` receives is the assignment; different assignments
  are different values with different hashes.
* `cache_kwargs_routes` — `cache.function` on functions with keyword-only and **kwargs parameters: permuted keywords hit
  the same cache entry, different assignments do not.
"""
import sys, struct, itertools, pickle, os
import numpy
from nutils import types as T
from .common import Infra

NATIVE = '<' if sys.byteorder == 'little' else '>'
SWAPPED = '>' if NATIVE == '<' else '<'


def real_hash(v):
    try:
        h = T.nutils_hash(v)
    except Exception as e:
        return 'err|' + type(e).__name__
    if not isinstance(h, bytes):
        return 'nonbytes|' + type(h).__name__
    return 'ok|' + h.hex()


# ================================================================ arraydata grid

FCODE = {2: 'e', 4: 'f', 8: 'd'}
ICODE = {('i', 1): 'b', ('i', 2): 'h', ('i', 4): 'i', ('i', 8): 'q', ('u', 1): 'B', ('u', 2): 'H', ('u', 4): 'I', ('u', 8): 'Q'}
LD = numpy.dtype(numpy.longdouble)
CLD = numpy.dtype(numpy.clongdouble)


def dtype_grid():
    """(dtype string, kind, item size of one real component, is-extended-precision)"""
    out = [('|b1', 'b', 1, False)]
    for k in 'iu':
        for s in (1, 2, 4, 8):
            for bo in '<>':
                out.append((('|' if s == 1 else bo) + '%s%d' % (k, s), k, s, False))
    for s in (2, 4, 8):
        for bo in '<>':
            out.append(('%sf%d' % (bo, s), 'f', s, False))
    for s in (4, 8):
        for bo in '<>':
            out.append(('%sc%d' % (bo, 2 * s), 'c', s, False))
    if LD.itemsize > 8:
        for bo in '<>':
            out.append(('%sf%d' % (bo, LD.itemsize), 'f', LD.itemsize, True))
            out.append(('%sc%d' % (bo, CLD.itemsize), 'c', LD.itemsize, True))
    seen = set(); res = []
    for d in out:
        if d[0] not in seen:
            seen.add(d[0]); res.append(d)
    return res


def _revint(x, kind, s):
    """the integer whose encoding in `s` bytes is the byte-reversed encoding of x"""
    code = ICODE[kind, s]
    return struct.unpack('>' + code, struct.pack('<' + code, x))[0]


def _revfloat(x, s):
    code = FCODE[s]
    y = struct.unpack('>' + code, struct.pack('<' + code, x))[0]
    return None if y != y else y


def int_pool(rng, kind, s):
    lo, hi = (-(1 << (8 * s - 1)), (1 << (8 * s - 1)) - 1) if kind == 'i' else (0, (1 << (8 * s)) - 1)
    pat = int.from_bytes(bytes(range(1, s + 1)), 'big')          # 0x0102..0s: every byte different
    base = [0, 1, 2, 3, hi, lo, hi // 2 + 1, pat, 255, 256 % (hi + 1), rng.randint(lo, hi), rng.randint(lo, hi), rng.randint(0, 100)]
    if kind == 'i': base += [-1, -2, -pat, rng.randint(-100, 0)]
    base = [x for x in base if lo <= x <= hi]
    return base + [_revint(x, kind, s) for x in base]


def float_pool(rng, s):
    if s > 8: s = 8                                               # extended precision: double-representable values (+ see `inexact`)
    base = [0.0, -0.0, 1.0, -1.0, 0.5, 1.5, -2.25, 3.0, 2.0, float('inf'), float('-inf'), rng.randint(-64, 64) / 8, rng.randint(-1000, 1000) / 4,
            float(rng.randint(1, 2000))]
    base += {2: [65504.0, 2.0 ** -24, 2.0 ** -14, 0.0999755859375], 4: [3.4028234663852886e38, 2.0 ** -149, 2.0 ** -126, 0.10000000149011612, 16777217.0 - 1],
             8: [1e300, 5e-324, 2.2250738585072014e-308, 0.1, 1 / 3, 123456789.125, 2.0 ** 53 + 2]}[s]
    out = list(base)
    for x in base:
        y = _revfloat(x, s)
        if y is not None: out.append(y)
    return out


def spec_bytes(kind, vals):
    """native encoding of exact Python values (the specification of `arraydata.bytes`)"""
    if kind == 'b': return b''.join(b'\1' if v else b'\0' for v in vals)
    if kind in 'iu': return b''.join(struct.pack('=q', v) for v in vals)
    if kind == 'f': return b''.join(struct.pack('=d', v) for v in vals)
    return b''.join(struct.pack('=dd', v.real, v.imag) for v in vals)


NATIVE_TYPE = dict(b=bool, i=int, u=int, f=float, c=complex)
SHAPES = [(), (0,), (1,), (2,), (3,), (5,), (2, 3), (3, 2), (1, 4), (2, 1, 2), (0, 2), (6,)]


def _prod(shape):
    n = 1
    for d in shape: n *= d
    return n


def layouts_for(shape, vals):
    L = ['C', 'swapview', 'unaligned']
    if len(shape) >= 1 and _prod(shape): L += ['strided', 'rev']
    if len(shape) >= 2: L += ['F', 'T']
    if vals and all(repr(v) == repr(vals[0]) for v in vals) and len(shape) >= 1: L.append('broadcast')
    return L


def build(dt, shape, vals, layout):
    """an ndarray of dtype `dt` and shape `shape` holding `vals` (C order) in the requested memory representation"""
    dt = numpy.dtype(dt)
    a = numpy.array(vals, dtype=dt).reshape(shape)
    if layout == 'C': return a
    if layout == 'F': return numpy.asfortranarray(a)
    if layout == 'T': return numpy.ascontiguousarray(a.T).T
    if layout == 'strided':
        w = numpy.zeros(shape[:-1] + (2 * shape[-1],), dtype=dt)[..., ::2]; w[...] = a; return w
    if layout == 'rev':
        return numpy.ascontiguousarray(a[::-1])[::-1]
    if layout == 'swapview':
        # the same values obtained by swapping the bytes of the opposite-endian array and relabelling the dtype
        return a.astype(dt.newbyteorder()).byteswap().view(dt) if dt.itemsize > 1 else a.copy()
    if layout == 'unaligned':
        buf = b'\xa5' + a.tobytes()
        return numpy.frombuffer(buf, dtype=dt, count=a.size, offset=1).reshape(shape)
    if layout == 'broadcast':
        return numpy.broadcast_to(numpy.array(vals[0], dtype=dt), shape)
    raise ValueError(layout)


def same_values(got, vals, kind):
    """exact comparison of stored data with the specification values (via the native encoding: distinguishes -0.0, exact ints)"""
    try:
        return spec_bytes(kind, got) == spec_bytes(kind, vals)
    except (struct.error, TypeError, OverflowError, AttributeError):
        return False


def rev_values(kind, s, vals):
    """the values whose encoding has, item by item, the reversed bytes of the encoding of `vals` (None if that is no proper value)"""
    if kind == 'b' or s == 1 or s > 8: return None
    if kind in 'iu': return [_revint(v, kind, s) for v in vals]
    if kind == 'f': out = [_revfloat(v, s) for v in vals]
    else:
        out = [(_revfloat(v.real, s), _revfloat(v.imag, s)) for v in vals]
        out = [None if None in v else complex(*v) for v in out]
    return None if None in out else out


def grid_cases(rng, nvec):
    """(dtype, kind, component size, extended, vector index, shape, values): every (kind, size) draws its vectors once and runs
    them under BOTH byte orders, each together with the byte-reversed sibling vector (same memory, other label)"""
    groups = {}
    for dts, kind, s, ext in dtype_grid():
        groups.setdefault((kind, s, ext), []).append(dts)
    for (kind, s, ext), dtss in groups.items():
        for ivec in range(nvec):
            shape = SHAPES[(ivec + rng.randrange(len(SHAPES))) % len(SHAPES)] if ivec else (3,)
            n = _prod(shape)
            if kind == 'b': vals = [rng.random() < .5 for _ in range(n)]
            elif kind in 'iu':
                pool = int_pool(rng, kind, s); vals = [rng.choice(pool) for _ in range(n)]
            elif kind == 'f':
                pool = float_pool(rng, s); vals = [rng.choice(pool) for _ in range(n)]
            else:
                pool = float_pool(rng, s); vals = [complex(rng.choice(pool), rng.choice(pool)) for _ in range(n)]
            if n and rng.random() < .15: vals = [vals[0]] * n
            sib = rev_values(kind, s, vals) if n else None
            for dts in dtss:
                yield dts, kind, s, ext, ivec, shape, vals
                if sib is not None and repr(sib) != repr(vals):
                    yield dts, kind, s, ext, ivec, shape, sib


def arraydata_grid(c, rng, nvec, evaluable=None):
    """returns the number of failures; registers cases/counters on `c`"""
    nb = 0
    seen = {}            # id(arraydata) -> (spec key, description); objects kept alive in `keep`
    by_hash = {}
    keep = []

    def fail(sig, what, rep):
        nonlocal nb
        nb += 1
        c.failing_input(sig, what, rep)

    for dts, kind, s, ext, ivec, shape, vals in grid_cases(rng, nvec):
        dt = numpy.dtype(dts)
        nonnative = dt.byteorder == SWAPPED
        n = _prod(shape)
        nk = NATIVE_TYPE[kind]
        representable = all(-2 ** 63 <= v < 2 ** 63 for v in vals) if kind in 'iu' else True
        lay = layouts_for(shape, vals)
        rng.shuffle(lay)
        for layout in (lay if ivec == 0 else lay[:3]):
            try:
                arr = build(dts, shape, vals, layout)
                flat = [] if ext or not n else arr.reshape(-1).tolist()
                ok_input = arr.dtype == dt and arr.shape == shape and (ext or (flat == vals and all(type(x) is type(y) for x, y in zip(flat, vals)) if kind in 'iub' else same_values(flat, vals, kind)))
            except Exception as e:
                raise Infra('arraydata grid: cannot build %s %s %s: %r' % (dts, shape, layout, e))
            if not ok_input:
                raise Infra('arraydata grid: generated array does not hold the intended values: %s %s %s %r' % (dts, shape, layout, vals))
            rep = dict(dtype=dts, shape=list(shape), layout=layout, values=repr(vals)[:400],
                       build='numpy.array(values, dtype=%r).reshape(shape) in layout %s; types.arraydata(arr)' % (dts, layout))
            try:
                ad = T.arraydata(arr); out = 'ok'
            except ValueError:
                ad = None; out = 'ValueError'
            except Exception as e:
                ad = None; out = 'exc:' + type(e).__name__
            c.case(('adgrid', dts, shape, layout, repr(vals)), nontrivial=n > 0)
            c.count('adgrid:%s:%s' % (dts, out)); c.count('adgrid-layout:' + layout)
            if nonnative and s == numpy.dtype(nk).itemsize // (2 if kind == 'c' else 1): c.count('adgrid:native-size-foreign-endian')
            if not representable:
                if out == 'ok':
                    stored = numpy.asarray(ad).reshape(-1).tolist()
                    if not same_values(stored, vals, kind):
                        fail('arraydata-changes-values', 'arraydata accepts integers outside the native range and holds other values', dict(rep, stored=repr(stored)[:300]))
                elif out != 'ValueError':
                    fail('arraydata-raises:' + out, 'arraydata raises %s instead of ValueError on data that does not fit the native dtype' % out, rep)
                continue
            if out != 'ok':
                fail('arraydata-rejects-exact-data:' + kind, 'arraydata raises %s on data that the native dtype represents exactly' % out, rep); continue
            keep.append(ad)
            stored = numpy.asarray(ad).reshape(-1).tolist()
            want = spec_bytes(kind, vals)
            if ad.dtype is not nk or tuple(ad.shape) != tuple(shape):
                fail('arraydata-not-canonical:' + kind, 'arraydata does not store the native dtype / the shape of its source', dict(rep, stored_dtype=repr(ad.dtype), stored_shape=repr(ad.shape)))
            elif not same_values(stored, vals, kind) or ad.bytes != want:
                fail('arraydata-changes-values', 'arraydata holds other values than the array it was built from', dict(rep, stored=repr(stored)[:300], bytes=ad.bytes.hex()[:200], expected_bytes=want.hex()[:200]))
            # identity with the canonical construction (native array, and nested list where NumPy infers the native dtype)
            can = T.arraydata(numpy.frombuffer(want, dtype=nk).reshape(shape))
            keep.append(can)
            h, hc = real_hash(ad), real_hash(can)
            if can is not ad or h != hc or not h.startswith('ok'):
                fail('arraydata-representation-dependent:' + kind, 'arraydata of the same values in another memory representation (dtype width / byte order / layout) is a different object or has a different hash than the canonical construction',
                     dict(rep, same_object=can is ad, hash=h, hash_canonical=hc))
            if n and rng.random() < .3:
                rs = (n,) if len(shape) != 1 else (1, n)
                try:
                    r1 = ad.reshape(*rs); r2 = T.arraydata(numpy.frombuffer(want, dtype=nk).reshape(rs))
                    if r1 is not r2 or real_hash(r1) != real_hash(r2):
                        fail('arraydata-representation-dependent:reshape', 'arraydata(a).reshape(s) is not arraydata(a.reshape(s))', dict(rep, newshape=list(rs)))
                except Exception as e:
                    fail('arraydata-raises:reshape', 'arraydata.reshape raises %s' % type(e).__name__, dict(rep, newshape=list(rs)))
            if T.arraydata(ad) is not ad:
                fail('arraydata-representation-dependent:idempotent', 'arraydata(arraydata(a)) is not arraydata(a)', rep)
            if evaluable is not None and rng.random() < .15:
                try:
                    e1 = evaluable.constant(arr); e2 = evaluable.constant(numpy.frombuffer(want, dtype=nk).reshape(shape))
                    bad = e1 is not e2 or real_hash(e1) != real_hash(e2)
                    val = numpy.asarray(e1.value).reshape(-1).tolist()
                    bad |= not same_values(val, vals, kind)
                    c.count('adgrid:evaluable.constant')
                except Exception as e:
                    bad = True; val = repr(e)
                if bad:
                    fail('arraydata-representation-dependent:evaluable.constant', 'evaluable.constant of the same values in another memory representation is a different evaluable / evaluates to other values', dict(rep, evaluated=repr(val)[:300]))
            # injectivity over the whole grid: different (kind, shape, values) never share the object or the hash
            sk = (nk.__name__, tuple(shape), want)
            old = seen.setdefault(id(ad), (sk, rep))
            if old[0] != sk:
                fail('collision:arraydata', 'two arrays with different values / shapes / kinds give the same arraydata object', dict(a=old[1], b=rep))
            oldh = by_hash.setdefault(h, (sk, rep))
            if oldh[0] != sk:
                fail('collision:arraydata', 'two arrays with different values / shapes / kinds give arraydata with the same nutils hash', dict(a=oldh[1], b=rep, hash=h))
    for dts, kind, s, ext in dtype_grid():
        dt = numpy.dtype(dts)
        if ext:
            # extended precision: a value that double cannot hold must be refused, never silently rounded
            x = numpy.array([1], dtype=dt) + numpy.array([2.0 ** -60], dtype=dt)
            if (x.astype('=f8' if kind == 'f' else '=c16').astype(dt) != x).any():
                try:
                    ad = T.arraydata(x); out = 'ok'
                except ValueError: out = 'ValueError'
                except Exception as e: out = 'exc:' + type(e).__name__
                c.count('adgrid:%s:inexact:%s' % (dts, out))
                if out == 'ok':
                    fail('arraydata-changes-values', 'arraydata silently rounds extended-precision data', dict(dtype=dts, values='1 + 2**-60'))
    c.count('adgrid:distinct-containers', len(seen))
    return nb


# ================================================================ signature grid

_GEN = {}


def make_class(kind, npk, ndef, var, ko, varkw):
    """kind: 'Immutable' | 'Singleton'; npk positional-or-keyword parameters, the last ndef with defaults; var: *rest;
    ko: tuple of booleans (has default) for the keyword-only parameters; varkw: **opts.  Classes are cached and
    registered in this module (so that they can be pickled)."""
    sigkey = (kind, npk, ndef, var, tuple(ko), varkw)
    if sigkey in _GEN: return _GEN[sigkey]
    pk = ['p%d' % i for i in range(npk)]
    kon = ['k%d' % i for i in range(len(ko))]
    params = ['self'] + [n if i < npk - ndef else '%s=%d' % (n, 70 + i) for i, n in enumerate(pk)]
    if var: params.append('*rest')
    elif ko: params.append('*')
    params += [n if not d else '%s=%d' % (n, 80 + i) for i, (n, d) in enumerate(zip(kon, ko))]
    if varkw: params.append('**opts')
    body = 'self.seen = ((%s), %s, {%s}, %s)' % (''.join(n + ', ' for n in pk), 'tuple(rest)' if var else '()', ', '.join('%r: %s' % (n, n) for n in kon), 'dict(opts)' if varkw else '{}')
    ns = {}
    exec('def __init__(%s):\n    %s\n' % (', '.join(params), body), ns)
    name = 'Gen%s_%d%d%d_%s_%d' % (kind[:3], npk, ndef, int(var), ''.join('d' if d else 'r' for d in ko) or 'x', int(varkw))
    meta, base = (T.ImmutableMeta, T.Immutable) if kind == 'Immutable' else (T.SingletonMeta, T.Singleton)
    cls = meta(name, (base,), {'__init__': ns['__init__'], '__qualname__': name, '__module__': __name__})
    cls.sig = dict(pk=pk, defaults={n: 70 + i for i, n in enumerate(pk) if i >= npk - ndef}, var=var, ko=kon,
                   kodefaults={n: 80 + i for i, (n, d) in enumerate(zip(kon, ko)) if d}, varkw=varkw, src=', '.join(params))
    globals()[name] = cls
    _GEN[sigkey] = cls
    return cls


def all_signatures():
    out = []
    for npk in (0, 1, 2, 3):
        for ndef in range(0, npk + 1):
            for var in (False, True):
                for ko in ((), (False,), (True,), (False, True), (True, False), (True, True), (False, False, True)):
                    for varkw in (False, True):
                        if npk + len(ko) + var + varkw == 0: continue
                        out.append((npk, ndef, var, ko, varkw))
    return out


# values for which Python equality is the intended identification (no 1 / True / 1.0 conflation: see the open finding
# intern-key-python-equality, which is explored by its own stream)
def gen_plain(rng, depth=1):
    r = rng.random()
    if r < .35: return rng.randint(2, 60)
    if r < .55: return rng.choice(['s', 't', 'uv', '', 'k0', 'p0', 'opts', 'rest', 'x'])
    if r < .65: return rng.randint(2, 40) + .5
    if r < .7: return None
    if r < .75: return rng.choice([b'a', b''])
    if depth <= 0: return rng.randint(61, 69)
    if r < .9: return tuple(gen_plain(rng, depth - 1) for _ in range(rng.choice([0, 1, 2, 2, 3])))
    if r < .95: return frozenset(gen_plain(rng, 0) for _ in range(rng.choice([0, 1, 2, 3])))
    return T.frozendict({gen_plain(rng, 0): gen_plain(rng, 0) for _ in range(rng.choice([1, 2]))})


# names of the extra keywords: they sort before, between and after the declared names k0.. / p0..
EXTRA_NAMES = ['a', 'b', 'k', 'k00', 'k1x', 'm', 'p', 'p00', 'q', 'z', 'A', '_', 'rest_', 'self_', 'opt', 'é']


def gen_assignment(rng, cls):
    s = cls.sig
    A = dict(pk={}, rest=(), ko={}, extra={})
    for n in s['pk']:
        A['pk'][n] = s['defaults'][n] if n in s['defaults'] and rng.random() < .4 else gen_plain(rng)
    if s['var'] and rng.random() < .6:
        A['rest'] = tuple(gen_plain(rng) for _ in range(rng.choice([1, 1, 2, 3])))
    for n in s['ko']:
        A['ko'][n] = s['kodefaults'][n] if n in s['kodefaults'] and rng.random() < .4 else gen_plain(rng)
    if s['varkw']:
        for n in rng.sample(EXTRA_NAMES, rng.choice([0, 1, 2, 2, 3, 3, 4, 5])):
            A['extra'][n] = gen_plain(rng)
    return A


def expected_seen(cls, A):
    s = cls.sig
    return (tuple(A['pk'][n] for n in s['pk']), tuple(A['rest']), dict(A['ko']), dict(A['extra']))


def akey(A):
    """assignments are equal iff these are equal (values are `gen_plain` values: repr is faithful, sets sorted)"""
    def k(v):
        if isinstance(v, tuple): return ('t',) + tuple(k(x) for x in v)
        if isinstance(v, frozenset): return ('fs',) + tuple(sorted(map(repr, map(k, v))))
        if isinstance(v, T.frozendict): return ('fd',) + tuple(sorted(repr((k(a), k(b))) for a, b in v.items()))
        return (type(v).__name__, repr(v))
    return repr((sorted((n, k(v)) for n, v in A['pk'].items()), k(tuple(A['rest'])), sorted((n, k(v)) for n, v in A['ko'].items()), sorted((n, k(v)) for n, v in A['extra'].items())))


def spellings(rng, cls, A, nmax):
    """call spellings (pos, ordered keyword items, description) of one assignment; the first one is the explicit reference"""
    s = cls.sig
    pk = s['pk']
    out = []
    ref_kw = [(n, A['ko'][n]) for n in s['ko']] + sorted(A['extra'].items())
    out.append(([A['pk'][n] for n in pk] + list(A['rest']), ref_kw, 'reference'))
    # minimal number of leading positionals: all of them when *rest is used
    lo = len(pk) if A['rest'] else 0
    cand = []
    for npos in range(lo, len(pk) + 1):
        pos = [A['pk'][n] for n in pk[:npos]] + (list(A['rest']) if npos == len(pk) else [])
        tail = pk[npos:]
        # defaulted parameters may be left out when they carry their default (only a suffix of the positional ones can be omitted positionally,
        # keywords can be omitted individually)
        opt = [n for n in tail if n in s['defaults'] and A['pk'][n] == s['defaults'][n] and type(A['pk'][n]) is int]
        kopt = [n for n in s['ko'] if n in s['kodefaults'] and A['ko'][n] == s['kodefaults'][n] and type(A['ko'][n]) is int]
        for _ in range(3):
            omit = {n for n in opt + kopt if rng.random() < .5}
            kw = [(n, A['pk'][n]) for n in tail if n not in omit] + [(n, A['ko'][n]) for n in s['ko'] if n not in omit] + list(A['extra'].items())
            cand.append((pos, kw, 'npos=%d omit=%s' % (npos, sorted(omit))))
        # trailing defaulted positionals omitted
        if npos and not A['rest'] and all(n in opt for n in tail):
            kw = [(n, A['ko'][n]) for n in s['ko']] + list(A['extra'].items())
            cand.append((pos, kw, 'npos=%d tail-defaults-omitted' % npos))
    rng.shuffle(cand)
    for pos, kw, d in cand[:max(2, nmax // 3)]:
        if len(kw) <= 3:
            perms = list(itertools.permutations(kw))
        else:
            perms = [tuple(kw), tuple(kw[::-1]), tuple(sorted(kw, key=lambda i: i[0])), tuple(sorted(kw, key=lambda i: i[0], reverse=True))]
            for _ in range(3):
                p = list(kw); rng.shuffle(p); perms.append(tuple(p))
        rng.shuffle(perms)
        for p in perms[:max(2, nmax // 2)]:
            out.append((pos, list(p), d + ' kworder=' + ','.join(n for n, _ in p)))
    return out[:1] + out[1:][:nmax]


def mutate_assignment(rng, cls, A):
    """a different assignment of the same class (None if there is none of the chosen form)"""
    import copy
    B = dict(pk=dict(A['pk']), rest=tuple(A['rest']), ko=dict(A['ko']), extra=dict(A['extra']))
    slots = [('pk', n) for n in B['pk']] + [('ko', n) for n in B['ko']] + [('extra', n) for n in B['extra']]
    r = rng.random()
    if r < .3 and len(slots) >= 2:
        (g1, n1), (g2, n2) = rng.sample(slots, 2)
        B[g1][n1], B[g2][n2] = A[g2][n2], A[g1][n1]                          # swap two values
    elif r < .45 and B['extra']:
        n = rng.choice(sorted(B['extra'])); v = B['extra'].pop(n)
        free = [m for m in EXTRA_NAMES if m not in A['extra']]
        B['extra'][rng.choice(free)] = v                                      # rename an extra keyword
    elif r < .55 and B['extra']:
        B['extra'].pop(rng.choice(sorted(B['extra'])))                        # drop an extra keyword
    elif r < .65 and cls.sig['varkw']:
        free = [m for m in EXTRA_NAMES if m not in A['extra']]
        B['extra'][rng.choice(free)] = gen_plain(rng)                         # add one
    elif r < .75 and len(B['extra']) >= 2:
        ks = sorted(B['extra']); vs = [B['extra'][k] for k in ks]
        B['extra'] = dict(zip(ks, vs[1:] + vs[:1]))                           # rotate the values under the same keys
    elif r < .85 and cls.sig['var']:
        B['rest'] = tuple(A['rest'][:-1]) if A['rest'] and rng.random() < .5 else tuple(A['rest']) + (gen_plain(rng),)
    elif slots:
        g, n = rng.choice(slots); B[g][n] = gen_plain(rng)
    else:
        return None
    return None if akey(B) == akey(A) else B


def call(cls, pos, kw):
    return cls(*pos, **dict(kw))


def signature_grid(c, rng, nsig, nassign, nspell):
    nb = 0
    sigs = all_signatures()
    # always: the signatures with **kwargs or keyword-only parameters are the majority; sample uniformly without replacement
    rng.shuffle(sigs)
    chosen = sigs[:nsig]
    for isig, (npk, ndef, var, ko, varkw) in enumerate(chosen):
        kind = 'Singleton' if (isig + rng.randrange(2)) % 2 else 'Immutable'
        try:
            cls = make_class(kind, npk, ndef, var, ko, varkw)
        except Exception as e:
            nb += 1
            c.failing_input('immutable-class-definition-raises', 'defining an Immutable/Singleton subclass raises %s' % type(e).__name__, dict(kind=kind, signature=(npk, ndef, var, ko, varkw), error=repr(e)[:300]))
            continue
        c.count('siggrid:class:' + kind)
        c.count('siggrid:sig:%s%s%s%s' % ('P' if npk else '', 'V' if var else '', 'K' if ko else '', 'W' if varkw else ''))
        for _ in range(nassign):
            A = gen_assignment(rng, cls)
            sp = spellings(rng, cls, A, nspell)
            want = expected_seen(cls, A)
            objs = []
            for pos, kw, desc in sp:
                rep = dict(cls_kind=kind, init='def __init__(%s)' % cls.sig['src'], pos=repr(pos)[:300], keywords=repr(kw)[:400], spelling=desc,
                           reference='positional %r keywords %r' % (sp[0][0], sp[0][1]))
                c.case(('sig', cls.__name__, desc, akey(A)), nontrivial=len(kw) >= 2)
                c.count('siggrid:spelling'); c.count('siggrid:nkw=%d' % min(len(kw), 6))
                try:
                    o = call(cls, pos, kw)
                except Exception as e:
                    nb += 1
                    c.failing_input('route-rejected:' + kind, 'a valid spelling of a constructor call is rejected: %r' % e, rep); continue
                objs.append(o)
                ref = objs[0]
                if o.seen != want or [type(x) for x in o.seen[0]] != [type(x) for x in want[0]]:
                    nb += 1
                    c.failing_input('init-sees-other-arguments:' + kind, '__init__ receives other arguments than the call assigned', dict(rep, seen=repr(o.seen)[:400], expected=repr(want)[:400])); continue
                if o is ref and len(objs) > 1 and kind == 'Immutable':
                    pass
                h1, h2 = real_hash(ref), real_hash(o)
                bad = h1 != h2 or not h1.startswith('ok')
                bad |= not (ref == o and o == ref and hash(ref) == hash(o) and ref._args == o._args)
                if kind == 'Singleton': bad |= o is not ref
                if bad:
                    nb += 1
                    c.failing_input('route-dependent:' + kind, 'two spellings of the same constructor call (positional/keyword split, defaults, keyword order) give a different value / hash / object',
                                    dict(rep, same_object=o is ref, equal=bool(ref == o), args_ref=repr(ref._args)[:300], args=repr(o._args)[:300], h_ref=h1, h=h2))
                    continue
            if len(objs) >= 2 and rng.random() < .5:
                o = objs[-1]; ref = objs[0]
                try:
                    w = pickle.loads(pickle.dumps(o)); err = None
                except Exception as e:
                    w = None; err = repr(e)
                c.count('siggrid:pickle')
                if err is not None or not (w == ref and real_hash(w) == real_hash(ref) and w.seen == want) or (kind == 'Singleton' and w is not ref):
                    nb += 1
                    c.failing_input(('pickle-breaks-interning:' if kind == 'Singleton' else 'pickle-changes-value:') + kind, 'a pickle round trip of one spelling is not the (live) value of the reference spelling',
                                    dict(cls_kind=kind, init='def __init__(%s)' % cls.sig['src'], spelling=sp[-1][2], error=err))
            # injectivity: a different assignment is a different value with a different hash
            if objs:
                for _ in range(2):
                    B = mutate_assignment(rng, cls, A)
                    if B is None: continue
                    spb = spellings(rng, cls, B, 2)
                    pos, kw, desc = spb[-1]
                    try:
                        ob = call(cls, pos, kw)
                    except Exception as e:
                        nb += 1
                        c.failing_input('route-rejected:' + kind, 'a valid constructor call is rejected: %r' % e, dict(cls_kind=kind, init=cls.sig['src'], pos=repr(pos), keywords=repr(kw))); continue
                    c.count('siggrid:distinct-pair')
                    ref = objs[0]
                    if ob is ref or ob == ref or real_hash(ob) == real_hash(ref):
                        nb += 1
                        c.failing_input('collision:immutable-arguments', 'two different argument assignments of one class give the same object / equal values / the same nutils hash',
                                        dict(cls_kind=kind, init='def __init__(%s)' % cls.sig['src'], a='positional %r keywords %r' % (sp[0][0], sp[0][1]), b='positional %r keywords %r' % (pos, kw)))
            del objs
    return nb


# ================================================================ cache.function with **kwargs

def cache_kwargs_routes(c, rng, n, scratch):
    from nutils import cache as ncache
    nb = 0
    calls = []

    @ncache.function
    def g(p0, p1=7, *, k0=None, k1=1, **opts):
        calls.append((p0, p1, k0, k1, dict(opts)))
        return len(calls)

    @ncache.function
    def gv(p0, *rest, k0=2, **opts):
        calls.append((p0, rest, k0, dict(opts)))
        return len(calls)

    d = os.path.join(scratch, 'c17cachekw'); os.makedirs(d, exist_ok=True)
    for i in range(n):
        f = rng.choice([g, gv])
        a = gen_plain(rng)
        extra = {nm: gen_plain(rng) for nm in rng.sample(EXTRA_NAMES, rng.choice([1, 2, 3, 4]))}
        named = {'k0': gen_plain(rng)}
        if f is g and rng.random() < .6: named['k1'] = gen_plain(rng)
        if f is g and rng.random() < .4: named['p1'] = gen_plain(rng)
        items = list(named.items()) + list(extra.items())
        p1 = list(items); p2 = list(items)
        for _ in range(5):
            rng.shuffle(p2)
            if p2 != p1: break
        # a different assignment: values of two keywords exchanged / one key renamed
        q = dict(items)
        ks = sorted(q)
        if len(ks) >= 2 and repr(q[ks[0]]) != repr(q[ks[1]]) and rng.random() < .6: q[ks[0]], q[ks[1]] = q[ks[1]], q[ks[0]]
        else:
            nm = sorted(extra)[0]; q['zz_' + nm] = q.pop(nm)
        sub = os.path.join(d, '%d' % i); os.makedirs(sub)
        rep = dict(function='g(p0, p1=7, *, k0=None, k1=1, **opts)' if f is g else 'gv(p0, *rest, k0=2, **opts)', p0=repr(a), keywords_1=repr(p1)[:300], keywords_2=repr(p2)[:300], other_assignment=repr(q)[:300])
        try:
            with ncache.caching(cache=True, cachedir=sub):
                n0 = len(calls); r1 = f(a, **dict(p1)); n1 = len(calls); r2 = f(a, **dict(p2)); n2 = len(calls)
                files2 = sorted(x for x in os.listdir(sub) if not x.startswith('.'))
                r3 = f(a, **q); n3 = len(calls)
                files3 = sorted(x for x in os.listdir(sub) if not x.startswith('.'))
        except Exception as e:
            nb += 1
            c.failing_input('cache-function-raises', 'cache.function raises %s on a call with keyword arguments' % type(e).__name__, dict(rep, error=repr(e)[:300])); continue
        c.case(('ckw', f.__name__, repr(a), repr(p1), repr(p2)), nontrivial=True); c.count('ckey-kwargs')
        if n1 != n0 + 1:
            nb += 1; c.failing_input('cache-function-does-not-call', 'first call with caching enabled did not run the function once', rep)
        elif n2 != n1 or r2 != r1 or len(files2) != 1:
            nb += 1; c.failing_input('cache-key-keyword-order-dependent', 'the same call with the keywords in another order is not served from the cache entry of the first call', dict(rep, files=files2))
        elif n3 != n2 + 1 or len(files3) != 2:
            nb += 1; c.failing_input('cache-key-collision:keywords', 'a call with a different keyword assignment is served from the cache entry of another call', dict(rep, files=files3))
    return nb
