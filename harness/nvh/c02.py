"""C02 — optimised code generation is a faithful translation of the expression.

Three ties to the source, all on REAL output of `nutils.evaluable.compile`:

(M-eval)   the property's oracle.  Programs (random DAGs from nvh.genexpr, nested tuples sharing subterms and
           loops, and a deliberately enumerated catalogue of program shapes that force every branch of the
           in-place protocol) are compiled with the real `evaluable.compile` under every compile configuration
           (_simplify x _optimize x cache_const_intermediates x stats x maxprocs) and run on dyadic arguments;
           structure, shapes, dtypes and values are compared with the Lean specification evaluator
           (Model/Expr.lean, driver Expr) applied to the UN-simplified, UN-optimised tree.  `numpy.empty` is
           replaced (in the globals of the generated function only) by a sentinel-filled allocation so that a
           cell that is never written shows up as a wrong value.
(V-opt)    validation of the numpy-optimisation pass for all real arguments: (e, optimised e) pairs — whole
           programs and one minimal instance per `_optimized_for_numpy` rule — are compared symbolically in Lean.
(X-script) static translation validation: every captured script is parsed with `ast` into the statement language
           of Model/C02.lean and the Lean checker (driver C02) decides the well-formedness predicates about which
           Props/C02.lean proves `initialised_before_use_sound` etc.
(M-core)   the verified model `compileCore` of the in-place protocol is compared, accumulator trace by
           accumulator trace, with the real scripts of tree programs of its sub-language.
(streams)  nvh.c02_enum, in worker processes started before anything else: (E) every operator sequence (up to a theme
           specific length) over the vocabularies of the optimisation pass / the in-place protocol, compiled without
           rewriting, with the optimisation pass alone and with both passes; (P) programs with loops — in particular
           with arrays that can only be allocated after an earlier loop — with forked outer loops under a schedule in
           which the parent takes no iteration; (S) a static rule on every script with forked loops (accumulators
           shared and locked).  Candidates of the workers are decided here by the Lean specification evaluator.
"""
import base64, pickle, numpy, collections, itertools, json, ast, re, threading, time, warnings
from nutils import evaluable as ev, types, parallel, _util
from . import genexpr, ser, shrink, exprcheck as X, c02_enum
from .common import Infra

warnings.simplefilter('ignore')

KIND = {bool: 'b', int: 'i', float: 'f', complex: 'c'}
INT_SENTINEL = -0x3b3b3b3b     # negative: a garbage value used as a length fails fast instead of allocating gigabytes


# ======================================================================================= capture of scripts

class _Sentinel:
    """numpy / parallel stand-ins handed to the generated function: identical to the real modules except that
    freshly allocated `empty` arrays are filled with a sentinel (nan / large int / True)."""

    def __init__(self, mod, names, overrides=None):
        self._mod = mod
        self._names = names
        self._overrides = overrides or {}

    def __getattr__(self, name):
        if name in self._overrides:
            return self._overrides[name]
        v = getattr(self._mod, name)
        if name in self._names:
            def alloc(shape, *a, **kw):
                n = 1
                for k in (shape if isinstance(shape, (tuple, list)) else (shape,)):
                    n *= max(int(k), 0)
                if n > 5_000_000:
                    raise MemoryError('generated script allocates an array of %d entries' % n)
                arr = v(shape, *a, **kw)
                k = arr.dtype.kind
                if arr.size:
                    arr.fill(numpy.nan if k in 'fc' else True if k == 'b' else INT_SENTINEL)
                return arr
            return alloc
        return v


class Capture:
    """wraps nutils._util.function (== evaluable.util.function) in the harness process; records every script"""

    def __init__(self, sentinel=True, sched='free'):
        self.scripts = []
        self.globals = []
        self.sentinel = sentinel
        self.sched = sched

    def __enter__(self):
        self._orig = _util.function
        def function(script, globals={}):
            self.scripts.append(script)
            self.globals.append(dict(globals))
            g = dict(globals)
            if self.sentinel:
                if 'numpy' in g: g['numpy'] = _Sentinel(g['numpy'], ('empty',))
                if 'parallel' in g: g['parallel'] = _Sentinel(g['parallel'], ('shempty',))
            if self.sched == 'starved' and 'parallel' in g:
                # adversarial but legal schedule of the forked outer loops: the parent takes no iteration before the children are done
                from . import c02_enum
                g['parallel'] = _Sentinel(globals['parallel'], ('shempty',) if self.sentinel else (), dict(ctxrange=c02_enum.starved_ctxrange(globals['parallel'])))
            return self._orig(script, g)
        _util.function = function
        assert ev.util is _util
        return self

    def __exit__(self, *exc):
        _util.function = self._orig


# ======================================================================================= configurations

Config = collections.namedtuple('Config', 'simplify optimize cache stats maxprocs sched', defaults=('free',))
STATS = (None, False, 'log')


def all_configs():
    return [Config(s, o, c, st, m) for s in (False, True) for o in (False, True) for c in (False, True) for st in STATS for m in (1, 2)]


def cfg_name(cfg):
    return 's%d-o%d-c%d-%s-p%d%s' % (cfg.simplify, cfg.optimize, cfg.cache, {None: 'none', False: 'off', 'log': 'log'}[cfg.stats], cfg.maxprocs, '' if cfg.sched == 'free' else '-' + cfg.sched)


BASE = Config(False, False, False, False, 1)


def run_config(funcs, args_list, cfg, timeout=30, sentinel=True):
    """compile `funcs` (array or nested tuple) with the real compile() and call it on every args of args_list.
    returns (kind, values, scripts, globals): kind 'ok' -> values = list of results; 'exception'/'hang' -> values = exc"""
    import treelog
    with Capture(sentinel, cfg.sched) as cap:
        def go():
            with treelog.set(treelog.NullLog()), parallel.maxprocs(cfg.maxprocs), numpy.errstate(all='ignore'):
                f = ev.compile(funcs, stats=cfg.stats, cache_const_intermediates=cfg.cache, _simplify=cfg.simplify, _optimize=cfg.optimize)
                return [f(a) for a in args_list]
        kind, val = X.guarded(go, timeout)
    return kind, val, cap.scripts, cap.globals


# ======================================================================================= comparison with the spec

def flatten(struct):
    """nested tuple/list of arrays -> (format tree, flat list)"""
    flat = []
    def go(o):
        if isinstance(o, (tuple, list)):
            return tuple(go(x) for x in o)
        flat.append(o)
        return '*'
    return go(struct), flat


def same_structure(fmt, val):
    if fmt == '*':
        return not isinstance(val, (tuple, list))
    return isinstance(val, tuple) and len(val) == len(fmt) and all(same_structure(f, v) for f, v in zip(fmt, val))


def compare_with_spec(funcs, lean_results, value):
    """-> list of problems (empty = agrees); lean_results: one Lean result object per flat array of funcs"""
    fmt, flat = flatten(funcs)
    if not same_structure(fmt, value):
        return ['structure']
    _, vals = flatten(value)
    bad = []
    for i, (e, res, v) in enumerate(zip(flat, lean_results, vals)):
        v = numpy.asarray(v)
        if v.dtype.kind != KIND[e.dtype]:
            bad.append('dtype[%d]:%s' % (i, v.dtype))
            continue
        if e.dtype == bool and 'data' in res:
            # the specification evaluator computes Add / Sum of booleans numerically; a boolean array denotes the truth values
            res = dict(res, data=[k if not re.fullmatch(r'-?\d+(/\d+)?', k) else '0' if k == '0' else '1' for k in res['data']])
        m = X.compare_result(res, v)
        if m not in ('exact', 'close'):
            bad.append('%s[%d]' % (m, i))
    return bad


def spec_status(lean_results):
    """'ok' when every root has a value; otherwise the first error kind"""
    for r in lean_results:
        if 'error' in r:
            return r['error']
    return 'ok'


def pack(funcs, args_list):
    return base64.b64encode(pickle.dumps((funcs, args_list))).decode()


# ======================================================================================= branch-hit instrumentation

INPLACE_CLASSES = ('Add', 'Inflate', 'Assemble', 'Diagonalize', 'Transpose', 'LoopSum', 'LoopConcatenate')
EXPECTED_BRANCHES = (
    [('cwo:%s:%s' % (cls, mode)) for cls in INPLACE_CLASSES for mode in ('assign', 'iadd')] +
    ['cwo:LoopSum:NotImplemented', 'cwo:LoopConcatenate:NotImplemented',
     'gate:inplace', 'gate:ndependents>1', 'gate:block<out_block', 'gate:no-inplace-protocol',
     'fallback:assign', 'fallback:iadd', 'fallback:in-loop', 'fallback:outside-loop',
     'Add._compile:inplace', 'Add._compile:plain',
     'alloc:outside-loop', 'alloc:inside-loop', 'alloc:outside-loop-for-array-inside-loop', 'alloc:shared',
     'zero:block0', 'zero:in-loop', 'stmt:inner-loop-block', 'stmt:outer-loop-block',
     'loops:merged-same-id', 'loops:adjacent', 'loops:nested', 'loops:dependent-shape',
     'rerun:blocks-skipped', 'parallel:ctxrange'])


class Hits:
    """wraps the in-place protocol methods of the real code (in this process only) and counts branches"""

    def __init__(self):
        self.n = collections.Counter()
        self.blockof = []      # (block ids of the dependencies, block id) for every get_block_id computation
        self._saved = []

    def _patch(self, obj, name, new):
        self._saved.append((obj, name, obj.__dict__[name]))
        setattr(obj, name, new)

    def __enter__(self):
        hits = self.n
        for clsname in INPLACE_CLASSES:
            cls = getattr(ev, clsname)
            orig = cls.__dict__['_compile_with_out']
            def wrapped(self, builder, out, out_block_id, mode, _orig=orig, _name=clsname):
                r = _orig(self, builder, out, out_block_id, mode)
                hits['cwo:%s:%s' % (_name, 'NotImplemented' if r is NotImplemented else mode)] += 1
                return r
            self._patch(cls, '_compile_with_out', wrapped)
        B = ev._BlockTreeBuilder
        orig_cwo = B.__dict__['compile_with_out']
        def compile_with_out(self, evaluable, out, out_block_id, mode):
            bid = self.get_block_id(evaluable)
            if self.ndependents[evaluable] > 1:
                gate = 'ndependents>1'
            elif bid < out_block_id:
                gate = 'block<out_block'
            elif type(evaluable)._compile_with_out is ev.Array._compile_with_out:
                gate = 'no-inplace-protocol'
            else:
                gate = 'inplace'   # may still end in NotImplemented (counted per class)
            hits['gate:' + gate] += 1
            if gate != 'inplace':
                hits['fallback:' + mode] += 1
                hits['fallback:in-loop' if len(max(bid, out_block_id)) > 1 else 'fallback:outside-loop'] += 1
            return orig_cwo(self, evaluable, out, out_block_id, mode)
        self._patch(B, 'compile_with_out', compile_with_out)
        orig_new = B.__dict__['new_empty_array_for_evaluable']
        def new_empty(self, array):
            out, out_block_id = orig_new(self, array)
            alloc = max(map(self.get_block_id, array.shape)) if array.ndim else (0,)
            hits['alloc:inside-loop' if len(alloc) > 1 else 'alloc:outside-loop-for-array-inside-loop' if len(out_block_id) > 1 else 'alloc:outside-loop'] += 1
            hits['zero:in-loop' if len(out_block_id) > 1 else 'zero:block0'] += 1
            if out in self._shared_arrays:
                hits['alloc:shared'] += 1
            return out, out_block_id
        self._patch(B, 'new_empty_array_for_evaluable', new_empty)
        orig_add = ev.Add.__dict__['_compile']
        def add_compile(self, builder):
            inplace = any(builder.ndependents[func] == 1 and type(func)._compile_with_out != ev.Array._compile_with_out for func in self.funcs)
            hits['Add._compile:inplace' if inplace else 'Add._compile:plain'] += 1
            return orig_add(self, builder)
        self._patch(ev.Add, '_compile', add_compile)
        orig_dl = ev._define_loop_block_structure
        def define_loops(targets):
            res = orig_dl(targets)
            loops = ev.util.IDSet()
            for t in res: loops |= t._loops
            ids = [l.loop_id for l in loops]
            if len(set(ids)) < len(ids): hits['loops:merged-same-id'] += 1
            if any(isinstance(l, ev.LoopConcatenate) and not l.func.shape[-1].isconstant for l in loops): hits['loops:dependent-shape'] += 1
            return res
        self._saved.append((ev, '_define_loop_block_structure', orig_dl))
        ev._define_loop_block_structure = define_loops
        orig_gbi = B.__dict__['get_block_id']
        blockof = self.blockof
        def get_block_id(self, evaluable):
            fresh = self._evaluable_block_ids.get(evaluable) is None
            bid = orig_gbi(self, evaluable)
            if fresh and evaluable.dependencies and len(blockof) < 200000:
                blockof.append((tuple(tuple(self._evaluable_block_ids[d]) for d in evaluable.dependencies), tuple(bid)))
            return bid
        self._patch(B, 'get_block_id', get_block_id)
        orig_gb = B.__dict__['get_block_for_evaluable']
        def get_block_for_evaluable(self, evaluable, *, block_id=None, comment=''):
            bid = self.get_block_id(evaluable) if block_id is None else block_id
            if len(bid) > 2: hits['stmt:inner-loop-block'] += 1
            elif len(bid) == 2: hits['stmt:outer-loop-block'] += 1
            return orig_gb(self, evaluable, block_id=block_id, comment=comment)
        self._patch(B, 'get_block_for_evaluable', get_block_for_evaluable)
        return self

    def __exit__(self, *exc):
        for obj, name, old in reversed(self._saved):
            setattr(obj, name, old)


def script_features(script, hits):
    """structural features of a generated script (counted into the branch table)"""
    loops = re.findall(r"'loop ([0-9,]+)'", script)
    ids = [tuple(int(x) for x in l.split(',')) for l in loops]
    if any(len(i) > 1 for i in ids): hits['loops:nested'] += 1
    tops = [i for i in ids if len(i) == 1]
    if len(tops) > 1: hits['loops:adjacent'] += 1
    if 'parallel.ctxrange' in script: hits['parallel:ctxrange'] += 1
    if re.search(r'^\s+else:\s*$', script, re.M): hits['rerun:else-branch'] += 1


# ======================================================================================= program catalogue

class Builder:
    """collects dyadic argument values for hand-built programs"""

    def __init__(self, rng):
        self.rng = rng
        self.args = {}
        self.n = itertools.count()
        self.nl = itertools.count()

    def val(self, shape, dtype=float, lo=-3, hi=3):
        r = numpy.random.default_rng(self.rng.getrandbits(32))
        if dtype == bool:
            return r.integers(0, 2, shape).astype(bool)
        if dtype == int:
            return r.integers(lo, hi+1, shape)
        return r.integers(-8, 9, shape) / self.rng.choice([1., 2., 4.])

    def arg(self, *shape, dtype=float, lo=-3, hi=3):
        name = 'x%d' % next(self.n)
        self.args[name] = self.val(shape, dtype, lo, hi)
        return ev.Argument(name, tuple(ev.constant(int(n)) for n in shape), dtype)

    def const(self, *shape, dtype=float, lo=-3, hi=3):
        return ev.Constant(types.arraydata(self.val(shape, dtype, lo, hi)))

    def perm(self, n):
        p = list(range(n)); self.rng.shuffle(p)
        return ev.Constant(types.arraydata(numpy.array(p)))

    def idx(self, m, n):
        """constant index vector of length m with values in [0, n), possibly with repetitions"""
        return ev.Constant(types.arraydata(numpy.array([self.rng.randrange(n) for _ in range(m)])))

    def loop(self, n):
        return ev.loop_index('L%d' % next(self.nl), ev.constant(n))


def Add(a, b): return ev.Add(types.frozenmultiset([a, b]))
def Mul(a, b): return ev.Multiply(types.frozenmultiset([a, b]))
def Infl(f, dofmap, n): return ev.Inflate(f, dofmap, ev.constant(n))
def Tr(f, *axes): return ev.Transpose(f, tuple(axes))
def Ins(f, n): return ev.InsertAxis(f, ev.constant(n))
def cast(e, dtype): return e if e.dtype == dtype else ev.IntToFloat(e) if dtype == float else e


def row(A, i):
    """A[..., i] for a loop index i (Take along the last axis)"""
    return ev.Take(A, i)


def catalogue(rng, dtype=float):
    """deliberately enumerated program shapes: name -> (funcs, args).  Every in-place protocol, both modes, gates,
    allocation inside/outside loops, statement placement in inner/outer loop blocks, adjacent/nested/merged loops,
    loop-dependent shapes, tuples sharing subterms and loops."""
    progs = {}
    build_errors = catalogue.build_errors = []
    # Inflate / LoopSum do not exist for bool: only the programs that are well-typed are built
    bool_ok = ('add-plain', 'diagonalize-argument', 'concat-const-chunk', 'concat-chunk2', 'concat-diagonalize', 'concat-variable-chunk',
               'concat-variable-chunk-2d', 'concat-zero-trip', 'add-concat-inplace', 'concat-of-concat-result', 'concat-nested-variable')
    def prog(name):
        def deco(f):
            if dtype == bool and name not in bool_ok:
                return f
            b = Builder(rng)
            try:
                funcs = f(b)
            except Exception as e:   # constructing the tree already runs real code (constant lengths are evaluated): an outcome, not a crash
                build_errors.append((name, e))
                return f
            progs[name] = (funcs, b.args)
            return f
        return deco
    T = dtype
    A = lambda b, *s: b.arg(*s, dtype=T)

    # ---- Add
    @prog('add-plain')
    def _(b): return Add(A(b, 3), A(b, 3))
    @prog('add-inflate')
    def _(b): return Add(Infl(A(b, 3), b.idx(3, 4), 4), A(b, 4))
    @prog('add-inflate-perm-2d')
    def _(b): return Add(Infl(A(b, 2, 3), b.perm(3), 3), A(b, 2, 3))
    @prog('add-two-inflates')
    def _(b): return Add(Infl(A(b, 2), b.idx(2, 3), 3), Infl(A(b, 3), b.idx(3, 3), 3))
    @prog('add-nested')
    def _(b): return Add(Add(Infl(A(b, 2), b.idx(2, 3), 3), A(b, 3)), Add(A(b, 3), A(b, 3)))
    @prog('add-shared-inflate-tuple')
    def _(b):
        I = Infl(A(b, 3), b.idx(3, 3), 3)
        return (Add(I, A(b, 3)), Add(I, A(b, 3)))
    @prog('add-same-twice')
    def _(b):
        I = Infl(A(b, 3), b.idx(3, 3), 3)
        return Add(I, I)
    @prog('add-shared-with-root')
    def _(b):
        I = Infl(A(b, 3), b.idx(3, 3), 3)
        return (I, (Add(I, A(b, 3)),))
    @prog('add-of-shared-add')
    def _(b):
        S = Add(Infl(A(b, 3), b.idx(3, 3), 3), A(b, 3))
        return Add(Mul(S, S), S)
    @prog('add-inflate-2d-dofmap')
    def _(b): return Add(Infl(A(b, 2, 2, 2), ev.Constant(types.arraydata(numpy.array([[0, 2], [1, 2]]))), 3), A(b, 2, 3))
    @prog('add-inflate-0d-dofmap')
    def _(b): return Add(Infl(A(b, 2), ev.constant(1), 3), A(b, 2, 3))
    @prog('inflate-alone')
    def _(b): return Infl(A(b, 2, 3), b.idx(3, 4), 4)
    @prog('inflate-nonconstant-dofmap')
    def _(b): return Infl(A(b, 3), ev.InRange(b.arg(3, dtype=int, lo=0, hi=3), ev.constant(4)), 4)
    @prog('inflate-of-inflate')
    def _(b): return Infl(Tr(Infl(A(b, 2, 2), b.idx(2, 3), 3), 1, 0), b.idx(2, 4), 4)

    @prog('inflate2d-transpose-inflate0-inflate0')   # past failure: merge of nested Assembles after a 2-d index was merged (wrong with _optimize)
    def _(b):
        D = ev.Constant(types.arraydata(numpy.array([[0, 1], [2, 0]])))
        return Infl(Infl(Tr(Infl(A(b, 2, 2, 2), D, 3), 1, 0), ev.constant(1), 2), ev.constant(2), 3)

    # ---- Diagonalize / Transpose
    @prog('diagonalize-argument')
    def _(b): return ev.Diagonalize(A(b, 2, 3))
    @prog('diagonalize-add-inflate')
    def _(b): return ev.Diagonalize(Add(Infl(A(b, 2), b.idx(2, 3), 3), A(b, 3)))
    @prog('add-diagonalize')
    def _(b): return Add(ev.Diagonalize(A(b, 3)), A(b, 3, 3))
    @prog('add-diagonalize-inflate')
    def _(b): return Add(ev.Diagonalize(Infl(A(b, 2), b.idx(2, 3), 3)), A(b, 3, 3))
    @prog('add-transpose-inflate')
    def _(b): return Add(Tr(Infl(A(b, 2, 3), b.idx(3, 3), 3), 1, 0), A(b, 3, 2))
    @prog('add-transpose3-inflate')
    def _(b): return Add(Tr(Infl(A(b, 2, 3, 2), b.idx(2, 4), 4), 2, 0, 1), A(b, 4, 2, 3))
    @prog('add-transpose-diagonalize')
    def _(b): return Add(Tr(ev.Diagonalize(A(b, 2, 3)), 1, 0, 2), A(b, 3, 2, 3))
    @prog('diagonalize-transpose-add')
    def _(b): return ev.Diagonalize(Tr(Add(Infl(A(b, 2, 2), b.idx(2, 3), 3), A(b, 2, 3)), 1, 0))
    @prog('stack-inflate-3d')   # the shape of program of the pinned-tree defect
    def _(b):
        a = A(b, 3, 3, 2); c = A(b, 3, 3, 2)
        return tuple(ev.stack([ev._inflate(a, ev.constant(numpy.array([2, 0, 1])), ev.constant(3), 1), c], k) for k in range(4))

    # ---- LoopSum
    @prog('loopsum-basic')
    def _(b):
        i = b.loop(3); return ev.loop_sum(row(A(b, 2, 3), i), i)
    @prog('loopsum-scalar')
    def _(b):
        i = b.loop(3); return ev.loop_sum(row(A(b, 3), i), i)
    @prog('loopsum-zero-trip')
    def _(b):
        i = b.loop(0); return ev.loop_sum(row(A(b, 2, 0), i), i)
    @prog('loopsum-add-invariant')
    def _(b):
        i = b.loop(3); return ev.loop_sum(Add(row(A(b, 2, 3), i), A(b, 2)), i)
    @prog('loopsum-inflate-loopdofmap')
    def _(b):
        i = b.loop(3)
        D = ev.Constant(types.arraydata(numpy.array([[0, 1, 2], [1, 2, 3]])))
        return ev.loop_sum(Infl(row(A(b, 2, 3), i), row(D, i), 4), i)
    @prog('loopsum-add-of-inflates')
    def _(b):
        i = b.loop(2)
        D = ev.Constant(types.arraydata(numpy.array([[0, 1], [2, 1]])))
        return ev.loop_sum(Add(Infl(row(A(b, 2, 2), i), row(D, i), 3), Infl(A(b, 3), b.perm(3), 3)), i)
    @prog('loopsum-transpose-diagonalize')
    def _(b):
        i = b.loop(2); return ev.loop_sum(Tr(ev.Diagonalize(row(A(b, 3, 2, 2), i)), 1, 2, 0), i)
    @prog('loopsum-nested')
    def _(b):
        i = b.loop(2); j = b.loop(3)
        return ev.loop_sum(ev.loop_sum(Add(row(row(A(b, 2, 2, 3), j), i), row(A(b, 2, 3), j)), j), i)
    @prog('loopsum-nested-times-outer')
    def _(b):
        i = b.loop(2); j = b.loop(3)
        inner = ev.loop_sum(row(row(A(b, 2, 2, 3), j), i), j)
        return ev.loop_sum(Mul(inner, row(A(b, 2, 2), i)), i)
    @prog('loopsum-nested-shared-inner')
    def _(b):
        i = b.loop(2); j = b.loop(3)
        inner = ev.loop_sum(row(A(b, 2, 3), j), j)   # invariant of the outer loop
        return ev.loop_sum(Add(Mul(inner, row(A(b, 2, 2), i)), inner), i)
    @prog('loopsum-adjacent-equal')
    def _(b):
        i = b.loop(3); j = b.loop(3)
        return Add(ev.loop_sum(row(A(b, 2, 3), i), i), ev.loop_sum(row(A(b, 2, 3), j), j))
    @prog('loopsum-adjacent-different')
    def _(b):
        i = b.loop(3); j = b.loop(2)
        return (ev.loop_sum(row(A(b, 2, 3), i), i), ev.loop_sum(row(A(b, 2, 2), j), j))
    @prog('loopsum-dependent')
    def _(b):
        i = b.loop(3); j = b.loop(3)
        S = ev.loop_sum(row(A(b, 2, 3), i), i)
        return ev.loop_sum(Mul(S, row(A(b, 2, 3), j)), j)
    @prog('loopsum-same-index-two-sums')
    def _(b):
        i = b.loop(3)
        return (ev.loop_sum(row(A(b, 2, 3), i), i), Add(ev.loop_sum(row(A(b, 2, 3), i), i), A(b, 2)))
    @prog('loopsum-shared-between-outputs')
    def _(b):
        i = b.loop(3)
        S = ev.loop_sum(Infl(row(A(b, 2, 3), i), b.idx(2, 3), 3), i)
        return (S, (Add(S, A(b, 3)), Mul(S, S)))
    @prog('add-loopsum-inplace')
    def _(b):
        i = b.loop(3); return Add(ev.loop_sum(row(A(b, 2, 3), i), i), A(b, 2))
    @prog('loopsum-index-value')
    def _(b):
        i = b.loop(3); w = cast(i, T)
        return ev.loop_sum(Mul(row(A(b, 2, 3), i), Ins(w, 2)), i)
    @prog('loopsum-late-alloc')   # out allocated after a merged sibling loop: LoopSum answers NotImplemented
    def _(b):
        i = b.loop(3); j = b.loop(3)
        n = ev.loop_sum(ev.Take(ev.Constant(types.arraydata(numpy.array([1, 0, 1]))), i), i)   # == 2, known only after loop i
        S = ev.loop_sum(row(A(b, 2, 3), j), j)
        return Add(S, ev.InsertAxis(A(b), n))

    # ---- LoopConcatenate
    @prog('concat-const-chunk')
    def _(b):
        i = b.loop(3); return ev.loop_concatenate(Ins(row(A(b, 2, 3), i), 1), i)
    @prog('concat-chunk2')
    def _(b):
        i = b.loop(2); return ev.loop_concatenate(row(A(b, 3, 2, 2), i), i)
    @prog('concat-add-inflate')
    def _(b):
        i = b.loop(2)
        return ev.loop_concatenate(Add(Infl(row(A(b, 2, 2), i), b.idx(2, 3), 3), A(b, 3)), i)
    @prog('concat-transpose-add')
    def _(b):
        i = b.loop(2)
        return ev.loop_concatenate(Tr(Add(Infl(row(A(b, 2, 2, 2), i), b.idx(2, 3), 3), A(b, 2, 3)), 1, 0), i)
    @prog('concat-inflate')          # with _optimize: Assemble in mode 'assign' through the slice view
    def _(b):
        i = b.loop(2); return ev.loop_concatenate(Infl(row(A(b, 2, 2, 2), i), b.idx(2, 3), 3), i)
    @prog('diagonalize-inflate')
    def _(b): return ev.Diagonalize(Infl(A(b, 2, 2), b.idx(2, 3), 3))
    @prog('concat-diagonalize')
    def _(b):
        i = b.loop(2); return ev.loop_concatenate(ev.Diagonalize(row(A(b, 2, 2), i)), i)
    @prog('concat-variable-chunk')
    def _(b):
        i = b.loop(3)
        n = i + ev.constant(1)
        return ev.loop_concatenate(cast(ev.Range(n), T) if T != bool else ev.Less(ev.Range(n), ev.InsertAxis(ev.constant(1), n)), i)
    @prog('concat-variable-chunk-2d')
    def _(b):
        i = b.loop(3)
        n = i + ev.constant(1)
        return ev.loop_concatenate(ev.InsertAxis(row(A(b, 2, 3), i), n), i)
    @prog('concat-zero-trip')
    def _(b):
        i = b.loop(0); return ev.loop_concatenate(Ins(row(A(b, 2, 0), i), 2), i)
    @prog('add-concat-inplace')
    def _(b):
        i = b.loop(3); return Add(ev.loop_concatenate(Ins(row(A(b, 2, 3), i), 1), i), A(b, 2, 3))
    @prog('concat-in-loopsum')
    def _(b):
        i = b.loop(2); j = b.loop(3)
        return ev.loop_sum(ev.loop_concatenate(Ins(row(row(A(b, 2, 2, 3), j), i), 1), j), i)
    @prog('loopsum-in-concat')
    def _(b):
        i = b.loop(2); j = b.loop(3)
        return ev.loop_concatenate(Ins(ev.loop_sum(row(row(A(b, 2, 2, 3), j), i), j), 1), i)
    @prog('concat-nested-variable')
    def _(b):
        i = b.loop(2); j = b.loop(2)
        inner = ev.loop_concatenate(ev.InsertAxis(row(row(A(b, 2, 2), j), i), i + ev.constant(1)), j)   # length 2*(i+1)
        return ev.loop_concatenate(inner, i)
    @prog('concat-and-sum-same-loop')
    def _(b):
        i = b.loop(3); a = A(b, 2, 3)
        return (ev.loop_concatenate(Ins(row(a, i), 1), i), ev.loop_sum(row(a, i), i))
    @prog('concat-of-concat-result')
    def _(b):
        i = b.loop(3); j = b.loop(3)
        C = ev.loop_concatenate(Ins(row(A(b, 2, 3), i), 1), i)
        return ev.loop_concatenate(Ins(Mul(row(C, j), row(A(b, 2, 3), j)), 1), j)
    @prog('concat-late-alloc')
    def _(b):
        i = b.loop(3); j = b.loop(3)
        n = ev.loop_sum(ev.Take(ev.Constant(types.arraydata(numpy.array([1, 0, 0]))), i), i)   # == 1
        C = ev.loop_concatenate(Ins(row(A(b, 2, 3), j), 1), j)
        return Add(C, ev.InsertAxis(A(b, 2), ev.constant(2) + n))
    # ---- loop-dependent shapes: arrays that must be allocated inside the loop
    @prog('loopsum-variable-shape-diagonalize')
    def _(b):
        i = b.loop(3); n = i + ev.constant(1)
        D = ev.Diagonalize(ev.InsertAxis(row(A(b, 2, 3), i), n))            # (2, n, n)
        return ev.loop_sum(ev.Sum(ev.Sum(Add(D, ev.InsertAxis(ev.InsertAxis(row(A(b, 2, 3), i), n), n)))), i)
    @prog('loopsum-variable-shape-inner-loopsum')
    def _(b):
        i = b.loop(2); j = b.loop(2); n = i + ev.constant(1)
        inner = ev.loop_sum(ev.InsertAxis(row(row(A(b, 2, 2, 2), j), i), n), j)   # (2, n) allocated per i
        return ev.loop_sum(ev.Sum(inner), i)
    @prog('concat-variable-shape-inner-inflate')
    def _(b):
        i = b.loop(3); n = i + ev.constant(2)
        body = ev.Inflate(row(A(b, 2, 3), i), b.idx(2, 2), n)                  # (n,) allocated per i
        return ev.loop_concatenate(Add(body, ev.InsertAxis(A(b), n)), i)
    return progs


# ======================================================================================= X-script: script -> statement language

class Untranslatable(Exception):
    pass


def _names(node):
    return sorted({n.id for n in ast.walk(node) if isinstance(n, ast.Name)}) if node is not None else []


def _is_attr_chain(node, *chain):
    """node == chain[0].chain[1]...."""
    for attr in reversed(chain[1:]):
        if not (isinstance(node, ast.Attribute) and node.attr == attr):
            return False
        node = node.value
    return isinstance(node, ast.Name) and node.id == chain[0]


def view_of(node):
    """target expression -> (base variable, sig (components nearest to the base first), names read by the view)"""
    if isinstance(node, ast.Name):
        return node.id, [], []
    if isinstance(node, ast.Call) and _is_attr_chain(node.func, 'numpy', 'transpose') and len(node.args) == 2 and not node.keywords:
        base, sig, reads = view_of(node.args[0])
        return base, sig, reads
    if isinstance(node, ast.Call) and _is_attr_chain(node.func, 'numpy', 'einsum') and len(node.args) == 2 and isinstance(node.args[0], ast.Constant) and node.args[0].value == '...ii->...i':
        base, sig, reads = view_of(node.args[1])
        return base, sig + ['diag'], reads
    if isinstance(node, ast.Subscript) and isinstance(node.slice, ast.Tuple) and len(node.slice.elts) == 2 and isinstance(node.slice.elts[0], ast.Constant) and node.slice.elts[0].value is Ellipsis:
        sl = node.slice.elts[1]
        if isinstance(sl, ast.Call) and isinstance(sl.func, ast.Name) and sl.func.id == 'slice' and len(sl.args) == 2:
            base, sig, reads = view_of(node.value)
            return base, sig + ['slice(%s)' % ', '.join(ast.unparse(a) for a in sl.args)], reads + [n for n in _names(sl) if n != 'slice']
    raise Untranslatable('target expression %s' % ast.unparse(node))


def transposes_of(node):
    """the axes of the numpy.transpose calls of a target expression, outermost call first"""
    out = []
    while not isinstance(node, ast.Name):
        if isinstance(node, ast.Call) and _is_attr_chain(node.func, 'numpy', 'transpose'):
            out.append(tuple(ast.literal_eval(node.args[1]))); node = node.args[0]
        elif isinstance(node, ast.Call):
            node = node.args[1]
        elif isinstance(node, ast.Subscript):
            node = node.value
        else:
            raise Untranslatable('target expression')
    return out


def _only_uses(stmts):
    """reads of a block that consists of raise / plain expression statements only"""
    reads = []
    for s in stmts:
        if isinstance(s, ast.Raise):
            reads += _names(s.exc)
        elif isinstance(s, ast.Expr) and isinstance(s.value, ast.Call) and _is_attr_chain(s.value.func, 'warnings', 'warn'):
            reads += _names(s.value)
        elif isinstance(s, ast.Pass):
            pass
        else:
            raise Untranslatable('statement in a conditional: ' + ast.unparse(s)[:80])
    return reads


def translate_block(stmts, info):
    out = []
    i = 0
    while i < len(stmts):
        s = stmts[i]; i += 1
        if isinstance(s, ast.Assign):
            if len(s.targets) != 1 or not isinstance(s.targets[0], ast.Name):
                raise Untranslatable('assignment target ' + ast.unparse(s)[:80])
            x = s.targets[0].id
            v = s.value
            if isinstance(v, ast.Call) and (_is_attr_chain(v.func, 'numpy', 'empty') or _is_attr_chain(v.func, 'parallel', 'shempty')):
                out.append(['alloc', x, _names(v)])
            else:
                out.append(['assign', x, _names(v)])
        elif isinstance(s, ast.Expr):
            v = s.value
            if not isinstance(v, ast.Call):
                raise Untranslatable('expression statement ' + ast.unparse(s)[:80])
            f = v.func
            if isinstance(f, ast.Attribute) and f.attr == 'fill' and len(v.args) == 1 and isinstance(v.args[0], ast.Constant) and v.args[0].value == 0 and not v.keywords:
                base, sig, reads = view_of(f.value)
                if reads: out.append(['use', reads])
                out.append(['fill', base, sig])
            elif _is_attr_chain(f, 'numpy', 'copyto') and len(v.args) == 2 and not v.keywords:
                base, sig, reads = view_of(v.args[0])
                out.append(['write', base, sig, sorted(set(reads + _names(v.args[1])))])
            elif (_is_attr_chain(f, 'numpy', 'add') or _is_attr_chain(f, 'numpy', 'multiply')) and len(v.args) == 2 and [k.arg for k in v.keywords] == ['out']:
                if ast.unparse(v.args[0]) != ast.unparse(v.keywords[0].value):
                    raise Untranslatable('in-place operation with different operand and out: ' + ast.unparse(s)[:80])
                base, sig, reads = view_of(v.args[0])
                out.append(['accum', base, sig, sorted(set(reads + _names(v.args[1])))])
            elif _is_attr_chain(f, 'numpy', 'add', 'at') and len(v.args) == 3 and not v.keywords:
                base, sig, reads = view_of(v.args[0])
                out.append(['accum', base, sig, sorted(set(reads + _names(v.args[1]) + _names(v.args[2])))])
                info['add_at'].append(v)
            elif isinstance(f, ast.Attribute) and f.attr == 'setflags':
                out.append(['use', _names(v)])
            elif isinstance(f, ast.Name) and f.id == 'log_stats' or _is_attr_chain(f, 'warnings', 'warn'):
                out.append(['use', _names(v)])
            else:
                raise Untranslatable('call statement ' + ast.unparse(s)[:80])
        elif isinstance(s, ast.If):
            if isinstance(s.test, ast.Name) and s.test.id == 'first_run':
                raise Untranslatable('first_run conditional without global statement')
            if s.orelse:
                raise Untranslatable('conditional with else branch')
            out.append(['use', sorted(set(_names(s.test) + _only_uses(s.body)))])
        elif isinstance(s, ast.Global):
            cached = [n for n in s.names if n != 'first_run']
            if 'first_run' not in s.names or i >= len(stmts) or not (isinstance(stmts[i], ast.If) and isinstance(stmts[i].test, ast.Name) and stmts[i].test.id == 'first_run'):
                raise Untranslatable('global statement not followed by the first_run conditional')
            cond = stmts[i]; i += 1
            info['rerun'] = True
            again_info = dict(info, loops=[], add_at=[])     # the loops of the rerun branch are those of the first branch (filtered)
            out.append(['rerun', cached, translate_block(cond.body, info), translate_block(cond.orelse, again_info)])
            info['rerun_loops'] = again_info['loops']
        elif isinstance(s, ast.With):
            if len(s.items) != 1:
                raise Untranslatable('with statement with several items')
            item = s.items[0]
            reads = _names(item.context_expr)
            ctx = item.context_expr
            loopname = None
            if isinstance(ctx, ast.Call) and ctx.args and isinstance(ctx.args[0], ast.Constant) and isinstance(ctx.args[0].value, str) and ctx.args[0].value.startswith('loop '):
                loopname = tuple(int(k) for k in ctx.args[0].value[5:].split(','))
                info['parallel'] = info['parallel'] or _is_attr_chain(ctx.func, 'parallel', 'ctxrange')
            if item.optional_vars is not None:
                if not isinstance(item.optional_vars, ast.Name):
                    raise Untranslatable('with … as <non-variable>')
                out.append(['assign', item.optional_vars.id, reads])
            else:
                out.append(['use', reads])
            if loopname is not None:
                if not (len(s.body) == 1 and isinstance(s.body[0], ast.For)):
                    raise Untranslatable('loop context without for statement')
                info['loops'].append(loopname)
            out += translate_block(s.body, info)
        elif isinstance(s, ast.For):
            it = s.iter
            if not (isinstance(s.target, ast.Name) and not s.orelse and isinstance(it, ast.Call) and isinstance(it.func, ast.Name) and it.func.id == 'map'
                    and len(it.args) == 2 and _is_attr_chain(it.args[0], 'numpy', 'int_')):
                raise Untranslatable('for statement ' + ast.unparse(s)[:60])
            out.append(['loop', s.target.id, _names(it), translate_block(s.body, info)])
        elif isinstance(s, ast.Return):
            out.append(['use', _names(s.value)])
        elif isinstance(s, (ast.Assert, ast.Raise)):
            out.append(['use', _names(s)])
        elif isinstance(s, ast.Pass):
            pass
        else:
            raise Untranslatable(type(s).__name__)
    return out


def translate_script(script, global_names):
    """-> (request object for the C02 driver, info)"""
    import builtins
    tree = ast.parse(script)
    if not (len(tree.body) == 1 and isinstance(tree.body[0], ast.FunctionDef) and [a.arg for a in tree.body[0].args.args] == ['a']):
        raise Untranslatable('script is not a single function of one argument')
    info = dict(loops=[], add_at=[], rerun=False, parallel=False)
    prog = translate_block(tree.body[0].body, info)
    used = set()
    def collect(p):
        for st in p:
            for part in st[1:]:
                if isinstance(part, list):
                    if part and isinstance(part[0], list): collect(part)
                    else: used.update(x for x in part if isinstance(x, str))
    collect(prog)
    glob = sorted((set(global_names) | {'a'} | (used & set(dir(builtins)))) - {'first_run'}) + ['first_run']
    return dict(script=dict(globals=glob, prog=prog)), info


# ======================================================================================= Lean helpers

def model_parallel(c, reqs, driver, nproc=3):
    """c.model on several driver processes at once (the requests are independent)"""
    reqs = list(reqs)
    if len(reqs) < 2 * nproc:
        return c.model(reqs, driver=driver)
    chunks = [reqs[i::nproc] for i in range(nproc)]
    out = [None] * nproc
    err = []
    def work(i):
        try:
            out[i] = c.model(chunks[i], driver=driver)
        except BaseException as e:
            err.append(e)
    threads = [threading.Thread(target=work, args=(i,)) for i in range(nproc)]
    for t in threads: t.start()
    for t in threads: t.join()
    if err:
        raise err[0]
    res = [None] * len(reqs)
    for i in range(nproc):
        res[i::nproc] = out[i]
    return res


def lean_eval(c, items):
    """items: list of (flat list of arrays, args) -> list of per-root result lists (or None when not serialisable)"""
    reqs, pos = [], []
    for k, (flat, args) in enumerate(items):
        try:
            r, _ = ser.request(flat, args)
        except ValueError:
            continue
        reqs.append(r); pos.append(k)
    ans = model_parallel(c, reqs, 'Expr')
    out = [None] * len(items)
    for k, a in zip(pos, ans):
        if a.startswith('bad-request'):
            raise Infra('Expr driver rejected a request: ' + a[:300])
        out[k] = json.loads(a)['results']
    return out


def second_args(args):
    """different values of the same shapes, dtypes and value sets per argument (keeps index arguments in bounds)"""
    out = {}
    for k, v in args.items():
        v = numpy.asarray(v)
        w = v.reshape(-1)[::-1].reshape(v.shape).copy()
        if v.dtype.kind == 'f':
            w = -w + .25
        out[k] = w
    return out


# ======================================================================================= M-eval

def random_programs(rng, n, maxdepth):
    """random DAGs, half of them restricted to the vocabulary of the in-place protocol and the loops; single arrays and
    nested tuples whose members share subterms and loops (same generator pool)"""
    progs = []
    inplace = ['Add', 'Inflate', 'Transpose', 'Diagonalize', 'LoopSum', 'LoopConcatenate', 'InsertAxis', 'Take', 'Multiply', 'Sum', 'TakeDiag']
    for k in range(n):
        focused = rng.random() < .5
        g = genexpr.Gen(rng, allow=inplace if focused else None, share=.35 if focused else .25)
        try:
            T = rng.choice([float, float, int, bool] if not focused else [float, float, int])
            nd = rng.choice([0, 1, 1, 2, 2, 3])
            shape = tuple(rng.choice([1, 2, 2, 3, 3, 0]) for _ in range(nd))
            ntup = rng.choice([1, 1, 2, 3])
            es = [g.array(T if i == 0 else rng.choice([T, float]), shape if i == 0 or rng.random() < .6 else tuple(rng.choice([1, 2, 3]) for _ in range(rng.choice([0, 1, 2]))), rng.randint(1, maxdepth)) for i in range(ntup)]
        except Exception:
            continue
        if ntup == 1:
            funcs = es[0]
        elif ntup == 2:
            funcs = (es[0], es[1]) if rng.random() < .5 else (es[0], (es[1],))
        else:
            funcs = rng.choice([(es[0], es[1], es[2]), ((es[0], es[1]), es[2]), (es[0], (es[1], (es[2], es[0])))])
        progs.append(('random-%s%d' % ('inplace-' if focused else '', k), funcs, g.args, g.hits))
    return progs


def flags_of(cfg):
    fl = [n for n, on in (('simplify', cfg.simplify), ('optimize', cfg.optimize), ('cache', cfg.cache), ('stats-log', cfg.stats == 'log'), ('stats-none', cfg.stats is None), ('maxprocs2', cfg.maxprocs > 1)) if on]
    return fl


def single_flag_configs(cfg=None):
    par = BASE._replace(maxprocs=2) if cfg is None or cfg.maxprocs == 1 else BASE._replace(maxprocs=cfg.maxprocs, sched=cfg.sched)
    return {'simplify': BASE._replace(simplify=True), 'optimize': BASE._replace(optimize=True), 'cache': BASE._replace(cache=True),
            'stats-log': BASE._replace(stats='log'), 'stats-none': BASE._replace(stats=None), 'maxprocs2': par}


def has_separated_assemble(funcs, simplify):
    """does the optimised form contain an Assemble whose advanced (non-Range) indices are separated by a Range?"""
    _, flat = flatten(funcs)
    try:
        for e in flat:
            s = e.simplified if simplify else e
            o = s._optimized_for_numpy1 if hasattr(s, '_optimized_for_numpy1') else s.optimized_for_numpy
            for n in shrink.all_nodes(o):
                if isinstance(n, ev.Assemble):
                    adv = [k for k, ix in enumerate(n.indices) if not isinstance(ix, ev.Range)]
                    if adv and adv[-1] - adv[0] != len(adv) - 1 and any(n.indices[k].ndim for k in adv):
                        return True
    except Exception:
        pass
    return False


def evaluate_program(funcs, args_list, cfg, lean):
    """-> (verdict, detail): 'ok' | 'mismatch' | 'raises' ; lean: per args a list of Lean results (flat)"""
    kind, val, scripts, _ = run_config(funcs, args_list, cfg)
    if kind != 'ok':
        return 'raises', '%s: %s' % (type(val).__name__, str(val)[:200]), scripts
    for k, (v, res) in enumerate(zip(val, lean)):
        bad = compare_with_spec(funcs, res, v)
        if bad:
            return 'mismatch', 'call %d: %s' % (k, ','.join(bad)), scripts
    return 'ok', '', scripts


def signature_for(c, name, funcs, args_list, cfg, verdict, detail, lean):
    """root-cause signature + minimal replay for a failing (program, configuration)"""
    # which flags are needed?
    needed = []
    base_ok = evaluate_program(funcs, args_list, BASE, lean)[0] == 'ok'
    if not base_ok:
        cfgclass = 'base'
        failing = BASE
    else:
        for flag, cf in single_flag_configs(cfg).items():
            if flag in flags_of(cfg) and evaluate_program(funcs, args_list, cf, lean)[0] != 'ok':
                needed.append(flag)
        cfgclass = '+'.join(needed) if needed else cfg_name(cfg)
        failing = cfg if not needed else single_flag_configs(cfg)[needed[0]]
    fmt, flat = flatten(funcs)
    small, sargs = funcs, args_list[0]
    skeleton = '+'.join(sorted({x for e in flat for x in shrink.skeleton(e).split('+') if x}))
    if len(flat) >= 1 and base_ok:
        # shrink every member on its own with the cheap oracle "differs from the un-optimised un-simplified compile"
        def fails(e2, a2):
            k1, v1, _, _ = run_config(e2, [a2], BASE, timeout=10)
            k2, v2, _, _ = run_config(e2, [a2], failing, timeout=10)
            if k1 != 'ok':
                return False
            if k2 != 'ok':
                return verdict == 'raises'
            a, b = numpy.asarray(v1[0]), numpy.asarray(v2[0])
            return a.shape != b.shape or a.dtype.kind != b.dtype.kind or not numpy.allclose(a, b, rtol=1e-9, atol=1e-11, equal_nan=True)
        for e in flat:
            try:
                if fails(e, args_list[0]):
                    small, sargs = shrink.shrink(e, args_list[0], fails, budget=50 if failing.maxprocs == 1 else 10)
                    skeleton = shrink.skeleton(small)
                    break
            except Exception:
                continue
    if 'optimize' in cfgclass.split('+') or (not base_ok and False):
        if has_separated_assemble(small, failing.simplify):
            skeleton = 'Assemble-inplace-separated-advanced-indices'
    head = 'compile-wrong-value' if verdict == 'mismatch' else 'compile-raises'
    if 'optimize' in cfgclass.split('+') and isinstance(small, ev.Array):
        # is the optimisation pass itself (not the compilation of its result) wrong?  both trees evaluated without rewriting
        try:
            pre = small.simplified if failing.simplify else small
            kind, o = X.guarded(lambda: apply_opt(pre), 20)
            if kind == 'ok' and o is not pre:
                k1, v1 = X.real_eval(pre, sargs); k2, v2 = X.real_eval(o, sargs)
                if k1 == 'ok' and (k2 in ('exception', 'hang') or k2 == 'ok' and not X.arrays_close(v1, v2)):
                    merged = max([sum(not isinstance(ix, ev.Range) for ix in n.indices) for n in shrink.all_nodes(o) if isinstance(n, ev.Assemble)] + [0])
                    return 'optimize-wrong-value:' + ('Assemble:merge-of-%d-indices' % merged if merged >= 2 else shrink.skeleton(o)), small, sargs, failing
        except Exception:
            pass
    return '%s:%s:%s' % (head, cfgclass, skeleton), small, sargs, failing


def describe_funcs(funcs, args):
    fmt, flat = flatten(funcs)
    return dict(structure=repr(fmt), trees=[X.describe(e, {})['tree'] for e in flat], arguments={k: numpy.asarray(v).tolist() for k, v in args.items()})


# ======================================================================================= V-opt: the numpy-optimisation pass

def apply_opt(e):
    if hasattr(type(e), '_optimized_for_numpy1'):
        return e._optimized_for_numpy1
    # older spelling: optimized_for_numpy == simplified + pass; only usable on simplified trees
    return e.optimized_for_numpy


def rule_instances(rng):
    """one or more minimal instances per `_optimized_for_numpy` rule on opaque Arguments: (rule, node, args, must_fire)"""
    out = []
    def add(rule, f, must_fire=True):
        b = Builder(rng)
        out.append((rule, f(b), b.args, must_fire))
    c = ev.constant
    unif = lambda val, *shape: functools_reduce_insert(ev.constant(val), shape)
    add('Transpose:fold-transpose', lambda b: Tr(Tr(b.arg(2, 3, 2), 1, 2, 0), 0, 2, 1))
    add('Transpose:fold-transpose-to-identity', lambda b: Tr(Tr(b.arg(2, 3), 1, 0), 1, 0))
    add('Transpose:fold-assemble', lambda b: Tr(ev.Assemble(b.arg(2, 3), (ev.Range(c(2)), b.idx(3, 4)), (c(2), c(4))), 1, 0))
    add('Transpose:fold-assemble-2d-index', lambda b: Tr(ev.Assemble(b.arg(2, 2, 2), (ev.Range(c(2)), ev.Constant(types.arraydata(numpy.array([[0, 2], [1, 2]])))), (c(2), c(3))), 1, 0))
    add('Multiply:negative', lambda b: Mul(b.arg(2, 3), unif(-1., 2, 3)))
    add('Multiply:negative-int', lambda b: Mul(b.arg(3, dtype=int), unif(-1, 3)))
    add('Multiply:absolute', lambda b: (lambda a: Mul(a, ev.Sign(a)))(b.arg(2, 3)))
    add('Multiply:absolute-of-three', lambda b: (lambda a, d: Mul(Mul(a, d), ev.Sign(a)))(b.arg(3), b.arg(3)))
    add('Multiply:einsum', lambda b: Mul(b.arg(2, 3), b.arg(2, 3)))
    add('Multiply:einsum-int', lambda b: Mul(b.arg(3, dtype=int), b.arg(3, dtype=int)))
    add('Multiply:bool-declines', lambda b: Mul(b.arg(3, dtype=bool), b.arg(3, dtype=bool)), False)
    add('Multiply:scalar-declines', lambda b: Mul(b.arg(), b.arg()), False)
    add('Einsum:absorb-transpose', lambda b: ev.Einsum((Tr(b.arg(3, 2), 1, 0), b.arg(2, 3)), ((0, 1), (0, 1)), (0, 1)))
    add('Einsum:absorb-transpose-3d', lambda b: ev.Einsum((Tr(b.arg(3, 2, 2), 2, 0, 1), b.arg(2, 3, 2)), ((0, 1, 2), (0, 1, 2)), (0, 1, 2)))
    add('Einsum:absorb-transpose-second', lambda b: ev.Einsum((b.arg(2, 3), Tr(b.arg(3, 2), 1, 0)), ((0, 1), (0, 1)), (1, 0)))
    add('Einsum:absorb-insertaxis', lambda b: ev.Einsum((Ins(b.arg(2), 3), b.arg(2, 3)), ((0, 1), (0, 1)), (0, 1)))
    add('Einsum:insertaxis-not-shared-declines', lambda b: ev.Einsum((Ins(b.arg(2), 3),), ((0, 1),), (0, 1)), False)
    add('Sum:einsum', lambda b: ev.Sum(ev.Einsum((b.arg(2, 3), b.arg(2, 3)), ((0, 1), (0, 1)), (0, 1))))
    add('Sum:einsum-through-transpose', lambda b: ev.Sum(Tr(ev.Einsum((b.arg(2, 3, 2), b.arg(2, 3, 2)), ((0, 1, 2), (0, 1, 2)), (0, 1, 2)), 2, 0, 1)))
    add('Sum:no-einsum-declines', lambda b: ev.Sum(b.arg(2, 3)), False)
    add('TakeDiag:einsum', lambda b: ev.TakeDiag(ev.Einsum((b.arg(2, 3, 3), b.arg(2, 3, 3)), ((0, 1, 2), (0, 1, 2)), (0, 1, 2))))
    add('TakeDiag:einsum-through-transpose', lambda b: ev.TakeDiag(Tr(ev.Einsum((b.arg(3, 2, 3), b.arg(3, 2, 3)), ((0, 1, 2), (0, 1, 2)), (0, 1, 2)), 1, 0, 2)))
    add('Take:get', lambda b: ev.Take(b.arg(2, 3), c(1)))
    add('Take:slice-range', lambda b: ev.Take(b.arg(2, 3), ev.Range(c(2))))
    add('Take:slice-range-offset', lambda b: ev.Take(b.arg(2, 4), Add(ev.Range(c(2)), Ins(c(1), 2))))
    add('Take:slice-offset-first', lambda b: ev.Take(b.arg(2, 4), Add(Ins(c(2), 2), ev.Range(c(2)))))
    add('Take:slice-argument-offset', lambda b: ev.Take(b.arg(5), Add(ev.Range(c(2)), Ins(ev.InRange(b.arg(dtype=int, lo=0, hi=3), c(4)), 2))))
    add('Take:general-declines', lambda b: ev.Take(b.arg(2, 3), b.idx(2, 3)), False)
    add('Power:reciprocal', lambda b: ev.Power(Add(ev.Absolute(b.arg(2, 3)), unif(1., 2, 3)), unif(-1., 2, 3)))
    add('Power:reciprocal-square', lambda b: ev.Power(Add(ev.Absolute(b.arg(3)), unif(.5, 3)), unif(-2., 3)))
    add('Power:other-declines', lambda b: ev.Power(Add(ev.Absolute(b.arg(3)), unif(.5, 3)), unif(3., 3)), False)
    add('Inflate:assemble', lambda b: Infl(b.arg(2, 3), b.idx(3, 4), 4))
    add('Inflate:assemble-2d-dofmap', lambda b: Infl(b.arg(2, 2, 2), ev.Constant(types.arraydata(numpy.array([[0, 2], [1, 2]]))), 3))
    add('Inflate:assemble-0d-dofmap', lambda b: Infl(b.arg(2), c(1), 3))
    add('Assemble:merge', lambda b: ev.Assemble(ev.Assemble(b.arg(2, 3), (ev.Range(c(2)), b.idx(3, 4)), (c(2), c(4))), (b.idx(2, 3), ev.Range(c(4))), (c(3), c(4))))
    add('Assemble:merge-inner-first-axis', lambda b: ev.Assemble(ev.Assemble(b.arg(2, 3), (b.idx(2, 3), ev.Range(c(3))), (c(3), c(3))), (ev.Range(c(3)), b.idx(3, 4)), (c(3), c(4))))
    add('Assemble:merge-0d', lambda b: ev.Assemble(ev.Assemble(b.arg(2, 3), (ev.Range(c(2)), b.idx(3, 4)), (c(2), c(4))), (ev.Range(c(2)), ev.Range(c(4)), c(1)), (c(2), c(4), c(2))))
    add('Assemble:merge-conflict-declines', lambda b: ev.Assemble(ev.Assemble(b.arg(2, 3), (ev.Range(c(2)), b.idx(3, 4)), (c(2), c(4))), (ev.Range(c(2)), b.perm(4)), (c(2), c(4))), False)
    return out


def functools_reduce_insert(e, shape):
    for n in shape:
        e = ev.InsertAxis(e, ev.constant(n))
    return e


def vopt_requests(pairs):
    """pairs: list of (original, rewritten, args) -> requests (concrete, symbolic) per pair, or None when not serialisable"""
    reqs, index = [], []
    for k, (e, o, args) in enumerate(pairs):
        float_args = {n: v for n, v in args.items() if numpy.asarray(v).dtype.kind == 'f'}
        try:
            r1, _ = ser.request([e, o], args, cmp=[(0, 1)])
            r2, _ = ser.request([e, o], {n: v for n, v in args.items() if n not in float_args}, symbolic={n: numpy.asarray(v).shape for n, v in float_args.items()}, cmp=[(0, 1)])
        except ValueError:
            continue
        reqs += [r1, r2]; index.append(k)
    return reqs, index


# ======================================================================================= M-core: compileCore vs real scripts

class CoreGen:
    """random programs of the sub-language {leaf, Add, Inflate, Transpose, LoopSum} as real nutils trees, together with
    their `E` terms for the Lean model, the set of shared nodes (ndependents > 1, counted on the DAG built here) and the
    set of nodes that `compile_with_out` must refuse because they live in an earlier block than the out array
    (computed from loop dependence only, independently of the real block ids)."""

    def __init__(self, rng):
        self.rng = rng
        self.b = Builder(rng)
        self.nleaf = itertools.count()
        self.ntag = itertools.count()
        self.leaf_name = {}      # leaf id -> argument name
        self.transp_inv = {}     # tag -> inverse axes (what the in-place path prints)
        self.transp_axes = {}    # tag -> axes (what the plain path prints)
        self.scatter_const = {}  # tag -> name of the constant that holds the dofmap (table)
        self.pool = []           # (shape, loops, node) for sharing
        self.parents = collections.Counter()
        self.nested_used = {}
        self.loop_parent = {}
        self.tag_of = {}
        self.leaf_info = {}
        self.scatter_info = {}
        self.transp_info = {}
        self.loop_len = {}

    def gen(self, shape, loops, depth):
        """-> node = dict(e=real tree, j=E json, deps=frozenset of loop names, kind=...)"""
        rng = self.rng
        cands = [n for s, l, n in self.pool if s == shape and l == tuple(i for i, _ in loops)]
        if cands and rng.random() < .2:
            return rng.choice(cands)
        can_loop = len(loops) == 0 or (len(loops) == 1 and not self.nested_used.get(id(loops[0][0])))
        kinds = ['leaf'] if depth <= 0 else rng.choice([['leaf'], ['add'], ['add'], ['scatter'], ['transp'] if len(shape) >= 2 else ['add'], ['loopsum'] if can_loop else ['add']])
        kind = kinds[0]
        if kind == 'leaf':
            k = next(self.nleaf)
            dep = [l for l in loops if rng.random() < .7]
            e = self.b.arg(*shape, *[n for _, n in dep])
            self.leaf_name[k] = e.name
            self.leaf_info[k] = (e.name, [id(i) for i, _ in dep], [id(i) for i, _ in loops], shape)
            for idx, _ in reversed(dep):
                e = ev.Take(e, idx)
            node = dict(e=e, j=['leaf', k, _prod(shape)], deps=frozenset(id(i) for i, _ in dep), kind='leaf', ch=[])
        elif kind == 'add':
            a = self.gen(shape, loops, depth-1); b = self.gen(shape, loops, depth-1)
            if a is b:
                b = self.gen(shape, loops, 0)
            node = dict(e=Add(a['e'], b['e']), j=self.add_json(a['j'], b['j']), deps=a['deps'] | b['deps'], kind='add', ch=[a, b])
        elif kind == 'scatter':
            m = rng.choice([1, 2, 3])
            n = shape[-1] if shape else 1
            if not shape or n == 0:
                return self.gen(shape, loops, 0)
            f = self.gen(shape[:-1] + (m,), loops, depth-1)
            dep = [l for l in loops if rng.random() < .4][:1]
            if dep:
                table = numpy.array([[rng.randrange(n) for _ in range(dep[0][1])] for _ in range(m)])
                dofmap = ev.Take(ev.Constant(types.arraydata(table)), dep[0][0])
            else:
                table = numpy.array([rng.randrange(n) for _ in range(m)])
                dofmap = ev.Constant(types.arraydata(table))
            # equal index maps are equal nodes in nutils: same tag
            tkey = ('scatter', table.shape, table.tobytes(), id(dep[0][0]) if dep else None, shape)
            t = self.tag_of.get(tkey)
            if t is None:
                t = self.tag_of[tkey] = next(self.ntag)
            self.scatter_const[t] = 'c' + types.nutils_hash(table).hex()
            self.scatter_info.setdefault(t, (table, id(dep[0][0]) if dep else None, shape[:-1] + (m,), shape, []))[4].append([id(i) for i, _ in loops])
            node = dict(e=Infl(f['e'], dofmap, n), j=['scatter', t, _prod(shape), f['j']], deps=f['deps'] | frozenset(id(i) for i, _ in dep), kind='scatter', ch=[f])
        elif kind == 'transp':
            axes = list(range(len(shape)))
            while axes == list(range(len(shape))):
                rng.shuffle(axes)
            src = [None] * len(shape)
            for i, a in enumerate(axes):
                src[a] = shape[i]
            f = self.gen(tuple(src), loops, depth-1)
            t = self.tag_of.get(('transp', tuple(axes), tuple(src)))
            if t is None:
                t = self.tag_of[('transp', tuple(axes), tuple(src))] = next(self.ntag)
            self.transp_info[t] = (tuple(axes), tuple(src), shape)
            self.transp_axes[t] = tuple(axes)
            self.transp_inv[t] = tuple(int(i) for i in numpy.argsort(axes))
            node = dict(e=Tr(f['e'], *axes), j=['transp', t, f['j']], deps=f['deps'], kind='transp', ch=[f])
        else:
            n = rng.choice([1, 2, 3])
            idx = self.b.loop(n)
            self.loop_len[id(idx)] = n
            if loops:
                self.nested_used[id(loops[0][0])] = True     # at most one loop nested in a loop body
                self.loop_parent[id(idx)] = id(loops[-1][0])
            loops2 = loops + [(idx, n)]
            # one leaf of the body depends on the new index and on all enclosing ones (the loop is really nested)
            body = self.gen(shape, loops2, depth-1)
            k = next(self.nleaf)
            la = self.b.arg(*shape, *[m for _, m in loops2])
            self.leaf_name[k] = la.name
            self.leaf_info[k] = (la.name, [id(i2) for i2, _ in loops2], [id(i2) for i2, _ in loops2], shape)
            le = la
            for i2, _ in reversed(loops2):
                le = ev.Take(le, i2)
            dl = dict(e=le, j=['leaf', k, _prod(shape)], deps=frozenset(id(i2) for i2, _ in loops2), kind='leaf', ch=[], loops=[id(i2) for i2, _ in loops2], hasloop=frozenset())
            body = dict(e=Add(body['e'], dl['e']), j=self.add_json(body['j'], dl['j']), deps=body['deps'] | dl['deps'], kind='add', ch=[body, dl],
                        loops=[id(i2) for i2, _ in loops2], hasloop=body['hasloop'])
            node = dict(e=ev.loop_sum(body['e'], idx), j=['loopsum', n, body['j']], deps=body['deps'] - {id(idx)}, kind='loopsum', ch=[body], idx=id(idx))
        node['loops'] = [id(i) for i, _ in loops]
        # the loops (by index id) whose results this node depends on
        node['hasloop'] = frozenset().union(*[ch['hasloop'] for ch in node['ch']]) | (frozenset([node['idx']]) if node['kind'] == 'loopsum' else frozenset())
        self.pool.append((shape, tuple(i for i, _ in loops), node))
        return node

    def exec_request(self, root, shared, early):
        """request for the C02 driver: run the script compileCore emits on the concrete leaves / index maps of this program
        (values scaled by 4: integers)"""
        def envs(ctx):
            return list(itertools.product(*[range(self.loop_len[l]) for l in ctx]))   # outer -> inner
        def key(vals):
            return ','.join(str(v) for v in reversed(vals))                            # innermost first
        rho, M, P, Q = [], [], [], []
        for k, (name, dep, ctx, shape) in self.leaf_info.items():
            arr = numpy.asarray(self.b.args[name])
            for vals in envs(ctx):
                ix = tuple(vals[ctx.index(l)] for l in dep)
                v = arr[(Ellipsis,) + ix] if ix else arr
                rho.append([k, key(vals), [int(round(4 * float(x))) for x in numpy.asarray(v).reshape(-1)]])
        for t, (table, dep, fshape, oshape, ctxs) in self.scatter_info.items():
            done = set()
            for ctx in ctxs:
                for vals in envs(ctx):
                    if key(vals) in done: continue
                    done.add(key(vals))
                    dofmap = table[:, vals[ctx.index(dep)]] if dep is not None else table
                    cells = []
                    for c in itertools.product(*[range(n) for n in fshape]):
                        tgt = c[:-1] + (int(dofmap[c[-1]]),)
                        cells.append(int(numpy.ravel_multi_index(tgt, oshape)) if oshape else 0)
                    M.append([t, key(vals), cells])
        for t, (axes, src, res) in self.transp_info.items():
            p = []
            for c in itertools.product(*[range(n) for n in src]):
                r = tuple(c[a] for a in axes)
                p.append(int(numpy.ravel_multi_index(r, res)))
            q = [0] * len(p)
            for j, r in enumerate(p): q[r] = j
            P.append([t, p]); Q.append([t, q])
        return json.dumps(dict(exec=root['j'], shared=shared, early=early, rho=rho, M=M, P=P, Q=Q), separators=(',', ':'))

    @staticmethod
    def add_json(x, y):
        """Add is commutative in nutils (frozenmultiset): Add(a, b) and Add(b, a) are the same node"""
        return ['add'] + sorted([x, y], key=json.dumps)

    @staticmethod
    def key(n):
        return json.dumps(n['j'])

    def count_dependents(self, root):
        """ndependents as compile() counts them: every distinct node contributes one per occurrence among its dependencies"""
        nd, seen = collections.Counter(), set()
        def walk(n):
            if self.key(n) in seen: return
            seen.add(self.key(n))
            for ch in n['ch']:
                nd[self.key(ch)] += 1
                walk(ch)
        walk(root)
        return nd

    def gates(self, root):
        """(shared, early) lists of E json, by the rules of compile_with_out expressed through loop dependence.
        Position of the out array: ('start', L) = initialised at the start of the body of loop L (None: top level; own arrays
        of Add / Inflate / LoopSum); ('body', i, after) = the accumulation statement of LoopSum i, which sits after the loop
        nested in the body of i when there is one (`after`)."""
        shared, early, seen = [], [], set()
        nd = self.count_dependents(root)
        def is_shared(n): return nd[self.key(n)] > 1
        def innermost(n):
            own = [l for l in n['loops'] if l in n['deps']]
            return own[-1] if own else None
        def nested_in(n, i):
            """does n depend on the result of a loop that is nested in loop i?"""
            return any(True for l in n['hasloop'] if l != i and self.loop_parent.get(l) == i)
        def refused(n, pos):
            if pos[0] == 'start':
                return pos[1] is not None and pos[1] not in n['deps']
            _, i, after = pos
            if i not in n['deps']:
                return True
            if after and not nested_in(n, i):
                return True
            if after and n['kind'] == 'loopsum':
                return True          # LoopSum._compile_with_out answers NotImplemented: its loop body precedes the out block
            return False
        def cwo(n, pos):
            if is_shared(n) and n['j'] not in shared: shared.append(n['j'])
            r = refused(n, pos)
            if r and n['j'] not in early: early.append(n['j'])
            if is_shared(n) or r or n['kind'] == 'leaf':
                comp(n); return
            self_(n, pos)
        def self_(n, pos):
            if n['kind'] == 'add':
                for ch in n['ch']: cwo(ch, pos)
            elif n['kind'] == 'transp':
                cwo(n['ch'][0], pos)
            elif n['kind'] == 'scatter':
                comp(n['ch'][0])
            elif n['kind'] == 'loopsum':
                body = n['ch'][0]
                cwo(body, ('body', n['idx'], nested_in(body, n['idx'])))
        def comp(n):
            if self.key(n) in seen: return
            seen.add(self.key(n))
            if is_shared(n) and n['j'] not in shared: shared.append(n['j'])
            if n['kind'] == 'leaf': return
            if n['kind'] == 'transp': comp(n['ch'][0]); return
            if n['kind'] == 'add' and not any(not is_shared(ch) and ch['kind'] != 'leaf' for ch in n['ch']):
                for ch in n['ch']: comp(ch)
                return
            self_(n, ('start', innermost(n)))
        comp(root)
        return shared, early


def _prod(shape):
    n = 1
    for k in shape: n *= int(k)
    return n


def _common_prefix(paths):
    """number of enclosing loops shared by all statements that touch an accumulator (where the array is allocated — hoisted
    or not — is irrelevant)"""
    if not paths:
        return 0
    n = 0
    while all(len(p) > n for p in paths) and len({p[n] for p in paths}) == 1:
        n += 1
    return n


def _canon_ops(ops):
    """canonical order of the operations on one accumulator: zero / copy keep their place; between them the order of the
    accumulating operations is irrelevant (accumulate_order_independent) and loops of equal length are fused (nutils gives
    independent loops of equal length the same loop id)"""
    def canon_run(run):
        loops, rest = {}, []
        for op in run:
            if op[0] == 'loop':
                loops.setdefault(op[1], []).extend(op[2])
            else:
                rest.append(op)
        rest += [('loop', n, tuple(_canon_ops(body))) for n, body in loops.items()]
        return sorted(rest, key=repr)
    out, run = [], []
    for op in ops:
        if op[0] in ('zero', 'copyTo'):
            out += canon_run(run); run = []
            out.append(op)
        else:
            run.append(op)
    return out + canon_run(run)


def model_trace(stmts, result, gen):
    """canonical description of what the Lean model's script computes into `result`"""
    defs, accs = {}, {}
    def walk(ss, path):
        for s in ss:
            if s[0] == 'alloc': accs[s[1]] = []
            elif s[0] == 'leafv': defs[s[1]] = ('leaf', gen.leaf_name[s[2]])
            elif s[0] == 'plus': defs[s[1]] = ('plus', s[2], s[3])
            elif s[0] == 'reindex': defs[s[1]] = ('transpose', gen.transp_axes[s[2]], s[3])
            elif s[0] in ('zero', 'addAt', 'copyTo'): accs[s[1]].append((path, s))
            elif s[0] == 'loop': walk(s[2], path + ((s[1], id(s)),))
    walk(stmts, ())
    def desc(x):
        if x in accs:
            return ('acc', nest(accs[x]))
        d = defs[x]
        if d[0] == 'leaf': return d
        if d[0] == 'plus': return ('plus', tuple(sorted([desc(d[1]), desc(d[2])], key=repr)))
        return ('transpose', d[1], desc(d[2]))
    def nest(entries, depth=None):
        if depth is None:
            depth = _common_prefix([p for p, _ in entries])
        ops, i = [], 0
        while i < len(entries):
            path, s = entries[i]
            if len(path) > depth:
                j = i
                while j < len(entries) and len(entries[j][0]) > depth and entries[j][0][depth] == path[depth]: j += 1
                ops.append(('loop', path[depth][0], nest(entries[i:j], depth+1))); i = j
            else:
                view = tuple(gen.transp_inv[t] for t in s[2])
                if s[0] == 'zero': ops.append(('zero', view))
                elif s[0] == 'addAt': ops.append(('addAt', view, None if s[3] is None else gen.scatter_const[s[3]], desc(s[4])))
                else: ops.append(('copyTo', view, desc(s[3])))
                i += 1
        return tuple(_canon_ops(ops))
    return desc(result)


def script_trace(script, gvals):
    """the same canonical description, read off a real generated script (no first_run branch)"""
    tree = ast.parse(script).body[0]
    defs, accs = {}, {}
    ret = []
    def const_names(node):
        return [n.id for n in ast.walk(node) if isinstance(n, ast.Name) and re.fullmatch(r'c[0-9a-f]{40}', n.id)]
    def walk(ss, path):
        for s in ss:
            if isinstance(s, ast.Assign) and isinstance(s.targets[0], ast.Name):
                x, v = s.targets[0].id, s.value
                if isinstance(v, ast.Call) and (_is_attr_chain(v.func, 'numpy', 'empty') or _is_attr_chain(v.func, 'parallel', 'shempty')):
                    accs[x] = []
                elif x not in _names(v):      # `v = numpy.asarray(v, dtype=…)` keeps the first definition
                    defs[x] = v
            elif isinstance(s, ast.Expr) and isinstance(s.value, ast.Call):
                v = s.value; f = v.func
                if isinstance(f, ast.Attribute) and f.attr == 'fill':
                    base, sig, _ = view_of(f.value)
                    accs[base].append((path, ('zero', tuple(transposes_of(f.value)), tuple(sig))))
                elif _is_attr_chain(f, 'numpy', 'copyto'):
                    base, sig, _ = view_of(v.args[0])
                    accs[base].append((path, ('copyTo', tuple(transposes_of(v.args[0])), tuple(sig), v.args[1])))
                elif _is_attr_chain(f, 'numpy', 'add') and v.keywords:
                    base, sig, _ = view_of(v.args[0])
                    accs[base].append((path, ('addAt', tuple(transposes_of(v.args[0])), tuple(sig), None, v.args[1])))
                elif _is_attr_chain(f, 'numpy', 'add', 'at'):
                    base, sig, _ = view_of(v.args[0])
                    accs[base].append((path, ('addAt', tuple(transposes_of(v.args[0])), tuple(sig), v.args[1], v.args[2])))
            elif isinstance(s, ast.With):
                ctx = s.items[0].context_expr
                if s.items[0].optional_vars is not None:
                    defs[s.items[0].optional_vars.id] = ctx
                walk(s.body, path)
            elif isinstance(s, ast.For):
                rng_var = s.iter.args[1].id
                ctx = defs[rng_var]
                cn = const_names(ctx)
                length = int(gvals[cn[0]]) if cn else None
                walk(s.body, path + ((length, id(s), s.target.id),))
            elif isinstance(s, ast.Return):
                ret.append(s.value)
    walk(tree.body, ())
    def resolve_const(node):
        """name of the (table) constant an index expression is built from"""
        while True:
            if isinstance(node, ast.Name) and node.id in defs:
                node = defs[node.id]; continue
            cn = const_names(node)
            if cn: return cn[0]
            names = [n for n in _names(node) if n in defs]
            if not names: return ast.unparse(node)
            node = defs[names[0]]
    def desc(node):
        if isinstance(node, ast.Name):
            if node.id in accs:
                return ('acc', nest(accs[node.id]))
            if node.id in defs:
                return desc(defs[node.id])
            return ('?', node.id)
        if isinstance(node, ast.Call) and _is_attr_chain(node.func, 'numpy', 'asarray'):
            if isinstance(node.args[0], ast.Subscript) and isinstance(node.args[0].value, ast.Name) and node.args[0].value.id == 'a':
                return ('leaf', node.args[0].slice.value)
            return desc(node.args[0])
        if isinstance(node, ast.Call) and _is_attr_chain(node.func, 'numpy', 'take'):
            return desc(node.args[0])
        if isinstance(node, ast.Subscript):       # _Get / take along the last axis: a loop dependent leaf
            return desc(node.value)
        if isinstance(node, ast.BinOp) and isinstance(node.op, ast.Add):
            return ('plus', tuple(sorted([desc(node.left), desc(node.right)], key=repr)))
        if isinstance(node, ast.Call) and _is_attr_chain(node.func, 'numpy', 'transpose'):
            return ('transpose', tuple(ast.literal_eval(node.args[1])), desc(node.args[0]))
        return ('?', ast.unparse(node)[:60])
    def nest(entries, depth=None):
        if depth is None:
            depth = _common_prefix([tuple(q[1] for q in p) for p, _ in entries])
        ops, i = [], 0
        while i < len(entries):
            path, s = entries[i]
            if len(path) > depth:
                j = i
                while j < len(entries) and len(entries[j][0]) > depth and entries[j][0][depth][1] == path[depth][1]: j += 1
                ops.append(('loop', path[depth][0], nest(entries[i:j], depth+1))); i = j
            else:
                if s[2]:
                    ops.append(('?region', s[2]))
                elif s[0] == 'zero': ops.append(('zero', s[1]))
                elif s[0] == 'addAt':
                    idx = None
                    if s[3] is not None:
                        last = s[3].elts[-1]
                        idx = resolve_const(last)
                    ops.append(('addAt', s[1], idx, desc(s[4])))
                else: ops.append(('copyTo', s[1], desc(s[3])))
                i += 1
        return tuple(_canon_ops(ops))
    if len(ret) != 1:
        raise Untranslatable('return')
    return desc(ret[0])


# ======================================================================================= deterministic stream: in-place Assemble

def assemble_stream(c, counts):
    """every tuple of index kinds (Range / 0-d / 1-d / 2-d, up to 4 indices) through the in-place path `Add(Assemble, g)`,
    compared with the definition of Assemble computed with Python ints.  (Regression stream of the pinned-tree defect
    'advanced indices separated by a slice'.)"""
    rng = numpy.random.default_rng(c.seed)
    bad = []
    nd = {'R': 1, '0': 0, '1': 1, '2': 2}
    for n in range(1, 5):
        for combo in itertools.product('R012', repeat=n):
            if combo.count('2') > 1 or sum(nd[k] for k in combo) > 4:
                continue
            shape, indices, fshape, ivals = [], [], [], []
            for k in combo:
                L = int(rng.integers(2, 4))
                shape.append(L)
                if k == 'R':
                    indices.append(ev.Range(ev.constant(L))); fshape.append(L); ivals.append(numpy.arange(L))
                elif k == '0':
                    v = numpy.array(int(rng.integers(0, L))); indices.append(ev.constant(int(v))); ivals.append(v)
                elif k == '1':
                    m = int(rng.integers(2, 4)); v = rng.integers(0, L, (m,)); indices.append(ev.Constant(types.arraydata(v))); fshape.append(m); ivals.append(v)
                else:
                    v = rng.integers(0, L, (2, 3)); indices.append(ev.Constant(types.arraydata(v))); fshape += [2, 3]; ivals.append(v)
            f = ev.Argument('f', tuple(map(ev.constant, fshape)), float)
            g = ev.Argument('g', tuple(map(ev.constant, shape)), float)
            F = rng.integers(-4, 5, fshape).astype(float); G = rng.integers(-4, 5, shape).astype(float)
            e = Add(ev.Assemble(f, tuple(indices), tuple(map(ev.constant, shape))), g)
            # the definition: out[i0[..], i1[..], …] += f[all index positions], in exact integer arithmetic
            expect = G.astype(int).astype(object).copy()
            offs = numpy.cumsum([0] + [iv.ndim for iv in ivals])
            for pos in itertools.product(*[range(k) for k in fshape]):
                tgt = tuple(int(iv[pos[o:o+iv.ndim]]) for iv, o in zip(ivals, offs))
                expect[tgt] += int(F[pos])
            kind, val, scripts, _ = run_config(e, [dict(f=F, g=G)], BASE, timeout=10)
            c.case(('assemble-stream', combo)); counts['assemble-stream'] += 1
            ok = kind == 'ok' and numpy.asarray(val[0]).shape == tuple(shape) and (numpy.asarray(val[0]) == expect.astype(float)).all()
            if not ok:
                bad.append((combo, kind, e, dict(f=F, g=G), scripts[-1] if scripts else None, repr(val)[:200]))
    return bad


# ======================================================================================= the check

Program = collections.namedtuple('Program', 'name funcs args args2')


def choose_configs(c, prog_has_loop, budget_parallel):
    serial = [cf for cf in all_configs() if cf.maxprocs == 1]
    default = Config(True, True, True, None, 1)
    if c.tier == 'thorough':
        chosen = list(serial)
    else:
        others = [cf for cf in serial if cf not in (BASE, default)]
        chosen = [BASE, default] + c.rng.sample(others, 3)
    if prog_has_loop and budget_parallel[0] > 0:
        budget_parallel[0] -= 1
        par = [cf for cf in all_configs() if cf.maxprocs == 2]
        chosen += c.rng.sample(par, 2 if c.tier == 'thorough' else 1)
    return chosen


def has_loop(funcs):
    _, flat = flatten(funcs)
    return any(e._loops for e in flat)


def run(c):
    c.rule = ('programs = (a) a catalogue of ~130 hand-enumerated program shapes (float/int/bool) that force every branch of the in-place protocol, '
              '(b) random well-typed DAGs from nvh.genexpr (half restricted to the in-place/loop vocabulary), single arrays and nested tuples sharing subterms and loops, '
              '(c) random tree/DAG programs of the verified sub-language; each is compiled by the real evaluable.compile under sampled (quick) or all (thorough) configurations '
              'and compared exactly with the Lean specification evaluator on the un-simplified tree; a case = (program, configuration), distinct by program hash and configuration; '
              'non-trivial when the program compiles to at least one in-place statement or loop; '
              '(d) systematic streams in worker processes: every operator sequence up to length 3 (Assemble theme) / 4 (Einsum theme) [thorough: 4 / 5] with 2-3 random instances each '
              '(rank 1..4, axis lengths 2..3, transpositions, 0/1/2-d dofmaps, partners, 20% inside loops), real-code differential un-rewritten vs optimised vs simplified+optimised, candidates decided by the Lean specification value; '
              'programs with loop-dependent allocation under maxprocs 2/3 with a starved parent; static shared-memory rule on every script with forked loops')
    c.assumptions += [
        'complex dtype is not generated',
        'values are dyadic so float arithmetic is exact for +,-,*; results involving division/transcendentals are compared with rtol 1e-11 (counted as "close")',
        'numpy.empty is replaced by a sentinel-filled allocation inside the generated function only (harness process), so unwritten cells are visible; NumPy itself is trusted',
        'the script checker tracks initialisation per region of an array under the tiling assumption stated in Model/C02.lean (validated dynamically by the sentinel)',
        'maxprocs=2 is compared for its result only (fork based); scheduling is the subject of C16',
        'compileCore (verified model) covers {leaf, Add, Inflate/Assemble, Transpose, LoopSum} without statement hoisting; its tie to the real scripts is a comparison of accumulator traces',
        'Lean evaluator parametricity (symbolic "same" => equal for all real arguments) relies on Props/Poly',
        'worker streams: a deviation between two real compilations is only a candidate; the verdict is the comparison with the Lean specification value in this process. A deviation that is already present in the simplified tree compiled without rewriting (or a simplification that does not return) is the subject of C01: logged in extra.simplifier_deviations_seen, not a verdict here',
        'parallel stream: the distribution of the iterations of a forked loop over the processes is steered (the parent waits until the children have consumed the shared range, 4 s patience) — a legal schedule of the real parallel.ctxrange, which is otherwise used unchanged',
        'the rule "accumulators of forked loops are allocated with parallel.shempty and accumulated under a lock" is a Python AST analysis of the generated script, not backed by a Lean theorem; a hit is searched for a failing input under the starved-parent schedule']
    # the systematic streams run in worker processes from the very start (forked before this process has threads or
    # instrumentation); they are collected, and their candidates decided by the specification oracle, at the end
    streams = c02_enum.Streams(c)
    hits = Hits()
    try:
        broken = c.build_and_audit()
        quick = c.tier == 'quick'
        counts = collections.Counter()
        hits.__enter__()
        _run(c, quick, counts, hits, broken, streams)
    finally:
        streams.close()
        hits.__exit__()


def has_nonfinite(vals):
    for v in vals:
        for a in flatten(v)[1]:
            a = numpy.asarray(a)
            if a.dtype.kind in 'fc' and not numpy.isfinite(a).all():
                return True
    return False


def compare_run(funcs, kind, val, lean):
    if kind != 'ok':
        return 'raises', '%s: %s' % (type(val).__name__, str(val)[:200])
    for k, (v, res) in enumerate(zip(val, lean)):
        bad = compare_with_spec(funcs, res, v)
        if bad:
            return 'mismatch', 'call %d: %s' % (k, ','.join(bad))
    return 'ok', ''


def simplifier_alone(funcs, args_list, lean):
    """is a deviation under `_simplify=True` already present in the simplified tree itself (compiled without any further
    rewriting), or does simplification not return?  Then the subject is C01 (simplification preserves the value), not the
    translation."""
    fmt, flat = flatten(funcs)
    kind, simp = X.guarded(lambda: [e.simplified for e in flat], 20)
    if kind != 'ok':
        return 'simplification %s' % ('does not return' if kind == 'hang' else 'raises %r' % (simp,))
    it = iter(simp)
    def rebuild(f):
        return tuple(rebuild(x) for x in f) if isinstance(f, tuple) else next(it)
    sfuncs = rebuild(fmt)
    verdict, detail, _ = evaluate_program(sfuncs, args_list, BASE, lean)
    return 'the simplified tree itself (compiled without rewriting): %s %s' % (verdict, detail) if verdict != 'ok' else None


def stream_verdicts(c, streams, counts):
    """collect the worker streams; decide their candidates with the specification oracle"""
    quick = c.tier == 'quick'
    try:
        results = streams.collect(400 if quick else 1800)
    except Exception as ex:
        raise Infra('the worker streams did not finish: %r' % (ex,))
    cands = []
    tot = collections.Counter()
    for kind, cnt, cs in results:
        if kind == 'crash':
            raise Infra('a stream worker crashed: %s' % json.dumps(cs)[:1500])
        for k, v in cnt.items():
            tot['%s:%s' % (kind, k)] += v
        cands += cs
    for k, v in tot.items(): counts['stream:' + k] += v
    c.evaluations += tot['enum:trees'] + tot['par:par-runs'] + tot['enum:static-scripts'] + tot['par:static-scripts']
    c.traces += tot['enum:runs'] + tot['par:par-runs']
    c.extra['stream_totals'] = dict(tot)
    c.log('streams: %d operator-sequence trees (%d distinct sequences summed over workers, %d compile+run, %d core incomplete), %d parallel executions of %d programs, %d parallel scripts checked statically; %d candidates' % (
        tot['enum:trees'], tot['enum:distinct-sequences'], tot['enum:runs'], sum(v for k, v in tot.items() if k.startswith('enum:core-incomplete')), tot['par:par-runs'], tot['par:par-programs'],
        tot['enum:static-scripts'] + tot['par:static-scripts'], len(cands)))
    # one candidate per (stream, kind, configuration flags, leading operators): bounded work
    chosen, seen = [], set()
    for cd in cands:
        key = (cd['theme'] in 'P', cd['kind'].split(':')[0], tuple(cd['cfg'][:2]), cd['cfg'][4] > 1, '-'.join(cd['seq'].split('-')[-2:]) if cd['theme'] != 'P' else cd['seq'].split(':')[-1])
        if key in seen: continue
        seen.add(key); chosen.append(cd)
    chosen = chosen[:6 if quick else 20]
    unpacked = [c02_enum.unpack(cd['packed']) for cd in chosen]
    items = []
    for funcs, args_list in unpacked:
        flat = flatten(funcs)[1]
        items += [(flat, args_list[0]), (flat, args_list[1])]
    lean = lean_eval(c, items) if items else []
    nbad = {'enum': 0, 'par': 0, 'static': 0}
    for k, (cd, (funcs, args_list)) in enumerate(zip(chosen, unpacked)):
        cfg = Config(*cd['cfg'])
        stream = 'static' if cd['kind'].startswith('static:') else 'par' if cd['theme'] == 'P' else 'enum'
        what = '%s %s' % (cd['theme'], cd['seq'])
        ll = [lean[2*k], lean[2*k+1]]
        st = 'not-serialisable' if ll[0] is None or ll[1] is None else spec_status(ll[0]) if spec_status(ll[0]) != 'ok' else spec_status(ll[1])
        replay = dict(stream=stream, program=what, config=cfg_name(cfg), differential=cd['kind'], original=describe_funcs(funcs, args_list[0]), pickled=pack(funcs, args_list))
        if st == 'undefined':
            # the expression is not defined (an intermediate divides by zero, takes a root of a negative number, ...) at
            # this argument value: outside the property's quantifier ("defined and finite"), not a verdict
            counts['stream:candidate-dropped-original-undefined'] += 1
            continue
        if st != 'ok':
            counts['stream:candidate-spec-' + st] += 1
            nbad[stream] += 1
            c.broken_no_input('stream:%s-undecided' % stream, 'the real code deviates from its own un-rewritten serial compilation (%s under %s) but the specification evaluator has no value for the tree (%s)' % (cd['kind'], cfg_name(cfg), st), replay)
            continue
        al = args_list if cfg.cache else args_list[:1]
        lc = ll if cfg.cache else ll[:1]
        if cfg.simplify:
            ks, vs = X.guarded(lambda: [e.simplified for e in flatten(funcs)[1]], 10)
            if ks != 'ok':
                counts['stream:simplifier-deviation(C01)'] += 1
                c.extra.setdefault('simplifier_deviations_seen', []).append(dict(program=what, why='simplification %s' % ('does not return' if ks == 'hang' else 'raises %r' % (vs,)), pickled=pack(funcs, args_list)))
                c.log('note: %s: simplification %s: subject of C01, not a verdict of this check' % (what, 'does not return' if ks == 'hang' else 'raises %r' % (vs,)))
                continue
        verdict, detail, scripts = evaluate_program(funcs, al, cfg, lc)
        if verdict == 'ok':
            vb, db, _ = evaluate_program(funcs, al, BASE, lc)
            if vb != 'ok':
                verdict, detail, cfg = vb, db, BASE
            elif stream == 'static':
                nbad[stream] += 1
                c.broken_no_input('xscript:parallel-' + cd['kind'].split(':', 1)[1], 'a script whose outer loops are forked keeps an accumulator in private memory / accumulates without lock; no wrong value under the schedules tried', dict(replay, script=scripts[-1] if scripts else None))
                continue
            else:
                counts['stream:candidate-not-reproduced'] += 1
                continue
        if cfg.simplify:
            why = simplifier_alone(funcs, al, lc)
            if why:
                counts['stream:simplifier-deviation(C01)'] += 1
                c.extra.setdefault('simplifier_deviations_seen', []).append(dict(program=what, why=why, tree=describe_funcs(funcs, args_list[0])['trees'], pickled=pack(funcs, args_list)))
                c.log('note: %s under %s deviates because of simplification alone (%s): subject of C01, not a verdict of this check' % (what, cfg_name(cfg), why[:120]))
                continue
        nbad[stream] += 1
        sig, small, sargs, failing = signature_for(c, what, funcs, al, cfg, verdict, detail, lc)
        c.failing_input(sig, 'compiled function (%s) %s: %s [%s stream: %s]' % (cfg_name(cfg), 'returns a value that differs from what the expression denotes' if verdict == 'mismatch' else 'raises', detail, stream, what),
                        dict(replay, failing_config=cfg_name(failing), detail=detail, minimal=describe_funcs(small, sargs), pickled=pack(small, [sargs]), script=(scripts[-1] if scripts else None)))
    c.obligation('stream:operator-sequences', nbad['enum'] == 0 and tot['enum:trees'] > 0, 'validation',
                 '%d trees of the operator-sequence enumeration (%d compile+run): the optimised / simplified+optimised compilations equal the un-rewritten one' % (tot['enum:trees'], tot['enum:runs']))
    c.obligation('stream:parallel-starved-parent', nbad['par'] == 0 and tot['par:par-runs'] > 0, 'validation',
                 '%d executions with forked outer loops in which the parent takes no iteration equal the serial un-rewritten compilation' % tot['par:par-runs'])
    c.obligation('static:parallel-accumulators-shared', nbad['static'] == 0 and tot['enum:static-scripts'] + tot['par:static-scripts'] > 0, 'validation',
                 '%d scripts with forked loops: every accumulator written inside a forked loop and read after it is in shared memory and accumulated under its lock' % (tot['enum:static-scripts'] + tot['par:static-scripts']))


def known_inputs():
    """recorded minimal inputs of findings of this property: signature -> (funcs, args, configuration, expected value by
    exact recomputation of the definition).  Open entries of known_findings.json with one of these signatures are re-run on
    every check run."""
    k = ev.constant
    x = ev.Argument('x', (k(2), k(2), k(2)), float)
    Dv = numpy.array([[0, 1], [2, 0]])
    e = ev.Inflate(ev.Inflate(ev.Transpose(ev.Inflate(x, ev.Constant(types.arraydata(Dv)), k(3)), (1, 0)), k(1), k(2)), k(2), k(3))
    X = numpy.arange(1, 9).reshape(2, 2, 2)
    E1 = numpy.zeros((2, 3), dtype=int)
    for a, i, j in itertools.product(range(2), range(2), range(2)):
        E1[a, Dv[i, j]] += X[a, i, j]
    E = numpy.zeros((3, 2, 2, 3), dtype=int)
    E[:, :, 1, 2] = E1.T
    return {'optimize-wrong-value:Assemble:merge-of-3-indices': (e, dict(x=X.astype(float)), Config(True, True, False, False, 1), E.astype(float))}


def rerun_known_findings(c):
    kin = known_inputs()
    for entry in c.findings:
        if entry.get('status') != 'open':
            continue
        rec = kin.get(entry.get('signature'))
        if rec is None:
            c.log('note: open known finding %r has no recorded input in this check' % entry.get('id'))
            continue
        funcs, args, cfg, expected = rec
        kind, val, _, _ = run_config(funcs, [args], cfg)
        still = kind != 'ok' or numpy.asarray(val[0]).shape != expected.shape or not (numpy.asarray(val[0]) == expected).all()
        c.report_known_still_failing(entry, still)


def _run(c, quick, counts, hits, broken, streams):
    rng = c.rng
    rerun_known_findings(c)
    # =============================================================== phase A: the real code (no Lean)
    # ---- 0. deterministic Assemble stream
    bad = assemble_stream(c, counts)
    def separated(combo):
        adv = [k for k, x in enumerate(combo) if x != 'R']
        return bool(adv) and adv[-1] - adv[0] != len(adv) - 1 and any(combo[k] != '0' for k in adv)
    only_separated = all(separated(b[0]) for b in bad)
    for combo, kind, e, args, script, got in bad[:1]:
        c.failing_input(('compile-wrong-value' if kind == 'ok' else 'compile-raises') + (':optimize:Assemble-inplace-separated-advanced-indices' if only_separated else ':base:Add+Assemble'),
                        'in-place Assemble with index kinds %s is wrong (%d of the index-kind tuples fail)' % (''.join(combo), len(bad)),
                        dict(index_kinds=''.join(combo), outcome=kind, got=got, script=script, pickled=pack(e, [args]), failing_tuples=[''.join(b[0]) for b in bad]))
    c.obligation('stream:assemble-index-kinds', not bad, 'correspondence', '%d index-kind tuples through the in-place Assemble path, exact integer oracle' % counts['assemble-stream'])

    # ---- 1. programs
    programs = []
    for T in (float, int, bool):
        cat = catalogue(rng, T)
        for n, ex in catalogue.build_errors:
            c.failing_input('construct-raises:%s:%s' % (n, type(ex).__name__), 'constructing the catalogue program %s (%s) raises %r' % (n, T.__name__, ex), dict(program=n, dtype=T.__name__, exception=repr(ex)))
        names = list(cat)
        if quick and T == int:
            names = names[c.seed % 3::3]
        for n in names:
            funcs, args = cat[n]
            programs.append(Program('%s:%s' % (T.__name__, n), funcs, args, second_args(args)))
    nrandom = 30 if quick else 500
    for name, funcs, args, ghits in random_programs(rng, nrandom, 3 if quick else 5):
        for k, v in ghits.items(): counts['gen:' + k] += v
        programs.append(Program(name, funcs, args, second_args(args)))
    core_cases = []
    for k in range(30 if quick else 300):
        g = CoreGen(rng)
        shape = tuple(rng.choice([1, 2, 3]) for _ in range(rng.choice([1, 2, 2, 3])))
        root = g.gen(shape, [], rng.choice([1, 2, 3, 4]))
        core_cases.append((g, root))
        if k < (6 if quick else 60):
            programs.append(Program('core-%d' % k, root['e'], g.b.args, second_args(g.b.args)))
    c.log('%d programs' % len(programs))

    # ---- 2. all real runs
    budget_parallel = [6 if quick else 60]
    runs = []          # (program index, cfg, kind, val, scripts, nontrivial)
    scripts_seen = {}
    t0 = time.time()
    for pi, p in enumerate(programs):
        for cfg in choose_configs(c, has_loop(p.funcs), budget_parallel):
            args_list = [p.args, p.args2] if cfg.cache else [p.args]
            before = sum(hits.n.values())
            kind, val, scripts, _ = run_config(p.funcs, args_list, cfg)
            nontrivial = sum(hits.n.values()) > before or any('for ' in s for s in scripts)
            runs.append((pi, cfg, kind, val, scripts, nontrivial))
            for s in scripts:
                script_features(s, hits.n)
            if kind == 'ok' and scripts and len(scripts_seen) < (220 if quick else 3000) and scripts[-1] not in scripts_seen:
                scripts_seen[scripts[-1]] = (p, cfg)
    c.log('%d real compile+run: %.1fs' % (len(runs), time.time() - t0))

    # ---- 2b. every program with loops: the script with forked outer loops (compile only), checked statically
    static_flagged = []
    t0 = time.time()
    for pi, p in enumerate(programs):
        if not has_loop(p.funcs):
            continue
        pcfg = Config(rng.random() < .5, rng.random() < .5, rng.random() < .25, False, 2, 'starved')
        kind, scripts = c02_enum.compile_only(p.funcs, pcfg)
        if kind != 'ok' or not scripts:
            continue      # raising compilations are the subject of M-eval
        counts['static:parallel-scripts'] += 1
        counts['static:shared-allocations'] += scripts[-1].count('parallel.shempty')
        prob = c02_enum.parallel_static(scripts[-1])
        if prob:
            static_flagged.append((pi, pcfg, prob, scripts[-1]))
    c.log('%d scripts with forked outer loops checked statically: %.1fs' % (counts['static:parallel-scripts'], time.time() - t0))

    # ---- 3. V-opt pairs
    pairs, tags = [], []
    fired = collections.Counter()
    for rule, node, args, must_fire in rule_instances(rng):
        kind, res = X.guarded(lambda: node._optimized_for_numpy(), 10)
        if kind != 'ok':
            c.failing_input('optimize-raises:' + rule, 'the optimisation rule raises %r' % (res,), dict(rule=rule, expr=X.describe(node, args)))
            continue
        if res is None:
            fired['declined:' + rule] += 1
            if must_fire:
                c.broken_no_input('vopt:rule-does-not-fire:' + rule, 'the minimal instance of an optimisation rule no longer triggers the rule', dict(rule=rule, expr=X.describe(node, args)))
            continue
        fired['fired:' + rule] += 1
        if not must_fire:
            counts['vopt:unexpected-fire:' + rule] += 1
        pairs.append((node, res, args)); tags.append(('rule:' + rule, node, res, args))
    nprog_pairs = 0
    order = list(range(len(programs)))
    rng.shuffle(order)
    for pi in order:
        p = programs[pi]
        if nprog_pairs >= (30 if quick else 500): break
        _, flat = flatten(p.funcs)
        for e in flat[:2]:
            for simp in (False, True):
                kind, sx = X.guarded(lambda: e.simplified if simp else e, 20)
                if kind != 'ok': continue
                kind, o = X.guarded(lambda: apply_opt(sx), 20)
                if kind != 'ok':
                    if kind == 'exception':
                        c.failing_input('optimize-raises:' + shrink.skeleton(sx), 'the optimisation pass raises %r' % (o,), dict(expr=X.describe(sx, p.args), pickled=pack(sx, [p.args])))
                    continue
                if o is sx:
                    counts['vopt:unchanged'] += 1; continue
                pairs.append((sx, o, p.args)); tags.append(('program:%s:simplified=%d' % (p.name, simp), sx, o, p.args)); nprog_pairs += 1
    for name, e, eargs in c02_enum.sample_trees(rng, 24 if quick else 250):
        kind, o = X.guarded(lambda: apply_opt(e), 20)
        if kind == 'exception':
            c.failing_input('optimize-raises:' + shrink.skeleton(e), 'the optimisation pass raises %r' % (o,), dict(expr=X.describe(e, eargs), pickled=pack(e, [eargs])))
        if kind != 'ok' or o is e:
            continue
        pairs.append((e, o, eargs)); tags.append(('sequence:' + name, e, o, eargs)); counts['vopt:sequence-instances'] += 1
    vopt_reqs, vopt_index = vopt_requests(pairs)

    # ---- 4. scripts -> statement language
    script_reqs, script_meta, flat_reqs, flat_meta = [], [], [], []
    for script, (p, cfg) in scripts_seen.items():
        gl = re.findall(r'\b(?:c[0-9a-f]{40}|e\d+)\b', script)
        try:
            req, info = translate_script(script, ['numpy', 'evaluable', 'numeric', 'parallel', 'treelog', 'collections', 'Stats', 'log_stats', 'ret_tuple', 'multiprocessing', 'warnings', 'poly', 'first_run'] + gl)
        except Untranslatable as ex:
            counts['xscript:untranslatable'] += 1
            c.broken_no_input('xscript:vocabulary', 'a generated script uses a construct outside the statement language: %s' % ex, dict(program=p.name, config=cfg_name(cfg), script=script))
            continue
        script_reqs.append(json.dumps(req, separators=(',', ':'))); script_meta.append((script, p, cfg, info))
        if info['loops']:
            def tree(prefix, loops=info['loops']):
                n = len({l for l in loops if len(l) == len(prefix) + 1 and l[:len(prefix)] == prefix})
                return [tree(prefix + (k,)) for k in range(n)]
            flat_reqs.append(json.dumps(dict(flat=tree(()))))
            flat_meta.append((script, p, cfg, info['loops']))
            if info['rerun'] and len(info.get('rerun_loops', ())) < len(info['loops']):
                hits.n['rerun:loops-skipped'] += 1
        if info['rerun']:
            rr = [st for st in req['script']['prog'] if st[0] == 'rerun']
            if rr and len(json.dumps(rr[0][3])) < len(json.dumps(rr[0][2])) - 200:
                hits.n['rerun:blocks-skipped'] += 1

    # ---- 5. M-core: real scripts of sub-language programs
    core_reqs, core_real, exec_reqs = [], [], []
    for g, root in core_cases:
        shared, early = g.gates(root)
        core_reqs.append(json.dumps(dict(core=root['j'], shared=shared, early=early), separators=(',', ':')))
        exec_reqs.append(g.exec_request(root, shared, early))
        kind, val, scripts, gl = run_config(root['e'], [g.b.args], BASE)
        tr = None
        if kind == 'ok':
            try:
                tr = ('ok', script_trace(scripts[-1], gl[-1]))
            except Exception as ex:
                tr = ('error', repr(ex))
        core_real.append((kind, val, scripts, tr))
    nblock = 1500 if quick else 4000
    blocksample = hits.blockof if len(hits.blockof) < nblock else rng.sample(hits.blockof, nblock)
    block_reqs = [json.dumps(dict(blockof=[list(map(list, deps)) for deps, _ in blocksample]))] if blocksample else []

    # =============================================================== phase B: Lean (two drivers, concurrently)
    items = []
    for p in programs:
        _, flat = flatten(p.funcs)
        items.append((flat, p.args)); items.append((flat, p.args2))
    spec_reqs, spec_pos = [], []
    for k, (flat, args) in enumerate(items):
        try:
            r, _ = ser.request(flat, args)
        except ValueError:
            continue
        spec_reqs.append(r); spec_pos.append(k)
    t0 = time.time()
    box = {}
    def expr_job():
        try: box['expr'] = model_parallel(c, spec_reqs + vopt_reqs, 'Expr', nproc=5)
        except BaseException as ex: box['expr_err'] = ex
    def c02_job():
        try: box['c02'] = model_parallel(c, script_reqs + flat_reqs + block_reqs + core_reqs + exec_reqs, 'C02', nproc=3)
        except BaseException as ex: box['c02_err'] = ex
    th = [threading.Thread(target=expr_job), threading.Thread(target=c02_job)]
    for t in th: t.start()
    for t in th: t.join()
    for k in ('expr_err', 'c02_err'):
        if k in box: raise box[k]
    c.log('Lean: %d specification evaluations + %d optimisation pairs (driver Expr), %d scripts + %d loop trees + %d block ids + %d core programs (traces and executions) (driver C02): %.1fs' % (
        len(spec_reqs), len(vopt_index), len(script_reqs), len(flat_reqs), len(blocksample), len(core_reqs), time.time() - t0))
    expr_ans, c02_ans = box['expr'], box['c02']
    lean = [None] * len(items)
    for k, a in zip(spec_pos, expr_ans[:len(spec_reqs)]):
        if a.startswith('bad-request'):
            raise Infra('Expr driver rejected a request: ' + a[:300])
        lean[k] = json.loads(a)['results']
    vopt_ans = expr_ans[len(spec_reqs):]
    script_ans = c02_ans[:len(script_reqs)]
    flat_ans = c02_ans[len(script_reqs):len(script_reqs) + len(flat_reqs)]
    block_ans = c02_ans[len(script_reqs) + len(flat_reqs):len(script_reqs) + len(flat_reqs) + len(block_reqs)]
    core_ans = c02_ans[len(script_reqs) + len(flat_reqs) + len(block_reqs):len(script_reqs) + len(flat_reqs) + len(block_reqs) + len(core_reqs)]
    exec_ans = c02_ans[len(script_reqs) + len(flat_reqs) + len(block_reqs) + len(core_reqs):]

    # =============================================================== phase C: verdicts
    # ---- M-eval
    usable = {}
    for pi, p in enumerate(programs):
        l1, l2 = lean[2*pi], lean[2*pi+1]
        if l1 is None or l2 is None:
            counts['spec:not-serialisable'] += 1; continue
        st = spec_status(l1) if spec_status(l1) != 'ok' else spec_status(l2)
        counts['spec:' + st] += 1
        if st == 'illformed':
            c.broken_no_input('corr:spec-eval', 'the Lean evaluator reports an ill-formed tree for a generated program', dict(program=p.name, expr=describe_funcs(p.funcs, p.args), lean=l1))
        if st == 'ok':
            usable[pi] = (l1, l2)
    nmis = 0
    checked = collections.Counter()
    failed_scripts = set()
    for pi, cfg, kind, val, scripts, nontrivial in runs:
        if pi not in usable:
            continue
        p = programs[pi]
        l1, l2 = usable[pi]
        ll = [l1, l2] if cfg.cache else [l1]
        args_list = [p.args, p.args2] if cfg.cache else [p.args]
        key = tuple(e.__nutils_hash__ for e in flatten(p.funcs)[1])
        c.case((key, cfg), nontrivial=nontrivial)
        checked[cfg_name(cfg)] += 1
        verdict, detail = compare_run(p.funcs, kind, val, ll)
        counts['meval:' + verdict] += 1
        if verdict == 'ok':
            c.traces += 1
            if len(c.samples) < 3 and p.name.startswith('random') and nontrivial and scripts:
                c.sample(dict(program=p.name, config=cfg_name(cfg), structure=repr(flatten(p.funcs)[0]), script=scripts[-1][:1500]))
            continue
        failed_scripts.update(scripts)
        if verdict == 'mismatch' and has_nonfinite(val):
            # NaN / inf: arithmetic of the un-simplified expression (not decidable here, as in C01) or an uninitialised cell?
            kb, vb, _, _ = run_config(p.funcs, args_list, BASE, sentinel=False)
            kc, vc, _, _ = run_config(p.funcs, args_list, cfg, sentinel=False)
            if kb == 'ok' and has_nonfinite(vb) and kc == 'ok' and has_nonfinite(vc):
                counts['meval:real-arithmetic-nonfinite'] += 1
                counts['meval:mismatch'] -= 1
                continue
        v2, d2, _ = evaluate_program(p.funcs, args_list, cfg, ll)     # candidate: must reproduce
        if v2 == 'ok':
            counts['meval:not-reproducible'] += 1
            c.broken_no_input('meval:flaky', 'a mismatch did not reproduce', dict(program=p.name, config=cfg_name(cfg), detail=detail))
            continue
        nmis += 1
        if nmis > (5 if quick else 25):
            continue
        sig, small, sargs, failing = signature_for(c, p.name, p.funcs, args_list, cfg, verdict, detail, ll)
        c.failing_input(sig, 'compiled function (%s) %s: %s' % (cfg_name(cfg), 'returns a value that differs from what the expression denotes' if verdict == 'mismatch' else 'raises', detail),
                        dict(program=p.name, config=cfg_name(cfg), failing_config=cfg_name(failing), detail=detail, minimal=describe_funcs(small, sargs),
                             original=describe_funcs(p.funcs, p.args), pickled=pack(small, [sargs]), script=(scripts[-1] if scripts else None)))
    # ---- static rule on the forked scripts of the programs: search for a failing input under the starved-parent schedule
    for pi, pcfg, prob, script in static_flagged[:3]:
        p = programs[pi]
        replay = dict(program=p.name, config=cfg_name(pcfg), problems=[list(x) for x in prob], script=script, original=describe_funcs(p.funcs, p.args), pickled=pack(p.funcs, [p.args]))
        verdict = 'ok'
        if pi in usable:
            ll = list(usable[pi]) if pcfg.cache else [usable[pi][0]]
            al = [p.args, p.args2] if pcfg.cache else [p.args]
            verdict, detail, _ = evaluate_program(p.funcs, al, pcfg, ll)
        if verdict != 'ok':
            sig, small, sargs, failing = signature_for(c, p.name, p.funcs, al, pcfg, verdict, detail, ll)
            c.failing_input(sig, 'compiled function (%s) %s: %s [accumulator %s of a forked loop is not in shared memory]' % (cfg_name(pcfg), 'returns a value that differs from what the expression denotes' if verdict == 'mismatch' else 'raises', detail, prob[0][1]),
                            dict(replay, failing_config=cfg_name(failing), detail=detail, minimal=describe_funcs(small, sargs), pickled=pack(small, [sargs])))
        else:
            c.broken_no_input('xscript:parallel-' + prob[0][0], 'a script whose outer loops are forked keeps an accumulator in private memory / accumulates without lock; no wrong value under the schedules tried', replay)
    c.obligation('static:parallel-accumulators-shared:programs', not static_flagged and counts['static:parallel-scripts'] > 0, 'validation',
                 '%d scripts with forked outer loops (every program with loops): accumulators of forked loops are shared and locked' % counts['static:parallel-scripts'])
    c.extra['configurations_checked'] = dict(checked)
    c.extra['mismatching_program_configurations'] = nmis
    c.obligation('oracle:compiled-equals-denotation', nmis == 0 and counts['meval:ok'] > 0, 'validation',
                 '%d (program, configuration) pairs agree with the Lean specification evaluator' % counts['meval:ok'])

    # ---- V-opt
    nsym = nconc = 0
    for k, a1, a2 in zip(vopt_index, vopt_ans[0::2], vopt_ans[1::2]):
        tag, e, o, args = tags[k]
        if a1.startswith('bad-request') or a2.startswith('bad-request'):
            raise Infra('Expr driver rejected a V-opt request: ' + (a1 if a1.startswith('bad') else a2)[:300])
        a1, a2 = json.loads(a1), json.loads(a2)
        meta_ok = o.dtype == e.dtype and o.ndim == e.ndim
        c.case(('vopt', e.__nutils_hash__, o.__nutils_hash__))
        if a2['cmp'] == ['same'] and meta_ok:
            nsym += 1; counts['vopt:proved-symbolically'] += 1
        elif a1['cmp'] == ['same'] and meta_ok:
            nconc += 1; counts['vopt:equal-at-sample-point'] += 1
        else:
            st = spec_status(a1['results'])
            if st in ('undefined', 'unsupported'):
                counts['vopt:' + st] += 1; continue
            # candidate: confirm on the real code (both trees evaluated without further rewriting)
            k1, v1 = X.real_eval(e, args); k2, v2 = X.real_eval(o, args)
            if not meta_ok or (k1 == 'ok' and (k2 in ('exception', 'hang') or (k2 == 'ok' and not X.arrays_close(v1, v2)))):
                rule = tag.split(':', 1)[1] if tag.startswith('rule:') else None
                sig = 'optimize-wrong-value:' + (rule if rule else shrink.skeleton(o))
                c.failing_input(sig, 'the numpy-optimised expression differs from the expression it replaces', dict(tag=tag, expr=X.describe(e, args), optimised=X.describe(o, args)['tree'],
                                real_original=(v1.tolist() if k1 == 'ok' else repr(v1)), real_optimised=(v2.tolist() if k2 == 'ok' else repr(v2)), lean=a1, pickled=pack((e, o), [args])))
            else:
                counts['vopt:lean-cannot-decide'] += 1
    c.extra['optimisation_rules'] = dict(fired)
    c.extra['vopt_proved_symbolically_for_all_real_arguments'] = nsym
    c.extra['vopt_decided_at_sample_point_only'] = nconc
    c.obligation('valid:optimised-equals-original', not any(v[2].startswith('optimize-') for v in c.violations) and nsym + nconc > 0, 'validation', '%d symbolic + %d at sample point' % (nsym, nconc))

    # ---- X-script
    nacc = 0
    for a, (script, p, cfg, info) in zip(script_ans, script_meta):
        if a.startswith('bad-request'):
            raise Infra('C02 driver rejected a script: ' + a[:300])
        a = json.loads(a)
        c.case(('xscript', script))
        if a['ok']:
            nacc += 1
        else:
            counts['xscript:rejected:' + a['kind']] += 1
            c.broken_no_input('xscript:' + a['kind'], 'a generated script is not well-formed (%s of %s) although its value agreed with the specification on the inputs tried' % (a['kind'], a['var']),
                              dict(program=p.name, config=cfg_name(cfg), verdict=a, script=script))
    c.obligation('static:scripts-well-formed', nacc == len(script_reqs) and nacc > 0, 'validation', '%d scripts accepted by the checker of Props/C02.initialised_before_use_sound' % nacc)
    okflat = True
    for a, (script, p, cfg, loops) in zip(flat_ans, flat_meta):
        ids = json.loads(a)['ids']
        order = [tuple(i[:-1]) for i in ids if len(i) >= 2 and i[-1] == 0]
        if order != list(loops):
            okflat = False
            c.broken_no_input('corr:block-order', 'loops appear in the script in an order different from the lexicographic order of block ids', dict(program=p.name, config=cfg_name(cfg), loops=loops, model=order, script=script))
    c.obligation('corr:block-order', okflat and len(flat_reqs) > 0, 'correspondence', '%d scripts: loop order equals the model\'s rendering of the block tree' % len(flat_reqs))
    if block_ans:
        res = json.loads(block_ans[0])['blocks']
        badk = [k for k, ((deps, bid), (b, scope)) in enumerate(zip(blocksample, res)) if tuple(b) != tuple(bid) or not scope]
        if badk:
            k = badk[0]
            c.broken_no_input('corr:get_block_id', 'get_block_id differs from max of the dependencies\' block ids', dict(deps=blocksample[k][0], real=blocksample[k][1], model=res[k]))
        c.obligation('corr:get_block_id', not badk, 'correspondence', '%d block id computations equal blockOf and satisfy scopeOK' % len(blocksample))

    # ---- M-core
    nok = 0
    for (g, root), a, (kind, val, scripts, tr) in zip(core_cases, core_ans, core_real):
        if a.startswith('bad-request'):
            raise Infra('C02 driver rejected a core request: ' + a[:200])
        a = json.loads(a)
        c.case(('core', json.dumps(root['j'])))
        if kind != 'ok':
            c.failing_input('compile-raises:base:' + shrink.skeleton(root['e']), 'compile of a sub-language program raises %r' % (val,), dict(expr=X.describe(root['e'], g.b.args), pickled=pack(root['e'], [g.b.args])))
            continue
        if tr[0] != 'ok':
            c.broken_no_input('corr:compileCore', 'cannot read the accumulator trace of a generated script: %s' % tr[1], dict(script=scripts[-1]))
            continue
        mt = model_trace(a['stmts'], a['result'], g)
        if mt == tr[1]:
            nok += 1
        else:
            counts['core:trace-differs'] += 1
            # search for a failing input first: does the value differ from the specification?
            res = lean_eval(c, [([root['e']], g.b.args)])[0] if counts['core:trace-differs'] <= 3 else None
            if res is not None and spec_status(res) == 'ok' and compare_with_spec(root['e'], res, val[0]):
                c.failing_input('compile-wrong-value:base:' + shrink.skeleton(root['e']), 'compiled sub-language program differs from its denotation', dict(expr=X.describe(root['e'], g.b.args), pickled=pack(root['e'], [g.b.args]), script=scripts[-1]))
            else:
                c.broken_no_input('corr:compileCore', 'the real script accumulates differently from the verified model compileCore (gate / mode / zero-fill placement)',
                                  dict(expr=root['j'], model=repr(mt), script_trace=repr(tr[1]), script=scripts[-1], pickled=pack(root['e'], [g.b.args])))
    c.obligation('corr:compileCore', nok == len(core_cases), 'correspondence', '%d of %d sub-language programs: accumulator traces of the real script equal those of compileCore' % (nok, len(core_cases)))
    # the statement semantics of the model (execL) and its denotation (eval) against the real values
    nex = 0
    for (g, root), a, (kind, val, scripts, tr) in zip(core_cases, exec_ans, core_real):
        if a.startswith('bad-request'):
            raise Infra('C02 driver rejected an exec request: ' + a[:200])
        if kind != 'ok':
            continue
        a = json.loads(a)
        real = [int(round(4 * float(x))) for x in numpy.asarray(val[0]).reshape(-1)]
        if a['wf'] and a['run'] == real and a['eval'] == real:
            nex += 1
        elif a['wf'] and a['run'] == a['eval']:
            # model script and model denotation agree with each other but not with the real function: look at the oracle
            res = lean_eval(c, [([root['e']], g.b.args)])[0] if nex >= 0 else None
            if res is not None and spec_status(res) == 'ok' and compare_with_spec(root['e'], res, val[0]):
                c.failing_input('compile-wrong-value:base:' + shrink.skeleton(root['e']), 'compiled sub-language program differs from its denotation', dict(expr=X.describe(root['e'], g.b.args), pickled=pack(root['e'], [g.b.args]), script=scripts[-1]))
            else:
                c.broken_no_input('corr:compileCore-exec', 'the Lean model of the sub-language (eval) disagrees with the real value, the specification evaluator does not', dict(expr=root['j'], model=a, real=real))
        else:
            c.broken_no_input('corr:compileCore-exec', 'executing the script of compileCore in the Lean statement semantics does not give the model denotation / the instance is not well-formed', dict(expr=root['j'], model=a, real=real))
    c.obligation('corr:compileCore-exec', nex == sum(1 for r in core_real if r[0] == 'ok') and nex > 0, 'correspondence',
                 '%d sub-language programs: execL(compileCore e) = eval e = value of the real compiled function (integers, exact)' % nex)

    # ---- systematic streams (worker processes)
    stream_verdicts(c, streams, counts)

    # ---- evidence
    table = {k: hits.n.get(k, 0) for k in EXPECTED_BRANCHES}
    c.extra['branch_hits'] = table
    c.extra['branches_never_hit'] = [k for k, v in table.items() if not v]
    c.extra['other_hits'] = {k: v for k, v in hits.n.items() if k not in table}
    for k, v in counts.items(): c.count(k, v)
    for b in broken:
        c.broken_no_input('proof', b, dict(detail=b))
