"""C02 — optimised code generation is a faithful translation of the expression.

Three ties to the source, all on REAL output of `nutils.evaluable.compile`:

(M-eval)   the property's oracle.  Programs (random DAGs from nvh.genexpr, nested tuples sharing subterms and
           loops, and a deliberately enumerated catalogue of program shapes that force every branch of the
           in-place protocol) are compiled with the real `evaluable.compile` under every compile configuration
           (_simplify x _optimize x cache_const_intermediates x stats x maxprocs) and run on dyadic arguments;
           structure, shapes, dtypes and values are compared with the Lean specification evaluator
           (Model/Expr.lean, driver Expr) applied to the UN-simplified, UN-optimised tree.  `numpy.empty` is
           replaced (in the globals of the generated function only) by a sentinel-filled allocation so that a
           cell that is never written shows up as a wrong value.
(V-opt)    validation of the numpy-optimisation pass for all real arguments: (e, optimised e) pairs — whole
           programs and one minimal instance per `_optimized_for_numpy` rule — are compared symbolically in Lean.
(X-script) static translation validation: every captured script is parsed with `ast` into the statement language
           of Model/C02.lean and the Lean checker (driver C02) decides the well-formedness predicates about which
           Props/C02.lean proves `initialised_before_use_sound` etc.
(M-core)   the verified model `compileCore` of the in-place protocol is compared, accumulator trace by
           accumulator trace, with the real scripts of tree programs of its sub-language.
"""
import base64, pickle, numpy, collections, itertools, json, ast, re, threading, time, warnings
from nutils import evaluable as ev, types, parallel, _util
from . import genexpr, ser, shrink, exprcheck as X
from .common import Infra

warnings.simplefilter('ignore')

KIND = {bool: 'b', int: 'i', float: 'f', complex: 'c'}
INT_SENTINEL = 0x3b3b3b3b


# ======================================================================================= capture of scripts

class _Sentinel:
    """numpy / parallel stand-ins handed to the generated function: identical to the real modules except that
    freshly allocated `empty` arrays are filled with a sentinel (nan / large int / True)."""

    def __init__(self, mod, names):
        self._mod = mod
        self._names = names

    def __getattr__(self, name):
        v = getattr(self._mod, name)
        if name in self._names:
            def alloc(*a, **kw):
                arr = v(*a, **kw)
                k = arr.dtype.kind
                if arr.size:
                    arr.fill(numpy.nan if k in 'fc' else True if k == 'b' else INT_SENTINEL)
                return arr
            return alloc
        return v


class Capture:
    """wraps nutils._util.function (== evaluable.util.function) in the harness process; records every script"""

    def __init__(self, sentinel=True):
        self.scripts = []
        self.sentinel = sentinel

    def __enter__(self):
        self._orig = _util.function
        def function(script, globals={}):
            self.scripts.append(script)
            g = dict(globals)
            if self.sentinel:
                if 'numpy' in g: g['numpy'] = _Sentinel(g['numpy'], ('empty',))
                if 'parallel' in g: g['parallel'] = _Sentinel(g['parallel'], ('shempty',))
            return self._orig(script, g)
        _util.function = function
        assert ev.util is _util
        return self

    def __exit__(self, *exc):
        _util.function = self._orig


# ======================================================================================= configurations

Config = collections.namedtuple('Config', 'simplify optimize cache stats maxprocs')
STATS = (None, False, 'log')


def all_configs():
    return [Config(s, o, c, st, m) for s in (False, True) for o in (False, True) for c in (False, True) for st in STATS for m in (1, 2)]


def cfg_name(cfg):
    return 's%d-o%d-c%d-%s-p%d' % (cfg.simplify, cfg.optimize, cfg.cache, {None: 'none', False: 'off', 'log': 'log'}[cfg.stats], cfg.maxprocs)


BASE = Config(False, False, False, False, 1)


def run_config(funcs, args_list, cfg, timeout=30):
    """compile `funcs` (array or nested tuple) with the real compile() and call it on every args of args_list.
    returns (kind, values, scripts): kind 'ok' -> values = list of results; 'exception'/'hang' -> values = exc"""
    import treelog
    with Capture() as cap:
        def go():
            with treelog.set(treelog.NullLog()), parallel.maxprocs(cfg.maxprocs), numpy.errstate(all='ignore'):
                f = ev.compile(funcs, stats=cfg.stats, cache_const_intermediates=cfg.cache, _simplify=cfg.simplify, _optimize=cfg.optimize)
                return [f(a) for a in args_list]
        kind, val = X.guarded(go, timeout)
    return kind, val, cap.scripts


# ======================================================================================= comparison with the spec

def flatten(struct):
    """nested tuple/list of arrays -> (format tree, flat list)"""
    flat = []
    def go(o):
        if isinstance(o, (tuple, list)):
            return tuple(go(x) for x in o)
        flat.append(o)
        return '*'
    return go(struct), flat


def same_structure(fmt, val):
    if fmt == '*':
        return not isinstance(val, (tuple, list))
    return isinstance(val, tuple) and len(val) == len(fmt) and all(same_structure(f, v) for f, v in zip(fmt, val))


def compare_with_spec(funcs, lean_results, value):
    """-> list of problems (empty = agrees); lean_results: one Lean result object per flat array of funcs"""
    fmt, flat = flatten(funcs)
    if not same_structure(fmt, value):
        return ['structure']
    _, vals = flatten(value)
    bad = []
    for i, (e, res, v) in enumerate(zip(flat, lean_results, vals)):
        v = numpy.asarray(v)
        if v.dtype.kind != KIND[e.dtype]:
            bad.append('dtype[%d]:%s' % (i, v.dtype))
            continue
        m = X.compare_result(res, v)
        if m not in ('exact', 'close'):
            bad.append('%s[%d]' % (m, i))
    return bad


def spec_status(lean_results):
    """'ok' when every root has a value; otherwise the first error kind"""
    for r in lean_results:
        if 'error' in r:
            return r['error']
    return 'ok'


def pack(funcs, args_list):
    return base64.b64encode(pickle.dumps((funcs, args_list))).decode()


# ======================================================================================= branch-hit instrumentation

INPLACE_CLASSES = ('Add', 'Inflate', 'Assemble', 'Diagonalize', 'Transpose', 'LoopSum', 'LoopConcatenate')
EXPECTED_BRANCHES = (
    [('cwo:%s:%s' % (cls, mode)) for cls in INPLACE_CLASSES for mode in ('assign', 'iadd')] +
    ['cwo:LoopSum:NotImplemented', 'cwo:LoopConcatenate:NotImplemented',
     'gate:inplace', 'gate:ndependents>1', 'gate:block<out_block', 'gate:no-inplace-protocol',
     'fallback:assign', 'fallback:iadd', 'fallback:in-loop', 'fallback:outside-loop',
     'Add._compile:inplace', 'Add._compile:plain',
     'alloc:outside-loop', 'alloc:inside-loop', 'alloc:outside-loop-for-array-inside-loop', 'alloc:shared',
     'zero:block0', 'zero:in-loop', 'stmt:inner-loop-block', 'stmt:outer-loop-block',
     'loops:merged-same-id', 'loops:adjacent', 'loops:nested', 'loops:dependent-shape',
     'rerun:blocks-skipped', 'parallel:ctxrange'])


class Hits:
    """wraps the in-place protocol methods of the real code (in this process only) and counts branches"""

    def __init__(self):
        self.n = collections.Counter()
        self._saved = []

    def _patch(self, obj, name, new):
        self._saved.append((obj, name, obj.__dict__[name]))
        setattr(obj, name, new)

    def __enter__(self):
        hits = self.n
        for clsname in INPLACE_CLASSES:
            cls = getattr(ev, clsname)
            orig = cls.__dict__['_compile_with_out']
            def wrapped(self, builder, out, out_block_id, mode, _orig=orig, _name=clsname):
                r = _orig(self, builder, out, out_block_id, mode)
                hits['cwo:%s:%s' % (_name, 'NotImplemented' if r is NotImplemented else mode)] += 1
                return r
            self._patch(cls, '_compile_with_out', wrapped)
        B = ev._BlockTreeBuilder
        orig_cwo = B.__dict__['compile_with_out']
        def compile_with_out(self, evaluable, out, out_block_id, mode):
            bid = self.get_block_id(evaluable)
            if self.ndependents[evaluable] > 1:
                gate = 'ndependents>1'
            elif bid < out_block_id:
                gate = 'block<out_block'
            elif type(evaluable)._compile_with_out is ev.Array._compile_with_out:
                gate = 'no-inplace-protocol'
            else:
                gate = 'inplace'   # may still end in NotImplemented (counted per class)
            hits['gate:' + gate] += 1
            if gate != 'inplace':
                hits['fallback:' + mode] += 1
                hits['fallback:in-loop' if len(max(bid, out_block_id)) > 1 else 'fallback:outside-loop'] += 1
            return orig_cwo(self, evaluable, out, out_block_id, mode)
        self._patch(B, 'compile_with_out', compile_with_out)
        orig_new = B.__dict__['new_empty_array_for_evaluable']
        def new_empty(self, array):
            out, out_block_id = orig_new(self, array)
            alloc = max(map(self.get_block_id, array.shape)) if array.ndim else (0,)
            hits['alloc:inside-loop' if len(alloc) > 1 else 'alloc:outside-loop-for-array-inside-loop' if len(out_block_id) > 1 else 'alloc:outside-loop'] += 1
            hits['zero:in-loop' if len(out_block_id) > 1 else 'zero:block0'] += 1
            if out in self._shared_arrays:
                hits['alloc:shared'] += 1
            return out, out_block_id
        self._patch(B, 'new_empty_array_for_evaluable', new_empty)
        orig_add = ev.Add.__dict__['_compile']
        def add_compile(self, builder):
            inplace = any(builder.ndependents[func] == 1 and type(func)._compile_with_out != ev.Array._compile_with_out for func in self.funcs)
            hits['Add._compile:inplace' if inplace else 'Add._compile:plain'] += 1
            return orig_add(self, builder)
        self._patch(ev.Add, '_compile', add_compile)
        orig_gb = B.__dict__['get_block_for_evaluable']
        def get_block_for_evaluable(self, evaluable, *, block_id=None, comment=''):
            bid = self.get_block_id(evaluable) if block_id is None else block_id
            if len(bid) > 2: hits['stmt:inner-loop-block'] += 1
            elif len(bid) == 2: hits['stmt:outer-loop-block'] += 1
            return orig_gb(self, evaluable, block_id=block_id, comment=comment)
        self._patch(B, 'get_block_for_evaluable', get_block_for_evaluable)
        return self

    def __exit__(self, *exc):
        for obj, name, old in reversed(self._saved):
            setattr(obj, name, old)


def script_features(script, hits):
    """structural features of a generated script (counted into the branch table)"""
    loops = re.findall(r"'loop ([0-9,]+)'", script)
    ids = [tuple(int(x) for x in l.split(',')) for l in loops]
    if any(len(i) > 1 for i in ids): hits['loops:nested'] += 1
    tops = [i for i in ids if len(i) == 1]
    if len(tops) > 1: hits['loops:adjacent'] += 1
    if 'parallel.ctxrange' in script: hits['parallel:ctxrange'] += 1
    if re.search(r'^\s+else:\s*$', script, re.M): hits['rerun:else-branch'] += 1


# ======================================================================================= program catalogue

class Builder:
    """collects dyadic argument values for hand-built programs"""

    def __init__(self, rng):
        self.rng = rng
        self.args = {}
        self.n = itertools.count()
        self.nl = itertools.count()

    def val(self, shape, dtype=float, lo=-3, hi=3):
        r = numpy.random.default_rng(self.rng.getrandbits(32))
        if dtype == bool:
            return r.integers(0, 2, shape).astype(bool)
        if dtype == int:
            return r.integers(lo, hi+1, shape)
        return r.integers(-8, 9, shape) / self.rng.choice([1., 2., 4.])

    def arg(self, *shape, dtype=float, lo=-3, hi=3):
        name = 'x%d' % next(self.n)
        self.args[name] = self.val(shape, dtype, lo, hi)
        return ev.Argument(name, tuple(ev.constant(int(n)) for n in shape), dtype)

    def const(self, *shape, dtype=float, lo=-3, hi=3):
        return ev.Constant(types.arraydata(self.val(shape, dtype, lo, hi)))

    def perm(self, n):
        p = list(range(n)); self.rng.shuffle(p)
        return ev.Constant(types.arraydata(numpy.array(p)))

    def idx(self, m, n):
        """constant index vector of length m with values in [0, n), possibly with repetitions"""
        return ev.Constant(types.arraydata(numpy.array([self.rng.randrange(n) for _ in range(m)])))

    def loop(self, n):
        return ev.loop_index('L%d' % next(self.nl), ev.constant(n))


def Add(a, b): return ev.Add(types.frozenmultiset([a, b]))
def Mul(a, b): return ev.Multiply(types.frozenmultiset([a, b]))
def Infl(f, dofmap, n): return ev.Inflate(f, dofmap, ev.constant(n))
def Tr(f, *axes): return ev.Transpose(f, tuple(axes))
def Ins(f, n): return ev.InsertAxis(f, ev.constant(n))
def cast(e, dtype): return e if e.dtype == dtype else ev.IntToFloat(e) if dtype == float else e


def row(A, i):
    """A[..., i] for a loop index i (Take along the last axis)"""
    return ev.Take(A, i)


def catalogue(rng, dtype=float):
    """deliberately enumerated program shapes: name -> (funcs, args).  Every in-place protocol, both modes, gates,
    allocation inside/outside loops, statement placement in inner/outer loop blocks, adjacent/nested/merged loops,
    loop-dependent shapes, tuples sharing subterms and loops."""
    progs = {}
    # Inflate / LoopSum do not exist for bool: only the programs that are well-typed are built
    bool_ok = ('add-plain', 'diagonalize-argument', 'concat-const-chunk', 'concat-chunk2', 'concat-diagonalize', 'concat-variable-chunk',
               'concat-variable-chunk-2d', 'concat-zero-trip', 'add-concat-inplace', 'concat-of-concat-result', 'concat-nested-variable')
    def prog(name):
        def deco(f):
            if dtype == bool and name not in bool_ok:
                return f
            b = Builder(rng)
            try:
                funcs = f(b)
            except Exception as e:   # a catalogue entry that cannot be built is a harness problem
                raise Infra('catalogue entry %s cannot be built: %r' % (name, e))
            progs[name] = (funcs, b.args)
            return f
        return deco
    T = dtype
    A = lambda b, *s: b.arg(*s, dtype=T)

    # ---- Add
    @prog('add-plain')
    def _(b): return Add(A(b, 3), A(b, 3))
    @prog('add-inflate')
    def _(b): return Add(Infl(A(b, 3), b.idx(3, 4), 4), A(b, 4))
    @prog('add-inflate-perm-2d')
    def _(b): return Add(Infl(A(b, 2, 3), b.perm(3), 3), A(b, 2, 3))
    @prog('add-two-inflates')
    def _(b): return Add(Infl(A(b, 2), b.idx(2, 3), 3), Infl(A(b, 3), b.idx(3, 3), 3))
    @prog('add-nested')
    def _(b): return Add(Add(Infl(A(b, 2), b.idx(2, 3), 3), A(b, 3)), Add(A(b, 3), A(b, 3)))
    @prog('add-shared-inflate-tuple')
    def _(b):
        I = Infl(A(b, 3), b.idx(3, 3), 3)
        return (Add(I, A(b, 3)), Add(I, A(b, 3)))
    @prog('add-same-twice')
    def _(b):
        I = Infl(A(b, 3), b.idx(3, 3), 3)
        return Add(I, I)
    @prog('add-shared-with-root')
    def _(b):
        I = Infl(A(b, 3), b.idx(3, 3), 3)
        return (I, (Add(I, A(b, 3)),))
    @prog('add-of-shared-add')
    def _(b):
        S = Add(Infl(A(b, 3), b.idx(3, 3), 3), A(b, 3))
        return Add(Mul(S, S), S)
    @prog('add-inflate-2d-dofmap')
    def _(b): return Add(Infl(A(b, 2, 2, 2), ev.Constant(types.arraydata(numpy.array([[0, 2], [1, 2]]))), 3), A(b, 2, 3))
    @prog('add-inflate-0d-dofmap')
    def _(b): return Add(Infl(A(b, 2), ev.constant(1), 3), A(b, 2, 3))
    @prog('inflate-alone')
    def _(b): return Infl(A(b, 2, 3), b.idx(3, 4), 4)
    @prog('inflate-nonconstant-dofmap')
    def _(b): return Infl(A(b, 3), ev.InRange(b.arg(3, dtype=int, lo=0, hi=3), ev.constant(4)), 4)
    @prog('inflate-of-inflate')
    def _(b): return Infl(Tr(Infl(A(b, 2, 2), b.idx(2, 3), 3), 1, 0), b.idx(2, 4), 4)

    # ---- Diagonalize / Transpose
    @prog('diagonalize-argument')
    def _(b): return ev.Diagonalize(A(b, 2, 3))
    @prog('diagonalize-add-inflate')
    def _(b): return ev.Diagonalize(Add(Infl(A(b, 2), b.idx(2, 3), 3), A(b, 3)))
    @prog('add-diagonalize')
    def _(b): return Add(ev.Diagonalize(A(b, 3)), A(b, 3, 3))
    @prog('add-diagonalize-inflate')
    def _(b): return Add(ev.Diagonalize(Infl(A(b, 2), b.idx(2, 3), 3)), A(b, 3, 3))
    @prog('add-transpose-inflate')
    def _(b): return Add(Tr(Infl(A(b, 2, 3), b.idx(3, 3), 3), 1, 0), A(b, 3, 2))
    @prog('add-transpose3-inflate')
    def _(b): return Add(Tr(Infl(A(b, 2, 3, 2), b.idx(2, 4), 4), 2, 0, 1), A(b, 4, 2, 3))
    @prog('add-transpose-diagonalize')
    def _(b): return Add(Tr(ev.Diagonalize(A(b, 2, 3)), 1, 0, 2), A(b, 3, 2, 3))
    @prog('diagonalize-transpose-add')
    def _(b): return ev.Diagonalize(Tr(Add(Infl(A(b, 2, 2), b.idx(2, 3), 3), A(b, 2, 3)), 1, 0))
    @prog('stack-inflate-3d')   # the shape of program of the pinned-tree defect
    def _(b):
        a = A(b, 3, 3, 2); c = A(b, 3, 3, 2)
        return tuple(ev.stack([ev._inflate(a, ev.constant(numpy.array([2, 0, 1])), ev.constant(3), 1), c], k) for k in range(4))

    # ---- LoopSum
    @prog('loopsum-basic')
    def _(b):
        i = b.loop(3); return ev.loop_sum(row(A(b, 2, 3), i), i)
    @prog('loopsum-scalar')
    def _(b):
        i = b.loop(3); return ev.loop_sum(row(A(b, 3), i), i)
    @prog('loopsum-zero-trip')
    def _(b):
        i = b.loop(0); return ev.loop_sum(row(A(b, 2, 0), i), i)
    @prog('loopsum-add-invariant')
    def _(b):
        i = b.loop(3); return ev.loop_sum(Add(row(A(b, 2, 3), i), A(b, 2)), i)
    @prog('loopsum-inflate-loopdofmap')
    def _(b):
        i = b.loop(3)
        D = ev.Constant(types.arraydata(numpy.array([[0, 1, 2], [1, 2, 3]])))
        return ev.loop_sum(Infl(row(A(b, 2, 3), i), row(D, i), 4), i)
    @prog('loopsum-add-of-inflates')
    def _(b):
        i = b.loop(2)
        D = ev.Constant(types.arraydata(numpy.array([[0, 1], [2, 1]])))
        return ev.loop_sum(Add(Infl(row(A(b, 2, 2), i), row(D, i), 3), Infl(A(b, 3), b.perm(3), 3)), i)
    @prog('loopsum-transpose-diagonalize')
    def _(b):
        i = b.loop(2); return ev.loop_sum(Tr(ev.Diagonalize(row(A(b, 3, 2, 2), i)), 1, 2, 0), i)
    @prog('loopsum-nested')
    def _(b):
        i = b.loop(2); j = b.loop(3)
        return ev.loop_sum(ev.loop_sum(Add(row(row(A(b, 2, 2, 3), j), i), row(A(b, 2, 3), j)), j), i)
    @prog('loopsum-nested-times-outer')
    def _(b):
        i = b.loop(2); j = b.loop(3)
        inner = ev.loop_sum(row(row(A(b, 2, 2, 3), j), i), j)
        return ev.loop_sum(Mul(inner, row(A(b, 2, 2), i)), i)
    @prog('loopsum-nested-shared-inner')
    def _(b):
        i = b.loop(2); j = b.loop(3)
        inner = ev.loop_sum(row(A(b, 2, 3), j), j)   # invariant of the outer loop
        return ev.loop_sum(Add(Mul(inner, row(A(b, 2, 2), i)), inner), i)
    @prog('loopsum-adjacent-equal')
    def _(b):
        i = b.loop(3); j = b.loop(3)
        return Add(ev.loop_sum(row(A(b, 2, 3), i), i), ev.loop_sum(row(A(b, 2, 3), j), j))
    @prog('loopsum-adjacent-different')
    def _(b):
        i = b.loop(3); j = b.loop(2)
        return (ev.loop_sum(row(A(b, 2, 3), i), i), ev.loop_sum(row(A(b, 2, 2), j), j))
    @prog('loopsum-dependent')
    def _(b):
        i = b.loop(3); j = b.loop(3)
        S = ev.loop_sum(row(A(b, 2, 3), i), i)
        return ev.loop_sum(Mul(S, row(A(b, 2, 3), j)), j)
    @prog('loopsum-same-index-two-sums')
    def _(b):
        i = b.loop(3)
        return (ev.loop_sum(row(A(b, 2, 3), i), i), Add(ev.loop_sum(row(A(b, 2, 3), i), i), A(b, 2)))
    @prog('loopsum-shared-between-outputs')
    def _(b):
        i = b.loop(3)
        S = ev.loop_sum(Infl(row(A(b, 2, 3), i), b.idx(2, 3), 3), i)
        return (S, (Add(S, A(b, 3)), Mul(S, S)))
    @prog('add-loopsum-inplace')
    def _(b):
        i = b.loop(3); return Add(ev.loop_sum(row(A(b, 2, 3), i), i), A(b, 2))
    @prog('loopsum-index-value')
    def _(b):
        i = b.loop(3); w = cast(i, T)
        return ev.loop_sum(Mul(row(A(b, 2, 3), i), Ins(w, 2)), i)
    @prog('loopsum-late-alloc')   # out allocated after a merged sibling loop: LoopSum answers NotImplemented
    def _(b):
        i = b.loop(3); j = b.loop(3)
        n = ev.loop_sum(ev.Take(ev.Constant(types.arraydata(numpy.array([1, 0, 1]))), i), i)   # == 2, known only after loop i
        S = ev.loop_sum(row(A(b, 2, 3), j), j)
        return Add(S, ev.InsertAxis(A(b), n))

    # ---- LoopConcatenate
    @prog('concat-const-chunk')
    def _(b):
        i = b.loop(3); return ev.loop_concatenate(Ins(row(A(b, 2, 3), i), 1), i)
    @prog('concat-chunk2')
    def _(b):
        i = b.loop(2); return ev.loop_concatenate(row(A(b, 3, 2, 2), i), i)
    @prog('concat-add-inflate')
    def _(b):
        i = b.loop(2)
        return ev.loop_concatenate(Add(Infl(row(A(b, 2, 2), i), b.idx(2, 3), 3), A(b, 3)), i)
    @prog('concat-transpose-add')
    def _(b):
        i = b.loop(2)
        return ev.loop_concatenate(Tr(Add(Infl(row(A(b, 2, 2, 2), i), b.idx(2, 3), 3), A(b, 2, 3)), 1, 0), i)
    @prog('concat-diagonalize')
    def _(b):
        i = b.loop(2); return ev.loop_concatenate(ev.Diagonalize(row(A(b, 2, 2), i)), i)
    @prog('concat-variable-chunk')
    def _(b):
        i = b.loop(3)
        n = i + ev.constant(1)
        return ev.loop_concatenate(cast(ev.Range(n), T) if T != bool else ev.Less(ev.Range(n), ev.InsertAxis(ev.constant(1), n)), i)
    @prog('concat-variable-chunk-2d')
    def _(b):
        i = b.loop(3)
        n = i + ev.constant(1)
        return ev.loop_concatenate(ev.InsertAxis(row(A(b, 2, 3), i), n), i)
    @prog('concat-zero-trip')
    def _(b):
        i = b.loop(0); return ev.loop_concatenate(Ins(row(A(b, 2, 0), i), 2), i)
    @prog('add-concat-inplace')
    def _(b):
        i = b.loop(3); return Add(ev.loop_concatenate(Ins(row(A(b, 2, 3), i), 1), i), A(b, 2, 3))
    @prog('concat-in-loopsum')
    def _(b):
        i = b.loop(2); j = b.loop(3)
        return ev.loop_sum(ev.loop_concatenate(Ins(row(row(A(b, 2, 2, 3), j), i), 1), j), i)
    @prog('loopsum-in-concat')
    def _(b):
        i = b.loop(2); j = b.loop(3)
        return ev.loop_concatenate(Ins(ev.loop_sum(row(row(A(b, 2, 2, 3), j), i), j), 1), i)
    @prog('concat-nested-variable')
    def _(b):
        i = b.loop(2); j = b.loop(2)
        inner = ev.loop_concatenate(ev.InsertAxis(row(row(A(b, 2, 2), j), i), i + ev.constant(1)), j)   # length 2*(i+1)
        return ev.loop_concatenate(inner, i)
    @prog('concat-and-sum-same-loop')
    def _(b):
        i = b.loop(3); a = A(b, 2, 3)
        return (ev.loop_concatenate(Ins(row(a, i), 1), i), ev.loop_sum(row(a, i), i))
    @prog('concat-of-concat-result')
    def _(b):
        i = b.loop(3); j = b.loop(3)
        C = ev.loop_concatenate(Ins(row(A(b, 2, 3), i), 1), i)
        return ev.loop_concatenate(Ins(Mul(row(C, j), row(A(b, 2, 3), j)), 1), j)
    @prog('concat-late-alloc')
    def _(b):
        i = b.loop(3); j = b.loop(3)
        n = ev.loop_sum(ev.Take(ev.Constant(types.arraydata(numpy.array([1, 0, 0]))), i), i)   # == 1
        C = ev.loop_concatenate(Ins(row(A(b, 2, 3), j), 1), j)
        return Add(C, ev.InsertAxis(A(b, 2), ev.constant(2) + n))
    # ---- loop-dependent shapes: arrays that must be allocated inside the loop
    @prog('loopsum-variable-shape-diagonalize')
    def _(b):
        i = b.loop(3); n = i + ev.constant(1)
        D = ev.Diagonalize(ev.InsertAxis(row(A(b, 2, 3), i), n))            # (2, n, n)
        return ev.loop_sum(ev.Sum(ev.Sum(Add(D, ev.InsertAxis(ev.InsertAxis(row(A(b, 2, 3), i), n), n)))), i)
    @prog('loopsum-variable-shape-inner-loopsum')
    def _(b):
        i = b.loop(2); j = b.loop(2); n = i + ev.constant(1)
        inner = ev.loop_sum(ev.InsertAxis(row(row(A(b, 2, 2, 2), j), i), n), j)   # (2, n) allocated per i
        return ev.loop_sum(ev.Sum(inner), i)
    @prog('concat-variable-shape-inner-inflate')
    def _(b):
        i = b.loop(3); n = i + ev.constant(2)
        body = ev.Inflate(row(A(b, 2, 3), i), b.idx(2, 2), n)                  # (n,) allocated per i
        return ev.loop_concatenate(Add(body, ev.InsertAxis(A(b), n)), i)
    return progs
