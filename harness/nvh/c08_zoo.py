"""Topology zoo for C08: every entry covers the unit box [0,1]^d with its reference geometry `x0`, so that polynomial
geometry maps of the box, exact integrals and the outward normals of the image are known independently of the mesh."""
import itertools, numpy
from fractions import Fraction


class Z:
    def __init__(self, name, topo, x0, d, **kw):
        self.name, self.topo, self.x0, self.d = name, topo, x0, d
        self.family = kw.pop('family', name)
        self.simplex = kw.pop('simplex', False)      # contains simplices: gauss degree is a total degree
        self.spaces = kw.pop('spaces', None)
        self.__dict__.update(kw)


def dyadic_nodes(rng, n):
    """n elements on [0,1] with dyadic, non-uniform nodes"""
    if n == 1: return [0., 1.]
    while True:
        inner = sorted(set(rng.randint(1, 15) / 16. for _ in range(n - 1)))
        if len(inner) == n - 1: return [0.] + inner + [1.]


def kuhn(n):
    verts = numpy.array(list(itertools.product(range(n + 1), repeat=3)), dtype=float)
    idx = lambda i, j, k: (i * (n + 1) + j) * (n + 1) + k
    simplices = []
    for i, j, k in itertools.product(range(n), repeat=3):
        for perm in itertools.permutations(range(3)):
            p = [i, j, k]; s = [idx(*p)]
            for ax in perm:
                p[ax] += 1; s.append(idx(*p))
            simplices.append(sorted(s))
    return numpy.array(sorted(simplices)), verts / n


def base_zoo(rng, tier):
    """list of Z; construction failures of a kind are reported through `skipped`"""
    from nutils import mesh, function
    out, skipped = [], []

    def add(fn):
        try:
            z = fn()
            if z is not None: out.append(z)
        except Exception as e:
            skipped.append((fn.__name__, type(e).__name__ + ': ' + str(e)[:80]))

    def rect1():
        t, x = mesh.rectilinear([dyadic_nodes(rng, rng.randint(1, 3))]); return Z('rect1', t, x, 1)

    def line1():
        n = rng.randint(1, 3); t, x = mesh.line(n); return Z('line1', t, numpy.stack([x]) / n if x.ndim == 0 else x / n, 1)

    def rect2():
        t, x = mesh.rectilinear([dyadic_nodes(rng, rng.randint(1, 3)), dyadic_nodes(rng, rng.randint(1, 2))]); return Z('rect2', t, x, 2)

    def usq(etype):
        def f():
            n = rng.choice([1, 2, 3]) if etype != 'multipatch' else rng.choice([1, 2])
            t, x = mesh.unitsquare(n, etype)
            return Z('unitsquare-' + etype, t, x, 2, simplex=etype in ('triangle', 'mixed'))
        f.__name__ = 'unitsquare_' + etype
        return f

    def multipatch2():
        # two patches glued along an edge (rotated neighbours are exercised by unitsquare-multipatch)
        t, x = mesh.multipatch(patches=[[0, 1, 2, 3], [2, 3, 4, 5]], patchverts=[[0, 0], [0, 1], [.5, 0], [.5, 1], [1, 0], [1, 1]], nelems=rng.choice([1, 2]))
        return Z('multipatch2', t, x, 2)

    def prod2():
        X, x = mesh.line(dyadic_nodes(rng, rng.randint(1, 2)), space='X'); Y, y = mesh.line(dyadic_nodes(rng, rng.randint(1, 3)), space='Y')
        return Z('product-line-line', X * Y, numpy.stack([x, y]), 2, spaces=('X', 'Y'), factors=((X, x), (Y, y)))

    def rect3():
        t, x = mesh.rectilinear([dyadic_nodes(rng, rng.randint(1, 2)), dyadic_nodes(rng, 1), dyadic_nodes(rng, rng.randint(1, 2))]); return Z('rect3', t, x, 3)

    def permuted(s, c):
        """random renumbering of the vertices: the local vertex order (hence which local face is where) becomes random"""
        perm = list(range(len(c))); rng.shuffle(perm)
        perm = numpy.array(perm)
        s2 = numpy.sort(perm[s], axis=1)
        s2 = s2[numpy.lexsort(s2.T[::-1])]
        c2 = numpy.empty_like(c); c2[perm] = c
        return s2, c2

    def kuhn3():
        n = 1 if tier == 'quick' else rng.choice([1, 2])
        s, c = permuted(*kuhn(n))
        t, x = mesh.simplex(nodes=s, cnodes=s, coords=c, tags={}, btags={}, ptags={})
        return Z('tets-kuhn', t, x, 3, simplex=True)

    def triangles2():
        n = rng.choice([1, 2])
        v = numpy.arange(n + 1, dtype=float) / n
        c = numpy.array([[a, b] for a in v for b in v])
        idx = lambda i, j: i * (n + 1) + j
        s = []
        for i in range(n):
            for j in range(n):
                q = [idx(i, j), idx(i, j + 1), idx(i + 1, j), idx(i + 1, j + 1)]
                s += [[q[0], q[1], q[2]], [q[1], q[2], q[3]]] if rng.random() < .5 else [[q[0], q[1], q[3]], [q[0], q[2], q[3]]]
        s, c = permuted(numpy.array(s), c)
        t, x = mesh.simplex(nodes=s, cnodes=s, coords=c, tags={}, btags={}, ptags={})
        return Z('triangles-permuted', t, x, 2, simplex=True)

    def prod_tri_line():
        T, tx = mesh.unitsquare(rng.choice([1, 2]), 'triangle'); L, z = mesh.line(dyadic_nodes(rng, rng.randint(1, 2)), space='Z')
        return Z('product-triangles-line', T * L, numpy.stack([tx[0], tx[1], z]), 3, simplex=True, spaces=('X', 'Z'), factors=((T, tx), (L, z)))

    def prod_line_square():
        L, z = mesh.line(dyadic_nodes(rng, rng.randint(1, 2)), space='Z'); S, sx = mesh.rectilinear([dyadic_nodes(rng, 1), dyadic_nodes(rng, 2)])
        return Z('product-line-square', L * S, numpy.stack([z, sx[0], sx[1]]), 3, spaces=('Z', 'X'), factors=((L, z), (S, sx)))

    for fn in [rect1, line1, rect2, usq('square'), usq('triangle'), usq('mixed'), usq('multipatch'), multipatch2, triangles2, prod2, rect3, kuhn3, prod_tri_line, prod_line_square]:
        add(fn)
    return out, skipped


def refine(z, rng, how):
    """derived entry: uniformly refined / hierarchically refined; None when the topology kind does not support it"""
    try:
        if how == 'refined':
            t = z.topo.refined
        else:
            n = len(z.topo)
            sel = sorted(rng.sample(range(n), max(1, n // 3)))
            t = z.topo.refined_by(sel)
            if rng.random() < .5 and len(t) > 1:
                sel2 = sorted(rng.sample(range(len(t)), max(1, len(t) // 4)))
                t = t.refined_by(sel2)
        len(t)
    except Exception as e:
        return None
    kw = {k: v for k, v in z.__dict__.items() if k not in ('name', 'topo', 'x0', 'd', 'factors')}
    return Z(z.name + ':' + how, t, z.x0, z.d, **kw)
